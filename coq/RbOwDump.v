(* C11: reading a dump back through the WORDS of the file gives the queue the ring represents: the composition
   qb_rb_write_to_file ; qb_rb_create_from_file, word by word, instead of "the file transports the data area". *)
From Coq Require Import ZArith List Bool Lia ZifyBool FMapPositive.
Import ListNotations.
Require Import Verif.gen.Consts_rb Verif.RbModel Verif.RbSpec Verif.RbMem Verif.RbProofs Verif.RbRefine
               Verif.RbOwSpec Verif.RbOwProofs Verif.RbOwKeeps Verif.RbOwDumpModel.
Local Open Scope Z_scope.

Ltac Zify.zify_post_hook ::= Z.div_mod_to_equations.
Ltac spl := repeat match goal with |- _ /\ _ => split end.

(* ------------------------------------------------------------------ bytes of a stored word *)
Lemma ld_mem0 : forall a, ld mem0 a = 0.
Proof. intros a. Local Transparent ld. unfold ld, mem0. rewrite PositiveMap.gempty. reflexivity. Qed.
Global Opaque ld.

Lemma ld_stw_byte : forall m i v j, 0 <= i -> 0 <= j < 4 ->
  ld (stw m i v) (4 * i + j) = ((v mod two32) / 256 ^ j) mod 256.
Proof.
  intros m i v j Hi Hj. unfold stw. set (u := v mod two32).
  assert (H : j = 0 \/ j = 1 \/ j = 2 \/ j = 3) by lia.
  destruct H as [-> | [-> | [-> | ->]]].
  - rewrite Z.add_0_r. rewrite !ld_st_other by lia. rewrite ld_st_same. change (256 ^ 0) with 1. rewrite Z.div_1_r. reflexivity.
  - rewrite !ld_st_other by lia. rewrite ld_st_same. reflexivity.
  - rewrite !ld_st_other by lia. rewrite ld_st_same. reflexivity.
  - rewrite ld_st_same. reflexivity.
Qed.

Lemma bytes_ok_stw : forall m i v, bytes_ok m -> 0 <= i -> bytes_ok (stw m i v).
Proof.
  intros m i v H Hi a Ha.
  destruct (Z_lt_dec a (4 * i)) as [L|L]; [rewrite ld_stw_other by lia; apply H; lia|].
  destruct (Z_le_dec (4 * i + 4) a) as [G|G]; [rewrite ld_stw_other by lia; apply H; lia|].
  replace a with (4 * i + (a - 4 * i)) by lia. rewrite ld_stw_byte by lia.
  apply Z.mod_pos_bound. lia.
Qed.

Lemma bytes_ok_st : forall m a x, bytes_ok m -> 0 <= a -> 0 <= x < 256 -> bytes_ok (st m a x).
Proof.
  intros m a x H Ha Hx c Hc. destruct (Z.eq_dec c a) as [->|N].
  - rewrite ld_st_same. exact Hx.
  - rewrite ld_st_other by lia. apply H; lia.
Qed.

Lemma bytes_ok_write_bytes : forall d m W4 a, bytes_ok m -> chunk_bytes_ok d -> 0 < W4 ->
  bytes_ok (write_bytes m W4 a d).
Proof.
  induction d as [|x t IH]; intros m W4 a H Hd HW; cbn [write_bytes]; [exact H|].
  inversion Hd; subst. apply IH; try assumption.
  apply bytes_ok_st; try assumption. apply Z.mod_pos_bound; lia.
Qed.

Lemma ldw_nonneg : forall m i, bytes_ok m -> 0 <= i -> 0 <= ldw m i < two32.
Proof.
  intros m i H Hi. unfold ldw, two32.
  pose proof (H (4 * i) ltac:(lia)). pose proof (H (4 * i + 1) ltac:(lia)).
  pose proof (H (4 * i + 2) ltac:(lia)). pose proof (H (4 * i + 3) ltac:(lia)). lia.
Qed.

(* byte j of the word read at index i is the byte at 4i+j *)
Lemma ldw_byte : forall m i j, bytes_ok m -> 0 <= i -> 0 <= j < 4 ->
  ((ldw m i mod two32) / 256 ^ j) mod 256 = ld m (4 * i + j).
Proof.
  intros m i j H Hi Hj.
  pose proof (ldw_nonneg m i H Hi) as Hr. rewrite (Z.mod_small _ _ Hr).
  unfold ldw.
  pose proof (H (4 * i) ltac:(lia)). pose proof (H (4 * i + 1) ltac:(lia)).
  pose proof (H (4 * i + 2) ltac:(lia)). pose proof (H (4 * i + 3) ltac:(lia)).
  assert (Hc : j = 0 \/ j = 1 \/ j = 2 \/ j = 3) by lia.
  destruct Hc as [-> | [-> | [-> | ->]]].
  - change (256 ^ 0) with 1. rewrite Z.add_0_r. lia.
  - change (256 ^ 1) with 256. lia.
  - change (256 ^ 2) with 65536. lia.
  - change (256 ^ 3) with 16777216. lia.
Qed.

(* ------------------------------------------------------------------ the invariant "good" *)
Definition Good (b : rb) : Prop := 0 < rW b /\ 0 <= rpt b /\ 0 <= wpt b /\ bytes_ok (data b).

Lemma chunk_step_nonneg : forall W p n, 0 < W -> 0 <= p -> 0 <= n -> 0 <= chunk_step W p n.
Proof.
  intros W p n HW Hp Hn. unfold chunk_step. rbc.
  destruct (n mod (4 * 1) =? 0); destruct (W - 1 <? _); lia.
Qed.

Lemma good_open : forall S ns ow, 0 <= S -> Good (rb_open S ns ow).
Proof.
  intros S ns ow HS. pose proof (rb_open_W S ns ow) as (_ & HW).
  unfold Good. cbn [rb_open rpt wpt data]. spl; try lia.
  - destruct consts_ok as (_ & Hm & _). rbc. lia.
  - apply bytes_ok_stw; [|lia]. intros a Ha. rewrite ld_mem0. lia.
Qed.

Lemma good_reclaim : forall b, Good b -> Good (fst (reclaim b)).
Proof.
  intros b (HW & Hr & Hw & Hb). unfold reclaim.
  destruct ((rpt b =? wpt b) || _); cbn [fst]; [unfold Good; spl; assumption|].
  unfold Good; cbn [rW rpt wpt data]. spl; try assumption.
  - apply chunk_step_nonneg; try assumption. apply (ldw_nonneg _ _ Hb Hr).
  - apply bytes_ok_stw; [apply bytes_ok_stw; assumption|]. apply Z.mod_pos_bound; lia.
Qed.

Lemma good_make_room : forall fuel b need b1 rc, Good b -> ow_make_room fuel b need = Some (b1, rc) -> Good b1.
Proof.
  induction fuel as [|f IH]; intros b need b1 rc G H; rewrite ow_make_room_eq in H.
  - destruct (space_free b <? need); [discriminate|]. inversion H; subst; exact G.
  - destruct (space_free b <? need); [|inversion H; subst; exact G].
    pose proof (good_reclaim b G) as G1. destruct (reclaim b) as (b2, rc2). cbn [fst] in G1.
    destruct (rc2 =? 0); [eapply IH; eassumption | inversion H; subst; exact G1].
Qed.

Lemma good_set_sem : forall b s, Good b -> Good (set_sem b s).
Proof. intros b s G; exact G. Qed.
Lemma good_sem_post : forall b, Good b -> Good (sem_post b).
Proof. intros b G. unfold sem_post. destruct (sem b); [apply good_set_sem|]; exact G. Qed.

Lemma good_alloc_commit : forall b rlen d b' r, Good b -> chunk_bytes_ok d ->
  alloc_commit b rlen d = WRet b' r -> Good b'.
Proof.
  intros b rlen d b' r G Hd H. unfold alloc_commit in H.
  assert (Hhdr : forall b1, Good b1 ->
            match alloc_header b1 with
            | AOk b2 p => Good (fst (commit (set_data b2 (write_bytes (data b2) (4 * rW b2) (4 * p) d)) (zlen d)))
            | _ => True end).
  { intros b1 (HW & Hr & Hw & Hb). unfold alloc_header, commit. cbn [fst rW wpt rpt data set_data sem ovw].
    apply good_sem_post. unfold Good. cbn [rW wpt rpt data].
    assert (Hi1 : 0 <= (wpt b1 + 1) mod rW b1) by (apply Z.mod_pos_bound; lia).
    set (m2 := write_bytes _ _ _ d).
    assert (Hm2 : bytes_ok m2).
    { subst m2. apply bytes_ok_write_bytes; [|exact Hd|lia].
      apply bytes_ok_stw; [apply bytes_ok_stw; assumption|exact Hi1]. }
    spl; try assumption.
    - apply chunk_step_nonneg; try assumption.
      apply ldw_nonneg; [apply bytes_ok_stw; assumption | assumption].
    - apply bytes_ok_stw; [apply bytes_ok_stw; assumption | exact Hi1]. }
  unfold alloc in H. destruct (ovw b).
  - destruct (ow_make_room (Z.to_nat (rW b)) b (rlen + RB_CHUNK_MARGIN)) as [(b1, rc)|] eqn:EM; [|discriminate].
    pose proof (good_make_room _ _ _ _ _ G EM) as G1.
    destruct (rc =? 0).
    + specialize (Hhdr b1 G1). unfold alloc_header in *.
      destruct (commit _ _) as (b3, r3). inversion H; subst. exact Hhdr.
    + inversion H; subst. exact G1.
  - destruct (space_free b <? rlen + RB_CHUNK_MARGIN); [inversion H; subst; exact G|].
    specialize (Hhdr b G). unfold alloc_header in *.
    destruct (commit _ _) as (b3, r3). inversion H; subst. exact Hhdr.
Qed.

Lemma good_step : forall b o, Good b -> op_bytes_ok o -> Good (fst (step b o)).
Proof.
  intros b o G Ho. destruct o as [d | rlen d | n | | | | ]; cbn [step].
  - unfold write. destruct (alloc_commit b (zlen d) d) as [b1 r|] eqn:E; cbn [fst]; [|exact G].
    eapply good_alloc_commit; eassumption.
  - destruct (alloc_commit b rlen d) as [b1 r|] eqn:E; cbn [fst]; [|exact G].
    eapply good_alloc_commit; eassumption.
  - unfold read.
    assert (G1 : Good (fst (sem_trywait b))).
    { unfold sem_trywait. destruct (sem b) as [c|]; [destruct (0 <? c)|]; exact G. }
    destruct (sem_trywait b) as (b1, res). cbn [fst] in G1.
    destruct (res <? 0); [exact G1|].
    destruct (negb (chunk_ready b1)).
    + destruct (sem b1); cbn [fst]; [apply good_sem_post|]; exact G1.
    + destruct (n <? _); [apply good_sem_post; exact G1|].
      pose proof (good_reclaim b1 G1) as G2. destruct (reclaim b1) as (b2, rc). exact G2.
  - unfold peek.
    assert (G1 : Good (fst (sem_trywait b))).
    { unfold sem_trywait. destruct (sem b) as [c|]; [destruct (0 <? c)|]; exact G. }
    destruct (sem_trywait b) as (b1, res). cbn [fst] in G1.
    destruct (res <? 0); [exact G1|].
    destruct (negb (chunk_ready b1)); [apply good_sem_post|]; exact G1.
  - pose proof (good_reclaim b G) as G2. destruct (reclaim b) as (b2, rc). exact G2.
  - exact G.
  - exact G.
Qed.

Lemma good_run : forall ops b, Good b -> Forall op_bytes_ok ops -> Good (fst (run b ops)).
Proof.
  induction ops as [|o t IH]; intros b G Ho; cbn [run]; [exact G|].
  inversion Ho; subst.
  pose proof (good_step b o G H1) as G1. destruct (step b o) as (b1, x). cbn [fst] in G1.
  specialize (IH b1 G1 H2). destruct (run b1 t) as (b2, xs). exact IH.
Qed.

Lemma good_ow_writes : forall ws b b', Good b -> Forall (fun w => chunk_bytes_ok (snd w)) ws ->
  ow_writes b ws = Some b' -> Good b'.
Proof.
  induction ws as [|(rlen, d) t IH]; intros b b' G Hd H; cbn [ow_writes] in H.
  - inversion H; subst; exact G.
  - inversion Hd; subst. cbn [snd] in *.
    destruct (alloc_commit b rlen d) as [b1 r|] eqn:E; [|discriminate].
    destruct (r =? 0); [|discriminate].
    eapply IH; [eapply good_alloc_commit; eassumption | assumption | exact H].
Qed.

(* ------------------------------------------------------------------ loading the file's words *)
Lemma zlen_words_from : forall n m i, zlen (words_from m i n) = Z.of_nat n.
Proof. induction n as [|k IH]; intros m i; cbn [words_from]; [reflexivity|]. rewrite zlen_cons, IH. lia. Qed.

(* after loading the words of m (from word index i on) over any memory, the loaded range holds m's bytes *)
Lemma ld_load_words : forall n m0 m i a, bytes_ok m -> 0 <= i -> 0 <= a ->
  ld (load_words m0 i (words_from m i n)) a =
  if (4 * i <=? a) && (a <? 4 * (i + Z.of_nat n)) then ld m a else ld m0 a.
Proof.
  induction n as [|k IH]; intros m0 m i a Hb Hi Ha; cbn [words_from load_words].
  - destruct (4 * i <=? a) eqn:E1; destruct (a <? 4 * (i + Z.of_nat 0)) eqn:E2; cbn [andb]; try reflexivity; lia.
  - rewrite IH by (assumption || lia).
    destruct (Z_lt_dec a (4 * i)) as [L|L].
    { replace (4 * (i + 1) <=? a) with false by lia. replace (4 * i <=? a) with false by lia. cbn [andb].
      apply ld_stw_other; lia. }
    destruct (Z_lt_dec a (4 * i + 4)) as [M|M].
    { replace (4 * (i + 1) <=? a) with false by lia. replace (4 * i <=? a) with true by lia.
      replace (a <? 4 * (i + Z.of_nat (S k))) with true by lia. cbn [andb].
      replace a with (4 * i + (a - 4 * i)) by lia. rewrite ld_stw_byte by lia. apply ldw_byte; [assumption | lia | lia]. }
    replace (4 * (i + 1) <=? a) with true by lia. replace (4 * i <=? a) with true by lia.
    replace (4 * (i + 1 + Z.of_nat k)) with (4 * (i + Z.of_nat (S k))) by lia. cbn [andb].
    destruct (a <? 4 * (i + Z.of_nat (S k))); [reflexivity | apply ld_stw_other; lia].
Qed.

Lemma roundup_multiple : forall x y, 0 < y -> x mod y = 0 -> roundup x y = x.
Proof.
  intros x y Hy Hm. unfold roundup.
  assert (Hx : x = y * (x / y)) by (apply Z_div_exact_full_2; lia).
  set (k := x / y) in *.
  assert (Hq : (x + (y - 1)) / y = k).
  { symmetry. apply Z.div_unique with (r := y - 1); lia. }
  rewrite Hq. lia.
Qed.

(* ------------------------------------------------------------------ the round trip *)
Theorem dump_roundtrip : forall b q, Repr b q -> Good b -> (RB_SIZEOF_WORD * rW b) mod RB_PAGE_SIZE = 0 ->
  exists fb, rb_from_dump (dump b) = Some fb /\ Repr fb q /\ sem fb = None /\ ovw fb = false /\ rW fb = rW b.
Proof.
  intros b q HR (HW0 & Hr0 & Hw0 & Hb) Hpage.
  pose proof HR as (HW & HW32 & Hr & Hu & Hw & Hc).
  assert (Hwr : 0 <= wpt b < rW b) by (rewrite Hw; apply Z.mod_pos_bound; lia).
  unfold dump, rb_from_dump.
  rewrite Z.eqb_refl. cbn [negb]. rewrite Z.eqb_refl. cbn [negb].
  rewrite zlen_words_from, Z2Nat.id by lia. rewrite Z.eqb_refl. cbn [negb].
  assert (HWf : rW (rb_open (RB_SIZEOF_WORD * rW b - (RB_CHUNK_MARGIN + RB_SIZE_EXTRA)) true false) = rW b).
  { cbn [rb_open rW].
    replace (RB_SIZEOF_WORD * rW b - (RB_CHUNK_MARGIN + RB_SIZE_EXTRA) + RB_CHUNK_MARGIN + RB_SIZE_EXTRA)
      with (RB_SIZEOF_WORD * rW b) by lia.
    destruct consts_ok as (_ & _ & _ & _ & Hsz & _ & Hp & _).
    rewrite roundup_multiple by assumption. rewrite Hsz. rewrite Z.mul_comm, Z.div_mul by lia. reflexivity. }
  eexists; split; [reflexivity|].
  rewrite HWf. spl; try reflexivity.
  unfold Repr. cbn [rW wpt rpt data].
  split; [exact HW|]. split; [exact HW32|]. split; [exact Hr|]. split; [exact Hu|]. split; [exact Hw|].
  apply chunks_at_frame with (m := data b); [lia | exact Hc |].
  intros A HA.
  assert (Hm : 0 <= A mod (4 * rW b) < 4 * rW b) by (apply Z.mod_pos_bound; lia).
  replace (rW b) with (Z.of_nat (Z.to_nat (rW b))) at 3 by lia.
  rewrite ld_load_words by (assumption || lia).
  rewrite Z2Nat.id by lia.
  destruct (4 * 0 <=? A mod (4 * rW b)) eqn:E1; destruct (A mod (4 * rW b) <? 4 * (0 + rW b)) eqn:E2; cbn [andb]; try reflexivity; lia.
Qed.

(* reading a dump back through the words of the file = the queue *)
Theorem readback_words_repr : forall b q n, Repr b q -> Good b -> (RB_SIZEOF_WORD * rW b) mod RB_PAGE_SIZE = 0 ->
  Forall (fun c => zlen c <= n) q -> readback_words b n = q.
Proof.
  intros b q n HR G Hp Hn. unfold readback_words.
  destruct (dump_roundtrip b q HR G Hp) as (fb & -> & HRf & Hs & _ & _).
  apply drain_all with (s := {| sq := q; stok := None |}).
  - split; [exact HRf | exact Hs].
  - reflexivity.
  - exact I.
  - exact (fuel_enough _ _ HRf).
  - exact Hn.
Qed.

Lemma open_page_multiple : forall S ns ow, (RB_SIZEOF_WORD * rW (rb_open S ns ow)) mod RB_PAGE_SIZE = 0.
Proof.
  intros S ns ow. pose proof (rb_open_W S ns ow) as (HW & _).
  destruct consts_ok as (_ & _ & _ & _ & Hsz & _ & Hp & _). rewrite Hsz, HW.
  apply roundup_ge. exact Hp.
Qed.

(* C11_suffix with the read-back done through the dump file's words *)
Theorem ow_suffix_words : forall S ns ws n, size_ok S -> Forall (wf_w S) ws -> Forall (fun w => zlen (snd w) <= n) ws ->
  Forall (fun w => chunk_bytes_ok (snd w)) ws ->
  exists b kept,
    ow_writes (rb_open S ns true) ws = Some b /\
    suffix kept ws /\ (ws <> [] -> kept <> []) /\
    (forall l, suffix l ws -> rfits S l = true -> suffix l kept) /\
    readback_words b n = map snd kept.
Proof.
  intros S ns ws n Hs Hwf Hn Hby.
  destruct (ow_suffix S ns ws n Hs Hwf Hn) as (b & kept & Hws & Hsuf & Hne & Hfit & HR & Hrb & _).
  exists b, kept. spl; try assumption.
  pose proof Hs as (HS0 & _).
  pose proof (good_ow_writes ws _ _ (good_open S ns true HS0) Hby Hws) as G.
  apply readback_words_repr; try assumption.
  - (* word_size never changes *)
    destruct (open_inv S ns true HS0 (proj2 Hs)) as (HI & Ho & _).
    pose proof (rb_open_W S ns true) as (_ & HW).
    destruct (ow_writes_keeps S ws _ _ [] HW HI Ho (keeps_nil S) Hwf) as (b2 & s2 & Hws2 & _ & _ & HW2 & _).
    rewrite Hws in Hws2. inversion Hws2; subst b2. rewrite HW2. apply open_page_multiple.
  - apply Forall_forall. intros c Hc. apply in_map_iff in Hc. destruct Hc as (w & <- & Hw).
    destruct Hsuf as (p & Hp). rewrite Forall_forall in Hn. apply Hn. rewrite Hp. apply in_or_app. right; exact Hw.
Qed.
