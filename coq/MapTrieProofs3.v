(* C17 trie part: histories that also register and delete notifiers (which creates and releases value-less trie
   nodes - the interior structure trie_rm used to mistake for keys): dictionary answers stay right. *)
From Coq Require Import List ZArith Bool Arith Lia.
Import ListNotations.
Require Import Verif.gen.Consts_trie Verif.MapTrieModel Verif.MapTrieSpec Verif.MapTrieProofs Verif.MapTrieProofs2.

Definition kvr (c : core) := (c_key c, c_val c, c_rc c, c_rem c).

Lemma upd_any : forall p n g,
  (forall i, n_key (g i) = n_key i /\ n_val (g i) = n_val i /\ n_rc (g i) = n_rc i /\ n_removed (g i) = n_removed i) ->
  forall q, kvr (obs_t (upd_t n p g) q) = kvr (obs_t n q).
Proof.
  induction p; intros n g Hg q; destruct n as [i seg f]; cbn [upd_t obs_t].
  - destruct (strip seg q 0); auto. destruct (sc <? length seg); auto.
    destruct (Hg i) as [A [B [C D]]]. unfold kvr, core_of. simpl. rewrite A, B, C, D. reflexivity.
  - destruct (strip seg q 0); auto. rewrite upd_f_fget. rewrite !obs_f_fget.
    destruct (fget f a) as [t|] eqn:G; auto.
    pose proof (fget_some_lt _ _ _ G) as Hlt.
    destruct (Nat.eq_dec (c2i c) a) as [e|e].
    + rewrite e, fget_fset_same, G by auto. apply IHp; auto.
    + rewrite fget_fset_other by congruence. reflexivity.
Qed.

Lemma all_upd : forall P p n g, all_t P n -> (forall i s, P i s -> P (g i) s) -> all_t P (upd_t n p g).
Proof.
  induction p; intros n g H Hg; destruct n as [i seg f]; cbn [upd_t all_t]; destruct H as [Hi Hf].
  - split; auto.
  - split; auto. rewrite upd_f_fget. destruct (fget f a) as [t|] eqn:G; auto.
    apply all_f_fset; auto. apply IHp; auto. eapply all_f_fget; eauto.
Qed.

Lemma upd_root_val : forall n p g, (forall i, n_val (g i) = n_val i) -> n_val (t_info (upd_t n p g)) = n_val (t_info n).
Proof. destruct n, p; simpl; auto. Qed.

Lemma inv_same_obs : forall t d r, Inv t d -> all_t wfi r -> t_seg r = [] -> n_val (t_info r) = None ->
  (forall q, kvr (obs_t r q) = kvr (obs_t (t_root t) q)) -> forall nid its,
  Inv {| t_root := r; t_len := t_len t; t_next := nid; t_iters := its |} d.
Proof.
  intros t d r HI W S HV O nid its. destruct HI as [Hwf Hhdr Hhv Hkey Hobs Hlen Hnd].
  constructor; simpl; auto.
  { intros q Hq. pose proof (O q) as X. unfold kvr in X. inversion X as [[X1 X2 X3 X4]]. rewrite X1, X2. apply Hkey; auto. }
  intros q Hq. pose proof (O q) as X. unfold kvr in X. inversion X as [[X1 X2 X3 X4]]. rewrite X2, X3, X4. apply Hobs; auto.
Qed.

Definition okvalid (k : option key) : Prop := match k with Some kk => kvalid kk | None => True end.

Lemma wfi_nots : forall i s l, wfi i s -> wfi (set_nots l i) s.
Proof. unfold wfi. simpl. auto. Qed.

Lemma notify_add_inv : forall fx t d k fn ev ud, Inv t d -> okvalid k -> Inv (fst (do_notify_add fx t k fn ev ud)) d.
Proof.
  intros fx t d k fn ev ud HI Hk. unfold do_notify_add.
  destruct ((match k with Some _ => true | None => false end) && has ev TRIE_NOTIFY_FREE); [exact HI|].
  assert (X : exists r1 p nid, (match k with
      | Some kk => match lookup (t_root t) kk true with
                   | Some p => (t_root t, p, t_next t)
                   | None => ins_t fx (t_root t) kk true (t_next t)
                   end
      | None => (t_root t, [], t_next t) end) = (r1, p, nid) /\ all_t wfi r1 /\ t_seg r1 = [] /\
      (forall q, obs_t r1 q = obs_t (t_root t) q) /\ n_val (t_info r1) = None).
  { destruct k as [kk|].
    - destruct (lookup (t_root t) kk true).
      + do 3 eexists. split; [reflexivity|]. destruct HI; auto.
      + destruct (ins_t fx (t_root t) kk true (t_next t)) as [[r1 p] nid] eqn:I. destruct Hk as [Hne Hnz].
        destruct (ins_ok fx _ _ (le_n _) _ _ _ _ _ _ (inv_wf _ _ HI) Hnz I) as [O1 [L1 W1]].
        do 3 eexists. split; [reflexivity|]. split; auto.
        pose proof (inv_hdr _ _ HI) as Hh. pose proof (inv_hval _ _ HI) as Hv.
        destruct (t_root t) as [i0 s0 f0]. simpl in Hh. subst s0.
        split; [eapply hdr_ins; eauto|]. split; auto. rewrite (hdr_ins_info _ _ _ _ _ _ _ _ Hne I). exact Hv.
    - do 3 eexists. split; [reflexivity|]. destruct HI; auto. }
  destruct X as [r1 [p [nid [E [W [S [O HV1]]]]]]]. rewrite E.
  assert (B : Inv {| t_root := r1; t_len := t_len t; t_next := nid; t_iters := t_iters t |} d).
  { apply inv_same_obs; [exact HI|exact W|exact S|exact HV1|]. intro q. rewrite O. reflexivity. }
  destruct (get_at r1 p) as [[i sg fc]|]; [|exact B].
  destruct (existsb _ (n_nots i)); [exact B|]. simpl.
  unfold set_root. simpl. apply (inv_same_obs _ d _ B).
  - apply all_upd; auto; intros; apply wfi_nots; assumption.
  - rewrite upd_seg. exact S.
  - rewrite upd_root_val by reflexivity. exact HV1.
  - intro q. simpl. apply upd_any. intros. simpl. auto.
Qed.

Lemma notify_del_inv : forall t d k fn ev cmp ud, Inv t d -> Inv (fst (do_notify_del t k fn ev cmp ud)) d.
Proof.
  intros t d k fn ev cmp ud HI. unfold do_notify_del.
  destruct (match k with Some kk => lookup (t_root t) kk false | None => Some [] end) as [p|]; [|exact HI].
  destruct (get_at (t_root t) p) as [[i sg fc]|]; [|exact HI].
  destruct (existsb _ (n_nots i)); [|exact HI]. simpl.
  match goal with |- context [release ?r p] => set (r1 := r) end.
  assert (W1 : all_t wfi r1).
  { apply all_upd; [apply (inv_wf _ _ HI)|]. intros. apply wfi_nots. assumption. }
  pose proof (rel_ok p r1 true W1) as R. pose proof (rel_info p r1 true) as RI.
  unfold release. destruct (rel_t r1 p true) as [r'|].
  2:{ destruct R as [_ X]. discriminate. }
  destruct R as [R1 [R2 R3]].
  pose proof (inv_same_obs t d r' HI R2) as Z. unfold set_root. simpl. apply Z.
  - rewrite R3. unfold r1. rewrite upd_seg. apply (inv_hdr _ _ HI).
  - rewrite RI. unfold r1. rewrite upd_root_val by reflexivity. apply (inv_hval _ _ HI).
  - intro q. rewrite R1. unfold r1. apply upd_any. intros. simpl. auto.
Qed.

(* histories of dictionary operations and notifier registrations / deletions *)
Inductive hop :=
| HDict (o : dop)
| HNotifyAdd (k : option key) (fn : nat) (events : Z) (ud : nat)
| HNotifyDel (k : option key) (fn : nat) (events : Z)
| HNotifyDel2 (k : option key) (fn : nat) (events : Z) (ud : nat).

Definition hop_op (h : hop) : op :=
  match h with
  | HDict o => to_op o
  | HNotifyAdd k fn e ud => ONotifyAdd k fn e ud
  | HNotifyDel k fn e => ONotifyDel k fn e
  | HNotifyDel2 k fn e ud => ONotifyDel2 k fn e ud
  end.

Definition hop_valid (h : hop) : Prop :=
  match h with HDict o => dop_valid o | HNotifyAdd k _ _ _ => okvalid k | _ => True end.

Fixpoint dict_part (hs : list hop) : list dop :=
  match hs with [] => [] | HDict o :: hs' => o :: dict_part hs' | _ :: hs' => dict_part hs' end.

(* the outputs of the dictionary operations of a history *)
Fixpoint dict_outs (hs : list hop) (os : list out) : list out :=
  match hs, os with
  | HDict _ :: hs', o :: os' => o :: dict_outs hs' os'
  | _ :: hs', _ :: os' => dict_outs hs' os'
  | _, _ => []
  end.

Lemma run_refines_notify : forall fx hs t d, f_rm fx = true -> Inv t d -> Forall hop_valid hs ->
  exists outs t', run fx t (map hop_op hs) = (outs, Ok t') /\
                  dict_outs hs (map fst outs) = fst (spec_run d (dict_part hs)) /\ Inv t' (snd (spec_run d (dict_part hs))).
Proof.
  intro fx. induction hs as [|h hs]; intros t d Hfx HI Hv; simpl.
  - exists [], t. auto.
  - inversion Hv; subst. destruct h as [o|k fn e ud|k fn e|k fn e ud]; simpl.
    + destruct (step_refines fx t d o Hfx HI H1) as [t' [evs [S I']]]. simpl in S. rewrite S.
      destruct (spec_step d o) as [d' r]. simpl in *.
      destruct (IHhs t' d' Hfx I' H2) as [outs [t'' [R [M I'']]]]. rewrite R.
      destruct (spec_run d' (dict_part hs)) as [souts fin]. simpl in *.
      exists ((r, evs) :: outs), t''. simpl. rewrite M. auto.
    + pose proof (notify_add_inv fx t d k fn e ud HI H1) as I'.
      destruct (do_notify_add fx t k fn e ud) as [t' z]. simpl in I'.
      destruct (IHhs t' d Hfx I' H2) as [outs [t'' [R [M I'']]]]. rewrite R.
      exists ((RInt z, []) :: outs), t''. simpl. auto.
    + pose proof (notify_del_inv t d k fn e false 0 HI) as I'.
      destruct (do_notify_del t k fn e false 0) as [t' z]. simpl in I'.
      destruct (IHhs t' d Hfx I' H2) as [outs [t'' [R [M I'']]]]. rewrite R.
      exists ((RInt z, []) :: outs), t''. simpl. auto.
    + pose proof (notify_del_inv t d k fn e true ud HI) as I'.
      destruct (do_notify_del t k fn e true ud) as [t' z]. simpl in I'.
      destruct (IHhs t' d Hfx I' H2) as [outs [t'' [R [M I'']]]]. rewrite R.
      exists ((RInt z, []) :: outs), t''. simpl. auto.
Qed.

Theorem trie_refines_dict_with_notifiers : forall fx hs, f_rm fx = true -> Forall hop_valid hs ->
  exists outs t', run fx trie_init (map hop_op hs) = (outs, Ok t') /\
                  dict_outs hs (map fst outs) = fst (spec_run [] (dict_part hs)).
Proof.
  intros fx hs Hfx Hv. destruct (run_refines_notify fx hs trie_init [] Hfx inv_init Hv) as [outs [t' [R [M _]]]]. eauto.
Qed.
