(* C09: concrete witnesses (vm_compute) - the code as found violates the property; non-vacuity examples. *)
From Coq Require Import ZArith List Bool Lia.
Import ListNotations.
Require Import Verif.gen.Consts_looptimer Verif.HeapModel Verif.HeapProofs Verif.LoopTimerModel Verif.LoopTimerArith.
Local Open Scope Z_scope.

Definition init0 : lp := lp_init (hz_of_res 1) 1000 0.

(* (1) duration (2^31 + 10) ms: the loop as found asks its poll source for a negative timeout (= wait for ever)
   although a timer is pending; (2^32 + 10) ms gives -2 *)
Definition w_timeout : list op := [Cb (CAdd 2 2147483658000000 1 7); Run [0]].
Definition w_timeout2 : list op := [Cb (CAdd 2 4294967306000000 1 7); Run [0]].

Lemma timeout_as_found_refuted :
  let st := run as_found [] init0 w_timeout in
  In (EPoll (-2147483638) 1000) (out st) /\ ents (heap st) <> [] /\
  In (EPoll (-2) 1000) (out (run as_found [] init0 w_timeout2)).
Proof. vm_compute. split; [tauto|]. split; [discriminate|tauto]. Qed.

Lemma timeout_fixed_witness :
  In (EPoll 2147483647 1000) (out (run fixed [] init0 w_timeout)) /\
  In (EPoll 2147483647 1000) (out (run fixed [] init0 w_timeout2)).
Proof. vm_compute. tauto. Qed.

(* (2) duration 2^64 - 6 ns asked at clock 1000: as found the callback runs at clock 1000 *)
Definition w_early : list op := [Cb (CAdd 2 18446744073709551610 3 9); Run [0; 0]].

Lemma never_early_as_found_refuted :
  exists data prio add dur fire now,
    In (EFire data prio add dur fire now) (out (run as_found [] init0 w_early)) /\ ~ (add + dur < now).
Proof. exists 3, 2, 1000, 18446744073709551610, 1000, 1000. vm_compute. split; [tauto|discriminate]. Qed.

Lemma never_early_fixed_witness :
  forall e, In e (out (run fixed [] init0 w_early)) -> match e with EFire _ _ _ _ _ _ => False | _ => True end.
Proof. vm_compute. intros e H. repeat (destruct H as [<-|H]; [exact I|]). destruct H. Qed.

(* (3) a LOW timer expires in the second turn of a run that is then stopped; the next qb_loop_run as found
   starts with remaining_todo = 0 and waits for ever (-1) with the expired timer still queued *)
Definition w_rerun : list op := [Cb (CAdd 0 1000000 1 7); Run [-2; -2]; Run [-1]].

Lemma rerun_as_found_refuted :
  let st := run as_found [] init0 w_rerun in
  hd (ENote 0) (out st) = EPoll (-1) 1001002 /\ job_head (lv0 st) = [ITimer 0] /\ todo (lv0 st) = 1.
Proof. vm_compute. repeat split. Qed.

Lemma rerun_fixed_witness :
  hd (ENote 0) (out (run fixed [] init0 w_rerun)) = EPoll 0 1001002.
Proof. vm_compute. reflexivity. Qed.

(* is_running as found: now + duration = 2^64 exactly gives expire_time 0 = "not running" while pending *)
Lemma is_running_as_found_refuted :
  let st := run as_found [] init0 [Cb (CAdd 2 (two64 - 1000) 1 7)] in
  is_running as_found st (nth 0 (issued st) 0) = 0 /\ ents (heap st) <> [].
Proof. vm_compute. split; [reflexivity|discriminate]. Qed.

(* ---- non-vacuity: a heap of 7 timers with equal keys, deletions of root / middle / last, expiry *)
Definition ex_hops : list hop :=
  [HAdd 50; HAdd 30; HAdd 70; HAdd 10; HAdd 30; HAdd 90; HAdd 20; HDel 4; HDel 3; HDel 6; HAdd 5; HExpire 31].

Lemma ex_heap :
  map t_id (ents (hs_tl (hrun ex_hops))) = [1] /\ map t_id (hs_fired (hrun ex_hops)) = [8; 7; 2; 5] /\
  is_valid_heap (hs_tl (hrun ex_hops)) = true.
Proof. vm_compute. repeat split. Qed.

(* a run in which three timers of one priority and a job are dispatched, one timer deletes another from
   inside its callback *)
Definition ex_beh : behaviour := [(1, [CDel (RIssued 1); CAdd 1 2000000 4 13])].
Definition ex_ops : list op :=
  [Cb (CAdd 1 3000000 1 10); Cb (CAdd 1 5000000 2 11); Cb (CAdd 1 4000000 3 12); Cb (CJob 1 9);
   Run [-2; -2; -2; -2; -2; -2; -2; -2]].

Lemma ex_run :
  let st := run fixed ex_beh (lp_init (hz_of_res 4000000) 1000 3) ex_ops in
  err st = false /\
  filter (fun e => match e with ECb _ _ _ => true | _ => false end) (rev (out st)) =
    [ECb 1 9 50001017; ECb 0 1 50001017; ECb 0 3 50001020; ECb 0 4 55001035].
Proof. vm_compute. split; reflexivity. Qed.


(* non-vacuity of the all-histories theorems: the example run contains timer-callback events and timeout
   decisions taken with a timer at the root of the heap (50 ms job throttle; 5 ms = 1 ms to go + 4 ms tick) *)
Lemma ex_run_events :
  let st := run fixed ex_beh (lp_init (hz_of_res 4000000) 1000 3) ex_ops in
  In (EFire 1 1 1000 3000000 50001013 50001017) (out st) /\
  In (EDecide 50 1012 3001000 4 1) (out st) /\ In (EDecide 5 50001023 52001017 4 0) (out st).
Proof. vm_compute. tauto. Qed.

(* (4) C08 clause met by the C09 invariants: the never-issued handle value 1 (check half 0, slot 1) passed to
   qb_loop_timer_del from inside the callback of the timer in slot 1 is accepted without
   fixes/C08-timer-del-forged-handle.patch (the other three repairs applied): the timer added next reuses the slot,
   timer_dispatch then marks it EMPTY - a heap entry whose slot is EMPTY - and when it expires
   assert(t->state == QB_POLL_ENTRY_ACTIVE) of make_job_from_tmo fails (err) *)
Definition fx_without_chk0 : fixes := mkFx true true true false.
Definition w_forged_beh : behaviour := [(2, [CDel (RLit 1); CAdd 0 5000000 4 104])].
Definition w_forged : list op :=
  [Cb (CAdd 2 1000000000000 1 101); Cb (CAdd 0 1000000 2 102); Cb (CTick 2000000); Run [-2; -2; -2; -2]].
Definition w_forged2 : list op := w_forged ++ [Cb (CTick 9000000); Run [-2; -2; -2; -2; -2]].

Lemma forged_handle_refuted :
  let st := run fx_without_chk0 w_forged_beh init0 w_forged in
  err st = false /\ map t_data (ents (heap st)) = [1; 0] /\ map s_state (slots st) = [LT_ENTRY_ACTIVE; LT_ENTRY_EMPTY] /\
  In (ENote 2) (out st) /\ err (run fx_without_chk0 w_forged_beh init0 w_forged2) = true.
Proof. vm_compute. repeat split; tauto. Qed.

Lemma forged_handle_fixed_witness :
  let st := run fixed w_forged_beh init0 w_forged2 in
  err st = false /\
  filter (fun e => match e with ECb _ _ _ => true | _ => false end) (rev (out st)) = [ECb 0 2 2001003; ECb 0 4 16001007].
Proof. vm_compute. split; reflexivity. Qed.
