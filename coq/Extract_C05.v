(* Extraction of the C05 model.  ExtrOcamlBasic only; Z, N, positive, nat stay inductive; no Extract Constant. *)
From Coq Require Import ExtrOcamlBasic ZArith NArith.
Require Import Verif.gen.Consts_ipcadmit Verif.IpcAdmitModel.
Extraction "model_C05.ml" lexec lrun l_empty admission_ops teardown_ops peer_script connect_result
  authorised permittedb eff_auth ugp_of lookup all_tags child_tags tag_ix Z.to_N Z.of_N ADM_EAGAIN mkEnv mkP mkC mkA.
