(* C14 round trip, decoder half: on a record  fmt, NUL, ser_data fmt args  of a covered format whose text fits,
   qb_vsnprintf_deserialize_n (repaired) produces exactly printf_spec, for every rendering oracle. *)
From Coq Require Import List ZArith Bool Lia.
Require Import Verif.gen.Consts_logfmt Verif.SerModel Verif.SerProofs Verif.SerLists Verif.SerSpec Verif.SerRoundS.
Import ListNotations.
Open Scope Z_scope.

(* ------------------------------------------------------------------ small facts *)
Lemma MINI_val_rt : LF_MINI_FORMAT_STR_LEN = 20.
Proof. reflexivity. Qed.

Lemma store_append : forall buf i v, 0 <= i < zlen buf ->
  exists b, store buf i v = Some b /\ zlen b = zlen buf /\ takeZ (i + 1) b = takeZ i buf ++ [v].
Proof.
  intros buf i v H. destruct (store_bytes_append buf i [v]) as [b [E [L T]]]; [lia | change (zlen [v]) with 1; lia |].
  cbn [store_bytes] in E. destruct (store buf i v) as [b'|] eqn:E'; [|discriminate]. inversion E; subst.
  exists b. split; [reflexivity|]. split; [exact L|]. exact T.
Qed.

Lemma store_bytes_append_nul : forall buf i bs, 0 <= i -> i + zlen bs + 1 <= zlen buf ->
  exists b, store_bytes buf i (bs ++ [0]) = Some b /\ zlen b = zlen buf /\
            takeZ (i + zlen bs) b = takeZ i buf ++ bs /\ rd b (i + zlen bs) = 0.
Proof.
  intros buf i bs Hi Hr. pose proof (zlen_nonneg _ bs) as Hb.
  destruct (store_bytes_append buf i (bs ++ [0])) as [b [E [L T]]]; [lia | rewrite zlen_app; change (zlen [0]) with 1; lia |].
  exists b. split; [exact E|]. split; [exact L|]. split.
  - rewrite zlen_app in T. change (zlen [0]) with 1 in T.
    rewrite <- (takeZ_takeZ b (i + zlen bs) (i + (zlen bs + 1))) by lia. rewrite T.
    rewrite app_assoc.
    assert (Hz : zlen (takeZ i buf ++ bs) = i + zlen bs) by (rewrite zlen_app, zlen_takeZ; lia).
    rewrite <- Hz. apply takeZ_app_exact.
  - eapply store_bytes_last0; eauto.
Qed.

Lemma le_val_le_bytes : forall k v, le_val (le_bytes k v) = v mod 256 ^ Z.of_nat k.
Proof.
  induction k as [|k IH]; intros v.
  - cbn. rewrite Z.mod_1_r. reflexivity.
  - cbn [le_bytes le_val]. rewrite IH.
    replace (256 ^ Z.of_nat (S k)) with (256 * 256 ^ Z.of_nat k) by (rewrite Nat2Z.inj_succ, Z.pow_succ_r by lia; reflexivity).
    rewrite Z.rem_mul_r by (try lia; apply Z.pow_nonzero; lia). lia.
Qed.

Lemma star_value : forall a,
  to_signed (8 * LF_SIZEOF_INT) (le_val (scalar_bytes LF_SIZEOF_INT a)) = to_signed (8 * LF_SIZEOF_INT) (arg_raw a).
Proof.
  intros. unfold scalar_bytes. rewrite le_val_le_bytes. unfold to_signed.
  change (256 ^ Z.of_nat (Z.to_nat LF_SIZEOF_INT)) with (2 ^ (8 * LF_SIZEOF_INT)).
  rewrite Z.mod_mod by (vm_compute; discriminate). reflexivity.
Qed.

Lemma udec_digits : forall fuel z acc, 0 <= z -> Forall (fun x => x <> 0) acc -> Forall (fun x => x <> 0) (udec fuel z acc).
Proof.
  induction fuel as [|k IH]; intros z acc Hz Ha; cbn [udec]; [exact Ha|].
  assert (Hd : Forall (fun x => x <> 0) ((48 + z mod 10) :: acc)).
  { constructor; [|exact Ha]. pose proof (Z.mod_pos_bound z 10). lia. }
  destruct (z / 10 =? 0); [exact Hd|]. apply IH; [apply Z.div_pos; lia | exact Hd].
Qed.

Lemma dec_nonzero : forall z, nonzero (dec z).
Proof.
  intros. unfold dec, nonzero. destruct (z <? 0) eqn:E.
  - apply Z.ltb_lt in E. constructor; [lia|]. apply udec_digits; [lia | constructor].
  - apply Z.ltb_ge in E. apply udec_digits; [lia | constructor].
Qed.

Lemma str_arg_nonzero : forall d a, nonzero (str_arg d a).
Proof.
  intros. unfold str_arg. destruct a; try (repeat constructor; discriminate).
  destruct (p_plen d =? 0); [apply cstr_nonzero | apply nonzero_takeZ, cstr_nonzero].
Qed.

Lemma blank_mini_start :
  store blank_mini 0 37 = Some (37 :: repeat 0 19) /\ zlen (37 :: repeat 0 19) = LF_MINI_FORMAT_STR_LEN.
Proof. vm_compute. split; reflexivity. Qed.

Lemma cstr_at_data : forall rec pos want rest, 0 <= pos -> nonzero want ->
  dropZ pos rec = want ++ [0] ++ rest -> cstr_at rec pos = want.
Proof.
  intros rec pos want rest Hp Hn E. unfold cstr_at.
  replace (pos <? 0) with false by (symmetry; apply Z.ltb_ge; lia). rewrite E. apply cstr_app_nul. exact Hn.
Qed.

Lemma dropZ_after : forall rec pos (bytes rest : list Z) k, 0 <= pos -> zlen bytes = k ->
  dropZ pos rec = bytes ++ rest -> dropZ (pos + k) rec = rest.
Proof.
  intros rec pos bytes rest k Hp Hk E. pose proof (zlen_nonneg _ bytes).
  replace (pos + k) with (k + pos) by lia. rewrite <- dropZ_dropZ by lia. rewrite E, <- Hk. apply dropZ_app_exact.
Qed.

(* ------------------------------------------------------------------ the simulation *)
Definition pending (m : dmode) : list Z := match m with DScan lit => rev lit | DDir _ _ _ _ => [] end.

Definition drel (m : dmode) (pm : pmode) : Prop :=
  match m, pm with
  | DScan _, PLit => True
  | DDir mini fpos tl tll, PDir d =>
    zlen mini = LF_MINI_FORMAT_STR_LEN /\ fpos = zlen (p_acc d) /\ takeZ fpos mini = p_acc d /\
    nonzero (p_acc d) /\ rel_len tl tll d
  | _, _ => False
  end.

Definition dgoal (st : dst) (txt : list Z) (o : outcome) : Prop :=
  exists ret buf hw, o = Done ret buf hw /\ takeZ (ret - 1) buf = takeZ (d_loc st) (d_buf st) ++ txt.

Lemma dgoal_chain : forall st st' t txt' o,
  takeZ (d_loc st') (d_buf st') = takeZ (d_loc st) (d_buf st) ++ t ->
  dgoal st' txt' o -> dgoal st (t ++ txt') o.
Proof.
  intros st st' t txt' o Ht [ret [buf [hw [E T]]]]. exists ret, buf, hw. split; [exact E|].
  rewrite T, Ht, app_assoc. reflexivity.
Qed.

Lemma dgoal_same : forall st st' txt o,
  d_loc st' = d_loc st -> d_buf st' = d_buf st -> dgoal st' txt o -> dgoal st txt o.
Proof.
  intros st st' txt o Hl Hb H. apply (dgoal_chain st st' [] txt o); [|exact H].
  rewrite Hl, Hb, app_nil_r. reflexivity.
Qed.

Section Des.
  Variable r1 : list Z -> Z -> list Z -> list Z.
  Variable rec : list Z.
  Variable blen n : Z.
  Hypothesis Hn : 1 <= n <= 4294967296.

  Lemma des_finish_spec : forall lit st,
    zlen (d_buf st) = n -> 0 <= d_loc st -> d_loc st + zlen lit < n ->
    dgoal st lit (des_finish true n lit st).
  Proof.
    intros lit st Hb Hl Hf. unfold des_finish. pose proof (zlen_nonneg _ lit) as Hz.
    rewrite wrapsz_small by (rewrite SIZE_MOD_val; lia).
    destruct (my_strlcpy_exact 2 (d_buf st) (d_loc st) lit (n - d_loc st)) as [b [E [L T]]];
      [lia | rewrite SIZE_MOD_val; lia | lia |].
    replace (Z.min (n - d_loc st - 1) (zlen lit)) with (zlen lit) in * by lia.
    rewrite E. exists (d_loc st + zlen lit + 1), b, (d_hw st). split; [reflexivity|].
    replace (d_loc st + zlen lit + 1 - 1) with (d_loc st + zlen lit) by lia.
    rewrite (takeZ_all lit) in T by lia.
    rewrite <- (takeZ_takeZ b (d_loc st + zlen lit) (d_loc st + zlen lit + 1)) by lia. rewrite T.
    rewrite app_assoc.
    assert (Hzz : zlen (takeZ (d_loc st) (d_buf st) ++ lit) = d_loc st + zlen lit) by (rewrite zlen_app, zlen_takeZ; lia).
    rewrite <- Hzz. apply takeZ_app_exact.
  Qed.

  Lemma des_top_pass : forall st k, d_loc st < n -> des_top true n st k = k st.
  Proof.
    intros. unfold des_top. cbn [andb]. replace (n <=? d_loc st) with false by (symmetry; apply Z.leb_gt; lia). reflexivity.
  Qed.

  (* one conversion whose argument lies at data_pos *)
  Lemma des_conv_spec : forall mini fpos acc c kind sz adv st kont bytes rest txt',
    zlen mini = LF_MINI_FORMAT_STR_LEN -> fpos = zlen acc -> takeZ fpos mini = acc -> nonzero acc ->
    fpos + 2 <= LF_MINI_FORMAT_STR_LEN -> c <> 0 ->
    0 <= sz -> adv = sz -> zlen bytes = sz ->
    zlen (d_buf st) = n -> 0 <= d_loc st -> 0 <= d_pos st ->
    dropZ (d_pos st) rec = bytes ++ rest -> d_pos st + sz <= blen -> d_pos st + sz < 4294967296 ->
    d_loc st + zlen (r1 (acc ++ [c]) kind bytes) < n ->
    (forall b hw, zlen b = n ->
        takeZ (d_loc st + zlen (r1 (acc ++ [c]) kind bytes)) b = takeZ (d_loc st) (d_buf st) ++ r1 (acc ++ [c]) kind bytes ->
        dgoal (mkD b (d_loc st + zlen (r1 (acc ++ [c]) kind bytes)) (d_pos st + sz) hw) txt'
              (kont (mkD b (d_loc st + zlen (r1 (acc ++ [c]) kind bytes)) (d_pos st + sz) hw))) ->
    dgoal st (r1 (acc ++ [c]) kind bytes ++ txt')
          (des_conv true (snp_of r1) rec blen n mini fpos c kind sz adv st kont).
  Proof.
    intros mini fpos acc c kind sz adv st kont bytes rest txt'
           Hm Hf Ht Hnz Hf2 Hc Hsz Hadv Hbl Hb Hl Hp Hd Hbl2 Hp32 Hfit Hk.
    unfold des_conv. cbn [andb]. subst adv.
    replace (blen <? d_pos st + sz) with false by (symmetry; apply Z.ltb_ge; lia).
    pose proof (zlen_nonneg _ acc) as Hacc.
    pose proof MINI_val_rt as HMV.
    destruct (store_append mini fpos c) as [m1 [E1 [L1 T1]]]; [lia|]. rewrite E1.
    destruct (store_some m1 (fpos + 1) 0) as [m2 [E2 L2]]; [lia|]. rewrite E2.
    assert (Hcs : cstr m2 = acc ++ [c]).
    { apply store_spec in E2. rewrite E2, T1, Ht. apply cstr_app_nul.
      apply nonzero_app; [exact Hnz | constructor; [exact Hc | constructor]]. }
    rewrite Hcs.
    assert (Ha : rd_bytes rec (d_pos st) (Z.to_nat sz) = bytes).
    { apply rd_bytes_prefix with (rest := rest); [lia | exact Hd | unfold zlen in Hbl; lia]. }
    rewrite Ha. pose proof (zlen_nonneg _ (r1 (acc ++ [c]) kind bytes)) as Hr0.
    rewrite wrapsz_small by (rewrite SIZE_MOD_val; lia).
    unfold snp_of. set (r := r1 (acc ++ [c]) kind bytes) in *.
    pose proof (zlen_nonneg _ r) as Hr.
    replace (n - d_loc st =? 0) with false by (symmetry; apply Z.eqb_neq; lia).
    rewrite (takeZ_all r) by lia.
    destruct (store_bytes_append_nul (d_buf st) (d_loc st) r) as [b [Eb [Lb [Tb _]]]]; [lia | lia |].
    rewrite Eb. rewrite (wrap32_small (d_loc st + zlen r)) by lia. rewrite (wrap32_small (d_pos st + sz)) by lia.
    rewrite des_top_pass by (cbn [d_loc]; lia).
    eapply dgoal_chain; [|apply Hk; [lia | exact Tb]]. cbn [d_loc d_buf]. exact Tb.
  Qed.

  Lemma des_go_spec : forall k f m pm st args tail,
    (length f <= k)%nat -> drel m pm -> wf_go f pm args = true ->
    zlen (d_buf st) = n -> 0 <= d_loc st -> 0 <= d_pos st ->
    dropZ (d_pos st) rec = ser_data f pm args ++ tail ->
    d_pos st + zlen (ser_data f pm args) <= blen -> d_pos st + zlen (ser_data f pm args) < 4294967296 ->
    d_loc st + zlen (pending m) + zlen (printf_spec r1 f pm args) < n ->
    dgoal st (pending m ++ printf_spec r1 f pm args) (des_go true (snp_of r1) rec blen n f m st).
  Proof.
    induction k as [|k IH]; intros f m pm st args tail Hlen Hrel Hwf Hb Hl Hp Hd Hbl Hp32 Hfit.
    { destruct f; [|cbn in Hlen; lia]. destruct m, pm; try contradiction; cbn in Hwf; try discriminate.
      cbn [des_go pending printf_spec]. rewrite app_nil_r. apply des_finish_spec; auto.
      cbn [pending printf_spec] in Hfit. change (zlen (@nil Z)) with 0 in Hfit. lia. }
    destruct f as [|c f'].
    { destruct m, pm; try contradiction; cbn in Hwf; try discriminate.
      cbn [des_go pending printf_spec]. rewrite app_nil_r. apply des_finish_spec; auto.
      cbn [pending printf_spec] in Hfit. change (zlen (@nil Z)) with 0 in Hfit. lia. }
    cbn [length] in Hlen. assert (Hlen' : (length f' <= k)%nat) by lia.
    pose proof sizes_pos as [Hz1 [Hz2 [Hz3 [Hz4 [Hz5 Hz6]]]]].
    pose proof MINI_val_rt as HMV.
    cbn [wf_go] in Hwf. destruct ((c =? 0) || (c =? LF_XC)) eqn:Ebad; [discriminate|].
    assert (Hc0 : c <> 0).
    { apply orb_false_iff in Ebad. destruct Ebad as [E _]. apply Z.eqb_neq in E. exact E. }
    destruct m as [lit|mini fpos tl tll]; destruct pm as [|d]; try contradiction.
    - (* literal text *)
      cbn [des_go ser_data printf_spec pending] in *.
      assert (Hother : wf_go f' PLit args = true ->
                 dropZ (d_pos st) rec = ser_data f' PLit args ++ tail ->
                 d_pos st + zlen (ser_data f' PLit args) <= blen -> d_pos st + zlen (ser_data f' PLit args) < 4294967296 ->
                 d_loc st + zlen (rev lit) + zlen (c :: printf_spec r1 f' PLit args) < n ->
                 dgoal st (rev lit ++ c :: printf_spec r1 f' PLit args)
                       (des_go true (snp_of r1) rec blen n f' (DScan (c :: lit)) st)).
      { intros W D B1 B2 F.
        replace (rev lit ++ c :: printf_spec r1 f' PLit args) with (pending (DScan (c :: lit)) ++ printf_spec r1 f' PLit args)
          by (cbn [pending rev]; rewrite <- app_assoc; reflexivity).
        apply (IH f' (DScan (c :: lit)) PLit st args tail);
          [exact Hlen' | exact I | exact W | exact Hb | exact Hl | exact Hp | exact D | exact B1 | exact B2 | ].
        cbn [pending rev]. rewrite zlen_app. change (zlen [c]) with 1. rewrite zlen_cons in F. lia. }
      destruct (classify c) eqn:EC; try discriminate; try (apply Hother; assumption).
      (* CPct *)
      cbn [andb].
      pose proof (zlen_nonneg _ (rev lit)) as Hrl.
      pose proof (zlen_nonneg _ (printf_spec r1 f' (PDir (mkP [37] 0 false 0)) args)) as Hsp.
      rewrite wrapsz_small by (rewrite SIZE_MOD_val; lia).
      replace (n - d_loc st <=? zlen (rev lit)) with false by (symmetry; apply Z.leb_gt; lia).
      destruct (store_bytes_append (d_buf st) (d_loc st) (rev lit)) as [b [Eb [Lb Tb]]]; [lia | lia |].
      rewrite Eb. destruct blank_mini_start as [Em0 Lm0]. rewrite Em0.
      rewrite wrap32_small by lia.
      eapply (dgoal_chain st (mkD b (d_loc st + zlen (rev lit)) (d_pos st) (d_hw st))); [cbn [d_loc d_buf]; exact Tb|].
      apply (IH f' (DDir (37 :: repeat 0 19) 1 false false) (PDir pd_init)
                (mkD b (d_loc st + zlen (rev lit)) (d_pos st) (d_hw st)) args tail);
        [exact Hlen' | | exact Hwf | cbn [d_buf]; lia | cbn [d_loc]; lia | exact Hp | exact Hd | exact Hbl | exact Hp32 | ].
      + unfold drel, pd_init, rel_len. cbn [p_acc p_l]. split; [exact Lm0|]. split; [reflexivity|]. split; [reflexivity|].
        split; [repeat constructor; discriminate|]. split; [lia | reflexivity].
      + cbn [d_loc pending]. change (zlen (@nil Z)) with 0. unfold pd_init. lia.
    - (* inside a directive *)
      destruct Hrel as [Hm [Hf [Ht [Hnz Hrl]]]].
      cbn [des_go ser_data printf_spec pending] in *.
      destruct (next_arg args) as [a args'] eqn:EN.
      apply andb_true_iff in Hwf. destruct Hwf as [HG Hwf]. apply Z.leb_le in HG.
      cbn [andb app].
      replace (LF_MINI_FORMAT_STR_LEN <? fpos + 2) with false by (symmetry; apply Z.ltb_ge; lia).
      pose proof (zlen_nonneg _ (p_acc d)) as Hacc.
      (* a character that only goes into fmt[] *)
      assert (Hput : forall tl' tll' d',
                p_acc d' = p_acc d ++ [c] -> rel_len tl' tll' d' ->
                wf_go f' (PDir d') args = true ->
                dropZ (d_pos st) rec = ser_data f' (PDir d') args ++ tail ->
                d_pos st + zlen (ser_data f' (PDir d') args) <= blen ->
                d_pos st + zlen (ser_data f' (PDir d') args) < 4294967296 ->
                d_loc st + 0 + zlen (printf_spec r1 f' (PDir d') args) < n ->
                forall m1, zlen m1 = zlen mini -> takeZ (fpos + 1) m1 = takeZ fpos mini ++ [c] ->
                dgoal st (printf_spec r1 f' (PDir d') args)
                      (des_go true (snp_of r1) rec blen n f' (DDir m1 (fpos + 1) tl' tll') st)).
      { intros tl' tll' d' Hacc' Hrl' W D B1 B2 F m1 L1 T1.
        apply (IH f' (DDir m1 (fpos + 1) tl' tll') (PDir d') st args tail); auto.
        unfold drel. rewrite Hacc', zlen_app. change (zlen [c]) with 1.
        split; [lia|]. split; [lia|]. split; [rewrite T1, Ht; reflexivity|].
        split; [apply nonzero_app; [exact Hnz | constructor; [exact Hc0 | constructor]] | exact Hrl']. }
      destruct (classify c) eqn:EC; try discriminate.
      + (* CFlag *)
        unfold des_put. destruct (store_append mini fpos c) as [m1 [E1 [L1 T1]]]; [lia|]. rewrite E1.
        apply (Hput tl tll (pd_add d [c])); auto.
      + (* CDot *)
        unfold des_put. destruct (store_append mini fpos c) as [m1 [E1 [L1 T1]]]; [lia|]. rewrite E1.
        apply (Hput tl tll (mkP (p_acc d ++ [c]) (p_l d) true (p_plen d))); auto.
      + (* CDigit *)
        apply andb_true_iff in Hwf. destruct Hwf as [_ Hwf].
        unfold des_put. destruct (store_append mini fpos c) as [m1 [E1 [L1 T1]]]; [lia|]. rewrite E1.
        apply (Hput tl tll (mkP (p_acc d ++ [c]) (p_l d) (p_prec d)
                                 (if p_prec d then p_plen d * 10 + (c - 48) else p_plen d))); auto.
      + (* CStar *)
        apply andb_true_iff in Hwf. destruct Hwf as [HS Hwf]. apply Z.leb_le in HS.
        set (digits := dec (to_signed (8 * LF_SIZEOF_INT) (arg_raw a))) in *.
        set (restd := ser_data f' (PDir (pd_add d digits)) args') in *.
        rewrite zlen_app, zlen_scalar_bytes in Hbl, Hp32 by lia.
        pose proof (zlen_nonneg _ restd) as Hrd. pose proof (zlen_nonneg _ digits) as Hdg.
        replace (blen <? d_pos st + LF_SIZEOF_INT) with false by (symmetry; apply Z.ltb_ge; lia).
        rewrite <- app_assoc in Hd.
        assert (Ha : rd_bytes rec (d_pos st) (Z.to_nat LF_SIZEOF_INT) = scalar_bytes LF_SIZEOF_INT a).
        { apply rd_bytes_prefix with (rest := restd ++ tail); [lia | exact Hd |].
          pose proof (zlen_scalar_bytes LF_SIZEOF_INT a Hz1) as Hzz. unfold zlen in Hzz. lia. }
        rewrite Ha, star_value. fold digits.
        rewrite wrapsz_small by (rewrite SIZE_MOD_val; lia).
        replace (LF_MINI_FORMAT_STR_LEN - fpos =? 0) with false by (symmetry; apply Z.eqb_neq; lia).
        rewrite (takeZ_all digits) by lia.
        destruct (store_bytes_append_nul mini fpos digits) as [m1 [E1 [L1 [T1 _]]]]; [lia | lia |].
        rewrite E1. rewrite wrap32_small by lia.
        eapply (dgoal_same st (mkD (d_buf st) (d_loc st) (d_pos st + LF_SIZEOF_INT)
                                   (Z.max (d_hw st) (d_pos st + LF_SIZEOF_INT)))); [reflexivity | reflexivity |].
        apply (IH f' (DDir m1 (fpos + zlen digits) tl tll) (PDir (pd_add d digits))
                  (mkD (d_buf st) (d_loc st) (d_pos st + LF_SIZEOF_INT) (Z.max (d_hw st) (d_pos st + LF_SIZEOF_INT)))
                  args' tail);
          [exact Hlen' | | exact Hwf | exact Hb | exact Hl | cbn [d_pos]; lia | | cbn [d_pos]; fold restd; lia
           | cbn [d_pos]; fold restd; lia | exact Hfit].
        * unfold drel, pd_add. cbn [p_acc p_l]. rewrite zlen_app.
          split; [lia|]. split; [lia|]. split; [rewrite T1, Ht; reflexivity|].
          split; [apply nonzero_app; [exact Hnz | apply dec_nonzero] | exact Hrl].
        * cbn [d_pos]. fold restd.
          apply (dropZ_after rec (d_pos st) (scalar_bytes LF_SIZEOF_INT a) (restd ++ tail)); [lia | apply zlen_scalar_bytes; lia | exact Hd].
      + (* CEll *)
        unfold des_put. destruct (store_append mini fpos c) as [m1 [E1 [L1 T1]]]; [lia|]. rewrite E1.
        set (d' := mkP (p_acc d ++ [c]) (p_l d + 1) (p_prec d) (p_plen d)) in *.
        assert (Hrl' : forall tl' tll', (tl' || tll') = true -> rel_len tl' tll' d').
        { intros tl' tll' Ht'. destruct Hrl as [Hl0 _]. unfold rel_len, d'. cbn [p_l]. split; [lia|].
          rewrite Ht'. symmetry. apply negb_true_iff. apply Z.eqb_neq. lia. }
        assert (H1 : dgoal st (printf_spec r1 f' (PDir d') args)
                           (des_go true (snp_of r1) rec blen n f' (DDir m1 (fpos + 1) false true) st)).
        { apply (Hput false true d'); auto. }
        assert (H2 : dgoal st (printf_spec r1 f' (PDir d') args)
                           (des_go true (snp_of r1) rec blen n f' (DDir m1 (fpos + 1) true tll) st)).
        { apply (Hput true tll d'); auto. }
        clear - H1 H2.
        destruct f' as [|c2 f2]; [exact H2|].
        destruct c2 as [|p|p]; try exact H2.
        do 7 (destruct p as [p|p|]; try exact H2). exact H1.
      + (* CZee *)
        unfold des_put. destruct (store_append mini fpos c) as [m1 [E1 [L1 T1]]]; [lia|]. rewrite E1.
        change (LF_SIZEOF_SIZE_T =? LF_SIZEOF_LLONG) with true. cbv iota.
        apply (Hput false true (mkP (p_acc d ++ [c]) 2 (p_prec d) (p_plen d))); auto.
        unfold rel_len. cbn [p_l]. split; [lia | reflexivity].
      + (* CTee *)
        unfold des_put. destruct (store_append mini fpos c) as [m1 [E1 [L1 T1]]]; [lia|]. rewrite E1.
        change (LF_SIZEOF_PTRDIFF =? LF_SIZEOF_LLONG) with true. cbv iota.
        apply (Hput tl true (mkP (p_acc d ++ [c]) 2 (p_prec d) (p_plen d))); auto.
        unfold rel_len. cbn [p_l]. split; [lia | destruct tl; reflexivity].
      + (* CJay *)
        unfold des_put. destruct (store_append mini fpos c) as [m1 [E1 [L1 T1]]]; [lia|]. rewrite E1.
        change (LF_SIZEOF_INTMAX =? LF_SIZEOF_LLONG) with true. cbv iota.
        apply (Hput tl true (mkP (p_acc d ++ [c]) 2 (p_prec d) (p_plen d))); auto.
        unfold rel_len. cbn [p_l]. split; [lia | destruct tl; reflexivity].
      + (* CInt *)
        pose proof (int_size_rel tl tll d Hrl) as Hsz. pose proof (int_size_nonneg d) as Hisz.
        rewrite <- app_assoc in Hd. rewrite zlen_app, zlen_scalar_bytes in Hbl, Hp32 by exact Hisz.
        rewrite zlen_app in Hfit. change (zlen (@nil Z)) with 0 in Hfit.
        pose proof (zlen_nonneg _ (ser_data f' PLit args')). pose proof (zlen_nonneg _ (printf_spec r1 f' PLit args')).
        assert (Hgen : forall szc, szc = int_size d ->
                  dgoal st (r1 (p_acc d ++ [c]) 1 (scalar_bytes (int_size d) a) ++ printf_spec r1 f' PLit args')
                        (des_conv true (snp_of r1) rec blen n mini fpos c 1 szc szc st
                                  (fun st' => des_go true (snp_of r1) rec blen n f' (DScan []) st'))).
        { intros szc ->.
          apply des_conv_spec with (acc := p_acc d) (bytes := scalar_bytes (int_size d) a) (rest := ser_data f' PLit args' ++ tail);
            auto; try lia; try (apply zlen_scalar_bytes; lia).
          intros b hw Lb Tb.
          match goal with |- context [zlen (r1 ?x ?y ?z)] => pose proof (zlen_nonneg _ (r1 x y z)) end.
        match goal with |- context [zlen (r1 ?x ?y ?z)] => pose proof (zlen_nonneg _ (r1 x y z)) end.
          apply (IH f' (DScan []) PLit _ args' tail);
            [exact Hlen' | exact I | exact Hwf | exact Lb | cbn [d_loc]; lia | cbn [d_pos]; lia | | cbn [d_pos]; lia
             | cbn [d_pos]; lia | cbn [d_loc pending rev]; change (zlen (@nil Z)) with 0; lia].
          cbn [d_pos]. apply (dropZ_after rec (d_pos st) (scalar_bytes (int_size d) a) _); [lia | apply zlen_scalar_bytes; exact Hisz | exact Hd]. }
        destruct tl; [apply Hgen; exact Hsz|]. destruct tll; apply Hgen; exact Hsz.
      + (* CDbl *)
        rewrite <- app_assoc in Hd. rewrite zlen_app, zlen_scalar_bytes in Hbl, Hp32 by exact Hz4.
        rewrite zlen_app in Hfit. change (zlen (@nil Z)) with 0 in Hfit.
        pose proof (zlen_nonneg _ (ser_data f' PLit args')). pose proof (zlen_nonneg _ (printf_spec r1 f' PLit args')).
        apply des_conv_spec with (acc := p_acc d) (bytes := scalar_bytes LF_SIZEOF_DOUBLE a) (rest := ser_data f' PLit args' ++ tail);
          auto; try lia; try (apply zlen_scalar_bytes; lia).
        intros b hw Lb Tb.
        match goal with |- context [zlen (r1 ?x ?y ?z)] => pose proof (zlen_nonneg _ (r1 x y z)) end.
        apply (IH f' (DScan []) PLit _ args' tail);
          [exact Hlen' | exact I | exact Hwf | exact Lb | cbn [d_loc]; lia | cbn [d_pos]; lia | | cbn [d_pos]; lia
           | cbn [d_pos]; lia | cbn [d_loc pending rev]; change (zlen (@nil Z)) with 0; lia].
        cbn [d_pos]. apply (dropZ_after rec (d_pos st) (scalar_bytes LF_SIZEOF_DOUBLE a) _); [lia | apply zlen_scalar_bytes; exact Hz4 | exact Hd].
      + (* CChr *)
        rewrite <- app_assoc in Hd. rewrite zlen_app, zlen_scalar_bytes in Hbl, Hp32 by exact Hz5.
        rewrite zlen_app in Hfit. change (zlen (@nil Z)) with 0 in Hfit.
        pose proof (zlen_nonneg _ (ser_data f' PLit args')). pose proof (zlen_nonneg _ (printf_spec r1 f' PLit args')).
        apply des_conv_spec with (acc := p_acc d) (bytes := scalar_bytes LF_SIZEOF_UCHAR a) (rest := ser_data f' PLit args' ++ tail);
          auto; try lia; try (apply zlen_scalar_bytes; lia).
        intros b hw Lb Tb.
        match goal with |- context [zlen (r1 ?x ?y ?z)] => pose proof (zlen_nonneg _ (r1 x y z)) end.
        apply (IH f' (DScan []) PLit _ args' tail);
          [exact Hlen' | exact I | exact Hwf | exact Lb | cbn [d_loc]; lia | cbn [d_pos]; lia | | cbn [d_pos]; lia
           | cbn [d_pos]; lia | cbn [d_loc pending rev]; change (zlen (@nil Z)) with 0; lia].
        cbn [d_pos]. apply (dropZ_after rec (d_pos st) (scalar_bytes LF_SIZEOF_UCHAR a) _); [lia | apply zlen_scalar_bytes; exact Hz5 | exact Hd].
      + (* CStr *)
        set (want := str_arg d a) in *.
        set (restd := ser_data f' PLit args') in *.
        rewrite !zlen_app in Hbl, Hp32. change (zlen [0]) with 1 in Hbl, Hp32.
        rewrite zlen_app in Hfit. change (zlen (@nil Z)) with 0 in Hfit.
        pose proof (zlen_nonneg _ want) as Hw0. pose proof (zlen_nonneg _ restd) as Hr0.
        pose proof (zlen_nonneg _ (printf_spec r1 f' PLit args')) as Hs0.
        assert (Hd' : dropZ (d_pos st) rec = want ++ [0] ++ (restd ++ tail)) by (rewrite Hd, <- !app_assoc; reflexivity).
        rewrite (cstr_at_data rec (d_pos st) want (restd ++ tail) Hp (str_arg_nonzero d a) Hd').
        replace (blen <? d_pos st + 1) with false by (symmetry; apply Z.ltb_ge; lia).
        replace (blen - d_pos st <=? zlen want) with false by (symmetry; apply Z.leb_gt; lia).
        cbn [orb].
        destruct (store_append mini fpos c) as [m1 [E1 [L1 T1]]]; [lia|]. rewrite E1.
        destruct (store_some m1 (fpos + 1) 0) as [m2 [E2 L2]]; [lia|]. rewrite E2.
        assert (Hcs : cstr m2 = p_acc d ++ [c]).
        { apply store_spec in E2. rewrite E2, T1, Ht. apply cstr_app_nul.
          apply nonzero_app; [exact Hnz | constructor; [exact Hc0 | constructor]]. }
        rewrite Hcs. pose proof (zlen_nonneg _ (r1 (p_acc d ++ [c]) 6 want)) as Hr.
        rewrite wrapsz_small by (rewrite SIZE_MOD_val; lia).
        unfold snp_of. set (r := r1 (p_acc d ++ [c]) 6 want) in *.
        replace (n - d_loc st =? 0) with false by (symmetry; apply Z.eqb_neq; lia).
        rewrite (takeZ_all r) by lia.
        destruct (store_bytes_append_nul (d_buf st) (d_loc st) r) as [b [Eb [Lb [Tb _]]]]; [lia | lia |].
        rewrite Eb. rewrite (wrap32_small (d_loc st + zlen r)) by lia.
        rewrite (wrap32_small (d_pos st + zlen want + 1)) by lia.
        rewrite des_top_pass by (cbn [d_loc]; lia).
        eapply (dgoal_chain st (mkD b (d_loc st + zlen r) _ _)); [cbn [d_loc d_buf]; exact Tb|].
        apply (IH f' (DScan []) PLit _ args' tail);
          [exact Hlen' | exact I | exact Hwf | cbn [d_buf]; lia | cbn [d_loc]; lia | cbn [d_pos]; lia | | cbn [d_pos]; fold restd; lia
           | cbn [d_pos]; fold restd; lia | cbn [d_loc pending rev]; change (zlen (@nil Z)) with 0; lia].
        cbn [d_pos]. fold restd. replace (d_pos st + zlen want + 1) with (d_pos st + zlen (want ++ [0])) by (rewrite zlen_app; change (zlen [0]) with 1; lia).
        apply (dropZ_after rec (d_pos st) (want ++ [0]) (restd ++ tail)); [lia | reflexivity |].
        rewrite Hd', <- app_assoc. reflexivity.
      + (* CPtr *)
        rewrite <- app_assoc in Hd. rewrite zlen_app, zlen_scalar_bytes in Hbl, Hp32 by exact Hz6.
        rewrite zlen_app in Hfit. change (zlen (@nil Z)) with 0 in Hfit.
        pose proof (zlen_nonneg _ (ser_data f' PLit args')). pose proof (zlen_nonneg _ (printf_spec r1 f' PLit args')).
        apply des_conv_spec with (acc := p_acc d) (bytes := scalar_bytes LF_SIZEOF_PTRDIFF a) (rest := ser_data f' PLit args' ++ tail);
          auto; try lia; try (apply zlen_scalar_bytes; lia).
        intros b hw Lb Tb.
        match goal with |- context [zlen (r1 ?x ?y ?z)] => pose proof (zlen_nonneg _ (r1 x y z)) end.
        apply (IH f' (DScan []) PLit _ args' tail);
          [exact Hlen' | exact I | exact Hwf | exact Lb | cbn [d_loc]; lia | cbn [d_pos]; lia | | cbn [d_pos]; lia
           | cbn [d_pos]; lia | cbn [d_loc pending rev]; change (zlen (@nil Z)) with 0; lia].
        cbn [d_pos]. apply (dropZ_after rec (d_pos st) (scalar_bytes LF_SIZEOF_PTRDIFF a) _); [lia | apply zlen_scalar_bytes; exact Hz6 | exact Hd].
      + (* CPct *)
        rewrite zlen_cons in Hfit. change (zlen (@nil Z)) with 0 in Hfit.
        pose proof (zlen_nonneg _ (printf_spec r1 f' PLit args)).
        destruct (store_append (d_buf st) (d_loc st) 37) as [b [Eb [Lb Tb]]]; [lia|]. rewrite Eb.
        rewrite wrap32_small by lia. rewrite des_top_pass by (cbn [d_loc]; lia).
        change (37 :: printf_spec r1 f' PLit args) with ([37] ++ printf_spec r1 f' PLit args).
        eapply (dgoal_chain st (mkD b (d_loc st + 1) _ _)); [cbn [d_loc d_buf]; exact Tb|].
        apply (IH f' (DScan []) PLit _ args tail);
          [exact Hlen' | exact I | exact Hwf | cbn [d_buf]; lia | cbn [d_loc]; lia | exact Hp | exact Hd | exact Hbl
           | exact Hp32 | cbn [d_loc pending rev]; change (zlen (@nil Z)) with 0; lia].
  Qed.
End Des.
