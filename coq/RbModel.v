(* Shared ring-buffer model (C07, C11; the sequential side of C01).  No proofs in this file, so
   the model still builds and runs when a proof breaks.

   Transcribed statement by statement from lib/ringbuffer.c (functions named at each definition),
   lib/ringbuffer_helper.c (the POSIX-semaphore notifier: post / trywait / getvalue) and
   lib/unix.c:qb_sys_circular_mmap (the double mapping = byte addresses taken mod 4*W).

   The code modelled is the tree WITH the two proposed repairs applied
     fixes/C07-empty-ring-marker.patch   read_pt == write_pt is "empty" in peek/read/_rb_chunk_reclaim
     fixes/C11-overwrite-sem-stuck.patch qb_rb_space_free: equal pointers mean empty whatever the notifier count
   (the defects themselves are kept as the separate definitions *_unfixed at the end of the file and are
   shown to violate the properties in RbProofs*.v: ..._refuted).

   Conventions (DESIGN.md section 3): unbounded Z; the data area is a BYTE memory; a word access is four
   byte accesses, little endian; a word store keeps the low 32 bits (uint32_t); pointers are word indices
   in [0, W); payload bytes are copied linearly from the chunk's data pointer, running into the second
   mapping, i.e. byte address mod 4*W.  The notifier count is `sem' (None = QB_RB_FLAG_NO_SEMAPHORE).
   Waiting is modelled for ms_timeout = 0 (sem_trywait) only; blocking waits belong to C01.
   Ranges not modelled: len >= 2^32 (size_t/uint32_t truncation in commit), notifier count reaching
   SEM_VALUE_MAX (sem_post then fails with EOVERFLOW). *)
From Coq Require Import ZArith List Bool FMapPositive.
Import ListNotations.
Require Import Verif.gen.Consts_rb.
Local Open Scope Z_scope.

(* ------------------------------------------------------------------ byte memory *)
Definition mem := PositiveMap.t Z.
Definition mkey (a : Z) : positive := Z.to_pos (a + 1).
Definition mem0 : mem := PositiveMap.empty Z.             (* memset(shared_data, 0, real_size) *)
Definition ld (m : mem) (a : Z) : Z :=
  match PositiveMap.find (mkey a) m with Some v => v | None => 0 end.
Definition st (m : mem) (a v : Z) : mem := PositiveMap.add (mkey a) v m.

Definition two32 : Z := 4294967296.

(* uint32_t load / store at word index i (little endian) *)
Definition ldw (m : mem) (i : Z) : Z :=
  ld m (4 * i) + 256 * ld m (4 * i + 1) + 65536 * ld m (4 * i + 2) + 16777216 * ld m (4 * i + 3).
Definition stw (m : mem) (i v : Z) : mem :=
  let v := v mod two32 in
  st (st (st (st m (4 * i) (v mod 256))
             (4 * i + 1) ((v / 256) mod 256))
         (4 * i + 2) ((v / 65536) mod 256))
     (4 * i + 3) ((v / 16777216) mod 256).

(* memcpy into / out of the doubly mapped data area: byte address a, a+1, ... taken mod W4 = 4*W *)
Fixpoint write_bytes (m : mem) (W4 a : Z) (d : list Z) : mem :=
  match d with
  | [] => m
  | x :: t => write_bytes (st m (a mod W4) x) W4 (a + 1) t
  end.
Fixpoint read_bytes (m : mem) (W4 a : Z) (n : nat) : list Z :=
  match n with
  | O => []
  | S k => ld m (a mod W4) :: read_bytes m W4 (a + 1) k
  end.

Definition zlen (d : list Z) : Z := Z.of_nat (length d).

(* ------------------------------------------------------------------ state *)
Record rb := { rW : Z;              (* shared_hdr->word_size *)
               wpt : Z; rpt : Z;    (* shared_hdr->write_pt / read_pt *)
               data : mem;          (* shared_data *)
               sem : option Z;      (* notifier count (posix_sem); None = no notifier *)
               ovw : bool }.        (* QB_RB_FLAG_OVERWRITE *)

Definition set_data (b : rb) (m : mem) : rb :=
  {| rW := rW b; wpt := wpt b; rpt := rpt b; data := m; sem := sem b; ovw := ovw b |}.
Definition set_sem (b : rb) (s : option Z) : rb :=
  {| rW := rW b; wpt := wpt b; rpt := rpt b; data := data b; sem := s; ovw := ovw b |}.

(* QB_ROUNDUP *)
Definition roundup (x y : Z) : Z := ((x + (y - 1)) / y) * y.

(* qb_rb_open_2 with QB_RB_FLAG_CREATE: size += MARGIN + 1; real_size = ROUNDUP(size, page);
   word_size = real_size / sizeof(uint32_t); memset 0; shared_data[word_size] = 5 (which is word 0
   through the second mapping). *)
Definition rb_open (S : Z) (nosem overwrite : bool) : rb :=
  let real := roundup (S + RB_CHUNK_MARGIN + RB_SIZE_EXTRA) RB_PAGE_SIZE in
  {| rW := real / RB_SIZEOF_WORD; wpt := 0; rpt := 0; data := stw mem0 0 5;
     sem := if nosem then None else Some 0; ovw := overwrite |}.

(* my_posix_sem_post *)
Definition sem_post (b : rb) : rb :=
  match sem b with Some c => set_sem b (Some (c + 1)) | None => b end.

(* ------------------------------------------------------------------ qb_rb_space_free / _used *)
(* in words; pure function of the two pointers (after the C11 repair the notifier count is not consulted) *)
Definition free_words (W w r : Z) : Z :=
  if r <? w then (r - w + W) - 1
  else if w <? r then (r - w) - 1
  else W.
Definition space_free (b : rb) : Z := free_words (rW b) (wpt b) (rpt b) * RB_SIZEOF_WORD.

Definition space_used (b : rb) : Z :=
  let w := wpt b in let r := rpt b in
  (if r <? w then w - r
   else if w <? r then (w - r + rW b) - 1
   else 0) * RB_SIZEOF_WORD.

(* qb_rb_chunks_used *)
Definition chunks_used (b : rb) : Z :=
  match sem b with Some c => c | None => - RB_ENOTSUP end.

(* ------------------------------------------------------------------ qb_rb_chunk_step *)
(* pointer += HEADER_WORDS; pointer += size/4; if (size % 4) pointer++; idx_cache_line_step *)
Definition chunk_step (W p size : Z) : Z :=
  let p1 := p + RB_CHUNK_HEADER_WORDS + size / RB_SIZEOF_WORD +
            (if size mod (RB_SIZEOF_WORD * RB_WORD_ALIGN) =? 0 then 0 else 1) in
  if W - 1 <? p1 then p1 mod W else p1.

(* ------------------------------------------------------------------ _rb_chunk_reclaim *)
Definition reclaim (b : rb) : rb * Z :=
  let old := rpt b in
  let magic := ldw (data b) ((old + 1) mod rW b) in
  if (old =? wpt b) || negb (magic =? RB_CHUNK_MAGIC) then (b, - RB_EINVAL) else
  let new := chunk_step (rW b) old (ldw (data b) old) in
  let m1 := stw (data b) old 0 in
  let m2 := stw m1 ((old + 1) mod rW b) RB_CHUNK_MAGIC_DEAD in
  ({| rW := rW b; wpt := wpt b; rpt := new; data := m2; sem := sem b; ovw := ovw b |}, 0).
  (* notifier.reclaim_fn is NULL for the built-in notifiers: rc = 0 *)

(* ------------------------------------------------------------------ qb_rb_chunk_alloc *)
Inductive aret :=
| AOk (b : rb) (dptr : Z)      (* pointer returned: word index of the chunk data *)
| AErr (b : rb) (e : Z)        (* NULL, errno = e *)
| AFuel.                       (* model artefact: the reclaim loop did not terminate within the fuel *)

(* while (space_free < len + MARGIN) { rc = reclaim; if (rc != 0) return NULL; } *)
Fixpoint ow_make_room (fuel : nat) (b : rb) (need : Z) : option (rb * Z) :=
  if space_free b <? need then
    match fuel with
    | O => None
    | S f => let '(b1, rc) := reclaim b in
             if rc =? 0 then ow_make_room f b1 need else Some (b1, rc)
    end
  else Some (b, 0).

Definition alloc_header (b : rb) : aret :=
  let w := wpt b in
  let m1 := stw (data b) w 0 in
  let m2 := stw m1 ((w + 1) mod rW b) RB_CHUNK_MAGIC_ALLOC in
  AOk (set_data b m2) ((w + RB_CHUNK_HEADER_WORDS) mod rW b).

Definition alloc (b : rb) (len : Z) : aret :=
  let need := len + RB_CHUNK_MARGIN in
  if ovw b then
    match ow_make_room (Z.to_nat (rW b)) b need with
    | None => AFuel
    | Some (b1, rc) => if rc =? 0 then alloc_header b1 else AErr b1 (- rc)
    end
  else
    if space_free b <? need then AErr b RB_EAGAIN else alloc_header b.

(* ------------------------------------------------------------------ qb_rb_chunk_commit *)
Definition commit (b : rb) (len : Z) : rb * Z :=
  let old := wpt b in
  let m1 := stw (data b) old len in
  let new := chunk_step (rW b) old (ldw m1 old) in
  let m2 := stw m1 ((old + 1) mod rW b) RB_CHUNK_MAGIC in
  (sem_post {| rW := rW b; wpt := new; rpt := rpt b; data := m2; sem := sem b; ovw := ovw b |}, 0).

(* alloc(rlen); memcpy(ptr, d, |d|); commit(|d|)  - the blackbox pattern; write is the case rlen = |d|.
   result: commit's return value, or -errno of the failed alloc *)
Inductive wret := WRet (b : rb) (r : Z) | WFuel.

Definition alloc_commit (b : rb) (rlen : Z) (d : list Z) : wret :=
  match alloc b rlen with
  | AFuel => WFuel
  | AErr b1 e => WRet b1 (- e)
  | AOk b1 p =>
      let m := write_bytes (data b1) (4 * rW b1) (4 * p) d in
      let '(b2, r) := commit (set_data b1 m) (zlen d) in
      WRet b2 r
  end.

(* qb_rb_chunk_write *)
Definition write (b : rb) (d : list Z) : wret :=
  match alloc_commit b (zlen d) d with
  | WFuel => WFuel
  | WRet b1 r => WRet b1 (if r <? 0 then r else zlen d)
  end.

(* ------------------------------------------------------------------ reader side *)
(* notifier.timedwait_fn(instance, 0) = sem_trywait: (state, res) *)
Definition sem_trywait (b : rb) : rb * Z :=
  match sem b with
  | None => (b, 0)                         (* timedwait_fn == NULL: res stays 0 *)
  | Some c => if 0 <? c then (set_sem b (Some (c - 1)), 0) else (b, - RB_ETIMEDOUT)
  end.

Definition chunk_ready (b : rb) : bool :=
  let r := rpt b in
  negb (r =? wpt b) && (ldw (data b) ((r + 1) mod rW b) =? RB_CHUNK_MAGIC).

Definition chunk_bytes (b : rb) (size : Z) : list Z :=
  read_bytes (data b) (4 * rW b) (4 * ((rpt b + RB_CHUNK_HEADER_WORDS) mod rW b)) (Z.to_nat size).

(* qb_rb_chunk_peek(rb, &p, 0): return value and the bytes visible through the returned pointer *)
Definition peek (b : rb) : rb * Z * list Z :=
  let '(b1, res) := sem_trywait b in
  if res <? 0 then (b1, 0, [])                            (* -ETIMEDOUT -> return 0 *)
  else if negb (chunk_ready b1) then (sem_post b1, - RB_EBADMSG, [])
  else let size := ldw (data b1) (rpt b1) in (b1, size, chunk_bytes b1 size).

(* qb_rb_chunk_read(rb, out, n, 0) *)
Definition read (b : rb) (n : Z) : rb * Z * list Z :=
  let '(b1, res) := sem_trywait b in
  if res <? 0 then (b1, res, [])
  else if negb (chunk_ready b1) then
    match sem b1 with
    | None => (b1, - RB_ETIMEDOUT, [])
    | Some _ => (sem_post b1, - RB_EBADMSG, [])
    end
  else
    let size := ldw (data b1) (rpt b1) in
    if n <? size then (sem_post b1, - RB_ENOBUFS, [])
    else let bytes := chunk_bytes b1 size in
         let '(b2, _) := reclaim b1 in (b2, size, bytes).

(* ------------------------------------------------------------------ qb_rb_write_to_file *)
Fixpoint words_from (m : mem) (i : Z) (n : nat) : list Z :=
  match n with O => [] | S k => ldw m i :: words_from m (i + 1) k end.
Definition dump (b : rb) : list Z :=
  rW b :: wpt b :: rpt b :: RB_FILE_HEADER_VERSION ::
  ((rW b + wpt b + rpt b + RB_FILE_HEADER_VERSION) mod two32) ::
  words_from (data b) 0 (Z.to_nat (rW b)).

(* ------------------------------------------------------------------ operations *)
Inductive op :=
| OWrite (d : list Z)
| OAllocCommit (rlen : Z) (d : list Z)
| ORead (n : Z)
| OPeek
| OReclaim
| OQuery
| ODump.

Inductive out :=
| ORet (r : Z) (bytes : list Z)
| OQ (free used chunks : Z)
| OD (words : list Z)
| OFuel.

Definition step (b : rb) (o : op) : rb * out :=
  match o with
  | OWrite d => match write b d with WRet b1 r => (b1, ORet r []) | WFuel => (b, OFuel) end
  | OAllocCommit rlen d =>
      match alloc_commit b rlen d with WRet b1 r => (b1, ORet r []) | WFuel => (b, OFuel) end
  | ORead n => let '(b1, r, bytes) := read b n in (b1, ORet r bytes)
  | OPeek => let '(b1, r, bytes) := peek b in (b1, ORet r bytes)
  | OReclaim => let '(b1, _) := reclaim b in (b1, ORet 0 [])       (* qb_rb_chunk_reclaim is void *)
  | OQuery => (b, OQ (space_free b) (space_used b) (chunks_used b))
  | ODump => (b, OD (dump b))
  end.

Fixpoint run (b : rb) (ops : list op) : rb * list out :=
  match ops with
  | [] => (b, [])
  | o :: t => let '(b1, x) := step b o in let '(b2, xs) := run b1 t in (b2, x :: xs)
  end.

(* ================================================================== the code before the repairs
   (only what differs), used for the ..._refuted theorems and replayed on the unrepaired library. *)
Definition chunk_ready_unfixed (b : rb) : bool :=
  ldw (data b) ((rpt b + 1) mod rW b) =? RB_CHUNK_MAGIC.

Definition reclaim_unfixed (b : rb) : rb * Z :=
  let old := rpt b in
  let magic := ldw (data b) ((old + 1) mod rW b) in
  if negb (magic =? RB_CHUNK_MAGIC) then (b, - RB_EINVAL) else
  let new := chunk_step (rW b) old (ldw (data b) old) in
  let m1 := stw (data b) old 0 in
  let m2 := stw m1 ((old + 1) mod rW b) RB_CHUNK_MAGIC_DEAD in
  ({| rW := rW b; wpt := wpt b; rpt := new; data := m2; sem := sem b; ovw := ovw b |}, 0).

Definition read_unfixed (b : rb) (n : Z) : rb * Z * list Z :=
  let '(b1, res) := sem_trywait b in
  if res <? 0 then (b1, res, [])
  else if negb (chunk_ready_unfixed b1) then
    match sem b1 with
    | None => (b1, - RB_ETIMEDOUT, [])
    | Some _ => (sem_post b1, - RB_EBADMSG, [])
    end
  else
    let size := ldw (data b1) (rpt b1) in
    if n <? size then (sem_post b1, - RB_ENOBUFS, [])
    else let bytes := chunk_bytes b1 size in
         let '(b2, _) := reclaim_unfixed b1 in (b2, size, bytes).

(* qb_rb_space_free before the C11 repair: equal pointers + positive notifier count = "full" *)
Definition space_free_unfixed (b : rb) : Z :=
  (if rpt b <? wpt b then (rpt b - wpt b + rW b) - 1
   else if wpt b <? rpt b then (rpt b - wpt b) - 1
   else match sem b with
        | Some c => if 0 <? c then 0 else rW b
        | None => rW b
        end) * RB_SIZEOF_WORD.

Fixpoint ow_make_room_unfixed (fuel : nat) (b : rb) (need : Z) : option (rb * Z) :=
  if space_free_unfixed b <? need then
    match fuel with
    | O => None
    | S f => let '(b1, rc) := reclaim_unfixed b in
             if rc =? 0 then ow_make_room_unfixed f b1 need else Some (b1, rc)
    end
  else Some (b, 0).

Definition write_unfixed (b : rb) (d : list Z) : wret :=
  let need := zlen d + RB_CHUNK_MARGIN in
  let go (b1 : rb) :=
      match alloc_header b1 with
      | AOk b2 p =>
          let m := write_bytes (data b2) (4 * rW b2) (4 * p) d in
          let '(b3, r) := commit (set_data b2 m) (zlen d) in
          WRet b3 (if r <? 0 then r else zlen d)
      | _ => WFuel
      end in
  if ovw b then
    match ow_make_room_unfixed (Z.to_nat (rW b)) b need with
    | None => WFuel
    | Some (b1, rc) => if rc =? 0 then go b1 else WRet b1 rc
    end
  else if space_free_unfixed b <? need then WRet b (- RB_EAGAIN) else go b.
