(* C16, interleaving model: (1) every log call of every producer is accounted for (queued / dropped-and-reported /
   made while the target was not enabled), and with the per-thread guard (fix 5) none is turned away; (2) deadlock
   freedom as an invariant: no reachable state in which every thread is blocked or finished while work remains. *)
From Coq Require Import ZArith List Bool Lia.
Import ListNotations.
Require Import Verif.gen.Consts_logthr Verif.LogThrModel Verif.LogThrProofs2 Verif.LogThrProofs3.
Local Open Scope Z_scope.

(* ------------------------------------------------------------------------------------------ accounting of calls *)
Definition count_tid (i : nat) (l : list msg) : nat := length (filter (fun m => Nat.eqb (m_tid m) i) l).
Definition plog_msgs (g : ghost) : list msg := map (fun x => fst (fst x)) (plog g).
Definition in_lock (p : prod) : nat := match p_pc p with PLock _ => 1%nat | _ => 0%nat end.

Definition calls_ok (i : nat) (g : ghost) (p : prod) : Prop :=
  p_seq p = (count_tid i (plog_msgs g) + count_tid i (skipped g) + count_tid i (guarded g) + in_lock p)%nat.

Definition Inv5 (prods : list prod) (g : ghost) : Prop := forall i p, nth_error prods i = Some p -> calls_ok i g p.

Lemma count_tid_snoc : forall i l m, count_tid i (l ++ [m]) = (count_tid i l + if Nat.eqb (m_tid m) i then 1 else 0)%nat.
Proof. intros. unfold count_tid. rewrite filter_app, app_length. cbn. destruct (Nat.eqb (m_tid m) i); reflexivity. Qed.

Lemma plog_msgs_add : forall g x, plog_msgs (add_plog g x) = plog_msgs g ++ [fst (fst x)].
Proof. intros. unfold plog_msgs, add_plog. cbn [plog]. rewrite map_app. reflexivity. Qed.

Lemma worker_ghost_frame : forall b sh gh w sh' gh' w' l, worker_step b sh gh w = Some (sh', gh', w', l) ->
  plog gh' = plog gh /\ skipped gh' = skipped gh /\ guarded gh' = guarded gh.
Proof.
  intros b sh gh w sh' gh' w' l H.
  assert (P : forall s g s2 g2 c, pop_section s g = (s2, g2, c) ->
              plog g2 = plog g /\ skipped g2 = skipped g /\ guarded g2 = guarded g).
  { intros s g s2 g2 c E. unfold pop_section in E. destruct (q s); [injection E as <- <- <-; auto|].
    destruct (drop s =? 0); destruct (en s); injection E as <- <- <-; auto. }
  unfold worker_step in H. destruct w; try discriminate.
  - destruct (0 <? sem sh); [|discriminate]. injection H as <- <- <- <-. auto.
  - destruct (lock_free sh); [|discriminate]. destruct b.
    + destruct (flag sh && is_nil (q sh)); [injection H as <- <- <- <-; auto|].
      destruct (pop_section _ gh) as [[s2 g2] c] eqn:E. injection H as <- <- <- <-. eapply P; eassumption.
    + destruct (flag sh); [injection H as <- <- <- <-; auto|].
      destruct (pop_section _ gh) as [[s2 g2] c] eqn:E. injection H as <- <- <- <-. eapply P; eassumption.
  - destruct (sem sh =? 0); [injection H as <- <- <- <-; auto|].
    destruct (pop_section _ gh) as [[s2 g2] c] eqn:E. injection H as <- <- <- <-. eapply P; eassumption.
  - injection H as <- <- <- <-. auto.
  - injection H as <- <- <- <-. auto.
  - injection H as <- <- <- <-. auto.
  - injection H as <- <- <- <-. auto.
Qed.

Lemma main_ghost_frame : forall b s s' l, main_step b s = Some (s', l) ->
  plog (c_gh s') = plog (c_gh s) /\ skipped (c_gh s') = skipped (c_gh s) /\ guarded (c_gh s') = guarded (c_gh s) /\
  c_prods s' = c_prods s.
Proof.
  intros b s s' l H. unfold main_step in H.
  assert (C : forall sh gh w sh2 gh2, close_cb sh gh w = (sh2, gh2) ->
              plog gh2 = plog gh /\ skipped gh2 = skipped gh /\ guarded gh2 = guarded gh).
  { intros sh gh w sh2 gh2 E. unfold close_cb in E. destruct (in_write w); injection E as <- <-; auto. }
  destruct (c_m s).
  - destruct (c_mprog s) as [|[bb| |] rest]; [discriminate| | |].
    + destruct (closed (c_sh s)); injection H as <- <-; auto.
    + destruct (closed (c_sh s)); [injection H as <- <-; auto|]. destruct b; [injection H as <- <-; auto|].
      destruct (close_cb (c_sh s) (c_gh s) (c_w s)) as [sh1 gh1] eqn:E. injection H as <- <-. cbn.
      destruct (C _ _ _ _ _ E) as (A & B & D). auto.
    + destruct (c_prods s); injection H as <- <-; auto.
  - destruct (lock_free (c_sh s)); [|discriminate]. destruct b0; [injection H as <- <-; auto|].
    destruct (en (c_sh s)); [|injection H as <- <-; auto].
    destruct (close_cb _ (c_gh s) (c_w s)) as [sh1 gh1] eqn:E. injection H as <- <-. cbn.
    destruct (C _ _ _ _ _ E) as (A & B & D). auto.
  - destruct (lock_free (c_sh s)); [|discriminate].
    destruct (close_cb _ (c_gh s) (c_w s)) as [sh1 gh1] eqn:E. injection H as <- <-. cbn.
    destruct (C _ _ _ _ _ E) as (A & B & D). auto.
  - injection H as <- <-; auto.
  - destruct (nth_done (c_prods s) k); [|discriminate]. injection H as <- <-; auto.
  - destruct (lock_free (c_sh s)); [|discriminate]. injection H as <- <-; auto.
  - injection H as <- <-; auto.
  - injection H as <- <-; auto.
  - destruct (c_w s); try discriminate. destruct (en (c_sh s)).
    + destruct (close_cb _ (c_gh s) WDone) as [sh1 gh1] eqn:E. injection H as <- <-. cbn.
      destruct (C _ _ _ _ _ E) as (A & B & D). auto.
    + injection H as <- <-; auto.
Qed.

Lemma calls_ok_frame : forall i g g' p, plog g' = plog g -> skipped g' = skipped g -> guarded g' = guarded g ->
  calls_ok i g p -> calls_ok i g' p.
Proof. intros i g g' p A B C H. unfold calls_ok, plog_msgs in *. rewrite A, B, C. exact H. Qed.

Lemma prod_inv5 : forall b prods i sh gh p sh' gh' p' l, Inv3 prods gh -> Inv5 prods gh -> nth_error prods i = Some p ->
  prod_step b i sh gh p = Some (sh', gh', p', l) ->
  Inv5 (upd_prod prods i p') gh' /\ (b = true -> guarded gh' = guarded gh).
Proof.
  intros b prods i sh gh p sh' gh' p' l I3 I Hn H.
  pose proof (I i p Hn) as C. pose proof (I3 i p Hn) as (O1 & _ & _). unfold calls_ok in C.
  assert (OTH : forall g2 (m : msg),
            m_tid m = i ->
            (forall j, count_tid j (plog_msgs g2) + count_tid j (skipped g2) + count_tid j (guarded g2) =
                       count_tid j (plog_msgs gh) + count_tid j (skipped gh) + count_tid j (guarded gh) +
                       if Nat.eqb (m_tid m) j then (p_seq p' + in_lock p - p_seq p - in_lock p') else 0)%nat ->
            (p_seq p <= p_seq p')%nat -> (p_seq p + in_lock p' <= p_seq p' + in_lock p)%nat ->
            Inv5 (upd_prod prods i p') g2).
  { intros g2 m Tm E L1 L2 j pj Hj. unfold calls_ok. destruct (Nat.eq_dec i j) as [<-|Ne].
    - rewrite (nth_upd_same _ _ _ _ Hn) in Hj. injection Hj as <-. specialize (E i). rewrite Tm, Nat.eqb_refl in E. lia.
    - rewrite nth_upd_other in Hj by exact Ne. pose proof (I j pj Hj) as Q. unfold calls_ok in Q.
      specialize (E j). rewrite Tm in E. replace (Nat.eqb i j) with false in E by (symmetry; apply Nat.eqb_neq; exact Ne). lia. }
  unfold prod_step in H. destruct (p_pc p) eqn:PC.
  - destruct (p_prog p) as [|len rest]; [discriminate|].
    assert (IL : in_lock p = 0%nat) by (unfold in_lock; rewrite PC; reflexivity).
    set (m := {| m_tid := i; m_seq := p_seq p; m_len := len |}) in *.
    destruct (negb b && inlog sh) eqn:G; [|destruct (en sh)]; injection H as <- <- <- <-.
    + split; [|intros ->; discriminate].
      apply (OTH _ m eq_refl); cbn [p_seq in_lock p_pc guarded skipped plog_msgs add_guarded plog]; try lia.
      intro j. unfold plog_msgs. cbn [plog add_guarded skipped guarded]. rewrite count_tid_snoc, IL.
      fold (plog_msgs gh). destruct (Nat.eqb (m_tid m) j); lia.
    + split; [|reflexivity].
      apply (OTH _ m eq_refl); cbn [p_seq in_lock p_pc]; try lia.
      intro j. rewrite IL. destruct (Nat.eqb (m_tid m) j); lia.
    + split; [|reflexivity].
      apply (OTH _ m eq_refl); cbn [p_seq in_lock p_pc]; try lia.
      intro j. unfold plog_msgs. cbn [plog add_skipped skipped guarded]. rewrite count_tid_snoc, IL.
      fold (plog_msgs gh). destruct (Nat.eqb (m_tid m) j); lia.
  - destruct (lock_free sh); [|discriminate]. destruct O1 as [T1 T2].
    assert (IL : in_lock p = 1%nat) by (unfold in_lock; rewrite PC; reflexivity).
    destruct (LOGT_LIMIT <? mem sh + msg_total m); injection H as <- <- <- <-; (split; [|reflexivity]);
      apply (OTH _ m T1); unfold at_ppc; cbn [p_seq in_lock p_pc]; try lia;
      intro j; rewrite plog_msgs_add; cbn [fst skipped guarded add_plog]; rewrite count_tid_snoc, IL;
      destruct (Nat.eqb (m_tid m) j); lia.
  - assert (IL : in_lock p = 0%nat) by (unfold in_lock; rewrite PC; reflexivity).
    destruct acc; injection H as <- <- <- <-; (split; [|reflexivity]);
      apply (OTH _ m0 eq_refl) || idtac.
    all: try (intros j pj Hj; unfold calls_ok; destruct (Nat.eq_dec i j) as [<-|Ne];
      [rewrite (nth_upd_same _ _ _ _ Hn) in Hj; injection Hj as <-; unfold at_ppc, in_lock in *; cbn [p_seq p_pc]; rewrite PC in *; lia
      |rewrite nth_upd_other in Hj by exact Ne; exact (I j pj Hj)]).
  - assert (IL : in_lock p = 0%nat) by (unfold in_lock; rewrite PC; reflexivity).
    injection H as <- <- <- <-. split; [|reflexivity].
    intros j pj Hj; unfold calls_ok; destruct (Nat.eq_dec i j) as [<-|Ne];
      [rewrite (nth_upd_same _ _ _ _ Hn) in Hj; injection Hj as <-; unfold at_ppc, in_lock in *; cbn [p_seq p_pc]; rewrite PC in *; lia
      |rewrite nth_upd_other in Hj by exact Ne; exact (I j pj Hj)].
Qed.

Definition Inv35 (b : bool) (s : cstate) : Prop :=
  Inv3 (c_prods s) (c_gh s) /\ Inv5 (c_prods s) (c_gh s) /\ (b = true -> guarded (c_gh s) = []).

Lemma inv35_step : forall b s tid, Inv35 b s -> Inv35 b (cstep' b s tid).
Proof.
  intros b s tid (I3 & I5 & G). pose proof (inv3_step b s tid I3) as I3'. cbv zeta in I3'.
  split; [exact I3'|]. clear I3'. unfold cstep', cstep. destruct tid as [|[|i]].
  - destruct (main_step b s) as [[s' l]|] eqn:E; [|split; assumption].
    destruct (main_ghost_frame _ _ _ _ E) as (A & B & C & D). rewrite D, C. split; [|exact G].
    intros i p Hn. eapply calls_ok_frame; try eassumption. exact (I5 i p Hn).
  - destruct (worker_step b (c_sh s) (c_gh s) (c_w s)) as [[[[sh gh] w] l]|] eqn:E; [|split; assumption].
    destruct (worker_ghost_frame _ _ _ _ _ _ _ _ E) as (A & B & C). cbn. rewrite C. split; [|exact G].
    intros i p Hn. eapply calls_ok_frame; try eassumption. exact (I5 i p Hn).
  - destruct (nth_error (c_prods s) i) as [p|] eqn:Hn; [|split; assumption].
    destruct (prod_step b i (c_sh s) (c_gh s) p) as [[[[sh gh] p'] l]|] eqn:E; [|split; assumption].
    destruct (prod_inv5 _ _ _ _ _ _ _ _ _ _ I3 I5 Hn E) as [A B]. cbn. split; [exact A|].
    intro Hb. rewrite (B Hb). exact (G Hb).
Qed.

Lemma inv35_exec : forall b sched s, Inv35 b s -> Inv35 b (exec b sched s).
Proof. induction sched as [|t r IH]; intros s I; [exact I|]. cbn. apply IH. apply inv35_step. exact I. Qed.

Lemma inv35_init : forall b mprog progs, Inv35 b (cinit mprog progs).
Proof.
  intros. split; [apply inv3_init|]. split; [|reflexivity].
  intros i p Hn. cbn in Hn. apply nth_error_In in Hn. apply in_map_iff in Hn. destruct Hn as (x & <- & _). reflexivity.
Qed.

(* every log call begun by producer i is: in the critical-section log (accepted or dropped), or was made while the
   target was not enabled, or is about to take the lock - and (repaired code) none was turned away by a guard *)
Lemma conc_calls_accounted : forall mprog progs sched, let s := exec true sched (cinit mprog progs) in
  guarded (c_gh s) = [] /\
  forall i p, nth_error (c_prods s) i = Some p ->
    p_seq p = (count_tid i (plog_msgs (c_gh s)) + count_tid i (skipped (c_gh s)) + in_lock p)%nat.
Proof.
  intros mprog progs sched s. destruct (inv35_exec true sched _ (inv35_init true mprog progs)) as (_ & I5 & G).
  fold s in I5, G. split; [exact (G eq_refl)|]. intros i p Hn. pose proof (I5 i p Hn) as C. unfold calls_ok in C.
  rewrite (G eq_refl) in C. cbn in C. lia.
Qed.

(* ------------------------------------------------------------------------------------------ deadlock freedom *)
Definition quiescent (s : cstate) : Prop :=
  all_prods_done (c_prods s) /\ c_m s = MIdle /\ c_mprog s = [] /\
  (c_w s = WDone \/
   (c_w s = WWait /\ sem (c_sh s) = 0 /\ q (c_sh s) = [] /\ stopped (c_gh s) = false)).   (* no qb_log_fini in the program *)

Lemma forallb_false_nth : forall (f : prod -> bool) l, forallb f l = false -> exists i p, nth_error l i = Some p /\ f p = false.
Proof.
  induction l as [|a r IH]; cbn; intro H; [discriminate|]. destruct (f a) eqn:E.
  - destruct (IH H) as (i & p & A & B). exists (S i), p. auto.
  - exists 0%nat, a. auto.
Qed.

Lemma forallb_true_nth : forall (f : prod -> bool) l, forallb f l = true -> forall i p, nth_error l i = Some p -> f p = true.
Proof. intros f l H i p Hn. rewrite forallb_forall in H. apply H. eapply nth_error_In; eassumption. Qed.

Lemma psum_pos_nth : forall f l, (forall p, 0 <= f p) -> 1 <= psum f l -> exists i p, nth_error l i = Some p /\ 1 <= f p.
Proof.
  induction l as [|a r IH]; cbn; intros N H; [lia|]. destruct (Z_le_gt_dec 1 (f a)).
  - exists 0%nat, a. auto.
  - pose proof (N a). destruct (IH N ltac:(lia)) as (i & p & A & B). exists (S i), p. auto.
Qed.

Lemma psum_done_zero : forall l, all_prods_done l -> psum fpost l = 0.
Proof.
  induction l as [|a r IH]; intro H; cbn; [reflexivity|]. rewrite IH.
  - specialize (H 0%nat a eq_refl). unfold prod_done in H. unfold fpost. destruct (p_pc a); try discriminate. reflexivity.
  - intros j p Hj. exact (H (S j) p Hj).
Qed.

Lemma undone_enabled : forall i sh gh p, lock_free sh = true -> prod_done p = false -> prod_step true i sh gh p <> None.
Proof.
  intros i sh gh p L D. unfold prod_step. unfold prod_done in D. destruct (p_pc p).
  - destruct (p_prog p); [discriminate|]. cbn [negb andb]. destruct (en sh); discriminate.
  - rewrite L. destruct (LOGT_LIMIT <? mem sh + msg_total m); discriminate.
  - destruct acc; discriminate.
  - discriminate.
Qed.

Lemma worker_enabled : forall sh gh w, w <> WGetval -> w <> WDone -> (w = WWait -> 0 < sem sh) ->
  (w = WLock -> lock_free sh = true) -> worker_step true sh gh w <> None.
Proof.
  intros sh gh w NG ND HW HL. unfold worker_step. destruct w; try congruence; try discriminate.
  - specialize (HW eq_refl). apply Z.ltb_lt in HW. rewrite HW. discriminate.
  - rewrite (HL eq_refl). destruct (flag sh && is_nil (q sh)); [discriminate|].
    destruct (pop_section (set_lk sh (Some HWorker)) gh) as [[a b] c]. discriminate.
Qed.

Lemma no_deadlock_state : forall s, Inv1 s -> (exists tid, cstep true s tid <> None) \/ quiescent s.
Proof.
  intros s I. pose proof (i_mutex s I) as M. pose proof (i_nogv s I) as NG.
  pose proof (psum_nonneg fsec (c_prods s) fsec_nonneg) as SN.
  destruct (lock_free (c_sh s)) eqn:L.
  2:{ (* the lock is held: its holder can always take its next step *)
    left. destruct (Z.eq_dec (wsec (c_w s)) 1) as [W|W].
    - exists 1%nat. unfold cstep. destruct (worker_step true (c_sh s) (c_gh s) (c_w s)) as [[[[a b] c] d]|] eqn:E; [discriminate|].
      exfalso. revert E. apply worker_enabled; try exact NG; intro X; rewrite X in W; cbn in W; lia.
    - destruct (Z.eq_dec (msec (c_m s)) 1) as [Mm|Mm].
      + exists 0%nat. unfold cstep, main_step. destruct (c_m s); cbn in Mm; try lia; discriminate.
      + assert (W0 : 0 <= wsec (c_w s)) by (destruct (c_w s); cbn; lia).
        assert (W1 : wsec (c_w s) <= 1) by (destruct (c_w s); cbn; lia).
        assert (M0 : 0 <= msec (c_m s) <= 1) by (destruct (c_m s); cbn; lia).
        destruct (psum_pos_nth fsec (c_prods s) fsec_nonneg ltac:(lia)) as (i & p & Hn & F).
        exists (S (S i)). unfold cstep. rewrite Hn. unfold prod_step, fsec in *.
        destruct (p_pc p); try lia. destruct acc; discriminate. }
  destruct (forallb prod_done (c_prods s)) eqn:FD.
  2:{ left. destruct (forallb_false_nth _ _ FD) as (i & p & Hn & D). exists (S (S i)). unfold cstep. rewrite Hn.
      destruct (prod_step true i (c_sh s) (c_gh s) p) as [[[[a b] c] d]|] eqn:E; [discriminate|].
      exfalso. exact (undone_enabled _ _ _ _ L D E). }
  assert (AD : all_prods_done (c_prods s)) by (intros j p Hj; eapply forallb_true_nth; eassumption).
  pose proof (psum_done_zero _ AD) as PZ. pose proof (i_tok s I) as T. pose proof (i_sem s I) as S0. rewrite PZ in T.
  (* the worker, when it can move *)
  assert (WK : c_w s <> WDone -> (c_w s = WWait -> 0 < sem (c_sh s)) -> exists tid, cstep true s tid <> None).
  { intros ND HW. exists 1%nat. unfold cstep.
    destruct (worker_step true (c_sh s) (c_gh s) (c_w s)) as [[[[a b] c] d]|] eqn:E; [discriminate|].
    exfalso. revert E. apply worker_enabled; auto. }
  destruct (c_m s) eqn:CM.
  - destruct (c_mprog s) as [|o rest] eqn:MP.
    + destruct (c_w s) eqn:CW.
      * destruct (Z_lt_le_dec 0 (sem (c_sh s))) as [Hs|Hs]; [left; apply WK; [discriminate|auto]|].
        right. split; [exact AD|]. split; [exact CM|]. split; [exact MP|]. right.
        destruct (stopped (c_gh s)) eqn:St; [destruct (i_stopped s I St) as (X & _); congruence|].
        cbn in T. assert (sem (c_sh s) = 0) by lia.
        destruct (q (c_sh s)); [auto|cbn [length] in T; lia].
      * left; apply WK; [discriminate|discriminate].
      * left; apply WK; [discriminate|discriminate].
      * left; apply WK; [discriminate|discriminate].
      * left; apply WK; [discriminate|discriminate].
      * left; apply WK; [discriminate|discriminate].
      * left; apply WK; [discriminate|discriminate].
      * right. split; [exact AD|]. split; [exact CM|]. split; [exact MP|]. left. exact CW.
    + left. exists 0%nat. unfold cstep, main_step. rewrite CM, MP.
      destruct o; [destruct (closed (c_sh s)); discriminate|destruct (closed (c_sh s)); discriminate|destruct (c_prods s); discriminate].
  - left. exists 0%nat. unfold cstep, main_step. rewrite CM, L. destruct b; [discriminate|].
    destruct (en (c_sh s)); [destruct (close_cb _ (c_gh s) (c_w s))|]; discriminate.
  - left. exists 0%nat. unfold cstep, main_step. rewrite CM, L. destruct (close_cb _ (c_gh s) (c_w s)). discriminate.
  - left. exists 0%nat. unfold cstep, main_step. rewrite CM. discriminate.
  - left. exists 0%nat. unfold cstep, main_step. rewrite CM.
    assert (nth_done (c_prods s) k = true) as ->; [|discriminate].
    unfold nth_done. destruct (nth_error (c_prods s) k) eqn:E; [exact (AD k p E)|reflexivity].
  - left. exists 0%nat. unfold cstep, main_step. rewrite CM, L. discriminate.
  - left. exists 0%nat. unfold cstep, main_step. rewrite CM. discriminate.
  - left. exists 0%nat. unfold cstep, main_step. rewrite CM. discriminate.
  - (* MStopJoin: the worker cannot be parked in sem_wait - the stop post is still there for it *)
    destruct (c_w s) eqn:CW.
    + left. rewrite <- CW in *. apply WK; [congruence|]. intros _. rewrite CW in T. cbn in T. lia.
    + left. rewrite <- CW in *. apply WK; congruence.
    + congruence.
    + left. rewrite <- CW in *. apply WK; congruence.
    + left. rewrite <- CW in *. apply WK; congruence.
    + left. rewrite <- CW in *. apply WK; congruence.
    + left. rewrite <- CW in *. apply WK; congruence.
    + left. exists 0%nat. unfold cstep, main_step. rewrite CM, CW.
      destruct (en (c_sh s)); [destruct (close_cb _ (c_gh s) WDone)|]; discriminate.
Qed.

(* in every reachable state some thread can move, or everything has finished (the worker has exited, or - when the
   control program never calls qb_log_fini - idles in sem_wait with the queue empty).  In particular there is no
   reachable state in which all threads are blocked while a record is queued, and qb_log_fini can never be stuck
   in its join *)
Lemma conc_no_deadlock : forall mprog progs sched, let s := exec true sched (cinit mprog progs) in
  (exists tid, cstep true s tid <> None) \/ quiescent s.
Proof. intros. apply no_deadlock_state. apply inv1_reach. Qed.

Lemma quiescent_queue_empty : forall mprog progs sched, let s := exec true sched (cinit mprog progs) in
  quiescent s -> q (c_sh s) = [].
Proof.
  intros mprog progs sched s (_ & _ & _ & [W|(_ & _ & Q & _)]); [|exact Q].
  pose proof (inv1_reach mprog progs sched) as I. fold s in I. apply (i_exit s I). rewrite W. reflexivity.
Qed.
