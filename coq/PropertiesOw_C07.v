(* C07 - the two gaps its level_note lists, closed in new files (C07's own files are unchanged and only imported).
   Statements only, each closed by `exact'.

   1. alloc and commit as SEPARATE operations (RbOwSplitModel.v / RbOwSplit.v): qb_rb_chunk_alloc(rlen), the caller's
      copy through the returned pointer, qb_rb_chunk_commit(len <= rlen), with the owner's reads / peeks / reclaims /
      queries / dumps allowed in between - in both modes (plain ring: EAGAIN when there is no room; overwrite ring: oldest
      chunks dropped first).  XInv s a = C07's Inv plus, while a reservation is open, "the returned pointer is the data
      pointer at write_pt, the reserved words are free, the bytes copied so far are in place".  xwf a o = well-formed use
      of the API judged along the history (no second writer call while a reservation is open, copy at most what was
      reserved, commit exactly what was copied).
   2. waits with ANY ms_timeout on the semaphore-notifier ring (RbOwWaitModel.v / RbOwWait.v): the notifier's answer
      (0 = taken, -ETIMEDOUT, another -errno) is an oracle argument; with an answer a single-threaded history can see
      the timed operations ARE the ms_timeout = 0 operations, so every theorem about op lists covers them; a failing
      semaphore is passed through and changes nothing. *)
From Coq Require Import ZArith List Bool.
Import ListNotations.
Require Import Verif.gen.Consts_rb Verif.gen.Consts_rbow Verif.RbModel Verif.RbSpec Verif.RbProofs Verif.RbRefine
               Verif.RbOwSplitModel Verif.RbOwSplit Verif.RbOwWaitModel Verif.RbOwWait.
Local Open Scope Z_scope.

(* every well-formed operation list over RbModel's operations + alloc / copy / commit: return values and delivered bytes
   are those of the FIFO specification with an open reservation, the invariant is preserved, the overwrite loop never
   runs out of fuel *)
Theorem C07_split_refines_fifo : forall ow ops s a, XInv s a -> mode_ok ow s -> xwf_run ow (rW (xb s)) a ops ->
  forall a' ys, xspec_run ow (rW (xb s)) a ops = (a', ys) ->
  exists s' xs, xrun s ops = (s', xs) /\ XInv s' a' /\ map obs_of xs = ys /\ ~ In OFuel xs /\
                rW (xb s') = rW (xb s) /\ mode_ok ow s'.
Proof. exact xrun_refines. Qed.
Print Assumptions C07_split_refines_fifo.

Theorem C07_split_refines_fifo_from_open : forall S ns ow ops, 0 <= S ->
  S + RB_CHUNK_MARGIN + RB_SIZE_EXTRA + RB_PAGE_SIZE <= two32 ->
  let b0 := rb_open S ns ow in
  let a0 := {| xs := spec0 ns; xres := None |} in
  xwf_run ow (rW b0) a0 ops ->
  forall a' ys, xspec_run ow (rW b0) a0 ops = (a', ys) ->
  exists s' xs, xrun {| xb := b0; xpend := None |} ops = (s', xs) /\ XInv s' a' /\ map obs_of xs = ys /\ ~ In OFuel xs.
Proof. exact xrun_refines_from_open. Qed.
Print Assumptions C07_split_refines_fifo_from_open.

(* the three pieces, on any state satisfying the invariant *)
Theorem C07_alloc_stamps_outside_the_queue : forall b q, Repr b q -> used q + 2 <= rW b - 1 ->
  exists b2, alloc_header b = AOk b2 ((wpt b + RB_CHUNK_HEADER_WORDS) mod rW b) /\ Repr b2 q /\
             wpt b2 = wpt b /\ rpt b2 = rpt b /\ rW b2 = rW b /\ sem b2 = sem b /\ ovw b2 = ovw b.
Proof. exact alloc_header_repr. Qed.
Theorem C07_copy_stays_in_the_reservation : forall b q rl d, Repr b q -> used q + cw rl <= rW b - 1 -> 0 <= zlen d <= rl ->
  let b' := set_data b (write_bytes (data b) (4 * rW b) (4 * ((wpt b + RB_CHUNK_HEADER_WORDS) mod rW b)) d) in
  Repr b' q /\ filled b' d.
Proof. exact fill_repr. Qed.
Theorem C07_commit_publishes_what_was_copied : forall b q rl d, Repr b q -> used q + cw rl <= rW b - 1 ->
  0 <= zlen d <= rl -> filled b d ->
  exists b', commit b (zlen d) = (b', 0) /\ Repr b' (q ++ [d]) /\ rW b' = rW b /\ ovw b' = ovw b /\ rpt b' = rpt b /\
             sem b' = match sem b with Some c => Some (c + 1) | None => None end.
Proof. exact commit_repr. Qed.
Print Assumptions C07_commit_publishes_what_was_copied.

(* the composite operation the C07 / C11 theorems use is the split sequence *)
Theorem C07_split_is_composite : forall b rlen d, 0 <= zlen d ->
  fst (xrun {| xb := b; xpend := None |} [XAlloc rlen; XFill d; XCommit (zlen d)]) =
  match alloc b rlen with
  | AOk _ _ => match alloc_commit b rlen d with WRet b' _ => {| xb := b'; xpend := None |} | WFuel => {| xb := b; xpend := None |} end
  | AErr b1 _ => {| xb := fst (commit b1 (zlen d)); xpend := None |}
  | AFuel => {| xb := fst (commit b (zlen d)); xpend := None |}
  end.
Proof. exact split_is_composite. Qed.

Example C07_example_split :
  xwf_run false (rW (rb_open 100 false false)) {| xs := spec0 false; xres := None |} ex_xops /\
  exists s xs, xrun {| xb := rb_open 100 false false; xpend := None |} ex_xops = (s, xs) /\
               nth 6 xs OFuel = ORet 90 (repeat 3 90) /\ xpend s = None.
Proof. exact example_split. Qed.

(* ------------------------------------------------------------------ timed waits *)
Theorem C07_timed_read_is_read : forall b n res, wait_consistent b res -> read_w RBO_EIDRM b n res = read b n.
Proof. exact (fun b n res H => read_w_is_read RBO_EIDRM b n res (proj1 eidrm_ok) (proj2 eidrm_ok) H). Qed.
Print Assumptions C07_timed_read_is_read.
Theorem C07_timed_peek_is_peek : forall b res, wait_consistent b res -> peek_w RBO_EIDRM b res = peek b.
Proof. exact (fun b res H => peek_w_is_peek RBO_EIDRM b res (proj1 eidrm_ok) (proj2 eidrm_ok) H). Qed.
Print Assumptions C07_timed_peek_is_peek.
Theorem C07_timed_read_error_pure : forall b n res c, sem b = Some c -> res < 0 -> res <> - RBO_EIDRM ->
  read_w RBO_EIDRM b n res = (b, res, []).
Proof. exact (read_w_error_pure RBO_EIDRM). Qed.
Theorem C07_timed_peek_error_pure : forall b res c, sem b = Some c -> res < 0 -> res <> - RBO_EIDRM ->
  peek_w RBO_EIDRM b res = (b, if res =? - RB_ETIMEDOUT then 0 else res, []).
Proof. exact (peek_w_error_pure RBO_EIDRM). Qed.

(* operation lists with timed waits: with consistent notifier answers they run exactly like the list with the waits
   replaced by ms_timeout = 0, so C07_refines_fifo (and C11's theorems about `run') cover them *)
Theorem C07_timed_oplists_are_untimed : forall ops b, wconsistent RBO_EIDRM b ops ->
  wrun RBO_EIDRM b ops = run b (map untimed ops).
Proof. exact (fun ops b H => wrun_is_run RBO_EIDRM ops b (proj1 eidrm_ok) (proj2 eidrm_ok) H). Qed.
Print Assumptions C07_timed_oplists_are_untimed.
