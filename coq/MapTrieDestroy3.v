(* C17 trie part, destroy (3): histories ending with qb_map_destroy. *)
From Coq Require Import List ZArith Bool Arith Lia Sorted.
Import ListNotations.
Require Import Verif.gen.Consts_trie Verif.MapTrieModel Verif.MapTrieSpec Verif.MapTrieProofs Verif.MapTrieProofs2
               Verif.MapTrieProofs3 Verif.MapTrieIter Verif.MapTrieIds Verif.MapTrieIter5 Verif.MapTrieIter6
               Verif.MapTrieNotify Verif.MapTrieNotify2 Verif.MapTrieNotify3 Verif.MapTrieNotify4 Verif.MapTrieDestroy2.

(* the dictionary and the subscriptions after a history *)
Fixpoint spec_final (d : dict) (S : sstate) (hs : list iop) : dict * sstate :=
  match hs with
  | [] => (d, S)
  | IH (HDict o) :: hs' => spec_final (fst (spec_step d o)) S hs'
  | IH (HNotifyAdd k fn e ud) :: hs' => spec_final d (fst (spec_notify_add S k fn e ud)) hs'
  | IH (HNotifyDel k fn e) :: hs' => spec_final d (fst (spec_notify_del S k fn e false 0)) hs'
  | IH (HNotifyDel2 k fn e ud) :: hs' => spec_final d (fst (spec_notify_del S k fn e true ud)) hs'
  | IForeach _ :: hs' => spec_final d S hs'
  end.

Lemma run_full_inv : forall fx hs t d S, f_rm fx = true -> Inv4 t d S -> valid_hist d S hs ->
  exists outs t', run fx t (map iop_op hs) = (outs, Ok t') /\ full_ok d S hs outs /\
                  Inv4 t' (fst (spec_final d S hs)) (snd (spec_final d S hs)).
Proof.
  intro fx. induction hs as [|h hs]; intros t d S Hfx [HI [IO NO]] Hv.
  - exists [], t. split; [reflexivity|]. split; [constructor|]. simpl. split; [exact HI|split; [exact IO|exact NO]].
  - cbn [map run].
    destruct h as [[o|k fn e ud|k fn e|k fn e ud]|stop]; cbn [iop_op hop_op valid_hist spec_final] in *.
    + destruct Hv as [H1 H2].
      destruct (step_refines fx t d o Hfx HI H1) as [t' [evs [St I']]]. rewrite St.
      assert (X : ids_ok t' /\ nots_ok (t_root t') S /\ evs = spec_events S d o).
      { destruct o as [k v|k|k|]; simpl in St.
        - pose proof (ids_put fx t d k v HI IO H1) as X. pose proof (put_full fx t d S k v HI NO H1) as [Y Z].
          destruct (do_put fx t k v). inversion St; subst. simpl in *. auto.
        - inversion St; subst. auto.
        - pose proof (ids_rm fx t k IO) as X. pose proof (rm_full fx t d S k Hfx HI NO H1) as [Y Z].
          destruct (do_rm fx t k) as [[a b] c]. inversion St; subst. simpl in *. auto.
        - inversion St; subst. auto. }
      destruct X as [IO' [NO' EV]]. subst evs.
      destruct (IHhs t' _ S Hfx (conj I' (conj IO' NO')) H2) as [outs [t'' [R [FO FI]]]]. rewrite R.
      eexists _, t''. split; [reflexivity|]. split; [constructor; exact FO | exact FI].
    + destruct Hv as [H1 H2].
      pose proof (notify_add_inv fx t d k fn e ud HI H1) as I'. pose proof (ids_notify_add fx t d k fn e ud HI IO H1) as IO'.
      pose proof (notify_add_full fx t d S k fn e ud HI NO H1) as [Z NO'].
      cbn [step]. destruct (do_notify_add fx t k fn e ud) as [t' z]. simpl in I', IO', Z, NO'. subst z.
      destruct (IHhs t' d _ Hfx (conj I' (conj IO' NO')) H2) as [outs [t'' [R [FO FI]]]]. rewrite R.
      eexists _, t''. split; [reflexivity|]. split; [constructor; exact FO | exact FI].
    + destruct Hv as [H1 H2].
      pose proof (notify_del_inv t d k fn e false 0 HI) as I'. pose proof (ids_notify_del t k fn e false 0 IO) as IO'.
      pose proof (notify_del_full t d S k fn e false 0 HI NO H1) as [Z NO'].
      cbn [step]. destruct (do_notify_del t k fn e false 0) as [t' z]. simpl in I', IO', Z, NO'. subst z.
      destruct (IHhs t' d _ Hfx (conj I' (conj IO' NO')) H2) as [outs [t'' [R [FO FI]]]]. rewrite R.
      eexists _, t''. split; [reflexivity|]. split; [constructor; exact FO | exact FI].
    + destruct Hv as [H1 H2].
      pose proof (notify_del_inv t d k fn e true ud HI) as I'. pose proof (ids_notify_del t k fn e true ud IO) as IO'.
      pose proof (notify_del_full t d S k fn e true ud HI NO H1) as [Z NO'].
      cbn [step]. destruct (do_notify_del t k fn e true ud) as [t' z]. simpl in I', IO', Z, NO'. subst z.
      destruct (IHhs t' d _ Hfx (conj I' (conj IO' NO')) H2) as [outs [t'' [R [FO FI]]]]. rewrite R.
      eexists _, t''. split; [reflexivity|]. split; [constructor; exact FO | exact FI].
    + pose proof (foreach_step fx t d stop HI IO) as F. rewrite F.
      destruct (IHhs t d S Hfx (conj HI (conj IO NO)) Hv) as [outs [t'' [R [FO FI]]]]. rewrite R.
      destruct (al_enum t d HI IO) as [EN EQ].
      eexists _, t''. split; [reflexivity|]. split; [|exact FI].
      rewrite <- take_map, EQ, take_map. constructor; auto.
Qed.

Lemma run_app : forall fx l1 l2 t o1 t1, run fx t l1 = (o1, Ok t1) ->
  run fx t (l1 ++ l2) = (o1 ++ fst (run fx t1 l2), snd (run fx t1 l2)).
Proof.
  induction l1; intros l2 t o1 t1 H; simpl in *.
  - inversion H; subst. destruct (run fx t1 l2); reflexivity.
  - destruct (step fx t a) as [[[t' r] evs]|e]; [|discriminate].
    destruct (run fx t' l1) as [outs fin] eqn:R. inversion H; subst.
    rewrite (IHl1 l2 t' outs t1 R). reflexivity.
Qed.

(* the calls qb_map_destroy has to make for the entries L (in this order) *)
Definition destroy_events (S : sstate) (L : list (key * val)) : list ev :=
  flat_map (fun kv => notify_spec (s_get S) (fst kv) TRIE_NOTIFY_DELETED (Some (fst kv)) (Some (snd kv)) None) L.

Lemma dev_events : forall S l, (forall i, In i l -> exists k v, n_key i = Some k /\ n_val i = Some v) ->
  flat_map (dev S) l = destroy_events S (map kv_of l).
Proof.
  induction l; intros H; simpl; auto. rewrite IHl by (intros; apply H; simpl; auto).
  destruct (H a (or_introl eq_refl)) as [k [v [K V]]]. unfold dev, kv_of. rewrite K, V. reflexivity.
Qed.

(* C17 for the trie, histories ending with qb_map_destroy: after any valid history, destroy reaches no error state
   and makes, for every entry still present - each exactly once, in ascending (signed char) key order - exactly the
   DELETED calls of the matching subscriptions and one QB_MAP_NOTIFY_FREE call per FREE subscription: every value
   that leaves the map at destroy is released exactly once *)
Theorem trie_c17_destroy : forall fx hs, f_rm fx = true -> valid_hist [] [] hs ->
  exists outs t' L, run fx trie_init (map iop_op hs ++ [ODestroy]) =
                    (outs ++ [(RUnit, destroy_events (snd (spec_final [] [] hs)) L)], Ok t') /\
                    full_ok [] [] hs outs /\ enum (fst (spec_final [] [] hs)) L.
Proof.
  intros fx hs Hfx Hv.
  destruct (run_full_inv fx hs trie_init [] [] Hfx inv4_init Hv) as [outs [t1 [R [FO FI]]]].
  destruct (destroy_step_full fx t1 _ _ FI) as [t2 D].
  destruct FI as [HI [IO NO]]. destruct (al_enum t1 _ HI IO) as [EN EQ].
  exists outs, t2, (map kv_of (al_t (t_root t1))). split; [|split; auto].
  rewrite (run_app fx _ [ODestroy] _ _ _ R). cbn [run]. rewrite D. simpl.
  rewrite dev_events; [reflexivity|]. intros i Hi. destruct (al_sound t1 _ i HI Hi) as [k [v [K [V _]]]]. eauto.
Qed.
