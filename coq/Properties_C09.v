(* C09 - timers never fire early; same-priority timers in expiry order; the loop never sleeps past the next
   expiry (plus one tick / the 50 ms job throttle) and never blocks indefinitely while a timer is pending;
   time-remaining / is-running agree.  Statements only; each is closed by `exact'.
   Models: HeapModel.v (include/tlist.h), LoopTimerModel.v (lib/loop_timerlist.c, lib/loop.c: qb_loop_run,
   lib/loop_job.c, lib/util.c clock).  `fixed' = the tree with fixes/C09-*.patch, `as_found' = commit 6c47408. *)
From Coq Require Import ZArith List Bool Sorted.
Require Import Verif.gen.Consts_looptimer Verif.HeapModel Verif.HeapProofs Verif.LoopTimerModel
               Verif.LoopTimerArith Verif.LoopTimerWitness Verif.LoopTimerProofs Verif.LoopTimerStrong Verif.LoopTimerOrder Verif.LoopTimerOrderWitness.
Import ListNotations.
Local Open Scope Z_scope.

(* side conditions on constants regenerated from /repo (widths of expire_time, of the poll timeout and of the
   handle; enum values; to_process >= 1) *)
Theorem C09_consts_ok :
  LT_UINT64_MAX = two64 - 1 /\ LT_INT32_MAX = two31 - 1 /\ LT_NS_IN_MSEC = 1000000 /\
  LT_SIZEOF_EXPIRE = 8 /\ LT_SIZEOF_MS_TIMEOUT = 4 /\ LT_SIZEOF_TIMER_HANDLE = 8 /\
  LT_LOOP_LOW = 0 /\ LT_LOOP_MED = 1 /\ LT_LOOP_HIGH = 2 /\
  LT_ENTRY_EMPTY = 0 /\ LT_ENTRY_ACTIVE <> LT_ENTRY_EMPTY /\ LT_ENTRY_JOBLIST <> LT_ENTRY_EMPTY /\
  LT_ENTRY_ACTIVE <> LT_ENTRY_JOBLIST /\ LT_ENTRY_DELETED <> LT_ENTRY_ACTIVE /\ LT_ENTRY_DELETED <> LT_ENTRY_JOBLIST /\
  LT_ENTRY_DELETED <> LT_ENTRY_EMPTY /\
  1 <= LT_TO_PROCESS /\ LT_TO_PROCESS_MED = LT_TO_PROCESS /\ LT_TO_PROCESS_HIGH = LT_TO_PROCESS.
Proof. exact lt_consts_ok. Qed.
Print Assumptions C09_consts_ok.

(* ---------------------------------------------------------------- the heap (include/tlist.h) *)
(* for ALL histories of timerlist_add / timerlist_del (of any member: root, last, middle, the only one) /
   timerlist_expire: no assert of the header fails and no loop runs out of fuel, the array is a heap
   (parent <= child), and every timer's heap_pos is the index it is stored at *)
Theorem C09_heap : forall ops,
  hs_err (hrun ops) = false /\ heap_ok (ents (hs_tl (hrun ops))) /\ bp_ok (hs_tl (hrun ops)).
Proof. exact heap_all_histories. Qed.
Print Assumptions C09_heap.

Example C09_heap_example :
  map t_id (ents (hs_tl (hrun ex_hops))) = [1] /\ map t_id (hs_fired (hrun ex_hops)) = [8; 7; 2; 5] /\
  is_valid_heap (hs_tl (hrun ex_hops)) = true.
Proof. exact ex_heap. Qed.

(* single operations on any heap satisfying the invariant (what the loop layer uses) *)
Theorem C09_heap_add : forall h t, hinv h -> (forall u, mem (ents h) u -> t_id u <> t_id t) ->
  exists h', heap_add h t = Some h' /\ hinv h' /\ length (ents h') = Datatypes.S (length (ents h)) /\
             (forall u, mem (ents h') u <-> (mem (ents h) u \/ u = t)).
Proof. exact heap_add_ok. Qed.
Print Assumptions C09_heap_add.

Theorem C09_heap_delete_arbitrary : forall h e, hinv h -> mem (ents h) e ->
  exists h', heap_delete h e = Some h' /\ hinv h' /\ length (ents h') = pred (length (ents h)) /\
             (forall u, mem (ents h') u <-> (mem (ents h) u /\ t_id u <> t_id e)).
Proof. exact heap_delete_ok. Qed.
Print Assumptions C09_heap_delete_arbitrary.

(* the root is the earliest expiry *)
Theorem C09_root_is_min : forall l r, heap_ok l -> at_ l 0 r -> forall i t, at_ l i t -> t_exp r <= t_exp t.
Proof. exact root_min. Qed.
Print Assumptions C09_root_is_min.

(* timerlist_expire(now): pops only timers with expire_time < now (strict test on the monotonic clock), pops
   ALL of them (whatever stays has now <= expire_time), in non-decreasing order of expire_time, each once *)
Theorem C09_expire_strict_sorted : forall h now, hinv h ->
  exists h' l, heap_expire h now = Some (h', l) /\ hinv h' /\ StronglySorted le_exp l /\
    (forall t, In t l -> t_exp t < now /\ mem (ents h) t) /\
    (forall u, mem (ents h') u <-> (mem (ents h) u /\ forall t, In t l -> t_id t <> t_id u)) /\
    (forall u, mem (ents h') u -> now <= t_exp u) /\
    NoDup (map t_id l) /\ (length (ents h') + length l = length (ents h))%nat.
Proof. exact heap_expire_ok. Qed.
Print Assumptions C09_expire_strict_sorted.

Theorem C09_expire_complete : forall h now h' l u, hinv h -> heap_expire h now = Some (h', l) ->
  mem (ents h) u -> t_exp u < now -> exists t, In t l /\ t_id t = t_id u.
Proof. exact heap_expire_complete. Qed.
Print Assumptions C09_expire_complete.

(* ---------------------------------------------------------------- 64-bit expiry arithmetic *)
(* repaired code, every 64-bit clock value and every 64-bit duration: the expiry test can succeed only after
   the full duration has elapsed, and it does succeed as soon as it has *)
Theorem C09_never_early_arith : forall now d now', u64 now -> u64 d -> u64 now' ->
  (expire_of fixed now d < now' <-> now + d < now').
Proof. exact (fun now d now' a b c => conj (expire_of_fixed_never_early now d now' a b c) (expire_of_fixed_due now d now' a b c)). Qed.
Print Assumptions C09_never_early_arith.

(* END TO END, repaired code, ALL histories: any interleaving of timer add / delete (any handle value, also
   forged or stale ones) / queries / job add / clock ticks / qb_loop_run with any number of turns, any callback
   behaviour table (callbacks that add, delete, stop, query), any initial clock, any clock resolution, any time
   passing per clock read - durations ranging over the full uint64_t.  EFire is the ghost record written when a
   timer callback is about to run: clock at add, duration asked, clock at which timerlist_expire found it due,
   clock now.  The callback never runs before add + duration. *)
Theorem C09_never_early : forall beh ops hz0 clk0 cstep0 data prio add dur fire now,
  0 < hz0 -> 0 < clk0 <= LT_UINT64_MAX -> wf_beh beh -> Forall wf_op ops ->
  In (EFire data prio add dur fire now) (out (run fixed beh (lp_init hz0 clk0 cstep0) ops)) ->
  add + dur < fire /\ fire <= now.
Proof. exact never_early_all_histories. Qed.
Print Assumptions C09_never_early.

(* the code as found: now + duration wraps mod 2^64 (witness: 2^64 - 6 ns asked at clock 1000) *)
Theorem C09_never_early_arith_refuted :
  exists now d now', u64 now /\ u64 d /\ u64 now' /\ expire_of as_found now d < now' /\ ~ (now + d < now').
Proof. exact expire_of_as_found_refuted. Qed.
Print Assumptions C09_never_early_arith_refuted.

Theorem C09_never_early_refuted :
  exists data prio add dur fire now,
    In (EFire data prio add dur fire now) (out (run as_found [] init0 w_early)) /\ ~ (add + dur < now).
Proof. exact never_early_as_found_refuted. Qed.
Print Assumptions C09_never_early_refuted.

(* ---------------------------------------------------------------- the poll timeout *)
(* repaired code: with a timer in the heap (root r = earliest expiry) the int32_t handed to the poll source is
   in [0, INT32_MAX] - never "wait for ever" - and sleeping for it ends no later than one tick (1000 / hz ms)
   after the earliest expiry; it is 0 when that expiry has passed.  All 64-bit clock and expiry values. *)
Theorem C09_timeout_sound_arith : forall st r, at_ (ents (heap st)) 0 r -> u64 (clk st) -> u64 (t_exp r) -> 0 < hz st ->
  let timeout := fst (msec_to_expire fixed st) in
  let now := clk st in
  0 <= timeout <= LT_INT32_MAX /\
  now + timeout * LT_NS_IN_MSEC <= Z.max now (t_exp r) + tick_ms st * LT_NS_IN_MSEC /\
  (t_exp r < now -> timeout = 0).
Proof. exact msec_to_expire_sound. Qed.
Print Assumptions C09_timeout_sound_arith.

(* END TO END, repaired code, ALL histories (as for C09_never_early): EDecide is the ghost record of the timeout
   decision of one turn of qb_loop_run: value handed to the poll source, clock before the decision, expire_time
   at the root of the heap (-1: empty), tick in ms, number of jobs just queued.  Whenever a timer is in the heap
   the loop never asks to wait indefinitely (negative), and the wait is 0, or the 50 ms throttle with jobs just
   queued, or ends no later than one tick after the root's expiry (= the earliest, C09_root_is_min). *)
Theorem C09_timeout_sound : forall beh ops hz0 clk0 cstep0 t n root tick j,
  0 < hz0 -> 0 < clk0 <= LT_UINT64_MAX -> wf_beh beh -> Forall wf_op ops ->
  In (EDecide t n root tick j) (out (run fixed beh (lp_init hz0 clk0 cstep0) ops)) -> 0 <= root ->
  0 <= t <= LT_INT32_MAX /\
  (t = 0 \/ (t = 50 /\ j > 0) \/ n + t * LT_NS_IN_MSEC <= Z.max n root + tick * LT_NS_IN_MSEC).
Proof. exact timeout_sound_all_histories. Qed.
Print Assumptions C09_timeout_sound.

Example C09_all_histories_example :
  let st := run fixed ex_beh (lp_init (hz_of_res 4000000) 1000 3) ex_ops in
  In (EFire 1 1 1000 3000000 50001013 50001017) (out st) /\
  In (EDecide 50 1012 3001000 4 1) (out st) /\ In (EDecide 5 50001023 52001017 4 0) (out st).
Proof. exact ex_run_events. Qed.

(* the decision of qb_loop_run: 0 when work is queued, 50 ms only when jobs were just queued, else the above *)
Theorem C09_timeout_decision : forall st r rem tt jt,
  at_ (ents (heap st)) 0 r -> u64 (clk st) -> u64 (t_exp r) -> 0 < hz st ->
  let timeout := fst (choose_timeout fixed st rem tt jt) in
  let now := clk st in
  0 <= timeout <= LT_INT32_MAX /\
  (timeout = 0 \/ (timeout = 50 /\ jt > 0) \/
   now + timeout * LT_NS_IN_MSEC <= Z.max now (t_exp r) + tick_ms st * LT_NS_IN_MSEC) /\
  ((rem > 0 \/ tt > 0) -> timeout = 0).
Proof. exact choose_timeout_sound. Qed.
Print Assumptions C09_timeout_decision.

(* -1 (wait until a descriptor is ready) only when no timer is in the heap *)
Theorem C09_timeout_none_only_when_empty : forall fx st, ents (heap st) = [] -> fst (msec_to_expire fx st) = -1.
Proof. exact msec_to_expire_empty. Qed.
Print Assumptions C09_timeout_none_only_when_empty.

(* the code as found: every millisecond value from 2^31 upwards becomes a negative int32_t = wait for ever *)
Theorem C09_timeout_sound_refuted :
  narrow_timeout as_found 2147483658 = -2147483638 /\ narrow_timeout as_found 4294967306 = -2 /\
  (forall left, two31 <= left <= LT_UINT64_MAX -> narrow_timeout as_found left < 0).
Proof. exact narrow_as_found_refuted. Qed.
Print Assumptions C09_timeout_sound_refuted.

Theorem C09_timeout_run_refuted :
  let st := run as_found [] init0 w_timeout in
  In (EPoll (-2147483638) 1000) (out st) /\ ents (heap st) <> [] /\
  In (EPoll (-2) 1000) (out (run as_found [] init0 w_timeout2)).
Proof. exact timeout_as_found_refuted. Qed.
Print Assumptions C09_timeout_run_refuted.

(* queued work never sleeps: with remaining_todo > 0 (work queued and not yet dispatched) or timers that just
   expired the timeout is 0 whatever the heap holds; the repaired qb_loop_run starts a run from the levels' todo
   counters, so work left by a stopped run counts *)
Theorem C09_queued_work_never_sleeps : forall fx st rem tt jt,
  rem > 0 \/ tt > 0 -> choose_timeout fx st rem tt jt = (0, st).
Proof. exact queued_work_never_sleeps. Qed.
Print Assumptions C09_queued_work_never_sleeps.

Theorem C09_run_counts_leftover : forall beh st d ds,
  loop_run fixed beh st (d :: ds) =
  run_turns fixed beh (d :: ds) (set_stop st false) LT_LOOP_LOW (total_todo (set_stop st false)).
Proof. exact run_counts_leftover. Qed.
Print Assumptions C09_run_counts_leftover.

(* the code as found: qb_loop_run after a stopped run waits for ever with an expired timer still queued *)
Theorem C09_rerun_blocks_refuted :
  let st := run as_found [] init0 w_rerun in
  hd (ENote 0) (out st) = EPoll (-1) 1001002 /\ job_head (lv0 st) = [ITimer 0] /\ todo (lv0 st) = 1.
Proof. exact rerun_as_found_refuted. Qed.
Print Assumptions C09_rerun_blocks_refuted.

Example C09_fixed_witnesses :
  In (EPoll 2147483647 1000) (out (run fixed [] init0 w_timeout)) /\
  In (EPoll 2147483647 1000) (out (run fixed [] init0 w_timeout2)) /\
  hd (ENote 0) (out (run fixed [] init0 w_rerun)) = EPoll 0 1001002.
Proof. exact (conj (proj1 timeout_fixed_witness) (conj (proj2 timeout_fixed_witness) rerun_fixed_witness)). Qed.

(* ---------------------------------------------------------------- loop level: consistency, no assert fails *)
(* END TO END, repaired code (the three C09 fixes and fixes/C08-timer-del-forged-handle.patch), ALL histories
   (any API calls with any handle values, any callback behaviours, priorities in the enum, uint64_t durations):
   in every reachable state - also in the middle of callbacks - `Sp [] st' holds: err = false (no assert() of
   tlist.h or loop_timerlist.c failed, no model loop ran out of fuel), the heap invariant (order + back pointers),
   every heap entry belongs to exactly one ACTIVE slot that points back to it and vice versa, every timer item on
   a job list is a JOBLIST slot of that priority and is listed once. *)
Theorem C09_consistent_all_histories : forall beh ops hz0 clk0 cstep0,
  wf2_beh beh -> Forall wf2_op ops -> LoopTimerStrong.S (run fixed beh (lp_init hz0 clk0 cstep0) ops).
Proof. exact consistent_all_histories. Qed.
Print Assumptions C09_consistent_all_histories.

Theorem C09_no_assert_fails : forall beh ops hz0 clk0 cstep0,
  wf2_beh beh -> Forall wf2_op ops ->
  let st := run fixed beh (lp_init hz0 clk0 cstep0) ops in
  err st = false /\ heap_ok (ents (heap st)) /\ bp_ok (heap st).
Proof. exact (fun beh ops hz0 clk0 cstep0 hb ho =>
  let H := consistent_all_histories beh ops hz0 clk0 cstep0 hb ho in
  conj (s_err _ _ H) (conj (proj1 (s_hinv _ _ H)) (proj2 (s_hinv _ _ H)))). Qed.
Print Assumptions C09_no_assert_fails.

(* without the zero-check test the invariant is false: a forged handle used inside a callback leaves a heap entry
   whose slot is EMPTY, and the assert of make_job_from_tmo fails when it expires *)
Theorem C09_consistent_refuted :
  let st := run fx_without_chk0 w_forged_beh init0 w_forged in
  err st = false /\ map t_data (ents (heap st)) = [1; 0] /\ map s_state (slots st) = [LT_ENTRY_ACTIVE; LT_ENTRY_EMPTY] /\
  In (ENote 2) (out st) /\ err (run fx_without_chk0 w_forged_beh init0 w_forged2) = true.
Proof. exact forged_handle_refuted. Qed.
Print Assumptions C09_consistent_refuted.

Example C09_consistent_example :
  let st := run fixed w_forged_beh init0 w_forged2 in
  err st = false /\
  filter (fun e => match e with ECb _ _ _ => true | _ => false end) (rev (out st)) = [ECb 0 2 2001003; ECb 0 4 16001007].
Proof. exact forged_handle_fixed_witness. Qed.

(* ---------------------------------------------------------------- expiry order within a priority *)
(* END TO END, repaired code, ALL histories: `ev_exps p' lists, in the order the callbacks ran, the expiry times
   (clock at add + duration asked, as unbounded integers) of the timer callbacks of priority p.  It is
   non-decreasing: timers of the same priority are dispatched in the order of their expiry times - across turns,
   runs, deletions, additions from inside callbacks, for every 64-bit duration. *)
Theorem C09_expiry_order : forall beh ops hz0 clk0 cstep0 p,
  0 < hz0 -> 0 < clk0 <= LT_UINT64_MAX -> wf2_beh beh -> Forall wf2_op ops -> vp p ->
  StronglySorted Z.le (ev_exps p (rev (out (run fixed beh (lp_init hz0 clk0 cstep0) ops)))).
Proof. exact expiry_order_all_histories. Qed.
Print Assumptions C09_expiry_order.

Example C09_expiry_order_example :
  ev_exps 1 (rev (out (run fixed ex_beh (lp_init (hz_of_res 4000000) 1000 3) ex_ops))) = [3001000; 4001006; 52001017] /\
  ev_exps 2 (rev (out (run fixed [] init0 w_order))) = [1001000].
Proof. exact order_example. Qed.

(* the code as found: a timer whose expiry wrapped runs before one that expires 2^64 ns earlier *)
Theorem C09_expiry_order_refuted :
  ev_exps 2 (rev (out (run as_found [] init0 w_order))) = [18446744073709552610; 1001000] /\
  ~ StronglySorted Z.le (ev_exps 2 (rev (out (run as_found [] init0 w_order)))).
Proof. exact order_as_found_refuted. Qed.
Print Assumptions C09_expiry_order_refuted.

(* ---------------------------------------------------------------- the queries *)
(* time-remaining / is-running / expire-time agree, in any state: is_running <> 0 exactly when expire_time_get <> 0;
   a slot that is not ACTIVE (never used, deleted, expired-and-queued, dispatched) answers 0 to all three; an
   ACTIVE slot answers its expire_time, "running", and max 0 (expire_time - clock).  Formal reading of "non-zero
   exactly while pending": between expiry and the loop turn that moves the timer to the job list the time
   remaining is already 0 while is_running still holds; once queued or dispatched or deleted all are 0. *)
Theorem C09_queries_agree : forall fx st h,
  (is_running fx st h = 1 <-> expire_time_get fx st h > 0) /\
  (is_running fx st h = 0 <-> expire_time_get fx st h <= 0) /\
  (forall i s, timer_from_handle fx st h = LOk i s -> s_state s <> LT_ENTRY_ACTIVE ->
     expire_time_get fx st h = 0 /\ is_running fx st h = 0 /\ fst (time_remaining fx st h) = 0) /\
  (forall i s tm, timer_from_handle fx st h = LOk i s -> s_state s = LT_ENTRY_ACTIVE -> s_th s = Some tm -> 0 < t_exp tm ->
     expire_time_get fx st h = t_exp tm /\ is_running fx st h = 1 /\
     fst (time_remaining fx st h) = Z.max 0 (t_exp tm - clk st)) /\
  (forall e, timer_from_handle fx st h = LErr e ->
     expire_time_get fx st h = 0 /\ is_running fx st h = 0 /\ fst (time_remaining fx st h) = 0).
Proof. exact queries_agree. Qed.
Print Assumptions C09_queries_agree.

(* END TO END, repaired code, ALL histories, every handle value: is_running is 1 exactly when the handle resolves
   to a slot whose timer is still in the heap; then expire_time_get is that timer's expiry
   = min (add + duration, 2^64 - 1) > 0 and the time remaining is max 0 (expiry - clock); otherwise (stale or
   never-issued handle, deleted, expired-and-queued, dispatched) all three queries answer 0; time remaining > 0
   implies running. *)
Theorem C09_queries_all_histories : forall beh ops hz0 clk0 cstep0 h,
  0 < hz0 -> 0 < clk0 <= LT_UINT64_MAX -> wf2_beh beh -> Forall wf2_op ops ->
  let st := run fixed beh (lp_init hz0 clk0 cstep0) ops in
  (is_running fixed st h = 1 \/ is_running fixed st h = 0) /\
  (is_running fixed st h = 1 <->
     exists i s, timer_from_handle fixed st h = LOk i s /\ s_state s = LT_ENTRY_ACTIVE) /\
  (is_running fixed st h = 1 ->
     exists tm, mem (ents (heap st)) tm /\ t_exp tm = Z.min (t_add tm + t_dur tm) LT_UINT64_MAX /\ 0 < t_exp tm /\
                expire_time_get fixed st h = t_exp tm /\
                fst (time_remaining fixed st h) = Z.max 0 (t_exp tm - clk st)) /\
  (is_running fixed st h = 0 -> expire_time_get fixed st h = 0 /\ fst (time_remaining fixed st h) = 0) /\
  (fst (time_remaining fixed st h) > 0 -> is_running fixed st h = 1).
Proof. exact queries_all_histories. Qed.
Print Assumptions C09_queries_all_histories.

(* repaired code: every expire_time computed at a positive clock is positive, for every 64-bit duration, so a
   pending timer is never reported "not running" *)
Theorem C09_expire_time_positive : forall now d, 0 < now <= LT_UINT64_MAX -> u64 d -> 0 < expire_of fixed now d.
Proof. exact expire_of_fixed_pos. Qed.
Print Assumptions C09_expire_time_positive.

(* is_running as found: now + duration = 2^64 gives expire_time 0, reported "not running" while pending *)
Theorem C09_is_running_refuted :
  let st := run as_found [] init0 [Cb (CAdd 2 (two64 - 1000) 1 7)] in
  is_running as_found st (nth 0 (issued st) 0) = 0 /\ ents (heap st) <> [].
Proof. exact is_running_as_found_refuted. Qed.
Print Assumptions C09_is_running_refuted.

Example C09_run_example :
  let st := run fixed ex_beh (lp_init (hz_of_res 4000000) 1000 3) ex_ops in
  err st = false /\
  filter (fun e => match e with ECb _ _ _ => true | _ => false end) (rev (out st)) =
    [ECb 1 9 50001017; ECb 0 1 50001017; ECb 0 3 50001020; ECb 0 4 55001035].
Proof. exact ex_run. Qed.
