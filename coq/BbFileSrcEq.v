(* C15 source tie (DESIGN.md 4.6): the reader side of the ring as the printer uses it, and the two numbers
   print_header shows, proved equal to the Gallina text that tools/c2coq.py regenerates from lib/ringbuffer.c on
   every run (coq/gen/Src_rb.v, coq/gen/Src_rbow.v).

   Translated and tied here:   qb_rb_chunk_read (with _rb_chunk_reclaim and qb_rb_chunk_step inlined by the translator)
                               = BbFileModel.bread on every well-formed loaded ring;
                               qb_rb_space_free / qb_rb_space_used = free32 / used32 for ALL uint32 header values
                               (also pointers outside the ring: the numbers the code as found prints).
   OUTSIDE the translator's subset (tools/c2coq.py reports "use of non-integer local"):
     qb_rb_create_from_file           - `struct stat st' is a struct-typed local (st.st_size), read() fills locals
                                        through their address;
     qb_log_blackbox_print_from_file  - struct-typed locals (`header', `timestamp'), a char* cursor into a malloc'ed
                                        buffer (pointer arithmetic, ptr - chunk), memcpy into locals.
   Their header-validation / per-entry bounds arithmetic therefore stays tied by correspondence only (every branch of
   both is reached by the stage-B generators: see evidence result codes and mutations M1..M5, M10). *)
From Coq Require Import ZArith List Bool Lia ZifyBool.
Import ListNotations.
Require Import Verif.gen.Consts_rb Verif.gen.Consts_bbfile Verif.C2CoqPrelude Verif.gen.Src_rb Verif.gen.Src_rbow
        Verif.RbModel Verif.RbMem Verif.RbSrcEq Verif.RbOwSrcEq Verif.BbFileModel Verif.BbFileProofs.
Local Open Scope Z_scope.

Ltac Zify.zify_post_hook ::= Z.div_mod_to_equations.

(* ------------------------------------------------------------------ bread = RbModel.read on a well-formed ring *)
Lemma bread_is_read : forall b, sem b = None -> ring_ok b ->
  bread b BBF_CHUNK_BUF = (let '(b', r, bytes) := read b BBF_CHUNK_BUF in RdOk b' r bytes).
Proof.
  intros b Hs (HW & Hr & Hbuf & Hm). pose proof bbf_consts_ok as K.
  unfold bread, read, sem_trywait, chunk_ready. rewrite Hs. cbn [fst snd].
  replace (0 <? 0) with false by reflexivity. cbn [negb andb].
  destruct (rpt b =? wpt b) eqn:E1; cbn [negb andb]; [rewrite ?Hs; reflexivity|].
  destruct (ldw (data b) ((rpt b + 1) mod rW b) =? RB_CHUNK_MAGIC) eqn:E2; cbn [negb]; [|rewrite ?Hs; reflexivity].
  unfold rword. replace ((0 <=? rpt b) && (rpt b <? 2 * rW b)) with true by lia.
  rewrite (Z.mod_small (rpt b) (rW b)) by lia.
  pose proof (ldw_range (data b) (rpt b) Hm ltac:(lia)) as Hsz.
  destruct (BBF_CHUNK_BUF <? ldw (data b) (rpt b)) eqn:E3.
  { unfold sem_post. rewrite Hs. reflexivity. }
  assert (Hdp : 0 <= (rpt b + RB_CHUNK_HEADER_WORDS) mod rW b < rW b) by (apply Z.mod_pos_bound; lia).
  replace (8 * rW b <? 4 * ((rpt b + RB_CHUNK_HEADER_WORDS) mod rW b) + ldw (data b) (rpt b)) with false by lia.
  unfold rword_set. replace ((0 <=? rpt b) && (rpt b <? 2 * rW b)) with true by lia.
  rewrite (Z.mod_small (rpt b) (rW b)) by lia.
  unfold reclaim. rewrite E1, E2. cbn [orb negb]. unfold chunk_bytes. cbn [data set_data rW wpt sem ovw]. rewrite ?Hs. reflexivity.
Qed.

(* ------------------------------------------------------------------ ... = the translated qb_rb_chunk_read *)
Lemma words_ok_of_bytes : forall m, bytes_ok m -> words_ok m.
Proof. intros m H i Hi. change (2 ^ 32) with two32. apply ldw_range; assumption. Qed.

Theorem src_bread : forall b rbp dout tmo a0 a1 a2 cntm cntp cntr cntt errno orcm orcp orcr orct inst d ptr,
  rbp <> 0 -> sem b = None -> ring_ok b -> 0 <= wpt b < rW b -> rW b <= 2 ^ 30 -> agree d (data b) ->
  match Src_rbow.qb_rb_chunk_read rbp dout BBF_CHUNK_BUF tmo a0 a1 a2 cntm cntp cntr cntt errno orcm orcp orcr orct
          inst 0 0 0 d ptr (rpt b) (rW b) (wpt b), bread b BBF_CHUNK_BUF with
  | (rv, _, a1', a2', cntm', _, _, _, errno', d', r'), RdOk b' r bytes =>
      rv = r /\ errno' = errno /\ r' = rpt b' /\ agree d' (data b') /\
      (0 <= r -> cntm' = cntm + 1 /\ a1' cntm = ptr + 4 * ((rpt b + 2) mod rW b) /\ a2' cntm = r)
  | _, RdFault _ => False
  end.
Proof.
  intros b rbp dout tmo a0 a1 a2 cntm cntp cntr cntt errno orcm orcp orcr orct inst d ptr Hp Hs Hok Hw HW30 A.
  pose proof Hok as (HW & Hr & Hbuf & Hm). pose proof bbf_consts_ok as K.
  rewrite (bread_is_read b Hs Hok).
  assert (Hh : hdr_ok (rW b) (wpt b) (rpt b)) by (unfold hdr_ok; lia).
  assert (Hn : notif_ok b 0 0 orct cntt) by (unfold notif_ok; rewrite Hs; split; reflexivity).
  pose proof (src_read b rbp dout BBF_CHUNK_BUF tmo a0 a1 a2 cntm cntp cntr cntt errno orcm orcp orcr orct inst 0 0 d ptr
                Hp Hh A (words_ok_of_bytes _ Hm) ltac:(bbc; lia) Hn) as H.
  destruct (Src_rbow.qb_rb_chunk_read _ _ _ _ _ _ _ _ _ _ _ _ _ _ _ _ _ _ _ _ _ _ _ _ _)
    as [[[[[[[[[[rv a0'] a1'] a2'] cntm'] cntp'] cntr'] cntt'] errno'] d'] r'].
  destruct (read b BBF_CHUNK_BUF) as [[b' r] bytes] eqn:Er.
  destruct H as (H1 & H2 & H3 & H4 & H5 & H6 & H7 & H8 & H9 & H10).
  split; [exact H1|]. split; [exact H2|]. split; [exact H4|]. split; [exact H5|].
  intros Hr0.
  (* a non-negative result means the chunk was ready and fitted *)
  unfold tok in H10. rewrite Hs in H10. cbn [andb] in H10.
  unfold read, sem_trywait in Er. rewrite Hs in Er. cbn [fst snd] in Er.
  replace (0 <? 0) with false in Er by reflexivity.
  destruct (chunk_ready b) eqn:Ec; cbn [negb andb] in *.
  - destruct (BBF_CHUNK_BUF <? ldw (data b) (rpt b)) eqn:E3; cbn [negb] in *.
    + unfold sem_post in Er. rewrite ?Hs in Er. inversion Er; subst. bbc. lia.
    + tauto.
  - rewrite Hs in Er. inversion Er; subst. bbc. lia.
Qed.

(* ------------------------------------------------------------------ print_header's numbers *)
Theorem src_free32 : forall W w r rbp cnt orc inst, rbp <> 0 ->
  0 <= W < 2 ^ 32 -> 0 <= w < 2 ^ 32 -> 0 <= r < 2 ^ 32 ->
  Src_rb.qb_rb_space_free rbp cnt orc inst 0 r W w = (free32 W w r, cnt).
Proof.
  intros W w r rbp cnt orc inst Hp HW Hw Hr.
  unfold Src_rb.qb_rb_space_free, free32.
  destruct (rbp =? 0) eqn:E0; [apply Z.eqb_eq in E0; contradiction|].
  change (0 =? 0) with true. cbv [negb]. f_equal.
  rewrite !(u32_small w), !(u32_small r) by assumption.
  unfold u32, u64, s64, uwrap, swrap, two32.
  change (2 ^ 32) with 4294967296 in *. change (2 ^ 64) with 18446744073709551616.
  change (2 ^ (64 - 1)) with 9223372036854775808. change (1 mod 4294967296) with 1. change (0 mod 18446744073709551616) with 0.
  destruct (w >? r) eqn:E1; [replace (r <? w) with true by lia | replace (r <? w) with false by lia; destruct (w <? r) eqn:E2]; lia.
Qed.

Theorem src_used32 : forall W w r rbp cnt orc inst, rbp <> 0 ->
  0 <= W < 2 ^ 32 -> 0 <= w < 2 ^ 32 -> 0 <= r < 2 ^ 32 ->
  Src_rb.qb_rb_space_used rbp cnt orc inst 0 r W w = (used32 W w r, cnt).
Proof.
  intros W w r rbp cnt orc inst Hp HW Hw Hr.
  unfold Src_rb.qb_rb_space_used, used32.
  destruct (rbp =? 0) eqn:E0; [apply Z.eqb_eq in E0; contradiction|].
  change (0 =? 0) with true. cbv [negb]. f_equal.
  rewrite !(u32_small w), !(u32_small r) by assumption.
  unfold u32, u64, s64, uwrap, swrap, two32.
  change (2 ^ 32) with 4294967296 in *. change (2 ^ 64) with 18446744073709551616.
  change (2 ^ (64 - 1)) with 9223372036854775808. change (1 mod 4294967296) with 1. change (0 mod 18446744073709551616) with 0.
  destruct (w >? r) eqn:E1; [replace (r <? w) with true by lia | replace (r <? w) with false by lia; destruct (w <? r) eqn:E2]; lia.
Qed.
