(* C17, trie part (lib/trie.c behind lib/map.c): the property theorems.  Statements only; each is closed by `exact`.
   Model: MapTrieModel.v; `run fx`: fx selects the code variant (FX_FOUND = as first found, FX_REPO = with the trie_rm
   repair 2f5e8c6, FX_ALL = also fixes/C18-trie-removed-parked.patch and fixes/C18-trie-split-keeps-node.patch); the
   dictionary theorems hold for every variant that has the trie_rm repair.
   Proved for ALL histories: no error state and get / rm / count answer like a dictionary, also when notifier
   registrations create and release value-less nodes in between; complete / abandoned qb_map_foreach visits every
   present key exactly once.  NOT proved here (checked on generated scripts against the implementation by the
   monitor of vlib/maptrie.py, see reports/maptrie.md): prefix iteration. *)
From Coq Require Import List ZArith.
Require Import Verif.gen.Consts_trie Verif.MapTrieModel Verif.MapTrieSpec Verif.MapTrieProofs Verif.MapTrieProofs2
               Verif.MapTrieProofs3 Verif.MapTrieRefuted Verif.MapTrieIter Verif.MapTrieIds Verif.MapTrieIter4
               Verif.MapTrieIter6 Verif.MapTrieOrder Verif.MapTrieNotify Verif.MapTrieNotify2 Verif.MapTrieNotify3
               Verif.MapTrieNotify4 Verif.MapTrieDestroy2 Verif.MapTrieDestroy3.
Import ListNotations.

(* TRIE_CHAR2INDEX as modelled equals the macro of the working tree on all 256 byte values (table regenerated
   from lib/trie.c on every run), and distinct bytes get distinct child slots *)
Theorem C17T_char2index_is_the_macro : map c2i (seq 0 256) = TRIE_C2I_TABLE.
Proof. exact c2i_table_ok. Qed.
Print Assumptions C17T_char2index_is_the_macro.

Theorem C17T_char2index_injective : forall a b, c2i a = c2i b -> a = b.
Proof. exact c2i_inj. Qed.
Print Assumptions C17T_char2index_injective.

(* trie_insert (splits, segment extension, new children) changes no observation: whatever key is looked up
   afterwards sees the same key / value / reference count / notifier list as before, the node for the inserted key
   is the one trie_lookup finds, and node-local well-formedness is kept *)
Theorem C17T_insert_changes_no_observation : forall fx n k hdr nid n' p nid',
  all_t wfi n -> Forall (fun b => b <> 0) k -> ins_t fx n k hdr nid = (n', p, nid') ->
  (forall q, obs_t n' q = obs_t n q) /\ look_t n' k true = Some p /\ all_t wfi n'.
Proof. exact (fun fx n => ins_ok fx (size_t n) n (le_n _)). Qed.
Print Assumptions C17T_insert_changes_no_observation.

(* trie_node_release frees only nodes no lookup can tell from an absent node *)
Theorem C17T_release_changes_no_observation : forall p n hdr, all_t wfi n ->
  match rel_t n p hdr with
  | Some n' => (forall q, obs_t n' q = obs_t n q) /\ all_t wfi n' /\ t_seg n' = t_seg n
  | None => (forall q, obs_t n q = blank) /\ hdr = false
  end.
Proof. exact rel_ok. Qed.
Print Assumptions C17T_release_changes_no_observation.

(* THE dictionary theorem: every history of put / get / rm / count over non-empty C-string keys runs without an
   error state and returns exactly what the dictionary specification returns (get: latest value or nothing;
   rm: success exactly when present, and then gone; count: number of keys present, modulo the width of size_t) *)
Theorem C17T_dictionary_all_histories : forall fx ops, f_rm fx = true -> Forall dop_valid ops ->
  exists outs t', run fx trie_init (map to_op ops) = (outs, Ok t') /\ map fst outs = fst (spec_run [] ops).
Proof. exact trie_refines_dict. Qed.
Print Assumptions C17T_dictionary_all_histories.

(* ... also when notifier registrations / deletions (any keys, prefixes of present keys, absent keys; any flags)
   are interleaved: they create and release value-less nodes, which must never be mistaken for keys *)
Theorem C17T_dictionary_with_notifier_nodes : forall fx hs, f_rm fx = true -> Forall hop_valid hs ->
  exists outs t', run fx trie_init (map hop_op hs) = (outs, Ok t') /\
                  dict_outs hs (map fst outs) = fst (spec_run [] (dict_part hs)).
Proof. exact trie_refines_dict_with_notifiers. Qed.
Print Assumptions C17T_dictionary_with_notifier_nodes.

(* trie_node_next (every tree, every position): the result is exactly the next PRESENT node of the pre-order list
   (children from the highest index down), None exactly when there is none *)
Theorem C17T_node_next_is_preorder_successor : forall t rel,
  match next_t t rel with
  | Some p => p <> [] /\ exists tn, get_at t p = Some tn /\ alive tn = true /\ after_t t rel = t_info tn :: after_t t p
  | None => after_t t rel = []
  end.
Proof. exact (proj1 next_spec). Qed.
Print Assumptions C17T_node_next_is_preorder_successor.

(* node ids (= what a pointer held by an iterator denotes) are unique, so find_t returns the very node *)
Theorem C17T_pointer_denotes_its_node : forall p n tn, (forall x, cnt_t n x <= 1) -> get_at n p = Some tn ->
  find_t n (n_id (t_info tn)) = Some p.
Proof. exact find_unique. Qed.
Print Assumptions C17T_pointer_denotes_its_node.

(* ITERATION, all histories: dictionary operations, notifier registrations and qb_map_foreach calls (complete, or
   abandoned by the callback at its stop-th call) in any order: no error state - the traversal loops of lib/map.c /
   trie_node_next never run out of fuel -, dictionary answers as above, and every traversal visits the first [stop]
   entries (all for stop = 0) of an enumeration of exactly the present keys with their values, without duplicates
   and strictly ascending in the trie's key order klt (hist_ok / enum in MapTrieIter6.v), leaving the map and every
   reference count as they were *)
Theorem C17T_foreach_all_histories : forall fx hs, f_rm fx = true -> Forall iop_valid hs ->
  exists outs t', run fx trie_init (map iop_op hs) = (outs, Ok t') /\ hist_ok [] hs outs.
Proof. exact trie_foreach_all_histories. Qed.
Print Assumptions C17T_foreach_all_histories.

(* trie_notify (every tree): the calls made for an event on the node trie_lookup finds for k are those of
   notify_spec over the notifier lists registered at k and at its proper prefixes (longest first, the global list last) *)
Theorem C17T_notify_walks_the_prefixes : forall r k p e ko old new, look_t r k true = Some p ->
  notify r p e ko old new = notify_spec (fun q => c_nots (obs_t r q)) k e ko old new.
Proof. exact notify_obs. Qed.
Print Assumptions C17T_notify_walks_the_prefixes.

(* C17 FOR THE TRIE, ALL HISTORIES of put / get / rm / count / notify_add / notify_del / notify_del_2 / foreach
   (keys: non-empty C strings; notify_del names a key a notifier is registered on, or NULL - the documented
   precondition): no error state; results = dictionary / subscription specification (incl. -EINVAL, -EEXIST, -ENOENT);
   every put / rm makes EXACTLY the notifier calls notify_spec demands of the current subscriptions, in order, with
   the right key, old and new value - INSERTED, REPLACED, DELETED, and QB_MAP_NOTIFY_FREE once per FREE subscription
   for every value that leaves the map by replacement or removal; traversals as in C17T_foreach_all_histories.
   (full_ok / valid_hist: MapTrieNotify4.v.)  qb_map_destroy: next theorem; explicit iterators: PropertiesTrie_C18.v. *)
Theorem C17T_all_histories : forall fx hs, f_rm fx = true -> valid_hist [] [] hs ->
  exists outs t', run fx trie_init (map iop_op hs) = (outs, Ok t') /\ full_ok [] [] hs outs.
Proof. exact trie_c17_all_histories. Qed.
Print Assumptions C17T_all_histories.

(* ... and qb_map_destroy after any such history: no error state (the loop of trie_destroy never runs out of fuel,
   never follows a stale pointer), and for every entry still present - each exactly once, in ascending (signed char)
   key order - exactly the DELETED calls of the matching subscriptions and one QB_MAP_NOTIFY_FREE call per FREE
   subscription: every value that leaves the map at destroy is released exactly once *)
Theorem C17T_destroy_all_histories : forall fx hs, f_rm fx = true -> valid_hist [] [] hs ->
  exists outs t' L, run fx trie_init (map iop_op hs ++ [ODestroy]) =
                    (outs ++ [(RUnit, destroy_events (snd (spec_final [] [] hs)) L)], Ok t') /\
                    full_ok [] [] hs outs /\ enum (fst (spec_final [] [] hs)) L.
Proof. exact trie_c17_destroy. Qed.
Print Assumptions C17T_destroy_all_histories.

(* non-vacuity and illustration: a global recursive notifier (fn 0, user data 7), a FREE notifier (fn 1), a
   recursive prefix notifier on "a" (fn 2): put ab 1; put ab 2 (replace); rm ab; count *)
Definition ex_hist : list iop :=
  [IH (HNotifyAdd None 0 15 7); IH (HNotifyAdd None 1 16 0); IH (HNotifyAdd (Some [97]) 2 15 3);
   IH (HDict (DPut [97; 98] 1)); IH (HDict (DPut [97; 98] 2)); IH (HDict (DRm [97; 98])); IH (HDict DCount); IForeach 0].
Example C17T_all_histories_example :
  valid_hist [] [] ex_hist /\
  map snd (fst (run FX_ALL trie_init (map iop_op ex_hist))) =
  [[]; []; [];
   [ECb 4 (Some [97; 98]) None (Some 1) 2 3; ECb 4 (Some [97; 98]) None (Some 1) 0 7];
   [ECb 2 (Some [97; 98]) (Some 1) (Some 2) 2 3; ECb 2 (Some [97; 98]) (Some 1) (Some 2) 0 7;
    ECb 16 (Some [97; 98]) (Some 1) (Some 2) 1 0];
   [ECb 1 (Some [97; 98]) (Some 2) None 2 3; ECb 1 (Some [97; 98]) (Some 2) None 0 7;
    ECb 16 (Some [97; 98]) (Some 2) None 1 0];
   []; []].
Proof.
  split; [|vm_compute; reflexivity].
  simpl. unfold kvalid, okvalid, kvalid. repeat split; try discriminate; repeat constructor; discriminate.
Qed.

(* klt is the order of the signed char values of the bytes (a proper prefix first): what "ascending" means for the
   trie (the difference to strcmp order for bytes >= 0x80 is the known finding C17-trie-signed-byte-order) *)
Theorem C17T_key_order_is_signed_char_order : forall x y, x < 256 -> y < 256 -> (c2i y < c2i x <-> (sgn x < sgn y)%Z).
Proof. exact c2i_signed. Qed.
Print Assumptions C17T_key_order_is_signed_char_order.

(* the code AS FOUND violates it: rm("ab") after put("abc"), put("abd") reports success and the count drops
   (replayed on the real library; repaired by fixes/C17-trie-rm-alive.patch) - the hypotheses of the theorem
   above are met by this history (non-vacuity) *)
Theorem C17T_rm_of_absent_key_refuted :
  Forall dop_valid w_rm_interior /\
  outs_of FX_FOUND (map to_op w_rm_interior) = [RUnit; RUnit; RInt TRIE_QB_TRUE; RInt 1] /\
  fst (spec_run [] w_rm_interior) = [RUnit; RUnit; RInt TRIE_QB_FALSE; RInt 2].
Proof. exact rm_absent_refuted. Qed.
Print Assumptions C17T_rm_of_absent_key_refuted.

Example C17T_rm_of_absent_key_fixed : outs_of FX_REPO (map to_op w_rm_interior) = fst (spec_run [] w_rm_interior).
Proof. exact rm_absent_fixed. Qed.

(* "ascending key order" read as strcmp order is false of the trie for bytes >= 0x80 (known finding
   C17-trie-signed-byte-order; guard: all key bytes < 0x80): 0x80 is visited before 'a' *)
Theorem C17T_ascending_order_refuted : visits [OPut [97] 1; OPut [128] 2; OForeach 0] = [Some [128]; Some [97]].
Proof. exact order_refuted. Qed.
Print Assumptions C17T_ascending_order_refuted.
