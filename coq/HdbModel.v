(* C20: executable model of lib/hdb.c (handle database).  No proofs in this file, so the
   model still builds and runs when a proof breaks.

   Transcribed function by function from lib/hdb.c:
     qb_hdb_handle_create / _get / _put / _destroy / _refcount_get,
     qb_hdb_iterator_reset / _next, qb_hdb_base_convert / _nocheck_convert
     (qb_hdb_handle_get_always is qb_hdb_handle_get: the driver maps it to Get).
   Conventions (DESIGN.md section 3): a handle is the uint64_t value as a Z in [0, 2^64);
   `check' and `handle' are the int32_t halves exactly as the C code computes them;
   object instances are allocation-order ids (1, 2, ...; 0 = NULL); the destructor
   log `dlog' records the instance id of every destructor call, newest first;
   random() is an oracle: the value it returns is an argument of Create.
   ref_count is an unbounded Z (int32_t wrap needs 2^31 gets, excluded by range). *)
From Coq Require Import ZArith List Bool.
Import ListNotations.
Require Import Verif.gen.Consts_hdb.
Local Open Scope Z_scope.

Definition two32 : Z := 4294967296.
Definition two31 : Z := 2147483648.

(* (int32_t) of a value already reduced mod 2^32 *)
Definition to_i32 (x : Z) : Z :=
  let y := x mod two32 in if y <? two31 then y else y - two32.

Definition check_of (h : Z) : Z := to_i32 (h / two32).       (* int32_t check = handle_in >> 32 *)
Definition idx_of (h : Z) : Z := to_i32 (h mod two32).        (* int32_t handle = handle_in & UINT32_MAX *)
Definition NOCHECK : Z := -1.                                 (* (int32_t) UINT32_MAX *)

(* (((uint64_t) check) << 32) | handle   for 0 <= check < 2^31, 0 <= handle < 2^31 *)
Definition mk_handle (check idx : Z) : Z := (check mod two32) * two32 + idx.

(* qb_hdb_base_convert: handle & UINT32_MAX;  qb_hdb_nocheck_convert: ((uint64_t) UINT32_MAX) << 32 | handle *)
Definition base_convert (h : Z) : Z := h mod two32.
Definition nocheck_convert (i : Z) : Z := (two32 - 1) * two32 + i mod two32.

Record slot := { s_state : Z; s_check : Z; s_ref : Z; s_inst : Z }.

(* memset(entry, 0, sizeof *entry) *)
Definition zero_slot : slot := {| s_state := 0; s_check := 0; s_ref := 0; s_inst := 0 |}.

Record hdb := { slots : list slot;     (* handle_count = length slots *)
                iter : Z;
                next_inst : Z;          (* allocation counter for instance ids *)
                dlog : list Z }.        (* destructor calls, newest first *)

Definition hdb_init : hdb := {| slots := []; iter := 0; next_inst := 1; dlog := [] |}.

Definition handle_count (d : hdb) : Z := Z.of_nat (length (slots d)).

Inductive op :=
| Create (chk : Z)          (* chk = what random() returns *)
| CreateFail               (* create whose instance allocation fails (malloc returns NULL) *)
| Get (h : Z)
| Put (h : Z)
| Destroy (h : Z)
| Refcount (h : Z)
| IterReset
| IterNext.

(* result code, then a value: the handle for Create, the instance id for Get,
   0 for the others; IterNext reports instance and handle *)
Inductive out :=
| ORes (res : Z) (val : Z)
| OIter (res : Z) (inst : Z) (h : Z).

Definition nth_slot (d : hdb) (i : Z) : option slot :=
  if (i <? 0) then None else nth_error (slots d) (Z.to_nat i).

Fixpoint upd {A} (l : list A) (n : nat) (x : A) : list A :=
  match l, n with
  | [], _ => []
  | _ :: t, O => x :: t
  | a :: t, S n' => a :: upd t n' x
  end.

Definition set_slot (d : hdb) (i : Z) (s : slot) : hdb :=
  {| slots := upd (slots d) (Z.to_nat i) s; iter := iter d; next_inst := next_inst d; dlog := dlog d |}.

(* index of the first EMPTY slot *)
Fixpoint find_empty (l : list slot) (i : Z) : option Z :=
  match l with
  | [] => None
  | s :: t => if s_state s =? HDB_STATE_EMPTY then Some i else find_empty t (i + 1)
  end.

Definition do_create (d : hdb) (chk : Z) : hdb * out :=
  let fresh := {| s_state := HDB_STATE_ACTIVE; s_check := chk; s_ref := 1; s_inst := next_inst d |} in
  match find_empty (slots d) 0 with
  | Some i =>
      ({| slots := upd (slots d) (Z.to_nat i) fresh; iter := iter d;
          next_inst := next_inst d + 1; dlog := dlog d |},
       ORes 0 (mk_handle chk i))
  | None =>
      let n := handle_count d in
      if (HDB_ARRAY_MAX_ELEMENTS <? n + 1) then (d, ORes (- HDB_EINVAL) 0)   (* qb_array_grow refuses *)
      else
      ({| slots := slots d ++ [fresh]; iter := iter d;
          next_inst := next_inst d + 1; dlog := dlog d |},
       ORes 0 (mk_handle chk n))
  end.

(* qb_hdb_handle_create when malloc(instance_size) fails: the slot was already reserved
   (ref_count incremented on a recycled slot / handle_count incremented for a fresh one) and
   stays EMPTY; -ENOMEM *)
Definition do_create_fail (d : hdb) : hdb * out :=
  match find_empty (slots d) 0 with
  | Some i =>
      match nth_error (slots d) (Z.to_nat i) with
      | Some s =>
          ({| slots := upd (slots d) (Z.to_nat i)
                           {| s_state := s_state s; s_check := s_check s; s_ref := s_ref s + 1; s_inst := s_inst s |};
              iter := iter d; next_inst := next_inst d; dlog := dlog d |}, ORes (- HDB_ENOMEM) 0)
      | None => (d, ORes (- HDB_ENOMEM) 0)
      end
  | None =>
      let n := handle_count d in
      if (HDB_ARRAY_MAX_ELEMENTS <? n + 1) then (d, ORes (- HDB_EINVAL) 0)
      else ({| slots := slots d ++ [zero_slot]; iter := iter d; next_inst := next_inst d; dlog := dlog d |},
            ORes (- HDB_ENOMEM) 0)
  end.

Definition check_ok (chk : Z) (s : slot) : bool :=
  (chk =? NOCHECK) || (chk =? s_check s).

Definition do_get (d : hdb) (h : Z) : hdb * Z * Z :=      (* state, res, instance *)
  let chk := check_of h in
  let i := idx_of h in
  if (handle_count d <=? i) then (d, - HDB_EBADF, 0) else
  match nth_slot d i with
  | None => (d, - HDB_EBADF, 0)
  | Some s =>
      if negb (s_state s =? HDB_STATE_ACTIVE) then (d, - HDB_EBADF, 0) else
      if negb (check_ok chk s) then (d, - HDB_EBADF, 0) else
      (set_slot d i {| s_state := s_state s; s_check := s_check s; s_ref := s_ref s + 1; s_inst := s_inst s |},
       0, s_inst s)
  end.

(* the body shared by put and destroy once the entry has been validated:
   dec_and_test; on zero run the destructor, free, memset the entry *)
Definition drop_ref (d : hdb) (i : Z) (s : slot) : hdb :=
  if (s_ref s - 1 =? 0) then
    {| slots := upd (slots d) (Z.to_nat i) zero_slot; iter := iter d; next_inst := next_inst d;
       dlog := s_inst s :: dlog d |}
  else
    set_slot d i {| s_state := s_state s; s_check := s_check s; s_ref := s_ref s - 1; s_inst := s_inst s |}.

(* the validation common to put / destroy / refcount_get *)
Definition lookup (d : hdb) (h : Z) : option (Z * slot) :=
  let chk := check_of h in
  let i := idx_of h in
  if (handle_count d <=? i) then None else
  match nth_slot d i with
  | None => None
  | Some s =>
      if (s_state s =? HDB_STATE_EMPTY) then None else        (* the "fix:" state test *)
      if check_ok chk s then Some (i, s) else None
  end.

Definition do_put (d : hdb) (h : Z) : hdb * Z :=
  match lookup d h with
  | None => (d, - HDB_EBADF)
  | Some (i, s) => (drop_ref d i s, 0)
  end.

Definition do_destroy (d : hdb) (h : Z) : hdb * Z :=
  match lookup d h with
  | None => (d, - HDB_EBADF)
  | Some (i, s) =>
      let s' := {| s_state := HDB_STATE_PENDINGREMOVAL; s_check := s_check s; s_ref := s_ref s; s_inst := s_inst s |} in
      (* entry->state = PENDINGREMOVAL; then qb_hdb_handle_put(hdb, handle_in), which re-validates *)
      do_put (set_slot d i s') h
  end.

Definition do_refcount (d : hdb) (h : Z) : Z :=
  match lookup d h with
  | None => - HDB_EBADF
  | Some (_, s) => s_ref s
  end.

(* while (iterator < handle_count) { ...get...; iterator += 1; if (res == 0) break; } *)
Fixpoint iter_loop (fuel : nat) (d : hdb) (res : Z) : hdb * out :=
  match fuel with
  | O => (d, OIter res 0 0)
  | S f =>
      if (iter d <? handle_count d) then
        match nth_slot d (iter d) with
        | None => (d, OIter res 0 0)       (* qb_array_index failed: break (unreachable: iter < count) *)
        | Some s =>
            let h := mk_handle (s_check s) (iter d) in
            let '(d1, r, inst) := do_get d h in
            let d2 := {| slots := slots d1; iter := iter d1 + 1; next_inst := next_inst d1; dlog := dlog d1 |} in
            if r =? 0 then (d2, OIter 0 inst h) else iter_loop f d2 r
        end
      else (d, OIter res 0 0)
  end.

Definition step (d : hdb) (o : op) : hdb * out :=
  match o with
  | Create chk => do_create d chk
  | CreateFail => do_create_fail d
  | Get h => let '(d', r, inst) := do_get d h in (d', ORes r inst)
  | Put h => let '(d', r) := do_put d h in (d', ORes r 0)
  | Destroy h => let '(d', r) := do_destroy d h in (d', ORes r 0)
  | Refcount h => (d, ORes (do_refcount d h) 0)
  | IterReset => ({| slots := slots d; iter := 0; next_inst := next_inst d; dlog := dlog d |}, ORes 0 0)
  | IterNext => iter_loop (S (length (slots d))) d (-1)
  end.

Fixpoint run (d : hdb) (ops : list op) : hdb * list out :=
  match ops with
  | [] => (d, [])
  | o :: t => let '(d1, x) := step d o in let '(d2, xs) := run d1 t in (d2, x :: xs)
  end.
