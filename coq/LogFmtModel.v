(* C13 - model of the line formatter of lib/log_format.c: _strcpy_cutoff, qb_log_target_format,
   qb_log_target_format_static, qb_log_format_set.   MODEL ONLY - no proofs in this file.

   [fx = false]: the code as found (for the _refuted witnesses); [fx = true]: with fixes/C13-*.patch.
   Buffers are byte lists of exactly the size the property talks about (output_buffer of max_line_length
   bytes, modified_format[256] / [QB_LOG_ABSOLUTE_MAX_LEN]); every store is bounds-checked ([FOob]).
   The format string is a C string: the byte after its NUL is not ours to read ([FOob 4]).
   Oracles (recorded from the run): the two time-stamp texts, the text of the tags, pid, host name. *)
From Coq Require Import List ZArith Bool Lia.
Require Import Verif.gen.Consts_logfmt Verif.SerModel.
Import ListNotations.
Open Scope Z_scope.

Inductive fres :=
| FDone (buf : list Z)
| FOob (tag : Z).     (* 1 = output buffer write, 2 = output buffer read (idx-1 with idx = 0), 4 = read past the format's NUL *)

(* ------------------------------------------------------------------ _strcpy_cutoff *)
(* _strcpy_cutoff(dest = &buf[pos], src, cutoff, ralign, buf_len) -> (buffer, return value) *)
Definition strcpy_cutoff_m (buf : list Z) (pos : Z) (src : list Z) (cutoff : Z) (ralign : bool) (buf_len : Z)
  : option (list Z) * Z :=
  let len := zlen src in
  if buf_len <=? 1 then
    ((if buf_len =? 0 then store buf pos 0 else Some buf), 0)
  else
    let cutoff1 := if cutoff =? 0 then len else cutoff in
    let cutoff2 := Z.min cutoff1 (buf_len - 1) in
    let len2 := Z.min len cutoff2 in
    let pad := repeat 32 (Z.to_nat (cutoff2 - len2)) in
    let bytes := if ralign then pad ++ takeZ len2 src else takeZ len2 src ++ pad in
    (store_bytes buf pos (bytes ++ [0]), cutoff2).

(* atoi on a run of digits, converted to size_t as "cutoff = atoi(..)" does: strtol saturates at LONG_MAX,
   the cast to int keeps the low 32 bits, the assignment to size_t sign-extends *)
Fixpoint digits_val (ds : list Z) (acc : Z) : Z :=
  match ds with [] => acc | d :: t => digits_val t (acc * 10 + (d - 48)) end.
Definition atoi_cutoff (ds : list Z) : Z :=
  match ds with
  | [] => 0
  | _ => wrapsz (to_signed (8 * LF_SIZEOF_INT) (Z.min (digits_val ds 0) LF_LONG_MAX))
  end.

Definition is_digit (c : Z) : bool := (48 <=? c) && (c <=? 57).

(* ------------------------------------------------------------------ call-site data and oracles *)
Record callsite := mkCS {
  cs_function : list Z;
  cs_filename : list Z;
  cs_lineno : Z;          (* uint32_t *)
  cs_priority : Z;        (* uint8_t *)
  cs_tagtext : list Z     (* oracle: _user_tags_stringify_fn(cs->tags), "" without such a function *)
}.

Record oracles := mkO {
  o_time_t : list Z;      (* "%s %02d %02d:%02d:%02d" of localtime(the_ts) *)
  o_time_T : list Z;      (* the same with ".%03llu" milliseconds *)
  o_pid : list Z;         (* "%d" of getpid() *)
  o_host : list Z;        (* gethostname() *)
  o_name : list Z         (* t->name *)
}.

Fixpoint after_last_slash (l : list Z) (acc : list Z) : list Z :=
  match l with [] => acc | c :: t => if c =? 47 then after_last_slash t t else after_last_slash t acc end.

(* the "switch" of qb_log_target_format: the text of one directive *)
Definition dyn_field (cs : callsite) (msg : list Z) (o : oracles) (c : Z) : list Z :=
  if c =? 103 then cs_tagtext cs                                                  (* g *)
  else if c =? 110 then cs_function cs                                            (* n *)
  else if c =? 102 then (if LF_BUILDING_IN_PLACE =? 1 then cs_filename cs
                         else after_last_slash (cs_filename cs) (cs_filename cs)) (* f *)
  else if c =? 108 then dec (cs_lineno cs)                                        (* l *)
  else if c =? 116 then o_time_t o                                                (* t *)
  else if c =? 84 then o_time_T o                                                 (* T *)
  else if c =? 98 then msg                                                        (* b *)
  else if c =? 112 then nth (Z.to_nat (Z.min (cs_priority cs) LF_PRIO_TRACE)) LF_PRIO_NAMES []   (* p *)
  else [].

(* ------------------------------------------------------------------ the formatting loop *)
Inductive fmode :=
| MLit                                  (* top of the while loop *)
| MDir (ralign : bool) (ds : list Z) (dash_ok : bool) (txt : list Z).
    (* inside a directive: '-' seen, digits so far, whether a '-' may still come, text of the directive so far *)

Record fst := mkF { f_buf : list Z; f_idx : Z }.   (* output_buffer, output_buffer_idx (unsigned int) *)

(* the code after the loop of qb_log_target_format *)
Definition tf_finish (fx : bool) (L : Z) (ell : bool) (st : fst) : fres :=
  let idx := f_idx st in
  if fx then
    (* fix: idx > 0 before looking at [idx-1]; always terminate at [idx]; the ellipsis needs three characters *)
    let b1 := if (0 <? idx) && (rd (f_buf st) (idx - 1) =? 10) then store (f_buf st) (idx - 1) 0 else Some (f_buf st) in
    match b1 with
    | None => FOob 1
    | Some b1 =>
      match store b1 idx 0 with
      | None => FOob 1
      | Some b2 =>
        if ell && (wrapsz (L - 1) <=? idx) && (3 <=? idx) then
          match store_bytes b2 (idx - 3) [46; 46; 46] with
          | None => FOob 1
          | Some b3 => FDone b3
          end
        else FDone b2
      end
    end
  else
    if (idx <=? 0) || (zlen (f_buf st) <? idx) then FOob 2          (* output_buffer[idx - 1] outside *)
    else
      let b1 := if rd (f_buf st) (idx - 1) =? 10 then store (f_buf st) (idx - 1) 0 else store (f_buf st) idx 0 in
      match b1 with
      | None => FOob 1
      | Some b1 =>
        if ell && (wrapsz (L - 1) <=? idx) then
          match store_bytes b1 (idx - 3) [46; 46; 46] with
          | None => FOob 1
          | Some b3 => FDone b3
          end
        else FDone b1
      end.

(* the code after the loop of qb_log_target_format_static *)
Definition sf_finish (st : fst) : fres :=
  match store (f_buf st) (f_idx st) 0 with None => FOob 1 | Some b => FDone b end.

(* one pass over a format; [field] gives the text of a directive from its conversion character and the
   text of the whole directive (the static pass copies unknown directives through); [finish] is the tail.
   [dynamic]: qb_log_target_format (unknown directive = empty text with the parsed width) vs
   qb_log_target_format_static (unknown directive copied verbatim, cutoff = its length, left aligned). *)
Section Loop.
  Variable fx : bool.
  Variable L : Z.
  Variable dynamic : bool.
  Variable field : Z -> option (list Z).      (* None: not a directive of this pass *)
  Variable finish : fst -> fres.

  Definition emit (st : fst) (src : list Z) (cutoff : Z) (ralign : bool) (k : fst -> fres) : fres :=
    let '(ob, len) := strcpy_cutoff_m (f_buf st) (f_idx st) src cutoff ralign (wrapsz (L - f_idx st)) in
    match ob with
    | None => FOob 1
    | Some b => k (mkF b (wrap32 (f_idx st + wrap32 len)))
    end.

  (* the "if (output_buffer_idx >= max_line_length - 1) break;" at the bottom of the loop *)
  Definition bottom (st : fst) (k : fst -> fres) : fres :=
    if wrapsz (L - 1) <=? f_idx st then finish st else k st.

  Definition conv (st : fst) (ralign : bool) (ds txt : list Z) (c : Z) (k : fst -> fres) : fres :=
    match field c with
    | Some src => emit st src (atoi_cutoff ds) ralign k
    | None =>
      if dynamic then emit st [] (atoi_cutoff ds) ralign k
      else emit st (txt ++ (if c =? 0 then [] else [c])) (zlen txt + 1) false k
    end.

  Fixpoint fmt_go (f : list Z) (m : fmode) (st : fst) : fres :=
    match f with
    | [] =>
      match m with
      | MLit => finish st
      | MDir ralign ds _ txt =>
        (* the conversion character is the terminating NUL.  As found the index then steps over the NUL and the
           next loop test reads the byte after it;   fix: the index stays on the NUL *)
        conv st ralign ds txt 0 (fun st' => bottom st' (fun st'' => if fx then finish st'' else FOob 4))
      end
    | c :: f' =>
      match m with
      | MLit =>
        (* fix: the loop also stops when there is no room left ("output_buffer_idx + 1 < max_line_length") *)
        if fx && (L <=? f_idx st + 1) then finish st
        else if c =? 37 then fmt_go f' (MDir false [] true [37]) st
        else
          match store (f_buf st) (f_idx st) c with
          | None => FOob 1
          | Some b => bottom (mkF b (wrap32 (f_idx st + 1))) (fun st' => fmt_go f' MLit st')
          end
      | MDir ralign ds dash_ok txt =>
        if dash_ok && (c =? 45) then fmt_go f' (MDir true ds false (txt ++ [c])) st
        else if is_digit c then fmt_go f' (MDir ralign (ds ++ [c]) false (txt ++ [c])) st
        else conv st ralign ds txt c (fun st' => bottom st' (fun st'' => fmt_go f' MLit st''))
      end
    end.
End Loop.

(* qb_log_target_format(target, cs, the_ts, formatted_message, output_buffer) with t->format = fmt,
   t->max_line_length = L, t->ellipsis = ell; [garbage] = prior content of output_buffer *)
Definition target_format (fx : bool) (fmt : list Z) (cs : callsite) (msg : list Z) (L : Z) (ell : bool)
           (o : oracles) (garbage : list Z) : fres :=
  fmt_go fx L true
         (fun c => if (c =? 103) || (c =? 110) || (c =? 102) || (c =? 108) || (c =? 116) || (c =? 84) || (c =? 98) || (c =? 112)
                   then Some (dyn_field cs (cstr msg) o c) else None)
         (tf_finish fx L ell) (cstr fmt) MLit (mkF garbage 0).

(* qb_log_target_format_static(target, format, output_buffer) *)
Definition format_static (fx : bool) (fmt : list Z) (L : Z) (o : oracles) (garbage : list Z) : fres :=
  fmt_go fx L false
         (fun c => if c =? 80 then Some (o_pid o) else if c =? 78 then Some (o_name o)
                   else if c =? 72 then Some (o_host o) else None)
         sf_finish (cstr fmt) MLit (mkF garbage 0).

(* qb_log_format_set(target, format): expands into the local modified_format[] and strdup()s it.
   as found: char modified_format[256];   fix: char modified_format[QB_LOG_ABSOLUTE_MAX_LEN] *)
Definition MODIFIED_FORMAT_SIZE (fx : bool) : Z := if fx then LF_ABSOLUTE_MAX_LEN else 256.

Definition format_set (fx : bool) (fmt : list Z) (L : Z) (o : oracles) (garbage : list Z) : fres :=
  format_static fx fmt L o garbage.      (* with zlen garbage = MODIFIED_FORMAT_SIZE fx *)

(* QB_LOG_CONF_MAX_LINE_LEN: which values qb_log_ctl accepts.   fix: a positive length *)
Definition ctl_accepts_line_len (fx : bool) (v : Z) : bool :=
  if fx then (1 <=? v) && (v <=? LF_ABSOLUTE_MAX_LEN) else v <=? LF_ABSOLUTE_MAX_LEN.

(* ------------------------------------------------------------------ specification (independent, small) *)
(* one field: padded / chopped to the width; '-' puts the padding in front *)
(* (a width beyond [cap] + the field's own length is taken as that: with cap = the line limit this changes
   nothing within the limit and keeps the text finite for absurd widths) *)
Definition pad_chop (cap : Z) (src : list Z) (width : Z) (ralign : bool) : list Z :=
  if width =? 0 then src
  else if width <=? zlen src then takeZ width src
  else let pad := repeat 32 (Z.to_nat (Z.min width (cap + zlen src) - zlen src)) in
       if ralign then pad ++ src else src ++ pad.

Inductive smode2 := QLit | QDir (ralign : bool) (ds : list Z) (dash_ok : bool).

Fixpoint render_spec (cap : Z) (field : Z -> list Z) (f : list Z) (m : smode2) : list Z :=
  match f with
  | [] => match m with QLit => [] | QDir ralign ds _ => pad_chop cap [] (atoi_cutoff ds) ralign end
  | c :: f' =>
    match m with
    | QLit => if c =? 37 then render_spec cap field f' (QDir false [] true) else c :: render_spec cap field f' QLit
    | QDir ralign ds dash_ok =>
      if dash_ok && (c =? 45) then render_spec cap field f' (QDir true ds false)
      else if is_digit c then render_spec cap field f' (QDir ralign (ds ++ [c]) false)
      else pad_chop cap (field c) (atoi_cutoff ds) ralign ++ render_spec cap field f' QLit
    end
  end.

(* the line: at most L-1 characters; a trailing newline is dropped; when the line filled the room the last
   three characters become "..." if the ellipsis option is on *)
Definition truncate_spec (L : Z) (ell : bool) (r : list Z) : list Z :=
  let t := takeZ (L - 1) r in
  let n := zlen t in
  if ell && (L - 1 <=? n) && (3 <=? n) then takeZ (n - 3) t ++ [46; 46; 46]
  else if (0 <? n) && (rd t (n - 1) =? 10) then takeZ (n - 1) t
  else t.

Definition line_spec (fmt : list Z) (cs : callsite) (msg : list Z) (L : Z) (ell : bool) (o : oracles) : list Z :=
  truncate_spec L ell (render_spec (Z.max L 0) (dyn_field cs (cstr msg) o) (cstr fmt) QLit).

Definition fres_text (r : fres) : list Z := match r with FDone b => cstr b | FOob _ => [] end.
Definition fres_oob (r : fres) : bool := match r with FDone _ => false | FOob _ => true end.

(* ------------------------------------------------------------------ guard of the text theorem *)
(* every '-' (padding in front) field that is wider than its text lies entirely inside the limit; [pos] = length of the
   line so far.  (Outside this guard the formatter lays the field out for the room that is left - finding
   C13-right-aligned-field-clamped.)  Fields beyond the limit do not matter. *)
Definition item_ok (L : Z) (ralign : bool) (src : list Z) (w pos : Z) : bool :=
  negb ralign || (w <=? zlen src) || (pos + w <=? L - 1) || (L - 1 <=? pos).

Fixpoint ralign_ok (L : Z) (field : Z -> list Z) (f : list Z) (m : smode2) (pos : Z) : bool :=
  match f with
  | [] => match m with QLit => true | QDir ralign ds _ => item_ok L ralign [] (atoi_cutoff ds) pos end
  | c :: f' =>
    match m with
    | QLit => if c =? 37 then ralign_ok L field f' (QDir false [] true) pos else ralign_ok L field f' QLit (pos + 1)
    | QDir ralign ds dash_ok =>
      if dash_ok && (c =? 45) then ralign_ok L field f' (QDir true ds false) pos
      else if is_digit c then ralign_ok L field f' (QDir ralign (ds ++ [c]) false) pos
      else item_ok L ralign (field c) (atoi_cutoff ds) pos &&
           ralign_ok L field f' QLit (pos + zlen (pad_chop L (field c) (atoi_cutoff ds) ralign))
    end
  end.

Definition line_guard (fmt : list Z) (cs : callsite) (msg : list Z) (L : Z) (o : oracles) : bool :=
  ralign_ok L (dyn_field cs (cstr msg) o) (cstr fmt) QLit 0.
