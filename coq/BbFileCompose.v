(* C15 composed with C11: for every logging history on a blackbox of any size, printing the dump prints exactly the
   retained newest entries.  Uses rbow's overwrite-ring theorems (RbOwKeeps.ow_writes_keeps: every reserve+commit
   sequence keeps the ring invariant with exactly the newest chunks; RbOwDump.good_ow_writes: memory stays bytes). *)
From Coq Require Import ZArith List Bool Lia ZifyBool.
Import ListNotations.
Require Import Verif.gen.Consts_rb Verif.gen.Consts_bbfile Verif.RbModel Verif.RbSpec Verif.RbMem Verif.RbProofs
        Verif.RbRefine Verif.RbOwSpec Verif.RbOwProofs Verif.RbOwKeeps Verif.RbOwDumpModel Verif.RbOwDump
        Verif.BbFileModel Verif.BbFileProofs Verif.BbFileRoundTrip.
Local Open Scope Z_scope.

(* what _blackbox_vlogger hands to the ring for one entry: reserve header + function + timespec + max_line_length,
   commit the encoded entry *)
Definition resv (maxline : Z) (r : brec) : Z := zlen (enc r) - zlen (b_msg r) + maxline.
Definition mkw (maxline : Z) (r : brec) : wchunk := (resv maxline r, enc r).

Lemma suffix_map_inv : forall A B (f : A -> B) (l : list A) (q : list B),
  suffix q (map f l) -> exists l', q = map f l' /\ suffix l' l.
Proof.
  intros A B f l q (p & Hp).
  exists (skipn (length p) l). split.
  - rewrite <- skipn_map, Hp. rewrite skipn_app, skipn_all, Nat.sub_diag. reflexivity.
  - exists (firstn (length p) l). symmetry. apply firstn_skipn.
Qed.

Lemma enc_bytes_ok : forall r, wf_rec r -> chunk_bytes_ok (b_msg r) -> chunk_bytes_ok (enc r).
Proof.
  intros r (Hl & Ht & Hp & Hfn & Hs & Hn & Hm & Hsz) Hmsg. unfold chunk_bytes_ok, enc, w64, BbFileModel.word_bytes.
  repeat (apply Forall_app; split); repeat constructor; try (apply Z.mod_pos_bound; lia); try lia; try assumption.
  eapply Forall_impl; [|exact Hfn]. cbn. intros; lia.
Qed.

Theorem roundtrip_all_histories : forall S maxline recs orc heap0 stk errno0,
  size_ok S -> Forall wf_rec recs -> Forall (fun r => chunk_bytes_ok (b_msg r)) recs ->
  Forall (fun r => zlen (b_msg r) <= maxline /\ resv maxline r <= S) recs -> dec_ok orc ->
  exists b kept,
    ow_writes (rb_open S false true) (map (mkw maxline) recs) = Some b /\
    suffix kept recs /\ (recs <> [] -> kept <> []) /\
    (forall l, suffix l recs -> rfits S (map (mkw maxline) l) = true -> suffix l kept) /\
    let r := print_from_file true true orc heap0 stk errno0 (BbFileModel.bb_dump b) in
    records r = printed_recs kept orc stk /\ out r = Ret (- BBF_EIO) /\ shm_left r = [].
Proof.
  intros S maxline recs orc heap0 stk errno0 (HS & Hmax) Hwf Hmsg Hres Horc.
  destruct (open_inv S false true HS Hmax) as (HI & Ho & HW4).
  pose proof (rb_open_W S false true) as (_ & HW).
  assert (Hwfw : Forall (wf_w S) (map (mkw maxline) recs)).
  { apply Forall_forall. intros w Hin. apply in_map_iff in Hin. destruct Hin as (r & <- & Hr).
    rewrite Forall_forall in Hres. destruct (Hres r Hr) as (H1 & H2).
    unfold wf_w, mkw, resv in *. cbn [fst snd]. pose proof (zlen_nonneg (enc r)). lia. }
  destruct (ow_writes_keeps S (map (mkw maxline) recs) _ _ [] HW HI Ho (keeps_nil S) Hwfw)
    as (b & s & Hws & (HR & _) & HK & HrW & _ & _).
  cbn [app] in HK. destruct HK as (Hsuf & Hne & Hfit).
  rewrite map_map in Hsuf. cbn [mkw snd] in Hsuf.
  destruct (suffix_map_inv _ _ enc recs (sq s) Hsuf) as (kept & Hq & Hks).
  exists b, kept. split; [exact Hws|]. split; [exact Hks|]. split.
  { intros Hne0 Hk. subst kept. cbn in Hq. apply Hne; [|exact Hq].
    destruct recs; [congruence | discriminate]. }
  split.
  { intros l Hl Hfits. apply suffix_of_suffix with (m := recs); try assumption.
    pose proof (Hfit (map (mkw maxline) l) (suffix_map _ _ _ _ _ Hl) Hfits) as Hs2.
    apply suffix_length in Hs2. rewrite Hq in Hs2. rewrite !map_length in Hs2. exact Hs2. }
  assert (Hgood : Good b).
  { eapply good_ow_writes; [apply good_open; exact HS | | exact Hws].
    apply Forall_forall. intros w Hin. apply in_map_iff in Hin. destruct Hin as (r & <- & Hr).
    cbn [mkw snd]. rewrite Forall_forall in Hwf, Hmsg. apply enc_bytes_ok; auto. }
  destruct Hgood as (_ & _ & _ & Hbytes).
  assert (Hpage : (4 * rW b) mod RB_PAGE_SIZE = 0).
  { rewrite HrW, HW4. apply roundup_ge. destruct consts_ok as (_ & _ & _ & _ & _ & _ & Hp & _). exact Hp. }
  assert (Hwfk : Forall wf_rec kept).
  { destruct Hks as (p & ->). apply Forall_app in Hwf. tauto. }
  rewrite Hq in HR.
  destruct (roundtrip b kept orc heap0 stk errno0 HR Hbytes Hpage Hwfk Horc) as (H1 & H2 & H3 & _).
  cbv zeta. auto.
Qed.

(* non-vacuity: the hypotheses hold for a concrete history (three entries, default max_line_length, a 5000-byte blackbox) *)
Definition ex_rec (k : Z) : brec :=
  {| b_line := 100 + k; b_tags := k; b_prio := k mod 8; b_fn := [102; 110; 65 + k]; b_sec := 1700000000 + k;
     b_nsec := 1000 * k; b_msg := repeat (97 + k) 99 ++ [0] |}.
Definition ex_recs : list brec := [ex_rec 0; ex_rec 1; ex_rec 2].

Lemma ex_wf : forall k, 0 <= k < 3 -> wf_rec (ex_rec k) /\ chunk_bytes_ok (b_msg (ex_rec k)) /\
  (zlen (b_msg (ex_rec k)) <= 512 /\ resv 512 (ex_rec k) <= 5000).
Proof.
  intros k Hk.
  assert (Hm : zlen (b_msg (ex_rec k)) = 100).
  { cbn [b_msg ex_rec]. rewrite zlen_app. unfold zlen. rewrite repeat_length. cbn. lia. }
  assert (He : zlen (enc (ex_rec k)) = 137).
  { rewrite zlen_enc, Hm. cbn [b_fn ex_rec]. unfold zlen. cbn. lia. }
  split; [|split].
  - unfold wf_rec. rewrite Hm, He. cbn [b_line b_tags b_prio b_fn b_sec b_nsec ex_rec].
    unfold two32, two63, two64, two63. bbc.
    split; [lia|]. split; [lia|]. split; [lia|]. split; [repeat constructor; lia|]. lia.
  - cbn [b_msg ex_rec]. unfold chunk_bytes_ok. apply Forall_app. split.
    + apply Forall_forall. intros x Hx. apply repeat_spec in Hx. lia.
    + repeat constructor; lia.
  - unfold resv. rewrite Hm, He. lia.
Qed.

Lemma compose_example :
  size_ok 5000 /\ Forall wf_rec ex_recs /\ Forall (fun r => chunk_bytes_ok (b_msg r)) ex_recs /\
  Forall (fun r => zlen (b_msg r) <= 512 /\ resv 512 r <= 5000) ex_recs.
Proof.
  pose proof (ex_wf 0 ltac:(lia)) as (A0 & B0 & C0). pose proof (ex_wf 1 ltac:(lia)) as (A1 & B1 & C1).
  pose proof (ex_wf 2 ltac:(lia)) as (A2 & B2 & C2).
  split; [unfold size_ok, two32; pose proof consts_ok; rbc; unfold RB_PAGE_SIZE; lia|].
  unfold ex_recs. split; [|split]; (constructor; [assumption|]); (constructor; [assumption|]); (constructor; [assumption|]); constructor.
Qed.
