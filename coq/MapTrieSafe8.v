(* C18 trie part: with any number of iterators open, get / rm / put / count answer like the dictionary of the
   entries that were put and not removed - at every moment, hence also "once the iterators are gone". *)
From Coq Require Import List ZArith Bool Arith Lia.
Import ListNotations.
Require Import Verif.gen.Consts_trie Verif.MapTrieModel Verif.MapTrieSpec Verif.MapTrieProofs Verif.MapTrieProofs2
               Verif.MapTrieProofs3 Verif.MapTrieIds Verif.MapTrieIter6 Verif.MapTrieSafe2 Verif.MapTrieSafe3
               Verif.MapTrieSafe4 Verif.MapTrieView Verif.MapTrieSafe5 Verif.MapTrieSafe6.

Record InvD (t : trie) (d : dict) : Prop := {
  id_saf : SafT t;
  id_view : forall q, q <> [] -> dview (obs_t (t_root t) q) = d_get d q;
  id_len : t_len t = Z.of_nat (length d);
  id_nodup : NoDup (map fst d)
}.

Lemma invd_init : InvD trie_init [].
Proof.
  constructor; simpl; auto.
  - unfold SafT. simpl. apply saf_init.
  - intros q Hq. destruct q; [congruence|]. reflexivity.
  - constructor.
Qed.

Lemma put_d : forall t d k v, InvD t d -> kvalid k -> InvD (fst (do_put FX_ALL t k v)) (d_put d k v).
Proof.
  intros t d k v HI Hk. pose proof (saf_put t k v (id_saf _ _ HI) Hk) as SP.
  destruct Hk as [Hne Hnz]. destruct HI as [HS HV HL HN]. unfold SafT in HS.
  unfold do_put in *. destruct (ins_t FX_ALL (t_root t) k true (t_next t)) as [[r1 p] nid] eqn:I0.
  destruct (ins_ok FX_ALL _ _ (le_n _) _ _ _ _ _ _ (sf_wf _ _ _ HS) Hnz I0) as [O1 [L1 W1]].
  destruct (upd_ok _ _ (le_n _) _ _ L1) as [tn [G1 [G2 [G3 [G4 G5]]]]]. rewrite G1 in *. destruct tn as [i sg fc]. simpl in G2.
  assert (DV : (if n_removed i then None else n_val i) = d_get d k).
  { rewrite <- (HV k Hne), <- O1, <- G2. reflexivity. }
  rewrite DV in *.
  assert (Hp : p <> []).
  { pose proof (saf_ins FX_ALL _ _ _ _ _ _ _ HS eq_refl Hne Hnz I0) as S1. pose proof (sf_seg _ _ _ S1) as Sg.
    destruct r1 as [i1 s1 f1]. simpl in Sg. subst s1. eapply hdr_look; eauto. }
  destruct (d_get d k) as [ov|] eqn:D.
  - simpl in *. constructor; simpl; auto.
    + intros q Hq. rewrite G4. destruct (list_eq_dec Nat.eq_dec q k) as [e|e].
      * subst q. simpl. destruct (key_dec k k); [reflexivity|congruence].
      * rewrite O1. destruct (key_dec k q); [congruence|]. rewrite d_get_rm_other by auto. apply HV; auto.
    + rewrite <- (d_rm_len _ _ _ D) in HL. simpl. rewrite HL. reflexivity.
    + constructor; [apply d_rm_notin; auto | apply d_rm_nodup; auto].
  - simpl in *. unfold node_ref in *. destruct p as [|j p']; [congruence|]. rewrite upd_upd in *.
    constructor; simpl; auto.
    + intros q Hq. rewrite G4. destruct (list_eq_dec Nat.eq_dec q k) as [e|e].
      * subst q. simpl. destruct (key_dec k k); [reflexivity|congruence].
      * rewrite O1. destruct (key_dec k q); [congruence|]. rewrite d_get_rm_other by auto. apply HV; auto.
    + rewrite d_rm_absent by auto. rewrite HL. lia.
    + constructor; [apply d_rm_notin; auto | apply d_rm_nodup; auto].
Qed.

Lemma get_d : forall t d k, InvD t d -> kvalid k -> do_get t k = d_get d k.
Proof.
  intros t d k HI [Hne _]. rewrite <- (id_view _ _ HI k Hne). rewrite obs_of_lookup.
  unfold do_get, lookup. destruct k; [congruence|].
  destruct (look_t (t_root t) (b :: k) true) as [p|]; auto.
  destruct (get_at (t_root t) p) as [n|]; auto.
Qed.

Lemma rm_d : forall t d k, InvD t d -> kvalid k ->
  snd (fst (do_rm FX_ALL t k)) = (match d_get d k with Some _ => TRIE_QB_TRUE | None => TRIE_QB_FALSE end) /\
  InvD (fst (fst (do_rm FX_ALL t k))) (d_rm d k).
Proof.
  intros t d k HI Hk. pose proof (saf_rm t k (id_saf _ _ HI) Hk) as SR. pose proof HI as HI0.
  destruct Hk as [Hne Hnz]. destruct HI as [HS HV HL HN]. unfold SafT in HS.
  pose proof (HV k Hne) as Vk.
  unfold do_rm, lookup in *. destruct k as [|b k0] eqn:Ek; [congruence|]. rewrite <- Ek in *. clear Ek b k0.
  destruct (look_t (t_root t) k true) as [p|] eqn:L.
  2:{ rewrite (look_none_obs _ _ (le_n _) _ L) in Vk. simpl in Vk. rewrite <- Vk. simpl. split; auto.
      rewrite d_rm_absent by auto. exact HI0. }
  destruct (upd_ok _ _ (le_n _) _ _ L) as [tn [G1 [G2 [G3 [G4 G5]]]]]. rewrite G1 in *. destruct tn as [i sg fc]. simpl in G2.
  assert (Hp : p <> []).
  { pose proof (sf_seg _ _ _ HS) as Sg. destruct (t_root t) as [i1 s1 f1]. simpl in Sg. subst s1. eapply hdr_look; eauto. }
  destruct (pa_real _ _ _ _ _ HS G1 Hp) as [PAi _]. simpl in PAi.
  rewrite <- G2 in Vk. unfold dview, core_of in Vk. simpl in Vk.
  simpl f_rm in *. simpl f_removed in *. unfold alive in *. simpl t_info in *.
  assert (PE : present_i i = match d_get d k with Some _ => true | None => false end).
  { rewrite <- Vk. unfold present_i, alive_i. unfold pres in PAi. destruct (n_val i); [|destruct (n_removed i); reflexivity].
    destruct (n_removed i); simpl; [rewrite andb_false_r; reflexivity|].
    replace (n_rc i =? 0) with false by (symmetry; apply Nat.eqb_neq; lia). reflexivity. }
  rewrite PE in *. destruct (d_get d k) as [ov|] eqn:D; simpl in *.
  2:{ split; auto. rewrite d_rm_absent by auto. exact HI0. }
  set (r0 := upd_t (t_root t) p (set_removed true)) in *.
  pose proof (fun q => deref_view r0 p (TN (set_removed true i) sg fc) q) as DV.
  destruct (node_deref r0 p) as [r1 evs] eqn:ND. simpl in *. split; auto.
  assert (W0 : all_t wfi r0).
  { unfold r0. apply G5; [apply (sf_wf _ _ _ HS)|]. unfold wfi. simpl. intros [A [B C]].
    destruct (n_val i) eqn:V; [|destruct (n_removed i); discriminate]. repeat split; auto; congruence. }
  constructor; simpl; auto.
  - intros q Hq.
    rewrite (DV q W0 (get_at_upd _ _ (set_removed true) _ _ _ G1) Hp).
    2:{ intros _. unfold pres. simpl. destruct (n_val i); reflexivity. }
    unfold r0. rewrite G4. destruct (list_eq_dec Nat.eq_dec q k) as [e|e].
    + subst q. simpl. rewrite d_get_rm_same by auto. reflexivity.
    + rewrite d_get_rm_other by auto. apply HV; auto.
  - rewrite <- (d_rm_len _ _ _ D) in HL. rewrite HL. lia.
  - apply d_rm_nodup; auto.
Qed.

(* the dictionary operations of an interleaving, and their outputs *)
Fixpoint sdict_part (hs : list sop) : list dop :=
  match hs with
  | [] => []
  | SPut k v :: hs' => DPut k v :: sdict_part hs'
  | SGet k :: hs' => DGet k :: sdict_part hs'
  | SRm k :: hs' => DRm k :: sdict_part hs'
  | SCount :: hs' => DCount :: sdict_part hs'
  | _ :: hs' => sdict_part hs'
  end.

Fixpoint sdict_outs (hs : list sop) (os : list out) : list out :=
  match hs, os with
  | (SPut _ _ | SGet _ | SRm _ | SCount) :: hs', o :: os' => o :: sdict_outs hs' os'
  | _ :: hs', _ :: os' => sdict_outs hs' os'
  | _, _ => []
  end.

Lemma iters_put : forall t k v, t_iters (fst (do_put FX_ALL t k v)) = t_iters t.
Proof.
  intros. unfold do_put. destruct (ins_t FX_ALL (t_root t) k true (t_next t)) as [[r1 p] nid].
  destruct (get_at r1 p) as [[i s f]|]; auto. destruct (if n_removed i then None else n_val i); reflexivity.
Qed.

Lemma iters_rm : forall t k, t_iters (fst (fst (do_rm FX_ALL t k))) = t_iters t.
Proof.
  intros. unfold do_rm. destruct (lookup (t_root t) k true) as [pl|]; auto.
  destruct (f_rm FX_ALL && _); auto. destruct (node_deref _ pl). reflexivity.
Qed.

Lemma run_dict_iters : forall hs t d open, InvD t d -> opens open (t_iters t) -> hv open hs ->
  exists outs t', run FX_ALL t (map sop_op hs) = (outs, Ok t') /\
                  sdict_outs hs (map fst outs) = fst (spec_run d (sdict_part hs)).
Proof.
  induction hs as [|o hs]; intros t d open HI HO Hv.
  - exists [], t. split; reflexivity.
  - cbn [map run]. destruct o as [k v|k|k| |h|h|h]; cbn [sop_op hv step sdict_part sdict_outs spec_run] in *.
    + destruct Hv as [Hk Hv]. pose proof (put_d t d k v HI Hk) as I'. pose proof (iters_put t k v) as IT.
      destruct (do_put FX_ALL t k v) as [t' evs]. simpl in I', IT.
      destruct (IHhs t' _ open I' ltac:(rewrite IT; exact HO) Hv) as [outs [t'' [R M]]]. rewrite R.
      cbn [spec_step]. destruct (spec_run (d_put d k v) (sdict_part hs)) as [so fin]. simpl in *.
      eexists _, t''. split; [reflexivity|]. simpl. rewrite M. reflexivity.
    + destruct Hv as [Hk Hv]. rewrite (get_d t d k HI Hk).
      destruct (IHhs t d open HI HO Hv) as [outs [t'' [R M]]]. rewrite R.
      cbn [spec_step]. destruct (spec_run d (sdict_part hs)) as [so fin]. simpl in *.
      eexists _, t''. split; [reflexivity|]. simpl. rewrite M. reflexivity.
    + destruct Hv as [Hk Hv]. destruct (rm_d t d k HI Hk) as [Z I']. pose proof (iters_rm t k) as IT.
      destruct (do_rm FX_ALL t k) as [[t' z] evs]. simpl in Z, I', IT. subst z.
      destruct (IHhs t' _ open I' ltac:(rewrite IT; exact HO) Hv) as [outs [t'' [R M]]]. rewrite R.
      cbn [spec_step]. destruct (spec_run (d_rm d k) (sdict_part hs)) as [so fin]. simpl in *.
      eexists _, t''. split; [reflexivity|]. simpl. rewrite M. reflexivity.
    + destruct (IHhs t d open HI HO Hv) as [outs [t'' [R M]]]. rewrite R.
      cbn [spec_step]. destruct (spec_run d (sdict_part hs)) as [so fin]. simpl in *.
      eexists _, t''. split; [reflexivity|]. simpl. unfold do_count. rewrite (id_len _ _ HI), M. reflexivity.
    + pose proof (saf_iter_create t h (id_saf _ _ HI)) as S'.
      match goal with |- context [run FX_ALL ?t1 _] => destruct (IHhs t1 d (h :: open)) as [outs [t'' [R M]]]; auto end.
      { destruct HI as [A B C D]. constructor; auto. }
      { simpl. apply (proj1 (opens_set open (t_iters t) h (new_iter None) HO)). }
      rewrite R. eexists _, t''. split; [reflexivity|]. exact M.
    + destruct Hv as [Hh Hv]. destruct (HO h Hh) as [it G]. rewrite G.
      destruct (saf_iter_next t h it (id_saf _ _ HI) G) as [r [it' [kv [evs [E [S' VW]]]]]]. rewrite E.
      match goal with |- context [run FX_ALL ?t1 _] => destruct (IHhs t1 d open) as [outs [t'' [R M]]]; auto end.
      { destruct HI as [A B C D]. constructor; auto. simpl. intros q Hq. rewrite VW. apply B; auto. }
      { simpl. apply (proj2 (opens_set open (t_iters t) h it' HO)). }
      rewrite R. eexists _, t''. split; [reflexivity|]. exact M.
    + destruct Hv as [Hh Hv]. destruct (HO h Hh) as [it G]. rewrite G.
      destruct (saf_iter_free t h it (id_saf _ _ HI) G) as [r [evs [E [S' VW]]]]. rewrite E.
      match goal with |- context [run FX_ALL ?t1 _] => destruct (IHhs t1 d (remove Nat.eq_dec h open)) as [outs [t'' [R M]]]; auto end.
      { destruct HI as [A B C D]. constructor; auto. simpl. intros q Hq. rewrite VW. apply B; auto. }
      { simpl. apply opens_del. exact HO. }
      rewrite R. eexists _, t''. split; [reflexivity|]. exact M.
Qed.

(* C18 (trie, dictionary under iterators): for ALL interleavings of put / get / rm / count with iterator create /
   next / free (any number of open iterators, no prefix), the repaired code reaches no error state AND every get, rm
   and count returns exactly what the dictionary of the entries put and not removed returns - whatever the iterators
   are doing, in particular once they are gone *)
Theorem trie_c18_dictionary_under_iterators : forall hs, hv [] hs ->
  exists outs t', run FX_ALL trie_init (map sop_op hs) = (outs, Ok t') /\
                  sdict_outs hs (map fst outs) = fst (spec_run [] (sdict_part hs)).
Proof.
  intros hs Hv. apply run_dict_iters with (open := []); auto.
  - apply invd_init.
  - intros h [].
Qed.
