(* C17 / C18 trie part: lemmas about MapTrieModel.v - array (forest) laws, the segment walk, observational
   characterisation of trie_insert / trie_lookup / trie_node_release. *)
From Coq Require Import List ZArith Bool Arith Lia.
Import ListNotations.
Require Import Verif.gen.Consts_trie Verif.MapTrieModel.

(* ---------- TRIE_CHAR2INDEX ---------- *)
Lemma c2i_table_ok : map c2i (seq 0 256) = TRIE_C2I_TABLE.
Proof. vm_compute. reflexivity. Qed.

Lemma c2i_inj : forall a b, c2i a = c2i b -> a = b.
Proof.
  intros a b. unfold c2i.
  destruct (a <? 128) eqn:A1; destruct (b <? 128) eqn:B1;
  destruct (a <? 256) eqn:A2; destruct (b <? 256) eqn:B2;
  repeat match goal with
         | H : (_ <? _) = true |- _ => apply Nat.ltb_lt in H
         | H : (_ <? _) = false |- _ => apply Nat.ltb_ge in H
         end; lia.
Qed.

(* ---------- children arrays ---------- *)
Lemma fget_fset_same : forall f j x, j < flen f -> fget (fset f j x) j = x.
Proof. induction f; simpl; intros; [lia|]. destruct j; simpl; auto; apply IHf; lia. Qed.

Lemma fget_fset_other : forall f j j' x, j <> j' -> fget (fset f j x) j' = fget f j'.
Proof.
  induction f; simpl; intros; auto. destruct j, j'; simpl; auto; try congruence.
Qed.

Lemma flen_fset : forall f j x, flen (fset f j x) = flen f.
Proof. induction f; simpl; intros; auto. destruct j; simpl; auto. Qed.

Lemma flen_fapp : forall f g, flen (fapp f g) = flen f + flen g.
Proof. induction f; simpl; intros; auto. Qed.

Lemma flen_fnones : forall n, flen (fnones n) = n.
Proof. induction n; simpl; auto. Qed.

Lemma fget_beyond : forall f j, flen f <= j -> fget f j = None.
Proof. induction f; simpl; intros; auto. destruct j; [lia|]. apply IHf. lia. Qed.

Lemma fget_fnones : forall n j, fget (fnones n) j = None.
Proof. induction n; simpl; intros; auto. destruct j; auto. Qed.

Lemma fget_fapp_nones : forall f n j, fget (fapp f (fnones n)) j = fget f j.
Proof.
  induction f; simpl; intros. - rewrite fget_fnones. reflexivity. - destruct j; auto.
Qed.

Lemma new_child_same : forall f idx c, fget (new_child f idx c) idx = Some c.
Proof.
  intros. unfold new_child. apply fget_fset_same.
  destruct (flen f <=? idx) eqn:E.
  - apply Nat.leb_le in E. rewrite flen_fapp, flen_fnones. lia.
  - apply Nat.leb_gt in E. lia.
Qed.

Lemma new_child_other : forall f idx c j, j <> idx -> fget (new_child f idx c) j = fget f j.
Proof.
  intros. unfold new_child. rewrite fget_fset_other by congruence.
  destruct (flen f <=? idx); auto. apply fget_fapp_nones.
Qed.

(* ---------- the segment walk ---------- *)
Lemma strip_keyend : forall seg k sc sc', strip seg k sc = SKeyEnd sc' ->
  exists rest, seg = k ++ rest /\ sc' = sc + length k.
Proof.
  induction seg; destruct k; simpl; intros; try discriminate.
  - inversion H. exists []. split; auto.
  - inversion H. exists (a :: seg). split; auto.
  - destruct (a =? b) eqn:E; [|discriminate]. apply Nat.eqb_eq in E. subst.
    apply IHseg in H. destruct H as [rest [H1 H2]]. exists rest. subst. split; auto; simpl; lia.
Qed.

Lemma strip_segend : forall seg k sc c k', strip seg k sc = SSegEnd c k' -> k = seg ++ c :: k'.
Proof.
  induction seg; destruct k; simpl; intros; try discriminate.
  - inversion H. reflexivity.
  - destruct (a =? b) eqn:E; [|discriminate]. apply Nat.eqb_eq in E. subst.
    apply IHseg in H. subst. reflexivity.
Qed.

Lemma strip_mismatch : forall seg k sc sc' c k', strip seg k sc = SMismatch sc' c k' ->
  exists m s rest, k = m ++ c :: k' /\ seg = m ++ s :: rest /\ s <> c /\ sc' = sc + length m.
Proof.
  induction seg; destruct k; simpl; intros; try discriminate.
  destruct (a =? b) eqn:E.
  - apply Nat.eqb_eq in E. subst. apply IHseg in H. destruct H as [m [s [rest [H1 [H2 [H3 H4]]]]]].
    exists (b :: m), s, rest. subst. simpl. repeat split; auto; lia.
  - apply Nat.eqb_neq in E. inversion H; subst. exists [], a, seg. simpl. repeat split; auto.
Qed.

(* the walk over a common prefix *)
Lemma strip_app : forall m seg k sc, strip (m ++ seg) (m ++ k) sc = strip seg k (sc + length m).
Proof.
  induction m; simpl; intros. - f_equal. lia. - rewrite Nat.eqb_refl. rewrite IHm. f_equal. lia.
Qed.

(* the result does not depend on the starting count, except for the counts it reports *)
Definition shift (d : nat) (r : strip_res) : strip_res :=
  match r with SKeyEnd sc => SKeyEnd (d + sc) | SMismatch sc c k => SMismatch (d + sc) c k | SSegEnd c k => SSegEnd c k end.

Lemma strip_shift : forall seg k sc, strip seg k sc = shift sc (strip seg k 0).
Proof.
  induction seg; destruct k; simpl; intros; try (f_equal; lia).
  destruct (a =? b); simpl; [|f_equal; lia].
  rewrite IHseg. rewrite (IHseg k 1). destruct (strip seg k 0); simpl; f_equal; lia.
Qed.

Lemma strip_self : forall seg sc, strip seg seg sc = SKeyEnd (sc + length seg).
Proof. induction seg; simpl; intros. - f_equal. lia. - rewrite Nat.eqb_refl, IHseg. f_equal. lia. Qed.

Lemma strip_self_more : forall seg c k sc, strip seg (seg ++ c :: k) sc = SSegEnd c k.
Proof. induction seg; simpl; intros; auto. rewrite Nat.eqb_refl. apply IHseg. Qed.

Lemma strip_pre : forall q r sc, strip (q ++ r) q sc = SKeyEnd (sc + length q).
Proof.
  induction q; simpl; intros.
  - destruct r; simpl; rewrite Nat.add_0_r; reflexivity.
  - rewrite Nat.eqb_refl, IHq. f_equal. lia.
Qed.

(* ---------- observations: what a lookup of key k sees (key, value, refcount, notifier list) ---------- *)
Definition core := (option key * option val * nat * list notifier * bool)%type.
Definition core_of (i : ninfo) : core := (n_key i, n_val i, n_rc i, n_nots i, n_removed i).
Definition blank : core := (None, None, 0, [], false).

Fixpoint obs_t (n : tnode) (k : key) {struct n} : core :=
  match n with
  | TN i seg f =>
    match strip seg k 0 with
    | SKeyEnd sc => if sc <? length seg then blank else core_of i
    | SMismatch _ _ _ => blank
    | SSegEnd c k' => obs_f f (c2i c) k'
    end
  end
with obs_f (f : forest) (j : nat) (k : key) {struct f} : core :=
  match f with
  | FNil => blank
  | FCons c f' => match j with 0 => match c with Some t => obs_t t k | None => blank end | S j' => obs_f f' j' k end
  end.

Lemma obs_f_fget : forall f j k, obs_f f j k = match fget f j with Some t => obs_t t k | None => blank end.
Proof. induction f; simpl; intros; auto. destruct j; auto. Qed.

Lemma look_f_fget : forall f j k e, look_f f j k e = match fget f j with Some t => look_t t k e | None => None end.
Proof. induction f; simpl; intros; auto. destruct j; auto. Qed.

Lemma fget_some_lt : forall f j t, fget f j = Some t -> j < flen f.
Proof. induction f; simpl; intros; [discriminate|]. destruct j; [lia|]. apply IHf in H. lia. Qed.

Lemma ins_f_fget : forall fx f j k nid,
  ins_f fx f j k nid = match fget f j with
                    | Some t => let '(t', p, nid') := ins_t fx t k false nid in Some (fset f j (Some t'), p, nid')
                    | None => None
                    end.
Proof.
  induction f; simpl; intros; auto. destruct j; simpl.
  - destruct o; auto.
  - rewrite IHf. destruct (fget f j); auto. destruct (ins_t fx t k false nid) as [[t' p] nid']. reflexivity.
Qed.

Lemma size_fget : forall f j t, fget f j = Some t -> size_t t <= size_f f.
Proof.
  induction f; simpl; intros; [discriminate|]. destruct j.
  - subst. lia.
  - apply IHf in H. lia.
Qed.

(* every node satisfies P (info, segment) *)
Fixpoint all_t (P : ninfo -> list byte -> Prop) (n : tnode) {struct n} : Prop :=
  match n with TN i seg f => P i seg /\ all_f P f end
with all_f (P : ninfo -> list byte -> Prop) (f : forest) {struct f} : Prop :=
  match f with
  | FNil => True
  | FCons c f' => (match c with Some t => all_t P t | None => True end) /\ all_f P f'
  end.

Lemma all_f_fget : forall P f j t, all_f P f -> fget f j = Some t -> all_t P t.
Proof.
  induction f; simpl; intros; [discriminate|]. destruct H. destruct j; eauto. subst. auto.
Qed.

Lemma all_f_fset : forall P f j x, all_f P f -> (match x with Some t => all_t P t | None => True end) ->
  all_f P (fset f j x).
Proof. induction f; simpl; intros; auto. destruct H. destruct j; simpl; auto. Qed.

Lemma all_f_fnones : forall P n, all_f P (fnones n).
Proof. induction n; simpl; auto. Qed.

Lemma all_f_fapp : forall P f g, all_f P f -> all_f P g -> all_f P (fapp f g).
Proof. induction f; simpl; intros; auto. destruct H. auto. Qed.

Lemma all_f_new_child : forall P f idx c, all_f P f -> all_t P c -> all_f P (new_child f idx c).
Proof.
  intros. unfold new_child. apply all_f_fset; auto.
  destruct (flen f <=? idx); auto. apply all_f_fapp; auto. apply all_f_fnones.
Qed.

(* node-local well-formedness: a value-less node has no key and no reference; segments hold no 0 byte *)
Definition wfi (i : ninfo) (seg : list byte) : Prop :=
  (n_val i = None -> n_key i = None /\ n_rc i = 0 /\ n_removed i = false) /\ (n_key i = None -> n_val i = None) /\
  Forall (fun b => b <> 0) seg.

Lemma obs_blank_node : forall i seg q, core_of i = blank -> obs_t (TN i seg FNil) q = blank.
Proof.
  intros. simpl. destruct (strip seg q 0); auto. destruct (sc <? length seg); auto.
Qed.

Lemma core_fresh : forall id, core_of (fresh_info id) = blank.
Proof. reflexivity. Qed.

(* a node cut in two at segment position |m| (trie_node_split) plus one extra all-blank child looks the same *)
Lemma obs_split_form : forall i iu i' m s rest f jx x q,
  core_of iu = blank -> core_of i' = core_of i -> jx <> c2i s -> (forall q', obs_t x q' = blank) ->
  obs_t (TN iu m (new_child (new_child FNil (c2i s) (TN i' rest f)) jx x)) q
  = obs_t (TN i (m ++ s :: rest) f) q.
Proof.
  intros i iu i' m s rest f jx x q Hu H H0 H1. cbn [obs_t].
  destruct (strip m q 0) eqn:S.
  - apply strip_keyend in S. destruct S as [r [S1 S2]]. subst m. simpl in S2. subst sc.
    rewrite <- app_assoc. rewrite strip_pre. simpl. rewrite !app_length. simpl.
    destruct (length q <? length q + length r) eqn:E1.
    + replace (length q <? length q + (length r + S (length rest))) with true; auto.
      symmetry. apply Nat.ltb_lt. lia.
    + replace (length q <? length q + (length r + S (length rest))) with true; auto.
      symmetry. apply Nat.ltb_lt. lia.
  - apply strip_mismatch in S. destruct S as [m1 [s1 [r1 [S1 [S2 [S3 S4]]]]]]. subst.
    rewrite <- !app_assoc. rewrite strip_app. simpl.
    destruct (s1 =? c) eqn:E; auto. apply Nat.eqb_eq in E. contradiction.
  - apply strip_segend in S. subst q. rewrite strip_app. simpl.
    rewrite obs_f_fget.
    destruct (s =? c) eqn:E.
    + apply Nat.eqb_eq in E. subst c.
      rewrite new_child_other by congruence. rewrite new_child_same.
      cbn [obs_t]. rewrite (strip_shift rest k' (S (length m))).
      destruct (strip rest k' 0); simpl; auto.
      * rewrite app_length. simpl.
        destruct (sc <? length rest) eqn:E2.
        -- replace (S (length m + sc) <? length m + S (length rest)) with true; auto.
           symmetry. apply Nat.ltb_lt. apply Nat.ltb_lt in E2. lia.
        -- replace (S (length m + sc) <? length m + S (length rest)) with false.
           ++ unfold core_of in *. congruence.
           ++ symmetry. apply Nat.ltb_ge. apply Nat.ltb_ge in E2. lia.
    + apply Nat.eqb_neq in E.
      destruct (Nat.eq_dec (c2i c) jx).
      * subst jx. rewrite new_child_same. apply H1.
      * rewrite new_child_other by congruence. rewrite new_child_other.
        -- reflexivity.
        -- intro X. apply c2i_inj in X. congruence.
Qed.

(* ---------- trie_insert ---------- *)
Lemma split_parts : forall (m : list byte) s rest,
  firstn (length m) (m ++ s :: rest) = m /\ nth (length m) (m ++ s :: rest) 0 = s /\
  skipn (S (length m)) (m ++ s :: rest) = rest.
Proof.
  induction m; simpl; intros; auto. destruct (IHm s rest) as [A [B C]]. rewrite A, B. simpl in C. rewrite C. auto.
Qed.

Lemma flen_zero : forall f, (flen f =? 0) = true -> f = FNil.
Proof. destruct f; simpl; intros; auto. discriminate. Qed.

Lemma wfi_fresh : forall id seg, Forall (fun b => b <> 0) seg -> wfi (fresh_info id) seg.
Proof. intros. unfold wfi. simpl. auto. Qed.

Lemma Forall_app_l : forall (A : Type) (P : A -> Prop) a b, Forall P (a ++ b) -> Forall P a.
Proof. intros. apply Forall_app in H. tauto. Qed.
Lemma Forall_app_r : forall (A : Type) (P : A -> Prop) a b, Forall P (a ++ b) -> Forall P b.
Proof. intros. apply Forall_app in H. tauto. Qed.

Lemma wfi_lower : forall (b : bool) nid i seg rest, wfi i seg -> Forall (fun x => x <> 0) rest ->
  wfi (if b then i else set_id nid i) rest.
Proof. intros b nid i seg rest [A [B C]] F. destruct b; unfold wfi; simpl; auto. Qed.

Lemma ins_ok : forall fx sz n, size_t n <= sz -> forall k hdr nid n' p nid',
  all_t wfi n -> Forall (fun b => b <> 0) k -> ins_t fx n k hdr nid = (n', p, nid') ->
  (forall q, obs_t n' q = obs_t n q) /\ look_t n' k true = Some p /\ all_t wfi n'.
Proof.
  intro fx. induction sz; intros n Hsz k hdr nid n' p nid' Hwf Hk H.
  { destruct n; simpl in Hsz; lia. }
  destruct n as [i seg f]. cbn [ins_t] in H. unfold key, byte in *.
  cbn [all_t] in Hwf. destruct Hwf as [[Hv [Hkn Hseg]] Hf].
  destruct (strip seg k 0) eqn:S.
  - (* the key ends in this node *)
    apply strip_keyend in S. destruct S as [rest [S1 S2]]. simpl in S2. subst sc.
    match type of H with context [if ?b then _ else _] => destruct b eqn:E end.
    + destruct rest as [|r rest].
      { rewrite app_nil_r in S1. subst seg. apply Nat.ltb_lt in E. apply Nat.lt_irrefl in E. contradiction. }
      subst seg. unfold split in H. destruct (split_parts k r rest) as [A [B C]]. rewrite A, B, C in H.
      inversion H; subst; clear H.
      assert (Hr : r <> 0).
      { apply Forall_app_r in Hseg. inversion Hseg; auto. }
      split; [|split].
      * intro q. apply obs_split_form; auto.
        -- destruct (f_split fx); reflexivity.
        -- intro X. apply c2i_inj in X. congruence.
        -- intro q'. apply obs_blank_node. reflexivity.
      * cbn [look_t]. rewrite strip_self. simpl. rewrite Nat.ltb_irrefl. reflexivity.
      * cbn [all_t]. split.
        -- apply wfi_fresh. eapply Forall_app_l; eauto.
        -- apply all_f_new_child.
           ++ apply all_f_new_child; [exact I|]. cbn [all_t]. split; auto.
              eapply wfi_lower; [unfold wfi; split; [exact Hv|split; [exact Hkn|exact Hseg]]|].
              apply Forall_app_r in Hseg. inversion Hseg; auto.
           ++ cbn [all_t]. split; [apply wfi_fresh; constructor | exact I].
    + inversion H; subst; clear H. split; [|split]; auto.
      * cbn [look_t]. rewrite (strip_pre k rest 0).
        simpl. unfold key, byte in *. rewrite E. reflexivity.
      * cbn [all_t]. unfold wfi. auto.
  - (* mismatch inside the segment: split *)
    apply strip_mismatch in S. destruct S as [m [s [rest [S1 [S2 [S3 S4]]]]]]. simpl in S4. subst.
    unfold split in H. destruct (split_parts m s rest) as [A [B C]]. rewrite A, B, C in H.
    inversion H; subst; clear H.
    split; [|split].
    + intro q. apply obs_split_form; auto.
      * destruct (f_split fx); reflexivity.
      * intro X. apply c2i_inj in X. congruence.
      * intro q'. apply obs_blank_node. reflexivity.
    + cbn [look_t]. rewrite strip_self_more. rewrite look_f_fget, new_child_same.
      cbn [look_t]. rewrite strip_self. simpl. rewrite Nat.ltb_irrefl. reflexivity.
    + cbn [all_t]. split.
      * apply wfi_fresh. eapply Forall_app_l; eauto.
      * apply all_f_new_child.
        -- apply all_f_new_child; [exact I|]. cbn [all_t]. split; auto.
           eapply wfi_lower; [unfold wfi; split; [exact Hv|split; [exact Hkn|exact Hseg]]|].
           apply Forall_app_r in Hseg. inversion Hseg; auto.
        -- cbn [all_t]. split; [|exact I]. apply wfi_fresh.
           apply Forall_app_r in Hk. inversion Hk; auto.
  - (* the walk goes on below this node *)
    rewrite ins_f_fget in H. pose proof (strip_segend _ _ _ _ _ S) as Sk.
    assert (Hk' : Forall (fun b => b <> 0) k').
    { subst k. apply Forall_app_r in Hk. inversion Hk; auto. }
    destruct (fget f (c2i c)) as [t|] eqn:G.
    + destruct (ins_t fx t k' false nid) as [[t' p0] nid0] eqn:I.
      inversion H; subst n' p nid'; clear H.
      assert (Hst : size_t t <= sz).
      { apply size_fget in G. simpl in Hsz. lia. }
      destruct (IHsz t Hst k' false nid t' p0 nid0 (all_f_fget _ _ _ _ Hf G) Hk' I) as [IH1 [IH2 IH3]].
      pose proof (fget_some_lt _ _ _ G) as Hlt.
      split; [|split].
      * intro q. cbn [obs_t]. destruct (strip seg q 0); auto.
        rewrite !obs_f_fget. destruct (Nat.eq_dec (c2i c0) (c2i c)) as [e|e].
        -- rewrite e, fget_fset_same, G by auto. apply IH1.
        -- rewrite fget_fset_other by congruence. reflexivity.
      * cbn [look_t]. rewrite S. rewrite look_f_fget, fget_fset_same by auto. rewrite IH2. reflexivity.
      * cbn [all_t]. split; [unfold wfi; auto|]. apply all_f_fset; auto.
    + assert (Hnew : forall nid0, 
                (forall q, obs_t (TN i seg (new_child f (c2i c) (TN (fresh_info nid0) k' FNil))) q = obs_t (TN i seg f) q) /\
                look_t (TN i seg (new_child f (c2i c) (TN (fresh_info nid0) k' FNil))) k true = Some [c2i c] /\
                all_t wfi (TN i seg (new_child f (c2i c) (TN (fresh_info nid0) k' FNil)))).
      { intro nid0. split; [|split].
        - intro q. cbn [obs_t]. destruct (strip seg q 0); auto.
          rewrite !obs_f_fget. destruct (Nat.eq_dec (c2i c0) (c2i c)) as [e|e].
          + rewrite e, new_child_same, G. apply obs_blank_node. reflexivity.
          + rewrite new_child_other by auto. reflexivity.
        - cbn [look_t]. rewrite S. rewrite look_f_fget, new_child_same.
          cbn [look_t]. rewrite strip_self. simpl. rewrite Nat.ltb_irrefl. reflexivity.
        - cbn [all_t]. split; [unfold wfi; auto|]. apply all_f_new_child; auto.
          cbn [all_t]. split; [apply wfi_fresh; auto | exact I]. }
      destruct hdr.
      * inversion H; subst; clear H. apply Hnew.
      * destruct (n_val i) eqn:V; simpl in H.
        { inversion H; subst; clear H. apply Hnew. }
        destruct (n_nots i) eqn:N; simpl in H.
        2:{ inversion H; subst; clear H. apply Hnew. }
        destruct (flen f =? 0) eqn:FL.
        2:{ inversion H; subst; clear H. apply Hnew. }
        inversion H; subst n' p nid'; clear H.
        apply flen_zero in FL. subst f.
        assert (Hb : core_of i = blank).
        { unfold core_of, blank. destruct (Hv eq_refl) as [X [Y Z]]. rewrite X, V, Y, N, Z. reflexivity. }
        split; [|split].
        -- intro q. rewrite !obs_blank_node; auto.
        -- cbn [look_t]. rewrite Sk. rewrite strip_self. simpl. rewrite Nat.ltb_irrefl. reflexivity.
        -- cbn [all_t]. split; [|exact I]. unfold wfi.
           split; [intros _; apply (Hv eq_refl) | split; [intros _; exact V | subst k; exact Hk]].
Qed.

(* ---------- update of a node's info, found by lookup ---------- *)
Lemma upd_f_fget : forall f j p g,
  upd_f f j p g = match fget f j with Some t => fset f j (Some (upd_t t p g)) | None => f end.
Proof.
  induction f; simpl; intros; auto. destruct j; simpl.
  - destruct o; auto.
  - rewrite IHf. destruct (fget f j); auto.
Qed.

Lemma app_eq_self_cons : forall (A : Type) (a b : list A) x, a = a ++ x :: b -> False.
Proof. intros. apply (f_equal (@length A)) in H. rewrite app_length in H. simpl in H. lia. Qed.

Lemma upd_ok : forall sz n, size_t n <= sz -> forall k p, look_t n k true = Some p ->
  exists t, get_at n p = Some t /\ core_of (t_info t) = obs_t n k /\
    (forall g q e, look_t (upd_t n p g) q e = look_t n q e) /\
    (forall g q, obs_t (upd_t n p g) q = if list_eq_dec Nat.eq_dec q k then core_of (g (t_info t)) else obs_t n q) /\
    (forall P g, all_t P n -> (P (t_info t) (t_seg t) -> P (g (t_info t)) (t_seg t)) -> all_t P (upd_t n p g)).
Proof.
  induction sz; intros n Hsz k p H.
  { destruct n; simpl in Hsz; lia. }
  destruct n as [i seg f]. cbn [look_t] in H. cbn [obs_t].
  destruct (strip seg k 0) eqn:S; try discriminate.
  - apply strip_keyend in S. destruct S as [rest [S1 S2]]. simpl in S2. subst sc.
    destruct (length k <? length seg) eqn:E; simpl in H; [discriminate|].
    inversion H; subst p; clear H.
    assert (rest = []).
    { destruct rest; auto. subst seg. rewrite app_length in E. simpl in E. apply Nat.ltb_ge in E. lia. }
    subst rest. rewrite app_nil_r in S1. subst seg.
    exists (TN i k f). split; [reflexivity|]. split; [reflexivity|]. split; [|split].
    + intros. reflexivity.
    + intros. cbn [upd_t obs_t t_info]. destruct (list_eq_dec Nat.eq_dec q k) as [e|e].
      * subst q. rewrite strip_self. simpl. rewrite Nat.ltb_irrefl. reflexivity.
      * destruct (strip k q 0) eqn:S; auto.
        apply strip_keyend in S. destruct S as [rest [S1 S2]]. simpl in S2. subst sc.
        destruct (length q <? length k) eqn:E2; auto.
        exfalso. apply e. destruct rest; [rewrite app_nil_r in S1; auto|].
        rewrite S1 in E2. rewrite app_length in E2. simpl in E2. apply Nat.ltb_ge in E2. lia.
    + intros P g [HP Hf] Hg. cbn [upd_t all_t]. split; auto.
  - pose proof (strip_segend _ _ _ _ _ S) as Sk.
    rewrite look_f_fget in H. destruct (fget f (c2i c)) as [t0|] eqn:G; [|discriminate].
    destruct (look_t t0 k' true) as [p0|] eqn:L; [|discriminate]. inversion H; subst p; clear H.
    assert (Hst : size_t t0 <= sz). { apply size_fget in G. simpl in Hsz. lia. }
    destruct (IHsz t0 Hst k' p0 L) as [t [G1 [G2 [G3 [G4 G5]]]]].
    pose proof (fget_some_lt _ _ _ G) as Hlt.
    exists t. split; [simpl; rewrite G; exact G1|]. split.
    { rewrite obs_f_fget, G. exact G2. }
    split; [|split].
    + intros. cbn [upd_t look_t]. destruct (strip seg q 0) as [sc2|sc2 c0 k2|c0 k2]; auto.
      rewrite upd_f_fget, G. rewrite !look_f_fget.
      destruct (Nat.eq_dec (c2i c0) (c2i c)) as [e0|e0].
      * rewrite e0, fget_fset_same, G by auto. rewrite G3. reflexivity.
      * rewrite fget_fset_other by congruence. reflexivity.
    + intros. cbn [upd_t obs_t]. rewrite upd_f_fget, G.
      destruct (strip seg q 0) as [sc2|sc2 c0 k0|c0 k0] eqn:S2.
      * destruct (list_eq_dec Nat.eq_dec q k) as [e|e]; auto.
        exfalso. subst q. pose proof (eq_trans (eq_sym S) S2) as X. discriminate X.
      * destruct (list_eq_dec Nat.eq_dec q k) as [e|e]; auto.
        exfalso. subst q. pose proof (eq_trans (eq_sym S) S2) as X. discriminate X.
      * pose proof (strip_segend _ _ _ _ _ S2) as Sq.
        rewrite !obs_f_fget.
        destruct (Nat.eq_dec (c2i c0) (c2i c)) as [e0|e0].
        -- rewrite e0, fget_fset_same, G by auto. apply c2i_inj in e0. subst c0.
           rewrite G4.
           destruct (list_eq_dec Nat.eq_dec k0 k') as [e1|e1]; destruct (list_eq_dec Nat.eq_dec q k) as [e2|e2]; auto.
           ++ exfalso. apply e2. subst. reflexivity.
           ++ exfalso. apply e1. subst q. rewrite Sk in e2. apply app_inv_head in e2. inversion e2. reflexivity.
        -- rewrite fget_fset_other by congruence.
           destruct (list_eq_dec Nat.eq_dec q k) as [e2|e2]; auto.
           exfalso. assert (X : seg ++ c0 :: k0 = seg ++ c :: k') by congruence. apply app_inv_head in X. inversion X. subst. apply e0. reflexivity.
    + intros P g [HP Hf] Hg. cbn [upd_t all_t]. split; auto.
      rewrite upd_f_fget, G. apply all_f_fset; auto. apply G5; auto. eapply all_f_fget; eauto.
Qed.

(* ---------- trie_node_release ---------- *)
Lemma rel_f_fget : forall f j p,
  rel_f f j p = match fget f j with
                | Some t => match rel_t t p false with
                            | Some t' => Some (fset f j (Some t'), false)
                            | None => Some (fset f j None, true)
                            end
                | None => None
                end.
Proof.
  induction f; simpl; intros; auto. destruct j; simpl.
  - destruct o; auto.
  - rewrite IHf. destruct (fget f j); auto. destruct (rel_t t p false); auto.
Qed.

Lemma fall_none_fget : forall f j, fall_none f = true -> fget f j = None.
Proof.
  induction f; simpl; intros; auto. destruct o; [discriminate|]. destruct j; auto.
Qed.

Lemma releasable_blank : forall i seg f hdr, wfi i seg -> releasable i f hdr = true ->
  hdr = false /\ forall q, obs_t (TN i seg f) q = blank.
Proof.
  unfold releasable. intros i seg f hdr [Hv [Hk _]] H.
  apply andb_true_iff in H. destruct H as [H H4]. apply andb_true_iff in H. destruct H as [H H3].
  apply andb_true_iff in H. destruct H as [H1 H2].
  destruct (n_key i) eqn:K; [discriminate|]. destruct (n_nots i) eqn:N; [|discriminate].
  split. { destruct hdr; auto; discriminate. }
  intro q. cbn [obs_t]. destruct (strip seg q 0); auto.
  - destruct (sc <? length seg); auto. unfold core_of, blank.
    pose proof (Hk eq_refl) as V. destruct (Hv V) as [_ [R R2]]. rewrite K, V, R, N, R2. reflexivity.
  - rewrite obs_f_fget, fall_none_fget; auto.
Qed.

Lemma rel_ok : forall p n hdr, all_t wfi n ->
  match rel_t n p hdr with
  | Some n' => (forall q, obs_t n' q = obs_t n q) /\ all_t wfi n' /\ t_seg n' = t_seg n
  | None => (forall q, obs_t n q = blank) /\ hdr = false
  end.
Proof.
  induction p; intros n hdr Hwf; destruct n as [i seg f]; cbn [rel_t].
  - destruct (releasable i f hdr) eqn:R.
    + destruct Hwf as [Hi _]. destruct (releasable_blank _ _ _ _ Hi R). auto.
    + auto.
  - rewrite rel_f_fget. destruct (fget f a) as [t|] eqn:G.
    2:{ auto. }
    destruct Hwf as [Hi Hf].
    pose proof (all_f_fget _ _ _ _ Hf G) as Ht.
    pose proof (fget_some_lt _ _ _ G) as Hlt.
    specialize (IHp t false Ht). destruct (rel_t t p false) as [t'|].
    + destruct IHp as [I1 [I2 I3]]. split; [|split]; auto.
      * intro q. cbn [obs_t]. destruct (strip seg q 0); auto. rewrite !obs_f_fget.
        destruct (Nat.eq_dec (c2i c) a) as [e|e].
        -- rewrite e, fget_fset_same, G by auto. apply I1.
        -- rewrite fget_fset_other by congruence. reflexivity.
      * cbn [all_t]. split; auto. apply all_f_fset; auto.
    + destruct IHp as [I1 _].
      assert (Hobs : forall q, obs_t (TN i seg (fset f a None)) q = obs_t (TN i seg f) q).
      { intro q. cbn [obs_t]. destruct (strip seg q 0); auto. rewrite !obs_f_fget.
        destruct (Nat.eq_dec (c2i c) a) as [e|e].
        - rewrite e, fget_fset_same, G by auto. symmetry. apply I1.
        - rewrite fget_fset_other by congruence. reflexivity. }
      assert (Hall : all_t wfi (TN i seg (fset f a None))).
      { cbn [all_t]. split; auto. apply all_f_fset; auto. }
      destruct (releasable i (fset f a None) hdr) eqn:R.
      * destruct (releasable_blank _ _ _ _ Hi R) as [X Y]. split; auto.
        intro q. rewrite <- Hobs. apply Y.
      * split; [|split]; auto.
Qed.
