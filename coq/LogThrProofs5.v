(* C16, interleaving model: when the control program never disables or closes the target, every record the worker
   takes off the queue is handed to the target's logger - so at the return of qb_log_fini written = accepted. *)
From Coq Require Import ZArith List Bool Lia.
Import ListNotations.
Require Import Verif.gen.Consts_logthr Verif.LogThrModel Verif.LogThrProofs2 Verif.LogThrProofs3.
Local Open Scope Z_scope.

Definition nondis (o : mop) : bool := match o with MCtl false | MClose => false | _ => true end.
Definition quiet_pc (m : mpc) : bool := match m with MCtlLock false | MCloseLock => false | _ => true end.

Record Inv6 (s : cstate) : Prop := {
  n_prog : forallb nondis (c_mprog s) = true;
  n_pc : quiet_pc (c_m s) = true;
  n_en : stopped (c_gh s) = false -> en (c_sh s) = true;
  n_out : Forall (fun x => snd x = true) (out (c_gh s))
}.

Lemma prod_frame6 : forall b i sh gh p sh' gh' p' l, prod_step b i sh gh p = Some (sh', gh', p', l) ->
  en sh' = en sh /\ out gh' = out gh /\ stopped gh' = stopped gh.
Proof.
  intros b i sh gh p sh' gh' p' l H. unfold prod_step in H. destruct (p_pc p).
  - destruct (p_prog p); [discriminate|].
    destruct (negb b && inlog sh); [|destruct (en sh) eqn:E]; injection H as <- <- <- <-; cbn; auto.
  - destruct (lock_free sh); [|discriminate].
    destruct (LOGT_LIMIT <? mem sh + msg_total m); injection H as <- <- <- <-; cbn; auto.
  - destruct acc; injection H as <- <- <- <-; cbn; auto.
  - injection H as <- <- <- <-; cbn; auto.
Qed.

Lemma pop_frame6 : forall sh gh sh' gh' w', en sh = true -> pop_section sh gh = (sh', gh', w') ->
  en sh' = en sh /\ stopped gh' = stopped gh /\ out gh' = out gh.
Proof.
  intros sh gh sh' gh' w' E H. unfold pop_section in H. rewrite E in H. destruct (q sh).
  - injection H as <- <- <-. cbn. auto.
  - destruct (drop sh =? 0); injection H as <- <- <-; cbn; auto.
Qed.

Lemma worker_inv6 : forall sh gh w sh' gh' w' l, stopped gh = false -> en sh = true ->
  Forall (fun x => snd x = true) (out gh) ->
  worker_step true sh gh w = Some (sh', gh', w', l) ->
  en sh' = true /\ stopped gh' = false /\ Forall (fun x => snd x = true) (out gh').
Proof.
  intros sh gh w sh' gh' w' l St E O H. unfold worker_step in H. destruct w; try discriminate.
  - destruct (0 <? sem sh); [|discriminate]. injection H as <- <- <- <-. cbn. auto.
  - destruct (lock_free sh); [|discriminate].
    destruct (flag sh && is_nil (q sh)); [injection H as <- <- <- <-; cbn; auto|].
    destruct (pop_section (set_lk sh (Some HWorker)) gh) as [[s2 g2] c] eqn:P. injection H as <- <- <- <-.
    destruct (pop_frame6 (set_lk sh (Some HWorker)) _ _ _ _ E P) as (A & B & C). cbn in A. rewrite A, B, C. auto.
  - destruct (sem sh =? 0); [injection H as <- <- <- <-; cbn; auto|].
    destruct (pop_section sh gh) as [[s2 g2] c] eqn:P. injection H as <- <- <- <-.
    destruct (pop_frame6 _ _ _ _ _ E P) as (A & B & C). rewrite A, B, C. auto.
  - injection H as <- <- <- <-. cbn. split; [exact E|]. split; [exact St|]. apply Forall_app. split; [exact O|].
    constructor; [reflexivity|constructor].
  - injection H as <- <- <- <-. cbn. auto.
  - injection H as <- <- <- <-. cbn. auto.
  - injection H as <- <- <- <-. cbn. auto.
Qed.

Lemma close_cb_out : forall sh gh w sh2 gh2, close_cb sh gh w = (sh2, gh2) ->
  out gh2 = out gh /\ stopped gh2 = stopped gh /\ en sh2 = en sh.
Proof. intros sh gh w sh2 gh2 H. unfold close_cb in H. destruct (in_write w); injection H as <- <-; cbn; auto. Qed.

Lemma main_inv6 : forall s s' l, Inv6 s -> main_step true s = Some (s', l) -> Inv6 s'.
Proof.
  intros s s' l [P C E O] H. unfold main_step in H. destruct (c_m s) eqn:CM.
  - destruct (c_mprog s) as [|[b| |] rest] eqn:MP; [discriminate| | |]; cbn in P.
    + destruct b; [|discriminate].
      destruct (closed (c_sh s)); injection H as <- <-; constructor; cbn; auto.
    + discriminate.
    + destruct (c_prods s); injection H as <- <-; constructor; cbn; auto.
  - destruct b; [|discriminate]. destruct (lock_free (c_sh s)); [|discriminate].
    injection H as <- <-. constructor; cbn; auto.
  - discriminate.
  - injection H as <- <-. constructor; cbn; auto.
  - destruct (nth_done (c_prods s) k); [|discriminate].
    destruct (Nat.ltb (S k) (length (c_prods s))); injection H as <- <-; constructor; cbn; auto.
  - destruct (lock_free (c_sh s)); [|discriminate]. injection H as <- <-. constructor; cbn; auto.
  - injection H as <- <-. constructor; cbn; auto.
  - injection H as <- <-. constructor; cbn; auto.
  - destruct (c_w s); try discriminate. destruct (en (c_sh s)).
    + destruct (close_cb _ (c_gh s) WDone) as [sh2 gh2] eqn:CB. injection H as <- <-.
      destruct (close_cb_out _ _ _ _ _ CB) as (A & B & D).
      constructor; cbn; auto; [discriminate|rewrite A; exact O].
    + injection H as <- <-. constructor; cbn; auto. discriminate.
Qed.

Lemma inv6_step : forall s tid, Inv1 s -> Inv6 s -> Inv6 (cstep' true s tid).
Proof.
  intros s tid I1 I. unfold cstep', cstep. destruct tid as [|[|i]].
  - destruct (main_step true s) as [[s' l]|] eqn:E; [|exact I]. eapply main_inv6; eassumption.
  - destruct (worker_step true (c_sh s) (c_gh s) (c_w s)) as [[[[sh gh] w] l]|] eqn:E; [|exact I].
    assert (NS : stopped (c_gh s) = false).
    { destruct (stopped (c_gh s)) eqn:St; [|reflexivity]. destruct (i_stopped s I1 St) as [W _]. rewrite W in E. discriminate. }
    destruct I as [P C En O].
    destruct (worker_inv6 _ _ _ _ _ _ _ NS (En NS) O E) as (A & B & D).
    constructor; cbn; auto.
  - destruct (nth_error (c_prods s) i) as [p|] eqn:Hn; [|exact I].
    destruct (prod_step true i (c_sh s) (c_gh s) p) as [[[[sh gh] p'] l]|] eqn:E; [|exact I].
    destruct (prod_frame6 _ _ _ _ _ _ _ _ _ E) as (A & B & D). destruct I as [P C En O].
    constructor; cbn; rewrite ?A, ?B, ?D; auto.
Qed.

Lemma inv6_exec : forall sched s, Inv1 s -> Inv6 s -> Inv6 (exec true sched s).
Proof.
  induction sched as [|t r IH]; intros s I1 I; [exact I|]. cbn. apply IH; [apply inv1_step; exact I1|apply inv6_step; assumption].
Qed.

(* the statement: a control program without disable/close (enable, other ctl, join + fini are allowed) *)
Lemma conc_written_all : forall mprog progs sched, forallb nondis mprog = true ->
  let s := exec true sched (cinit mprog progs) in
  written (c_gh s) = popped (c_gh s) /\
  (stopped (c_gh s) = true -> written (c_gh s) = accepted (c_gh s)).
Proof.
  intros mprog progs sched Q s.
  assert (I6 : Inv6 s).
  { apply inv6_exec; [apply inv1_init|]. constructor; cbn; auto. }
  assert (W : written (c_gh s) = popped (c_gh s)).
  { unfold written, popped. pose proof (n_out s I6) as O. induction (out (c_gh s)) as [|x r IH]; [reflexivity|].
    inversion O as [|? ? Hx Hr]; subst. cbn. rewrite Hx. cbn. rewrite (IH Hr). reflexivity. }
  split; [exact W|]. intro St. rewrite W. apply (conc_fini_complete mprog progs sched St).
Qed.
