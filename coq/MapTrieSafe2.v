(* C18 trie part, safety (2): the reference-count accounting invariant and its basic transformations. *)
From Coq Require Import List ZArith Bool Arith Lia.
Import ListNotations.
Require Import Verif.gen.Consts_trie Verif.MapTrieModel Verif.MapTrieProofs Verif.MapTrieProofs2 Verif.MapTrieIter
               Verif.MapTrieIds Verif.MapTrieIter3 Verif.MapTrieIter6 Verif.MapTrieSafe1.

Definition on_id (id : nat) (hi : nat * iter) : bool :=
  match it_n (snd hi) with Some x => x =? id | None => false end.
(* number of iterators positioned on the node with this id *)
Definition parked (its : list (nat * iter)) (id : nat) : nat := length (filter (on_id id) its).

(* 1 while the key is present *)
Definition pres (i : ninfo) : nat := match n_val i with Some _ => if n_removed i then 0 else 1 | None => 0 end.

(* the reference count covers the presence reference and every iterator positioned on the node *)
Definition PA (its : list (nat * iter)) (i : ninfo) : Prop := n_id i = 0 \/ pres i + parked its (n_id i) <= n_rc i.

Record Saf (r : tnode) (its : list (nat * iter)) (next : nat) : Prop := {
  sf_wf : all_t wfi r;
  sf_seg : t_seg r = [];
  sf_hval : n_val (t_info r) = None;
  sf_ids : ids_r r next;
  sf_acc : all_t (fun i _ => PA its i) r;
  sf_ex : forall id, 1 <= parked its id -> id <> 0 -> 1 <= cnt_t r id;
  sf_plain : forall h it, In (h, it) its -> it_prefix it = None /\ it_root it = 0;
  sf_handles : NoDup (map fst its)
}.

Lemma saf_init : Saf header [] 1.
Proof.
  constructor; simpl; auto.
  - split; [|exact I]. unfold wfi. simpl. auto.
  - exact (proj1 (ids_ok_r trie_init) ids_init).
  - split; [|exact I]. left. reflexivity.
  - intros id H. unfold parked in H. simpl in H. lia.
  - intros h it [].
  - constructor.
Qed.

(* fewer iterators anywhere: still fine *)
Lemma saf_weaken : forall r its its' next, Saf r its next -> (forall id, id <> 0 -> parked its' id <= parked its id) ->
  (forall h it, In (h, it) its' -> it_prefix it = None /\ it_root it = 0) -> NoDup (map fst its') -> Saf r its' next.
Proof.
  intros r its its' next [W S HV I A E P H] Hle HP HH. constructor; auto.
  - apply (proj1 all_of_paths). intros p tn G. pose proof (paths_of_all _ _ _ _ A G) as X.
    destruct X as [X|X]; [left; auto|].
    destruct (Nat.eq_dec (n_id (t_info tn)) 0) as [e|e]; [left; auto|right]. specialize (Hle _ e). lia.
  - intros id H1 H2. apply E; auto. specialize (Hle id H2). lia.
Qed.

Lemma find_some : forall r id, (forall x, cnt_t r x <= 1) -> 1 <= cnt_t r id ->
  exists p tn, find_t r id = Some p /\ get_at r p = Some tn /\ n_id (t_info tn) = id.
Proof.
  intros r id U C. destruct (proj1 cnt_path r id C) as [p [tn [G E]]]. exists p, tn. split; auto.
  rewrite <- E. apply find_unique; auto.
Qed.

(* one more iterator on the node with id nid, which has a spare reference *)
Lemma saf_arrive : forall r its its' next nid pn tn, Saf r its next -> get_at r pn = Some tn -> n_id (t_info tn) = nid ->
  pres (t_info tn) + parked its nid + 1 <= n_rc (t_info tn) ->
  (forall id, id <> nid -> parked its' id <= parked its id) -> parked its' nid <= parked its nid + 1 ->
  (forall h it, In (h, it) its' -> it_prefix it = None /\ it_root it = 0) -> NoDup (map fst its') -> Saf r its' next.
Proof.
  intros r its its' next nid pn tn [W S HV I A E P H] G Hid Hslack Hle Hn HP HH. constructor; auto.
  - apply (proj1 all_of_paths). intros p tn' G'. pose proof (paths_of_all _ _ _ _ A G') as X.
    destruct (Nat.eq_dec (n_id (t_info tn')) nid) as [e|e].
    + (* the same id: the same node *)
      destruct I as [U _]. pose proof (find_unique _ _ _ U G') as F1. pose proof (find_unique _ _ _ U G) as F2.
      rewrite e, <- Hid in F1. rewrite F1 in F2. inversion F2; subst p. rewrite G in G'. inversion G'; subst tn'.
      right. rewrite Hid. lia.
    + destruct X as [X|X]; [left; auto|right]. specialize (Hle _ e). lia.
  - intros id H1 H2. destruct (Nat.eq_dec id nid) as [e|e].
    + subst id. rewrite <- Hid. eapply cnt_get; eauto.
    + apply E; auto. specialize (Hle _ e). lia.
Qed.

Lemma all_upd_at2 : forall (P : ninfo -> list byte -> Prop) p n g tn, get_at n p = Some tn ->
  (P (t_info tn) (t_seg tn) -> P (g (t_info tn)) (t_seg tn)) -> all_t P n -> all_t P (upd_t n p g).
Proof.
  induction p; intros n g tn G Hg Hall; destruct n as [i s f]; simpl in G; cbn [upd_t all_t] in *; destruct Hall as [Hi Hf].
  - inversion G; subst. simpl in Hg. auto.
  - split; auto. rewrite upd_f_fget. destruct (fget f a) as [c|] eqn:F; [|discriminate].
    apply all_f_fset; auto. eapply IHp; eauto. eapply all_f_fget; eauto.
Qed.

(* info update of one node (not the header) that keeps id, well-formedness and the accounting *)
Lemma saf_upd : forall r its next p tn g, Saf r its next -> p <> [] -> get_at r p = Some tn ->
  (forall i, n_id (g i) = n_id i) -> wfi (g (t_info tn)) (t_seg tn) -> PA its (g (t_info tn)) ->
  Saf (upd_t r p g) its next.
Proof.
  intros r its next p tn g [W S HV I A E P H] Hp G Hid Hw Ha. constructor; auto.
  - eapply all_upd_at2; eauto.
  - rewrite upd_seg. exact S.
  - rewrite upd_root_info by auto. exact HV.
  - apply ids_r_upd; auto.
  - eapply all_upd_at; eauto.
  - intros id H1 H2. rewrite upd_cnt by auto. apply E; auto.
Qed.
