(* C11: corollaries in the words of the property text. *)
From Coq Require Import ZArith List Bool Lia ZifyBool.
Import ListNotations.
Require Import Verif.gen.Consts_rb Verif.gen.Consts_rbow Verif.RbModel Verif.RbSpec Verif.RbMem Verif.RbProofs
               Verif.RbRefine Verif.RbOwSpec Verif.RbOwProofs Verif.RbOwKeeps Verif.BbModel Verif.BbProofs.
Local Open Scope Z_scope.

(* "in overwrite mode every write of at most the requested size succeeds": any ring state that satisfies the
   invariant, any chunk of at most S bytes; the chunk becomes the newest of the queue *)
Theorem always_accepts : forall S b s d, Inv b s -> ovw b = true ->
  S + RB_CHUNK_MARGIN + RB_SIZE_EXTRA <= 4 * rW b -> zlen d <= S ->
  exists b', write b d = WRet b' (zlen d) /\
             Inv b' {| sq := drop_until (rW b) (sq s) (zlen d) ++ [d]; stok := tok_add s 1 |} /\
             rW b' = rW b /\ ovw b' = true.
Proof.
  intros S b s d HI Ho HS Hd.
  pose proof (zlen_nonneg d) as Hz.
  assert (Hroom : has_room (rW b) (drop_until (rW b) (sq s) (zlen d)) (zlen d) = true).
  { destruct (drop_until_room (rW b) (zlen d) (sq s)) as [H | (_ & H)]; [exact H|].
    rewrite (has_room_single_max (rW b) S (zlen d) HS Hd) in H. discriminate. }
  destruct (ow_spec_write (rW b) s (zlen d) d 0) as (s1, y) eqn:Hsp.
  destruct (ow_alloc_commit_refines b s (zlen d) d 0 HI Ho ltac:(lia) _ _ Hsp) as (b1 & r & Hac & HI1 & Hy & Hr01 & HW1 & Ho1).
  unfold ow_spec_write in Hsp. rewrite Hroom in Hsp.
  assert (Hs1 : s1 = {| sq := drop_until (rW b) (sq s) (zlen d) ++ [d]; stok := tok_add s 1 |}) by (inversion Hsp; reflexivity).
  assert (Hy0 : y = Some (0, [])) by (inversion Hsp; reflexivity).
  assert (r = 0).
  { destruct Hr01 as [-> | ->]; [reflexivity|]. rewrite einval_nz in Hy. rewrite Hy0 in Hy. inversion Hy; lia. }
  subst r s1. exists b1. unfold write. rewrite Hac. change (0 <? 0) with false. cbv iota.
  repeat match goal with |- _ /\ _ => split end; try assumption; reflexivity.
Qed.

(* the blackbox theorem at the level of records: parsing the chunks of a dump the way qb_log_blackbox_print_from_file
   does yields exactly the records of the latest calls *)
Theorem bb_dump_decodes : forall S maxline n R calls, size_ok S -> Forall (call_ok S maxline n) calls ->
  Forall (fun c => bb_reserve maxline (r_fn (lc_hdr c)) <= R) calls ->
  Forall (fun c => rec_ok (lc_rec maxline c)) calls ->
  exists b kept,
    fst (bb_run (bb_open S) (map (lc_op maxline) calls)) = Some b /\
    suffix kept calls /\ (calls <> [] -> kept <> []) /\
    (forall l, suffix l calls -> Z.of_nat (length l) * (R + 16) <= S -> suffix l kept) /\
    map bb_decode (bb_dump b n) = map (fun c => Some (lc_rec maxline c)) kept.
Proof.
  intros S maxline n R calls Hs Hok HR Hrec.
  destruct (bb_keeps_latest S maxline n R calls Hs Hok HR) as (b & kept & Hrun & Hsuf & Hne & Hfit & Hdump).
  exists b, kept. rewrite Hrun. repeat match goal with |- _ /\ _ => split end; try assumption; try reflexivity.
  rewrite Hdump, map_map. apply map_ext_in. intros c Hc.
  apply decode_encode. rewrite Forall_forall in Hrec. apply Hrec.
  destruct Hsuf as (p & Hp). rewrite Hp. apply in_or_app. right; exact Hc.
Qed.

Lemma bb_run_app : forall a st c,
  bb_run st (a ++ c) = let '(st1, xs) := bb_run st a in let '(st2, ys) := bb_run st1 c in (st2, xs ++ ys).
Proof.
  induction a as [|o t IH]; intros st c; cbn [app bb_run].
  - destruct (bb_run st c) as (st2, ys). reflexivity.
  - destruct (bb_step st o) as (st1, x). rewrite IH.
    destruct (bb_run st1 t) as (st2, xs). destruct (bb_run st2 c) as (st3, ys). reflexivity.
Qed.

(* "a dump taken at any moment": whatever is logged before (pre) and whatever happens afterwards (post, any mix of
   log calls and dumps), the dump taken in between holds the records of an unbroken run of the latest calls of pre,
   ending with the very last one *)
Theorem bb_dump_at_any_moment : forall S maxline n R pre post, size_ok S -> Forall (call_ok S maxline n) pre ->
  Forall (fun c => bb_reserve maxline (r_fn (lc_hdr c)) <= R) pre ->
  exists kept,
    suffix kept pre /\ (pre <> [] -> kept <> []) /\
    (forall l, suffix l pre -> Z.of_nat (length l) * (R + 16) <= S -> suffix l kept) /\
    nth (length pre) (snd (bb_run (bb_open S) (map (lc_op maxline) pre ++ BDump n :: post))) BoClosed =
    BoDump (map (fun c => bb_encode (lc_rec maxline c)) kept).
Proof.
  intros S maxline n R pre post Hs Hok HR.
  destruct (bb_keeps_latest S maxline n R pre Hs Hok HR) as (b & kept & Hrun & Hsuf & Hne & Hfit & Hdump).
  exists kept. repeat match goal with |- _ /\ _ => split end; try assumption.
  rewrite bb_run_app. rewrite Hrun. cbn [bb_run bb_step].
  destruct (bb_run (Some b) post) as (st2, ys). cbn [snd].
  rewrite app_nth2 by (rewrite map_length; lia). rewrite map_length, Nat.sub_diag. cbn [nth].
  rewrite Hdump. reflexivity.
Qed.
