(* MapRefProofs - C17 for layer A (MapRefModel): for every placement function [before] and every history without
   caller-held iterators, layer A and the dictionary specification MapSpec agree step by step on outputs and on
   notifier calls. *)
From Coq Require Import List NArith ZArith Bool Arith Lia.
From Hammer Require Import Tactics.
Require Import Verif.MapSpec Verif.MapHashModel Verif.MapRefModel.
Import ListNotations.

(* ---------- generic list facts ---------- *)
Lemma flat_map_filter_cond : forall {A B} (p q : A -> bool) (f : A -> list B) l,
  flat_map (fun s => if p s && q s then f s else []) l = flat_map (fun s => if q s then f s else []) (filter p l).
Proof. induction l; simpl; auto. destruct (p a); simpl; rewrite IHl; auto. Qed.

Lemma flat_map_map : forall {A B C} (g : A -> B) (f : B -> list C) l, flat_map f (map g l) = flat_map (fun x => f (g x)) l.
Proof. induction l; simpl; auto. rewrite IHl; auto. Qed.

Lemma flat_map_ext' : forall {A B} (f g : A -> list B) l, (forall x, In x l -> f x = g x) -> flat_map f l = flat_map g l.
Proof. induction l; simpl; auto. intros. rewrite H, IHl; auto. Qed.

Lemma filter_filter_comm : forall {A} (p q : A -> bool) l, filter p (filter q l) = filter q (filter p l).
Proof. induction l; simpl; auto. destruct (q a) eqn:Q, (p a) eqn:P; simpl; rewrite ?Q, ?P, IHl; auto. Qed.

Lemma filter_ext_in' : forall {A} (p q : A -> bool) l, (forall x, In x l -> p x = q x) -> filter p l = filter q l.
Proof. induction l; simpl; auto. intros. rewrite H by auto. rewrite IHl; auto. Qed.

Lemma filter_map_comm : forall {A B} (g : A -> B) (p : B -> bool) l, filter p (map g l) = map g (filter (fun x => p (g x)) l).
Proof. induction l; simpl; auto. destruct (p (g a)); simpl; rewrite IHl; auto. Qed.

Lemma existsb_filter_cond : forall {A} (p q : A -> bool) l, existsb (fun s => p s && q s) l = existsb q (filter p l).
Proof. induction l; simpl; auto. destruct (p a); simpl; rewrite IHl; auto. Qed.

Lemma existsb_map' : forall {A B} (g : A -> B) (p : B -> bool) l, existsb p (map g l) = existsb (fun x => p (g x)) l.
Proof. induction l; simpl; auto. rewrite IHl; auto. Qed.

Lemma filter_all_true : forall {A} (p : A -> bool) l, forallb p l = true -> filter p l = l.
Proof. induction l; simpl; auto. intros. apply andb_true_iff in H. destruct H as [H1 H2]. rewrite H1, IHl; auto. Qed.

Lemma NoDup_app_intro_single : forall {A} (l : list A) x, NoDup l -> ~ In x l -> NoDup (l ++ [x]).
Proof.
  induction l; simpl; intros. constructor; auto. inversion H; subst. constructor.
  - intro Q. apply in_app_or in Q. destruct Q as [Q|[Q|[]]]; auto.
  - apply IHl; auto.
Qed.

Lemma filter_filter_absorb : forall {A} (p q : A -> bool) l, (forall x, p x = true -> q x = true) -> filter p (filter q l) = filter p l.
Proof.
  induction l; simpl; intros; auto. destruct (q a) eqn:Q; simpl; rewrite IHl; auto.
  destruct (p a) eqn:P; auto. apply H in P. congruence.
Qed.

(* ---------- dictionary facts ---------- *)
Lemma d_get_in : forall d k v, d_get d k = Some v -> In (k, v) d.
Proof.
  induction d as [|[k' v'] d]; simpl; intros; try discriminate.
  destruct (key_eqb k' k) eqn:E. apply key_eqb_eq in E. inversion H; subst; auto. right; auto.
Qed.

Lemma d_get_none_notin : forall d k, d_get d k = None -> ~ In k (map fst d).
Proof.
  induction d as [|[k' v'] d]; simpl; intros; auto.
  destruct (key_eqb k' k) eqn:E; try discriminate. apply key_eqb_neq in E. intros [H1|H1]; auto. eapply IHd; eauto.
Qed.

Lemma d_get_app_new : forall d k v k', d_get (d ++ [(k, v)]) k' =
  match d_get d k' with Some x => Some x | None => if key_eqb k k' then Some v else None end.
Proof. induction d as [|[a b] d]; simpl; intros; auto. destruct (key_eqb a k'); auto. Qed.

Lemma d_get_replace : forall d k v k', d_get (d_replace d k v) k' =
  if key_eqb k k' then match d_get d k with Some _ => Some v | None => None end else d_get d k'.
Proof.
  induction d as [|[a b] d]; simpl; intros. destruct (key_eqb k k'); auto.
  destruct (key_eqb a k) eqn:E1; simpl.
  - apply key_eqb_eq in E1; subst. destruct (key_eqb k k') eqn:E2; auto.
  - destruct (key_eqb a k') eqn:E2.
    + apply key_eqb_eq in E2; subst. rewrite key_eqb_sym, E1. auto.
    + apply IHd.
Qed.

Lemma d_get_remove : forall d k k', NoDup (map fst d) -> d_get (d_remove d k) k' = if key_eqb k k' then None else d_get d k'.
Proof.
  induction d as [|[a b] d]; simpl; intros. destruct (key_eqb k k'); auto.
  inversion H; subst.
  destruct (key_eqb a k) eqn:E1.
  - apply key_eqb_eq in E1; subst. destruct (key_eqb k k') eqn:E2; auto.
    apply key_eqb_eq in E2; subst. destruct (d_get d k') eqn:G; auto. apply d_get_in in G.
    exfalso. apply H2. apply (in_map fst) in G. auto.
  - simpl. destruct (key_eqb a k') eqn:E2.
    + apply key_eqb_eq in E2; subst. rewrite key_eqb_sym, E1. auto.
    + apply IHd; auto.
Qed.

Lemma d_replace_keys : forall d k v, d_mem d k = true -> map fst (d_replace d k v) = map fst d.
Proof.
  unfold d_mem. induction d as [|[a b] d]; simpl; intros; auto.
  destruct (key_eqb a k) eqn:E; simpl. apply key_eqb_eq in E; subst; auto. rewrite IHd; auto.
Qed.

Lemma d_replace_length : forall d k v, length (d_replace d k v) = length d.
Proof. induction d as [|[a b] d]; simpl; intros; auto. destruct (key_eqb a k); simpl; auto. Qed.

Lemma d_remove_keys_incl : forall d k x, In x (map fst (d_remove d k)) -> In x (map fst d).
Proof. induction d as [|[a b] d]; simpl; intros; auto. destruct (key_eqb a k); simpl in *; intuition eauto. Qed.

Lemma d_remove_nodup : forall d k, NoDup (map fst d) -> NoDup (map fst (d_remove d k)).
Proof.
  induction d as [|[a b] d]; simpl; intros; auto. inversion H; subst.
  destruct (key_eqb a k); simpl; auto. constructor; auto. intro. apply H2. eapply d_remove_keys_incl; eauto.
Qed.

Lemma d_remove_length : forall d k v, d_get d k = Some v -> S (length (d_remove d k)) = length d.
Proof.
  induction d as [|[a b] d]; simpl; intros; try discriminate.
  destruct (key_eqb a k); simpl; auto. erewrite IHd; eauto.
Qed.

(* ---------- subscriptions: spec view vs per-entry / global lists ---------- *)
Definition tag (k : option key) (f : nsub) : sub :=
  {| sub_key := k; sub_fn := ns_fn f; sub_events := ns_events f; sub_ud := ns_ud f |}.
Definition is_global (s : sub) : bool := match sub_key s with None => true | Some _ => false end.
Definition targets (k : key) (s : sub) : bool := okey_eqb (sub_key s) (Some k).

Lemma notify_key_subs_eq : forall subs ev k old new l,
  filter (targets k) subs = map (tag (Some k)) l ->
  notify_key_subs subs ev k old new = notify_node l ev k old new.
Proof.
  intros. unfold notify_key_subs, notify_node.
  rewrite (flat_map_filter_cond (targets k) (fun s => has_bit (sub_events s) ev)). unfold targets in *. rewrite H.
  rewrite flat_map_map. apply flat_map_ext'. intros. reflexivity.
Qed.

Lemma notify_global_subs_eq : forall subs ev k old new l,
  filter is_global subs = map (tag None) l ->
  notify_global_subs subs ev k old new = notify_global l ev k old new.
Proof.
  intros. unfold notify_global_subs, notify_global.
  transitivity (flat_map (fun s => (if has_bit (sub_events s) ev then [mk_notif s ev k old new] else []) ++
                     (if (N.eqb ev EV_DELETED || N.eqb ev EV_REPLACED) && has_bit (sub_events s) EV_FREE
                      then [mk_notif s EV_FREE k old new] else [])) (filter is_global subs)).
  - clear H. induction subs as [|s subs]; simpl; auto. unfold is_global at 1. destruct (sub_key s); simpl; rewrite IHsubs; auto.
  - rewrite H. rewrite flat_map_map. apply flat_map_ext'. intros. reflexivity.
Qed.

Lemma sub_conflict_eq : forall subs k fn ev ud l,
  filter (fun s => okey_eqb (sub_key s) k) subs = map (tag k) l ->
  sub_conflict subs k fn ev ud = nsub_conflict l fn ev ud.
Proof.
  intros. unfold sub_conflict, nsub_conflict.
  rewrite (existsb_filter_cond (fun s => okey_eqb (sub_key s) k)). rewrite H. rewrite existsb_map'. reflexivity.
Qed.

Lemma existsb_ext' : forall {A} (f g : A -> bool) l, (forall x, f x = g x) -> existsb f l = existsb g l.
Proof. induction l; simpl; auto. intros. rewrite H, IHl; auto. Qed.

Lemma sub_match_exists_eq : forall subs k fn ev ud l,
  filter (fun s => okey_eqb (sub_key s) k) subs = map (tag k) l ->
  existsb (sub_match k fn ev ud) subs = existsb (nsub_match fn ev ud) l.
Proof.
  intros. unfold nsub_match.
  transitivity (existsb (fun s => okey_eqb (sub_key s) k &&
                   (N.eqb (sub_events s) ev && N.eqb (sub_fn s) fn && match ud with None => true | Some u => N.eqb (sub_ud s) u end)) subs).
  - apply existsb_ext'. intros. unfold sub_match. rewrite !andb_assoc. reflexivity.
  - rewrite (existsb_filter_cond (fun s => okey_eqb (sub_key s) k)). rewrite H. rewrite existsb_map'. reflexivity.
Qed.

(* ---------- entry-list facts ---------- *)
Lemma find_live_some : forall l k e, find_live l k = Some e -> In e l /\ re_key e = k /\ is_live e = true.
Proof.
  unfold find_live. intros. apply find_some in H. destruct H as [H1 H2]. apply andb_true_iff in H2. destruct H2 as [H2 H3].
  apply key_eqb_eq in H3. auto.
Qed.

Lemma find_live_none : forall l k x, find_live l k = None -> In x l -> is_live x = true -> re_key x <> k.
Proof.
  unfold find_live. intros. eapply find_none in H; eauto. simpl in H. rewrite H1 in H. simpl in H. apply key_eqb_neq. auto.
Qed.

Lemma in_ins_before : forall p e l x, In x (ins_before p e l) <-> x = e \/ In x l.
Proof. induction l; simpl; intros. intuition. destruct (p a); simpl; rewrite ?IHl; intuition. Qed.

Lemma nodup_map_ins_before : forall {B} (f : rentry -> B) p e l,
  ~ In (f e) (map f l) -> NoDup (map f l) -> NoDup (map f (ins_before p e l)).
Proof.
  induction l; simpl; intros. { constructor; auto. }
  destruct (p a); simpl. { constructor; auto. }
  inversion H0; subst. constructor.
  - intro. apply in_map_iff in H1. destruct H1 as [x [H1 H2]]. apply in_ins_before in H2. destruct H2; subst.
    + apply H. left; auto.
    + apply H3. rewrite <- H1. apply in_map; auto.
  - apply IHl; auto.
Qed.

Lemma length_ins_before : forall p e l, length (ins_before p e l) = S (length l).
Proof. induction l; simpl; auto. destruct (p a); simpl; auto. Qed.

Lemma forallb_ins_before : forall q p e l, q e = true -> forallb q l = true -> forallb q (ins_before p e l) = true.
Proof.
  induction l; simpl; intros. rewrite H; auto. apply andb_true_iff in H0. destruct H0.
  destruct (p a); simpl; rewrite ?H, ?H0, ?H1; auto.
Qed.

Lemma find_live_ins_before : forall p e l k',
  is_live e = true -> (forall x, In x l -> re_key x <> re_key e) ->
  find_live (ins_before p e l) k' = if key_eqb (re_key e) k' then Some e else find_live l k'.
Proof.
  unfold find_live. induction l; simpl; intros.
  - rewrite H. simpl. destruct (key_eqb (re_key e) k'); auto.
  - destruct (p a); simpl.
    + rewrite H. simpl. destruct (key_eqb (re_key e) k') eqn:E; auto.
    + destruct (is_live a && key_eqb (re_key a) k') eqn:E1.
      * apply andb_true_iff in E1. destruct E1 as [_ E1]. apply key_eqb_eq in E1.
        destruct (key_eqb (re_key e) k') eqn:E2; auto. apply key_eqb_eq in E2. exfalso. apply (H0 a); auto. congruence.
      * apply IHl; auto.
Qed.

Lemma upd_entry_ids : forall l id e', re_id e' = id -> map re_id (upd_entry l id (fun _ => e')) = map re_id l.
Proof.
  unfold upd_entry. induction l; simpl; intros; auto. rewrite IHl; auto. destruct (Nat.eqb (re_id a) id) eqn:E; auto.
  apply Nat.eqb_eq in E. congruence.
Qed.

Lemma upd_entry_f_ids : forall l id f, (forall y, re_id (f y) = re_id y) -> map re_id (upd_entry l id f) = map re_id l.
Proof. unfold upd_entry. induction l; simpl; intros; auto. rewrite IHl; auto. destruct (Nat.eqb (re_id a) id); auto. rewrite H; auto. Qed.

Lemma upd_entry_f_keys : forall l id f, (forall y, re_key (f y) = re_key y) -> map re_key (upd_entry l id f) = map re_key l.
Proof. unfold upd_entry. induction l; simpl; intros; auto. rewrite IHl; auto. destruct (Nat.eqb (re_id a) id); auto. rewrite H; auto. Qed.

Lemma upd_entry_keys_in : forall l id f, (forall y, In y l -> re_id y = id -> re_key (f y) = re_key y) ->
  map re_key (upd_entry l id f) = map re_key l.
Proof.
  unfold upd_entry. induction l; simpl; intros; auto. rewrite IHl; auto. destruct (Nat.eqb (re_id a) id) eqn:E; auto.
  apply Nat.eqb_eq in E. rewrite H; auto.
Qed.

Lemma nodup_id_eq : forall l (x y : rentry), NoDup (map re_id l) -> In x l -> In y l -> re_id x = re_id y -> x = y.
Proof.
  induction l; simpl; intros. contradiction. inversion H; subst. destruct H0, H1; subst; auto.
  - exfalso. apply H5. rewrite H2. apply in_map; auto.
  - exfalso. apply H5. rewrite <- H2. apply in_map; auto.
Qed.

Lemma upd_entry_length : forall l id f, length (upd_entry l id f) = length l.
Proof. intros. unfold upd_entry. apply map_length. Qed.

Lemma in_upd_entry : forall l id f x, In x (upd_entry l id f) ->
  (In x l /\ re_id x <> id) \/ (exists y, In y l /\ re_id y = id /\ x = f y).
Proof.
  unfold upd_entry. intros. apply in_map_iff in H. destruct H as [y [H1 H2]].
  destruct (Nat.eqb (re_id y) id) eqn:E.
  - apply Nat.eqb_eq in E. right. exists y. auto.
  - apply Nat.eqb_neq in E. left. subst. auto.
Qed.

Lemma find_live_upd : forall l e f k',
  NoDup (map re_id l) -> NoDup (map re_key l) -> In e l ->
  is_live (f e) = true -> is_live e = true -> re_key (f e) = re_key e ->
  find_live (upd_entry l (re_id e) f) k' = if key_eqb (re_key e) k' then Some (f e) else find_live l k'.
Proof.
  unfold find_live, upd_entry. induction l; simpl; intros. contradiction.
  inversion H; inversion H0; subst.
  destruct H1.
  - subst. rewrite Nat.eqb_refl. simpl. rewrite H2, H4. simpl. rewrite H3. simpl.
    destruct (key_eqb (re_key e) k') eqn:E; auto.
    f_equal. clear IHl. (* the rest is unchanged: no other entry has this id *)
    assert (forall x, In x l -> Nat.eqb (re_id x) (re_id e) = false).
    { intros. apply Nat.eqb_neq. intro. apply H7. rewrite <- H5. apply in_map; auto. }
    clear - H1. induction l; simpl; auto. rewrite H1 by (left; auto). rewrite IHl; auto. intros. apply H1. right; auto.
  - assert (Nat.eqb (re_id a) (re_id e) = false).
    { apply Nat.eqb_neq. intro. apply H7. rewrite H5. apply in_map; auto. }
    rewrite H5. simpl.
    destruct (is_live a && key_eqb (re_key a) k') eqn:E1.
    + apply andb_true_iff in E1. destruct E1 as [_ E1]. apply key_eqb_eq in E1.
      destruct (key_eqb (re_key e) k') eqn:E2; auto. apply key_eqb_eq in E2. exfalso. apply H11. rewrite E1, <- E2. apply in_map; auto.
    + apply IHl; auto.
Qed.

Lemma del_entry_sub : forall l id x, In x (del_entry l id) -> In x l /\ re_id x <> id.
Proof. unfold del_entry. intros. apply filter_In in H. destruct H. split; auto. apply negb_true_iff in H0. apply Nat.eqb_neq; auto. Qed.

Lemma nodup_map_filter : forall {A B} (f : A -> B) p l, NoDup (map f l) -> NoDup (map f (filter p l)).
Proof.
  induction l; simpl; intros; auto. inversion H; subst. destruct (p a); simpl; auto. constructor; auto.
  intro. apply H2. apply in_map_iff in H0. destruct H0 as [x [H0 H1]]. apply filter_In in H1. destruct H1. rewrite <- H0. apply in_map; auto.
Qed.

Lemma del_entry_length : forall l e, NoDup (map re_id l) -> In e l -> S (length (del_entry l (re_id e))) = length l.
Proof.
  unfold del_entry. induction l; simpl; intros. contradiction. inversion H; subst. destruct H0.
  - subst. rewrite Nat.eqb_refl. simpl. f_equal.
    rewrite filter_all_true; auto. apply forallb_forall. intros. apply negb_true_iff. apply Nat.eqb_neq. intro. apply H3. rewrite <- H1. apply in_map; auto.
  - assert (Nat.eqb (re_id a) (re_id e) = false). { apply Nat.eqb_neq. intro. apply H3. rewrite H1. apply in_map; auto. }
    rewrite H1. simpl. f_equal. apply IHl; auto.
Qed.

Lemma find_live_del : forall l e k',
  NoDup (map re_id l) -> NoDup (map re_key l) -> In e l ->
  find_live (del_entry l (re_id e)) k' = if key_eqb (re_key e) k' then None else find_live l k'.
Proof.
  unfold find_live, del_entry. induction l; simpl; intros. contradiction.
  inversion H; inversion H0; subst. destruct H1.
  - subst. rewrite Nat.eqb_refl. simpl.
    assert (filter (fun x => negb (Nat.eqb (re_id x) (re_id e))) l = l).
    { apply filter_all_true. apply forallb_forall. intros. apply negb_true_iff. apply Nat.eqb_neq. intro. apply H4. rewrite <- H2. apply in_map; auto. }
    rewrite H1. destruct (key_eqb (re_key e) k') eqn:E.
    + apply key_eqb_eq in E.
      destruct (find (fun e0 => is_live e0 && key_eqb (re_key e0) k') l) eqn:F; auto.
      apply find_some in F. destruct F as [F1 F2]. apply andb_true_iff in F2. destruct F2 as [_ F2]. apply key_eqb_eq in F2.
      exfalso. apply H8. rewrite E, <- F2. apply in_map; auto.
    + rewrite ?andb_false_r. auto.
  - assert (Nat.eqb (re_id a) (re_id e) = false). { apply Nat.eqb_neq. intro. apply H4. rewrite H2. apply in_map; auto. }
    rewrite H2. simpl.
    destruct (is_live a && key_eqb (re_key a) k') eqn:E1.
    + apply andb_true_iff in E1. destruct E1 as [_ E1]. apply key_eqb_eq in E1.
      destruct (key_eqb (re_key e) k') eqn:E2; auto. apply key_eqb_eq in E2. exfalso. apply H8. rewrite E1, <- E2. apply in_map; auto.
    + apply IHl; auto.
Qed.

(* ---------- the simulation ---------- *)
Definition fl_of (rc : Z * Z * Z * Z) (r : rstate) : flavour :=
  let '(e1, e2, e3, e4) := rc in
  {| fl_ord := fun _ => live_kv r; fl_rc_add_nokey := e2; fl_rc_del_nokey := e3; fl_rc_exist := e4; fl_rc_einval := e1 |}.

Record Inv17 (r : rstate) (sp : sstate) : Prop := {
  i_alive : r_alive r = s_alive sp;
  i_iters : r_iters r = [];
  i_live : forallb is_live (r_ents r) = true;
  i_ids : forall e, In e (r_ents r) -> re_id e < r_next r;
  i_idnd : NoDup (map re_id (r_ents r));
  i_keynd : NoDup (map re_key (r_ents r));
  i_dict : forall k, d_get (s_dict sp) k = option_map re_val (find_live (r_ents r) k);
  i_dnd : NoDup (map fst (s_dict sp));
  i_count : length (s_dict sp) = length (r_ents r);
  i_gsubs : filter is_global (s_subs sp) = map (tag None) (r_subs r);
  i_ksubs : forall e, In e (r_ents r) -> filter (targets (re_key e)) (s_subs sp) = map (tag (Some (re_key e))) (re_subs e);
  i_present : forall s k, In s (s_subs sp) -> sub_key s = Some k -> d_mem (s_dict sp) k = true
}.

Lemma inv17_init : Inv17 r_init s_init.
Proof. constructor; simpl; auto; try constructor; intros; try contradiction. Qed.

Lemma live_all : forall r, forallb is_live (r_ents r) = true -> live r = r_ents r.
Proof. intros. unfold live. apply filter_all_true; auto. Qed.

Lemma is_live_in : forall r e, forallb is_live (r_ents r) = true -> In e (r_ents r) -> is_live e = true.
Proof. intros. eapply forallb_forall in H; eauto. Qed.

Lemma r_notify_spec : forall r sp e ev old new,
  Inv17 r sp -> In e (r_ents r) ->
  notify_spec (s_subs sp) ev (re_key e) old new = notify_node (re_subs e) ev (re_key e) old new ++ notify_global (r_subs r) ev (re_key e) old new.
Proof.
  intros. unfold notify_spec. erewrite notify_key_subs_eq by (apply (i_ksubs _ _ H); auto).
  erewrite notify_global_subs_eq by (apply (i_gsubs _ _ H)). reflexivity.
Qed.

Lemma targets_none_absent : forall r sp k, Inv17 r sp -> d_get (s_dict sp) k = None -> filter (targets k) (s_subs sp) = [].
Proof.
  intros. destruct (filter (targets k) (s_subs sp)) eqn:F; auto.
  assert (In s (filter (targets k) (s_subs sp))) by (rewrite F; left; auto).
  apply filter_In in H1. destruct H1. unfold targets in H2. destruct (sub_key s) eqn:K; simpl in H2; try discriminate.
  apply key_eqb_eq in H2. subst. eapply (i_present _ _ H) in H1; eauto. unfold d_mem in H1. rewrite H0 in H1. discriminate.
Qed.

Lemma targets_other : forall k k' (s : sub), k <> k' -> targets k s = true -> targets k' s = false.
Proof.
  unfold targets. intros. destruct (sub_key s); simpl in *; try discriminate. apply key_eqb_eq in H0. subst. apply key_eqb_neq. auto.
Qed.

Ltac rcs rc := destruct rc as [[[e1 e2] e3] e4].

(* Put *)
Lemma step17_put : forall before rc r sp k x, Inv17 r sp -> r_alive r = true ->
  let '(r', o, ns) := a_step before rc r (Put k x) in
  let '(sp', o', ns') := spec_step (fl_of rc r) sp (Put k x) in
  o = o' /\ ns = ns' /\ Inv17 r' sp'.
Proof.
  intros. rcs rc. unfold a_step, spec_step. rewrite <- (i_alive _ _ H), H0. simpl.
  unfold a_put. rewrite (i_dict _ _ H k).
  destruct (find_live (r_ents r) k) as [e|] eqn:F; simpl.
  - apply find_live_some in F. destruct F as [F1 [F2 F3]]. subst k.
    split; auto. split.
    { unfold r_notify. simpl. rewrite (r_notify_spec r sp e); auto. }
    set (e' := {| re_id := re_id e; re_key := re_key e; re_val := x; re_removed := false; re_subs := re_subs e |}).
    assert (FU : forall k', find_live (upd_entry (r_ents r) (re_id e) (fun _ => e')) k' =
                            if key_eqb (re_key e) k' then Some e' else find_live (r_ents r) k').
    { intros. apply (find_live_upd (r_ents r) e (fun _ => e')); auto. apply (i_idnd _ _ H). apply (i_keynd _ _ H). }
    constructor; simpl; auto.
    + apply (i_iters _ _ H).
    + apply forallb_forall. intros y Hy. apply in_upd_entry in Hy. destruct Hy as [[Hy _]|[y' [_ [_ Hy]]]].
      eapply is_live_in; eauto. apply (i_live _ _ H). subst; auto.
    + intros y Hy. apply in_upd_entry in Hy. destruct Hy as [[Hy _]|[y' [Hy1 [Hy2 Hy]]]]. apply (i_ids _ _ H); auto.
      subst y. simpl. apply (i_ids _ _ H); auto.
    + rewrite upd_entry_ids; auto. apply (i_idnd _ _ H).
    + rewrite upd_entry_keys_in. apply (i_keynd _ _ H). intros y Hy1 Hy2.
      assert (y = e) by (eapply nodup_id_eq; eauto; apply (i_idnd _ _ H)). subst; auto.
    + intros k'. rewrite d_get_replace, FU. rewrite (i_dict _ _ H (re_key e)).
      destruct (key_eqb (re_key e) k') eqn:E; auto.
      * assert (find_live (r_ents r) (re_key e) = Some e).
        { generalize (find_live_upd (r_ents r) e (fun y => y) (re_key e) (i_idnd _ _ H) (i_keynd _ _ H) F1 F3 F3 eq_refl).
          rewrite key_eqb_refl. intro Q. rewrite <- Q. f_equal. unfold upd_entry. clear. induction (r_ents r); simpl; auto.
          rewrite <- IHl. destruct (Nat.eqb (re_id a) (re_id e)); auto. }
        rewrite H1. simpl. auto.
      * apply (i_dict _ _ H).
    + rewrite d_replace_keys. apply (i_dnd _ _ H). unfold d_mem. rewrite (i_dict _ _ H).
      destruct (find_live (r_ents r) (re_key e)) eqn:Q; auto. exfalso. eapply find_live_none in Q; eauto.
    + rewrite d_replace_length, upd_entry_length. apply (i_count _ _ H).
    + apply (i_gsubs _ _ H).
    + intros y Hy. apply in_upd_entry in Hy. destruct Hy as [[Hy _]|[y' [Hy1 [Hy2 Hy]]]]. apply (i_ksubs _ _ H); auto.
      subst y. simpl. apply (i_ksubs _ _ H); auto.
    + intros s k0 Hs Hk. generalize (i_present _ _ H s k0 Hs Hk). unfold d_mem. rewrite d_get_replace.
      destruct (key_eqb (re_key e) k0) eqn:E; auto. apply key_eqb_eq in E. subst. intro Q.
      destruct (d_get (s_dict sp) (re_key e)); auto.
  - split; auto. split.
    { unfold r_notify, notify_spec. simpl.
      assert (Q : d_get (s_dict sp) k = None). { rewrite (i_dict _ _ H). rewrite F. auto. }
      rewrite (notify_key_subs_eq _ _ _ _ _ []). 2:{ rewrite (targets_none_absent r sp); auto. }
      erewrite notify_global_subs_eq by (apply (i_gsubs _ _ H)). reflexivity. }
    set (e := {| re_id := r_next r; re_key := k; re_val := x; re_removed := false; re_subs := [] |}).
    assert (NK : forall y, In y (r_ents r) -> re_key y <> re_key e).
    { intros. simpl. eapply find_live_none; eauto. eapply is_live_in; eauto. apply (i_live _ _ H). }
    assert (Q : d_get (s_dict sp) k = None). { rewrite (i_dict _ _ H). rewrite F. auto. }
    constructor; simpl; auto.
    + apply (i_iters _ _ H).
    + apply forallb_ins_before; auto. apply (i_live _ _ H).
    + intros y Hy. apply in_ins_before in Hy. destruct Hy. subst; simpl; lia. apply (i_ids _ _ H) in H1. lia.
    + apply nodup_map_ins_before. 2: apply (i_idnd _ _ H). simpl. intro Hy. apply in_map_iff in Hy. destruct Hy as [y [Hy1 Hy2]].
      apply (i_ids _ _ H) in Hy2. lia.
    + apply nodup_map_ins_before. 2: apply (i_keynd _ _ H). intro Hy. apply in_map_iff in Hy. destruct Hy as [y [Hy1 Hy2]].
      apply NK in Hy2. auto.
    + intros k'. rewrite d_get_app_new. rewrite find_live_ins_before; auto. simpl. rewrite (i_dict _ _ H k').
      destruct (key_eqb k k') eqn:E.
      * apply key_eqb_eq in E. subst. rewrite F. auto.
      * destruct (find_live (r_ents r) k'); auto.
    + rewrite map_app. simpl. apply NoDup_app_intro_single. apply (i_dnd _ _ H). apply d_get_none_notin; auto.
    + rewrite app_length, length_ins_before. simpl. rewrite (i_count _ _ H). lia.
    + apply (i_gsubs _ _ H).
    + intros y Hy. apply in_ins_before in Hy. destruct Hy. subst. simpl. apply (targets_none_absent r sp); auto. apply (i_ksubs _ _ H); auto.
    + intros s k0 Hs Hk. generalize (i_present _ _ H s k0 Hs Hk). unfold d_mem. rewrite d_get_app_new. destruct (d_get (s_dict sp) k0); auto.
Qed.

(* Rm *)
Lemma step17_rm : forall before rc r sp k, Inv17 r sp -> r_alive r = true ->
  let '(r', o, ns) := a_step before rc r (Rm k) in
  let '(sp', o', ns') := spec_step (fl_of rc r) sp (Rm k) in
  o = o' /\ ns = ns' /\ Inv17 r' sp'.
Proof.
  intros. rcs rc. unfold a_step, spec_step. rewrite <- (i_alive _ _ H), H0. simpl.
  unfold a_rm. rewrite (i_dict _ _ H k).
  destruct (find_live (r_ents r) k) as [e|] eqn:F; simpl; auto.
  rewrite (i_iters _ _ H). simpl.
  apply find_live_some in F. destruct F as [F1 [F2 F3]]. subst k.
  split; auto. split.
  { unfold r_notify. rewrite (r_notify_spec r sp e); auto. }
  assert (FD : forall k', find_live (del_entry (r_ents r) (re_id e)) k' =
                          if key_eqb (re_key e) k' then None else find_live (r_ents r) k').
  { intros. apply find_live_del; auto. apply (i_idnd _ _ H). apply (i_keynd _ _ H). }
  assert (FE : find_live (r_ents r) (re_key e) = Some e).
  { generalize (find_live_upd (r_ents r) e (fun y => y) (re_key e) (i_idnd _ _ H) (i_keynd _ _ H) F1 F3 F3 eq_refl).
    rewrite key_eqb_refl. intro Q. rewrite <- Q. f_equal. unfold upd_entry. clear. induction (r_ents r); simpl; auto.
    rewrite <- IHl. destruct (Nat.eqb (re_id a) (re_id e)); auto. }
  constructor; simpl; auto.
  - apply (i_iters _ _ H).
  - apply forallb_forall. intros y Hy. apply del_entry_sub in Hy. destruct Hy. eapply is_live_in; eauto. apply (i_live _ _ H).
  - intros y Hy. apply del_entry_sub in Hy. destruct Hy. apply (i_ids _ _ H); auto.
  - apply nodup_map_filter. apply (i_idnd _ _ H).
  - apply nodup_map_filter. apply (i_keynd _ _ H).
  - intros k'. rewrite d_get_remove by (apply (i_dnd _ _ H)). rewrite FD. destruct (key_eqb (re_key e) k'); auto. apply (i_dict _ _ H).
  - apply d_remove_nodup. apply (i_dnd _ _ H).
  - generalize (d_remove_length (s_dict sp) (re_key e) (re_val e)). rewrite (i_dict _ _ H), FE. simpl. intro Q. specialize (Q eq_refl).
    generalize (del_entry_length (r_ents r) e (i_idnd _ _ H) F1). rewrite <- (i_count _ _ H). lia.
  - unfold drop_key_subs. rewrite filter_filter_absorb. apply (i_gsubs _ _ H).
    intros s Hs. unfold is_global in Hs. destruct (sub_key s); simpl; auto; try discriminate.
  - intros y Hy. apply del_entry_sub in Hy. destruct Hy as [Hy1 Hy2].
    assert (re_key y <> re_key e).
    { intro Q. apply Hy2. f_equal. clear - H Hy1 F1 Q. generalize (i_keynd _ _ H). induction (r_ents r); simpl in *; intros. contradiction.
      inversion H0; subst. destruct Hy1, F1; subst; auto.
      - exfalso. apply H3. rewrite Q. apply in_map; auto.
      - exfalso. apply H3. rewrite <- Q. apply in_map; auto. }
    unfold drop_key_subs. rewrite filter_filter_comm. rewrite (i_ksubs _ _ H y Hy1).
    rewrite filter_map_comm. rewrite filter_all_true; auto. apply forallb_forall. intros. simpl. apply negb_true_iff. apply key_eqb_neq. auto.
  - intros s k0 Hs Hk. unfold drop_key_subs in Hs. apply filter_In in Hs. destruct Hs as [Hs1 Hs2].
    generalize (i_present _ _ H s k0 Hs1 Hk). unfold d_mem. rewrite d_get_remove by (apply (i_dnd _ _ H)).
    rewrite Hk in Hs2. simpl in Hs2. apply negb_true_iff in Hs2. rewrite key_eqb_sym in Hs2. rewrite Hs2. auto.
Qed.

Lemma find_live_self : forall r sp e, Inv17 r sp -> In e (r_ents r) -> find_live (r_ents r) (re_key e) = Some e.
Proof.
  intros. assert (F3 : is_live e = true) by (eapply is_live_in; eauto; apply (i_live _ _ H)).
  generalize (find_live_upd (r_ents r) e (fun y => y) (re_key e) (i_idnd _ _ H) (i_keynd _ _ H) H0 F3 F3 eq_refl).
  rewrite key_eqb_refl. intro Q. rewrite <- Q. f_equal. unfold upd_entry. clear. induction (r_ents r); simpl; auto.
  rewrite <- IHl. destruct (Nat.eqb (re_id a) (re_id e)); auto.
Qed.

Lemma key_unique : forall r sp x y, Inv17 r sp -> In x (r_ents r) -> In y (r_ents r) -> re_key x = re_key y -> x = y.
Proof.
  intros. generalize (find_live_self r sp x H H0), (find_live_self r sp y H H1). rewrite H2. congruence.
Qed.

(* updating the subscription list of one entry *)
Lemma inv17_upd_subs : forall r sp e f ssubs',
  Inv17 r sp -> r_alive r = true -> In e (r_ents r) ->
  (forall y, re_id (f y) = re_id y /\ re_key (f y) = re_key y /\ re_val (f y) = re_val y /\ re_removed (f y) = re_removed y) ->
  filter is_global ssubs' = filter is_global (s_subs sp) ->
  filter (targets (re_key e)) ssubs' = map (tag (Some (re_key e))) (re_subs (f e)) ->
  (forall k, k <> re_key e -> filter (targets k) ssubs' = filter (targets k) (s_subs sp)) ->
  (forall s k, In s ssubs' -> sub_key s = Some k -> d_mem (s_dict sp) k = true) ->
  Inv17 (set_ents r (upd_entry (r_ents r) (re_id e) f)) {| s_dict := s_dict sp; s_subs := ssubs'; s_alive := true |}.
Proof.
  intros r sp e f ssubs' H Ha He Hf Hg Hk Ho Hp.
  assert (F3 : is_live e = true) by (eapply is_live_in; eauto; apply (i_live _ _ H)).
  assert (Fl : forall y, is_live (f y) = is_live y). { intros. unfold is_live. destruct (Hf y) as [_ [_ [_ Q]]]. rewrite Q. auto. }
  constructor; simpl; auto.
  - apply (i_iters _ _ H).
  - apply forallb_forall. intros y Hy. apply in_upd_entry in Hy. destruct Hy as [[Hy _]|[y' [Hy1 [_ Hy]]]].
    eapply is_live_in; eauto. apply (i_live _ _ H). subst. rewrite Fl. eapply is_live_in; eauto. apply (i_live _ _ H).
  - intros y Hy. apply in_upd_entry in Hy. destruct Hy as [[Hy _]|[y' [Hy1 [_ Hy]]]]. apply (i_ids _ _ H); auto.
    subst. destruct (Hf y') as [Q _]. rewrite Q. apply (i_ids _ _ H); auto.
  - rewrite upd_entry_f_ids; auto. apply (i_idnd _ _ H). intros. apply Hf.
  - rewrite upd_entry_f_keys; auto. apply (i_keynd _ _ H). intros. apply Hf.
  - intros k'. rewrite (find_live_upd (r_ents r) e f); auto. 2: apply (i_idnd _ _ H). 2: apply (i_keynd _ _ H). 2: rewrite Fl; auto. 2: apply Hf.
    rewrite (i_dict _ _ H). destruct (key_eqb (re_key e) k') eqn:E; auto. apply key_eqb_eq in E. subst.
    rewrite (find_live_self r sp e); auto. simpl. f_equal. symmetry. apply Hf.
  - apply (i_dnd _ _ H).
  - rewrite upd_entry_length. apply (i_count _ _ H).
  - rewrite Hg. apply (i_gsubs _ _ H).
  - intros y Hy. apply in_upd_entry in Hy. destruct Hy as [[Hy Hy']|[y' [Hy1 [Hy2 Hy]]]].
    + assert (re_key y <> re_key e). { intro Q. apply Hy'. f_equal. eapply key_unique; eauto. }
      rewrite Ho; auto. apply (i_ksubs _ _ H); auto.
    + assert (y' = e) by (eapply nodup_id_eq; eauto; apply (i_idnd _ _ H)). subst.
      destruct (Hf e) as [_ [Q _]]. rewrite Q. auto.
Qed.

Lemma dead_no_entries : forall r sp, Inv17 r sp -> True.
Proof. auto. Qed.

Lemma inv17_upd_gsubs : forall r sp gs' ssubs',
  Inv17 r sp -> r_alive r = true ->
  filter is_global ssubs' = map (tag None) gs' ->
  (forall k, filter (targets k) ssubs' = filter (targets k) (s_subs sp)) ->
  (forall s k, In s ssubs' -> sub_key s = Some k -> d_mem (s_dict sp) k = true) ->
  Inv17 (set_rsubs r gs') {| s_dict := s_dict sp; s_subs := ssubs'; s_alive := true |}.
Proof.
  intros r sp gs' ssubs' H Ha Hg Ho Hp. constructor; simpl; auto; try apply H.
  intros. rewrite Ho. apply (i_ksubs _ _ H); auto.
Qed.

Lemma targets_global_false : forall k s, is_global s = true -> targets k s = false.
Proof. unfold is_global, targets. intros. destruct (sub_key s); simpl; auto. discriminate. Qed.

Lemma step17_notify_add : forall before rc r sp k fn ev ud, Inv17 r sp -> r_alive r = true ->
  let '(r', o, ns) := a_step before rc r (NotifyAdd k fn ev ud) in
  let '(sp', o', ns') := spec_step (fl_of rc r) sp (NotifyAdd k fn ev ud) in
  o = o' /\ ns = ns' /\ Inv17 r' sp'.
Proof.
  intros. rcs rc. unfold a_step, spec_step. rewrite <- (i_alive _ _ H), H0. simpl.
  unfold a_notify_add. destruct k as [kk|].
  - destruct (has_bit ev EV_FREE) eqn:FB; simpl; auto.
    unfold d_mem. rewrite (i_dict _ _ H kk).
    destruct (find_live (r_ents r) kk) as [e|] eqn:F; simpl; auto.
    apply find_live_some in F. destruct F as [F1 [F2 F3]]. subst kk.
    rewrite (sub_conflict_eq (s_subs sp) (Some (re_key e)) fn ev ud (re_subs e)) by (apply (i_ksubs _ _ H); auto).
    destruct (nsub_conflict (re_subs e) fn ev ud); simpl; auto.
    split; auto. split; auto.
    unfold sub_insert, nsub_insert. simpl. rewrite FB.
    apply inv17_upd_subs; auto.
    + simpl. unfold targets at 1. simpl. rewrite key_eqb_refl. simpl. f_equal. apply (i_ksubs _ _ H); auto.
    + intros. simpl. unfold targets at 1. simpl. replace (key_eqb (re_key e) k) with false; auto.
      symmetry. apply key_eqb_neq. auto.
    + intros s k Hs Hk. destruct Hs as [Hs|Hs]. subst s. simpl in Hk. inversion Hk; subst. unfold d_mem. rewrite (i_dict _ _ H).
      rewrite (find_live_self r sp e); auto. apply (i_present _ _ H s k); auto.
  - rewrite (sub_conflict_eq (s_subs sp) None fn ev ud (r_subs r)).
    2:{ rewrite <- (i_gsubs _ _ H). apply filter_ext_in'. intros. unfold is_global. destruct (sub_key x); auto. }
    destruct (nsub_conflict (r_subs r) fn ev ud); simpl; auto.
    split; auto. split; auto.
    unfold sub_insert, nsub_insert. simpl.
    destruct (has_bit ev EV_FREE).
    + apply inv17_upd_gsubs; auto.
      * rewrite filter_app. simpl. rewrite (i_gsubs _ _ H). rewrite map_app. reflexivity.
      * intros. rewrite filter_app. simpl. rewrite app_nil_r. auto.
      * intros s k Hs Hk. apply in_app_or in Hs. destruct Hs as [Hs|[Hs|[]]]. apply (i_present _ _ H s k); auto. subst s. discriminate.
    + apply inv17_upd_gsubs; auto.
      * simpl. rewrite (i_gsubs _ _ H). reflexivity.
      * intros s k Hs Hk. destruct Hs as [Hs|Hs]. subst s. discriminate. apply (i_present _ _ H s k); auto.
Qed.

Lemma filter_neg_match_targets : forall k fn ev ud subs l,
  filter (targets k) subs = map (tag (Some k)) l ->
  filter (targets k) (filter (fun x => negb (sub_match (Some k) fn ev ud x)) subs) =
  map (tag (Some k)) (filter (fun f => negb (nsub_match fn ev ud f)) l).
Proof.
  intros. rewrite filter_filter_comm. rewrite H. rewrite filter_map_comm. f_equal. apply filter_ext_in'. intros.
  unfold sub_match, nsub_match, tag. simpl. rewrite key_eqb_refl. simpl. reflexivity.
Qed.

Lemma step17_notify_del : forall before rc r sp k fn ev ud, Inv17 r sp -> r_alive r = true ->
  let '(r', o, ns) := a_step before rc r (NotifyDel k fn ev ud) in
  let '(sp', o', ns') := spec_step (fl_of rc r) sp (NotifyDel k fn ev ud) in
  o = o' /\ ns = ns' /\ Inv17 r' sp'.
Proof.
  intros. rcs rc. unfold a_step, spec_step. rewrite <- (i_alive _ _ H), H0. simpl.
  unfold a_notify_del. destruct k as [kk|].
  - unfold d_mem. rewrite (i_dict _ _ H kk).
    destruct (find_live (r_ents r) kk) as [e|] eqn:F; simpl; auto.
    apply find_live_some in F. destruct F as [F1 [F2 F3]]. subst kk.
    rewrite (sub_match_exists_eq (s_subs sp) (Some (re_key e)) fn ev ud (re_subs e)) by (apply (i_ksubs _ _ H); auto).
    destruct (existsb (nsub_match fn ev ud) (re_subs e)); simpl; auto.
    split; auto. split; auto.
    apply inv17_upd_subs; auto.
    + apply filter_filter_absorb. intros s Hs. unfold sub_match. unfold is_global in Hs. destruct (sub_key s); simpl; auto; discriminate.
    + apply filter_neg_match_targets. apply (i_ksubs _ _ H); auto.
    + intros. apply filter_filter_absorb. intros s Hs. unfold sub_match. unfold targets in Hs. destruct (sub_key s); simpl in *; try discriminate.
      apply key_eqb_eq in Hs. subst. replace (key_eqb k (re_key e)) with false; auto. symmetry. apply key_eqb_neq. auto.
    + intros s k Hs Hk. apply filter_In in Hs. destruct Hs. apply (i_present _ _ H s k); auto.
  - rewrite (sub_match_exists_eq (s_subs sp) None fn ev ud (r_subs r)).
    2:{ rewrite <- (i_gsubs _ _ H). apply filter_ext_in'. intros. unfold is_global. destruct (sub_key x); auto. }
    destruct (existsb (nsub_match fn ev ud) (r_subs r)); simpl; auto.
    split; auto. split; auto.
    apply inv17_upd_gsubs; auto.
    + rewrite filter_filter_comm. rewrite (i_gsubs _ _ H). rewrite filter_map_comm. f_equal.
    + intros. apply filter_filter_absorb. intros s Hs. unfold sub_match. unfold targets in Hs. destruct (sub_key s); simpl in *; auto; discriminate.
    + intros s k Hs Hk. apply filter_In in Hs. destruct Hs. apply (i_present _ _ H s k); auto.
Qed.

Lemma step17_destroy : forall before rc r sp, Inv17 r sp -> r_alive r = true ->
  let '(r', o, ns) := a_step before rc r Destroy in
  let '(sp', o', ns') := spec_step (fl_of rc r) sp Destroy in
  o = o' /\ ns = ns' /\ Inv17 r' sp'.
Proof.
  intros. rcs rc. unfold a_step, spec_step. rewrite <- (i_alive _ _ H), H0. simpl.
  split; auto. split.
  - unfold live_kv. rewrite flat_map_map. apply flat_map_ext'. intros e He. simpl.
    unfold live in He. apply filter_In in He. destruct He as [He _]. unfold r_notify. rewrite (r_notify_spec r sp e); auto.
  - constructor; simpl; auto; try constructor; intros; try contradiction.
Qed.

(* one step of any operation that is not an iterator operation *)
Theorem step17 : forall before rc r sp o, Inv17 r sp -> is_iter_op o = false ->
  let '(r', x, ns) := a_step before rc r o in
  let '(sp', x', ns') := spec_step (fl_of rc r) sp o in
  x = x' /\ ns = ns' /\ Inv17 r' sp'.
Proof.
  intros. destruct (r_alive r) eqn:A.
  - destruct o; try discriminate.
    + apply step17_put; auto.
    + rcs rc. unfold a_step, spec_step. rewrite <- (i_alive _ _ H), A. simpl. unfold a_get. rewrite (i_dict _ _ H).
      destruct (find_live (r_ents r) k); simpl; auto.
    + apply step17_rm; auto.
    + rcs rc. unfold a_step, spec_step. rewrite <- (i_alive _ _ H), A. simpl. unfold d_count. rewrite (i_count _ _ H).
      rewrite live_all by (apply (i_live _ _ H)). auto.
    + rcs rc. unfold a_step, spec_step. rewrite <- (i_alive _ _ H), A. simpl. auto.
    + apply step17_notify_add; auto.
    + apply step17_notify_del; auto.
    + apply step17_destroy; auto.
  - rcs rc. unfold a_step, spec_step. rewrite <- (i_alive _ _ H), A. simpl. auto.
Qed.

(* whole histories: layer A and the specification run in lock step *)
Fixpoint lockstep (before : key -> key -> bool) (rc : Z * Z * Z * Z) (r : rstate) (sp : sstate) (ops : list op) : Prop :=
  match ops with
  | [] => True
  | o :: t =>
    let '(r', x, ns) := a_step before rc r o in
    let '(sp', x', ns') := spec_step (fl_of rc r) sp o in
    x = x' /\ ns = ns' /\ lockstep before rc r' sp' t
  end.

Theorem ref_c17_from : forall before rc ops r sp, Inv17 r sp -> no_iter_ops ops = true -> lockstep before rc r sp ops.
Proof.
  induction ops; simpl; intros; auto. apply andb_true_iff in H0. destruct H0 as [H0 H1]. apply negb_true_iff in H0.
  generalize (step17 before rc r sp a H H0).
  destruct (a_step before rc r a) as [[r' x] ns]. destruct (spec_step (fl_of rc r) sp a) as [[sp' x'] ns'].
  intros [Q1 [Q2 Q3]]. split; auto.
Qed.

Theorem ref_c17 : forall before rc ops, no_iter_ops ops = true -> lockstep before rc r_init s_init ops.
Proof. intros. apply ref_c17_from; auto. apply inv17_init. Qed.

(* the meaning of the traversal order used above: what a complete traversal yields is exactly the dictionary,
   every present key once *)
Theorem ref_c17_traversal : forall r sp, Inv17 r sp ->
  NoDup (map fst (live_kv r)) /\ forall k v, In (k, v) (live_kv r) <-> d_get (s_dict sp) k = Some v.
Proof.
  intros. unfold live_kv. rewrite live_all by (apply (i_live _ _ H)). split.
  - rewrite map_map. simpl. apply (i_keynd _ _ H).
  - intros. rewrite (i_dict _ _ H). split; intro Q.
    + apply in_map_iff in Q. destruct Q as [e [Q1 Q2]]. inversion Q1; subst. rewrite (find_live_self r sp e); auto.
    + destruct (find_live (r_ents r) k) eqn:F; simpl in Q; try discriminate. inversion Q; subst.
      apply find_live_some in F. destruct F as [F1 [F2 _]]. subst. apply in_map_iff. exists r0. auto.
Qed.

Fixpoint inv17_after (before : key -> key -> bool) (rc : Z * Z * Z * Z) (r : rstate) (sp : sstate) (ops : list op) : rstate * sstate :=
  match ops with
  | [] => (r, sp)
  | o :: t => inv17_after before rc (fst (fst (a_step before rc r o))) (fst (fst (spec_step (fl_of rc r) sp o))) t
  end.

Theorem ref_c17_reachable : forall before rc ops r sp, Inv17 r sp -> no_iter_ops ops = true ->
  Inv17 (fst (inv17_after before rc r sp ops)) (snd (inv17_after before rc r sp ops)).
Proof.
  induction ops; simpl; intros; auto. apply andb_true_iff in H0. destruct H0 as [H0 H1]. apply negb_true_iff in H0.
  generalize (step17 before rc r sp a H H0).
  destruct (a_step before rc r a) as [[r' x] ns]. destruct (spec_step (fl_of rc r) sp a) as [[sp' x'] ns'].
  intros [Q1 [Q2 Q3]]. simpl. apply IHops; auto.
Qed.

(* a concrete history used as non-vacuity example in Properties_C17.v *)
Definition c17_example_ops : list op :=
  [NotifyAdd None 0 17 7; Put [97;98] 1; Put [97] 2; NotifyAdd (Some [97]) 1 3 0; Put [97] 3; Foreach 1; Rm [97;98];
   Rm [97;98]; Get [97]; Count; Destroy]%N.
