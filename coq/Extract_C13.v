(* Extraction of the C13 model.  ExtrOcamlBasic only; Z, positive, nat stay inductive; no Extract Constant. *)
From Coq Require Import ExtrOcamlBasic.
Require Import Verif.SerModel Verif.LogFmtModel.
Extraction "model_C13.ml" target_format format_static MODIFIED_FORMAT_SIZE ctl_accepts_line_len line_spec line_guard fres_text cstr.
