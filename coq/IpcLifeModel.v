(* C04 - life cycle of server-side IPC connections (lib/ipcs.c, lib/ipc_setup.c, lib/ipc_shm.c, lib/ipc_socket.c).
   MODEL ONLY (no proofs).  Connections and the service are heap objects with an allocation status; every access
   the C code makes goes through [chk] / [chks], which yield the error state UseAfterFree / ServiceUseAfterFree.
   Application callbacks are data: one FIFO of behaviour entries per callback kind, interpreted identically by
   harness/h_ipclife.c.  [fixed = false] transcribes the code as found, [fixed = true] the code with
   fixes/C04-connection-lifecycle.patch.  [shm] selects the transport. *)
Require Import ZArith List Bool Lia.
Import ListNotations.
Open Scope Z_scope.

Inductive cstate := INACTIVE | ACTIVE | ESTABLISHED | SHUTTING_DOWN.      (* enum qb_ipcs_connection_state *)
(* ghost: how far the callback sequence of a connection has got (the monitor automaton of the property) *)
Inductive phase := PNone | P0 | PAcc | PCre | PRetry | PDone | PDead.
Inductive kind := KAccept | KCreated | KMsg | KClosed | KDestroyed.
Inductive target := TSelf | TConn (c : nat).
Inductive action :=
| ADisc (t : target) | ARef (t : target) | AUnref (t : target) | ASend (t : target) | AResp (t : target)
| ADestroy | ARate (rl : Z) | AIter | AKill.
Record behav := mkBeh { b_ret : Z; b_acts : list action }.

Inductive ev :=
| ECb (k : kind) (c : nat) (ret : Z)
| EAct (code : Z) (c : Z)          (* code: 1 D 2 R 3 U 4 S 5 P 6 X 7 L 8 I 9 K; c = target id or argument, -1 none *)
| ESkip (code : Z) (c : Z)
| EIt (c : nat)
| ENew (c : nat).                  (* a connection object was allocated (model-only event, not printed) *)

Inductive err :=
| UseAfterFree (c : nat) | ServiceUseAfterFree | RefUnderflow (c : nat) | ServiceRefUnderflow
| OrderViolation (k : kind) (c : nat) | DestroyedWhileHeld (c : nat) | OutOfFuel
| TransportGone (c : nat).     (* the flow-control word of a connection whose rings / control page were released *)

Record conn := mkConn {
  c_alloc : bool;          (* false = free()d (or never allocated) *)
  c_st : cstate;           (* c->state *)
  c_rc : Z;                (* c->refcount *)
  c_notified : bool;       (* c->closed_notified (only read when fixed) *)
  c_reg : bool;            (* the connection's descriptors are in the main loop's poll table *)
  c_fc : Z;                (* c->fc_enabled *)
  c_nreq : Z;              (* kernel/peer: requests queued by the client and not yet taken *)
  c_hup : bool;            (* kernel/peer: the client closed / died *)
  c_ph : phase;            (* ghost *)
  c_uref : Z               (* ghost: references the application holds *)
}.

Record world := mkW {
  conns : nat -> conn;
  next : nat;              (* ids handed out so far (allocation order) *)
  s_alloc : bool;
  s_rc : Z;                (* s->ref_count *)
  s_list : list nat;       (* s->connections, head first *)
  s_withdrawn : bool;      (* server_sock == -1 *)
  s_prio : Z;              (* 0 HIGH 1 MED 2 LOW *)
  jobs : list nat;         (* queued re-run jobs (poll_fns.job_add), oldest first *)
  slots : nat -> option nat;   (* client slot -> connection id while the client object lives *)
  behs : kind -> list behav;
  destroy_called : bool;   (* ghost: the application called qb_ipcs_destroy *)
  s_creator : bool;        (* ghost: the creator's reference (qb_ipcs_create) has not been dropped yet *)
  log : list ev            (* newest first *)
}.

Definition conn0 : conn := mkConn false INACTIVE 0 false false 0 0 false PNone 0.
Definition world0 : world :=
  mkW (fun _ => conn0) 0 true 1 [] false 1 [] (fun _ => None) (fun _ => []) false true [].

(* ---- setters *)
Definition set_conns f w := mkW f (next w) (s_alloc w) (s_rc w) (s_list w) (s_withdrawn w) (s_prio w) (jobs w) (slots w) (behs w) (destroy_called w) (s_creator w) (log w).
Definition set_next n w := mkW (conns w) n (s_alloc w) (s_rc w) (s_list w) (s_withdrawn w) (s_prio w) (jobs w) (slots w) (behs w) (destroy_called w) (s_creator w) (log w).
Definition set_svc a rc w := mkW (conns w) (next w) a rc (s_list w) (s_withdrawn w) (s_prio w) (jobs w) (slots w) (behs w) (destroy_called w) (s_creator w) (log w).
Definition set_list l w := mkW (conns w) (next w) (s_alloc w) (s_rc w) l (s_withdrawn w) (s_prio w) (jobs w) (slots w) (behs w) (destroy_called w) (s_creator w) (log w).
Definition set_withdrawn b w := mkW (conns w) (next w) (s_alloc w) (s_rc w) (s_list w) b (s_prio w) (jobs w) (slots w) (behs w) (destroy_called w) (s_creator w) (log w).
Definition set_prio p w := mkW (conns w) (next w) (s_alloc w) (s_rc w) (s_list w) (s_withdrawn w) p (jobs w) (slots w) (behs w) (destroy_called w) (s_creator w) (log w).
Definition set_jobs j w := mkW (conns w) (next w) (s_alloc w) (s_rc w) (s_list w) (s_withdrawn w) (s_prio w) j (slots w) (behs w) (destroy_called w) (s_creator w) (log w).
Definition set_slots s w := mkW (conns w) (next w) (s_alloc w) (s_rc w) (s_list w) (s_withdrawn w) (s_prio w) (jobs w) s (behs w) (destroy_called w) (s_creator w) (log w).
Definition set_behs b w := mkW (conns w) (next w) (s_alloc w) (s_rc w) (s_list w) (s_withdrawn w) (s_prio w) (jobs w) (slots w) b (destroy_called w) (s_creator w) (log w).
Definition set_destroy_called b w := mkW (conns w) (next w) (s_alloc w) (s_rc w) (s_list w) (s_withdrawn w) (s_prio w) (jobs w) (slots w) (behs w) b (s_creator w) (log w).
Definition set_creator b w := mkW (conns w) (next w) (s_alloc w) (s_rc w) (s_list w) (s_withdrawn w) (s_prio w) (jobs w) (slots w) (behs w) (destroy_called w) b (log w).
Definition set_log l w := mkW (conns w) (next w) (s_alloc w) (s_rc w) (s_list w) (s_withdrawn w) (s_prio w) (jobs w) (slots w) (behs w) (destroy_called w) (s_creator w) l.
Definition logit e w := set_log (e :: log w) w.

Definition updf {A} (f : nat -> A) (c : nat) (x : A) : nat -> A := fun i => if Nat.eqb i c then x else f i.
Definition put (c : nat) (x : conn) (w : world) : world := set_conns (updf (conns w) c x) w.

Definition w_alloc b x := mkConn b (c_st x) (c_rc x) (c_notified x) (c_reg x) (c_fc x) (c_nreq x) (c_hup x) (c_ph x) (c_uref x).
Definition w_st s x := mkConn (c_alloc x) s (c_rc x) (c_notified x) (c_reg x) (c_fc x) (c_nreq x) (c_hup x) (c_ph x) (c_uref x).
Definition w_rc r x := mkConn (c_alloc x) (c_st x) r (c_notified x) (c_reg x) (c_fc x) (c_nreq x) (c_hup x) (c_ph x) (c_uref x).
Definition w_notified b x := mkConn (c_alloc x) (c_st x) (c_rc x) b (c_reg x) (c_fc x) (c_nreq x) (c_hup x) (c_ph x) (c_uref x).
Definition w_reg b x := mkConn (c_alloc x) (c_st x) (c_rc x) (c_notified x) b (c_fc x) (c_nreq x) (c_hup x) (c_ph x) (c_uref x).
Definition w_fc v x := mkConn (c_alloc x) (c_st x) (c_rc x) (c_notified x) (c_reg x) v (c_nreq x) (c_hup x) (c_ph x) (c_uref x).
Definition w_nreq v x := mkConn (c_alloc x) (c_st x) (c_rc x) (c_notified x) (c_reg x) (c_fc x) v (c_hup x) (c_ph x) (c_uref x).
Definition w_hup b x := mkConn (c_alloc x) (c_st x) (c_rc x) (c_notified x) (c_reg x) (c_fc x) (c_nreq x) b (c_ph x) (c_uref x).
Definition w_ph p x := mkConn (c_alloc x) (c_st x) (c_rc x) (c_notified x) (c_reg x) (c_fc x) (c_nreq x) (c_hup x) p (c_uref x).
Definition w_uref v x := mkConn (c_alloc x) (c_st x) (c_rc x) (c_notified x) (c_reg x) (c_fc x) (c_nreq x) (c_hup x) (c_ph x) v.

(* ---- results *)
Inductive R := Ok (w : world) (z : Z) | Fail (e : err) (w : world).
Definition bind (r : R) (f : world -> Z -> R) : R := match r with Ok w z => f w z | Fail e w => Fail e w end.

(* every C access to *c / *s *)
Definition chk (c : nat) (w : world) (k : R) : R := if c_alloc (conns w c) then k else Fail (UseAfterFree c) w.
Definition chks (w : world) (k : R) : R := if s_alloc w then k else Fail ServiceUseAfterFree w.

Definition st_eqb (a b : cstate) : bool :=
  match a, b with INACTIVE, INACTIVE | ACTIVE, ACTIVE | ESTABLISHED, ESTABLISHED | SHUTTING_DOWN, SHUTTING_DOWN => true | _, _ => false end.

(* the callback-order automaton of the property: accept created msg* closed(<>0)* closed(0) destroyed, with the
   tail optional from any point; destroyed never while a closed re-run is owed; nothing after destroyed *)
Definition phase_step (k : kind) (ret : Z) (p : phase) : option phase :=
  match k, p with
  | KAccept, P0 => Some PAcc
  | KCreated, PAcc => Some PCre
  | KMsg, PCre => Some PCre
  | KClosed, PCre | KClosed, PRetry => Some (if ret =? 0 then PDone else PRetry)
  | KDestroyed, P0 | KDestroyed, PAcc | KDestroyed, PCre | KDestroyed, PDone => Some PDead
  | _, _ => None
  end.

Definition succ_of (c : nat) : list nat -> option nat :=
  fix go l := match l with
              | a :: t => if Nat.eqb a c then (match t with b :: _ => Some b | [] => None end) else go t
              | [] => None
              end.
Definition remove_id (c : nat) (l : list nat) : list nat := filter (fun x => negb (Nat.eqb x c)) l.
Definition mem_id (c : nat) (l : list nat) : bool := existsb (Nat.eqb c) l.

Section Lib.
  Variable shm : bool.
  Variable fixed : bool.
  Variable cb : kind -> nat -> world -> R.       (* invoke the application's callback; result = its return value *)

  (* qb_ipcs_unref *)
  Definition unref_s (w : world) : R :=
    chks w (if s_rc w <? 1 then Fail ServiceRefUnderflow w
            else if s_rc w - 1 =? 0 then Ok (set_svc false 0 w) 0 else Ok (set_svc true (s_rc w - 1) w) 0).

  (* s->funcs.disconnect: qb_ipcs_shm_disconnect / qb_ipcs_us_disconnect (poll entries; rings/files not modelled) *)
  Definition funcs_disconnect (c : nat) (w : world) : world :=
    let x := conns w c in
    match c_st x with
    | ESTABLISHED | ACTIVE => put c (w_reg false x) w
    | _ => w
    end.

  (* qb_ipcs_connection_ref *)
  Definition conn_ref (c : nat) (w : world) : R :=
    chk c w (let x := conns w c in Ok (put c (w_rc (c_rc x + 1) x) w) 0).

  (* qb_ipcs_connection_unref *)
  Definition conn_unref (c : nat) (w : world) : R :=
    chk c w (
      let x := conns w c in
      if c_rc x <? 1 then Fail (RefUnderflow c) w else
      let w1 := put c (w_rc (c_rc x - 1) x) w in
      if c_rc x - 1 =? 0 then
        chks w1 (                                        (* qb_list_del; c->service->serv_fns *)
        let w2 := set_list (remove_id c (s_list w1)) w1 in
        bind (cb KDestroyed c w2) (fun w3 _ =>
        chk c w3 (chks w3 (                              (* c->service->funcs.disconnect(c) *)
        let w4 := funcs_disconnect c w3 in
        bind (unref_s w4) (fun w5 _ =>                   (* qb_ipcs_unref(c->service) *)
        chk c w5 (Ok (put c (w_alloc false (conns w5 c)) w5) 0))))))   (* free(c->receive_buf); free(c) *)
      else Ok w1 0).

  (* qb_ipcs_disconnect, the SHUTTING_DOWN block *)
  Definition disconnect_sd (c : nat) (w : world) : R :=
    chk c w (
      let x := conns w c in
      if fixed && c_notified x then Ok w 0 else
      let w1 := if fixed then put c (w_notified true x) w else w in
      chks w1 (                                          (* c->service->serv_fns.connection_closed *)
      bind (cb KClosed c w1) (fun w2 r =>
      if r =? 0 then chk c w2 (conn_unref c w2)               (* remove_tempdir(c->description); conn_unref *)
      else chk c w2 (chks w2 (                           (* c->service->poll_fns.job_add *)
           let w3 := set_jobs (jobs w2 ++ [c]) w2 in
           chk c w3 (Ok w3 0)))))).                      (* remove_tempdir(c->description) *)

  (* qb_ipcs_disconnect *)
  Definition disconnect (c : nat) (w : world) : R :=
    chk c w (
      match c_st (conns w c) with
      | ACTIVE => chks w (let w1 := funcs_disconnect c w in
                          let w2 := put c (w_st INACTIVE (conns w1 c)) w1 in conn_unref c w2)
      | ESTABLISHED => chks w (let w1 := funcs_disconnect c w in
                               let w2 := put c (w_st SHUTTING_DOWN (conns w1 c)) w1 in disconnect_sd c w2)
      | SHUTTING_DOWN => disconnect_sd c w
      | INACTIVE => Ok w 0
      end).

  (* the queued re-run job: qb_ipcs_disconnect itself (as found) / _rerun_disconnect_job (fixed) *)
  Definition job_run (c : nat) (w : world) : R :=
    if fixed then chk c w (disconnect c (put c (w_notified false (conns w c)) w))
    else disconnect c w.

  (* qb_ipcs_event_send / qb_ipcs_response_send: temporary reference around the transport send *)
  Definition srv_send (c : nat) (w : world) : R :=
    chk c w (bind (conn_ref c w) (fun w1 _ => chk c w1 (chks w1 (conn_unref c w1)))).

  (* _request_q_len_get *)
  Definition q_len (c : nat) (w : world) : Z :=
    let q := c_nreq (conns w c) in
    if q <=? 0 then q else
    if s_prio w =? 1 then Z.min q 5 else if s_prio w =? 2 then 1 else Z.min q 50.

  (* the do-while of qb_ipcs_dispatch_connection_request with _process_request_ inlined.
     result z: 1 = leave through dispatch_cleanup with res = -ESHUTDOWN, 0 = loop ended normally *)
  Fixpoint req_loop (n : nat) (c : nat) (avail : Z) (w : world) : R :=
    match n with
    | O => Ok w 0
    | S n' =>
      chk c w (chks w (                                   (* c->service->funcs.peek / recv *)
      let x := conns w c in
      if c_nreq x <=? 0 then Ok w 0                       (* -EAGAIN / -ETIMEDOUT: loop ends, res mapped to 0 *)
      else
        let w1 := put c (w_nreq (c_nreq x - 1) x) w in
        bind (cb KMsg c w1) (fun w2 r =>
        chk c w2 (chks w2 (                               (* c->service->funcs.reclaim; c->state / c->fc_enabled *)
        let x2 := conns w2 c in
        if fixed && negb (st_eqb (c_st x2) ESTABLISHED) then Ok w2 1
        else if r <? 0 then Ok w2 0                       (* -ENOBUFS ends the loop *)
        else if (avail - 1 >? 0) && (c_fc x2 =? 0) then req_loop n' c (avail - 1) w2
        else Ok w2 0)))))
    end.

  (* qb_ipcs_dispatch_connection_request(fd, revents, c) *)
  Definition dispatch (c : nat) (hup : bool) (w : world) : R :=
    chk c w (
      bind (if fixed then conn_ref c w else Ok w 0) (fun w0 _ =>
      let finish (w : world) (res : Z) : R :=
          bind (if res =? 0 then Ok w 0 else disconnect c w) (fun w' _ =>
          if fixed then conn_unref c w' else Ok w' 0) in
      if hup then finish w0 1
      else chk c w0 (
        if negb (c_fc (conns w0 c) =? 0) then finish w0 0
        else chks w0 (
          let avail := q_len c w0 in
          if shm && (avail =? 0) then finish w0 0
          else bind (req_loop 51 c avail w0) (fun w1 z =>
               if z =? 1 then finish w1 1
               else chk c w1 (finish w1 0)))))).            (* qb_ipc_us_recv(&c->setup, ...) drains the bytes *)

  (* _sock_connection_liveliness *)
  Definition liveliness (c : nat) (w : world) : R := chk c w (disconnect c w).

  (* qb_ipcs_connection_first_get: z = id or -1 *)
  Definition first_get (w : world) : R :=
    chks w (match s_list w with
            | [] => Ok w (-1)
            | c :: _ => bind (conn_ref c w) (fun w1 _ => Ok w1 (Z.of_nat c))
            end).
  (* qb_ipcs_connection_next_get *)
  Definition next_get (c : nat) (w : world) : R :=
    chk c w (chks w (match succ_of c (s_list w) with
                     | None => Ok w (-1)
                     | Some n => bind (conn_ref n w) (fun w1 _ => Ok w1 (Z.of_nat n))
                     end)).

  (* the reference-holding walk: application iteration (lg = true), and qb_ipcs_destroy when fixed *)
  Fixpoint walk (lg disc : bool) (fuel : nat) (c : nat) (w : world) : R :=
    match fuel with
    | O => Fail OutOfFuel w
    | S f =>
      let w0 := if lg then logit (EIt c) w else w in
      bind (if disc then disconnect c w0 else Ok w0 0) (fun w1 _ =>
      bind (next_get c w1) (fun w2 n =>
      bind (conn_unref c w2) (fun w3 _ =>
      if n <? 0 then Ok w3 0 else walk lg disc f (Z.to_nat n) w3)))
    end.
  Definition iterate (lg disc : bool) (w : world) : R :=
    bind (first_get w) (fun w1 z => if z <? 0 then Ok w1 0 else walk lg disc (S (Z.to_nat z)) (Z.to_nat z) w1).

  (* qb_ipcs_destroy as found: qb_list_for_each_safe with a saved next pointer *)
  Fixpoint walk_orig (fuel : nat) (pos : nat) (w : world) : R :=
    match fuel with
    | O => Fail OutOfFuel w
    | S f =>
      chk pos w (                                           (* n = pos->next *)
      let n := succ_of pos (s_list w) in
      bind (disconnect pos w) (fun w1 _ =>
      match n with None => Ok w1 0 | Some n' => walk_orig f n' w1 end))
    end.

  Definition destroy (w : world) : R :=
    chks w (
    bind (if fixed then iterate false true w
          else match s_list w with [] => Ok w 0 | c :: _ => walk_orig (S (length (s_list w))) c w end) (fun w1 _ =>
    chks w1 (                                               (* qb_ipcs_us_withdraw(s) *)
    unref_s (set_creator false (set_withdrawn true w1))))).  (* "service destroyed, remove initial alloc ref" *)

  (* qb_ipcs_request_rate_limit (+ qb_ipcs_flowcontrol_set, _modify_dispatch_descriptor_) *)
  Definition rate_one (newfc : Z) (changed : bool) (c : nat) (w : world) : R :=
    chk c w (
    let live := st_eqb (c_st (conns w c)) ACTIVE || st_eqb (c_st (conns w c)) ESTABLISHED in
    if fixed && negb live then Ok w 0 else                 (* fixed: skip disconnected connections *)
    if st_eqb (c_st (conns w c)) INACTIVE && negb (c_fc (conns w c) =? newfc) then Fail (TransportGone c) w else
    bind (conn_ref c w) (fun w1 _ =>
    chk c w1 (
    let x := conns w1 c in
    let w2 := if c_fc x =? newfc then w1 else put c (w_fc newfc x) w1 in
    (if changed then chk c w2 (chks w2 (conn_unref c w2)) else conn_unref c w2)))).
  Fixpoint rate_loop (newfc : Z) (changed : bool) (l : list nat) (w : world) : R :=
    match l with
    | [] => Ok w 0
    | c :: t => bind (rate_one newfc changed c w) (fun w1 _ => rate_loop newfc changed t w1)
    end.
  Definition rate_limit (rl : Z) (w : world) : R :=
    chks w (
    let oldp := s_prio w in
    let newp := if rl =? 0 then 0 else if (rl =? 2) || (rl =? 3) || (rl =? 4) then 2 else 1 in
    let newfc := if rl =? 3 then 1 else if rl =? 4 then 2 else 0 in
    let w1 := set_prio newp w in
    rate_loop newfc (negb (oldp =? newp)) (s_list w1) w1).

  (* ---- the application *)
  Definition allowed (c : nat) (w : world) : bool :=
    Nat.ltb c (next w) &&
    match c_ph (conns w c) with
    | PNone | P0 => false
    | PDead => 0 <? c_uref (conns w c)
    | _ => true
    end.
  Definition closed_seen (c : nat) (w : world) : bool :=
    match c_ph (conns w c) with PRetry | PDone | PDead => true | _ => false end.

  Definition tgt_id (t : target) (self : option nat) : option nat :=
    match t with TConn c => Some c | TSelf => self end.
  Definition tgt_z (t : target) (self : option nat) : Z :=
    match tgt_id t self with Some c => Z.of_nat c | None => -1 end.

  Definition on_conn (code : Z) (t : target) (self : option nat) (w : world) (f : nat -> world -> R) : R :=
    match tgt_id t self with
    | Some c => if allowed c w then f c (logit (EAct code (Z.of_nat c)) w) else Ok (logit (ESkip code (Z.of_nat c)) w) 0
    | None => Ok (logit (ESkip code (-1)) w) 0
    end.

  Definition do_action (a : action) (self : option nat) (w : world) : R :=
    match a with
    | ADisc t => on_conn 1 t self w disconnect
    | ARef t => on_conn 2 t self w (fun c w => let x := conns w c in conn_ref c (put c (w_uref (c_uref x + 1) x) w))
    | AUnref t =>
      match tgt_id t self with
      | Some c => if allowed c w && (0 <? c_uref (conns w c))
                  then let w1 := logit (EAct 3 (Z.of_nat c)) w in
                       let x := conns w1 c in conn_unref c (put c (w_uref (c_uref x - 1) x) w1)
                  else Ok (logit (ESkip 3 (Z.of_nat c)) w) 0
      | None => Ok (logit (ESkip 3 (-1)) w) 0
      end
    | ASend t | AResp t =>
      let code := match a with ASend _ => 4 | _ => 5 end in
      match tgt_id t self with
      | Some c => if allowed c w && (shm || negb (closed_seen c w))
                  then srv_send c (logit (EAct code (Z.of_nat c)) w)
                  else Ok (logit (ESkip code (Z.of_nat c)) w) 0
      | None => Ok (logit (ESkip code (-1)) w) 0
      end
    | ADestroy => if destroy_called w then Ok (logit (ESkip 6 (-1)) w) 0
                  else destroy (set_destroy_called true (logit (EAct 6 (-1)) w))
    | ARate rl => if destroy_called w || (rl <? 0) || (4 <? rl) then Ok (logit (ESkip 7 (-1)) w) 0
                  else rate_limit rl (logit (EAct 7 rl) w)
    | AIter => if destroy_called w then Ok (logit (ESkip 8 (-1)) w) 0 else iterate true false (logit (EAct 8 (-1)) w)
    | AKill => if destroy_called w then Ok (logit (ESkip 9 (-1)) w) 0 else iterate true true (logit (EAct 9 (-1)) w)
    end.

  Fixpoint do_actions (l : list action) (self : option nat) (w : world) : R :=
    match l with
    | [] => Ok w 0
    | a :: t => bind (do_action a self w) (fun w1 _ => do_actions t self w1)
    end.

  (* handle_new_connection (after acceptor + process_auth, which C06 models); z = error given to the client *)
  Definition handle_new (slot : nat) (resp_ok : bool) (w : world) : R :=
    chks w (
    let c := next w in
    let x := mkConn true INACTIVE 1 false false 0 0 false P0 0 in       (* qb_ipcs_connection_alloc: conn_ref + service conn_ref *)
    let w1 := logit (ENew c) (set_slots (updf (slots w) slot (Some c)) (set_svc true (s_rc w + 1) (set_next (S c) (put c x w)))) in
    bind (cb KAccept c w1) (fun w2 r =>
    chk c w2 (
    if negb (r =? 0) then
      (* send_response with the error; state is INACTIVE: drop the allocation reference, close the socket *)
      bind (conn_unref c w2) (fun w3 _ => Ok (set_slots (updf (slots w3) slot None) w3) (if resp_ok then r else -999))
    else chks w2 (                                                     (* s->funcs.connect, list_add *)
      let w3 := put c (w_st ACTIVE (w_reg true (conns w2 c))) w2 in
      let w4 := set_list (c :: s_list w3) w3 in
      if negb resp_ok then
        (* the response could not be sent (the client went away): state is ACTIVE, qb_ipcs_disconnect(c) *)
        bind (disconnect c w4) (fun w5 _ => Ok (set_slots (updf (slots w5) slot None) w5) (-999))
      else
      bind (conn_ref c w4) (fun w5 _ =>
      bind (cb KCreated c w5) (fun w6 _ =>
      chk c w6 (
      let x6 := conns w6 c in
      let w7 := if st_eqb (c_st x6) ACTIVE then put c (w_st ESTABLISHED x6) w6 else w6 in
      bind (conn_unref c w7) (fun w8 _ =>
      (* the client: its connect succeeds iff the server side is still there (kernel/peer, not server code) *)
      if st_eqb (c_st x6) ACTIVE then Ok w8 0 else Ok (set_slots (updf (slots w8) slot None) w8) (-999))))))))).
End Lib.

(* ---- the application's callbacks: pop the next behaviour entry of this kind, check the order automaton,
   run the entry's actions (nesting deeper than [n] callbacks runs no actions - the harness cuts at the same depth) *)
Fixpoint invoke (shm fixed : bool) (n : nat) (k : kind) (c : nat) (w : world) : R :=
  let b := match behs w k with [] => mkBeh 0 [] | b :: _ => b end in
  let ret := match k with KCreated | KDestroyed => 0 | _ => b_ret b end in
  let w1 := set_behs (fun k' => match k, k' with
                               | KAccept, KAccept | KCreated, KCreated | KMsg, KMsg | KClosed, KClosed
                               | KDestroyed, KDestroyed => tl (behs w k')
                               | _, _ => behs w k' end) w in
  let x := conns w1 c in
  match phase_step k ret (c_ph x) with
  | None => Fail (OrderViolation k c) (logit (ECb k c ret) w1)
  | Some p =>
    if (match k with KDestroyed => negb (c_uref x =? 0) | _ => false end)
    then Fail (DestroyedWhileHeld c) (logit (ECb k c ret) w1)
    else
      let w2 := logit (ECb k c ret) (put c (w_ph p x) w1) in
      match n with
      | O => Ok w2 ret
      | S n' => bind (do_actions shm fixed (invoke shm fixed n') (b_acts b) (Some c) w2) (fun w3 _ => Ok w3 ret)
      end
  end.

(* ---- top-level operations of a history *)
Inductive op :=
| OBeh (k : kind) (b : behav)       (* extend the behaviour table *)
| OConn (slot : nat) (resp_ok : bool)   (* resp_ok = false: the client stops reading before the server answers *)
| OReq (slot : nat) (accepted : bool)   (* accepted: the kernel took the datagram / notification byte (oracle) *)
| OHup (slot : nat) (empty : bool)  (* client disconnects or dies; empty: the kernel purged / holds no queued request (oracle) *)
| OTurn (c : nat) (empty : bool)    (* empty: the kernel holds no queued request for c (oracle, socket transport) *)
| OJobs
| OApp (a : action).

Definition maxslots : nat := 6.

Section Top.
  Variable shm fixed : bool.
  Variable depth : nat.
  Let cb := invoke shm fixed depth.

  Fixpoint jobs_loop (n : nat) (w : world) : R :=
    match n with
    | O => Ok w 0
    | S n' => match jobs w with
              | [] => Ok w 0
              | c :: t => bind (job_run fixed cb c (set_jobs t w)) (fun w1 _ => jobs_loop n' w1)
              end
    end.

  (* result z: conn: error code or -1000 = skipped; req: 1 ok 0 fail -1000 skipped; t/jobs: number of calls *)
  Definition step (o : op) (w : world) : R :=
    match o with
    | OBeh k b => Ok (set_behs (fun k' => match k, k' with
                                          | KAccept, KAccept | KCreated, KCreated | KMsg, KMsg | KClosed, KClosed
                                          | KDestroyed, KDestroyed => behs w k' ++ [b]
                                          | _, _ => behs w k' end) w) 0
    | OConn slot resp_ok =>
      if Nat.ltb slot maxslots && negb (destroy_called w) && (match slots w slot with None => true | Some _ => false end)
      then handle_new fixed cb slot resp_ok w else Ok w (-1000)
    | OReq slot accepted =>
      match (if Nat.ltb slot maxslots then slots w slot else None) with
      | None => Ok w (-1000)
      | Some c => let x := conns w c in
                  if accepted && c_alloc x && st_eqb (c_st x) ESTABLISHED && negb (c_fc x =? 1)
                  then Ok (put c (w_nreq (c_nreq x + 1) x) w) 1 else Ok w 0
      end
    | OHup slot empty =>
      match (if Nat.ltb slot maxslots then slots w slot else None) with
      | None => Ok w (-1000)
      | Some c => let x := conns w c in
                  let x1 := if empty then w_nreq 0 x else x in
                  Ok (set_slots (updf (slots w) slot None) (put c (w_hup true x1) w)) 0
      end
    | OTurn c empty =>
      let w := if empty && negb shm then put c (w_nreq 0 (conns w c)) w else w in
      let x := conns w c in
      if Nat.ltb c (next w) && c_reg x then
        if shm then
          if c_hup x || (0 <? c_nreq x) then bind (dispatch shm fixed cb c (c_hup x) w) (fun w1 _ => Ok w1 1) else Ok w 0
        else
          bind (if 0 <? c_nreq x then bind (dispatch shm fixed cb c false w) (fun w1 _ => Ok w1 1) else Ok w 0) (fun w1 n1 =>
          if c_reg (conns w1 c) && c_hup (conns w1 c) then bind (liveliness fixed cb c w1) (fun w2 _ => Ok w2 (n1 + 1)) else Ok w1 n1)
      else Ok w 0
    | OJobs => let n := length (jobs w) in bind (jobs_loop n w) (fun w1 _ => Ok w1 (Z.of_nat n))
    | OApp a => do_action shm fixed cb a None w
    end.

  Fixpoint run (l : list op) (w : world) : R :=
    match l with
    | [] => Ok w 0
    | o :: t => bind (step o w) (fun w1 _ => run t w1)
    end.
End Top.

Definition clear_log (w : world) : world := set_log [] w.
Definition is_fail (r : R) : bool := match r with Fail _ _ => true | Ok _ _ => false end.
