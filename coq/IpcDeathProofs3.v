(* C03 - proofs, part 3: a dead socket-transport client delays the other clients by a bounded time only. *)
Require Import ZArith List Bool Lia.
Require Import Verif.gen.Consts_ipcdeath Verif.IpcDeathModel Verif.IpcDeathProofs.
Import ListNotations.
Open Scope Z_scope.

Lemma finish_connecting_gen : forall fuel retry conn_ok slept,
  0 <= retry < FC_RETRIES -> (Z.to_nat (FC_RETRIES - retry) <= fuel)%nat ->
  exists ok ms, finish_connecting fuel retry conn_ok slept = Some (ok, ms) /\
                slept <= ms <= slept + (FC_RETRIES - retry) * FC_SLEEP_MS.
Proof.
  induction fuel; intros retry conn_ok slept Hr Hf.
  - exfalso. unfold FC_RETRIES in *. lia.
  - cbn [finish_connecting]. destruct (conn_ok retry).
    + exists true, slept. split; [reflexivity|]. unfold FC_RETRIES, FC_SLEEP_MS in *. lia.
    + destruct (retry + 1 <? FC_RETRIES) eqn:E.
      * apply Z.ltb_lt in E.
        destruct (IHfuel (retry + 1) conn_ok (slept + FC_SLEEP_MS)) as (ok & ms & H1 & H2).
        { lia. } { unfold FC_RETRIES in *. lia. }
        exists ok, ms. split; [exact H1|]. unfold FC_RETRIES, FC_SLEEP_MS in *. lia.
      * apply Z.ltb_ge in E. exists false, (slept + FC_SLEEP_MS). split; [reflexivity|].
        unfold FC_RETRIES, FC_SLEEP_MS in *. lia.
Qed.

(* one connect-on-send attempt: at most FC_RETRIES * FC_SLEEP_MS = 1 s, whatever connect() answers; the loop ends *)
Lemma finish_connecting_bound : forall conn_ok,
  exists ok ms, finish_connecting 10 0 conn_ok 0 = Some (ok, ms) /\ 0 <= ms <= FC_RETRIES * FC_SLEEP_MS.
Proof.
  intros. destruct (finish_connecting_gen 10 0 conn_ok 0) as (ok & ms & H1 & H2).
  { unfold FC_RETRIES; lia. } { vm_compute. lia. }
  exists ok, ms. split; [exact H1|]. lia.
Qed.

Lemma stall_of_sends_bound : forall n conn_ok,
  exists ms, stall_of_sends n conn_ok = Some ms /\ 0 <= ms <= Z.of_nat n * (FC_RETRIES * FC_SLEEP_MS).
Proof.
  induction n; intros.
  - exists 0. split; [reflexivity|]. cbn. lia.
  - cbn [stall_of_sends].
    destruct (finish_connecting_bound (conn_ok n)) as (ok & ms & H1 & H2). rewrite H1.
    destruct (IHn conn_ok) as (rest & R1 & R2). rewrite R1.
    exists (ms + rest). split; [reflexivity|]. rewrite Nat2Z.inj_succ. lia.
Qed.

(* the requests of a dead socket-transport client that one pass still hands to msg_process: at most MAX_RECV_MSGS *)
Lemma sock_pass_msgs : forall (Fr : Type) (pin : bool) (s : st Fr), 0 <= k_reqq s ->
  exists n, 0 <= n <= D_MAX_RECV_MSGS /\ n <= k_reqq s /\
            log (dispatch_request Sock pin false s) = log s ++ msgs_n n.
Proof.
  intros Fr pin s Hq. pose proof consts_ok as (_ & C2 & _).
  unfold dispatch_request. destruct pin; cbn [negb].
  2:{ exists 0. split; [lia|]. split; [lia|]. rewrite app_nil_r. reflexivity. }
  destruct (Z.min (k_reqq s) D_MAX_RECV_MSGS =? 0) eqn:E.
  - exists 0. split; [lia|]. split; [lia|]. rewrite app_nil_r. reflexivity.
  - exists (Z.min (k_reqq s) D_MAX_RECV_MSGS). split; [lia|]. split; [lia|]. destruct s; reflexivity.
Qed.

(* THE BOUND: in the pass in which the server notices the death of a socket-transport client it answers at most
   MAX_RECV_MSGS of the requests the client left queued, each answer costing at most FC_RETRIES * FC_SLEEP_MS of sleep
   in the connect-on-send retry; in the same pass the liveliness handler disconnects the client (client_death_cleanup),
   so the other clients are delayed by at most n * 1 s, n <= min(queued, MAX_RECV_MSGS), once per dead client. *)
Theorem dead_client_stall_bounded : forall (Fr : Type) (pin : bool) (s : st Fr) conn_ok, 0 <= k_reqq s ->
  exists n ms, 0 <= n <= D_MAX_RECV_MSGS /\ n <= k_reqq s /\
    log (dispatch_request Sock pin false s) = log s ++ msgs_n n /\
    stall_of_sends (Z.to_nat n) conn_ok = Some ms /\
    0 <= ms <= n * (FC_RETRIES * FC_SLEEP_MS).
Proof.
  intros Fr pin s conn_ok Hq.
  destruct (sock_pass_msgs Fr pin s Hq) as (n & Hn & Hn2 & Hl).
  destruct (stall_of_sends_bound (Z.to_nat n) conn_ok) as (ms & M1 & M2).
  exists n, ms. repeat split; try tauto; try lia. rewrite Z2Nat.id in M2 by lia. lia.
Qed.
