(* C15 composed with C11 (needs rbow's RbOw*.v): the round trip for every logging history.  Statements only. *)
From Coq Require Import ZArith List.
Require Import Verif.gen.Consts_rb Verif.gen.Consts_bbfile Verif.RbModel Verif.RbSpec Verif.RbOwSpec Verif.RbOwKeeps
        Verif.RbOwDumpModel Verif.BbFileModel Verif.BbFileProofs Verif.BbFileRoundTrip Verif.BbFileCompose.
Import ListNotations.
Local Open Scope Z_scope.

(* For every blackbox size S, every max_line_length, every sequence of entries (fields in their C ranges, message
   not longer than max_line_length, reservation header+function+timespec+max_line_length <= S) logged into a fresh
   blackbox (overwrite ring; ow_writes = one qb_rb_chunk_alloc(reservation) + qb_rb_chunk_commit(entry) per call, as
   _blackbox_vlogger does): all calls succeed, and printing the file written afterwards prints exactly `kept' - a
   suffix of the logged sequence (the newest entries, in order), not empty unless nothing was logged, containing every
   run of newest entries that fits in S (C11's rfits: 16 bytes of overhead each, the newest counted with its
   reservation) - each entry with its priority, time stamp, function, line, tags and decoded message; the result is
   -EIO (end of data), no shm file stays. *)
Theorem C15_roundtrip_all_histories : forall S maxline recs orc heap0 stk errno0,
  size_ok S -> Forall wf_rec recs -> Forall (fun r => chunk_bytes_ok (b_msg r)) recs ->
  Forall (fun r => zlen (b_msg r) <= maxline /\ resv maxline r <= S) recs -> dec_ok orc ->
  exists b kept,
    ow_writes (rb_open S false true) (map (mkw maxline) recs) = Some b /\
    suffix kept recs /\ (recs <> [] -> kept <> []) /\
    (forall l, suffix l recs -> rfits S (map (mkw maxline) l) = true -> suffix l kept) /\
    let r := print_from_file true true orc heap0 stk errno0 (BbFileModel.bb_dump b) in
    records r = printed_recs kept orc stk /\ out r = Ret (- BBF_EIO) /\ shm_left r = [].
Proof. exact roundtrip_all_histories. Qed.
Print Assumptions C15_roundtrip_all_histories.

Example C15_roundtrip_all_histories_example :
  size_ok 5000 /\ Forall wf_rec ex_recs /\ Forall (fun r => chunk_bytes_ok (b_msg r)) ex_recs /\
  Forall (fun r => zlen (b_msg r) <= 512 /\ resv 512 r <= 5000) ex_recs.
Proof. exact compose_example. Qed.
Print Assumptions C15_roundtrip_all_histories_example.
