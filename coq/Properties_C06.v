(* C06 property theorems: statements only, each closed by `exact`.
   Models: coq/IpcHostileModel.v (a peer that is not (yet) an accepted client: acceptor, process_auth,
   qb_ipc_us_recv_msghdr, the resources the service holds) and coq/IpcDataModel.v (an accepted client writing raw
   requests: qb_ipc_us_recv_at_most, _process_request_), variant `fixed' = lib/*.c with
   fixes/C06-recv-at-most-bounds.patch and fixes/C06-request-size-validate.patch applied.
   Quantifiers: every number of peers, every byte string each of them writes, cut into pieces in every possible way
   (list of ops = the pieces), shutdown or close of the peer at any point, both transports; every raw request
   (any real length, any size field, any id) at any point of any history of calls on an established connection. *)
From Coq Require Import ZArith List.
Require Import Verif.gen.Consts_ipcdata Verif.IpcDataModel Verif.IpcHostileModel Verif.IpcHostileProofs.
Import ListNotations.
Local Open Scope Z_scope.

(* ---------------- (a) peers that are not accepted clients ---------------- *)

(* the handshake buffer (struct ipc_auth_data.msg) is never overrun: a pending peer has delivered fewer bytes than
   one connection request, whatever it wrote *)
Theorem C06_handshake_buffer_bounded : forall cred t h p got,
  In p (h_peers (fst (hs_run cred (hs_init t) h))) -> p_stat p = PPending got -> (length got < LEN)%nat.
Proof. exact hs_buffer_bounded. Qed.
Print Assumptions C06_handshake_buffer_bounded.

(* a connection exists (or existed) only for a peer whose first sizeof(struct qb_ipc_connection_request) bytes are a
   complete request with id QB_IPC_MSG_AUTHENTICATE; the buffer size granted is the one that request asks for *)
Theorem C06_connection_only_from_valid_request : forall cred t h p,
  In p (h_peers (fst (hs_run cred (hs_init t) h))) ->
  (forall mx, p_stat p = PConn mx -> valid_request (p_sent p) /\ mx = Z.max (req_max (firstn LEN (p_sent p))) 0) /\
  (p_stat p = PGone -> valid_request (p_sent p)).
Proof. exact hs_conn_only_valid. Qed.
Print Assumptions C06_connection_only_from_valid_request.

(* per op: msg_process is never called on behalf of a raw peer; connection_accept / connection_created are called at
   most once, and only for a peer that has sent a valid request (service up, credentials delivered) *)
Theorem C06_accept_only_valid : forall cred s o s' x,
  Inv_hs s -> hs_step cred s o = (s', Some x) ->
  ho_msgproc x = 0 /\ (ho_accept x = 0 \/ ho_accept x = 1) /\ ho_created x = ho_accept x /\
  (ho_accept x <> 0 ->
   exists p', nth_error (h_peers s') (target s o) = Some p' /\ valid_request (p_sent p') /\
              cred = true /\ h_down s = false).
Proof. exact hs_accept_only_valid. Qed.
Print Assumptions C06_accept_only_valid.

(* the invariant used above holds in every reachable state *)
Theorem C06_handshake_invariant : forall cred t h, Inv_hs (fst (hs_run cred (hs_init t) h)).
Proof. exact hs_invariant. Qed.
Print Assumptions C06_handshake_invariant.

(* exact accounting of what the service holds: poll-table entries, descriptors, /dev/shm directories, service
   references, auth records, connection objects = idle service + the weight of each peer's status *)
Theorem C06_resources_accounted : forall cred t h,
  let s := fst (hs_run cred (hs_init t) h) in h_res s = acct (h_tr s) (h_peers s).
Proof. exact hs_resources_accounted. Qed.
Print Assumptions C06_resources_accounted.

(* once a peer has closed its socket the server has released everything it held for it, in whatever state the
   handshake was (nothing sent, partial, garbage, complete, connection established) *)
Theorem C06_close_releases : forall cred s k p s' x,
  nth_error (h_peers s) k = Some p -> hs_step cred s (HClose k) = (s', x) ->
  exists p', nth_error (h_peers s') k = Some p' /\ dead p' /\ weight (h_tr s') (p_stat p') = res_zero.
Proof. exact hs_close_releases. Qed.
Print Assumptions C06_close_releases.

Theorem C06_all_gone_idle : forall cred t h,
  let s := fst (hs_run cred (hs_init t) h) in Forall dead (h_peers s) -> h_res s = res_idle.
Proof. exact hs_all_gone_idle. Qed.
Print Assumptions C06_all_gone_idle.

(* what becomes of a peer is a function of the bytes it sent alone: for EVERY way of cutting the stream into pieces
   (c0, then c1, ... each followed by a look of the server): fewer bytes than a request -> pending with exactly those
   bytes buffered; a complete request with the AUTHENTICATE id in front -> a connection granted the requested size;
   anything else -> closed *)
Theorem C06_handshake_outcome_by_stream : forall t c0 cs,
  let s := fst (hs_run true (hs_init t) (HNew c0 :: map (HApp 0) cs)) in
  exists p, h_peers s = [p] /\ p_stat p = classify 0 (concat (c0 :: cs)).
Proof. exact handshake_outcome_by_stream. Qed.
Print Assumptions C06_handshake_outcome_by_stream.

Theorem C06_handshake_chunking_irrelevant : forall t c0 cs d0 ds,
  concat (c0 :: cs) = concat (d0 :: ds) ->
  map p_stat (h_peers (fst (hs_run true (hs_init t) (HNew c0 :: map (HApp 0) cs)))) =
  map p_stat (h_peers (fst (hs_run true (hs_init t) (HNew d0 :: map (HApp 0) ds)))).
Proof. exact handshake_chunking_irrelevant. Qed.
Print Assumptions C06_handshake_chunking_irrelevant.

(* end of stream without close: no auth record keeps waiting - the handshake is decided at once *)
Theorem C06_shutdown_decides : forall cred s k p s' x,
  Inv_hs s -> nth_error (h_peers s) k = Some p -> hs_step cred s (HShut k) = (s', x) ->
  exists p', nth_error (h_peers s') k = Some p' /\ decided p' /\ r_auths (weight (h_tr s') (p_stat p')) = 0.
Proof. exact hs_shut_decides. Qed.
Print Assumptions C06_shutdown_decides.

(* the server keeps serving others: a peer's bytes change nothing about any other peer, nor about an established
   connection, and cause no msg_process call there *)
Theorem C06_peers_isolated : forall cred s o s' x j,
  hs_step cred s o = (s', x) -> j <> target s o -> (j < length (h_peers s))%nat ->
  nth_error (h_peers s') j = nth_error (h_peers s) j.
Proof. exact hs_isolation. Qed.
Print Assumptions C06_peers_isolated.

Theorem C06_lab_frame : forall vr l o l' hx dx,
  lab_step vr l o = (l', hx, dx) ->
  match o with
  | LHs _ => l_main l' = l_main l /\ dx = None
  | LData _ _ => l_hs l' = l_hs l /\ hx = None
  end.
Proof. exact lab_frame. Qed.
Print Assumptions C06_lab_frame.

(* ---------------- (b) the socket receive function stays inside the caller's buffer ---------------- *)
Theorem C06_recv_writes_in_bounds : forall m buflen,
  0 <= buflen -> 0 <= recv_write_extent fixed m buflen <= buflen.
Proof. exact recv_extent_in_bounds. Qed.
Print Assumptions C06_recv_writes_in_bounds.

Theorem C06_recv_result_in_bounds : forall t q buflen q' res om,
  0 <= buflen -> xrecv fixed t q buflen = (q', res, om) -> res <= buflen.
Proof. exact xrecv_result_in_bounds. Qed.
Print Assumptions C06_recv_result_in_bounds.

(* ... refuted for the code as found: the size field decides how much is received; the header peek alone overruns a
   buffer shorter than a header *)
Theorem C06_recv_writes_in_bounds_orig_refuted :
  (exists m buflen, 0 <= buflen /\ m_hsize m = m_len m /\ buflen < recv_write_extent orig m buflen) /\
  (exists m buflen, 0 <= buflen /\ m_hsize m = m_len m /\ m_len m <= 16 /\ buflen < recv_write_extent orig m buflen).
Proof. exact recv_extent_orig_refuted. Qed.
Print Assumptions C06_recv_writes_in_bounds_orig_refuted.

(* ---------------- (c) the length msg_process is told ---------------- *)
(* for every history of arbitrary calls (raw requests with any length, size field and id included; no assumption on
   kernel answers): 0 <= told <= received <= sent, told <= negotiated maximum, told = the header's own field *)
Theorem C06_reported_size_bounded : forall t mx h s outs,
  run fixed (init t mx) h = (s, outs) -> Forall (out_cbs_ok mx) outs.
Proof. exact reported_size_bounded. Qed.
Print Assumptions C06_reported_size_bounded.

Theorem C06_reported_size_orig_refuted :
  forall t, exists x, In x (snd (run orig (init t 12328) [(CRaw hostile_req, []); (STurn false, [])])) /\
                      o_cbs x = [(5000, hostile_req)].
Proof. exact reported_size_orig_refuted. Qed.
Print Assumptions C06_reported_size_orig_refuted.

(* ---------------- non-vacuity ---------------- *)
Example C06_example_session :
  let r := hs_run true (hs_init SHM) ex_session in
  map (fun x => match x with Some x => (ho_sock x, ho_accept x, ho_closed x) | None => (9, 9, 9) end) (snd r) =
    [(0, 0, 0); (-1, 0, 0); (1, 1, 0); (0, 0, 0); (0, 0, 0); (-1, 0, 0); (-1, 0, 0); (1, 0, 1); (-1, 0, 0); (-1, 0, 0)] /\
  h_res (fst r) = res_idle /\ Forall dead (h_peers (fst r)).
Proof. exact ex_session_result. Qed.

Example C06_example_classify :
  classify 0 (firstn 23 ex_valid) = PPending (firstn 23 ex_valid) /\
  classify 0 (ex_valid ++ [1; 2; 3]) = PConn 8192 /\
  classify 0 (5 :: tl ex_valid) = PClosed.
Proof. exact classify_examples. Qed.

Example C06_example_hostile_request_dropped :
  forall t, let r := run fixed (init t 12328) [(CRaw hostile_req, []); (STurn false, [])] in
            closed (fst r) = true /\ map o_cbs (snd r) = [[]; []].
Proof. exact hostile_req_fixed. Qed.
