(* C19: executable model of lib/array.c (growable array).  No proofs in this file, so the
   model still builds and runs when a proof breaks.

   Transcribed function by function from lib/array.c:
     qb_array_create_2, _grow_bin_array, qb_array_grow, qb_array_index, qb_array_num_bins_get.
   Conventions (DESIGN.md section 3):
   * the pointer table a->bin is `bins : list (option Z)' (None = NULL, Some id = pointer to the
     calloc'ed block number id); num_bins = length bins.  The table OBJECT has an identity `tbl':
     every realloc is modelled as moving (a new object, the old one freed), which is what the
     harness' realloc wrapper makes the implementation do; table t is live iff t = tbl w.
   * bins blocks live in `heap', a list indexed by allocation order (block ids are never reused,
     the array code never frees a block before qb_array_free); a block is its size and its
     content as a function offset -> byte; calloc yields the constant-zero function.
   * an address is (block id, byte offset).
   * the user of the array is part of the model: `cache' holds, per index, the FIRST address
     qb_array_index returned for it (the pointer a caller keeps), and Store/Load go through that
     cached pointer - so "the pointer stays valid and keeps its content across growth" is a
     statement about the model's own observable behaviour.
   * size_t arguments are non-negative Z (hypotheses of the theorems); idx is any Z (int32_t).
     idx + 1 is computed in Z (the C code's int addition overflows for idx = INT32_MAX, which
     the repaired code avoids by widening first; see fixes/C19-index-int-overflow.patch).
   * allocation failure (ENOMEM paths) is not modelled. *)
From Coq Require Import ZArith List Bool NArith.
Import ListNotations.
Require Import Verif.gen.Consts_array.
Local Open Scope Z_scope.

Record block := { b_size : Z; b_data : Z -> N }.

(* calloc(n, 1) *)
Definition zero_block (n : Z) : block := {| b_size := n; b_data := fun _ => 0%N |}.

Record world := {
  bins : list (option Z);      (* a->bin[0 .. num_bins) *)
  maxel : Z;                   (* a->max_elements *)
  esize : Z;                   (* a->element_size *)
  autog : Z;                   (* a->autogrow_elements *)
  cbset : bool;                (* a->new_bin_cb != NULL *)
  tbl : Z;                     (* identity of the table object a->bin points to *)
  heap : list block;           (* every block calloc'ed for a bin, by allocation order *)
  cache : list (Z * (Z * Z))   (* caller side: index -> first address returned for it *)
}.

Definition num_bins (w : world) : Z := Z.of_nat (length (bins w)).

Definition set_bins (w : world) (l : list (option Z)) (t : Z) : world :=
  {| bins := l; maxel := maxel w; esize := esize w; autog := autog w; cbset := cbset w;
     tbl := t; heap := heap w; cache := cache w |}.
Definition set_maxel (w : world) (m : Z) : world :=
  {| bins := bins w; maxel := m; esize := esize w; autog := autog w; cbset := cbset w;
     tbl := tbl w; heap := heap w; cache := cache w |}.
Definition set_heap (w : world) (h : list block) : world :=
  {| bins := bins w; maxel := maxel w; esize := esize w; autog := autog w; cbset := cbset w;
     tbl := tbl w; heap := h; cache := cache w |}.
Definition set_cache (w : world) (c : list (Z * (Z * Z))) : world :=
  {| bins := bins w; maxel := maxel w; esize := esize w; autog := autog w; cbset := cbset w;
     tbl := tbl w; heap := heap w; cache := c |}.

Fixpoint upd {A} (l : list A) (n : nat) (x : A) : list A :=
  match l, n with
  | [], _ => []
  | _ :: t, O => x :: t
  | a :: t, S n' => a :: upd t n' x
  end.

(* BIN_NUM_GET / ELEM_NUM_GET *)
Definition bin_of (idx : Z) : Z := Z.shiftr idx ARRAY_INDEX_BITS_PER_BIN.
Definition elem_of (idx : Z) : Z := Z.land idx (ARRAY_ELEMS_PER_BIN - 1).

(* QB_MIN((max_elements / MAX_ELEMENTS_PER_BIN) + 1, MAX_BINS) *)
Definition bins_for (max : Z) : Z := Z.min (max / ARRAY_ELEMS_PER_BIN + 1) ARRAY_MAX_BINS.

(* _grow_bin_array(a, n): realloc to n entries (a new table object; the old one is freed),
   NULL the entries [num_bins, n), num_bins = n *)
Definition grow_bin_array (w : world) (n : Z) : world :=
  set_bins w (firstn (Z.to_nat n) (bins w) ++ repeat None (Z.to_nat (n - num_bins w))) (tbl w + 1).

(* qb_array_create_2; None = NULL with errno EINVAL *)
Definition create (max es auto : Z) (cb : bool) : option world :=
  if (ARRAY_MAX_ELEMENTS <? max) || (es <? 1) || (ARRAY_ELEMS_PER_BIN <? auto) then None
  else Some {| bins := repeat None (Z.to_nat (bins_for max)); maxel := max; esize := es; autog := auto;
               cbset := cb; tbl := 0; heap := []; cache := [] |}.

(* the critical section of qb_array_grow *)
Definition do_grow (w : world) (n : Z) : world * Z :=
  if ARRAY_MAX_ELEMENTS <? n then (w, - ARRAY_EINVAL) else
  if n <=? maxel w then (w, 0) else
  let w1 := set_maxel w n in
  let b := bins_for n in
  if num_bins w1 <? b then (grow_bin_array w1 (b + 1), 0) else (w1, 0).

(* a->bin[b], for b < num_bins *)
Definition bin_get (w : world) (b : Z) : option Z :=
  match nth_error (bins w) (Z.to_nat b) with Some x => x | None => None end.

Definition is_none {A} (o : option A) : bool := match o with None => true | Some _ => false end.

(* a->bin[b] = calloc(MAX_ELEMENTS_PER_BIN, a->element_size) *)
Definition alloc_bin (w : world) (b : Z) : world :=
  let id := Z.of_nat (length (heap w)) in
  set_bins (set_heap w (heap w ++ [zero_block (ARRAY_ELEMS_PER_BIN * esize w)]))
           (upd (bins w) (Z.to_nat b) (Some id)) (tbl w).

(* qb_array_index from `b = BIN_NUM_GET(idx)' to just before the unlock: (state, bin_alloced) *)
Definition body_bin (w : world) (idx : Z) : world * bool :=
  let b := bin_of idx in
  if (num_bins w <=? b) || is_none (bin_get w b) then
    let w1 := if num_bins w <=? b then grow_bin_array w (b + 1) else w in
    match bin_get w1 b with
    | None => (alloc_bin w1 b, true)
    | Some _ => (w1, false)
    end
  else (w, false).

(* the range check at the top of qb_array_index (idx >= 0 already established) *)
Inductive precheck := PFail (rc : Z) | PGrow | PGo.
Definition index_check (w : world) (idx : Z) : precheck :=
  if maxel w <=? idx then (if autog w =? 0 then PFail (- ARRAY_ERANGE) else PGrow) else PGo.

Inductive op :=
| Index (idx : Z)
| Grow (n : Z)
| NumBins
| Store (idx k : Z) (v : N)      (* caller writes byte v at offset k of element idx through its cached pointer *)
| Load (idx k : Z).              (* caller reads that byte *)

Inductive out :=
| OIndex (rc : Z) (addr : option (Z * Z)) (cbs : list Z)   (* rc, address, new_bin_cb invocations (bin numbers) *)
| ORc (rc : Z)
| OVal (v : option N).                                     (* None: the caller holds no pointer for that index / offset outside the element *)

Fixpoint cache_get (c : list (Z * (Z * Z))) (i : Z) : option (Z * Z) :=
  match c with
  | [] => None
  | (j, a) :: t => if j =? i then Some a else cache_get t i
  end.

(* qb_array_index up to (and including) the autogrow call: an error code, or the state to go on with *)
Definition index_pre (w : world) (idx : Z) : Z + world :=
  match index_check w idx with
  | PFail rc => inl rc
  | PGrow => let '(w1, rc) := do_grow w (idx + 1) in if rc =? 0 then inr w1 else inl rc
  | PGo => inr w
  end.

Definition do_index (w : world) (idx : Z) : world * out :=
  if idx <? 0 then (w, OIndex (- ARRAY_ERANGE) None []) else
  match index_pre w idx with
  | inl rc => (w, OIndex rc None [])
  | inr w1 =>
      let b := bin_of idx in
      let '(w2, alloced) := body_bin w1 idx in
      let cbs := if alloced && cbset w2 then [b] else [] in
      match bin_get w2 b with                          (* bin = a->bin[b] *)
      | Some blk =>
          let a := (blk, esize w2 * elem_of idx) in     (* bin + element_size * elem *)
          let w3 := match cache_get (cache w2) idx with
                    | Some _ => w2
                    | None => set_cache w2 ((idx, a) :: cache w2)
                    end in
          (w3, OIndex 0 (Some a) cbs)
      | None => (w2, OIndex 0 None cbs)                (* NULL bin: shown unreachable in ArrayProofs *)
      end
  end.

Definition heap_store (h : list block) (blk off : Z) (v : N) : option (list block) :=
  match nth_error h (Z.to_nat blk) with
  | Some bl =>
      if (0 <=? blk) && (0 <=? off) && (off <? b_size bl) then
        Some (upd h (Z.to_nat blk)
                  {| b_size := b_size bl; b_data := fun o => if o =? off then v else b_data bl o |})
      else None
  | None => None
  end.

Definition heap_load (h : list block) (blk off : Z) : option N :=
  match nth_error h (Z.to_nat blk) with
  | Some bl => if (0 <=? blk) && (0 <=? off) && (off <? b_size bl) then Some (b_data bl off) else None
  | None => None
  end.

Definition step (w : world) (o : op) : world * out :=
  match o with
  | Index idx => do_index w idx
  | Grow n => let '(w1, rc) := do_grow w n in (w1, ORc rc)
  | NumBins => (w, ORc (num_bins w))
  | Store idx k v =>
      match cache_get (cache w) idx with
      | Some (blk, off) =>
          if (0 <=? k) && (k <? esize w) then
            match heap_store (heap w) blk (off + k) v with
            | Some h => (set_heap w h, ORc 0)
            | None => (w, ORc (-2))       (* out-of-bounds / dangling: shown unreachable *)
            end
          else (w, ORc (-1))
      | None => (w, ORc (-1))             (* the caller holds no pointer for idx *)
      end
  | Load idx k =>
      match cache_get (cache w) idx with
      | Some (blk, off) =>
          if (0 <=? k) && (k <? esize w) then (w, OVal (heap_load (heap w) blk (off + k)))
          else (w, OVal None)
      | None => (w, OVal None)
      end
  end.

Fixpoint run (w : world) (ops : list op) : world * list out :=
  match ops with
  | [] => (w, [])
  | o :: t => let '(w1, x) := step w o in let '(w2, xs) := run w1 t in (w2, x :: xs)
  end.

(* ------------------------------------------------------------------------------------------
   The abstract specification the property describes: an unbounded zero-initialised array of
   elements with a current size; no bins, no blocks, no table. *)
Record spec := {
  sp_max : Z;
  sp_mem : Z -> Z -> N;          (* index -> offset -> byte *)
  sp_seen : Z -> bool            (* the caller has obtained a pointer for this index *)
}.

Definition spec_init (max : Z) : spec := {| sp_max := max; sp_mem := fun _ _ => 0%N; sp_seen := fun _ => false |}.

Inductive sout := SRc (rc : Z) | SVal (v : option N) | SAny.

Definition spec_step (es auto : Z) (s : spec) (o : op) : spec * sout :=
  match o with
  | Index idx =>
      if idx <? 0 then (s, SRc (- ARRAY_ERANGE)) else
      let ok (m : Z) := ({| sp_max := m; sp_mem := sp_mem s;
                            sp_seen := fun j => if j =? idx then true else sp_seen s j |}, SRc 0) in
      if sp_max s <=? idx then
        if auto =? 0 then (s, SRc (- ARRAY_ERANGE))
        else if ARRAY_MAX_ELEMENTS <? idx + 1 then (s, SRc (- ARRAY_EINVAL))
        else ok (idx + 1)
      else ok (sp_max s)
  | Grow n =>
      if ARRAY_MAX_ELEMENTS <? n then (s, SRc (- ARRAY_EINVAL))
      else ({| sp_max := Z.max (sp_max s) n; sp_mem := sp_mem s; sp_seen := sp_seen s |}, SRc 0)
  | NumBins => (s, SAny)
  | Store idx k v =>
      if sp_seen s idx && (0 <=? k) && (k <? es) then
        ({| sp_max := sp_max s;
            sp_mem := fun i o => if (i =? idx) && (o =? k) then v else sp_mem s i o;
            sp_seen := sp_seen s |}, SRc 0)
      else (s, SRc (-1))
  | Load idx k =>
      if sp_seen s idx && (0 <=? k) && (k <? es) then (s, SVal (Some (sp_mem s idx k)))
      else (s, SVal None)
  end.

Fixpoint spec_run (es auto : Z) (s : spec) (ops : list op) : spec * list sout :=
  match ops with
  | [] => (s, [])
  | o :: t => let '(s1, x) := spec_step es auto s o in
              let '(s2, xs) := spec_run es auto s1 t in (s2, x :: xs)
  end.

(* what of a model output the specification speaks about *)
Definition abs_out (o : op) (x : out) : sout :=
  match o, x with
  | NumBins, _ => SAny
  | _, OIndex rc _ _ => SRc rc
  | _, ORc rc => SRc rc
  | _, OVal v => SVal v
  end.
