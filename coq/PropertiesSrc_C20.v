(* C20 - source-tie obligations.  gen/Src_hdb.v is regenerated from lib/hdb.c by tools/c2coq.py on every run;
   these theorems state that the hand-written model functions the C20 theorems are about (HdbModel.v) compute,
   for all handles and all states in the ranges of the C types, exactly what the translated C functions compute.
   Statements only, each closed by `exact'.
   fields d n st ck rc ins: the translated code's view of the handle array (field f of element i as a function
   of i; n = handle_count) agrees with the slot list of the model state d.   in_range d: the fields fit their C
   types (int32_t state/check/ref_count with room for one more reference, pointer-sized instance).
   index_ok orc k i: the k-th call of qb_array_index (an oracle stream in the translation) succeeds for a
   non-negative index below handle_count and fails for a negative one - what lib/array.c guarantees (C19).
   qb_hdb_handle_create is translated as well (gen/Src_hdb.v) but its equality with do_create is not proved
   yet: it is covered by the correspondence run only. *)
From Coq Require Import ZArith List Bool.
Import ListNotations.
Require Import Verif.gen.Consts_hdb Verif.gen.Src_hdb Verif.C2CoqPrelude Verif.HdbModel Verif.HdbSrcEq.
Local Open Scope Z_scope.

Theorem C20_src_get : forall d h hdbp instp k n st ck rc ins ip orc,
  0 <= h < 2 ^ 64 -> fields d n st ck rc ins -> in_range d -> index_ok orc k (idx_of h) ->
  match qb_hdb_handle_get hdbp h instp k n ck ins rc st ip orc, do_get d h with
  | (res, k', rc', ip'), (d', res0, inst0) =>
      res = res0 /\ fields d' n st ck rc' ins /\ ip' 0 = inst0 /\ (forall j, j <> 0 -> ip' j = ip j) /\
      (k' = k \/ k' = k + 1)
  end.
Proof. exact src_get. Qed.
Print Assumptions C20_src_get.

Theorem C20_src_put : forall d h hdbp kd k dtor n st ck rc ins orcd orc,
  0 <= h < 2 ^ 64 -> fields d n st ck rc ins -> in_range d -> index_ok orc k (idx_of h) ->
  match qb_hdb_handle_put hdbp h kd k dtor n ck ins rc st orcd orc, do_put d h with
  | (res, kd', k', ck', ins', rc', st'), (d', res0) =>
      res = res0 /\ fields d' n st' ck' rc' ins' /\ (k' = k \/ k' = k + 1) /\
      (dtor <> 0 -> kd' - kd = Z.of_nat (length (dlog d')) - Z.of_nat (length (dlog d))) /\
      (dtor = 0 -> kd' = kd)
  end.
Proof. exact src_put. Qed.
Print Assumptions C20_src_put.

Theorem C20_src_destroy : forall d h hdbp kd k dtor n st ck rc ins orcd orc,
  0 <= h < 2 ^ 64 -> fields d n st ck rc ins -> in_range d ->
  index_ok orc k (idx_of h) -> index_ok orc (k + 1) (idx_of h) ->
  match qb_hdb_handle_destroy hdbp h kd k dtor n ck ins rc st orcd orc, do_destroy d h with
  | (res, kd', k', ck', ins', rc', st'), (d', res0) =>
      res = res0 /\ fields d' n st' ck' rc' ins' /\
      (dtor <> 0 -> kd' - kd = Z.of_nat (length (dlog d')) - Z.of_nat (length (dlog d))) /\
      (dtor = 0 -> kd' = kd)
  end.
Proof. exact src_destroy. Qed.
Print Assumptions C20_src_destroy.

Theorem C20_src_refcount : forall d h hdbp k n st ck rc ins orc,
  0 <= h < 2 ^ 64 -> fields d n st ck rc ins -> in_range d -> index_ok orc k (idx_of h) ->
  fst (qb_hdb_handle_refcount_get hdbp h k n ck rc st orc) = do_refcount d h.
Proof. exact src_refcount. Qed.
Print Assumptions C20_src_refcount.

(* non-vacuity: a two-slot database (one ACTIVE object with check 77 and two references, one EMPTY slot)
   meets the hypotheses, and the translated code evaluated on it rejects the stale handle and drops a reference *)
Example C20_src_example :
  let d := {| slots := [ {| s_state := 2; s_check := 77; s_ref := 2; s_inst := 5 |}; zero_slot ];
              iter := 0; next_inst := 6; dlog := [] |} in
  let st := fun i => if i =? 0 then 2 else 0 in
  let ck := fun i => if i =? 0 then 77 else 0 in
  let rc := fun i => if i =? 0 then 2 else 0 in
  let ins := fun i => if i =? 0 then 5 else 0 in
  fields d 2 st ck rc ins /\ in_range d /\
  fst (qb_hdb_handle_refcount_get 1 (mk_handle 77 0) 0 2 ck rc st (fun _ => 0)) = 2 /\
  fst (qb_hdb_handle_refcount_get 1 (mk_handle 78 0) 0 2 ck rc st (fun _ => 0)) = - HDB_EBADF /\
  fst (qb_hdb_handle_refcount_get 1 (mk_handle 0 1) 0 2 ck rc st (fun _ => 0)) = - HDB_EBADF.
Proof. exact src_example. Qed.
