(* C01: the micro-step lists of RbConcModel.v, composed sequentially (one thread running a call to completion with
   the other thread idle), ARE the sequential ring-buffer model RbModel.v (C07), whose alloc / commit / reclaim /
   space_free / chunk_step are in turn proved equal to the Gallina text that tools/c2coq.py regenerates from
   lib/ringbuffer.c on every run (RbSrcEq.v, PropertiesSrc_C07.v).  So the order and content of the stores the
   interleaving model performs is tied to the source by proof, not only by the trace comparison. *)
From Coq Require Import ZArith List Bool Lia ZifyBool.
Import ListNotations.
Require Import Verif.gen.Consts_rb Verif.gen.Consts_rbconc Verif.RbModel Verif.RbMem Verif.RbConcModel.
Local Open Scope Z_scope.

Definition to_rb (h : shared) : rb :=
  {| rW := hW h; wpt := hwpt h; rpt := hrpt h; data := hmem h; sem := hsem h; ovw := false |}.

(* run the writer alone until its call returns *)
Fixpoint wrun (fuel : nat) (h : shared) (t : wthread) : option (shared * wthread * Z) :=
  match fuel with
  | O => None
  | S f =>
      match wstep h t with
      | None => None
      | Some r =>
          match s_ret r with
          | Some (rc, _) => Some (s_sh r, s_t r, rc)
          | None => wrun f (s_sh r) (s_t r)
          end
      end
  end.

(* run the reader alone until its call returns: (state, thread, return value, bytes) *)
Fixpoint rrun (fuel : nat) (h : shared) (t : rthread) : option (shared * rthread * Z * list Z) :=
  match fuel with
  | O => None
  | S f =>
      match rstep h t with
      | None => None
      | Some r =>
          match s_ret r with
          | Some (rc, b) => Some (s_sh r, s_t r, rc, b)
          | None => rrun f (s_sh r) (s_t r)
          end
      end
  end.

Lemma wrun_copy : forall rest f h prog kk wp k, rest <> [] ->
  wrun (length rest + f) h {| w_prog := prog; w_k := kk; w_pc := WCopy wp k rest |} =
  wrun f (set_mem h (write_bytes (hmem h) (4 * hW h) (4 * ((wp + RB_CHUNK_HEADER_WORDS) mod hW h) + k) rest))
       {| w_prog := prog; w_k := kk; w_pc := WRdWpt3 |}.
Proof.
  induction rest as [|x rest IH]; intros f h prog kk wp k Hne; [congruence|].
  change (length (x :: rest) + f)%nat with (S (length rest + f)).
  cbn [wrun]. unfold wstep at 1. cbn [w_pc hW hmem].
  destruct rest as [|y rest'].
  - unfold w_at. cbn [s_ret s_sh s_t w_prog w_k length plus write_bytes]. reflexivity.
  - unfold w_at. cbn [s_ret s_sh s_t w_prog w_k].
    rewrite IH by discriminate. cbn [hW hmem set_mem].
    cbn [write_bytes].
    replace (4 * ((wp + RB_CHUNK_HEADER_WORDS) mod hW h) + k + 1) with (4 * ((wp + RB_CHUNK_HEADER_WORDS) mod hW h) + (k + 1)) by lia.
    reflexivity.
Qed.

(* qb_rb_chunk_write: the micro-steps executed in sequence = RbModel.write *)
Theorem seq_write : forall h d prog kk,
  match wrun (length d + 12) h {| w_prog := WWrite d :: prog; w_k := kk; w_pc := WCall |} with
  | Some (h', t', rc) => write (to_rb h) d = WRet (to_rb h') rc /\ t' = {| w_prog := prog; w_k := kk + 1; w_pc := WCall |}
  | None => False
  end.
Proof.
  intros h d prog kk.
  replace (length d + 12)%nat with (S (S (length d + 10))) by lia.
  cbn [wrun]. unfold wstep at 1. unfold w_at, w_ret; cbn [w_pc w_prog s_ret s_sh s_t w_at w_k].
  unfold wstep at 1. cbn [w_pc w_prog wdata].
  unfold write, alloc_commit, alloc. cbn [ovw to_rb]. unfold space_free. cbn [rW wpt rpt to_rb].
  destruct (free_words (hW h) (hwpt h) (hrpt h) * RB_SIZEOF_WORD <? zlen d + RB_CHUNK_MARGIN) eqn:Et.
  - unfold w_at, w_ret; cbn [s_ret s_sh s_t w_ret w_prog w_k tl]. split; [|reflexivity].
    replace (- RB_EAGAIN <? 0) with true by (unfold RB_EAGAIN; lia). reflexivity.
  - unfold w_at, w_ret; cbn [s_ret s_sh s_t w_at w_prog w_k].
    replace (length d + 10)%nat with (S (S (S (length d + 7)))) by lia.
    cbn [wrun]. unfold wstep at 1. unfold w_at, w_ret; cbn [w_pc w_prog s_ret s_sh s_t w_at w_k wdata].
    unfold wstep at 1. unfold w_at, w_ret; cbn [w_pc w_prog s_ret s_sh s_t w_at w_k wdata hmem hW set_mem].
    unfold wstep at 1. unfold w_at, w_ret; cbn [w_pc w_prog s_ret s_sh s_t w_at w_k wdata hmem hW set_mem].
    unfold alloc_header. cbn [data wpt rW to_rb set_data].
    set (m2 := stw (stw (hmem h) (hwpt h) 0) ((hwpt h + 1) mod hW h) RB_CHUNK_MAGIC_ALLOC).
    assert (Hrest : forall m3,
      match wrun 7 (set_mem h m3) {| w_prog := WWrite d :: prog; w_k := kk; w_pc := WRdWpt3 |} with
      | Some (h', t', rc) =>
          (let '(b2, r) := commit (set_data {| rW := hW h; wpt := hwpt h; rpt := hrpt h; data := m2; sem := hsem h; ovw := false |} m3) (zlen d) in
           WRet b2 (if r <? 0 then r else zlen d)) = WRet (to_rb h') rc /\
          t' = {| w_prog := prog; w_k := kk + 1; w_pc := WCall |}
      | None => False
      end).
    { intros m3. cbn [wrun]. unfold wstep at 1. unfold w_at, w_ret; cbn [w_pc w_prog s_ret s_sh s_t w_at w_k wdata hmem hW hwpt set_mem].
      unfold wstep at 1. unfold w_at, w_ret; cbn [w_pc w_prog s_ret s_sh s_t w_at w_k wdata hmem hW hwpt set_mem].
      unfold wstep at 1. unfold w_at, w_ret; cbn [w_pc w_prog s_ret s_sh s_t w_at w_k wdata hmem hW hwpt set_mem].
      unfold wstep at 1. unfold w_at, w_ret; cbn [w_pc w_prog s_ret s_sh s_t w_at w_k wdata hmem hW hwpt set_mem set_wpt].
      unfold wstep at 1. unfold w_at, w_ret; cbn [w_pc w_prog s_ret s_sh s_t w_at w_k wdata hmem hW hwpt hsem set_mem set_wpt].
      unfold commit, set_data, sem_post, set_sem. cbn [rW wpt rpt data sem ovw].
      destruct (hsem h) as [c|] eqn:Es.
      - unfold w_at, w_ret; cbn [s_ret s_sh s_t w_at w_prog w_k].
        unfold wstep at 1. unfold w_at, w_ret; cbn [w_pc w_prog s_ret s_sh s_t w_ret w_k wdata tl].
        unfold post, to_rb. cbn [hsem hW hwpt hrpt hmem set_hsem set_mem set_wpt]. rewrite Es.
        cbn [hsem hW hwpt hrpt hmem set_hsem set_mem set_wpt].
        split; reflexivity.
      - unfold w_at, w_ret; cbn [s_ret s_sh s_t w_ret w_prog w_k tl]. unfold to_rb. cbn [hsem hW hwpt hrpt hmem set_mem set_wpt]. rewrite Es.
        split; reflexivity. }
    destruct d as [|x d'].
    + cbn [length plus write_bytes]. specialize (Hrest m2). cbn [zlen length] in *. exact Hrest.
    + replace (length (x :: d') + 7)%nat with (length (x :: d') + 7)%nat by reflexivity.
      rewrite wrun_copy by discriminate. cbn [hmem hW set_mem].
      replace (4 * ((hwpt h + RB_CHUNK_HEADER_WORDS) mod hW h) + 0) with (4 * ((hwpt h + RB_CHUNK_HEADER_WORDS) mod hW h)) by lia.
      fold m2.
      match goal with |- context [set_mem (set_mem h _) ?m] =>
        change (set_mem (set_mem h m2) m) with (set_mem h m) end.
      apply Hrest.
Qed.

(* qb_rb_chunk_reclaim (= _rb_chunk_reclaim): the micro-steps executed in sequence = RbModel.reclaim *)
Theorem seq_reclaim : forall h prog kk sz acc buf hv,
  match rrun 9 h {| r_prog := RReclaim :: prog; r_k := kk; r_pc := RCall; r_size := sz; r_acc := acc; r_buf := buf;
                    r_have := hv |} with
  | Some (h', t', rc, b) => to_rb h' = fst (reclaim (to_rb h)) /\ rc = 0 /\ b = [] /\ r_prog t' = prog /\ r_pc t' = RCall
  | None => False
  end.
Proof.
  intros h prog kk sz acc buf hv.
  cbn [rrun]. unfold rstep at 1. cbn [r_pc r_prog]. unfold act_rc_rd_rpt, rgo, r_at.
  cbn [s_ret s_sh s_t r_prog r_k r_pc r_size r_acc r_buf r_have].
  unfold rstep at 1. cbn [r_pc r_prog].
  unfold reclaim. cbn [rpt wpt rW data to_rb].
  destruct (hrpt h =? hwpt h) eqn:E1.
  - cbn [orb]. unfold rc_fail, rcur. cbn [r_prog is_read]. unfold rreturn, r_ret.
    cbn [s_ret s_sh s_t r_prog r_k r_pc tl fst]. repeat split; reflexivity.
  - cbn [orb]. unfold rgo, r_at. cbn [s_ret s_sh s_t r_prog r_k r_pc r_size r_acc r_buf r_have].
    unfold rstep at 1. cbn [r_pc r_prog].
    destruct (ldw (hmem h) ((hrpt h + 1) mod hW h) =? RB_CHUNK_MAGIC) eqn:E2.
    + cbn [negb]. unfold rgo, r_at. cbn [s_ret s_sh s_t r_prog r_k r_pc r_size r_acc r_buf r_have].
      unfold rstep at 1. cbn [r_pc r_prog]. unfold r_at. cbn [s_ret s_sh s_t r_prog r_k r_pc r_size r_acc r_buf r_have].
      unfold rstep at 1. cbn [r_pc r_prog]. unfold rgo, r_at. cbn [s_ret s_sh s_t r_prog r_k r_pc r_size r_acc r_buf r_have].
      unfold rstep at 1. cbn [r_pc r_prog]. unfold r_at. cbn [s_ret s_sh s_t r_prog r_k r_pc r_size r_acc r_buf r_have hmem hW set_mem].
      unfold rstep at 1. cbn [r_pc r_prog]. unfold r_at. cbn [s_ret s_sh s_t r_prog r_k r_pc r_size r_acc r_buf r_have hmem hW set_mem].
      unfold rstep at 1. cbn [r_pc r_prog]. unfold rcur. cbn [r_prog is_read s_ret s_sh s_t r_pc tl fst].
      unfold to_rb. cbn [hW hwpt hrpt hmem hsem set_mem set_rpt]. repeat split; reflexivity.
    + cbn [negb]. unfold rc_fail, rcur. cbn [r_prog is_read]. unfold rreturn, r_ret.
      cbn [s_ret s_sh s_t r_prog r_k r_pc tl fst]. repeat split; reflexivity.
Qed.
