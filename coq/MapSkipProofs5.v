(* MapSkipProofs5 - C18 for the pointer-level skiplist model, coverage: what an iterator returns while entries are
   removed and added under it.  Proofs about the model only.

   Next to a run a ghost record per open iterator is kept exactly as the Python monitor keeps it (MapHashProofs6.v:
   stable = keys present at creation and not removed since, seen = keys returned so far).  Checked at every iter_next:
   a returned key is present, greater than every key returned before (so never returned twice - for the skiplist this
   holds even when keys are inserted meanwhile); when the end is reported every stable key has been returned. *)
From Coq Require Import List NArith ZArith Bool Arith Lia Sorted.
Require Import Verif.MapSpec Verif.MapHashModel Verif.MapSkipModel Verif.MapRefModel Verif.MapRefProofs Verif.MapHashProofs2
  Verif.MapHashProofs6 Verif.MapSkipProofs2 Verif.MapSkipProofs Verif.MapSkipProofs3.
Import ListNotations.

(* the keys on the level-0 chain, read off the state *)
Fixpoint kwalk (fuel : nat) (s : kstate) (cur : nat) : list key :=
  match fuel with
  | O => []
  | S f => match fwd s cur 0 with Ok (Some x) => nkey s x :: kwalk f s x | _ => [] end
  end.
Definition kkeys (s : kstate) : list key := kwalk (length (k_nodes s)) s HEADER.

Lemma kwalk_linked : forall s T fuel c, Linked s 0 c T -> length T <= fuel -> kwalk fuel s c = map (nkey s) T.
Proof.
  induction T; intros fuel c L Hf.
  - destruct fuel; auto. simpl in *. rewrite L. reflexivity.
  - destruct fuel; [simpl in Hf; lia|]. destruct L as [L1 L2]. cbn [kwalk map]. rewrite L1. f_equal. apply IHT; auto. simpl in Hf; lia.
Qed.

Lemma kkeys_good : forall RP ZP Zs s C0, SGood RP ZP Zs s C0 -> kkeys s = map (nkey s) C0.
Proof.
  intros. unfold kkeys. apply kwalk_linked.
  - generalize (sg_linked _ _ _ _ _ H 0 (Nat.le_0_l _)). rewrite chain_level0. auto.
  - eapply sgood_len; eauto.
Qed.

Definition gk_step (s : kstate) (o : op) (x : out) (g : ghost) : ghost :=
  if negb (k_alive s) then g else
  match o, x with
  | Put k _, _ => gmap (fun c => c_set_ins c (negb (key_in k (kkeys s)))) g
  | Rm k, _ => gmap (fun c => c_rm c k) g
  | Destroy, _ => []
  | IterCreate it _, ONone => (it, {| c_stable := kkeys s; c_seen := []; c_ins := false |}) :: g
  | IterNext it, ONext (Some (k, _)) => gset it (fun c => c_see c k) g
  | IterFree it, ONone => gremove it g
  | _, _ => g
  end.

Definition gk_check (s : kstate) (o : op) (x : out) (g : ghost) : Prop :=
  k_alive s = true ->
  match o, x with
  | IterNext it, ONext (Some (k, _)) =>
      forall c, glookup g it = Some c -> In k (kkeys s) /\ ~ In k (c_seen c) /\ (forall k', In k' (c_seen c) -> key_ltb k' k = true)
  | IterNext it, ONext None => forall c, glookup g it = Some c -> forall k', In k' (c_stable c) -> In k' (c_seen c)
  | _, _ => True
  end.

(* what the ghost record of one iterator has to do with its position *)
Definition CovK (nk : nat -> key) (C0 Zs : list nat) (zk : nat -> key) (pos : option nat) (c : cov) : Prop :=
  match pos with
  | None => forall k, In k (c_stable c) -> In k (c_seen c)
  | Some p => exists b, ((p = HEADER /\ b = None) \/ (In p C0 /\ b = Some (nk p)) \/ (In p Zs /\ b = Some (zk p))) /\
                (forall k, In k (c_seen c) -> above b k = false) /\
                (forall k, In k (c_stable c) -> In k (map nk C0) /\ (above b k = false -> In k (c_seen c)))
  end.

(* an iterator that does not move while the list changes around it *)
Lemma covk_keep : forall nk C0 Zs zk nk' C0' Zs' zk' pos c c',
  CovK nk C0 Zs zk pos c ->
  (forall p, pos = Some p -> In p C0 -> (In p C0' /\ nk' p = nk p) \/ (In p Zs' /\ zk' p = nk p)) ->
  (forall p, pos = Some p -> In p Zs -> In p Zs' /\ zk' p = zk p) ->
  c_seen c' = c_seen c -> (forall k, In k (c_stable c') -> In k (c_stable c)) ->
  (forall k, In k (c_stable c') -> In k (map nk C0) -> In k (map nk' C0')) ->
  CovK nk' C0' Zs' zk' pos c'.
Proof.
  intros nk C0 Zs zk nk' C0' Zs' zk' pos c c' CV PC PZ SE ST KS. destruct pos as [p|]; simpl in *.
  - destruct CV as [b [PB [A B]]]. exists b. split; [|split].
    + destruct PB as [Q|[[Q1 Q2]|[Q1 Q2]]]; auto.
      * destruct (PC p eq_refl Q1) as [[R1 R2]|[R1 R2]].
        { right; left. split; [exact R1|]. rewrite R2. exact Q2. }
        { right; right. split; [exact R1|]. rewrite R2. exact Q2. }
      * destruct (PZ p eq_refl Q1) as [R1 R2]. right; right. split; [exact R1|]. rewrite R2. exact Q2.
    + rewrite SE. auto.
    + intros k Hk. destruct (B k (ST k Hk)) as [B1 B2]. split; auto. rewrite SE. auto.
  - intros k Hk. rewrite SE. apply CV. auto.
Qed.

Lemma above_trans_false : forall b k1 k2, above b k1 = true -> above b k2 = false -> key_ltb k1 k2 = false.
Proof.
  intros [bk|] k1 k2; simpl; intros; [|discriminate].
  destruct (key_ltb k1 k2) eqn:E; auto. rewrite (key_ltb_trans _ _ _ H E) in H0. discriminate.
Qed.

(* the iterator that moves *)
Lemma covk_move : forall nk C0 Zs zk b x c, 
  (forall k, In k (c_seen c) -> above b k = false) ->
  (forall k, In k (c_stable c) -> In k (map nk C0) /\ (above b k = false -> In k (c_seen c))) ->
  In x C0 -> above b (nk x) = true -> (forall y, In y C0 -> key_ltb (nk y) (nk x) = true -> above b (nk y) = false) ->
  CovK nk C0 Zs zk (Some x) (c_see c (nk x)) /\ ~ In (nk x) (c_seen c) /\ (forall k', In k' (c_seen c) -> key_ltb k' (nk x) = true).
Proof.
  intros nk C0 Zs zk b x c A B XC AB MIN.
  assert (LTS : forall k', In k' (c_seen c) -> key_ltb k' (nk x) = true).
  { intros k' Hk. generalize (A k' Hk). intro Q. generalize (above_trans_false b (nk x) k' AB Q). intro R.
    apply key_ltb_total; auto. destruct (key_eqb (nk x) k') eqn:EQ; auto. apply key_eqb_eq in EQ. rewrite EQ in AB. congruence. }
  split; [|split; auto].
  - simpl. exists (Some (nk x)). split. right; left; auto. split.
    + intros k [Hk|Hk]. subst. simpl. apply key_ltb_irrefl. simpl. apply key_ltb_asym. apply LTS; auto.
    + intros k Hk. destruct (B k Hk) as [B1 B2]. split; auto. simpl. intro NA.
      destruct (key_eqb (nk x) k) eqn:EQ. apply key_eqb_eq in EQ. left; auto. right. apply B2.
      apply in_map_iff in B1. destruct B1 as [y [Y1 Y2]]. subst k. apply MIN; auto. apply key_ltb_total; auto.
  - intro Q. generalize (A _ Q). congruence.
Qed.

Lemma covk_end : forall nk C0 Zs zk b c,
  (forall k, In k (c_stable c) -> In k (map nk C0) /\ (above b k = false -> In k (c_seen c))) ->
  (forall y, In y C0 -> above b (nk y) = false) -> CovK nk C0 Zs zk None c.
Proof.
  intros nk C0 Zs zk b c B E k Hk. simpl. destruct (B k Hk) as [B1 B2]. apply B2.
  apply in_map_iff in B1. destruct B1 as [y [Y1 Y2]]. subst k. apply E; auto.
Qed.

(* ---------- the table of iterators and the ghost records ---------- *)
Definition CovAllK (s : kstate) (C0 Zs : list nat) (zk : nat -> key) (g : ghost) : Prop :=
  Forall2 (fun p q => fst p = fst q /\ CovK (nkey s) C0 Zs zk (snd p) (snd q)) (k_iters s) g.

Definition TCov (s : kstate) (g : ghost) : Prop :=
  exists C0 Zs cnt zk, KInv cnt zk s C0 Zs /\ (forall id, cnt id = kpc (map snd (k_iters s)) id) /\
    NoDup (map fst (k_iters s)) /\ (forall i, In i (map fst (k_iters s)) -> In i (k_used s)) /\ CovAllK s C0 Zs zk g.

Lemma kpc_in : forall (its : list (nat * option nat)) it p, In (it, Some p) its -> 1 <= kpc (map snd its) p.
Proof.
  induction its as [|[i q] its]; simpl; intros. contradiction. destruct H.
  - inversion H; subst. unfold pw. rewrite Nat.eqb_refl. lia.
  - apply IHits in H. lia.
Qed.

Lemma kpc_two : forall (A B : list (nat * option nat)) it i2 p, In (i2, Some p) (A ++ B) ->
  2 <= kpc (map snd (A ++ (it, Some p) :: B)) p.
Proof.
  intros. rewrite map_app. cbn [map snd]. rewrite kpc_mid. rewrite <- map_app. apply kpc_in in H. unfold pw. rewrite Nat.eqb_refl. lia.
Qed.

Lemma f2_split : forall {A B} (R : A -> B -> Prop) l1 e l2 g, Forall2 R (l1 ++ e :: l2) g ->
  exists g1 q g2, g = g1 ++ q :: g2 /\ Forall2 R l1 g1 /\ R e q /\ Forall2 R l2 g2.
Proof.
  intros. apply Forall2_app_inv_l in H. destruct H as [g1 [g' [H1 [H2 H3]]]]. inversion H2; subst.
  exists g1, y, l'. auto.
Qed.

Lemma f2_fst : forall {A B} (R : nat * A -> nat * B -> Prop) l g, (forall p q, R p q -> fst p = fst q) -> Forall2 R l g -> map fst l = map fst g.
Proof. induction 2; simpl; auto. f_equal; auto. Qed.

Lemma f2_weaken : forall {A B} (R R' : A -> B -> Prop) l g, Forall2 R l g -> (forall p q, In p l -> R p q -> R' p q) -> Forall2 R' l g.
Proof. induction 1; intros; constructor. apply H1; auto. left; auto. apply IHForall2. intros. apply H1; auto. right; auto. Qed.

Lemma gset_other : forall (g : ghost) it f, ~ In it (map fst g) -> gset it f g = g.
Proof.
  unfold gset. induction g as [|[i c] g]; simpl; intros; auto. rewrite IHg by tauto.
  replace (Nat.eqb i it) with false by (symmetry; apply Nat.eqb_neq; intro; subst; tauto). reflexivity.
Qed.
Lemma gset_split : forall (g1 g2 : ghost) it c f, ~ In it (map fst g1) -> ~ In it (map fst g2) ->
  gset it f (g1 ++ (it, c) :: g2) = g1 ++ (it, f c) :: g2.
Proof.
  intros. unfold gset. rewrite map_app. simpl. rewrite Nat.eqb_refl. fold (gset it f g1). fold (gset it f g2). rewrite !gset_other; auto.
Qed.
Lemma gremove_other : forall (g : ghost) it, ~ In it (map fst g) -> gremove it g = g.
Proof.
  unfold gremove. induction g as [|[i c] g]; simpl; intros; auto.
  replace (Nat.eqb i it) with false by (symmetry; apply Nat.eqb_neq; intro; subst; tauto). simpl. rewrite IHg by tauto. reflexivity.
Qed.
Lemma gremove_split : forall (g1 g2 : ghost) it c, ~ In it (map fst g1) -> ~ In it (map fst g2) ->
  gremove it (g1 ++ (it, c) :: g2) = g1 ++ g2.
Proof.
  intros. unfold gremove. rewrite filter_app. simpl. rewrite Nat.eqb_refl. simpl. fold (gremove it g1). fold (gremove it g2). rewrite !gremove_other; auto.
Qed.

Lemma destroy_dead : forall s s' ns, k_destroy kv_fixed s = Ok (s', ns) -> k_alive s' = false.
Proof.
  intros s s' ns. unfold k_destroy. simpl kx_removed. cbv iota.
  destruct (node_next (search_fuel s) s HEADER) as [o|]; cbn [bind]; try discriminate.
  destruct (k_destroy_loop kv_fixed (S (length (k_nodes s))) s o) as [[s1 ns1]|]; cbn [bind]; try discriminate.
  destruct (k_node_destroy kv_fixed s1 HEADER) as [[s2 ns2]|]; cbn [bind]; try discriminate.
  intro H. inversion H. reflexivity.
Qed.

(* all iterators stay where they are while the list changes *)
Lemma covall_keep : forall s C0 Zs zk s' C0' Zs' zk' g f,
  CovAllK s C0 Zs zk g -> k_iters s' = k_iters s ->
  (forall it pos c, In (it, pos) (k_iters s) -> CovK (nkey s) C0 Zs zk pos c -> CovK (nkey s') C0' Zs' zk' pos (f c)) ->
  CovAllK s' C0' Zs' zk' (gmap f g).
Proof.
  intros. unfold CovAllK, gmap. rewrite H0. eapply forall2_map_r. exact H.
  intros [it pos] [it2 c] Hin [Q1 Q2]. simpl in *. split; auto. eapply H1; eauto.
Qed.

Lemma op_eq_destroy : forall o : op, o = Destroy \/ o <> Destroy.
Proof. intros. destruct o; try (right; discriminate). left; auto. Qed.

Lemma tcov_alive : forall s g, TCov s g -> k_alive s = true.
Proof. intros s g [C0 [Zs [cnt [zk [K _]]]]]. apply (sg_alive _ _ _ _ _ (ki_good _ _ _ _ _ K)). Qed.

(* ---------- the operations that are not iterator operations ---------- *)
Lemma cov_plain : forall rc s o orc g, TCov s g -> is_iter_op o = false -> (forall k, o <> Rm k) ->
  exists s' x ns, k_step kv_fixed rc s o orc = Ok (s', x, ns) /\ (k_alive s' = false \/ TCov s' (gk_step s o x g)).
Proof.
  intros rc s o orc g T IO NR. generalize (tcov_alive _ _ T). intro AL.
  destruct T as [C0 [Zs [cnt [zk [K [CNT [ND [US CA]]]]]]]].
  destruct (kinv_plain cnt zk s C0 Zs rc o orc K IO NR) as [s' [x [ns [E1 E2]]]]. exists s', x, ns. split; auto.
  destruct E2 as [E2|[[C0' [E2 SUB]] [E3 E4]]]; auto.
  assert (DD : o = Destroy -> k_alive s' = false).
  { intro; subst o. destruct rc as [[e1 e2] e3]. unfold k_step in E1. rewrite AL in E1. cbn [negb] in E1.
    destruct (k_destroy kv_fixed s) as [[s1 ns1]|] eqn:DE; cbn [bind] in E1; try discriminate. inversion E1; subst. eapply destroy_dead; eauto. }
  destruct (op_eq_destroy o) as [OD|OD]. left; auto.
  right. exists C0', Zs, cnt, zk. rewrite E3, E4. split; auto. split; auto. split; auto. split; auto.
  assert (KEEP : forall f, (forall c, c_seen (f c) = c_seen c) -> (forall c, c_stable (f c) = c_stable c) -> CovAllK s' C0' Zs zk (gmap f g)).
  { intros f F1 F2. eapply covall_keep; eauto. intros it pos c Hin CV. eapply covk_keep. exact CV.
    - intros p _ Hp. left. apply SUB; auto.
    - intros p _ Hp. auto.
    - apply F1.
    - intros k. rewrite F2. auto.
    - intros k _ Hk. apply in_map_iff in Hk. destruct Hk as [y [Y1 Y2]]. apply in_map_iff. exists y. destruct (SUB y Y2). split; auto. congruence. }
  unfold gk_step. rewrite AL. cbn [negb].
  destruct o; try discriminate; try (rewrite <- (gmap_id g); apply KEEP; auto; fail).
  - apply KEEP; auto.
  - exfalso. apply (NR k); auto.
  - congruence.
Qed.

Lemma cov_rm : forall rc s k orc g, TCov s g ->
  exists s' x ns, k_step kv_fixed rc s (Rm k) orc = Ok (s', x, ns) /\ TCov s' (gk_step s (Rm k) x g).
Proof.
  intros rc s k orc g T. generalize (tcov_alive _ _ T). intro AL.
  destruct T as [C0 [Zs [cnt [zk [K [CNT [ND [US CA]]]]]]]].
  destruct (kinv_rm cnt zk s C0 Zs k K) as [s' [b [ns [C0' [Zs' [zk' [E1 [E2 [[E3 [E4 E5]] [ZZ CS]]]]]]]]]].
  destruct rc as [[e1 e2] e3]. unfold k_step. rewrite AL. cbn [negb]. rewrite E1. cbn [bind].
  eexists _, _, _. split; [reflexivity|]. exists C0', Zs', cnt, zk'. rewrite E3, E4. split; auto. split; auto. split; auto. split; auto.
  unfold gk_step. rewrite AL. cbn [negb]. eapply covall_keep; eauto.
  intros it pos c Hin CV. eapply covk_keep. exact CV.
  - intros p EP Hp. subst pos. destruct CS as [[S1 [S2 S3]]|[lo [y [hi' [S1 [S2 [S3 [S4 S5]]]]]]]].
    + subst. left. auto.
    + destruct (Nat.eq_dec p y).
      * subst p. right. rewrite S3. apply S5. rewrite CNT. eapply kpc_in; eauto.
      * left. assert (In p C0'). { rewrite S2. rewrite S1 in Hp. apply in_app_or in Hp. apply in_or_app. destruct Hp as [Q|[Q|Q]]; auto. congruence. }
        split; auto.
  - intros p _ Hp. apply ZZ; auto.
  - reflexivity.
  - intros k0 Hk. simpl in Hk. apply key_remove_in in Hk. apply Hk.
  - intros k0 Hk Hin0. simpl in Hk. apply key_remove_in in Hk. destruct Hk as [_ NE].
    apply in_map_iff in Hin0. destruct Hin0 as [y0 [Y1 Y2]]. apply in_map_iff.
    destruct CS as [[S1 [S2 S3]]|[lo [y [hi' [S1 [S2 [S3 [S4 S5]]]]]]]].
    + subst. exists y0. auto.
    + assert (y0 <> y) by (intro; subst y0; congruence).
      assert (In y0 C0'). { rewrite S2. rewrite S1 in Y2. apply in_app_or in Y2. apply in_or_app. destruct Y2 as [Q|[Q|Q]]; auto. congruence. }
      exists y0. split; auto. rewrite S4; auto.
Qed.

(* ---------- iterator operations ---------- *)
Lemma cov_fst : forall nk C0 Zs zk (l : list (nat * option nat)) (g : ghost),
  Forall2 (fun p q => fst p = fst q /\ CovK nk C0 Zs zk (snd p) (snd q)) l g -> map fst l = map fst g.
Proof. intros. eapply f2_fst. 2: exact H. intros p q [Q _]; auto. Qed.

Lemma cov_iter : forall rc s o orc g, TCov s g -> is_iter_op o = true ->
  exists s' x ns, k_step kv_fixed rc s o orc = Ok (s', x, ns) /\ gk_check s o x g /\ TCov s' (gk_step s o x g).
Proof.
  intros rc s o orc g T IO. generalize (tcov_alive _ _ T). intro AL. generalize T. intro T0.
  destruct T as [C0 [Zs [cnt [zk [K [CNT [ND [US CA]]]]]]]].
  generalize (ki_good _ _ _ _ _ K). intro G.
  destruct rc as [[e1 e2] e3]. destruct o; try discriminate; unfold k_step, gk_step, gk_check; rewrite AL; cbn [negb].
  - (* create *)
    destruct (existsb (Nat.eqb it) (k_used s)) eqn:EX.
    { exists s, OIgnored, []. split; auto. }
    destruct (kinv_iter_create cnt zk s C0 Zs K) as [h [E1 [E2 E3]]]. rewrite E1. cbn [bind].
    eexists _, _, _. split; [reflexivity|]. split; auto. exists C0, Zs, (inc cnt HEADER), zk. split; [|split; [|split; [|split]]].
    + eapply kinv_same_heap. exact E2. all: try reflexivity. simpl. auto.
    + intros id. cbn [k_iters map snd kpc]. unfold inc, pw. rewrite CNT. cbn [k_iters put_node set_nodes]. destruct (Nat.eqb id HEADER); lia.
    + cbn [k_iters map fst put_node set_nodes]. constructor; auto. intro Q. apply US in Q.
      assert (existsb (Nat.eqb it) (k_used s) = true) by (apply existsb_exists; exists it; split; auto; apply Nat.eqb_refl). congruence.
    + cbn [k_iters k_used map fst put_node set_nodes]. intros i [Q|Q]. left; auto. right; auto.
    + unfold CovAllK. cbn [k_iters put_node set_nodes]. constructor.
      * split; auto. simpl. exists None. split. left; auto. split. intros k [].
        intros k Hk. rewrite (kkeys_good _ _ _ _ _ G) in Hk. split; [|discriminate].
        apply in_map_iff in Hk. destruct Hk as [y [Y1 Y2]]. apply in_map_iff. exists y. split; auto.
        rewrite <- Y1. apply (keys_same_nkey s (put_node s HEADER (bumpk h)) C0 y E3 Y2).
      * eapply f2_weaken. exact CA. intros [i pos] [i2 c] Hin [Q1 Q2]. split; auto. simpl in *.
        eapply covk_keep. exact Q2.
        { intros p _ Hp. left. split; auto. apply (keys_same_nkey s (put_node s HEADER (bumpk h)) C0 p E3 Hp). }
        { auto. } { auto. } { auto. }
        { intros k _ Hk. apply in_map_iff in Hk. destruct Hk as [y [Y1 Y2]]. apply in_map_iff. exists y. split; auto.
          rewrite <- Y1. apply (keys_same_nkey s (put_node s HEADER (bumpk h)) C0 y E3 Y2). }
  - (* next *)
    destruct (kiter_lookup (k_iters s) it) as [pos|] eqn:LK.
    2:{ exists s, OIgnored, []. split; auto. }
    destruct (tab_split _ _ _ ND LK) as [A [B [T1 [T2 T3]]]].
    assert (CA0 := CA).
    unfold CovAllK in CA. rewrite T1 in CA. destruct (f2_split _ _ _ _ _ CA) as [gA [[i0 c] [gB [GE [FA [[FM1 FM2] FB]]]]]]. simpl in FM1, FM2. subst i0.
    assert (GA : ~ In it (map fst gA)). { rewrite <- (cov_fst _ _ _ _ _ _ FA). auto. }
    assert (GB : ~ In it (map fst gB)). { rewrite <- (cov_fst _ _ _ _ _ _ FB). auto. }
    assert (GL : glookup g it = Some c) by (rewrite GE; apply glookup_split; auto).
    destruct pos as [p|].
    + assert (CP : 1 <= cnt p). { rewrite CNT. eapply kpc_in. rewrite T1. apply in_or_app. right. left. reflexivity. }
      destruct (kinv_iter_next cnt zk s C0 Zs p K CP) as [s' [pos1 [r [ns [Zs' [b [E1 [E2 [[E3 [E4 E5]] [KS [ZI [ZK [PBp [SC RR]]]]]]]]]]]]]]. rewrite E1. cbn [bind].
      simpl in FM2. destruct FM2 as [b0 [PB0 [SA SB]]].
      assert (b0 = b) by (apply (pb_fun cnt zk s C0 Zs p b0 b K PB0 PBp)). subst b0.
      assert (NK : forall y, In y C0 -> nkey s' y = nkey s y) by (intros; eapply keys_same_nkey; eauto).
      (* everybody else stays *)
      assert (OTH : forall l gl, (forall e, In e l -> In e (A ++ B)) ->
                Forall2 (fun p0 q => fst p0 = fst q /\ CovK (nkey s) C0 Zs zk (snd p0) (snd q)) l gl ->
                Forall2 (fun p0 q => fst p0 = fst q /\ CovK (nkey s') C0 Zs' zk (snd p0) (snd q)) l gl).
      { intros l gl SUBL F. eapply f2_weaken. exact F. intros [i q] [i2 c2] Hin [Q1 Q2]. split; auto. simpl in *.
        eapply covk_keep. exact Q2.
        - intros q0 _ Hq. left. auto.
        - intros q0 EQ Hq. subst q. split; auto. apply ZK; auto. destruct (Nat.eq_dec q0 p); auto. subst q0. right.
          rewrite CNT, T1. eapply kpc_two. apply SUBL. exact Hin.
        - auto.
        - auto.
        - intros k _ Hk. apply in_map_iff in Hk. destruct Hk as [y [Y1 Y2]]. apply in_map_iff. exists y. split; auto. rewrite NK; auto. }
      eexists _, _, _. split; [reflexivity|].
      destruct pos1 as [x1|]; simpl in RR; subst r.
      * destruct SC as [XC [XA XM]].
        destruct (covk_move (nkey s) C0 Zs zk b x1 c SA SB XC XA XM) as [MV [NS ASC]].
        assert (KX : fst (kvk' s' x1) = nkey s x1). { unfold kvk', kv. simpl. rewrite sent_key. apply NK; auto. }
        destruct (kvk' s' x1) as [kx vx] eqn:KV. simpl in KX. subst kx.
        split.
        { intros _ c0 Hc0. rewrite GL in Hc0. inversion Hc0; subst c0. split; auto.
          rewrite (kkeys_good _ _ _ _ _ G). apply in_map; auto. }
        exists C0, Zs', (dec (inc cnt x1) p), zk. rewrite E3, T1, tab_map by auto. split; [|split; [|split; [|split]]].
        { eapply kinv_same_heap. exact E2. all: reflexivity. }
        { intros id. cbn [k_iters set_kiters]. rewrite map_app. cbn [map snd]. rewrite kpc_mid.
          generalize (CNT id). rewrite T1, map_app. cbn [map snd]. rewrite kpc_mid. rewrite <- map_app. intro Q.
          unfold dec, inc, pw in *. destruct (Nat.eqb id p), (Nat.eqb id x1); lia. }
        { cbn [k_iters set_kiters]. rewrite T1 in ND. rewrite map_app in *. exact ND. }
        { cbn [k_iters set_kiters k_used]. rewrite E4. intros i Hi. apply US. rewrite T1. rewrite map_app in *. exact Hi. }
        { unfold CovAllK. cbn [k_iters set_kiters]. rewrite GE, gset_split by auto. apply Forall2_app.
          - apply OTH; auto. intros e He. apply in_or_app; auto.
          - constructor.
            + split; auto. simpl snd. eapply covk_keep. exact MV.
              * intros q0 EQ Hq. inversion EQ; subst q0. left. exact (conj Hq (NK x1 Hq)).
              * intros q0 EQ Hq. inversion EQ; subst q0. exfalso. apply (kinv_disj cnt zk s C0 Zs x1 K). right; auto. auto.
              * reflexivity.
              * auto.
              * intros k _ Hk. apply in_map_iff in Hk. destruct Hk as [y [Y1 Y2]]. apply in_map_iff. exists y. split; auto. rewrite <- Y1. exact (NK y Y2).
            + apply OTH; auto. intros e He. apply in_or_app; auto. }
      * simpl in SC.
        assert (EN : CovK (nkey s) C0 Zs zk None c) by (eapply covk_end; eauto).
        split.
        { intros _ c0 Hc0. rewrite GL in Hc0. inversion Hc0; subst c0. exact EN. }
        exists C0, Zs', (dec cnt p), zk. rewrite E3, T1, tab_map by auto. split; [|split; [|split; [|split]]].
        { eapply kinv_same_heap. exact E2. all: reflexivity. }
        { intros id. cbn [k_iters set_kiters]. rewrite map_app. cbn [map snd]. rewrite kpc_mid.
          generalize (CNT id). rewrite T1, map_app. cbn [map snd]. rewrite kpc_mid. rewrite <- map_app. intro Q.
          unfold dec, pw in *. destruct (Nat.eqb id p); lia. }
        { cbn [k_iters set_kiters]. rewrite T1 in ND. rewrite map_app in *. exact ND. }
        { cbn [k_iters set_kiters k_used]. rewrite E4. intros i Hi. apply US. rewrite T1. rewrite map_app in *. exact Hi. }
        { unfold CovAllK. cbn [k_iters set_kiters]. rewrite GE. apply Forall2_app.
          - apply OTH; auto. intros e He. apply in_or_app; auto.
          - constructor.
            + split; auto.
            + apply OTH; auto. intros e He. apply in_or_app; auto. }
    + cbn [k_iter_next bind]. eexists _, _, _. split; [reflexivity|]. split.
      { intros _ c0 Hc0. rewrite GL in Hc0. inversion Hc0; subst c0. exact FM2. }
      rewrite T1, tab_map by auto. rewrite <- T1.
      exists C0, Zs, cnt, zk. split; [|split; [|split; [|split]]]; auto.
      eapply kinv_same_heap. exact K. all: reflexivity.
  - (* free *)
    destruct (kiter_lookup (k_iters s) it) as [pos|] eqn:LK.
    2:{ exists s, OIgnored, []. split; auto. }
    destruct (tab_split _ _ _ ND LK) as [A [B [T1 [T2 T3]]]].
    unfold CovAllK in CA. rewrite T1 in CA. destruct (f2_split _ _ _ _ _ CA) as [gA [[i0 c] [gB [GE [FA [[FM1 FM2] FB]]]]]]. simpl in FM1, FM2. subst i0.
    assert (GA : ~ In it (map fst gA)). { rewrite <- (cov_fst _ _ _ _ _ _ FA). auto. }
    assert (GB : ~ In it (map fst gB)). { rewrite <- (cov_fst _ _ _ _ _ _ FB). auto. }
    assert (NDF : NoDup (map fst (A ++ B))). { rewrite T1 in ND. rewrite map_app in *. cbn [map] in ND. apply NoDup_remove_1 in ND. exact ND. }
    assert (USF : forall i, In i (map fst (A ++ B)) -> In i (k_used s)).
    { intros i Hi. apply US. rewrite T1. rewrite map_app in *. apply in_app_or in Hi. apply in_or_app. destruct Hi; auto. right; right; auto. }
    destruct pos as [p|].
    + assert (CP : 1 <= cnt p). { rewrite CNT. eapply kpc_in. rewrite T1. apply in_or_app. right. left. reflexivity. }
      destruct (kinv_iter_free cnt zk s C0 Zs p K CP) as [s' [ns [Zs' [E1 [E2 [[E3 [E4 E5]] [KS [ZI ZK]]]]]]]]. rewrite E1. cbn [bind].
      assert (NK : forall y, In y C0 -> nkey s' y = nkey s y) by (intros; eapply keys_same_nkey; eauto).
      assert (OTH : forall l gl, (forall e, In e l -> In e (A ++ B)) ->
                Forall2 (fun p0 q => fst p0 = fst q /\ CovK (nkey s) C0 Zs zk (snd p0) (snd q)) l gl ->
                Forall2 (fun p0 q => fst p0 = fst q /\ CovK (nkey s') C0 Zs' zk (snd p0) (snd q)) l gl).
      { intros l gl SUBL F. eapply f2_weaken. exact F. intros [i q] [i2 c2] Hin [Q1 Q2]. split; auto. simpl in *.
        eapply covk_keep. exact Q2.
        - intros q0 _ Hq. left. auto.
        - intros q0 EQ Hq. subst q. split; auto. apply ZK; auto. destruct (Nat.eq_dec q0 p); auto. subst q0. right.
          rewrite CNT, T1. eapply kpc_two. apply SUBL. exact Hin.
        - auto.
        - auto.
        - intros k _ Hk. apply in_map_iff in Hk. destruct Hk as [y [Y1 Y2]]. apply in_map_iff. exists y. split; auto. rewrite NK; auto. }
      eexists _, _, _. split; [reflexivity|]. split; auto.
      exists C0, Zs', (dec cnt p), zk. rewrite E3, T1, tab_filter by auto. split; [|split; [|split; [|split]]].
      { eapply kinv_same_heap. exact E2. all: reflexivity. }
      { intros id. cbn [k_iters set_kiters].
        generalize (CNT id). rewrite T1, map_app. cbn [map snd]. rewrite kpc_mid. rewrite <- map_app. intro Q.
        unfold dec, pw in *. destruct (Nat.eqb id p); lia. }
      { exact NDF. }
      { cbn [k_iters set_kiters k_used]. rewrite E4. exact USF. }
      { unfold CovAllK. cbn [k_iters set_kiters]. rewrite GE, gremove_split by auto. apply Forall2_app.
        - apply OTH; auto. intros e He. apply in_or_app; auto.
        - apply OTH; auto. intros e He. apply in_or_app; auto. }
    + unfold k_iter_free. simpl kx_iter_free. cbv iota. cbn [bind]. eexists _, _, _. split; [reflexivity|]. split; auto.
      rewrite T1, tab_filter by auto.
      exists C0, Zs, cnt, zk. split; [|split; [|split; [|split]]]; auto.
      { eapply kinv_same_heap. exact K. all: reflexivity. }
      { intros id. cbn [k_iters set_kiters]. rewrite (CNT id), T1, map_app. cbn [map snd]. rewrite kpc_mid. rewrite <- map_app. simpl. lia. }
      { unfold CovAllK. cbn [k_iters set_kiters]. rewrite GE, gremove_split by auto. apply Forall2_app; auto. }
Qed.

(* ---------- all histories ---------- *)
Theorem skip_step_cov : forall rc s o orc g, (k_alive s = false \/ TCov s g) ->
  exists s' x ns, k_step kv_fixed rc s o orc = Ok (s', x, ns) /\ gk_check s o x g /\
    (k_alive s' = false \/ TCov s' (gk_step s o x g)).
Proof.
  intros rc s o orc g [D|T].
  { exists s, OIgnored, []. destruct rc as [[e1 e2] e3]. unfold k_step. rewrite D. simpl. split; auto. split; auto. intro; congruence. }
  destruct (is_iter_op o) eqn:IO.
  - destruct (cov_iter rc s o orc g T IO) as [s' [x [ns [E1 [E2 E3]]]]]. exists s', x, ns. auto.
  - assert (CK : forall x, gk_check s o x g). { intros x _. destruct o; try discriminate; exact I. }
    assert (RMC : (exists k, o = Rm k) \/ (forall k, o <> Rm k)).
    { destruct o; try (right; intros; discriminate). left; eauto. }
    destruct RMC as [[k RK]|NR].
    + subst o. destruct (cov_rm rc s k orc g T) as [s' [x [ns [E1 E2]]]]. exists s', x, ns. auto.
    + destruct (cov_plain rc s o orc g T IO NR) as [s' [x [ns [E1 E2]]]]. exists s', x, ns. auto.
Qed.

Fixpoint gk_run (s : kstate) (g : ghost) (ops : list (op * list Z)) : Prop :=
  match ops with
  | [] => True
  | (o, orc) :: t =>
    match k_step kv_fixed rc_consts s o orc with
    | Err _ => False
    | Ok (s', x, _) => gk_check s o x g /\ gk_run s' (gk_step s o x g) t
    end
  end.

Theorem skip_c18_coverage_from : forall ops s g, (k_alive s = false \/ TCov s g) -> gk_run s g ops.
Proof.
  induction ops as [|[o orc] ops]; intros s g T; cbn [gk_run]; auto.
  destruct (skip_step_cov rc_consts s o orc g T) as [s' [x [ns [E1 [E2 E3]]]]]. rewrite E1. split; auto.
Qed.

(* C18, coverage clauses, pointer-level skiplist model: along EVERY history - any interleaving of iterator operations
   with insertions and removals, any random() answers - at every iter_next that returns a key the key is present and
   greater than every key that iterator returned before (hence never returned twice, insertions or not), and at every
   iter_next that reports the end every key that was present when the iterator was created and has not been removed
   since has been returned by it *)
Theorem skip_c18_coverage : forall ops, gk_run k_create [] ops.
Proof.
  intros. apply skip_c18_coverage_from. right. exists [], [], (fun _ => 0), (fun _ => []). split; [|split; [|split; [|split]]].
  - constructor. apply sgood_create_g. reflexivity. intros. lia.
  - intros. reflexivity.
  - constructor.
  - intros i [].
  - constructor.
Qed.

(* non-vacuity: the ghost record the checks are about, after put b, put c, create, next (-> b), rm b, next (-> c) *)
Fixpoint gk_after (s : kstate) (g : ghost) (ops : list (op * list Z)) : option (kstate * ghost) :=
  match ops with
  | [] => Some (s, g)
  | (o, orc) :: t => match k_step kv_fixed rc_consts s o orc with Ok (s', x, _) => gk_after s' (gk_step s o x g) t | Err _ => None end
  end.

Lemma skip_c18_coverage_example :
  option_map snd (gk_after k_create [] [(Put kb 1%N, lvl0); (Put kc 2%N, lvl0); (IterCreate 0 None, []); (IterNext 0, []);
                                        (Rm kb, []); (IterNext 0, [])]) =
  Some [(0, {| c_stable := [kc]; c_seen := [kc; kb]; c_ins := false |})].
Proof. vm_compute. reflexivity. Qed.
