(* C09: the 64/32-bit arithmetic of the timer source: expiry computation and poll timeout.
   (Part of the LoopTimerProofs development; model: LoopTimerModel.v.) *)
From Coq Require Import ZArith List Bool Lia.
Import ListNotations.
Require Import Verif.gen.Consts_looptimer Verif.HeapModel Verif.HeapProofs Verif.LoopTimerModel.
Local Open Scope Z_scope.

Ltac Zify.zify_post_hook ::= Z.div_mod_to_equations.

(* side conditions on the regenerated constants *)
Lemma lt_consts_ok :
  LT_UINT64_MAX = two64 - 1 /\ LT_INT32_MAX = two31 - 1 /\ LT_NS_IN_MSEC = 1000000 /\
  LT_SIZEOF_EXPIRE = 8 /\ LT_SIZEOF_MS_TIMEOUT = 4 /\ LT_SIZEOF_TIMER_HANDLE = 8 /\
  LT_LOOP_LOW = 0 /\ LT_LOOP_MED = 1 /\ LT_LOOP_HIGH = 2 /\
  LT_ENTRY_EMPTY = 0 /\ LT_ENTRY_ACTIVE <> LT_ENTRY_EMPTY /\ LT_ENTRY_JOBLIST <> LT_ENTRY_EMPTY /\
  LT_ENTRY_ACTIVE <> LT_ENTRY_JOBLIST /\ LT_ENTRY_DELETED <> LT_ENTRY_ACTIVE /\ LT_ENTRY_DELETED <> LT_ENTRY_JOBLIST /\
  LT_ENTRY_DELETED <> LT_ENTRY_EMPTY /\
  1 <= LT_TO_PROCESS /\ LT_TO_PROCESS_MED = LT_TO_PROCESS /\ LT_TO_PROCESS_HIGH = LT_TO_PROCESS.
Proof. vm_compute. repeat split; congruence. Qed.

Definition u64 (x : Z) : Prop := 0 <= x <= LT_UINT64_MAX.

(* ---------------------------------------------------------------- expiry time *)
(* repaired code: the saturating sum *)
Lemma expire_of_fixed : forall now d, u64 now -> u64 d ->
  expire_of fixed now d = Z.min (now + d) LT_UINT64_MAX /\ u64 (expire_of fixed now d).
Proof.
  intros now d Hn Hd. unfold expire_of, u64 in *. cbn [f_sat fixed].
  destruct (d >? LT_UINT64_MAX - now) eqn:E; [apply Z.gtb_lt in E|rewrite Z.gtb_ltb in E; apply Z.ltb_ge in E];
    unfold LT_UINT64_MAX in *; lia.
Qed.

(* never early, arithmetic core: if the expiry test `expire_time < now'` succeeds at a clock value
   now' that fits in 64 bits, then the full duration has really elapsed (no wrap-around) *)
Lemma expire_of_fixed_never_early : forall now d now', u64 now -> u64 d -> u64 now' ->
  expire_of fixed now d < now' -> now + d < now'.
Proof.
  intros now d now' Hn Hd Hn' H. destruct (expire_of_fixed now d Hn Hd) as [E _]. rewrite E in H.
  unfold u64 in *. lia.
Qed.

(* ... and it is not late either: once the duration has elapsed the test succeeds *)
Lemma expire_of_fixed_due : forall now d now', u64 now -> u64 d -> u64 now' ->
  now + d < now' -> expire_of fixed now d < now'.
Proof.
  intros now d now' Hn Hd Hn' H. destruct (expire_of_fixed now d Hn Hd) as [E _]. rewrite E.
  unfold u64 in *. lia.
Qed.

(* code as found: the sum wraps; a duration of 2^64 - 6 ns asked at clock 1000 is "due" at once *)
Lemma expire_of_as_found_refuted :
  exists now d now', u64 now /\ u64 d /\ u64 now' /\ expire_of as_found now d < now' /\ ~ (now + d < now').
Proof. exists 1000, (two64 - 6), 1000. vm_compute. repeat split; congruence. Qed.

(* ---------------------------------------------------------------- poll timeout *)
Lemma to_i32_small : forall x, 0 <= x <= LT_INT32_MAX -> to_i32 x = x.
Proof.
  intros x H. unfold to_i32, two32, two31, LT_INT32_MAX in *.
  rewrite Z.mod_small by lia. replace (x <? 2147483648) with true by (symmetry; apply Z.ltb_lt; lia). reflexivity.
Qed.

(* qb_loop_timer_msec_duration_to_expire, repaired: for every 64-bit `left' other than the
   "no timer" marker the int32_t handed to the poll source is in [0, INT32_MAX] and never larger than left *)
Lemma narrow_fixed_sound : forall left, u64 left -> left <> LT_UINT64_MAX ->
  0 <= narrow_timeout fixed left <= LT_INT32_MAX /\ narrow_timeout fixed left <= left /\
  (left <= LT_INT32_MAX -> narrow_timeout fixed left = left).
Proof.
  intros left H N. unfold narrow_timeout. cbn [f_clamp fixed].
  replace (left =? LT_UINT64_MAX) with false by (symmetry; apply Z.eqb_neq; assumption). cbn [negb andb].
  destruct (left >? LT_INT32_MAX) eqn:E.
  - apply Z.gtb_lt in E. unfold LT_INT32_MAX in *. lia.
  - rewrite Z.gtb_ltb in E. apply Z.ltb_ge in E. unfold u64 in H. rewrite to_i32_small by lia. lia.
Qed.

Lemma narrow_fixed_none : narrow_timeout fixed LT_UINT64_MAX = -1.
Proof. vm_compute. reflexivity. Qed.

(* code as found: every `left' from 2^31 ms upwards becomes negative *)
Lemma narrow_as_found_refuted :
  narrow_timeout as_found 2147483658 = -2147483638 /\ narrow_timeout as_found 4294967306 = -2 /\
  (forall left, two31 <= left <= LT_UINT64_MAX -> narrow_timeout as_found left < 0).
Proof.
  split; [vm_compute; reflexivity|]. split; [vm_compute; reflexivity|].
  intros left H. unfold narrow_timeout. cbn [f_clamp as_found].
  destruct (left =? LT_UINT64_MAX) eqn:E1; cbn [negb andb].
  - apply Z.eqb_eq in E1. subst. vm_compute. reflexivity.
  - destruct (left >? 4294967295) eqn:E2; [vm_compute; reflexivity|].
    rewrite Z.gtb_ltb in E2. apply Z.ltb_ge in E2. unfold to_i32, two32, two31 in *.
    rewrite Z.mod_small by lia. replace (left <? 2147483648) with false by (symmetry; apply Z.ltb_ge; lia). lia.
Qed.

(* TICK: the slack 1000 / timerlist_hertz in ms *)
Definition tick_ms (st : lp) : Z := 1000 / hz st.

(* timerlist_msec_duration_to_expire with a non-empty heap *)
Lemma tl_msec_value : forall st r, at_ (ents (heap st)) 0 r -> u64 (clk st) -> u64 (t_exp r) -> 0 < hz st ->
  let left := fst (tl_msec_to_expire st) in
  let now := clk st in
  left = (if t_exp r <? now then 0 else (t_exp r - now) / LT_NS_IN_MSEC + tick_ms st) /\
  0 <= left < LT_UINT64_MAX /\ err (snd (tl_msec_to_expire st)) = err st.
Proof.
  intros st r Hr Hc He Hz. unfold tl_msec_to_expire.
  pose proof (at_lt _ _ _ Hr) as L.
  replace (size (heap st) =? 0) with false by (symmetry; apply Z.eqb_neq; unfold size; lia).
  rewrite (proj2 (entry_get_at (heap st) 0 r) Hr). unfold read_clock, advance, set_clk.
  destruct (t_exp r <? clk st) eqn:E; cbn [fst snd err hz].
  - split; [reflexivity|]. split; [unfold LT_UINT64_MAX; lia|reflexivity].
  - apply Z.ltb_ge in E. unfold tick_ms, u64, LT_UINT64_MAX, LT_NS_IN_MSEC, two64 in *.
    assert (0 <= 1000 / hz st <= 1000) by (split; [apply Z.div_pos; lia|apply Z.div_le_upper_bound; nia]).
    rewrite Z.mod_small by lia. split; [reflexivity|]. split; [lia|reflexivity].
Qed.

(* C09 timeout soundness, arithmetic core (repaired code): with a timer pending the value handed to the
   poll source is never negative, and sleeping for it ends no later than one tick after the earliest expiry *)
Lemma msec_to_expire_sound : forall st r, at_ (ents (heap st)) 0 r -> u64 (clk st) -> u64 (t_exp r) -> 0 < hz st ->
  let timeout := fst (msec_to_expire fixed st) in
  let now := clk st in
  0 <= timeout <= LT_INT32_MAX /\
  now + timeout * LT_NS_IN_MSEC <= Z.max now (t_exp r) + tick_ms st * LT_NS_IN_MSEC /\
  (t_exp r < now -> timeout = 0).
Proof.
  intros st r Hr Hc He Hz. unfold msec_to_expire.
  destruct (tl_msec_value st r Hr Hc He Hz) as [V [R _]].
  destruct (tl_msec_to_expire st) as [left st'] eqn:T. cbn [fst snd] in *.
  destruct (narrow_fixed_sound left) as [N1 [N2 N3]]; [unfold u64; lia|lia|].
  split; [assumption|].
  assert (0 <= tick_ms st) by (unfold tick_ms; apply Z.div_pos; lia).
  destruct (t_exp r <? clk st) eqn:E.
  - apply Z.ltb_lt in E. subst left. rewrite N3 by (unfold LT_INT32_MAX; lia).
    split; [unfold LT_NS_IN_MSEC; lia|reflexivity].
  - apply Z.ltb_ge in E. split; [|lia].
    unfold LT_NS_IN_MSEC in *. nia.
Qed.

(* the timeout decision of qb_loop_run (repaired code), with a timer in the heap *)
Lemma choose_timeout_sound : forall st r rem tt jt,
  at_ (ents (heap st)) 0 r -> u64 (clk st) -> u64 (t_exp r) -> 0 < hz st ->
  let timeout := fst (choose_timeout fixed st rem tt jt) in
  let now := clk st in
  0 <= timeout <= LT_INT32_MAX /\
  (timeout = 0 \/
   (timeout = 50 /\ jt > 0) \/
   now + timeout * LT_NS_IN_MSEC <= Z.max now (t_exp r) + tick_ms st * LT_NS_IN_MSEC) /\
  ((rem > 0 \/ tt > 0) -> timeout = 0).
Proof.
  intros st r rem tt jt Hr Hc He Hz. unfold choose_timeout.
  destruct ((rem >? 0) || (tt >? 0)) eqn:E1.
  - cbn [fst]. split; [unfold LT_INT32_MAX; lia|]. split; [left; reflexivity|reflexivity].
  - apply orb_false_iff in E1. destruct E1 as [E1 E2].
    rewrite Z.gtb_ltb in E1, E2. apply Z.ltb_ge in E1. apply Z.ltb_ge in E2.
    destruct (jt >? 0) eqn:E3.
    + apply Z.gtb_lt in E3. cbn [fst]. split; [unfold LT_INT32_MAX; lia|]. split; [right; left; split; [reflexivity|lia]|lia].
    + destruct (msec_to_expire_sound st r Hr Hc He Hz) as [S1 [S2 S3]].
      split; [assumption|]. split; [right; right; assumption|lia].
Qed.

(* the heap is empty: -1 ("no timer"), the only case in which the loop may wait indefinitely *)
Lemma msec_to_expire_empty : forall fx st, ents (heap st) = [] -> fst (msec_to_expire fx st) = -1.
Proof.
  intros fx st H. unfold msec_to_expire, tl_msec_to_expire, size. rewrite H. cbn [length Z.of_nat Z.eqb fst].
  unfold narrow_timeout. destruct (f_clamp fx); vm_compute; reflexivity.
Qed.

(* ---------------------------------------------------------------- the queries *)
(* repaired code: an expiry time computed at a positive clock is positive, so `expire_time_get > 0' really
   means "pending" (as found, now + duration = 2^64 gives 0: C09_is_running_refuted) *)
Lemma expire_of_fixed_pos : forall now d, 0 < now <= LT_UINT64_MAX -> u64 d -> 0 < expire_of fixed now d.
Proof.
  intros now d Hn Hd. destruct (expire_of_fixed now d) as [E _]; [unfold u64; lia|assumption|].
  rewrite E. unfold u64, LT_UINT64_MAX in *. lia.
Qed.

(* is_running is non-zero exactly when expire_time_get is; a slot that is not ACTIVE (never used, deleted,
   expired and queued, dispatched) answers 0 to all three queries; an ACTIVE slot answers with its heap
   object's expire_time, the time left on the clock (0 once it is overdue), and "running" *)
Lemma queries_agree : forall fx st h,
  (is_running fx st h = 1 <-> expire_time_get fx st h > 0) /\
  (is_running fx st h = 0 <-> expire_time_get fx st h <= 0) /\
  (forall i s, timer_from_handle fx st h = LOk i s -> s_state s <> LT_ENTRY_ACTIVE ->
     expire_time_get fx st h = 0 /\ is_running fx st h = 0 /\ fst (time_remaining fx st h) = 0) /\
  (forall i s tm, timer_from_handle fx st h = LOk i s -> s_state s = LT_ENTRY_ACTIVE -> s_th s = Some tm -> 0 < t_exp tm ->
     expire_time_get fx st h = t_exp tm /\ is_running fx st h = 1 /\
     fst (time_remaining fx st h) = Z.max 0 (t_exp tm - clk st)) /\
  (forall e, timer_from_handle fx st h = LErr e ->
     expire_time_get fx st h = 0 /\ is_running fx st h = 0 /\ fst (time_remaining fx st h) = 0).
Proof.
  intros fx st h. unfold is_running.
  split; [destruct (expire_time_get fx st h >? 0) eqn:E; [apply Z.gtb_lt in E|rewrite Z.gtb_ltb in E; apply Z.ltb_ge in E]; split; intros; try lia; discriminate|].
  split; [destruct (expire_time_get fx st h >? 0) eqn:E; [apply Z.gtb_lt in E|rewrite Z.gtb_ltb in E; apply Z.ltb_ge in E]; split; intros; try lia; discriminate|].
  unfold expire_time_get, time_remaining. split; [|split].
  - intros i s L N. rewrite L.
    replace (s_state s =? LT_ENTRY_ACTIVE) with false by (symmetry; apply Z.eqb_neq; assumption). cbn [negb fst].
    split; [reflexivity|]. split; reflexivity.
  - intros i s tm L A T P. rewrite L, A, T. rewrite Z.eqb_refl. cbn [negb].
    split; [reflexivity|]. split; [replace (t_exp tm >? 0) with true by (symmetry; apply Z.gtb_lt; lia); reflexivity|].
    unfold read_clock. destruct (t_exp tm <? clk st) eqn:E; cbn [fst]; [apply Z.ltb_lt in E|apply Z.ltb_ge in E]; lia.
  - intros e L. rewrite L. cbn [fst]. split; [reflexivity|]. split; reflexivity.
Qed.

(* queued work (remaining_todo from the previous turn / the previous run, or timers that just expired) means
   a zero timeout, whatever the heap holds; and the repaired qb_loop_run starts from the levels' todo counters *)
Lemma queued_work_never_sleeps : forall fx st rem tt jt, rem > 0 \/ tt > 0 -> choose_timeout fx st rem tt jt = (0, st).
Proof.
  intros fx st rem tt jt H. unfold choose_timeout.
  replace ((rem >? 0) || (tt >? 0)) with true; [reflexivity|].
  symmetry. apply orb_true_iff. destruct H; [left|right]; apply Z.gtb_lt; lia.
Qed.

Lemma run_counts_leftover : forall beh st d ds,
  loop_run fixed beh st (d :: ds) =
  run_turns fixed beh (d :: ds) (set_stop st false) LT_LOOP_LOW (total_todo (set_stop st false)).
Proof. reflexivity. Qed.
