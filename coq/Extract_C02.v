(* Extraction of the C02 model.  ExtrOcamlBasic only: bool/option/unit/list/prod/sumbool map to the OCaml
   types of the same shape; Z, positive, nat stay inductive; no Extract Constant. *)
From Coq Require Import ExtrOcamlBasic.
Require Import Verif.IpcDataModel.
Extraction "model_C02.ml" init negotiate negotiate_enforced step run fixed orig client_fd_readable server_fd_pollin evq_len.
