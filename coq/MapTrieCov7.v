(* C18 trie part, coverage (7): the coverage clause, from the key-space specification of the iterators:
   a key that is in the map during a whole iteration is returned by it; the keys an iteration returns are strictly
   ascending (so none is returned twice, removals or insertions or not); a returned key is in the map at that moment. *)
From Coq Require Import List ZArith Bool Arith Lia Sorted.
Import ListNotations.
Require Import Verif.gen.Consts_trie Verif.MapTrieModel Verif.MapTrieSpec Verif.MapTrieOrder Verif.MapTrieKeys
               Verif.MapTrieSafe6 Verif.MapTrieCov4 Verif.MapTrieCov5 Verif.MapTrieCov6.

(* key k is in the dictionary at every step from here until the iteration of handle h ends (NULL returned), and
   that end comes before h is freed or created anew *)
Fixpoint stays (h : nat) (k : key) (d : dict) (hs : list sop) (os : list out) {struct hs} : Prop :=
  d_get d k <> None /\
  match hs, os with
  | SPut k' v :: hs', _ :: os' => stays h k (d_put d k' v) hs' os'
  | SRm k' :: hs', _ :: os' => stays h k (d_rm d k') hs' os'
  | SGet _ :: hs', _ :: os' => stays h k d hs' os'
  | SCount :: hs', _ :: os' => stays h k d hs' os'
  | SCreate h' :: hs', _ :: os' => h' <> h /\ stays h k d hs' os'
  | SFree h' :: hs', _ :: os' => h' <> h /\ stays h k d hs' os'
  | SNext h' :: hs', RKV kv :: os' => if h' =? h then match kv with None => True | Some _ => stays h k d hs' os' end
                                      else stays h k d hs' os'
  | _, _ => False
  end.

(* the keys the iteration of handle h returns from here until it ends or h is created anew *)
Fixpoint rkeys (h : nat) (hs : list sop) (os : list out) {struct hs} : list key :=
  match hs, os with
  | SNext h' :: hs', RKV kv :: os' =>
    if h' =? h then match kv with Some (Some k, _) => k :: rkeys h hs' os' | _ => [] end else rkeys h hs' os'
  | SCreate h' :: hs', _ :: os' => if h' =? h then [] else rkeys h hs' os'
  | _ :: hs', _ :: os' => rkeys h hs' os'
  | _, _ => []
  end.

Lemma gt_trans : forall pos k1 k2, gt pos k1 -> klt k1 k2 -> gt pos k2.
Proof. intros pos k1 k2 G K. destruct pos; simpl in *; auto. eapply klt_trans; eauto. Qed.

Lemma pupd_same : forall s h p, pupd s h p h = p.
Proof. intros. unfold pupd. rewrite Nat.eqb_refl. reflexivity. Qed.
Lemma pupd_other : forall s h p h', h' <> h -> pupd s h p h' = s h'.
Proof. intros. unfold pupd. destruct (Nat.eqb_spec h' h); [congruence|reflexivity]. Qed.

(* present during the whole iteration => returned *)
Theorem covered : forall d s hs os, trace_ok d s hs os -> forall h k, k <> [] -> gt (s h) k -> stays h k d hs os ->
  In k (rkeys h hs os).
Proof.
  induction 1; intros h0 k0 Hk GT ST; simpl in ST; destruct ST as [PR ST]; try contradiction.
  - apply IHtrace_ok; auto.
  - apply IHtrace_ok; auto.
  - apply IHtrace_ok; auto.
  - apply IHtrace_ok; auto.
  - destruct ST as [Hne ST]. simpl. destruct (Nat.eqb_spec h h0); [congruence|].
    apply IHtrace_ok; auto. rewrite pupd_other by auto. exact GT.
  - simpl. destruct (Nat.eqb_spec h h0) as [e|e].
    + subst h0. destruct kv as [[ko vo]|].
      * destruct H as [k1 [v1 [E1 [E2 [E3 [D1 [G1 MIN]]]]]]]. subst ko vo pos'.
        destruct (d_get d k0) as [v0|] eqn:D0; [|congruence].
        destruct (MIN k0 v0 Hk D0 GT) as [X|X].
        -- subst k1. simpl. auto.
        -- simpl. right. apply IHtrace_ok; auto. rewrite pupd_same. simpl. exact X.
      * destruct H as [_ NO]. exfalso. destruct (d_get d k0) as [v0|] eqn:D0; [|congruence].
        apply (NO k0 v0 Hk D0 GT).
    + apply IHtrace_ok; auto. rewrite pupd_other by auto. exact GT.
  - destruct ST as [Hne ST]. apply IHtrace_ok; auto.
Qed.

(* the returned keys are strictly ascending and beyond the position: no key twice, whatever happens meanwhile *)
Theorem returned_ascending : forall d s hs os, trace_ok d s hs os -> forall h,
  StronglySorted klt (rkeys h hs os) /\ Forall (gt (s h)) (rkeys h hs os).
Proof.
  induction 1; intro h0; simpl; try (split; constructor); try apply IHtrace_ok.
  - destruct (Nat.eqb_spec h h0); [split; constructor|].
    destruct (IHtrace_ok h0) as [A B]. rewrite pupd_other in B by auto. auto.
  - destruct (Nat.eqb_spec h h0) as [e|e].
    + subst h0. destruct kv as [[ko vo]|]; [|split; constructor].
      destruct H as [k1 [v1 [E1 [E2 [E3 [D1 [G1 MIN]]]]]]]. subst ko vo pos'.
      destruct (IHtrace_ok h) as [A B]. rewrite pupd_same in B. split.
      * constructor; auto.
      * constructor; auto. rewrite Forall_forall in *. intros x Hx. eapply gt_trans; eauto. apply (B x Hx).
    + destruct (IHtrace_ok h0) as [A B]. rewrite pupd_other in B by auto. auto.
Qed.
