(* C04 - the library functions preserve the invariant (fixed variant). *)
Require Import ZArith List Bool Lia.
Require Import Verif.IpcLifeModel Verif.IpcLifeProofs.
Import ListNotations.
Open Scope Z_scope.

Ltac expose x :=
  let e := fresh "E" in remember x as xx eqn:e; destruct xx; simpl in *.

Ltac brk :=
  repeat match goal with
         | H : _ /\ _ |- _ => destruct H
         | H : _ \/ _ |- _ => destruct H
         | H : ?a = ?a -> _ |- _ => specialize (H eq_refl)
         | H : true = false -> _ |- _ => clear H
         | H : false = true -> _ |- _ => clear H
         end; subst.

Ltac fin := try solve [ assumption | reflexivity | lia | congruence | tauto | intuition (try lia; try congruence; try discriminate) ].

(* CI goal from CI hypotheses about the same record x (kept opaque) *)
Ltac ci x :=
  unfold CI, w_rc, w_st, w_reg, w_notified, w_ph, w_uref, w_alloc, w_fc, w_nreq, w_hup, live in *;
  cbn [c_alloc c_st c_rc c_notified c_reg c_fc c_nreq c_hup c_ph c_uref] in *;
  let P := fresh "P" in let S := fresh "S" in
  destruct (c_ph x) eqn:P; try tauto; try discriminate;
  destruct (c_st x) eqn:S; unfold init_of, jw, phase_step in *; cbv iota in *;
  brk; try discriminate; try tauto; repeat split; fin;
  try (match goal with |- ?b = false => destruct b eqn:?; [exfalso | reflexivity] end; brk; try discriminate; fin).

(* ---- pure facts about the per-connection invariant *)
Lemma CI_ref : forall h j d nj inl x, CI h j d nj inl x -> live x -> CI (h + 1) j d nj inl (w_rc (c_rc x + 1) x).
Proof. intros. ci x. Qed.
Lemma CI_unref_held : forall h j d nj inl x, CI (h + 1) j d nj inl x -> 0 <= h -> c_rc x - 1 <> 0 -> CI h j d nj inl (w_rc (c_rc x - 1) x).
Proof. intros. ci x. Qed.
Lemma CI_held_death : forall h j d nj inl x, CI (h + 1) j d nj inl x -> 0 <= h -> c_rc x - 1 = 0 ->
  phase_step KDestroyed 0 (c_ph x) <> None /\ c_uref x = 0 /\ CI h j true nj false (w_ph PDead (w_rc 0 x)).
Proof. intros. ci x. Qed.
Lemma CI_dead_reg : forall h j d nj inl x, CI h j d nj inl x -> c_ph x = PDead -> CI h j d nj inl (w_reg false x).
Proof. intros. ci x. Qed.
Lemma CI_dead_free : forall h j nj inl x, CI h j true nj inl x -> CI h j false nj inl (w_alloc false x).
Proof. intros. ci x. Qed.
Lemma CI_live_rc : forall h j d nj inl x, CI h j d nj inl x -> live x -> 1 <= c_rc x.
Proof. intros. ci x. Qed.

Section Funcs.
  Variable cb : kind -> nat -> world -> R.
  Hypothesis Hcb : cb_ok cb.

  Lemma ref_ok : forall H J D c w,
    GI H J D w -> live (conns w c) ->
    safe (fun w' _ => GI (addf H c 1) J D w') (conn_ref c w).
  Proof.
    intros H J D c w G L. pose proof G as (A & _ & _). specialize (A c).
    unfold conn_ref. apply safe_chk. { eapply CI_live_alloc; eauto. }
    simpl. eapply GI_put; eauto.
    - intros i Hi. rewrite addf_other; auto.
    - rewrite addf_same. apply CI_ref; auto.
    - simpl. tauto.
  Qed.

  Ltac ext := intros; unfold put, updf, set_list, set_jobs, set_svc, set_slots, set_withdrawn, logit, set_log, set_behs, set_prio,
                set_destroy_called, set_next; simpl;
              repeat match goal with |- context [Nat.eqb ?a ?b] => destruct (Nat.eqb_spec a b); subst end; try congruence; auto.

  Lemma phase_destroyed : forall ret p p', phase_step KDestroyed ret p = Some p' -> p' = PDead.
  Proof. intros ret p p'; destruct p; simpl; congruence. Qed.

  (* qb_ipcs_connection_unref, general form: the caller says what the world looks like after the decrement *)
  Lemma unref_ok : forall H J D c w,
    c_alloc (conns w c) = true -> 1 <= c_rc (conns w c) -> D c = false ->
    (c_rc (conns w c) - 1 <> 0 -> GI H J D (put c (w_rc (c_rc (conns w c) - 1) (conns w c)) w)) ->
    (c_rc (conns w c) - 1 = 0 ->
       phase_step KDestroyed 0 (c_ph (conns w c)) <> None /\ c_uref (conns w c) = 0 /\
       GI H J (setb D c true) (put c (w_ph PDead (w_rc 0 (conns w c))) (set_list (remove_id c (s_list w)) w))) ->
    safe (fun w' _ => GI H J D w') (conn_unref cb c w).
  Proof.
    intros H J D c w Ha Hr Hd Hn Hz. unfold conn_unref.
    apply safe_chk; auto. set (x := conns w c) in *.
    destruct (c_rc x <? 1) eqn:E1; [apply Z.ltb_lt in E1; lia|].
    destruct (c_rc x - 1 =? 0) eqn:E2.
    - apply Z.eqb_eq in E2. destruct (Hz E2) as (P1 & P2 & G). clear Hn Hz.
      apply safe_chks. apply safe_bind.
      set (w2 := set_list _ _).
      destruct (Hcb KDestroyed c w2) as (ret & p' & S1 & S2).
      { unfold w2; simpl. rewrite updf_same. simpl. auto. }
      { intros _. unfold w2; simpl. rewrite updf_same. simpl. auto. }
      apply phase_destroyed in S1. subst p'.
      eapply safe_mono; [| apply (S2 H J (setb D c true))].
      + intros w3 z (_ & G3). simpl.
        pose proof G3 as (A3 & _ & _). specialize (A3 c). rewrite setb_same in A3.
        apply safe_chk. { eapply CI_d_alloc; eauto. }
        apply safe_chks. apply safe_bind.
        assert (G4 : GI H J (setb D c true) (funcs_disconnect c w3)).
        { assert (Pd : c_ph (conns w3 c) = PDead) by (unfold CI in A3; tauto).
          unfold funcs_disconnect. destruct (c_st (conns w3 c)); try exact G3.
          all: eapply GI_put; [exact G3 | intros; auto | rewrite setb_same; apply CI_dead_reg; auto | simpl; tauto ]. }
        unfold unref_s. apply safe_chks.
        set (w4 := funcs_disconnect c w3) in *.
        assert (F : forall a r, safe (fun w5 _ => safe (fun w' _ => GI H J D w')
                     (chk c w5 (Ok (put c (w_alloc false (conns w5 c)) w5) 0))) (Ok (set_svc a r w4) 0)).
        { intros a r. simpl. pose proof G4 as (A4 & _ & _). specialize (A4 c). rewrite setb_same in A4.
          apply safe_chk. { simpl. eapply CI_d_alloc; eauto. }
          simpl. eapply GI_ext with (w := put c (w_alloc false (conns w4 c)) w4); try (intros; reflexivity).
          eapply GI_put; eauto.
          - intros i Hi. rewrite setb_other; auto.
          - rewrite Hd. apply CI_dead_free; auto.
          - simpl. tauto. }
        destruct (s_rc w4 <? 1); [simpl; right; reflexivity|].
        destruct (s_rc w4 - 1 =? 0); apply F.
      + eapply GI_ext; [| | | | exact G]; try reflexivity.
        intros i. unfold w2. ext.
    - apply Z.eqb_neq in E2. simpl. auto.
  Qed.

  (* dropping a temporary reference held by the current frame *)
  Lemma unref_held_ok : forall H J D c w,
    GI (addf H c 1) J D w -> 0 <= H c ->
    safe (fun w' _ => GI H J D w') (conn_unref cb c w).
  Proof.
    intros H J D c w G H0. pose proof G as (A & B & C). pose proof (A c) as Ac. rewrite addf_same in Ac.
    assert (L : live (conns w c)) by (eapply CI_h_live; eauto; lia).
    assert (Dc : D c = false) by (eapply CI_live_d; eauto).
    apply unref_ok; auto.
    - eapply CI_live_alloc; eauto.
    - eapply CI_live_rc; eauto.
    - intros Hn. eapply GI_put; eauto.
      + intros i Hi. rewrite addf_other; auto.
      + apply CI_unref_held; auto.
      + simpl; tauto.
    - intros Hz. destruct (CI_held_death _ _ _ _ _ _ Ac H0 Hz) as (Q1 & Q2 & Q3).
      split; [|split]; auto.
      + unfold GI. split; [|split].
        * intros i. simpl. unfold updf. destruct (Nat.eqb_spec i c).
          -- subst. rewrite setb_same, mem_remove_same. exact Q3.
          -- rewrite setb_other, mem_remove_other by auto. specialize (A i). rewrite addf_other in A; auto.
        * simpl. apply desc_remove; auto.
        * simpl. intros i Hi. unfold updf. destruct (Nat.eqb_spec i c); auto.
          subst. specialize (C c Hi). unfold live in L. rewrite C in L. tauto.
  Qed.
End Funcs.
