(* C04 - the library functions preserve the invariant (fixed variant). *)
Require Import ZArith List Bool Lia.
Require Import Verif.IpcLifeModel Verif.IpcLifeProofs.
Import ListNotations.
Open Scope Z_scope.

Ltac expose x :=
  let e := fresh "E" in remember x as xx eqn:e; destruct xx; simpl in *.

Ltac brk :=
  repeat match goal with
         | H : _ /\ _ |- _ => destruct H
         | H : _ \/ _ |- _ => destruct H
         | H : ?a = ?a -> _ |- _ => specialize (H eq_refl)
         | H : true = false -> _ |- _ => clear H
         | H : false = true -> _ |- _ => clear H
         end; subst.

Ltac fin := try solve [ assumption | reflexivity | lia | congruence | tauto | intuition (try lia; try congruence; try discriminate) ].

(* CI goal from CI hypotheses about the same record x (kept opaque) *)
Ltac ci x :=
  unfold CI, w_rc, w_st, w_reg, w_notified, w_ph, w_uref, w_alloc, w_fc, w_nreq, w_hup, live in *;
  cbn [c_alloc c_st c_rc c_notified c_reg c_fc c_nreq c_hup c_ph c_uref] in *;
  let P := fresh "P" in let S := fresh "S" in
  destruct (c_ph x) eqn:P; try tauto; try discriminate;
  destruct (c_st x) eqn:S; unfold init_of, jw, phase_step in *; cbv iota in *;
  brk; try discriminate; try tauto; repeat split; fin;
  try (match goal with |- ?b = false => destruct b eqn:?; [exfalso | reflexivity] end; brk; try discriminate; fin).

(* ---- pure facts about the per-connection invariant *)
Lemma CI_ref : forall h j d nj inl x, CI h j d nj inl x -> live x -> CI (h + 1) j d nj inl (w_rc (c_rc x + 1) x).
Proof. intros. ci x. Qed.
Lemma CI_unref_held : forall h j d nj inl x, CI (h + 1) j d nj inl x -> 0 <= h -> c_rc x - 1 <> 0 -> CI h j d nj inl (w_rc (c_rc x - 1) x).
Proof. intros. ci x. Qed.
Lemma CI_held_death : forall h j d nj inl x, CI (h + 1) j d nj inl x -> 0 <= h -> c_rc x - 1 = 0 ->
  phase_step KDestroyed 0 (c_ph x) <> None /\ c_uref x = 0 /\ CI h j true nj false (w_ph PDead (w_rc 0 x)).
Proof. intros. ci x. Qed.
Lemma CI_dead_reg : forall h j d nj inl x, CI h j d nj inl x -> c_ph x = PDead -> CI h j d nj inl (w_reg false x).
Proof. intros. ci x. Qed.
Lemma CI_dead_free : forall h j nj inl x, CI h j true nj inl x -> CI h j false nj inl (w_alloc false x).
Proof. intros. ci x. Qed.
Lemma CI_live_rc : forall h j d nj inl x, CI h j d nj inl x -> live x -> 1 <= c_rc x.
Proof. intros. ci x. Qed.

Definition closed_outcome (p' : phase) (j' : Z) : Prop := (p' = PRetry /\ j' = 1) \/ (p' = PDone /\ j' = 2).
Lemma CI_sd_target_est : forall h d inl x p' j', CI h 0 d 0 inl x -> live x -> c_st x = ESTABLISHED -> closed_outcome p' j' ->
  CI h j' d 0 inl (w_ph p' (w_notified true (w_st SHUTTING_DOWN (w_reg false x)))).
Proof. unfold closed_outcome; intros. ci x. Qed.
Lemma CI_sd_target_job : forall h d inl x p' j', CI h 0 d 1 inl x -> closed_outcome p' j' ->
  CI h j' d 0 inl (w_ph p' (w_notified true (w_notified false x))).
Proof. unfold closed_outcome; intros. ci x. Qed.
Lemma CI_done_unref_n : forall h nj inl x, CI h 2 false nj inl x -> c_rc x - 1 <> 0 -> CI h 0 false nj inl (w_rc (c_rc x - 1) x).
Proof. intros. ci x. Qed.
Lemma CI_done_unref_z : forall h nj inl x, CI h 2 false nj inl x -> c_rc x - 1 = 0 ->
  phase_step KDestroyed 0 (c_ph x) <> None /\ c_uref x = 0 /\ CI h 0 true nj false (w_ph PDead (w_rc 0 x)).
Proof. intros. ci x. Qed.
Lemma CI_retry_job : forall h d nj inl x, CI h 1 d nj inl x -> CI h 0 d (nj + 1) inl x.
Proof. intros. ci x. Qed.
Lemma CI_est_facts : forall h j d nj inl x, CI h j d nj inl x -> live x -> c_st x = ESTABLISHED ->
  c_ph x = PCre /\ c_notified x = false /\ j = 0 /\ nj = 0.
Proof. intros. ci x. Qed.
Lemma CI_sd_facts : forall h j d nj inl x, CI h j d nj inl x -> live x -> c_st x = SHUTTING_DOWN -> c_notified x = true.
Proof. intros. ci x. Qed.
Lemma CI_active_disc : forall h j d nj inl x, CI h j d nj inl x -> live x -> c_st x = ACTIVE ->
  c_rc x - 1 <> 0 /\ CI h j d nj inl (w_rc (c_rc x - 1) (w_st INACTIVE (w_reg false x))).
Proof. intros. ci x. Qed.
Lemma CI_job_facts : forall h j d inl x, CI h j d 1 inl x -> c_alloc x = true /\ c_st x = SHUTTING_DOWN /\ c_ph x = PRetry /\ j = 0 /\ live x.
Proof. intros. ci x. Qed.
Lemma cnt_le1_head : forall c t, cnt c (c :: t) <= 1 -> cnt c (c :: t) = 1 /\ cnt c t = 0.
Proof. intros c t. simpl. rewrite Nat.eqb_refl. pose proof (cnt_nonneg c t). lia. Qed.

Section Funcs.
  Variable cb : kind -> nat -> world -> R.
  Hypothesis Hcb : cb_ok cb.

  Lemma ref_ok : forall H J (D : dctx) c w,
    GI H J D w -> live (conns w c) ->
    safe (fun w' _ => GI (addf H c 1) J D w') (conn_ref c w).
  Proof.
    intros H J D c w G L. pose proof G as (A & _ & _). specialize (A c).
    unfold conn_ref. apply safe_chk. { eapply CI_live_alloc; eauto. }
    simpl. eapply GI_put; eauto.
    - intros i Hi. rewrite addf_other; auto.
    - rewrite addf_same. apply CI_ref; auto.
    - simpl. tauto.
  Qed.

  (* freeing a connection whose destroyed callback has run: the service loses that reference, and goes with it
     when it was the last one *)
  Lemma SI_free : forall df c w,
    SI df w -> (c < next w)%nat -> c_alloc (conns w c) = true -> s_alloc w = true ->
    SI df (put c (w_alloc false (conns w c))
             (if s_rc w - 1 =? 0 then set_svc false 0 w else set_svc true (s_rc w - 1) w)).
  Proof.
    intros df c w (S1 & S2 & S3 & S4) Lt Ha Hs.
    destruct (S1 Hs) as (R1 & R2).
    assert (N : forall w', conns w' = conns w -> next w' = next w ->
                nalloc (put c (w_alloc false (conns w c)) w') = nalloc w - 1).
    { intros w' E1 E2. unfold nalloc, put; simpl. rewrite E1, E2. rewrite nalloc_upto_upd_in by auto.
      rewrite Ha. simpl. lia. }
    pose proof (nalloc_upto_pos (conns w) c (next w) Lt Ha) as P. fold (nalloc w) in P.
    destruct (s_rc w - 1 =? 0) eqn:E.
    - apply Z.eqb_eq in E. unfold SI. rewrite N by reflexivity. simpl.
      assert (Cr : s_creator w = false) by (destruct (s_creator w); auto; lia).
      rewrite Cr in R2.
      assert (Dc : destroy_called w = true).
      { destruct (destroy_called w) eqn:Ed; auto. specialize (S3 eq_refl). congruence. }
      repeat split; intros; try discriminate; auto; try lia; try congruence.
      all: try (destruct (S4 H); congruence).
    - apply Z.eqb_neq in E. unfold SI. rewrite N by reflexivity. simpl.
      repeat split; intros; try discriminate; auto; try lia; try (apply S4; auto).
  Qed.

  Lemma phase_destroyed : forall ret p p', phase_step KDestroyed ret p = Some p' -> p' = PDead.
  Proof. intros ret p p'; destruct p; simpl; congruence. Qed.

  (* qb_ipcs_connection_unref, general form: the caller says what the world looks like after the decrement *)
  Lemma unref_ok : forall H J (D : dctx) c w,
    c_alloc (conns w c) = true -> 1 <= c_rc (conns w c) -> D c = false ->
    (c_rc (conns w c) - 1 <> 0 -> GI H J D (put c (w_rc (c_rc (conns w c) - 1) (conns w c)) w)) ->
    (c_rc (conns w c) - 1 = 0 ->
       phase_step KDestroyed 0 (c_ph (conns w c)) <> None /\ c_uref (conns w c) = 0 /\
       GI H J (setb D c true) (put c (w_ph PDead (w_rc 0 (conns w c))) (set_list (remove_id c (s_list w)) w))) ->
    safe (fun w' _ => GI H J D w') (conn_unref cb c w).
  Proof.
    intros H J D c w Ha Hr Hd Hn Hz. unfold conn_unref.
    apply safe_chk; auto. set (x := conns w c) in *.
    destruct (c_rc x <? 1) eqn:E1; [apply Z.ltb_lt in E1; lia|].
    destruct (c_rc x - 1 =? 0) eqn:E2.
    - apply Z.eqb_eq in E2. destruct (Hz E2) as (P1 & P2 & G). clear Hn Hz.
      assert (Sv : s_alloc w = true).
      { apply (GI_svc_alive _ _ _ _ c G). simpl. rewrite updf_same. simpl. exact Ha. }
      apply safe_chks; auto. apply safe_bind.
      set (w2 := set_list _ _).
      destruct (Hcb KDestroyed c w2) as (ret & p' & S1 & S2).
      { unfold w2; simpl. rewrite updf_same. simpl. auto. }
      { intros _. unfold w2; simpl. rewrite updf_same. simpl. auto. }
      apply phase_destroyed in S1. subst p'.
      eapply safe_mono; [| apply (S2 H J (setb D c true))].
      + intros w3 z (_ & G3). simpl.
        pose proof G3 as (A3 & _ & _). specialize (A3 c). rewrite setb_same in A3.
        pose proof (CI_d_alloc _ _ _ _ _ A3) as Al3.
        apply safe_chk; auto.
        apply safe_chks. { eapply GI_svc_alive; eauto. } apply safe_bind.
        assert (G4 : GI H J (setb D c true) (funcs_disconnect c w3) /\ c_alloc (conns (funcs_disconnect c w3) c) = true).
        { assert (Pd : c_ph (conns w3 c) = PDead) by (unfold CI in A3; tauto).
          unfold funcs_disconnect. destruct (c_st (conns w3 c)); try (split; [exact G3 | exact Al3]).
          all: split; [eapply GI_put; [exact G3 | intros; auto | rewrite setb_same; apply CI_dead_reg; auto | simpl; tauto | auto
                                      | reflexivity | reflexivity ]
                      | simpl; rewrite updf_same; simpl; exact Al3]. }
        set (w4 := funcs_disconnect c w3) in *. destruct G4 as (G4 & Al4).
        assert (Sv4 : s_alloc w4 = true) by (eapply GI_svc_alive; eauto).
        pose proof (GI_alloc_below _ _ _ _ _ G4 Al4) as Lt4.
        pose proof G4 as (A4 & B4 & C4 & S4). pose proof (A4 c) as Ac4. rewrite setb_same in Ac4.
        destruct S4 as (S41 & S4r). destruct (S41 Sv4) as (R1 & _).
        unfold unref_s. apply safe_chks; auto.
        destruct (s_rc w4 <? 1) eqn:E3; [apply Z.ltb_lt in E3; lia|].
        assert (Fin : GI H J D (put c (w_alloc false (conns w4 c))
                          (if s_rc w4 - 1 =? 0 then set_svc false 0 w4 else set_svc true (s_rc w4 - 1) w4))).
        { unfold GI. split; [|split; [|split]].
          - intros i. replace (jobs _) with (jobs w4) by (destruct (s_rc w4 - 1 =? 0); reflexivity).
            replace (s_list _) with (s_list w4) by (destruct (s_rc w4 - 1 =? 0); reflexivity).
            replace (conns _ i) with (updf (conns w4) c (w_alloc false (conns w4 c)) i)
              by (destruct (s_rc w4 - 1 =? 0); reflexivity).
            unfold updf. destruct (Nat.eqb_spec i c).
            + subst i. rewrite Hd. apply CI_dead_free; auto.
            + specialize (A4 i). rewrite setb_other in A4 by auto. exact A4.
          - replace (s_list _) with (s_list w4) by (destruct (s_rc w4 - 1 =? 0); reflexivity). exact B4.
          - intros i Hi. replace (next _) with (next w4) in Hi by (destruct (s_rc w4 - 1 =? 0); reflexivity).
            replace (conns _ i) with (updf (conns w4) c (w_alloc false (conns w4 c)) i)
              by (destruct (s_rc w4 - 1 =? 0); reflexivity).
            unfold updf. destruct (Nat.eqb_spec i c); [subst i; simpl|]; apply C4; auto.
          - apply SI_free; auto. split; auto. }
        destruct (s_rc w4 - 1 =? 0); simpl; (apply safe_chk; [simpl; exact Al4 | simpl; exact Fin]).
      + eapply GI_ext; [| exact G]. unfold w2. frame.
    - apply Z.eqb_neq in E2. simpl. auto.
  Qed.

  (* unref where the caller moves one unit of ownership out of its context: (H,J) -> (H',J') at c *)
  Lemma unref_gen : forall H J (D : dctx) H' J' c w,
    GI H J D w -> (forall i, i <> c -> H' i = H i /\ J' i = J i) -> D c = false ->
    (J' c = 3 -> J c = 3) ->
    live (conns w c) ->
    (c_rc (conns w c) - 1 <> 0 ->
       CI (H' c) (J' c) false (cnt c (jobs w)) (mem_id c (s_list w)) (w_rc (c_rc (conns w c) - 1) (conns w c))) ->
    (c_rc (conns w c) - 1 = 0 ->
       phase_step KDestroyed 0 (c_ph (conns w c)) <> None /\ c_uref (conns w c) = 0 /\
       CI (H' c) (J' c) true (cnt c (jobs w)) false (w_ph PDead (w_rc 0 (conns w c)))) ->
    safe (fun w' _ => GI H' J' D w') (conn_unref cb c w).
  Proof.
    intros H J D H' J' c w G E Dc HJ3 L Hn Hz. pose proof G as (A & B & C & SV). pose proof (A c) as Ac.
    apply unref_ok; auto.
    - eapply CI_live_alloc; eauto.
    - eapply CI_live_rc; eauto.
    - intros Hn'. eapply GI_put; [exact G | | | | | | ].
      + intros i Hi. destruct (E i Hi). auto.
      + rewrite Dc. auto.
      + simpl; tauto.
      + exact HJ3.
      + reflexivity.
      + reflexivity.
    - intros Hz'. destruct (Hz Hz') as (Q1 & Q2 & Q3).
      split; [|split]; auto.
      unfold GI. split; [|split; [|split]].
      + intros i. simpl. unfold updf. destruct (Nat.eqb_spec i c).
        * subst. rewrite mem_remove_same. exact Q3.
        * rewrite mem_remove_other by auto. destruct (E i n) as [-> ->]. apply A.
      + simpl. apply LI_remove. destruct B as [B1 B2]. split; auto. intros c0 b E0 Hb. destruct (Nat.eq_dec c0 c) as [->|Ne]; [|destruct (E c0 Ne) as [_ E1]; rewrite E1 in E0; eauto]. apply HJ3 in E0. eauto.
      + simpl. intros i Hi. unfold updf. destruct (Nat.eqb_spec i c); auto.
        subst. specialize (C c Hi). unfold live in L. rewrite C in L. tauto.
      + simpl. eapply SI_frame; [| | | | | | exact SV]; try reflexivity.
        intros i. simpl. unfold updf. destruct (Nat.eqb_spec i c); subst; auto.
  Qed.

  (* dropping a temporary reference held by the current frame *)
  Lemma unref_held_ok : forall H J (D : dctx) c w,
    GI (addf H c 1) J D w -> 0 <= H c ->
    safe (fun w' _ => GI H J D w') (conn_unref cb c w).
  Proof.
    intros H J D c w G H0. pose proof G as (A & B & C). pose proof (A c) as Ac. rewrite addf_same in Ac.
    assert (L : live (conns w c)) by (eapply CI_h_live; eauto; lia).
    assert (Dc : D c = false) by (eapply CI_live_d; eauto).
    eapply unref_gen; eauto.
    - intros i Hi. rewrite addf_other; auto.
    - intros. rewrite Dc in Ac. apply CI_unref_held; auto.
    - intros Hz. destruct (CI_held_death _ _ _ _ _ _ Ac H0 Hz) as (Q1 & Q2 & Q3). auto.
  Qed.

  Lemma phase_closed : forall ret p p', phase_step KClosed ret p = Some p' ->
    (p = PCre \/ p = PRetry) /\ p' = (if ret =? 0 then PDone else PRetry).
  Proof. intros ret p p'; destruct p; simpl; intros E; inversion E; auto. Qed.

  (* the SHUTTING_DOWN block of qb_ipcs_disconnect when closed_notified is clear *)
  Lemma sd_core : forall H J (D : dctx) c w,
    c_alloc (conns w c) = true -> c_notified (conns w c) = false ->
    (c_ph (conns w c) = PCre \/ c_ph (conns w c) = PRetry) -> J c = 0 ->
    (forall p' j', closed_outcome p' j' ->
       GI H (setf J c j') D (put c (w_ph p' (w_notified true (conns w c))) w)) ->
    safe (fun w' _ => GI H J D w') (disconnect_sd true cb c w).
  Proof.
    intros H J D c w Ha Hn Hp Hj Hg. unfold disconnect_sd.
    apply safe_chk; auto. rewrite Hn. cbn [andb].
    set (x := conns w c) in *. set (w1 := put c (w_notified true x) w).
    assert (Sv : s_alloc w1 = true).
    { assert (O2 : closed_outcome PDone 2) by (right; auto).
      apply (GI_svc_alive _ _ _ _ c (Hg PDone 2 O2)). simpl. rewrite updf_same. simpl. exact Ha. }
    apply safe_chks; auto. apply safe_bind.
    destruct (Hcb KClosed c w1) as (ret & p' & S1 & S2).
    { unfold w1; simpl. rewrite updf_same. simpl. destruct Hp as [-> | ->]; simpl; congruence. }
    { intros; discriminate. }
    apply phase_closed in S1. destruct S1 as [_ S1].
    assert (Cw1 : conns w1 c = w_notified true x) by (unfold w1; simpl; apply updf_same).
    destruct (ret =? 0) eqn:Er.
    - (* accepted *)
      assert (O : closed_outcome p' 2) by (right; auto).
      eapply safe_mono; [| apply (S2 H (setf J c 2) D)].
      + intros w2 r (-> & G2). cbv beta. rewrite Er.
        pose proof G2 as (A2 & _ & _). pose proof (A2 c) as Ac. rewrite setf_same in Ac.
        assert (L : live (conns w2 c)) by (eapply CI_j_live; eauto; lia).
        assert (Dc : D c = false) by (eapply CI_live_d; eauto).
        apply safe_chk. { eapply CI_live_alloc; eauto. }
        eapply unref_gen; eauto.
        * intros i Hi. rewrite setf_other; auto.
        * intros E3. rewrite Hj in E3. discriminate.
        * intros. rewrite Hj. rewrite Dc in Ac. apply CI_done_unref_n; auto.
        * intros. rewrite Hj. rewrite Dc in Ac. eapply CI_done_unref_z; eauto.
      + eapply GI_ext; [| apply (Hg p' 2 O)]. rewrite Cw1. unfold w1. frame.
    - (* asked for a re-run *)
      assert (O : closed_outcome p' 1) by (left; auto).
      eapply safe_mono; [| apply (S2 H (setf J c 1) D)].
      + intros w2 r (-> & G2). cbv beta. rewrite Er.
        pose proof G2 as (A2 & B2 & C2). pose proof (A2 c) as Ac. rewrite setf_same in Ac.
        assert (L : live (conns w2 c)) by (eapply CI_j_live; eauto; lia).
        assert (Al : c_alloc (conns w2 c) = true) by (eapply CI_live_alloc; eauto).
        apply safe_chk; auto. apply safe_chks. { eapply GI_svc_alive; eauto. } apply safe_chk; auto. simpl.
        destruct C2 as (C2 & SV2).
        unfold GI; simpl. split; [|split; [|split]]; auto.
        2: { eapply LI_setf_out; [|exact B2]. rewrite Hj; discriminate. }
        intros i. rewrite cnt_app. simpl. destruct (Nat.eqb_spec c i).
        * subst i. rewrite Hj. replace (cnt c (jobs w2) + (1 + 0)) with (cnt c (jobs w2) + 1) by lia.
          apply CI_retry_job; auto.
        * specialize (A2 i). rewrite setf_other in A2 by auto.
          replace (cnt i (jobs w2) + (0 + 0)) with (cnt i (jobs w2)) by lia. auto.
      + eapply GI_ext; [| apply (Hg p' 1 O)]. rewrite Cw1. unfold w1. frame.
  Qed.

  (* qb_ipcs_disconnect *)
  Lemma disconnect_ok : forall H J (D : dctx) c w,
    GI H J D w -> live (conns w c) ->
    safe (fun w' _ => GI H J D w') (disconnect true cb c w).
  Proof.
    intros H J D c w G L. pose proof G as (A & B & C & SV). pose proof (A c) as Ac.
    assert (Al : c_alloc (conns w c) = true) by (eapply CI_live_alloc; eauto).
    assert (Dc : D c = false) by (eapply CI_live_d; eauto).
    unfold disconnect. apply safe_chk; auto.
    destruct (c_st (conns w c)) eqn:S.
    - simpl; auto.
    - (* ACTIVE *)
      apply safe_chks; [eapply GI_svc_alive; eauto|].
      destruct (CI_active_disc _ _ _ _ _ _ Ac L S) as (Q1 & Q2).
      assert (Ew : put c (w_st INACTIVE (conns (funcs_disconnect c w) c)) (funcs_disconnect c w) =
                   put c (w_st INACTIVE (w_reg false (conns w c))) (put c (w_reg false (conns w c)) w)).
      { unfold funcs_disconnect. rewrite S. simpl. rewrite updf_same. reflexivity. }
      rewrite Ew. clear Ew. set (w2 := put c _ (put c _ w)).
      assert (Cw2 : conns w2 c = w_st INACTIVE (w_reg false (conns w c))) by (unfold w2; simpl; apply updf_same).
      unfold conn_unref. apply safe_chk. { rewrite Cw2; simpl; auto. }
      rewrite Cw2. cbn [c_rc w_st w_reg].
      pose proof (CI_live_rc _ _ _ _ _ _ Ac L) as R1.
      destruct (c_rc (conns w c) <? 1) eqn:E1; [apply Z.ltb_lt in E1; lia|].
      destruct (c_rc (conns w c) - 1 =? 0) eqn:E2; [apply Z.eqb_eq in E2; lia|].
      simpl. eapply GI_ext with (w := put c (w_rc (c_rc (conns w c) - 1) (w_st INACTIVE (w_reg false (conns w c)))) w).
      + unfold w2. frame.
      + eapply GI_put; eauto. simpl; tauto.
    - (* ESTABLISHED *)
      apply safe_chks; [eapply GI_svc_alive; eauto|].
      destruct (CI_est_facts _ _ _ _ _ _ Ac L S) as (F1 & F2 & F3 & F4).
      assert (Ew : put c (w_st SHUTTING_DOWN (conns (funcs_disconnect c w) c)) (funcs_disconnect c w) =
                   put c (w_st SHUTTING_DOWN (w_reg false (conns w c))) (put c (w_reg false (conns w c)) w)).
      { unfold funcs_disconnect. rewrite S. simpl. rewrite updf_same. reflexivity. }
      rewrite Ew. clear Ew. set (w2 := put c _ (put c _ w)).
      assert (Cw2 : conns w2 c = w_st SHUTTING_DOWN (w_reg false (conns w c))) by (unfold w2; simpl; apply updf_same).
      apply sd_core.
      { rewrite Cw2; simpl; auto. }
      { rewrite Cw2; simpl; auto. }
      { rewrite Cw2; simpl; auto. }
      { exact F3. }
      intros p' j' O. eapply GI_ext with
        (w := put c (w_ph p' (w_notified true (w_st SHUTTING_DOWN (w_reg false (conns w c))))) w).
      + rewrite Cw2. unfold w2. frame.
      + eapply GI_put; eauto.
        * intros i Hi. rewrite setf_other; auto.
        * rewrite setf_same. rewrite F3 in Ac. rewrite F4 in *. apply CI_sd_target_est; auto.
        * simpl. unfold closed_outcome in O. unfold live in L. destruct (c_ph (conns w c)); intuition congruence.
        * rewrite setf_same. unfold closed_outcome in O. intros E3. destruct O as [[_ ->]|[_ ->]]; discriminate.
    - (* SHUTTING_DOWN: closed_notified is set *)
      unfold disconnect_sd. apply safe_chk; auto.
      rewrite (CI_sd_facts _ _ _ _ _ _ Ac L S). simpl. auto.
  Qed.

  (* the queued re-run job *)
  Lemma job_run_ok : forall H J (D : dctx) c t w,
    GI H J D w -> jobs w = c :: t ->
    safe (fun w' _ => GI H J D w') (job_run true cb c (set_jobs t w)).
  Proof.
    intros H J D c t w G Ej. pose proof G as (A & B & C & SV). pose proof (A c) as Ac.
    assert (N : cnt c (c :: t) = 1 /\ cnt c t = 0).
    { apply cnt_le1_head. rewrite <- Ej. unfold CI in Ac. pose proof (cnt_nonneg c (jobs w)). unfold jw in Ac. lia. }
    destruct N as [N1 N2]. rewrite Ej, N1 in Ac.
    destruct (CI_job_facts _ _ _ _ _ Ac) as (Al & S & P & Hj & L).
    unfold job_run. apply safe_chk; auto.
    unfold disconnect. apply safe_chk. { simpl. rewrite updf_same. auto. }
    simpl conns. rewrite updf_same. cbn [c_st w_notified]. rewrite S.
    apply sd_core.
    { simpl; rewrite updf_same; simpl; auto. }
    { simpl; rewrite updf_same; simpl; auto. }
    { simpl; rewrite updf_same; simpl; auto. }
    { exact Hj. }
    simpl conns. rewrite updf_same. intros p' j' O.
    eapply GI_ext with (w := put c (w_ph p' (w_notified true (w_notified false (conns w c)))) (set_jobs t w)).
    - frame.
    - unfold GI; simpl. split; [|split; [|split]].
      + intros i. unfold updf. destruct (Nat.eqb_spec i c).
        * subst i. rewrite setf_same, N2. rewrite Hj in Ac. apply CI_sd_target_job; auto.
        * rewrite setf_other by auto. specialize (A i). rewrite Ej in A. simpl in A.
          destruct (Nat.eqb_spec c i); try congruence. simpl in A. auto.
      + apply LI_setf_in; auto. unfold closed_outcome in O. destruct O as [[_ ->]|[_ ->]]; discriminate.
      + intros i Hi. unfold updf. destruct (Nat.eqb_spec i c); auto.
        subst i. rewrite (C c Hi) in P. discriminate.
      + eapply SI_frame; [| | | | | | exact SV]; try reflexivity.
        intros i. simpl. unfold updf. destruct (Nat.eqb_spec i c); subst; auto.
  Qed.

  (* qb_ipcs_event_send / response_send *)
  Lemma srv_send_ok : forall H J (D : dctx) c w,
    GI H J D w -> live (conns w c) ->
    safe (fun w' _ => GI H J D w') (srv_send cb c w).
  Proof.
    intros H J D c w G L. pose proof G as (A & _ & _). pose proof (A c) as Ac.
    assert (H0 : 0 <= H c) by (unfold CI in Ac; lia).
    unfold srv_send. apply safe_chk. { eapply CI_live_alloc; eauto. }
    apply safe_bind. eapply safe_mono; [| apply ref_ok; eauto].
    intros w1 z1 G1. cbv beta. pose proof G1 as (A1 & _ & _). specialize (A1 c). rewrite addf_same in A1.
    assert (Al1 : c_alloc (conns w1 c) = true) by (eapply CI_live_alloc; eauto; eapply CI_h_live; eauto; lia).
    apply safe_chk; auto.
    apply safe_chks; [apply (GI_svc_alive _ _ _ _ c G1 Al1)|]. apply unref_held_ok; auto.
  Qed.

End Funcs.
