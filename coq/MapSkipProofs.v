(* MapSkipProofs - witnesses on the pointer-level skiplist model (layer B): the repository code (kv_orig) violates
   C17 and C18 on concrete histories (each replayed on the real library under ASan, see fixes/C17-skiplist-*.msg and
   fixes/C18-skiplist-*.msg); the repaired code (kv_fixed) does not.  Also: one universally quantified clause of C18
   on layer A (an iterator only returns entries that are present). *)
From Coq Require Import List NArith ZArith Bool Arith Lia.
Require Import Verif.MapSpec Verif.MapHashModel Verif.MapSkipModel Verif.MapRefModel Verif.gen.Consts_map.
Import ListNotations.

(* a history with the random() answers each operation drew *)
Fixpoint k_run (v : kvariant) (s : kstate) (ops : list (op * list Z)) : list (out * list notif) * option error :=
  match ops with
  | [] => ([], None)
  | (o, orc) :: t =>
    match k_step v rc_consts s o orc with
    | Err e => ([], Some e)
    | Ok (s', r, ns) => let '(l, e) := k_run v s' t in ((r, ns) :: l, e)
    end
  end.

Definition ka : key := [97%N].
Definition kb : key := [98%N].
Definition kc : key := [99%N].
Definition kd : key := [100%N].
Definition lvl0 : list Z := [65535%Z].           (* random() answer that ends skiplist_level_generate at level 0 *)

(* C17: FREE notifier; put a; traversal abandoned at a; rm a; destroy *)
Definition k_wit17 : list (op * list Z) :=
  [(NotifyAdd None 0 17 7, []); (Put ka 1%N, lvl0); (Foreach 1, []); (Rm ka, []); (Destroy, [])].
(* C18 (a): parked on the first entry, remove it and its successor, advance *)
Definition k_wit18a : list (op * list Z) :=
  [(Put kb 1%N, lvl0); (Put kc 2%N, lvl0); (IterCreate 0 None, []); (IterNext 0, []); (Rm kb, []); (Rm kc, []); (IterNext 0, [])].
(* C18 (b): parked on c, remove c, then its predecessor b (not the header), advance *)
Definition k_wit18b : list (op * list Z) :=
  [(Put ka 1%N, lvl0); (Put kb 2%N, lvl0); (Put kc 3%N, lvl0); (Put kd 4%N, lvl0); (IterCreate 0 None, []);
   (IterNext 0, []); (IterNext 0, []); (IterNext 0, []); (Rm kc, []); (Rm kb, []); (IterNext 0, [])].

Definition free_of (ns : list notif) : list (key * val) :=
  flat_map (fun n => if N.eqb (n_event n) EV_FREE then [(n_key n, n_old n)] else []) ns.

(* unrepaired code: the value 1 leaves the map at "rm a" but is never released; destroy reports a NULL key instead
   (the marker key [256] stands for NULL) *)
Lemma skip_c17_refuted_orig :
  map (fun x => free_of (snd x)) (fst (k_run kv_orig k_create k_wit17)) = [[]; []; []; []; [([256%N], 0%N)]] /\
  map fst (fst (k_run kv_orig k_create k_wit17)) = [ORc 0; ONone; OEntries [(ka, 1%N)]; OBool true; ONone].
Proof. vm_compute. split; reflexivity. Qed.

Lemma skip_c17_witness_fixed :
  map (fun x => free_of (snd x)) (fst (k_run kv_fixed k_create k_wit17)) = [[]; []; []; [(ka, 1%N)]; []] /\
  snd (k_run kv_fixed k_create k_wit17) = None.
Proof. vm_compute. split; reflexivity. Qed.

Lemma skip_c18_refuted_orig_a : exists a, snd (k_run kv_orig k_create k_wit18a) = Some (UseAfterFreeArr a).
Proof. eexists. vm_compute. reflexivity. Qed.

Lemma skip_c18_refuted_orig_b : exists a, snd (k_run kv_orig k_create k_wit18b) = Some (UseAfterFreeArr a).
Proof. eexists. vm_compute. reflexivity. Qed.

Lemma skip_c18_witness_fixed :
  snd (k_run kv_fixed k_create k_wit18a) = None /\ snd (k_run kv_fixed k_create k_wit18b) = None /\
  map fst (fst (k_run kv_fixed k_create k_wit18a)) =
    [ONone; ONone; ONone; ONext (Some (kb, 1%N)); OBool true; OBool true; ONext None] /\
  nth 10 (map fst (fst (k_run kv_fixed k_create k_wit18b))) OIgnored = ONext (Some (kd, 4%N)).
Proof. vm_compute. repeat split; reflexivity. Qed.

(* ---------- layer A, C18: whatever an iterator returns is a present entry, with its current value ---------- *)
Lemma after_entry_incl : forall id l x, In x (after_entry id l) -> In x l.
Proof. induction l; simpl; intros; auto. destruct (Nat.eqb (re_id a) id); auto. Qed.

Lemma ref_iter_returns_present : forall r it p r' k v ns,
  a_iter_next r it p = (r', Some (k, v), ns) ->
  In (k, v) (live_kv r).
Proof.
  unfold a_iter_next. intros.
  destruct (find is_live (candidates r p)) eqn:F.
  - apply find_some in F. destruct F as [F1 F2].
    destruct (a_leave _ p) as [r1 ns1] eqn:L. inversion H; subst.
    unfold live_kv, live. change (re_key r0, re_val r0) with (kv r0). apply in_map. apply filter_In. split; auto.
    destruct p; simpl in F1; auto. eapply after_entry_incl; eauto. contradiction.
  - destruct (a_leave _ p). discriminate.
Qed.

(* and it never returns anything once it has reported the end *)
Lemma ref_iter_end_is_final : forall r it, fst (fst (a_iter_next r it PEnd)) = set_riters r (set_pos (r_iters r) it PEnd) /\
  snd (fst (a_iter_next r it PEnd)) = None.
Proof. intros. unfold a_iter_next. simpl. auto. Qed.
