(* alloc / copy / commit as separate operations, interleaved with the owner's reader operations: the ring refines the
   FIFO specification with an open reservation (RbOwSplitModel.xspec_step) for every well-formed operation list, in both
   modes (plain: C07; overwrite: C11 / the blackbox pattern). *)
From Coq Require Import ZArith List Bool Lia ZifyBool.
Import ListNotations.
Require Import Verif.gen.Consts_rb Verif.RbModel Verif.RbSpec Verif.RbMem Verif.RbProofs Verif.RbRefine
               Verif.RbOwSpec Verif.RbOwProofs Verif.RbOwSplitModel.
Local Open Scope Z_scope.

Ltac Zify.zify_post_hook ::= Z.div_mod_to_equations.
Ltac spl := repeat match goal with |- _ /\ _ => split end.

(* the bytes copied into the open reservation *)
Definition filled (b : rb) (d : chunk) : Prop :=
  forall k, 0 <= k < zlen d -> ld (data b) ((4 * (wpt b + 2) + k) mod (4 * rW b)) = nth (Z.to_nat k) d 0.

Definition reserved (b : rb) (q : list chunk) (p rl : Z) (od : option chunk) : Prop :=
  0 <= rl /\ p = (wpt b + RB_CHUNK_HEADER_WORDS) mod rW b /\ used q + cw rl <= rW b - 1 /\
  match od with Some d => zlen d <= rl /\ filled b d | None => True end.

Definition XInv (s : xst) (a : xspec) : Prop :=
  Inv (xb s) (xs a) /\
  match xpend s, xres a with
  | None, None => True
  | Some (p, rl), Some (rl', od) => rl = rl' /\ reserved (xb s) (sq (xs a)) p rl od
  | _, _ => False
  end.

Lemma cw_payload : forall n, 0 <= n -> n <= 4 * (cw n - 2).
Proof. intros n Hn. unfold cw. lia. Qed.

(* byte address of payload byte k of the chunk at physical write_pt = logical WP *)
Lemma payload_addr : forall W WP k, 0 < W -> (4 * (WP mod W + 2) + k) mod (4 * W) = (4 * (WP + 2) + k) mod (4 * W).
Proof.
  intros W WP k HW. replace (4 * (WP mod W + 2) + k) with (4 * (WP mod W) + (8 + k)) by lia.
  rewrite byte_addr by assumption. f_equal. lia.
Qed.

(* ------------------------------------------------------------------ alloc: the header stamp lies outside the queue *)
Lemma alloc_header_repr : forall b q, Repr b q -> used q + 2 <= rW b - 1 ->
  exists b2, alloc_header b = AOk b2 ((wpt b + RB_CHUNK_HEADER_WORDS) mod rW b) /\ Repr b2 q /\
             wpt b2 = wpt b /\ rpt b2 = rpt b /\ rW b2 = rW b /\ sem b2 = sem b /\ ovw b2 = ovw b.
Proof.
  intros b q (HW & HW32 & Hr & Hu & Hw & Hc) Hroom. pose proof (used_nonneg q) as Huq.
  unfold alloc_header. eexists; split; [reflexivity|]. cbn [set_data wpt rpt rW sem ovw data].
  spl; try reflexivity. unfold Repr. cbn [set_data rW wpt rpt data].
  split; [exact HW|]. split; [exact HW32|]. split; [exact Hr|]. split; [exact Hu|]. split; [exact Hw|].
  apply chunks_at_frame with (m := data b); [lia | exact Hc |].
  set (WP := rpt b + used q) in *.
  assert (Hw1 : (wpt b + 1) mod rW b = (WP + 1) mod rW b) by (rewrite Hw; apply Zplus_mod_idemp_l).
  intros A HA. rewrite Hw1. rewrite Hw at 1.
  rewrite ld_stw_logical by lia. rewrite ld_stw_logical by lia. reflexivity.
Qed.

(* ------------------------------------------------------------------ the copy *)
Lemma fill_repr : forall b q rl d, Repr b q -> used q + cw rl <= rW b - 1 -> 0 <= zlen d <= rl ->
  let b' := set_data b (write_bytes (data b) (4 * rW b) (4 * ((wpt b + RB_CHUNK_HEADER_WORDS) mod rW b)) d) in
  Repr b' q /\ filled b' d.
Proof.
  intros b q rl d (HW & HW32 & Hr & Hu & Hw & Hc) Hroom Hd b'. pose proof (used_nonneg q) as Huq.
  pose proof (cw_payload rl ltac:(lia)) as Hcp.
  set (WP := rpt b + used q) in *.
  assert (Hw2 : (wpt b + RB_CHUNK_HEADER_WORDS) mod rW b = (WP + 2) mod rW b).
  { rbc. rewrite Hw. apply Zplus_mod_idemp_l. }
  subst b'. rewrite Hw2. split.
  - unfold Repr. cbn [set_data rW wpt rpt data].
    split; [exact HW|]. split; [exact HW32|]. split; [exact Hr|]. split; [exact Hu|]. split; [exact Hw|].
    apply chunks_at_frame with (m := data b); [lia | exact Hc |].
    intros A HA. rewrite ld_write_bytes_logical by lia. reflexivity.
  - intros k Hk. cbn [set_data data wpt rW]. rewrite Hw. rewrite payload_addr by lia.
    apply ld_write_bytes_logical_in; lia.
Qed.

(* ------------------------------------------------------------------ commit: the filled reservation becomes the newest chunk *)
Lemma commit_repr : forall b q rl d, Repr b q -> used q + cw rl <= rW b - 1 -> 0 <= zlen d <= rl -> filled b d ->
  exists b', commit b (zlen d) = (b', 0) /\ Repr b' (q ++ [d]) /\ rW b' = rW b /\ ovw b' = ovw b /\ rpt b' = rpt b /\
             sem b' = match sem b with Some c => Some (c + 1) | None => None end.
Proof.
  intros b q rl d (HW & HW32 & Hr & Hu & Hw & Hc) Hroom Hd Hf. pose proof (used_nonneg q) as Huq.
  pose proof (cw_payload rl ltac:(lia)) as Hcp. pose proof (cw_mono (zlen d) rl ltac:(lia)) as Hcm.
  pose proof (cw_bytes (zlen d) ltac:(lia)) as Hcw.
  set (W := rW b) in *. set (WP := rpt b + used q) in *.
  assert (Hw1 : (wpt b + 1) mod W = (WP + 1) mod W) by (rewrite Hw; apply Zplus_mod_idemp_l).
  unfold commit. fold W. rewrite Hw1. rewrite Hw.
  set (m4 := stw (data b) (WP mod W) (zlen d)).
  set (m5 := stw m4 ((WP + 1) mod W) RB_CHUNK_MAGIC).
  assert (Hpos : 0 <= WP mod W < W) by (apply Z.mod_pos_bound; lia).
  assert (Hpos1 : 0 <= (WP + 1) mod W < W) by (apply Z.mod_pos_bound; lia).
  assert (Hsz4 : ldw m4 (WP mod W) = zlen d).
  { subst m4. rewrite ldw_stw_same by lia. apply Z.mod_small. unfold two32 in *; lia. }
  rewrite Hsz4. rewrite chunk_step_eq by lia.
  assert (Hsame : same_on (data b) m5 (4 * W) (4 * rpt b) (4 * WP)).
  { intros A HA. subst m5 m4. rewrite ld_stw_logical by lia. rewrite ld_stw_logical by lia. reflexivity. }
  assert (Hnew : chunks_at m5 W WP [d]).
  { cbn [chunks_at]. spl; try exact I.
    - subst m5. rewrite ldw_stw_other; [exact Hsz4 | lia | lia |]. apply succ_mod_neq; lia.
    - subst m5. rewrite ldw_stw_same by lia. apply Z.mod_small. pose proof consts_ok; tauto.
    - intros k Hk. subst m5 m4.
      rewrite ld_stw_logical by lia. rewrite ld_stw_logical by lia.
      specialize (Hf k Hk). fold W in Hf. rewrite Hw in Hf. rewrite payload_addr in Hf by lia. exact Hf. }
  eexists; split; [reflexivity|].
  assert (G : Repr {| rW := W; wpt := (WP mod W + cw (zlen d)) mod W; rpt := rpt b; data := m5;
                      sem := sem b; ovw := ovw b |} (q ++ [d])).
  { unfold Repr; cbn [rW rpt wpt data sem ovw]. rewrite used_app.
    split; [exact HW|]. split; [exact HW32|]. split; [exact Hr|]. split; [lia|]. split.
    - rewrite Zplus_mod_idemp_l. f_equal. subst WP; lia.
    - apply chunks_at_app. split; [|exact Hnew].
      apply chunks_at_frame with (m := data b); [lia | exact Hc | exact Hsame]. }
  split; [apply Repr_sem_post; exact G|].
  unfold sem_post; cbn [sem]. destruct (sem b); cbn; spl; reflexivity.
Qed.

(* ------------------------------------------------------------------ the owner's operations leave the reservation alone *)
Lemma filled_same_data : forall b b' d, data b' = data b -> wpt b' = wpt b -> rW b' = rW b -> filled b d -> filled b' d.
Proof. intros b b' d E1 E2 E3 H k Hk. rewrite E1, E2, E3. apply H; exact Hk. Qed.

Lemma filled_reclaim : forall b q rl d, Repr b q -> used q + cw rl <= rW b - 1 -> 0 <= zlen d <= rl -> filled b d ->
  filled (fst (reclaim b)) d /\ wpt (fst (reclaim b)) = wpt b /\ rW (fst (reclaim b)) = rW b.
Proof.
  intros b q rl d HR Hroom Hd Hf. destruct q as [|c t].
  - rewrite (reclaim_empty _ HR). cbn [fst]. spl; try reflexivity. exact Hf.
  - pose proof HR as (HW & HW32 & Hr & Hu & Hw & Hc).
    pose proof (head_marker _ _ _ HR) as Hmg. pose proof (wpt_neq_rpt _ _ _ HR) as Hne.
    unfold reclaim. rewrite Hmg, Z.eqb_refl. destruct (rpt b =? wpt b) eqn:E; [lia|]. cbn [orb negb fst wpt rW].
    spl; try reflexivity.
    intros k Hk. cbn [data wpt rW].
    pose proof (used_cons_ge2 c t) as Hu2. pose proof (cw_payload rl ltac:(lia)) as Hcp.
    set (WP := rpt b + used (c :: t)) in *.
    rewrite Hw. rewrite payload_addr by lia.
    rewrite <- (Z.mod_small (rpt b) (rW b)) at 1 by lia.
    rewrite ld_stw_logical by lia. rewrite ld_stw_logical by lia.
    specialize (Hf k Hk). rewrite Hw in Hf. rewrite payload_addr in Hf by lia. exact Hf.
Qed.

Lemma trywait_same : forall b, data (fst (sem_trywait b)) = data b /\ wpt (fst (sem_trywait b)) = wpt b /\
  rW (fst (sem_trywait b)) = rW b /\ rpt (fst (sem_trywait b)) = rpt b.
Proof. intros b. unfold sem_trywait. destruct (sem b) as [c|]; [destruct (0 <? c)|]; spl; reflexivity. Qed.

Lemma repr_trywait : forall b q, Repr b q -> Repr (fst (sem_trywait b)) q.
Proof. intros b q H. unfold sem_trywait. destruct (sem b) as [c|]; [destruct (0 <? c)|]; exact H. Qed.

Lemma filled_reader_step : forall b q rl d o, Repr b q -> used q + cw rl <= rW b - 1 -> 0 <= zlen d <= rl -> filled b d ->
  match o with OWrite _ | OAllocCommit _ _ => False | _ => True end ->
  filled (fst (step b o)) d /\ wpt (fst (step b o)) = wpt b.
Proof.
  intros b q rl d o HR Hroom Hd Hf Ho.
  destruct (trywait_same b) as (T1 & T2 & T3 & T4).
  pose proof (repr_trywait b q HR) as HR1.
  assert (Hf1 : filled (fst (sem_trywait b)) d) by (apply (filled_same_data b); assumption).
  destruct (sem_post_same (fst (sem_trywait b))) as (P1 & P2 & P3). destruct (sem_post_rW (fst (sem_trywait b))) as (P4 & _).
  destruct o as [x | rlen x | n | | | | ]; try contradiction; cbn [step].
  - unfold read. destruct (sem_trywait b) as (b1, res). cbn [fst] in *.
    destruct (res <? 0); cbn [fst]; [split; assumption|].
    destruct (negb (chunk_ready b1)).
    + destruct (sem b1); cbn [fst]; [|split; assumption].
      split; [apply (filled_same_data b1); try assumption; congruence | congruence].
    + destruct (n <? _).
      * cbn [fst]. split; [apply (filled_same_data b1); try assumption; congruence | congruence].
      * rewrite <- T3 in Hroom.
        destruct (filled_reclaim b1 q rl d HR1 Hroom Hd Hf1) as (G1 & G2 & _).
        destruct (reclaim b1) as (b2, rc). cbn [fst] in *. split; [exact G1 | congruence].
  - unfold peek. destruct (sem_trywait b) as (b1, res). cbn [fst] in *.
    destruct (res <? 0); cbn [fst]; [split; assumption|].
    destruct (negb (chunk_ready b1)); cbn [fst]; [|split; assumption].
    split; [apply (filled_same_data b1); try assumption; congruence | congruence].
  - destruct (filled_reclaim b q rl d HR Hroom Hd Hf) as (G1 & G2 & _).
    destruct (reclaim b) as (b2, rc). cbn [fst] in *. split; assumption.
  - cbn [fst]. split; [exact Hf | reflexivity].
  - cbn [fst]. split; [exact Hf | reflexivity].
Qed.

(* a reader operation never lengthens the queue *)
Lemma reader_queue_shrinks : forall W s o, match o with OWrite _ | OAllocCommit _ _ => False | _ => True end ->
  used (sq (fst (spec_step W s o))) <= used (sq s).
Proof.
  intros W s o Ho. destruct o as [x | rlen x | n | | | | ]; try contradiction; cbn [spec_step].
  - destruct (negb (has_token s)); [cbn; lia|]. destruct (sq s) as [|c t] eqn:E; [cbn; rewrite E; cbn; lia|].
    destruct (n <? zlen c); cbn [fst sq]; [rewrite E; lia|].
    cbn [used]. pose proof (cw_ge2 (zlen c) (zlen_nonneg c)). lia.
  - destruct (negb (has_token s)); [cbn; lia|]. destruct (sq s) as [|c t] eqn:E; cbn [fst sq]; rewrite ?E; lia.
  - cbn [fst sq]. destruct (sq s) as [|c t]; cbn [tl used]; [lia|]. pose proof (cw_ge2 (zlen c) (zlen_nonneg c)). lia.
  - cbn; lia.
  - cbn; lia.
Qed.

(* ------------------------------------------------------------------ one operation *)
Definition mode_ok (ow : bool) (s : xst) : Prop := ovw (xb s) = ow.

Lemma xstep_refines : forall ow s a o, XInv s a -> mode_ok ow s -> xwf a o ->
  forall a' y, xspec_step ow (rW (xb s)) a o = (a', y) ->
  exists s' x, xstep s o = (s', x) /\ XInv s' a' /\ obs_of x = y /\ x <> OFuel /\ rW (xb s') = rW (xb s) /\ mode_ok ow s'.
Proof.
  intros ow s a o (HI & HP) Hm Hwf a' y Hsp. unfold mode_ok in *.
  destruct o as [o | rlen | d | len]; cbn [xstep]; cbn [xspec_step] in Hsp.
  - (* an operation of RbModel.step *)
    destruct Hwf as (Hwo & Hnw).
    assert (Hwfo : wf_op o) by (destruct o; cbn; try exact I; exact Hwo).
    destruct (if ow then ow_spec_step (rW (xb s)) (xs a) o else spec_step (rW (xb s)) (xs a) o) as (s1, y1) eqn:Hss.
    inversion Hsp; subst a' y; clear Hsp.
    assert (Hst : exists b' x, step (xb s) o = (b', x) /\ Inv b' s1 /\ obs_of x = y1 /\ x <> OFuel /\
                               rW b' = rW (xb s) /\ ovw b' = ow).
    { destruct ow.
      - destruct (ow_step_refines (xb s) (xs a) o HI Hm Hwfo _ _ Hss) as (b' & x & H1 & H2 & H3 & H4 & H5 & H6).
        exists b', x. spl; assumption.
      - destruct (step (xb s) o) as (b', x) eqn:Hstep.
        destruct (step_refines (xb s) (xs a) o HI Hm Hwfo _ _ _ _ Hstep Hss) as (H2 & H3 & H5 & H6).
        exists b', x. spl; try assumption; try reflexivity.
        destruct o; cbn [step] in Hstep.
        + unfold write in Hstep. destruct (alloc_commit_nofuel (xb s) (zlen d) d Hm) as (b1 & r & Hac). rewrite Hac in Hstep.
          inversion Hstep; discriminate.
        + destruct (alloc_commit_nofuel (xb s) rlen d Hm) as (b1 & r & Hac). rewrite Hac in Hstep. inversion Hstep; discriminate.
        + destruct (read (xb s) n) as ((?, ?), ?). inversion Hstep; discriminate.
        + destruct (peek (xb s)) as ((?, ?), ?). inversion Hstep; discriminate.
        + destruct (reclaim (xb s)) as (?, ?). inversion Hstep; discriminate.
        + inversion Hstep; discriminate.
        + inversion Hstep; discriminate. }
    destruct Hst as (b' & x & Hstep & HI' & Hy & Hx & HW' & Ho').
    rewrite Hstep. eexists; eexists; split; [reflexivity|]. cbn [xb xpend xs xres].
    spl; try assumption.
    unfold XInv; cbn [xb xpend xs xres]. split; [exact HI'|].
    destruct (xpend s) as [(p, rl)|] eqn:Ep; destruct (xres a) as [(rl', od)|] eqn:Er; try contradiction; [|exact I].
    destruct HP as (-> & Hrl & Hp & Hroom & Hod).
    assert (Hno : match o with OWrite _ | OAllocCommit _ _ => False | _ => True end) by (apply Hnw; discriminate).
    assert (Hspeq : s1 = fst (spec_step (rW (xb s)) (xs a) o)).
    { destruct ow; [|rewrite Hss; reflexivity].
      destruct o; try contradiction; cbn [ow_spec_step] in Hss; rewrite Hss; reflexivity. }
    pose proof (reader_queue_shrinks (rW (xb s)) (xs a) o Hno) as Hshr. rewrite <- Hspeq in Hshr.
    destruct HI as (HR & Hsem).
    assert (Hb' : b' = fst (step (xb s) o)) by (rewrite Hstep; reflexivity).
    split; [reflexivity|]. unfold reserved. rewrite HW'.
    assert (Hwp : wpt b' = wpt (xb s)).
    { destruct od as [d|].
      - destruct Hod as (Hdl & Hf). pose proof (zlen_nonneg d).
        destruct (filled_reader_step (xb s) _ rl' d o HR Hroom ltac:(lia) Hf Hno) as (_ & G). rewrite Hb'. exact G.
      - pose proof (filled_reader_step (xb s) _ rl' [] o HR Hroom ltac:(cbn; lia)
                      ltac:(intros k Hk; cbn in Hk; lia) Hno) as (_ & G). rewrite Hb'. exact G. }
    rewrite Hwp. spl; try assumption; try lia.
    destruct od as [d|]; [|exact I]. destruct Hod as (Hdl & Hf). pose proof (zlen_nonneg d). split; [exact Hdl|].
    destruct (filled_reader_step (xb s) _ rl' d o HR Hroom ltac:(lia) Hf Hno) as (G & _). rewrite Hb'. exact G.
  - (* alloc *)
    destruct Hwf as (Hnone & Hrl). rewrite Hnone in *.
    destruct (xpend s) as [(p0, rl0)|] eqn:Ep; [contradiction|].
    destruct HI as (HR & Hsem).
    set (W := rW (xb s)) in *.
    set (q1 := if ow then drop_until W (sq (xs a)) rlen else sq (xs a)) in *.
    assert (Hmr : exists b1 rc, (if ow then ow_make_room (Z.to_nat W) (xb s) (rlen + RB_CHUNK_MARGIN)
                                 else Some (xb s, if has_room W q1 rlen then 0 else - RB_EAGAIN)) = Some (b1, rc) /\
                                Repr b1 q1 /\ rW b1 = W /\ sem b1 = sem (xb s) /\ ovw b1 = ow /\
                                rc = (if has_room W q1 rlen then 0 else if ow then - RB_EINVAL else - RB_EAGAIN)).
    { destruct ow.
      - destruct (ow_make_room_repr (sq (xs a)) _ (xb s) rlen HR (fuel_enough _ _ HR))
          as (b1 & rc & H1 & H2 & H3 & H4 & H5 & _ & H7).
        exists b1, rc. spl; try assumption. congruence.
      - eexists; eexists. split; [reflexivity|]. spl; try assumption; reflexivity. }
    destruct Hmr as (b1 & rc & Hmr & HR1 & HW1 & Hs1 & Ho1 & Hrc).
    assert (Halloc : alloc (xb s) rlen = if has_room W q1 rlen then alloc_header b1
                                         else AErr b1 (if ow then RB_EINVAL else RB_EAGAIN)).
    { unfold alloc. rewrite Hm. fold W. destruct ow.
      - rewrite Hmr. rewrite Hrc. destruct (has_room W q1 rlen).
        + reflexivity.
        + rewrite einval_nz. rewrite Z.opp_involutive. reflexivity.
      - inversion Hmr; subst b1.
        rewrite (has_room_space_free (xb s) (sq (xs a)) rlen HR). fold W. fold q1.
        destruct (has_room W q1 rlen); reflexivity. }
    rewrite Halloc.
    destruct (has_room W q1 rlen) eqn:Eroom.
    + inversion Hsp; subst a' y; clear Hsp.
      pose proof (has_room_used W q1 rlen rlen ltac:(lia) Eroom) as Hroom. rewrite <- HW1 in Hroom.
      pose proof (cw_ge2 rlen Hrl) as Hc2.
      destruct (alloc_header_repr b1 q1 HR1 ltac:(lia)) as (b2 & Hah & HR2 & Hw2 & Hr2 & HW2 & Hs2 & Ho2).
      rewrite Hah. eexists; eexists; split; [reflexivity|]. cbn [xb xpend xs xres].
      spl; try reflexivity; try discriminate; try congruence.
      unfold XInv; cbn [xb xpend xs xres]. split; [split; [exact HR2 | cbn [stok]; congruence]|]. cbn [sq].
      split; [reflexivity|]. unfold reserved. rewrite Hw2, HW2. spl; try assumption; try reflexivity; try exact I.
    + inversion Hsp; subst a' y; clear Hsp.
      eexists; eexists; split; [reflexivity|]. cbn [xb xpend xs xres].
      spl; try discriminate; try congruence.
      * unfold XInv; cbn [xb xpend xs xres]. split; [split; [exact HR1 | cbn [stok]; congruence] | exact I].
      * cbn [obs_of]. destruct ow; reflexivity.
  - (* copy *)
    destruct Hwf as (rl & od & Hres & Hdl). rewrite Hres in *.
    destruct (xpend s) as [(p, rl0)|] eqn:Ep; [|contradiction].
    destruct HP as (-> & Hrl & Hp & Hroom & _). inversion Hsp; subst a' y; clear Hsp.
    destruct HI as (HR & Hsem). pose proof (zlen_nonneg d) as Hz.
    destruct (fill_repr (xb s) _ rl d HR Hroom ltac:(lia)) as (HR' & Hf').
    eexists; eexists; split; [reflexivity|]. cbn [xb xpend xs xres]. rewrite Hp.
    spl; try reflexivity; try discriminate; try assumption.
    unfold XInv; cbn [xb xpend xs xres]. split; [split; [exact HR' | exact Hsem]|]. split; [reflexivity|].
    unfold reserved. cbn [set_data wpt rW]. spl; try assumption; reflexivity.
  - (* commit *)
    destruct Hwf as (rl & d & Hres & ->). rewrite Hres in *.
    destruct (xpend s) as [(p, rl0)|] eqn:Ep; [|contradiction].
    destruct HP as (-> & Hrl & Hp & Hroom & Hdl & Hf). inversion Hsp; subst a' y; clear Hsp.
    destruct HI as (HR & Hsem). pose proof (zlen_nonneg d) as Hz.
    destruct (commit_repr (xb s) _ rl d HR Hroom ltac:(lia) Hf) as (b' & Hc & HR' & HW' & Ho' & _ & Hs').
    rewrite Hc. eexists; eexists; split; [reflexivity|]. cbn [xb xpend xs xres].
    spl; try reflexivity; try discriminate; try congruence.
    unfold XInv; cbn [xb xpend xs xres]. split; [|exact I]. split; [exact HR'|]. cbn [stok]. rewrite Hs', Hsem. unfold tok_add. destruct (stok (xs a)); reflexivity.
Qed.

(* ------------------------------------------------------------------ every well-formed operation list *)
Theorem xrun_refines : forall ow ops s a, XInv s a -> mode_ok ow s -> xwf_run ow (rW (xb s)) a ops ->
  forall a' ys, xspec_run ow (rW (xb s)) a ops = (a', ys) ->
  exists s' xs, xrun s ops = (s', xs) /\ XInv s' a' /\ map obs_of xs = ys /\ ~ In OFuel xs /\
                rW (xb s') = rW (xb s) /\ mode_ok ow s'.
Proof.
  intros ow. induction ops as [|o t IH]; intros s a HX Hm Hwf a' ys Hsp; cbn [xrun xspec_run xwf_run] in *.
  - inversion Hsp; subst. exists s, []. spl; try assumption; try reflexivity. intros [].
  - destruct Hwf as (Hwo & Hwt).
    destruct (xspec_step ow (rW (xb s)) a o) as (a1, y) eqn:Hss. cbn [fst] in Hwt.
    destruct (xspec_run ow (rW (xb s)) a1 t) as (a2, ys') eqn:Hsr.
    inversion Hsp; subst; clear Hsp.
    destruct (xstep_refines ow s a o HX Hm Hwo _ _ Hss) as (s1 & x & Hst & HX1 & Hy & Hx & HW1 & Hm1).
    rewrite <- HW1 in Hsr, Hwt.
    destruct (IH s1 a1 HX1 Hm1 Hwt _ _ Hsr) as (s2 & xs & Hrun & HX2 & Hys & Hnf & HW2 & Hm2).
    rewrite Hst, Hrun. exists s2, (x :: xs). spl; try assumption; try congruence.
    + cbn [map]. congruence.
    + intros [H | H]; [congruence | exact (Hnf H)].
Qed.

(* the composite operation of RbModel is the split sequence *)
Theorem split_is_composite : forall b rlen d, 0 <= zlen d ->
  fst (xrun {| xb := b; xpend := None |} [XAlloc rlen; XFill d; XCommit (zlen d)]) =
  match alloc b rlen with
  | AOk _ _ => match alloc_commit b rlen d with WRet b' _ => {| xb := b'; xpend := None |} | WFuel => {| xb := b; xpend := None |} end
  | AErr b1 _ => {| xb := fst (commit b1 (zlen d)); xpend := None |}
  | AFuel => {| xb := fst (commit b (zlen d)); xpend := None |}
  end.
Proof.
  intros b rlen d Hz. cbn [xrun xstep xb xpend]. unfold alloc_commit.
  destruct (alloc b rlen) as [b1 p | b1 e |]; cbn [xb xpend fst].
  - destruct (commit _ _) as (b2, r). reflexivity.
  - destruct (commit b1 (zlen d)) as (b2, r). reflexivity.
  - destruct (commit b (zlen d)) as (b2, r). reflexivity.
Qed.

(* from a freshly opened ring, either mode *)
Theorem xrun_refines_from_open : forall S ns ow ops, 0 <= S -> S + RB_CHUNK_MARGIN + RB_SIZE_EXTRA + RB_PAGE_SIZE <= two32 ->
  let b0 := rb_open S ns ow in
  let a0 := {| xs := spec0 ns; xres := None |} in
  xwf_run ow (rW b0) a0 ops ->
  forall a' ys, xspec_run ow (rW b0) a0 ops = (a', ys) ->
  exists s' xs, xrun {| xb := b0; xpend := None |} ops = (s', xs) /\ XInv s' a' /\ map obs_of xs = ys /\ ~ In OFuel xs.
Proof.
  intros S ns ow ops HS Hmax b0 a0 Hwf a' ys Hsp.
  destruct (open_inv S ns ow HS Hmax) as (HI & Ho & _).
  assert (HX : XInv {| xb := b0; xpend := None |} a0) by (split; [exact HI | exact I]).
  destruct (xrun_refines ow ops {| xb := b0; xpend := None |} a0 HX Ho Hwf _ _ Hsp) as (s' & xs & H1 & H2 & H3 & H4 & _).
  exists s', xs. spl; assumption.
Qed.

(* non-vacuity: reserve 600, read the older chunk in between, copy 90 bytes, peek, commit 90: the chunk arrives *)
Definition ex_xops : list xop :=
  [XOp (OWrite (repeat 7 3000)); XAlloc 600; XOp (ORead 70000); XFill (repeat 3 90); XOp OPeek; XCommit 90; XOp (ORead 70000)].
Lemma example_split :
  xwf_run false (rW (rb_open 100 false false)) {| xs := spec0 false; xres := None |} ex_xops /\
  exists s xs, xrun {| xb := rb_open 100 false false; xpend := None |} ex_xops = (s, xs) /\
               nth 6 xs OFuel = ORet 90 (repeat 3 90) /\ xpend s = None.
Proof.
  split.
  - cbn [xwf_run ex_xops]. vm_compute.
    repeat match goal with
           | |- _ /\ _ => split
           | |- True => exact I
           | |- exists _, _ => eexists
           | |- ?x = ?x => reflexivity
           | |- Some _ = Some _ => reflexivity
           | |- _ -> True => intros; exact I
           | |- (_ -> False) -> False => let H := fresh in intro H; apply H; reflexivity
           | |- _ = _ -> False => vm_compute; discriminate
           end.
    all: vm_compute; reflexivity.
  - eexists; eexists. split; [vm_compute; reflexivity|]. split; reflexivity.
Qed.
