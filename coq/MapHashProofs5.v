(* MapHashProofs5 - C18 for the pointer-level hashtable model, clause "no key that was never present is returned":
   for every state satisfying the memory invariant and every iterator position, what hashtable_iter_next returns is
   the key and the current value of a linked node that is not removed - a present entry. *)
From Coq Require Import List NArith ZArith Bool Arith Lia.
Require Import Verif.MapSpec Verif.MapHashModel Verif.MapRefModel Verif.MapHashProofs2 Verif.MapHashProofs3.
Import ListNotations.

Lemma scan_elig : forall h l id, scan v_fixed h l = Ok (Some id) ->
  In id l /\ exists n, deref h id = Ok n /\ hn_removed n = false.
Proof.
  induction l; simpl; intros. discriminate.
  destruct (deref h a) as [n|] eqn:N; simpl in H; try discriminate.
  destruct (eligible v_fixed n) eqn:E.
  - inversion H; subst. split; auto. exists n. split; auto. unfold eligible in E. simpl in E. apply negb_true_iff in E. auto.
  - destruct (IHl id H) as [I1 I2]. split; auto.
Qed.

Lemma scan_buckets_elig : forall h rest b cands id b', scan_buckets v_fixed h b cands rest = Ok (Some (id, b')) ->
  exists n, deref h id = Ok n /\ hn_removed n = false.
Proof.
  induction rest; simpl; intros b cands id b' H.
  - destruct (scan v_fixed h cands) as [[x|]|] eqn:S; simpl in H; try discriminate. inversion H; subst. apply (scan_elig _ _ _ S).
  - destruct (scan v_fixed h cands) as [[x|]|] eqn:S; simpl in H; try discriminate.
    + inversion H; subst. apply (scan_elig _ _ _ S).
    + eapply IHrest; eauto.
Qed.

Lemma node_deref_keeps_key : forall s cur s' ns id m m', node_deref s cur = Ok (s', ns) ->
  deref (h_heap s) id = Ok m -> deref (h_heap s') id = Ok m' ->
  hn_key m' = hn_key m /\ hn_val m' = hn_val m /\ hn_removed m' = hn_removed m.
Proof.
  unfold node_deref. intros s cur s' ns id m m' H D D'.
  destruct (deref (h_heap s) cur) as [n|] eqn:N; simpl in H; try discriminate.
  assert (Hlt : cur < length (h_heap s)) by (eapply deref_lt; eauto).
  destruct (hn_ref n) as [|r]; try discriminate. destruct r.
  - inversion H; subst. simpl in D'. destruct (Nat.eq_dec cur id).
    + subst. exfalso. unfold deref, free_cell, store in D'. rewrite nth_error_upd, Nat.eqb_refl in D'. apply Nat.ltb_lt in Hlt. rewrite Hlt in D'.
      rewrite nth_error_upd, Nat.eqb_refl, upd_length, Hlt in D'. simpl in D'. discriminate.
    + unfold deref in D'. rewrite nth_error_free_cell, nth_error_store_other in D' by auto. unfold deref in D. rewrite D in D'. inversion D'; subst; auto.
  - inversion H; subst. simpl in D'. rewrite deref_store in D' by auto. destruct (Nat.eqb cur id) eqn:E.
    + apply Nat.eqb_eq in E. subst. rewrite N in D. inversion D; subst. inversion D'; subst. simpl. auto.
    + rewrite D in D'. inversion D'; subst; auto.
Qed.

Theorem iter_next_returns_present : forall s hi s' hi' k x ns,
  h_iter_next v_fixed s hi = Ok (s', hi', Some (k, x), ns) ->
  exists id n, deref (h_heap s) id = Ok n /\ hn_removed n = false /\ hn_key n = k /\ hn_val n = x /\ hi_node hi' = Some id.
Proof.
  intros s hi s' hi' k x ns. unfold h_iter_next.
  destruct (match hi_node hi with
            | Some cur => do _ <- deref (h_heap s) cur; Ok (after_id cur (bucket s (hi_bucket hi)))
            | None => Ok (bucket s (hi_bucket hi)) end) as [first|]; [cbn [bind]|intro; discriminate].
  destruct (if Nat.ltb (hi_bucket hi) (nb s) then scan_buckets v_fixed (h_heap s) (hi_bucket hi) first (skipn (S (hi_bucket hi)) (h_buckets s)) else Ok None)
    as [found|] eqn:FO; [cbn [bind]|intro; discriminate].
  destruct found as [[id b']|].
  2:{ cbn [bind]. destruct (hi_node hi) as [cur|]; simpl.
      - destruct (node_deref s cur) as [[s2 ns2]|]; simpl; intro Q; discriminate.
      - intro Q; discriminate. }
  assert (EL : exists n, deref (h_heap s) id = Ok n /\ hn_removed n = false).
  { destruct (Nat.ltb (hi_bucket hi) (nb s)); [|discriminate]. eapply scan_buckets_elig; eauto. }
  destruct EL as [n [N1 N2]]. rewrite N1. cbn [bind].
  assert (Hlt : id < length (h_heap s)) by (eapply deref_lt; eauto).
  destruct (hi_node hi) as [cur|].
  - destruct (node_deref _ cur) as [[s2 ns2]|] eqn:ND; [cbn [bind]|intro; discriminate].
    destruct (deref (h_heap s2) id) as [n2|] eqn:N3; simpl; intro Q; inversion Q; subst. clear Q.
    assert (D1 : deref (h_heap (set_heap s (store (h_heap s) id {| hn_key := hn_key n; hn_val := hn_val n; hn_ref := S (hn_ref n);
                   hn_removed := hn_removed n; hn_subs := hn_subs n |}))) id = Ok (bumpn n)).
    { simpl. rewrite deref_store by auto. rewrite Nat.eqb_refl. reflexivity. }
    destruct (node_deref_keeps_key _ _ _ _ _ _ _ ND D1 N3) as [K1 [K2 K3]].
    exists id, n. simpl in K1. repeat split; auto.
  - simpl. rewrite deref_store by auto. rewrite Nat.eqb_refl. simpl. intro Q; inversion Q; subst.
    exists id, n. repeat split; auto.
Qed.
