(* MapRefModel - layer A of the map models (DESIGN.md 5.3): "logical map with tombstones".
   The container-independent part of lib/hashtable.c and lib/skiplist.c (with the proposed repairs): entries in
   ITERATION ORDER, an entry removed while an iterator is positioned on it stays as a tombstone until the last
   such iterator has left (that is what the node reference count implements), iterators are positions in that
   list.  The only container-specific ingredient is where a NEW entry goes:
       before the first existing entry x with [before k (key of x)] = true
   hashtable:  before k x := bucket k < bucket x     (tail of its bucket; buckets in index order)
   skiplist :  before k x := k <= x                  (ascending keys; a tombstone with the same key stays behind)
   The C17 / C18 property theorems are proved about this layer for EVERY [before]; the layer is executable
   and is run against the implementation by the correspondence check, next to the pointer-level models
   MapHashModel / MapSkipModel (layer B).  Model only, no proofs.                                          *)
From Coq Require Import List NArith ZArith Bool Arith.
Require Import Verif.MapSpec Verif.MapHashModel.
Import ListNotations.

Record rentry := { re_id : nat; re_key : key; re_val : val; re_removed : bool; re_subs : list nsub }.
Inductive rpos := PStart | PAt (id : nat) | PEnd.
Record rstate := {
  r_ents : list rentry;             (* iteration order, tombstones included *)
  r_next : nat;                     (* next entry id *)
  r_subs : list nsub;               (* global notifiers *)
  r_iters : list (nat * rpos);      (* caller-held iterators *)
  r_used : list nat;
  r_alive : bool
}.
Definition r_init : rstate :=
  {| r_ents := []; r_next := 0; r_subs := []; r_iters := []; r_used := []; r_alive := true |}.

Definition is_live (e : rentry) : bool := negb (re_removed e).
Definition live (r : rstate) : list rentry := filter is_live (r_ents r).
Definition kv (e : rentry) : key * val := (re_key e, re_val e).
Definition live_kv (r : rstate) : list (key * val) := map kv (live r).

Definition find_live (ents : list rentry) (k : key) : option rentry :=
  find (fun e => is_live e && key_eqb (re_key e) k) ents.

Definition pos_eqb (p : rpos) (id : nat) : bool := match p with PAt x => Nat.eqb x id | _ => false end.
Definition parked (iters : list (nat * rpos)) (id : nat) : bool := existsb (fun p => pos_eqb (snd p) id) iters.

Fixpoint ins_before (p : rentry -> bool) (e : rentry) (l : list rentry) : list rentry :=
  match l with
  | [] => [e]
  | x :: t => if p x then e :: l else x :: ins_before p e t
  end.
Definition upd_entry (ents : list rentry) (id : nat) (f : rentry -> rentry) : list rentry :=
  map (fun e => if Nat.eqb (re_id e) id then f e else e) ents.
Definition del_entry (ents : list rentry) (id : nat) : list rentry :=
  filter (fun e => negb (Nat.eqb (re_id e) id)) ents.
Fixpoint after_entry (id : nat) (l : list rentry) : list rentry :=
  match l with
  | [] => []
  | x :: t => if Nat.eqb (re_id x) id then t else after_entry id t
  end.

Definition r_notify (r : rstate) (e : rentry) (ev : N) (k : key) (old new : val) : list notif :=
  notify_node (re_subs e) ev k old new ++ notify_global (r_subs r) ev k old new.

Definition set_ents (r : rstate) (x : list rentry) : rstate :=
  {| r_ents := x; r_next := r_next r; r_subs := r_subs r; r_iters := r_iters r; r_used := r_used r; r_alive := r_alive r |}.
Definition set_riters (r : rstate) (x : list (nat * rpos)) : rstate :=
  {| r_ents := r_ents r; r_next := r_next r; r_subs := r_subs r; r_iters := x; r_used := r_used r; r_alive := r_alive r |}.
Definition set_rsubs (r : rstate) (x : list nsub) : rstate :=
  {| r_ents := r_ents r; r_next := r_next r; r_subs := x; r_iters := r_iters r; r_used := r_used r; r_alive := r_alive r |}.

Section Ref.
Variable before : key -> key -> bool.

Definition a_put (r : rstate) (k : key) (x : val) : rstate * list notif :=
  match find_live (r_ents r) k with
  | Some e =>
    let e' := {| re_id := re_id e; re_key := k; re_val := x; re_removed := false; re_subs := re_subs e |} in
    (set_ents r (upd_entry (r_ents r) (re_id e) (fun _ => e')), r_notify r e' EV_REPLACED (re_key e) (re_val e) x)
  | None =>
    let e := {| re_id := r_next r; re_key := k; re_val := x; re_removed := false; re_subs := [] |} in
    ({| r_ents := ins_before (fun y => before k (re_key y)) e (r_ents r); r_next := S (r_next r); r_subs := r_subs r;
        r_iters := r_iters r; r_used := r_used r; r_alive := r_alive r |},
     r_notify r e EV_INSERTED k 0%N x)
  end.

Definition a_get (r : rstate) (k : key) : val :=
  match find_live (r_ents r) k with Some e => re_val e | None => 0%N end.

(* drop the last reference of entry [id]: the node is destroyed, its DELETED (and FREE) notifications go out *)
Definition a_destroy_entry (r : rstate) (e : rentry) : rstate * list notif :=
  (set_ents r (del_entry (r_ents r) (re_id e)), r_notify r e EV_DELETED (re_key e) (re_val e) 0%N).

Definition a_rm (r : rstate) (k : key) : rstate * bool * list notif :=
  match find_live (r_ents r) k with
  | None => (r, false, [])
  | Some e =>
    if parked (r_iters r) (re_id e)
    then (set_ents r (upd_entry (r_ents r) (re_id e)
                        (fun y => {| re_id := re_id y; re_key := re_key y; re_val := re_val y; re_removed := true;
                                     re_subs := re_subs y |})), true, [])
    else let '(r', ns) := a_destroy_entry r e in (r', true, ns)
  end.

(* an iterator has just left position [p] (the iterator table is already updated) *)
Definition a_leave (r : rstate) (p : rpos) : rstate * list notif :=
  match p with
  | PAt id =>
    match find (fun e => Nat.eqb (re_id e) id) (r_ents r) with
    | Some e => if re_removed e && negb (parked (r_iters r) id) then a_destroy_entry r e else (r, [])
    | None => (r, [])
    end
  | _ => (r, [])
  end.

Definition set_pos (iters : list (nat * rpos)) (it : nat) (p : rpos) : list (nat * rpos) :=
  map (fun q => if Nat.eqb (fst q) it then (it, p) else q) iters.
Fixpoint pos_lookup (l : list (nat * rpos)) (it : nat) : option rpos :=
  match l with
  | [] => None
  | (i, p) :: t => if Nat.eqb i it then Some p else pos_lookup t it
  end.

Definition candidates (r : rstate) (p : rpos) : list rentry :=
  match p with PStart => r_ents r | PAt id => after_entry id (r_ents r) | PEnd => [] end.

Definition a_iter_next (r : rstate) (it : nat) (p : rpos) : rstate * option (key * val) * list notif :=
  match find is_live (candidates r p) with
  | Some e =>
    let '(r', ns) := a_leave (set_riters r (set_pos (r_iters r) it (PAt (re_id e)))) p in
    (r', Some (kv e), ns)
  | None =>
    let '(r', ns) := a_leave (set_riters r (set_pos (r_iters r) it PEnd)) p in
    (r', None, ns)
  end.

Definition a_iter_free (r : rstate) (it : nat) (p : rpos) : rstate * list notif :=
  a_leave (set_riters r (filter (fun q => negb (Nat.eqb (fst q) it)) (r_iters r))) p.

Definition a_notify_add (rc_einval rc_nokey rc_eexist : Z) (r : rstate) (k : option key) (fn ev ud : N) : rstate * Z :=
  let f := {| ns_fn := fn; ns_events := ev; ns_ud := ud |} in
  match k with
  | Some kk =>
    if has_bit ev EV_FREE then (r, rc_einval) else
    match find_live (r_ents r) kk with
    | None => (r, rc_nokey)
    | Some e =>
      if nsub_conflict (re_subs e) fn ev ud then (r, rc_eexist)
      else (set_ents r (upd_entry (r_ents r) (re_id e)
                          (fun y => {| re_id := re_id y; re_key := re_key y; re_val := re_val y; re_removed := re_removed y;
                                       re_subs := nsub_insert (re_subs y) f |})), 0%Z)
    end
  | None =>
    if nsub_conflict (r_subs r) fn ev ud then (r, rc_eexist)
    else (set_rsubs r (nsub_insert (r_subs r) f), 0%Z)
  end.

Definition a_notify_del (rc_enoent : Z) (r : rstate) (k : option key) (fn ev : N) (ud : option N) : rstate * Z :=
  match k with
  | Some kk =>
    match find_live (r_ents r) kk with
    | None => (r, rc_enoent)
    | Some e =>
      if existsb (nsub_match fn ev ud) (re_subs e)
      then (set_ents r (upd_entry (r_ents r) (re_id e)
                          (fun y => {| re_id := re_id y; re_key := re_key y; re_val := re_val y; re_removed := re_removed y;
                                       re_subs := filter (fun f => negb (nsub_match fn ev ud f)) (re_subs y) |})), 0%Z)
      else (r, rc_enoent)
    end
  | None =>
    if existsb (nsub_match fn ev ud) (r_subs r)
    then (set_rsubs r (filter (fun f => negb (nsub_match fn ev ud f)) (r_subs r)), 0%Z)
    else (r, rc_enoent)
  end.

(* rc = (EINVAL, add-on-absent-key, del-on-absent-key / no match, EEXIST) *)
Definition a_step (rc : Z * Z * Z * Z) (r : rstate) (o : op) : rstate * out * list notif :=
  let '(rc_einval, rc_addnokey, rc_enoent, rc_eexist) := rc in
  if negb (r_alive r) then (r, OIgnored, []) else
  match o with
  | Put k x => let '(r', ns) := a_put r k x in (r', ONone, ns)
  | Get k => (r, OVal (a_get r k), [])
  | Rm k => let '(r', b, ns) := a_rm r k in (r', OBool b, ns)
  | Count => (r, OCount (N.of_nat (length (live r))), [])
  | Foreach stop => (r, OEntries (take_stop stop (live_kv r)), [])
  | NotifyAdd k fn ev ud => let '(r', z) := a_notify_add rc_einval rc_addnokey rc_eexist r k fn ev ud in (r', ORc z, [])
  | NotifyDel k fn ev ud => let '(r', z) := a_notify_del rc_enoent r k fn ev ud in (r', ORc z, [])
  | Destroy =>
    ({| r_ents := []; r_next := r_next r; r_subs := []; r_iters := []; r_used := r_used r; r_alive := false |}, ONone,
     flat_map (fun e => r_notify r e EV_DELETED (re_key e) (re_val e) 0%N) (live r))
  | IterCreate it _ =>
    if existsb (Nat.eqb it) (r_used r) then (r, OIgnored, [])
    else ({| r_ents := r_ents r; r_next := r_next r; r_subs := r_subs r; r_iters := (it, PStart) :: r_iters r;
             r_used := it :: r_used r; r_alive := true |}, ONone, [])
  | IterNext it =>
    match pos_lookup (r_iters r) it with
    | None => (r, OIgnored, [])
    | Some p => let '(r', x, ns) := a_iter_next r it p in (r', ONext x, ns)
    end
  | IterFree it =>
    match pos_lookup (r_iters r) it with
    | None => (r, OIgnored, [])
    | Some p => let '(r', ns) := a_iter_free r it p in (r', ONone, ns)
    end
  end.

Fixpoint a_run (rc : Z * Z * Z * Z) (r : rstate) (ops : list op) : list (op * out * list notif) :=
  match ops with
  | [] => []
  | o :: t => let '(r', x, ns) := a_step rc r o in (o, x, ns) :: a_run rc r' t
  end.
Fixpoint a_state_after (rc : Z * Z * Z * Z) (r : rstate) (ops : list op) : rstate :=
  match ops with
  | [] => r
  | o :: t => a_state_after rc (fst (fst (a_step rc r o))) t
  end.

End Ref.

(* ---- the two instances ---- *)
Require Import Verif.gen.Consts_map.
Definition hash_before (prime : N) (order : nat) (k x : key) : bool :=
  N.ltb (hash_fnv_raw prime order k mod N.of_nat (2 ^ order)) (hash_fnv_raw prime order x mod N.of_nat (2 ^ order)).
Definition skip_before (k x : key) : bool := negb (key_ltb x k).

Definition rc_hash : Z * Z * Z * Z := (- MAP_EINVAL, - MAP_ENOENT, - MAP_ENOENT, - MAP_EEXIST)%Z.
Definition rc_skip : Z * Z * Z * Z := (- MAP_EINVAL, - MAP_EINVAL, - MAP_ENOENT, - MAP_EEXIST)%Z.
Definition ref_hash_step (max_size : N) : rstate -> op -> rstate * out * list notif :=
  a_step (hash_before (Z.to_N MAP_FNV_32_PRIME) (order_of max_size)) rc_hash.
Definition ref_skip_step : rstate -> op -> rstate * out * list notif := a_step skip_before rc_skip.
