(* C18 trie part, coverage (5): iter_free and iter_next keep the key-space positions; what iter_next returns. *)
From Coq Require Import List ZArith Bool Arith Lia.
Import ListNotations.
Require Import Verif.gen.Consts_trie Verif.MapTrieModel Verif.MapTrieSpec Verif.MapTrieProofs Verif.MapTrieProofs2
               Verif.MapTrieProofs3 Verif.MapTrieIter Verif.MapTrieIter2 Verif.MapTrieIds Verif.MapTrieIter3
               Verif.MapTrieIter4 Verif.MapTrieIter6 Verif.MapTrieOrder Verif.MapTrieKeys Verif.MapTrieSafe1
               Verif.MapTrieSafe2 Verif.MapTrieSafe3 Verif.MapTrieSafe4 Verif.MapTrieView Verif.MapTrieSafe5
               Verif.MapTrieSafe6 Verif.MapTrieSafe8 Verif.MapTrieDestroy1 Verif.MapTriePos Verif.MapTrieCov1
               Verif.MapTrieCov2 Verif.MapTrieCov3 Verif.MapTrieCov4.

Lemma before_irr : forall p, ~ before p p.
Proof. induction p; simpl; auto. intros [B|[_ B]]; [lia|auto]. Qed.

Lemma deref_header : forall r, n_val (t_info r) = None -> node_deref r [] = (r, []).
Proof. intros r H. unfold node_deref. simpl. destruct r as [i s f]. simpl in *. unfold alive_i. rewrite H. reflexivity. Qed.

Lemma get_del_same : forall its h, NoDup (map fst its) -> iters_get (iters_del its h) h = None.
Proof.
  induction its as [|[h0 it0] its]; simpl; intros h ND; auto. inversion ND; subst. destruct (Nat.eqb_spec h0 h).
  - subst h0. destruct (iters_get its h) eqn:G; auto. exfalso. apply H1. apply get_in in G.
    apply in_map_iff. exists (h, i). auto.
  - simpl. destruct (Nat.eqb_spec h0 h); [congruence|]. apply IHits. auto.
Qed.

(* a key of the dictionary is the string of a present node *)
Lemma present_node : forall t d k v, InvD t d -> k <> [] -> d_get d k = Some v ->
  exists q tq, get_at (t_root t) q = Some tq /\ alive tq = true /\ qstr (t_root t) q = k /\ q <> [] /\
               n_val (t_info tq) = Some v.
Proof.
  intros t d k v HD Hk D. pose proof (id_view _ _ HD k Hk) as V. rewrite D in V. rewrite obs_of_lookup in V.
  pose proof (id_saf _ _ HD) as HS. unfold SafT in HS.
  destruct (look_t (t_root t) k true) as [q|] eqn:L; [|discriminate].
  destruct (get_at (t_root t) q) as [tq|] eqn:G; [|discriminate].
  assert (Hq : q <> []).
  { pose proof (sf_seg _ _ _ HS) as Sg. destruct (t_root t) as [i1 s1 f1]. simpl in Sg. subst s1. eapply hdr_look; eauto. }
  unfold dview, core_of in V. simpl in V. destruct (n_removed (t_info tq)) eqn:Rm; [discriminate|].
  destruct (pa_real _ _ _ _ _ HS G Hq) as [PAi _]. unfold pres in PAi. rewrite V, Rm in PAi.
  exists q, tq. repeat split; auto.
  - unfold alive, present_i, alive_i. rewrite V, Rm. replace (n_rc (t_info tq) =? 0) with false; auto.
    symmetry. apply Nat.eqb_neq. lia.
  - apply (look_istr _ _ (le_n _) _ _ L).
Qed.

(* a present node: its key and value are in the dictionary *)
Lemma node_present : forall t d q tq, InvD t d -> keyinv (t_root t) -> get_at (t_root t) q = Some tq -> q <> [] ->
  alive tq = true -> exists v, n_key (t_info tq) = Some (qstr (t_root t) q) /\ n_val (t_info tq) = Some v /\
                               d_get d (qstr (t_root t) q) = Some v.
Proof.
  intros t d q tq HD K G Hq A. pose proof (obs_qstr _ _ _ G) as O. pose proof (qstr_nonempty q (t_root t) Hq) as QN.
  pose proof (id_view _ _ HD _ QN) as V. pose proof (K _ QN) as KK. rewrite O in V, KK. unfold dview, core_of in *. simpl in *.
  unfold alive, present_i, alive_i in A. destruct (n_val (t_info tq)) as [v|] eqn:E; [|discriminate].
  apply andb_true_iff in A. destruct A as [_ A]. apply negb_true_iff in A. rewrite A in V.
  exists v. repeat split; auto. apply KK. discriminate.
Qed.

(* leaving the node at pp: key invariant and the keys of the nodes the remaining iterators stand on *)
Lemma leave_keeps : forall t h it pp tnp r1 tnp1, SafT t -> keyinv r1 -> all_t wfi r1 ->
  iters_get (t_iters t) h = Some it -> at_pos (t_root t) it pp tnp ->
  get_at r1 pp = Some tnp1 -> t_info tnp1 = t_info tnp -> n_val (t_info r1) = None ->
  keyinv (fst (node_deref r1 pp)) /\
  forall x k, x <> 0 -> 1 <= parked (iters_del (t_iters t) h) x -> kof r1 x k -> kof (fst (node_deref r1 pp)) x k.
Proof.
  intros t h it pp tnp r1 tnp1 HS K1 W1 G [pid [N [F [Gp Ei]]]] G1 T1 HV1. unfold SafT in HS.
  destruct pp as [|j pp'].
  - rewrite (deref_header r1 HV1). simpl. auto.
  - split.
    + eapply keyinv_deref; eauto. discriminate.
    + intros x k Hx Px Kx. apply kof_deref; auto. intros tn Gt Et. rewrite G1 in Gt. inversion Gt; subst tn.
      rewrite T1 in *. destruct (pa_real _ _ _ _ _ HS Gp ltac:(discriminate)) as [PAi _].
      pose proof (parked_del _ _ _ x G) as X. unfold on_id in X. simpl in X. rewrite N in X.
      rewrite Ei in Et. subst x. rewrite Nat.eqb_refl in X. rewrite Ei in PAi. lia.
Qed.

Lemma free_s : forall t d s h it, InvS t d s -> iters_get (t_iters t) h = Some it ->
  exists r evs, iter_free (t_root t) it = Ok (r, evs) /\
    InvS {| t_root := r; t_len := t_len t; t_next := t_next t; t_iters := iters_del (t_iters t) h |} d s.
Proof.
  intros t d s h it [HD HK HP] G. pose proof (id_saf _ _ HD) as HS.
  destruct (saf_iter_free t h it HS G) as [r [evs [E [S' VW]]]]. exists r, evs. split; auto.
  assert (POS : forall h' it', iters_get (iters_del (t_iters t) h) h' = Some it' -> h' <> h /\ iters_get (t_iters t) h' = Some it').
  { intros h' it' G'. destruct (Nat.eq_dec h' h) as [e|e].
    - subst h'. rewrite get_del_same in G' by (apply (sf_handles _ _ _ HS)). discriminate.
    - split; auto. rewrite get_del_other in G' by auto. exact G'. }
  assert (X : keyinv r /\ forall x k, x <> 0 -> 1 <= parked (iters_del (t_iters t) h) x -> kof (t_root t) x k -> kof r x k).
  { destruct (it_n it) as [pid|] eqn:N.
    - destruct (iter_pos t h it pid HS G N) as [pp [tnp [AP _]]].
      rewrite (iter_free_form _ _ _ _ AP) in E. inversion E as [[E1]].
      assert (Gp : get_at (t_root t) pp = Some tnp) by (destruct AP as [? [_ [_ [X _]]]]; exact X).
      pose proof (leave_keeps t h it pp tnp (t_root t) tnp HS HK (sf_wf _ _ _ HS) G AP Gp eq_refl (sf_hval _ _ _ HS)) as LK.
      rewrite E1 in LK. exact LK.
    - unfold iter_free in E. rewrite N in E. inversion E; subst. auto. }
  destruct X as [KR KP].
  constructor; cbn [t_root t_iters t_len t_next].
  - destruct HD as [A B C D]. constructor; cbn [t_root t_iters t_len t_next]; auto.
    intros q Hq. rewrite VW. apply B; auto.
  - exact KR.
  - intros h' it' G'. destruct (POS h' it' G') as [Hne G0].
    apply (pos_keep (t_root t) r (iters_del (t_iters t) h) s KP) with (h := h'); auto.
    intros h2 it2 G2. destruct (POS h2 it2 G2) as [_ G3]. apply HP. exact G3.
Qed.

(* ---------- the specification of trie_iter_next in key space ---------- *)
Definition gt (pos : ipos) (k : key) : Prop :=
  match pos with PStart => True | PAt k0 => klt k0 k | PEnd => False end.

(* at position pos on dictionary d: the entry with the least key greater than pos (in the trie's key order), with
   its value, and the iterator then stands on it; NULL when there is none, and then the iteration is over *)
Definition next_ok (d : dict) (pos : ipos) (kv : option (option key * option val)) (pos' : ipos) : Prop :=
  match kv with
  | None => pos' = PEnd /\ forall k v, k <> [] -> d_get d k = Some v -> ~ gt pos k
  | Some (ko, vo) => exists k v, ko = Some k /\ vo = Some v /\ pos' = PAt k /\ d_get d k = Some v /\ gt pos k /\
                       forall k' v', k' <> [] -> d_get d k' = Some v' -> gt pos k' -> k' = k \/ klt k k'
  end.

Lemma next_s : forall t d s h it, InvS t d s -> iters_get (t_iters t) h = Some it ->
  exists r it' kv evs pos', iter_next FX_ALL (t_root t) it = Ok (r, it', kv, evs) /\ next_ok d (s h) kv pos' /\
    InvS {| t_root := r; t_len := t_len t; t_next := t_next t; t_iters := iters_set (t_iters t) h it' |} d (pupd s h pos').
Proof.
  intros t d s h it HI G. pose proof HI as [HD HK HP]. pose proof (id_saf _ _ HD) as HS.
  destruct (saf_iter_next t h it HS G) as [r [it' [kv [evs [E [S' VW]]]]]].
  pose proof HS as HS0. unfold SafT in HS0.
  destruct (sf_plain _ _ _ HS0 _ _ (get_in _ _ _ G)) as [PN PR].
  destruct (sf_ids _ _ _ HS0) as [U [_ [H0 _]]].
  pose proof (HP h it G) as PO.
  (* the other iterators *)
  assert (OTH : forall r2, (forall x k, x <> 0 -> 1 <= parked (iters_del (t_iters t) h) x -> kof (t_root t) x k -> kof r2 x k) ->
            forall pos' h' it2, h' <> h -> iters_get (iters_set (t_iters t) h it') h' = Some it2 -> pos_ok r2 it2 (pupd s h pos' h')).
  { intros r2 KP pos' h' it2 Hne G2. rewrite get_set_other in G2 by auto. unfold pupd.
    destruct (Nat.eqb_spec h' h); [congruence|].
    assert (G3 : iters_get (iters_del (t_iters t) h) h' = Some it2) by (rewrite get_del_other; auto).
    apply (pos_keep (t_root t) r2 (iters_del (t_iters t) h) s KP) with (h := h'); auto.
    intros h3 it3 G4. destruct (Nat.eq_dec h3 h) as [e|e].
    - subst h3. rewrite get_del_same in G4 by (apply (sf_handles _ _ _ HS0)). discriminate.
    - rewrite get_del_other in G4 by auto. apply HP. exact G4. }
  assert (DNEW : InvD {| t_root := r; t_len := t_len t; t_next := t_next t; t_iters := iters_set (t_iters t) h it' |} d).
  { destruct HD as [A B C D]. constructor; cbn [t_root t_iters t_len t_next]; auto.
    intros q Hq. rewrite VW. apply B; auto. }
  destruct (it_n it) as [pid|] eqn:N.
  2:{ (* the iteration was over already *)
      unfold iter_next in E. rewrite N in E. inversion E; subst r it' kv evs.
      unfold pos_ok in PO. rewrite N in PO.
      exists (t_root t), it, None, [], PEnd. split; [unfold iter_next; rewrite N; reflexivity|]. split.
      - simpl. split; auto. intros k v _ _. rewrite PO. simpl. auto.
      - constructor; cbn [t_root t_iters t_len t_next]; auto.
        intros h' it2 G2. destruct (Nat.eq_dec h' h) as [e|e].
        + subst h'. rewrite get_set_same in G2. inversion G2; subst it2. unfold pupd. rewrite Nat.eqb_refl.
          unfold pos_ok. rewrite N. reflexivity.
        + apply OTH; auto. }
  destruct (iter_pos t h it pid HS G N) as [pp [tnp [AP [Z0 P1]]]].
  assert (APF : find_t (t_root t) pid = Some pp /\ get_at (t_root t) pp = Some tnp /\ n_id (t_info tnp) = pid).
  { destruct AP as [x [Nx [Fx [Gx Ex]]]]. rewrite N in Nx. inversion Nx as [Hx]. rewrite <- Hx in *. auto. }
  destruct APF as [F [Gp Ei]].
  pose proof E as EQ0. rewrite (iter_next_form _ _ _ _ U H0 PN PR AP) in E.
  (* the string of the position *)
  set (str := qstr (t_root t) pp).
  assert (GTS : forall k, k <> [] -> (gt (s h) k <-> klt str k)).
  { intros k Hk. unfold pos_ok in PO. rewrite N in PO. destruct pid as [|pid'].
    - rewrite PO. assert (pp = []) by (apply Z0; reflexivity). subst pp. unfold str. simpl.
      rewrite (sf_seg _ _ _ HS0). simpl. destruct k; [congruence|]. simpl. tauto.
    - destruct PO as [k0 [K0 E0]]. rewrite E0. simpl.
      assert (Hpp : pp <> []). { intro X. apply Z0 in X. discriminate. }
      assert (PK : 1 <= parked (t_iters t) (n_id (t_info tnp))) by (rewrite Ei; apply P1; discriminate).
      destruct (parked_node t pp tnp HS HK Gp Hpp PK) as [_ [KK _]].
      destruct K0 as [p0 [t0 [G0 [I0 KK0]]]].
      assert (p0 = pp) by (eapply same_id_same_path; eauto; congruence). subst p0. rewrite Gp in G0. inversion G0; subst t0.
      rewrite KK in KK0. inversion KK0. unfold str. tauto. }
  pose proof (next_least_path (t_root t) pp U) as NL.
  pose proof (leave_keeps t h it pp tnp) as LK.
  destruct (next_t (t_root t) pp) as [pn|].
  - (* F2: the reference moves to pn *)
    destruct NL as [tnn [Gn [An [Bn MIN]]]].
    assert (Hpn : pn <> []). { destruct pn; [destruct pp; simpl in Bn; contradiction|discriminate]. }
    assert (Hne : pn <> pp). { intro X. subst pn. apply (before_irr _ Bn). }
    destruct (node_present t d pn tnn HD HK Gn Hpn An) as [vn [Kn [Vn Dn]]].
    set (kn := qstr (t_root t) pn) in *.
    rewrite node_ref_eq in E by auto.
    set (r1 := upd_t (t_root t) pn inc) in *.
    destruct tnn as [inn sgn fcn]. simpl in Kn, Vn.
    assert (Kk : n_key (t_info (TN (inc inn) sgn fcn)) <> None) by (simpl; rewrite Kn; discriminate).
    destruct (deref_keeps r1 pp pn (TN (inc inn) sgn fcn) (get_at_upd _ _ inc _ _ _ Gn) Kk (not_eq_sym Hne)) as [tn2 [G2 T2]].
    unfold id_at in E. rewrite Gn in E. cbn [t_info] in E.
    destruct (node_deref r1 pp) as [r2 evs2] eqn:ND. cbn [fst snd] in *.
    (* r is r2 *)
    destruct (find_t r2 (n_id inn)) as [pn'|] eqn:F2; [|discriminate].
    destruct (get_at r2 pn') as [nn|] eqn:G2'; [|discriminate]. inversion E; subst r it' kv evs. clear E.
    destruct (sf_ids _ _ _ S') as [U2 _].
    pose proof (find_unique _ _ _ U2 G2) as F2u. rewrite T2 in F2u. simpl in F2u. rewrite F2u in F2. inversion F2; subst pn'.
    rewrite G2 in G2'. inversion G2'; subst nn.
    eexists _, _, _, _, (PAt kn). split; [exact EQ0|]. split.
    + (* what is returned *)
      rewrite T2. cbn [t_info inc set_rc n_key n_val next_ok]. exists kn, vn. repeat split; auto.
      * apply GTS; [apply qstr_nonempty; auto|]. eapply before_klt; eauto.
      * intros k' v' Hk' D' GT'. destruct (present_node t d k' v' HD Hk' D') as [q [tq [Gq [Aq [Qq [Hq _]]]]]].
        apply GTS in GT'; auto. rewrite <- Qq in GT'.
        pose proof (klt_before pp q (t_root t) tnp tq Gp Gq GT') as Bq.
        destruct (MIN q tq Gq Aq Bq) as [X|X].
        -- left. subst q. symmetry. exact Qq.
        -- right. rewrite <- Qq. eapply before_klt; eauto.
    + (* the invariant *)
      assert (W1 : all_t wfi r1).
      { unfold r1. apply (all_upd_at2 wfi pn (t_root t) inc (TN inn sgn fcn) Gn); [|apply (sf_wf _ _ _ HS0)].
        unfold wfi, inc, set_rc. simpl. intros [A [B C]]. split; [intro X; rewrite Vn in X; discriminate|split; auto]. }
      assert (K1 : keyinv r1) by (apply keyinv_upd; auto).
      destruct (get_at_upd_other pn pp (t_root t) inc tnp Hne Gp) as [tnp1 [Gp1 Tp1]].
      assert (HV1 : n_val (t_info r1) = None) by (unfold r1; rewrite upd_root_info by auto; apply (sf_hval _ _ _ HS0)).
      destruct (LK r1 tnp1 HS K1 W1 G AP Gp1 Tp1 HV1) as [KD KPD]. rewrite ND in KD, KPD. cbn [fst] in KD, KPD.
      constructor; cbn [t_root t_iters t_len t_next]; auto.
      intros h' it2 G3. destruct (Nat.eq_dec h' h) as [e|e].
      * subst h'. rewrite get_set_same in G3. inversion G3; subst it2. unfold pupd. rewrite Nat.eqb_refl.
        unfold pos_ok. cbn [it_n].
        assert (Nz : n_id inn <> 0).
        { intro X. assert (pn = []) by (eapply same_id_same_path with (r := t_root t) (tq := t_root t); eauto; simpl; congruence).
          congruence. }
        destruct (n_id inn) as [|x'] eqn:Ex; [congruence|].
        exists kn. split; auto. exists pn, tn2. rewrite T2. simpl. auto.
      * apply OTH; auto. intros x k Hx Px Kx. apply KPD; auto. unfold r1. apply kof_upd; auto.
  - (* F1: the end *)
    inversion E; subst r it' kv evs. clear E.
    eexists _, _, _, _, PEnd. split; [exact EQ0|]. split.
    + simpl. split; auto. intros k v Hk D' GT'. destruct (present_node t d k v HD Hk D') as [q [tq [Gq [Aq [Qq [Hq _]]]]]].
      apply GTS in GT'; auto. rewrite <- Qq in GT'.
      apply (NL q tq Gq Aq). eapply klt_before; eauto.
    + destruct (LK (t_root t) tnp HS HK (sf_wf _ _ _ HS0) G AP Gp eq_refl (sf_hval _ _ _ HS0)) as [KD KPD].
      constructor; cbn [t_root t_iters t_len t_next]; auto.
      intros h' it2 G3. destruct (Nat.eq_dec h' h) as [e|e].
      * subst h'. rewrite get_set_same in G3. inversion G3; subst it2. unfold pupd. rewrite Nat.eqb_refl. reflexivity.
      * apply OTH; auto.
Qed.
