(* C14 - blackbox records reproduce printf: property theorems.  Statement + [exact] only; proofs are in
   SerProofs.v (serializer), SerProofsDes.v (decoder), SerWitness.v (witnesses / examples).
   Model: SerModel.v, a byte-level transcription of qb_vsnprintf_serialize / qb_vsnprintf_deserialize(_n),
   my_strlcpy, strlcpy, strlcat of lib/log_format.c, lib/strlcpy.c, lib/strlcat.c.
   [serialize true] / [deserialize true] = the code with fixes/C14-*.patch applied; [.. false] = the code as found.
   Round trip: SerSpec.v (ser_data, wf_go), SerLists.v, SerRoundS.v, SerRoundD.v, SerRoundtrip.v. *)
From Coq Require Import List ZArith Bool Lia.
Require Import Verif.gen.Consts_logfmt Verif.SerModel Verif.SerProofs Verif.SerProofsDes Verif.SerWitness.
Require Import Verif.SerSpec Verif.SerRoundtrip.
Import ListNotations.
Open Scope Z_scope.

(* ---- encoding never writes beyond the space reserved, and never claims more than it ----
   for ALL formats (any bytes), ALL argument lists (matching the format or not), every record size a size_t
   can hold (>= 1 byte) and every prior content of the record buffer: no OutOfBounds state (every store of the
   model is bounds-checked), returned size <= max_len. *)
Theorem C14_ser_bounds : forall max fmt args garbage,
  1 <= max < SIZE_MOD -> zlen garbage = max ->
  exists ret buf, serialize true max fmt args garbage = Done ret buf 0 /\ 0 <= ret <= max /\ zlen buf = max.
Proof. exact serialize_bounds. Qed.
Print Assumptions C14_ser_bounds.

(* ---- decoding never writes beyond the caller's buffer ----
   for ALL record bytes (well-formed or not), every record length buf_len, every buffer size n >= 1, every prior
   content of the buffer and EVERY oracle for libc's one-directive snprintf that stores at most n bytes (its
   return value is unconstrained: negative error returns and huge lengths included): no OutOfBounds state for
   string[] or fmt[MINI_FORMAT_STR_LEN], 1 <= ret <= n, string[ret-1] = 0, and no byte of the record at or
   beyond buf_len is read (hw = 1 + largest index read). *)
Theorem C14_deser_bounds : forall snp rec blen n garbage,
  1 <= n < SIZE_MOD -> zlen garbage = n -> snp_writes_at_most_n snp ->
  exists ret buf hw, deserialize true snp rec blen n garbage = Done ret buf hw /\
    1 <= ret <= n /\ zlen buf = n /\ rd buf (ret - 1) = 0 /\ hw <= blen.
Proof. exact deserialize_bounds. Qed.
Print Assumptions C14_deser_bounds.

(* the usual snprintf (renders, truncates to n-1 bytes, appends NUL) meets the oracle contract *)
Example C14_snprintf_meets_contract_example :
  is_oob (deserialize true (snp_of wide) ([37;100;37;100;37;100;0] ++ repeat 1 12) 19 512 (repeat 90 512)) = false.
Proof. exact (proj2 (proj2 fixed_des_hostile_examples)). Qed.

(* ---- the same statements are FALSE of the code as found (each witness replayed on the real library) ---- *)
Theorem C14_ser_bounds_asfound_refuted :
  ~ (forall max fmt args garbage, 1 <= max < SIZE_MOD -> zlen garbage = max ->
       exists ret buf, serialize false max fmt args garbage = Done ret buf 0 /\ ret <= max).
Proof. exact asfound_ser_bounds_false. Qed.

Theorem C14_deser_bounds_asfound_refuted :
  ~ (forall snp rec n garbage, 1 <= n < SIZE_MOD -> zlen garbage = n -> snp_writes_at_most_n snp ->
       is_oob (deserialize false snp rec SIZE_MAX n garbage) = false).
Proof. exact asfound_deser_bounds_false. Qed.

(* "%s%s" into 20 bytes: returned size 26 > 20 *)
Example C14_asfound_returned_size_refuted :
  out_ret (serialize false 20 [37;115;37;115] [AStr alphabet; AStr hello] (repeat 238 20)) = 26.
Proof. exact asfound_ser_size. Qed.

(* "%.3d %s" (7, "abcdefgh") decodes to "007 abc": precision state carried into the next directive *)
Example C14_asfound_precision_carried_refuted :
  roundtrip false echo 64 64 f_prec [AInt 7; AStr s_abc] (repeat 238 64) (repeat 90 64)
  <> printf_spec echo f_prec PLit [AInt 7; AStr s_abc].
Proof. exact asfound_precision_carried. Qed.
Example C14_fixed_precision_example :
  roundtrip true echo 64 64 f_prec [AInt 7; AStr s_abc] (repeat 238 64) (repeat 90 64)
  = printf_spec echo f_prec PLit [AInt 7; AStr s_abc].
Proof. exact fixed_precision_example. Qed.

(* "100%% done": 16-byte record with a phantom int (as found) vs 11 bytes (repaired); the decoder as found
   appends after the first NUL of the caller's uninitialised buffer - with none, strlen runs off it *)
Example C14_asfound_percent_record_refuted :
  out_ret (serialize false 64 f_pct [] (repeat 238 64)) = 16 /\
  out_ret (serialize true 64 f_pct [] (repeat 238 64)) = 11.
Proof. exact asfound_percent_record. Qed.
Example C14_asfound_percent_garbage_refuted :
  deserialize false (snp_of echo) (out_record 64 (serialize false 64 f_pct [] (repeat 238 64))) SIZE_MAX 64 (repeat 90 64)
  = OutOfBounds 5.
Proof. exact asfound_percent_garbage. Qed.
Example C14_fixed_percent_example :
  roundtrip true echo 64 64 f_pct [] (repeat 238 64) (repeat 90 64) = printf_spec echo f_pct PLit [].
Proof. exact fixed_percent_example. Qed.

(* decoder as found: unbounded literal copy / fmt[20] overflow / location past str_len *)
Example C14_asfound_des_literal_refuted :
  deserialize false (snp_of echo) (repeat 97 33 ++ [37; 100; 0; 1; 2; 3; 4]) SIZE_MAX 10 (repeat 90 10) = OutOfBounds 2.
Proof. exact asfound_des_literal. Qed.
Example C14_asfound_des_minifmt_refuted :
  deserialize false (snp_of echo) (37 :: repeat 48 28 ++ [100; 0; 1; 2; 3; 4]) SIZE_MAX 64 (repeat 90 64) = OutOfBounds 3.
Proof. exact asfound_des_minifmt. Qed.
Example C14_asfound_des_location_refuted :
  deserialize false (snp_of wide) ([37;100;37;100;37;100;0] ++ repeat 1 12) SIZE_MAX 512 (repeat 90 512) = OutOfBounds 2.
Proof. exact asfound_des_location. Qed.

(* QB_XC as the last character of the format: arguments decoded one byte early (as found) *)
Example C14_asfound_xc_last_refuted :
  roundtrip false echo 64 64 f_xc [AInt 1234567] (repeat 238 64) (repeat 90 64)
  <> printf_spec echo [120;37;100] PLit [AInt 1234567].
Proof. exact asfound_xc_last. Qed.
Example C14_fixed_xc_last_example :
  roundtrip true echo 64 64 f_xc [AInt 1234567] (repeat 238 64) (repeat 90 64)
  = printf_spec echo [120;37;100] PLit [AInt 1234567].
Proof. exact fixed_xc_last_example. Qed.

(* constants the model's wrap-around arithmetic depends on, re-checked against the regenerated Consts_logfmt.v *)
Theorem C14_consts_size_t : SIZE_MOD = 18446744073709551616.
Proof. exact SIZE_MOD_val. Qed.
Theorem C14_consts_location : 2 ^ (8 * LF_SIZEOF_LOCATION) = 4294967296.
Proof. exact location_is_32_bits. Qed.

(* ---- the record is: format, NUL, then the argument values in order ----
   for every covered format (wf_go, see SerSpec.v), ALL argument lists, every record size below 4 GiB in which the
   record fits and every prior content of the buffer: the returned size is exactly strlen(fmt) + 1 + |ser_data| and the
   record bytes are exactly  fmt ++ [0] ++ ser_data fmt args. *)
Theorem C14_record_layout : forall max fmt args g,
  1 <= max < 4294967296 -> zlen g = max -> wf_go fmt PLit args = true ->
  zlen fmt + 1 + zlen (ser_data fmt PLit args) <= max ->
  exists buf, serialize true max fmt args g = Done (zlen fmt + 1 + zlen (ser_data fmt PLit args)) buf 0 /\
              zlen buf = max /\
              takeZ (zlen fmt + 1 + zlen (ser_data fmt PLit args)) buf = fmt ++ [0] ++ ser_data fmt PLit args.
Proof. exact serialize_exact. Qed.
Print Assumptions C14_record_layout.

(* ---- a stored message decodes to exactly what printf would have produced ----
   for EVERY rendering oracle render1 (libc's output for one conversion; snprintf = render, cut to n-1 bytes, NUL),
   every format covered by wf_go - literal text and directives made of flags # - + space ' I, width and precision as
   digits or '*', length modifiers l ll z t j, conversions d i o u x X e E f F g G a A c s p %%, no NUL / QB_XC,
   each directive rebuilt in at most MINI_FORMAT_STR_LEN - 1 characters -, ALL argument lists (a mismatching or
   missing argument is read as the model's va_arg reads it; for matching ones this is C's behaviour), every record
   size in which the record fits, every buf_len >= the record, every buffer size n that the text fits (< n), every
   prior content of both buffers:  decoded text = printf_spec render1 fmt args.
   "_partial": directives longer than 19 rebuilt characters (known finding C14-directive-longer-than-minifmt),
   characters the scanners do not know inside a directive (h hh L q $ n m ...) and QB_XC in the format are outside
   wf_go.  printf_spec gives a '*' the meaning "its decimal text": for a NEGATIVE precision that is not what printf
   does (known finding C14-negative-star-precision); the monitor compares with the real vsnprintf. *)
Theorem C14_roundtrip_partial : forall render1 max n blen fmt args g1 g2,
  1 <= max < 4294967296 -> 1 <= n <= 4294967296 -> zlen g1 = max -> zlen g2 = n ->
  wf_go fmt PLit args = true ->
  zlen fmt + 1 + zlen (ser_data fmt PLit args) <= max ->
  zlen fmt + 1 + zlen (ser_data fmt PLit args) <= blen ->
  zlen (printf_spec render1 fmt PLit args) < n ->
  out_text (deserialize true (snp_of render1) (out_record max (serialize true max fmt args g1)) blen n g2)
  = printf_spec render1 fmt PLit args.
Proof. exact roundtrip_thm. Qed.
Print Assumptions C14_roundtrip_partial.

(* the hypotheses are met by "%-+#0 '12.5lld|%zx|%ju|%ti %*d %.3s %s %c%% %p %.*f!" with twelve arguments
   (long long extremes, '*' width and precision, a cut string, a NULL string, %c, %p, a double): a 125-byte record *)
Example C14_roundtrip_covered_example :
  wf_go demo_fmt PLit demo_args = true /\
  zlen demo_fmt + 1 + zlen (ser_data demo_fmt PLit demo_args) = 125.
Proof. exact demo_covered. Qed.
