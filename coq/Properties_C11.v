(* C11 property theorems: statements only, each closed by `exact`.
   Model: RbModel.v with ovw = true (lib/ringbuffer.c: qb_rb_chunk_alloc's reclaim loop, _rb_chunk_reclaim, commit,
   write, read, peek, qb_rb_space_free - the tree WITH the repairs 38445f6 / 6c47408 / f545f17 already in /repo) and
   BbModel.v (lib/log_blackbox.c: _blackbox_vlogger, dump + read back, record parsing - the tree WITH
   fixes/C11-blackbox-fallback-reserve.patch).
   Specification: RbOwSpec.v.  `Keeps S pend q' is the property: q (the readable chunks, oldest first) is exactly the
   newest |q| chunks of the history pend, byte-identical; it is non-empty when pend is; and it contains every run of
   newest chunks that fits in S counted with 16 bytes of overhead each (rfits; for the blackbox the newest chunk of
   a run counts with the size that was RESERVED for it when it was written).
   `Inv b s' = the ring state b represents the abstract queue s (RbProofs.Repr + equal notifier counts). *)
From Coq Require Import ZArith List Bool.
Import ListNotations.
Require Import Verif.gen.Consts_rb Verif.gen.Consts_rbow Verif.RbModel Verif.RbSpec Verif.RbProofs Verif.RbRefine
               Verif.RbOwSpec Verif.RbOwProofs Verif.RbOwKeeps Verif.BbModel Verif.BbProofs Verif.RbOwRefuted
               Verif.RbOwExtra Verif.RbOwDumpModel Verif.RbOwDump.
Local Open Scope Z_scope.

(* side conditions on the blackbox constants regenerated from the working tree *)
Theorem C11_blackbox_consts_ok :
  BBO_SIZEOF_U32 = 4 /\ BBO_SIZEOF_U8 = 1 /\ 0 <= BBO_SIZEOF_TIMESPEC /\ 0 < BBO_LOG_MAX_LEN /\
  BBO_MIN_ENTRY_SIZE <= 4 * BBO_SIZEOF_U32 + BBO_SIZEOF_U8 + BBO_SIZEOF_TIMESPEC + 1 /\
  BBO_LOG_MAX_LEN = BB_LOG_MAX_LEN.
Proof. exact bb_consts_ok. Qed.
Print Assumptions C11_blackbox_consts_ok.

(* The reclaim loop of qb_rb_chunk_alloc terminates within the model's fuel (chunks <= used/2 < word_size) and does
   what the abstract writer does - drop oldest chunks until the reservation is accepted, EINVAL if even the empty
   ring is too small; hence for EVERY operation list over write / alloc+commit / read / peek / reclaim / query / dump
   on an overwrite ring, with or without the notifier, the ring's return values and delivered bytes are those of the
   abstract overwrite queue, the invariant is preserved and OutOfFuel never appears. *)
Theorem C11_reclaim_loop_terminates_and_refines : forall ops b s, Inv b s -> ovw b = true -> Forall wf_op ops ->
  forall s' ys, ow_spec_run (rW b) s ops = (s', ys) ->
  exists b' xs, run b ops = (b', xs) /\ Inv b' s' /\ map obs_of xs = ys /\ ~ In OFuel xs /\
                rW b' = rW b /\ ovw b' = true.
Proof. exact ow_run_refines. Qed.
Print Assumptions C11_reclaim_loop_terminates_and_refines.

(* One write of at most the requested size: it is accepted after dropping oldest chunks, and only chunks that had
   to go are dropped - every run of newest chunks that fits together with the new reservation survives. *)
Theorem C11_write_drops_only_what_it_must : forall W S pend q rlen d,
  S + RB_CHUNK_MARGIN + RB_SIZE_EXTRA <= 4 * W -> rlen <= S -> Keeps S pend q ->
  has_room W (drop_until W q rlen) rlen = true /\ Keeps S (pend ++ [(rlen, d)]) (drop_until W q rlen ++ [d]).
Proof. exact ow_write_keeps. Qed.
Print Assumptions C11_write_drops_only_what_it_must.

(* THE PROPERTY for every history: from a freshly opened overwrite ring of any requested size S, with or without the
   notifier, for every operation list whose writes reserve at most S (interleaved at will with the owner's reads,
   peeks, reclaims, queries and dumps): the reclaim loop always terminates, every write succeeds, and at the end -
   hence, the list being arbitrary, after every prefix - the readable chunks are exactly the newest ones written since
   the owner last took a chunk out, non-empty after a write, and include every run of newest chunks that fits. *)
Theorem C11_newest_kept_all_histories : forall S ns ops, size_ok S -> Forall (wf_ow S) ops ->
  let b0 := rb_open S ns true in
  exists b xs s pend,
    run b0 ops = (b, xs) /\ ~ In OFuel xs /\ Forall2 write_ok ops (map obs_of xs) /\
    ow_spec_run (rW b0) (spec0 ns) ops = (s, map obs_of xs) /\
    ghost_run (rW b0) (spec0 ns) [] ops = (s, pend) /\
    Inv b s /\ Keeps S pend (sq s).
Proof. exact ow_general. Qed.
Print Assumptions C11_newest_kept_all_histories.

(* Sequences of (reserve, commit) writes, every len <= reservation <= S: all succeed; the ring then represents a
   suffix `kept' of the sequence - non-empty, containing every suffix that fits - and reading the contents back,
   through a dump file or by draining the ring itself, returns exactly those chunks, in order, byte for byte. *)
Theorem C11_suffix : forall S ns ws n, size_ok S -> Forall (wf_w S) ws -> Forall (fun w => zlen (snd w) <= n) ws ->
  exists b kept,
    ow_writes (rb_open S ns true) ws = Some b /\
    suffix kept ws /\ (ws <> [] -> kept <> []) /\
    (forall l, suffix l ws -> rfits S l = true -> suffix l kept) /\
    Repr b (map snd kept) /\
    readback b n = map snd kept /\
    drain (Datatypes.S (length kept)) b n = map snd kept.
Proof. exact ow_suffix. Qed.
Print Assumptions C11_suffix.

(* ... for qb_rb_chunk_write sequences in the words of the property: k covers at least all the newest chunks whose
   lengths plus 16 bytes each sum to at most S. *)
Theorem C11_suffix_writes : forall S ns ds n, size_ok S -> Forall (fun d => zlen d <= S) ds ->
  Forall (fun d => zlen d <= n) ds ->
  exists b kept,
    ow_writes (rb_open S ns true) (map plain ds) = Some b /\
    suffix kept ds /\ (ds <> [] -> kept <> []) /\
    (forall l, suffix l ds -> cost l <= S -> suffix l kept) /\
    Repr b kept /\ readback b n = kept.
Proof. exact ow_suffix_writes. Qed.
Print Assumptions C11_suffix_writes.

(* reading back: whatever queue the ring represents is what a dump (or a drain with enough notifications) yields *)
Theorem C11_readback_is_the_queue : forall b q n, Repr b q -> Forall (fun c => zlen c <= n) q -> readback b n = q.
Proof. exact readback_repr. Qed.
Print Assumptions C11_readback_is_the_queue.
Theorem C11_drain_is_the_queue : forall q fuel b s n, Inv b s -> sq s = q -> enough_tokens s -> (length q < fuel)%nat ->
  Forall (fun c => zlen c <= n) q -> drain fuel b n = q.
Proof. exact drain_all. Qed.
Print Assumptions C11_drain_is_the_queue.

(* "fits": for plain writes it is sum(len + 16) <= S; with reservations of at most R any n newest chunks with
   n * (R + 16) <= S fit *)
Theorem C11_fits_plain : forall S l, cost l <= S -> rfits S (map plain l) = true.
Proof. exact rfits_plain. Qed.
Theorem C11_fits_uniform : forall S R l acc, Forall (fun w => 0 <= zlen (snd w) <= fst w /\ fst w <= R) l ->
  acc + Z.of_nat (length l) * (R + 16) <= S -> rfits_from S acc l = true.
Proof. exact rfits_from_uniform. Qed.

(* ------------------------------------------------------------------ the blackbox *)
(* _blackbox_vlogger never commits more than it reserved (given a serializer that respects its limit) *)
Theorem C11_blackbox_commit_within_reservation : forall maxline c, ser_ok maxline c ->
  zlen (r_ts (lc_hdr c)) = BBO_SIZEOF_TIMESPEC ->
  zlen (bb_encode (lc_rec maxline c)) <= bb_reserve maxline (r_fn (lc_hdr c)).
Proof. exact commit_le_reserve. Qed.
Print Assumptions C11_blackbox_commit_within_reservation.

(* For every blackbox size S, every max_line_length and every sequence of log calls whose reservation
   (header + function name + max_line_length) is at most S: the blackbox never closes itself, every call is exactly
   one reserve+commit, and a dump taken afterwards - at any moment, the sequence being arbitrary - holds, chunk for
   chunk, the records of an unbroken run of the latest calls ending with the very last one, at least
   floor(S / (R + 16)) of them where R bounds the reservations. *)
Theorem C11_blackbox_keeps_latest : forall S maxline n R calls, size_ok S -> Forall (call_ok S maxline n) calls ->
  Forall (fun c => bb_reserve maxline (r_fn (lc_hdr c)) <= R) calls ->
  exists b kept,
    bb_run (bb_open S) (map (lc_op maxline) calls) = (Some b, map (lc_out maxline) calls) /\
    suffix kept calls /\ (calls <> [] -> kept <> []) /\
    (forall l, suffix l calls -> Z.of_nat (length l) * (R + 16) <= S -> suffix l kept) /\
    bb_dump b n = map (fun c => bb_encode (lc_rec maxline c)) kept.
Proof. exact bb_keeps_latest. Qed.
Print Assumptions C11_blackbox_keeps_latest.

(* taking dumps does not disturb the blackbox *)
Theorem C11_blackbox_dumps_are_pure : forall ops st, fst (bb_run st ops) = fst (bb_run st (filter is_log ops)).
Proof. exact bb_run_ignores_dumps. Qed.
Print Assumptions C11_blackbox_dumps_are_pure.

(* the record is recovered from its chunk by the parsing of qb_log_blackbox_print_from_file *)
Theorem C11_blackbox_record_roundtrip : forall r, rec_ok r -> bb_decode (bb_encode r) = Some r.
Proof. exact decode_encode. Qed.
Print Assumptions C11_blackbox_record_roundtrip.

(* "every write of at most the requested size succeeds", from any state satisfying the invariant *)
Theorem C11_always_accepts : forall S b s d, Inv b s -> ovw b = true ->
  S + RB_CHUNK_MARGIN + RB_SIZE_EXTRA <= 4 * rW b -> zlen d <= S ->
  exists b', write b d = WRet b' (zlen d) /\
             Inv b' {| sq := drop_until (rW b) (sq s) (zlen d) ++ [d]; stok := tok_add s 1 |} /\
             rW b' = rW b /\ ovw b' = true.
Proof. exact always_accepts. Qed.
Print Assumptions C11_always_accepts.

(* the blackbox theorem at the level of records: parsing the chunks of a dump the way
   qb_log_blackbox_print_from_file does yields exactly the records of the latest calls *)
Theorem C11_blackbox_dump_decodes : forall S maxline n R calls, size_ok S -> Forall (call_ok S maxline n) calls ->
  Forall (fun c => bb_reserve maxline (r_fn (lc_hdr c)) <= R) calls ->
  Forall (fun c => rec_ok (lc_rec maxline c)) calls ->
  exists b kept,
    fst (bb_run (bb_open S) (map (lc_op maxline) calls)) = Some b /\
    suffix kept calls /\ (calls <> [] -> kept <> []) /\
    (forall l, suffix l calls -> Z.of_nat (length l) * (R + 16) <= S -> suffix l kept) /\
    map bb_decode (bb_dump b n) = map (fun c => Some (lc_rec maxline c)) kept.
Proof. exact bb_dump_decodes. Qed.
Print Assumptions C11_blackbox_dump_decodes.

(* "a dump taken at any moment": whatever is logged before (pre) and whatever happens afterwards (post, any mix of log
   calls and dumps), the dump taken in between holds the records of an unbroken run of the latest calls of pre, ending
   with the very last one *)
Theorem C11_blackbox_dump_at_any_moment : forall S maxline n R pre post, size_ok S -> Forall (call_ok S maxline n) pre ->
  Forall (fun c => bb_reserve maxline (r_fn (lc_hdr c)) <= R) pre ->
  exists kept,
    suffix kept pre /\ (pre <> [] -> kept <> []) /\
    (forall l, suffix l pre -> Z.of_nat (length l) * (R + 16) <= S -> suffix l kept) /\
    nth (length pre) (snd (bb_run (bb_open S) (map (lc_op maxline) pre ++ BDump n :: post))) BoClosed =
    BoDump (map (fun c => bb_encode (lc_rec maxline c)) kept).
Proof. exact bb_dump_at_any_moment. Qed.
Print Assumptions C11_blackbox_dump_at_any_moment.

(* The dump file word by word: qb_rb_create_from_file applied to the words qb_rb_write_to_file produced (header
   hash and version checked, the data words loaded into a fresh NO_SEMAPHORE ring of the same word_size) yields a
   ring that represents the same queue - for every ring state whose data area holds bytes (Good: preserved by every
   operation with byte payloads, C11_good_all_histories) and whose size is a page multiple (qb_rb_open's rings). *)
Theorem C11_dump_file_roundtrip : forall b q, Repr b q -> Good b -> (RB_SIZEOF_WORD * rW b) mod RB_PAGE_SIZE = 0 ->
  exists fb, rb_from_dump (dump b) = Some fb /\ Repr fb q /\ sem fb = None /\ ovw fb = false /\ rW fb = rW b.
Proof. exact dump_roundtrip. Qed.
Print Assumptions C11_dump_file_roundtrip.

Theorem C11_good_all_histories : forall S ns ow ops, 0 <= S -> Forall op_bytes_ok ops ->
  Good (fst (run (rb_open S ns ow) ops)).
Proof. exact (fun S ns ow ops HS Ho => good_run ops _ (good_open S ns ow HS) Ho). Qed.
Print Assumptions C11_good_all_histories.

(* C11_suffix with the contents read back through the words of the dump file *)
Theorem C11_suffix_through_dump_file : forall S ns ws n, size_ok S -> Forall (wf_w S) ws ->
  Forall (fun w => zlen (snd w) <= n) ws -> Forall (fun w => chunk_bytes_ok (snd w)) ws ->
  exists b kept,
    ow_writes (rb_open S ns true) ws = Some b /\
    suffix kept ws /\ (ws <> [] -> kept <> []) /\
    (forall l, suffix l ws -> rfits S l = true -> suffix l kept) /\
    readback_words b n = map snd kept.
Proof. exact ow_suffix_words. Qed.
Print Assumptions C11_suffix_through_dump_file.

(* ------------------------------------------------------------------ non-vacuity *)
Example C11_example_overwrite_state :
  (0 <= 4000 /\ 4000 + RB_CHUNK_MARGIN + RB_SIZE_EXTRA + RB_PAGE_SIZE <= two32) /\
  Forall (fun d => zlen d <= 4000) ex_ds /\
  exists b, ow_writes (rb_open 4000 false true) (map plain ex_ds) = Some b /\
            readback b 5000 = [repeat 2 3; repeat 3 3960; repeat 4 8] /\ wpt b < rpt b /\ sem b = Some 4 /\
            cost [repeat 3 3960; repeat 4 8] <= 4000 /\ 4000 < cost [repeat 2 3; repeat 3 3960; repeat 4 8].
Proof. exact example_overwrite. Qed.
Example C11_example_record : rec_ok ex_rec /\ zlen (bb_encode ex_rec) = 41 /\ bb_decode (bb_encode ex_rec) = Some ex_rec.
Proof. exact example_record. Qed.

(* ------------------------------------------------------------------ the unrepaired code violates the property *)
(* (repaired in /repo, f545f17) an OVERWRITE ring with the semaphore notifier refuses the second 3000-byte write *)
Theorem C11_unrepaired_overwrite_sem_stuck_refuted : sem_stuck_demo = Some (3000, - RB_EINVAL).
Proof. exact overwrite_sem_stuck_unfixed. Qed.
Theorem C11_repaired_overwrite_sem : sem_stuck_demo_fixed = Some (3000, 3000).
Proof. exact overwrite_sem_stuck_fixed. Qed.
(* (fixes/C11-blackbox-fallback-reserve.patch) with max_line_length 32 the "message too long" notice is committed
   with 78 bytes where 32 were reserved: after 41 log calls (each within the serializer contract of the unrepaired
   code) a dump contains no record at all; the repaired code keeps the newest 56 of 100 *)
Theorem C11_unrepaired_blackbox_calls_wellformed :
  Forall (fun c => ser_ok_unfixed 32 c /\ zlen (r_ts (lc_hdr c)) = BBO_SIZEOF_TIMESPEC /\
                   bb_reserve 32 (r_fn (lc_hdr c)) <= 1024) (demo_calls 41 0).
Proof. exact demo_calls_ok_unfixed. Qed.
Theorem C11_unrepaired_blackbox_loses_all_refuted :
  demo_dump 40 = Some (map Z.of_nat (seq 0 40)) /\ demo_dump 41 = Some [].
Proof. exact blackbox_unfixed_loses_all. Qed.
Theorem C11_repaired_blackbox_keeps_newest : demo_dump_fixed 100 = Some (map Z.of_nat (seq 44 56)).
Proof. exact blackbox_fixed_keeps_newest. Qed.
