(* C17 trie part: THE theorem - dictionary answers, traversals and notifier calls of every history. *)
From Coq Require Import List ZArith Bool Arith Lia Sorted.
Import ListNotations.
Require Import Verif.gen.Consts_trie Verif.MapTrieModel Verif.MapTrieSpec Verif.MapTrieProofs Verif.MapTrieProofs2
               Verif.MapTrieProofs3 Verif.MapTrieIds Verif.MapTrieIter6 Verif.MapTrieNotify Verif.MapTrieNotify2
               Verif.MapTrieNotify3.

Definition spec_events (S : sstate) (d : dict) (o : dop) : list ev :=
  match o with DPut k v => spec_put_events S d k v | DRm k => spec_rm_events S d k | _ => [] end.

(* histories the statement is about: C-string keys; notifier deletions name a key something is registered on *)
Fixpoint valid_hist (d : dict) (S : sstate) (hs : list iop) : Prop :=
  match hs with
  | [] => True
  | IH (HDict o) :: hs' => dop_valid o /\ valid_hist (fst (spec_step d o)) S hs'
  | IH (HNotifyAdd k fn e ud) :: hs' => okvalid k /\ valid_hist d (fst (spec_notify_add S k fn e ud)) hs'
  | IH (HNotifyDel k fn e) :: hs' => del_valid S k /\ valid_hist d (fst (spec_notify_del S k fn e false 0)) hs'
  | IH (HNotifyDel2 k fn e ud) :: hs' => del_valid S k /\ valid_hist d (fst (spec_notify_del S k fn e true ud)) hs'
  | IForeach _ :: hs' => valid_hist d S hs'
  end.

(* what every operation of the history has to return and which callbacks it has to make, in order *)
Inductive full_ok : dict -> sstate -> list iop -> list (out * list ev) -> Prop :=
| FO_nil : forall d S, full_ok d S [] []
| FO_dict : forall d S o hs outs, full_ok (fst (spec_step d o)) S hs outs ->
    full_ok d S (IH (HDict o) :: hs) ((snd (spec_step d o), spec_events S d o) :: outs)
| FO_nadd : forall d S k fn e ud hs outs, full_ok d (fst (spec_notify_add S k fn e ud)) hs outs ->
    full_ok d S (IH (HNotifyAdd k fn e ud) :: hs) ((RInt (snd (spec_notify_add S k fn e ud)), []) :: outs)
| FO_ndel : forall d S k fn e hs outs, full_ok d (fst (spec_notify_del S k fn e false 0)) hs outs ->
    full_ok d S (IH (HNotifyDel k fn e) :: hs) ((RInt (snd (spec_notify_del S k fn e false 0)), []) :: outs)
| FO_ndel2 : forall d S k fn e ud hs outs, full_ok d (fst (spec_notify_del S k fn e true ud)) hs outs ->
    full_ok d S (IH (HNotifyDel2 k fn e ud) :: hs) ((RInt (snd (spec_notify_del S k fn e true ud)), []) :: outs)
| FO_foreach : forall d S stop L hs outs, enum d L -> full_ok d S hs outs ->
    full_ok d S (IForeach stop :: hs) ((RUnit, map visit_of (take stop L)) :: outs).

Definition Inv4 (t : trie) (d : dict) (S : sstate) : Prop := Inv t d /\ ids_ok t /\ nots_ok (t_root t) S.

Lemma inv4_init : Inv4 trie_init [] [].
Proof.
  split; [apply inv_init|]. split; [apply ids_init|]. intro q. simpl. destruct q; reflexivity.
Qed.

Lemma run_full : forall fx hs t d S, f_rm fx = true -> Inv4 t d S -> valid_hist d S hs ->
  exists outs t', run fx t (map iop_op hs) = (outs, Ok t') /\ full_ok d S hs outs.
Proof.
  intro fx. induction hs as [|h hs]; intros t d S Hfx [HI [IO NO]] Hv.
  - exists [], t. split; auto. constructor.
  - cbn [map run].
    destruct h as [[o|k fn e ud|k fn e|k fn e ud]|stop]; cbn [iop_op hop_op valid_hist] in *.
    + destruct Hv as [H1 H2].
      destruct (step_refines fx t d o Hfx HI H1) as [t' [evs [St I']]]. rewrite St.
      assert (X : ids_ok t' /\ nots_ok (t_root t') S /\ evs = spec_events S d o).
      { destruct o as [k v|k|k|]; simpl in St.
        - pose proof (ids_put fx t d k v HI IO H1) as X. pose proof (put_full fx t d S k v HI NO H1) as [Y Z].
          destruct (do_put fx t k v). inversion St; subst. simpl in *. auto.
        - inversion St; subst. auto.
        - pose proof (ids_rm fx t k IO) as X. pose proof (rm_full fx t d S k Hfx HI NO H1) as [Y Z].
          destruct (do_rm fx t k) as [[a b] c]. inversion St; subst. simpl in *. auto.
        - inversion St; subst. auto. }
      destruct X as [IO' [NO' EV]]. subst evs.
      destruct (IHhs t' _ S Hfx (conj I' (conj IO' NO')) H2) as [outs [t'' [R FO]]]. rewrite R.
      eexists _, t''. split; [reflexivity|]. constructor. exact FO.
    + destruct Hv as [H1 H2].
      pose proof (notify_add_inv fx t d k fn e ud HI H1) as I'. pose proof (ids_notify_add fx t d k fn e ud HI IO H1) as IO'.
      pose proof (notify_add_full fx t d S k fn e ud HI NO H1) as [Z NO'].
      cbn [step]. destruct (do_notify_add fx t k fn e ud) as [t' z]. simpl in I', IO', Z, NO'. subst z.
      destruct (IHhs t' d _ Hfx (conj I' (conj IO' NO')) H2) as [outs [t'' [R FO]]]. rewrite R.
      eexists _, t''. split; [reflexivity|]. constructor. exact FO.
    + destruct Hv as [H1 H2].
      pose proof (notify_del_inv t d k fn e false 0 HI) as I'. pose proof (ids_notify_del t k fn e false 0 IO) as IO'.
      pose proof (notify_del_full t d S k fn e false 0 HI NO H1) as [Z NO'].
      cbn [step]. destruct (do_notify_del t k fn e false 0) as [t' z]. simpl in I', IO', Z, NO'. subst z.
      destruct (IHhs t' d _ Hfx (conj I' (conj IO' NO')) H2) as [outs [t'' [R FO]]]. rewrite R.
      eexists _, t''. split; [reflexivity|]. constructor. exact FO.
    + destruct Hv as [H1 H2].
      pose proof (notify_del_inv t d k fn e true ud HI) as I'. pose proof (ids_notify_del t k fn e true ud IO) as IO'.
      pose proof (notify_del_full t d S k fn e true ud HI NO H1) as [Z NO'].
      cbn [step]. destruct (do_notify_del t k fn e true ud) as [t' z]. simpl in I', IO', Z, NO'. subst z.
      destruct (IHhs t' d _ Hfx (conj I' (conj IO' NO')) H2) as [outs [t'' [R FO]]]. rewrite R.
      eexists _, t''. split; [reflexivity|]. constructor. exact FO.
    + pose proof (foreach_step fx t d stop HI IO) as F. rewrite F.
      destruct (IHhs t d S Hfx (conj HI (conj IO NO)) Hv) as [outs [t'' [R FO]]]. rewrite R.
      destruct (al_enum t d HI IO) as [EN EQ].
      eexists _, t''. split; [reflexivity|].
      rewrite <- take_map, EQ, take_map. constructor; auto.
Qed.

(* C17 for the trie, all histories of put / get / rm / count / notifier add / del / del_2 / qb_map_foreach:
   no error state; every result equals the dictionary's / the subscription specification's; every put and rm makes
   exactly the notifier calls [notify_spec] demands from the current subscriptions, in order, with key, old and new
   value (INSERTED / REPLACED / DELETED, and QB_MAP_NOTIFY_FREE for the value that leaves on REPLACED / DELETED);
   every traversal enumerates the present keys once each in ascending (signed char) order *)
Theorem trie_c17_all_histories : forall fx hs, f_rm fx = true -> valid_hist [] [] hs ->
  exists outs t', run fx trie_init (map iop_op hs) = (outs, Ok t') /\ full_ok [] [] hs outs.
Proof. intros. apply run_full; auto. apply inv4_init. Qed.
