(* C18 trie part, safety (1): generic facts - every node has a path, release keeps nodes that carry a key,
   trie_insert (repaired split) keeps every old node's info. *)
From Coq Require Import List ZArith Bool Arith Lia.
Import ListNotations.
Require Import Verif.gen.Consts_trie Verif.MapTrieModel Verif.MapTrieProofs Verif.MapTrieProofs2 Verif.MapTrieIter
               Verif.MapTrieIds Verif.MapTrieIter3.

(* a property of all infos, by paths *)
Lemma all_of_paths : (forall t (P : ninfo -> Prop), (forall p tn, get_at t p = Some tn -> P (t_info tn)) -> all_t (fun i _ => P i) t) /\
                     (forall f (P : ninfo -> Prop), (forall p tn, get_f f p = Some tn -> P (t_info tn)) -> all_f (fun i _ => P i) f).
Proof.
  apply tnode_forest_ind.
  - intros i s f IH P H. cbn [all_t]. split.
    + apply (H [] (TN i s f)). reflexivity.
    + apply IH. intros p tn G. destruct p as [|j p]; [discriminate|]. apply (H (j :: p) tn). exact G.
  - intros. exact I.
  - intros f IH P H. cbn [all_f]. split; auto. apply IH. intros p tn G. destruct p as [|j p]; [discriminate|].
    apply (H (S j :: p) tn). exact G.
  - intros t f IHt IHf P H. cbn [all_f]. split.
    + apply IHt. intros p tn G. apply (H (0 :: p) tn). exact G.
    + apply IHf. intros p tn G. destruct p as [|j p]; [discriminate|]. apply (H (S j :: p) tn). exact G.
Qed.

Lemma paths_of_all : forall (P : ninfo -> Prop) p t tn, all_t (fun i _ => P i) t -> get_at t p = Some tn -> P (t_info tn).
Proof. intros. apply (all_get_at (fun i _ => P i) p t tn H H0). Qed.

(* an id that occurs has a path *)
Lemma cnt_path : (forall t id, 1 <= cnt_t t id -> exists p tn, get_at t p = Some tn /\ n_id (t_info tn) = id) /\
                 (forall f id, 1 <= cnt_f f id -> exists p tn, get_f f p = Some tn /\ n_id (t_info tn) = id).
Proof.
  apply tnode_forest_ind.
  - intros i s f IH id H. simpl in H. destruct (Nat.eqb_spec (n_id i) id).
    + exists [], (TN i s f). auto.
    + destruct (IH id ltac:(lia)) as [p [tn [G E]]]. exists p, tn. split; auto.
      destruct p as [|j p]; [discriminate|]. exact G.
  - intros id H. simpl in H. lia.
  - intros f IH id H. simpl in H. destruct (IH id H) as [p [tn [G E]]]. destruct p as [|j p]; [discriminate|].
    exists (S j :: p), tn. auto.
  - intros t f IHt IHf id H. simpl in H. destruct (Nat.le_gt_cases 1 (cnt_t t id)) as [C|C].
    + destruct (IHt id C) as [p [tn [G E]]]. exists (0 :: p), tn. auto.
    + destruct (IHf id ltac:(lia)) as [p [tn [G E]]]. destruct p as [|j p]; [discriminate|].
      exists (S j :: p), tn. auto.
Qed.

(* release moves nothing: what is left is where it was *)
Lemma rel_get : forall p n hdr n' q tn', rel_t n p hdr = Some n' -> get_at n' q = Some tn' ->
  exists tn, get_at n q = Some tn /\ t_info tn = t_info tn'.
Proof.
  induction p; intros n hdr n' q tn' R G; destruct n as [i s f]; cbn [rel_t] in R.
  - destruct (releasable i f hdr); inversion R; subst. eauto.
  - rewrite rel_f_fget in R. destruct (fget f a) as [c|] eqn:F.
    2:{ inversion R; subst. eauto. }
    pose proof (fget_some_lt _ _ _ F) as L.
    assert (X : forall fx, (fx = fset f a None \/ exists c', rel_t c p false = Some c' /\ fx = fset f a (Some c')) ->
                get_at (TN i s fx) q = Some tn' -> exists tn, get_at (TN i s f) q = Some tn /\ t_info tn = t_info tn').
    { intros fx Hfx Gx. destruct q as [|b q].
      - simpl in Gx. inversion Gx; subst. exists (TN i s f). auto.
      - simpl in *. destruct (Nat.eq_dec a b) as [e|e].
        + subst b. destruct Hfx as [Hfx|[c' [Rc Hfx]]]; subst fx; rewrite fget_fset_same in Gx by auto.
          * discriminate.
          * rewrite F. eapply IHp; eauto.
        + destruct Hfx as [Hfx|[c' [Rc Hfx]]]; subst fx; rewrite fget_fset_other in Gx by auto; eauto. }
    destruct (rel_t c p false) as [c'|] eqn:Rc.
    + inversion R; subst. eapply X; eauto.
    + destruct (releasable i (fset f a None) hdr); inversion R; subst. eapply X; eauto.
Qed.

(* a node that carries a key is never released, nor is any node above it *)
Lemma rel_survive : forall p n hdr q tn, get_at n q = Some tn -> n_key (t_info tn) <> None ->
  match rel_t n p hdr with
  | Some n' => exists tn', get_at n' q = Some tn' /\ t_info tn' = t_info tn
  | None => False
  end.
Proof.
  induction p; intros n hdr q tn G K; destruct n as [i s f]; cbn [rel_t].
  - destruct (releasable i f hdr) eqn:R; [|eauto].
    (* releasable: no key, no children - but q leads to a node with a key *)
    unfold releasable in R. apply andb_true_iff in R. destruct R as [R R4]. apply andb_true_iff in R. destruct R as [R R3].
    apply andb_true_iff in R. destruct R as [R1 R2].
    destruct q as [|b q].
    + simpl in G. inversion G; subst. simpl in K. destruct (n_key i); [discriminate|congruence].
    + simpl in G. rewrite fall_none_fget in G by auto. discriminate.
  - rewrite rel_f_fget. destruct (fget f a) as [c|] eqn:F; [|eauto].
    pose proof (fget_some_lt _ _ _ F) as L.
    destruct q as [|b q].
    + (* the node itself carries the key: it is not releasable *)
      simpl in G. inversion G; subst. simpl in K.
      assert (NR : forall fx, releasable i fx hdr = false).
      { intro fx. unfold releasable. destruct (n_key i); [reflexivity|congruence]. }
      destruct (rel_t c p false); [|rewrite NR]; eexists; split; reflexivity.
    + simpl in G. destruct (Nat.eq_dec a b) as [e|e].
      * subst b. rewrite F in G. pose proof (IHp c false q tn G K) as IH.
        destruct (rel_t c p false) as [c'|]; [|contradiction].
        destruct IH as [tn' [G' E']]. exists tn'. simpl. rewrite fget_fset_same by auto. auto.
      * assert (Gx : forall x, get_at (TN i s (fset f a x)) (b :: q) = Some tn).
        { intro x. simpl. rewrite fget_fset_other by auto. exact G. }
        destruct (rel_t c p false) as [c'|].
        -- exists tn. auto.
        -- destruct (releasable i (fset f a None) hdr) eqn:R.
           ++ unfold releasable in R. apply andb_true_iff in R. destruct R as [_ R4].
              specialize (Gx None). simpl in Gx. rewrite fall_none_fget in Gx by auto. discriminate.
           ++ exists tn. auto.
Qed.

(* repaired trie_insert: every node of the result is a fresh blank node or keeps the info (id included) it had *)
Lemma ins_all : forall fx (P : ninfo -> Prop), f_split fx = true -> forall sz n, size_t n <= sz ->
  forall k hdr nid n' p nid', (forall x, nid <= x -> P (fresh_info x)) ->
  all_t (fun i _ => P i) n -> ins_t fx n k hdr nid = (n', p, nid') -> all_t (fun i _ => P i) n'.
Proof.
  intros fx P Hfx. induction sz; intros n Hsz k hdr nid n' p nid' HF Hall H.
  { destruct n; simpl in Hsz; lia. }
  destruct n as [i seg f]. cbn [ins_t] in H. cbn [all_t] in Hall. destruct Hall as [Hi Hf].
  assert (SPL : forall sc jx x, P (t_info x) -> all_f (fun i _ => P i) (t_ch x) ->
            all_t (fun i _ => P i) (match split fx i seg f sc nid with TN i1 s1 f1 => TN i1 s1 (new_child f1 jx x) end)).
  { intros sc jx x Px Fx. unfold split. rewrite Hfx. cbn [all_t]. split; [apply HF; lia|].
    apply all_f_new_child.
    - apply all_f_new_child; [exact I|]. cbn [all_t]. auto.
    - destruct x. cbn [all_t]. auto. }
  destruct (strip seg k 0) eqn:St.
  - match type of H with context [if ?b then _ else _] => destruct b end.
    + pose proof (SPL sc (c2i 0) (TN (fresh_info (S nid)) [] FNil)) as X.
      destruct (split fx i seg f sc nid) as [i1 s1 f1]. inversion H; subst. apply X; [apply HF; simpl; lia | exact I].
    + inversion H; subst. cbn [all_t]. auto.
  - pose proof (SPL sc (c2i c) (TN (fresh_info (S nid)) k' FNil)) as X.
    destruct (split fx i seg f sc nid) as [i1 s1 f1]. inversion H; subst. apply X; [apply HF; simpl; lia | exact I].
  - rewrite ins_f_fget in H. destruct (fget f (c2i c)) as [t|] eqn:G.
    + destruct (ins_t fx t k' false nid) as [[t' p0] nid0] eqn:I0. inversion H; subst n' p nid'; clear H.
      assert (Hst : size_t t <= sz). { apply size_fget in G. simpl in Hsz. lia. }
      cbn [all_t]. split; auto. apply all_f_fset; auto.
      eapply IHsz; eauto. eapply all_f_fget; eauto.
    + assert (NEW : forall nid0, nid <= nid0 -> all_t (fun i _ => P i) (TN i seg (new_child f (c2i c) (TN (fresh_info nid0) k' FNil)))).
      { intros. cbn [all_t]. split; auto. apply all_f_new_child; auto. cbn [all_t]. split; [apply HF; auto | exact I]. }
      destruct hdr.
      * inversion H; subst. apply NEW. lia.
      * destruct (n_val i); simpl in H.
        { inversion H; subst. apply NEW. lia. }
        destruct (n_nots i); simpl in H.
        2:{ inversion H; subst. apply NEW. lia. }
        destruct (flen f =? 0).
        2:{ inversion H; subst. apply NEW. lia. }
        inversion H; subst. cbn [all_t]. auto.
Qed.

(* update of the node at a path: the other nodes keep their property *)
Lemma all_upd_at : forall (P : ninfo -> Prop) p n g tn, get_at n p = Some tn -> (P (t_info tn) -> P (g (t_info tn))) ->
  all_t (fun i _ => P i) n -> all_t (fun i _ => P i) (upd_t n p g).
Proof.
  induction p; intros n g tn G Hg Hall; destruct n as [i s f]; simpl in G; cbn [upd_t all_t] in *; destruct Hall as [Hi Hf].
  - inversion G; subst. simpl in Hg. auto.
  - split; auto. rewrite upd_f_fget. destruct (fget f a) as [c|] eqn:F; [|discriminate].
    apply all_f_fset; auto. eapply IHp; eauto. eapply all_f_fget; eauto.
Qed.
