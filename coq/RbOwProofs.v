(* C11, part 1: the overwrite-mode writer of lib/ringbuffer.c (RbModel.alloc with ovw = true: the loop
   `while (space_free < len + MARGIN) _rb_chunk_reclaim') refines the abstract "drop oldest until accepted"
   writer of RbSpec.v (ow_spec_step), for every operation list; the loop terminates within the fuel. *)
From Coq Require Import ZArith List Bool Lia ZifyBool.
Import ListNotations.
Require Import Verif.gen.Consts_rb Verif.RbModel Verif.RbSpec Verif.RbMem Verif.RbProofs Verif.RbRefine Verif.RbOwSpec.
Local Open Scope Z_scope.

Ltac Zify.zify_post_hook ::= Z.div_mod_to_equations.

(* ------------------------------------------------------------------ fuel: chunks <= used/2 < word_size *)
Lemma length_le_used : forall q, 2 * Z.of_nat (length q) <= used q.
Proof.
  induction q as [|c t IH]; cbn [length used]; [lia|].
  pose proof (cw_ge2 (zlen c) (zlen_nonneg c)). lia.
Qed.

Lemma fuel_enough : forall b q, Repr b q -> (length q < Z.to_nat (rW b))%nat.
Proof.
  intros b q (HW & _ & _ & Hu & _). pose proof (length_le_used q). lia.
Qed.

(* ------------------------------------------------------------------ drop_until *)
Lemma drop_until_eq : forall W q rlen,
  drop_until W q rlen = if has_room W q rlen then q else match q with [] => [] | _ :: t => drop_until W t rlen end.
Proof. intros W q rlen; destruct q; reflexivity. Qed.

Lemma drop_until_suffix : forall W rlen q, suffix (drop_until W q rlen) q.
Proof.
  intros W rlen. induction q as [|c t IH]; rewrite drop_until_eq.
  - destruct (has_room W [] rlen); exists []; reflexivity.
  - destruct (has_room W (c :: t) rlen); [exists []; reflexivity|].
    destruct IH as (p & Hp). exists (c :: p). cbn [app]. f_equal. exact Hp.
Qed.

(* the result admits the reservation, or everything was dropped *)
Lemma drop_until_room : forall W rlen q,
  has_room W (drop_until W q rlen) rlen = true \/ (drop_until W q rlen = [] /\ has_room W [] rlen = false).
Proof.
  intros W rlen. induction q as [|c t IH]; rewrite drop_until_eq.
  - destruct (has_room W [] rlen) eqn:E; [left; exact E | right; split; reflexivity].
  - destruct (has_room W (c :: t) rlen) eqn:E; [left; exact E | exact IH].
Qed.

Lemma suffix_cons_inv : forall A (l : list A) c t, suffix l (c :: t) -> l = c :: t \/ suffix l t.
Proof.
  intros A l c t (p & Hp). destruct p as [|x p]; cbn [app] in Hp.
  - left; congruence.
  - right. exists p. congruence.
Qed.

(* nothing that could have stayed is dropped: every suffix of q that admits the reservation survives *)
Lemma drop_until_keeps : forall W rlen q l, suffix l q -> has_room W l rlen = true ->
  suffix l (drop_until W q rlen).
Proof.
  intros W rlen. induction q as [|c t IH]; intros l Hl Hroom; rewrite drop_until_eq.
  - destruct (has_room W [] rlen); [exact Hl|].
    destruct Hl as (p & Hp). destruct p; destruct l; cbn in Hp; try discriminate. exists []; reflexivity.
  - destruct (has_room W (c :: t) rlen) eqn:E; [exact Hl|].
    destruct (suffix_cons_inv _ _ _ _ Hl) as [-> | Ht]; [congruence|].
    apply IH; assumption.
Qed.

(* ------------------------------------------------------------------ the reclaim loop of qb_rb_chunk_alloc *)
Lemma ow_make_room_eq : forall fuel b need,
  ow_make_room fuel b need =
  if space_free b <? need then
    match fuel with
    | O => None
    | S f => let '(b1, rc) := reclaim b in if rc =? 0 then ow_make_room f b1 need else Some (b1, rc)
    end
  else Some (b, 0).
Proof. intros fuel b need; destruct fuel; reflexivity. Qed.

Lemma einval_nz : (- RB_EINVAL =? 0) = false.
Proof. vm_compute. reflexivity. Qed.

Lemma ow_make_room_repr : forall q fuel b rlen, Repr b q -> (length q < fuel)%nat ->
  exists b1 rc, ow_make_room fuel b (rlen + RB_CHUNK_MARGIN) = Some (b1, rc) /\
                Repr b1 (drop_until (rW b) q rlen) /\
                rW b1 = rW b /\ sem b1 = sem b /\ ovw b1 = ovw b /\ wpt b1 = wpt b /\
                rc = (if has_room (rW b) (drop_until (rW b) q rlen) rlen then 0 else - RB_EINVAL).
Proof.
  induction q as [|c t IH]; intros fuel b rlen HR Hfuel; rewrite ow_make_room_eq, drop_until_eq;
    rewrite (has_room_space_free b _ rlen HR).
  - destruct (has_room (rW b) [] rlen) eqn:E; cbn [negb].
    + exists b, 0. rewrite E. splits; try reflexivity. exact HR.
    + destruct fuel as [|f]; [cbn in Hfuel; lia|].
      rewrite (reclaim_empty _ HR). rewrite einval_nz.
      exists b, (- RB_EINVAL). rewrite E. splits; try reflexivity. exact HR.
  - destruct (has_room (rW b) (c :: t) rlen) eqn:E; cbn [negb].
    + exists b, 0. rewrite E. splits; try reflexivity. exact HR.
    + destruct fuel as [|f]; [cbn in Hfuel; lia|].
      destruct (reclaim_head _ _ _ HR) as (b' & Hrec & HR' & HW' & Hs' & Ho' & Hw').
      rewrite Hrec. change (0 =? 0) with true. cbv iota.
      cbn [length] in Hfuel.
      destruct (IH f b' rlen HR' ltac:(lia)) as (b1 & rc & Hm & HR1 & HW1 & Hs1 & Ho1 & Hw1 & Hrc).
      rewrite HW' in *.
      exists b1, rc. splits; try congruence.
Qed.

(* ------------------------------------------------------------------ alloc + commit in overwrite mode *)
Lemma ow_alloc_commit_refines : forall b s rlen d okval, Inv b s -> ovw b = true -> 0 <= zlen d <= rlen ->
  forall s' y, ow_spec_write (rW b) s rlen d okval = (s', y) ->
  exists b' r, alloc_commit b rlen d = WRet b' r /\ Inv b' s' /\
               y = Some (if r =? 0 then okval else r, []) /\ (r = 0 \/ r = - RB_EINVAL) /\
               rW b' = rW b /\ ovw b' = true.
Proof.
  intros b s rlen d okval (HR & Hs) Ho Hd s' y Hsp.
  pose proof (fuel_enough _ _ HR) as Hfuel.
  destruct (ow_make_room_repr (sq s) _ b rlen HR Hfuel) as (b1 & rc & Hm & HR1 & HW1 & Hs1 & Ho1 & Hw1 & Hrc).
  unfold ow_spec_write in Hsp. unfold alloc_commit, alloc. rewrite Ho, Hm.
  destruct (has_room (rW b) (drop_until (rW b) (sq s) rlen) rlen) eqn:Ea.
  - subst rc. change (0 =? 0) with true. cbv iota.
    destruct (put_chunk_repr b1 _ d HR1) as (b2 & Hput & HR2 & HW2 & Ho2 & _ & Hs2).
    { rewrite HW1. apply has_room_used with (rlen := rlen); [lia | exact Ea]. }
    unfold put_result, alloc_header in Hput. unfold alloc_header. rewrite Hput.
    inversion Hsp; subst. exists b2, 0. unfold Inv; cbn [sq stok].
    change (0 =? 0) with true. cbv iota.
    splits; try assumption; try congruence; try (left; reflexivity).
    rewrite Hs2, Hs1, Hs. unfold tok_add. destruct (stok s); reflexivity.
  - subst rc. rewrite einval_nz. inversion Hsp; subst.
    exists b1, (- RB_EINVAL). rewrite Z.opp_involutive. rewrite einval_nz.
    unfold Inv; cbn [sq stok].
    splits; try assumption; try congruence. right; reflexivity.
Qed.

(* ------------------------------------------------------------------ one operation, every operation list *)
Lemma ow_step_refines : forall b s o, Inv b s -> ovw b = true -> wf_op o ->
  forall s' y, ow_spec_step (rW b) s o = (s', y) ->
  exists b' x, step b o = (b', x) /\ Inv b' s' /\ obs_of x = y /\ x <> OFuel /\ rW b' = rW b /\ ovw b' = true.
Proof.
  intros b s o HI Ho Hwf s' y Hsp.
  destruct neg_errno_lt0 as (_ & _ & _ & _ & LtI).
  destruct o as [d | rlen d | n | | | | ]; cbn [step]; cbn [ow_spec_step] in Hsp.
  - (* write *)
    pose proof (zlen_nonneg d) as Hzd.
    destruct (ow_alloc_commit_refines b s (zlen d) d (zlen d) HI Ho ltac:(lia) _ _ Hsp)
      as (b1 & r & Hac & HI' & Hy & Hr & HW' & Ho').
    unfold write. rewrite Hac. eexists; eexists; split; [reflexivity|].
    splits; try assumption; try discriminate.
    rewrite Hy. cbn [obs_of]. destruct Hr as [-> | ->].
    + reflexivity.
    + rewrite LtI, einval_nz. reflexivity.
  - (* alloc + commit *)
    cbn [wf_op] in Hwf. pose proof (zlen_nonneg d) as Hzd.
    destruct (ow_alloc_commit_refines b s rlen d 0 HI Ho ltac:(lia) _ _ Hsp)
      as (b1 & r & Hac & HI' & Hy & Hr & HW' & Ho').
    rewrite Hac. eexists; eexists; split; [reflexivity|].
    splits; try assumption; try discriminate.
    rewrite Hy. cbn [obs_of]. destruct (r =? 0) eqn:E; [|reflexivity]. do 3 f_equal; lia.
  - (* read *)
    destruct (read b n) as ((b1, r), bytes) eqn:Hr.
    destruct (read_refines b s n HI _ _ _ _ _ Hr Hsp) as (HI' & Hy & HW' & Ho' & _).
    eexists; eexists; split; [reflexivity|]. splits; try assumption; try discriminate; try congruence.
    cbn [obs_of]. congruence.
  - (* peek *)
    destruct (peek b) as ((b1, r), bytes) eqn:Hr.
    destruct (peek_refines b s HI _ _ _ _ _ Hr Hsp) as (HI' & Hy & HW' & Ho').
    eexists; eexists; split; [reflexivity|]. splits; try assumption; try discriminate; try congruence.
    cbn [obs_of]. congruence.
  - (* reclaim *)
    destruct (reclaim b) as (b1, rc) eqn:Hr.
    destruct (reclaim_refines b s HI _ _ _ _ Hr Hsp) as (HI' & Hy & HW' & Ho').
    eexists; eexists; split; [reflexivity|]. splits; try assumption; try discriminate; try congruence.
    cbn [obs_of]. congruence.
  - cbn [spec_step] in Hsp. inversion Hsp; subst.
    eexists; eexists; split; [reflexivity|]. splits; try assumption; try discriminate; reflexivity.
  - cbn [spec_step] in Hsp. inversion Hsp; subst.
    eexists; eexists; split; [reflexivity|]. splits; try assumption; try discriminate; reflexivity.
Qed.

Theorem ow_run_refines : forall ops b s, Inv b s -> ovw b = true -> Forall wf_op ops ->
  forall s' ys, ow_spec_run (rW b) s ops = (s', ys) ->
  exists b' xs, run b ops = (b', xs) /\ Inv b' s' /\ map obs_of xs = ys /\ ~ In OFuel xs /\
                rW b' = rW b /\ ovw b' = true.
Proof.
  induction ops as [|o t IH]; intros b s HI Ho Hwf s' ys Hsp; cbn [run ow_spec_run] in *.
  - inversion Hsp; subst. exists b, []. splits; try assumption; try reflexivity. intros [].
  - destruct (ow_spec_step (rW b) s o) as (s1, y) eqn:Hss.
    destruct (ow_spec_run (rW b) s1 t) as (s2, ys') eqn:Hsr.
    inversion Hsp; subst; clear Hsp.
    inversion Hwf as [|? ? Hwo Hwt]; subst.
    destruct (ow_step_refines b s o HI Ho Hwo _ _ Hss) as (b1 & x & Hst & HI1 & Hy & Hx & HW1 & Ho1).
    rewrite <- HW1 in Hsr.
    destruct (IH b1 s1 HI1 Ho1 Hwt _ _ Hsr) as (b2 & xs & Hrun & HI2 & Hys & Hnf & HW2 & Ho2).
    rewrite Hst, Hrun. exists b2, (x :: xs).
    splits; try assumption; try congruence.
    + cbn [map]. congruence.
    + intros [H | H]; [congruence | exact (Hnf H)].
Qed.
