(* C05 - IPC admission: further lemmas about coq/IpcAdmitModel.v (final state of an admission, clean tear-down). *)
From Coq Require Import ZArith NArith List Bool Lia.
Import ListNotations.
Require Import Verif.gen.Consts_ipcadmit Verif.IpcAdmitModel Verif.IpcAdmitProofs.
Local Open Scope Z_scope.

(* after a complete admission of an accepted peer (repaired code, root server): every object of the connection is owned
   by exactly the authorised uid:gid and has exactly the authorised mode (directory: the derived mode); nothing else
   exists *)
Definition handed (sv : cred) (a : auth) (isdir : bool) : entry :=
  mkE (keep (a_uid a) (c_uid sv)) (keep (a_gid a) (c_gid sv)) (allowed a isdir) isdir.
Definition final_ok (sv : cred) (a : auth) (tr : transport) (f : lfs) : Prop :=
  lookup TDir f = Some (handed sv a true) /\
  (forall t, In t (client_files tr) -> lookup t f = Some (handed sv a false)) /\
  (forall t, t <> TDir -> ~ In t (client_files tr) -> lookup t f = None).

Lemma fixed_final_state : forall en tr p, srv_root en = true -> p_decision p = 0 ->
  final_ok (srv en) (eff_auth p) tr (frun en [] (admission_ops Fixed tr p)).
Proof.
  intros en tr p Hroot Hd. destruct (root_env en Hroot) as [um [sg ->]].
  unfold admission_ops. rewrite Hd. cbn [Z.eqb].
  set (a := eff_auth p). destruct tr; cbn [connect_ops ring_ops ctl_ops app];
  match goal with |- final_ok _ _ _ ?f =>
    let f' := eval lazy beta iota zeta delta
       [frun fexec lexec l_fs l_chan l_log fst snd lookup set remove ftag_eqb tag_ix Nat.eqb with_fs with_log has_children
        existsb child_tags is_some orb andb negb srv_may_chmod srv_may_chown srv_root srv c_uid c_gid umask Z.eqb
        e_uid e_gid e_mode e_isdir] in f in change f with f' end;
  unfold final_ok, handed, allowed; cbn [srv c_uid c_gid client_files];
  (split; [reflexivity | split;
    [ intros t Ht; cbn [In] in Ht; repeat (destruct Ht as [<- | Ht]; [reflexivity |]); destruct Ht
    | intros t Ht Hn; destruct t; cbn [In] in Hn; try reflexivity; try congruence; exfalso; apply Hn; tauto ]]).
Qed.

Theorem fixed_final_state_global : forall en tr p l k,
  srv_root en = true -> p_decision p = 0 ->
  fsops (proj k l) = admission_ops Fixed tr p ->
  final_ok (srv en) (eff_auth p) tr (l_fs (run en w_empty l k)).
Proof.
  intros en tr p l k Hroot Hd H. rewrite run_proj, lrun_fs, frun_fsops, H. cbn [w_empty l_empty l_fs].
  apply fixed_final_state; assumption.
Qed.

(* both variants: when the server has finished with a peer (refused: after the admission; accepted: after the
   tear-down), nothing of the connection is left in the file system *)
Lemma script_leaves_nothing : forall en v tr p, srv_root en = true -> frun en [] (peer_script v tr p) = [].
Proof.
  intros en v tr p Hroot. destruct (root_env en Hroot) as [um [sg ->]].
  unfold peer_script, admission_ops. set (a := eff_auth p).
  destruct (p_decision p =? 0); destruct v; destruct tr; cbn [connect_ops ring_ops ctl_ops teardown_ops app];
  match goal with |- ?f = [] =>
    let f' := eval lazy beta iota zeta delta
       [frun fexec lexec l_fs l_chan l_log fst snd lookup set remove ftag_eqb tag_ix Nat.eqb with_fs with_log has_children
        existsb child_tags is_some orb andb negb srv_may_chmod srv_may_chown srv_root srv c_uid c_gid umask Z.eqb
        e_uid e_gid e_mode e_isdir] in f in change f with f' end; reflexivity.
Qed.
Theorem script_leaves_nothing_global : forall en v tr p l k,
  srv_root en = true -> fsops (proj k l) = peer_script v tr p -> l_fs (run en w_empty l k) = [].
Proof.
  intros en v tr p l k Hroot H. rewrite run_proj, lrun_fs, frun_fsops, H. cbn [w_empty l_empty l_fs].
  apply script_leaves_nothing, Hroot.
Qed.

Lemma ex_final_state :
  frun root_env_022 [] (admission_ops Fixed Sock peer_1000) =
  [(TCtl, mkE 1000 1000 m600 false); (TDir, mkE 1000 1000 m700 true)].
Proof. vm_compute. reflexivity. Qed.
