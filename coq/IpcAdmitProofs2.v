(* C05 - IPC admission: further lemmas about coq/IpcAdmitModel.v (final state of an admission, clean tear-down). *)
From Coq Require Import ZArith NArith List Bool Lia.
Import ListNotations.
Require Import Verif.gen.Consts_ipcadmit Verif.IpcAdmitModel Verif.IpcAdmitProofs.
Local Open Scope Z_scope.

(* after a complete admission of an accepted peer (repaired code, root server): every object of the connection is owned
   by exactly the authorised uid:gid and has exactly the authorised mode (directory: the derived mode); nothing else
   exists *)
Definition handed (sv : cred) (a : auth) (isdir : bool) : entry :=
  mkE (keep (a_uid a) (c_uid sv)) (keep (a_gid a) (c_gid sv)) (allowed a isdir) isdir.
Definition final_ok (sv : cred) (a : auth) (tr : transport) (f : lfs) : Prop :=
  lookup TDir f = Some (handed sv a true) /\
  (forall t, In t (client_files tr) -> lookup t f = Some (handed sv a false)) /\
  (forall t, t <> TDir -> ~ In t (client_files tr) -> lookup t f = None).

Lemma fixed_final_state : forall en tr p, srv_root en = true -> p_decision p = 0 ->
  final_ok (srv en) (eff_auth p) tr (frun en [] (admission_ops Fixed tr p)).
Proof.
  intros en tr p Hroot Hd. destruct (root_env en Hroot) as [um [sg ->]].
  unfold admission_ops. rewrite Hd. cbn [Z.eqb].
  set (a := eff_auth p). destruct tr; cbn [connect_ops ring_ops ctl_ops app];
  match goal with |- final_ok _ _ _ ?f =>
    let f' := eval lazy beta iota zeta delta
       [frun fexec lexec l_fs l_chan l_log fst snd lookup set remove ftag_eqb tag_ix Nat.eqb with_fs with_log has_children
        existsb child_tags is_some orb andb negb srv_may_chmod srv_may_chown srv_root srv c_uid c_gid umask Z.eqb
        e_uid e_gid e_mode e_isdir] in f in change f with f' end;
  unfold final_ok, handed, allowed; cbn [srv c_uid c_gid client_files];
  (split; [reflexivity | split;
    [ intros t Ht; cbn [In] in Ht; repeat (destruct Ht as [<- | Ht]; [reflexivity |]); destruct Ht
    | intros t Ht Hn; destruct t; cbn [In] in Hn; try reflexivity; try congruence; exfalso; apply Hn; tauto ]]).
Qed.

Theorem fixed_final_state_global : forall en tr p l k,
  srv_root en = true -> p_decision p = 0 ->
  fsops (proj k l) = admission_ops Fixed tr p ->
  final_ok (srv en) (eff_auth p) tr (l_fs (run en w_empty l k)).
Proof.
  intros en tr p l k Hroot Hd H. rewrite run_proj, lrun_fs, frun_fsops, H. cbn [w_empty l_empty l_fs].
  apply fixed_final_state; assumption.
Qed.

(* both variants: when the server has finished with a peer (refused: after the admission; accepted: after the
   tear-down), nothing of the connection is left in the file system *)
Lemma script_leaves_nothing : forall en v tr p, srv_root en = true -> frun en [] (peer_script v tr p) = [].
Proof.
  intros en v tr p Hroot. destruct (root_env en Hroot) as [um [sg ->]].
  unfold peer_script, admission_ops. set (a := eff_auth p).
  destruct (p_decision p =? 0); destruct v; destruct tr; cbn [connect_ops ring_ops ctl_ops teardown_ops app];
  match goal with |- ?f = [] =>
    let f' := eval lazy beta iota zeta delta
       [frun fexec lexec l_fs l_chan l_log fst snd lookup set remove ftag_eqb tag_ix Nat.eqb with_fs with_log has_children
        existsb child_tags is_some orb andb negb srv_may_chmod srv_may_chown srv_root srv c_uid c_gid umask Z.eqb
        e_uid e_gid e_mode e_isdir] in f in change f with f' end; reflexivity.
Qed.
Theorem script_leaves_nothing_global : forall en v tr p l k,
  srv_root en = true -> fsops (proj k l) = peer_script v tr p -> l_fs (run en w_empty l k) = [].
Proof.
  intros en v tr p l k Hroot H. rewrite run_proj, lrun_fs, frun_fsops, H. cbn [w_empty l_empty l_fs].
  apply script_leaves_nothing, Hroot.
Qed.

Lemma ex_final_state :
  frun root_env_022 [] (admission_ops Fixed Sock peer_1000) =
  [(TCtl, mkE 1000 1000 m600 false); (TDir, mkE 1000 1000 m700 true)].
Proof. vm_compute. reflexivity. Qed.

(* ------------------------------------------------------------------ whose requests reach msg_process *)
Definition is_msg (ev : levent) : bool := match ev with EvMsg | EvMsgForeign => true | _ => false end.
Definition nmsg (l : list levent) : nat := length (filter is_msg l).
Definition is_peer_send (o : lop) : bool := match o with LPeerSend => true | _ => false end.
Definition npeer_sends (l : list lop) : nat := length (filter is_peer_send l).

Lemma nmsg_snoc l ev : nmsg (l ++ [ev]) = (nmsg l + (if is_msg ev then 1 else 0))%nat.
Proof. unfold nmsg. rewrite filter_app, app_length. cbn [filter]. destruct (is_msg ev); reflexivity. Qed.

Lemma lexec_nmsg en s o : foreign_blocked o = true ->
  (nmsg (l_log (fst (lexec en s o))) <= nmsg (l_log s) + (if is_peer_send o then 1 else 0))%nat /\
  (~ In EvMsgForeign (l_log s) -> ~ In EvMsgForeign (l_log (fst (lexec en s o)))).
Proof.
  intro Hb. destruct s as [f c lg].
  destruct o as [| t m | t m | t u g | t | | u g | e | | | | tr filt | cb];
    cbn [lexec l_fs l_chan l_log with_log with_fs fst is_peer_send];
    try (destruct tr; [| destruct filt; [| discriminate Hb]]; cbn [negb andb]; rewrite ?andb_false_r);
    repeat match goal with
           | |- context [match lookup ?t ?g with _ => _ end] => destruct (lookup t g)
           | |- context [if ?b then _ else _] => destruct b
           end;
    cbn [l_log fst with_log with_fs l_fs l_chan]; rewrite ?nmsg_snoc; cbn [is_msg];
    (split; [lia | intros Hn Hin; try (apply in_app_or in Hin; destruct Hin as [Hin | [Hin | []]]; [| discriminate Hin]);
                   exact (Hn Hin)]).
Qed.

Lemma lrun_nmsg en : forall l s, forallb foreign_blocked l = true ->
  (nmsg (l_log (lrun en s l)) <= nmsg (l_log s) + npeer_sends l)%nat /\
  (~ In EvMsgForeign (l_log s) -> ~ In EvMsgForeign (l_log (lrun en s l))).
Proof.
  induction l as [| o r IH]; intros s H.
  - cbn. split; [lia | auto].
  - cbn in H. apply andb_true_iff in H as [H1 H2]. cbn [lrun].
    destruct (lexec_nmsg en s o H1) as [A1 A2]. destruct (IH (fst (lexec en s o)) H2) as [B1 B2].
    split; [| auto]. unfold npeer_sends in *. cbn [filter]. destruct (is_peer_send o); cbn [length]; lia.
Qed.

(* any interleaving: if no foreign datagram can get through (shm, or the sender check is in place), msg_process is
   never invoked for a request that the connection's own peer did not send, and it is invoked at most once per request
   the peer did send *)
Theorem own_peer_only_global : forall en l k,
  forallb foreign_blocked (proj k l) = true ->
  ~ In EvMsgForeign (l_log (run en w_empty l k)) /\
  (nmsg (l_log (run en w_empty l k)) <= npeer_sends (proj k l))%nat.
Proof.
  intros en l k H. rewrite run_proj. destruct (lrun_nmsg en (proj k l) (w_empty k) H) as [A B].
  split; [apply B; cbn; auto | exact A].
Qed.

(* the socket transport without the sender check: an accepted peer that sends nothing, one datagram of another
   process, and msg_process runs *)
Definition foreign_witness : list lop := admission_ops Fixed Sock peer_1000 ++ [LForeign Sock false].
Lemma foreign_refuted :
  In EvMsgForeign (l_log (lrun root_env_022 l_empty foreign_witness)) /\ npeer_sends foreign_witness = 0%nat /\
  ~ In EvMsgForeign (l_log (lrun root_env_022 l_empty (admission_ops Fixed Sock peer_1000 ++ [LForeign Sock true]))) /\
  ~ In EvMsgForeign (l_log (lrun root_env_022 l_empty (admission_ops Fixed Shm peer_1000 ++ [LForeign Shm false]))).
Proof.
  split; [vm_compute; tauto |]. split; [reflexivity |].
  split; vm_compute; intuition discriminate.
Qed.

(* ------------------------------------------------------------------ a server that is not root *)
Local Opaque N.land N.ldiff N.lor N.shiftr dirmode m600 m700 m770.

Ltac eval_fs_nz t :=
  eval lazy beta iota zeta delta
       [fexec lexec l_fs l_chan l_log fst snd lookup set remove ftag_eqb tag_ix Nat.eqb with_fs with_log has_children
        existsb child_tags is_some srv_may_chmod srv_may_chown srv_root srv c_uid c_gid umask
        e_uid e_gid e_mode e_isdir] in t.
Ltac walk_nz tac post :=
  repeat match goal with
         | |- check_all _ _ _ [] => apply check_all_nil; tac
         | |- check_all _ _ _ (_ :: _) =>
             apply check_all_cons;
             [ tac
             | match goal with
               | |- check_all _ ?en (fexec ?en ?f ?o) _ =>
                   let f' := eval_fs_nz (fexec en f o) in change (fexec en f o) with f'; post
               end ]
         end.

(* a server that is NOT root, authorising ids that are its own (same-uid clients with the default authorisation, or
   auth_set(-1, -1, mode)): chown changes nothing and succeeds; the full statement holds *)
Lemma fixed_any_moment_one_nonroot : forall en tr p,
  keep (a_uid (eff_auth p)) (c_uid (srv en)) = c_uid (srv en) ->
  keep (a_gid (eff_auth p)) (c_gid (srv en)) = c_gid (srv en) ->
  check_all (all_entries (permitted (srv en) (authorised p))) en [] (peer_script Fixed tr p).
Proof.
  intros en tr p Hu Hg. destruct en as [um [su sg]]. cbn [srv c_uid c_gid] in Hu, Hg.
  unfold peer_script, admission_ops, authorised.
  set (a := eff_auth p) in *.
  destruct (p_decision p =? 0); destruct tr;
    cbn [connect_ops ring_ops ctl_ops teardown_ops app];
    walk_nz ltac:(unfold all_entries, permitted, private_to, handed_over, allowed; cbn [srv c_uid c_gid];
                  repeat (first [apply Forall_nil | apply Forall_cons]); cbn [snd e_uid e_gid e_mode e_isdir];
                  try first [ left; split; [reflexivity | solve_sub]
                            | right; exists a; split; [reflexivity | split; [symmetry; exact Hu | split;
                                [symmetry; exact Hg | solve_sub]]] ])
            ltac:(rewrite ?Hu, ?Hg, ?Z.eqb_refl; cbn [orb andb]; rewrite ?orb_true_r; cbn [orb andb]).
Qed.

Theorem fixed_any_moment_nonroot_global : forall en tr (ps : nat -> peer) l,
  (forall k, keep (a_uid (eff_auth (ps k))) (c_uid (srv en)) = c_uid (srv en) /\
             keep (a_gid (eff_auth (ps k))) (c_gid (srv en)) = c_gid (srv en)) ->
  (forall k, is_prefix (fsops (proj k l)) (peer_script Fixed tr (ps k))) ->
  forall k t e, lookup t (l_fs (run en w_empty l k)) = Some e -> permitted (srv en) (authorised (ps k)) e.
Proof.
  intros en tr ps l Hown Hpre.
  apply (any_moment_global (fun k => permitted (srv en) (authorised (ps k))) Fixed en tr ps); [| exact Hpre].
  intro k. destruct (Hown k). apply fixed_any_moment_one_nonroot; assumption.
Qed.

(* a non-root server authorising somebody else: chown fails with EPERM, which the code ignores (ipc_setup.c "(void)chown",
   ringbuffer.c qb_rb_chown "errno != EPERM", ipc_socket.c "ignore res"): the connection is accepted, the objects stay the
   server's and get the authorised mode - with 0660 the SERVER's group can read and write them, which nobody
   authorised; the authorised client itself cannot open them and its connect fails with EACCES *)
Definition nonroot_env : env := mkEnv 18%N (mkC 500 500).
Lemma nonroot_refuted :
  all_prefixes_ok nonroot_env Fixed Shm peer_auth_other = false /\
  lookup TReqD (frun nonroot_env [] (admission_ops Fixed Shm peer_auth_other)) = Some (mkE 500 500 432%N false) /\
  connect_result Shm peer_auth_other (lrun nonroot_env l_empty (admission_ops Fixed Shm peer_auth_other)) = - ADM_EACCES /\
  frun nonroot_env [] (peer_script Fixed Shm peer_auth_other) = [] /\
  all_prefixes_ok nonroot_env Fixed Shm (mkP (mkC 500 500) (mkC 500 500) 0 None false) = true.
Proof. vm_compute. repeat split. Qed.
