(* C15: the code AS FOUND (both switches off) violates "printing any file never crashes / stays in bounds / leaves no
   shm file": four witnesses, each computed by vm_compute and each replayed on the unchanged library
   (reports/bbfile.md; they stay in the corpus of props/C15.py).  The same files are harmless for the repaired code. *)
From Coq Require Import ZArith List Bool Lia.
Import ListNotations.
Require Import Verif.gen.Consts_rb Verif.gen.Consts_bbfile Verif.RbModel Verif.BbFileModel Verif.BbFileProofs Verif.BbFileRoundTrip.
Local Open Scope Z_scope.

Definition w32 := word_bytes.
Definition hdr5 (W wp rp : Z) : list Z :=
  w32 W ++ w32 wp ++ w32 rp ++ w32 RB_FILE_HEADER_VERSION ++ w32 ((W + wp + rp + RB_FILE_HEADER_VERSION) mod two32).
Definition pad (n : Z) (l : list Z) : list Z := l ++ repeat 0 (Z.to_nat n - length l).
Definition heapA : list Z := repeat 190 1024.      (* 0xbe, what ASan puts into fresh malloc memory *)

(* 1. a file that ends right after word_size: assert(n_read == sizeof(uint32_t)) *)
Definition wit_short : list Z := bb_marker ++ w32 1.

(* 2. read_pt = 3 * word_size, a chunk marker where (read_pt + 1) % word_size points: shared_data[read_pt] is read
      (and later cleared) 4096 bytes behind the 8192-byte ring mapping *)
Definition wit_readpt : list Z :=
  bb_marker ++ hdr5 1024 0 3072 ++ pad 4096 (w32 40 ++ w32 RB_CHUNK_MAGIC).

(* 3. one 1024-byte chunk: a plausible entry header, then no NUL up to the end of the chunk buffer: strlen runs off
      the malloc'ed buffer *)
Definition wit_unterminated_file : list Z :=
  bb_marker ++ hdr5 1024 258 0 ++
  pad 4096 (w32 1024 ++ w32 RB_CHUNK_MAGIC ++
            (w32 1 ++ w32 2 ++ [6] ++ w32 2 ++ [102; 0] ++ w64 1700000000 ++ w64 5 ++ w32 100) ++ repeat 65 (1024 - 35)).

(* 4. a well-formed entry whose decoded text fills message[]: the decoder returns 512, message[512] = 0 is a store
      one byte behind the array *)
Definition rec_hello : brec :=
  {| b_line := 10; b_tags := 3; b_prio := 6; b_fn := [102; 110]; b_sec := 1700000000; b_nsec := 123456789;
     b_msg := [104; 105; 0] |}.
Definition wit_valid : list Z :=
  bb_marker ++ hdr5 1024 (2 + (zlen (enc rec_hello) + 3) / 4) 0 ++
  pad 4096 (w32 (zlen (enc rec_hello)) ++ w32 RB_CHUNK_MAGIC ++ enc rec_hello).
Definition orc_full : list (list Z) := [repeat 65 511 ++ [0]].

Lemma refuted_short :
  out (print_from_file false false [] heapA [] 0 wit_short) = Fault Abort.
Proof. vm_compute. reflexivity. Qed.

Lemma refuted_readpt :
  let r := print_from_file false false [] heapA [] 0 wit_readpt in
  out r = Fault (OobRing 3072) /\ shm_left r = [0; 1].
Proof. vm_compute. split; reflexivity. Qed.

Lemma refuted_unterminated :
  let r := print_from_file false false [] heapA [] 0 wit_unterminated_file in
  out r = Fault (OobChunk 1024) /\ shm_left r = [0; 1].
Proof. vm_compute. split; reflexivity. Qed.

Lemma refuted_msg_index :
  let r := print_from_file false false orc_full heapA [] 0 wit_valid in
  out r = Fault (OobMsg 512) /\ shm_left r = [0; 1].
Proof. vm_compute. split; reflexivity. Qed.

(* each repair is needed on its own: with only the other one applied the witness still faults *)
Lemma refuted_readpt_needs_header_fix :
  out (print_from_file false true [] heapA [] 0 wit_readpt) = Fault (OobRing 3072).
Proof. vm_compute. reflexivity. Qed.
Lemma refuted_unterminated_needs_record_fix :
  out (print_from_file true false [] heapA [] 0 wit_unterminated_file) = Fault (OobChunk 1024).
Proof. vm_compute. reflexivity. Qed.

(* the repaired code on the same files: error results, nothing left *)
Lemma repaired_on_witnesses :
  out (print_from_file true true [] heapA [] 0 wit_short) = Ret (- BBF_EIO) /\
  out (print_from_file true true [] heapA [] 0 wit_readpt) = Ret (- BBF_EIO) /\
  out (print_from_file true true [] heapA [] 0 wit_unterminated_file) = Ret (- BBF_EIO) /\
  shm_left (print_from_file true true [] heapA [] 0 wit_unterminated_file) = [] /\
  records (print_from_file true true orc_full heapA [] 0 wit_valid) =
    [ERec 6 1700000000 123456789 [102; 110] 10 3 (repeat 65 511)].
Proof. vm_compute. repeat split; reflexivity. Qed.

(* the statement that is false of the code as found *)
Definition found_total : Prop :=
  forall orc heap0 stk errno0 f, Forall (fun buf => 1 <= zlen buf <= BBF_LOG_MAX_LEN /\ last buf 1 = 0) orc ->
  exists rc, out (print_from_file false false orc heap0 stk errno0 f) = Ret rc.

Theorem found_total_refuted : ~ found_total.
Proof.
  intro H. destruct (H [] heapA [] 0 wit_short (Forall_nil _)) as (rc & E).
  rewrite refuted_short in E. discriminate.
Qed.

(* non-vacuity of print_total: a decoder answer of full size satisfies the contract, and the run prints an entry *)
Lemma total_example :
  dec_ok orc_full /\
  records (print_from_file true true orc_full heapA [] 0 wit_valid) =
    [ERec 6 1700000000 123456789 [102; 110] 10 3 (repeat 65 511)].
Proof.
  split.
  - constructor; [|constructor]. unfold buf_ok. vm_compute. repeat split; intro H; discriminate H.
  - vm_compute. reflexivity.
Qed.

(* non-vacuity of the round trip: a blackbox ring (overwrite mode, 2 pages) that has wrapped - 100 entries of 137 bytes
   were logged, the oldest were overwritten - dumped by the writer model and printed: exactly the newest entries *)
Definition rec_k (k : Z) : brec :=
  {| b_line := 100 + k; b_tags := k; b_prio := k mod 8; b_fn := [102; 110; 65 + k mod 26]; b_sec := 1700000000 + k;
     b_nsec := 1000 * k; b_msg := repeat (97 + k mod 26) 99 ++ [0] |}.
Definition log_k (b : rb) (k : Z) : rb :=
  match alloc_commit b (zlen (enc (rec_k k)) - zlen (b_msg (rec_k k)) + BBF_LOG_MAX_LEN) (enc (rec_k k)) with
  | WRet b1 _ => b1 | WFuel => b end.
Definition ring100 : rb := fold_left log_k (map Z.of_nat (seq 0 100)) (rb_open 5000 false true).
Definition orc_k (k : Z) : list Z := repeat (97 + k mod 26) 99 ++ [0].

Lemma roundtrip_example :
  rpt ring100 = 1776 /\ wpt ring100 = 1652 /\
  (records (print_from_file true true (map orc_k (map Z.of_nat (seq 48 52))) heapA [] 0 (bb_dump ring100)) =
   map (fun k => ERec (k mod 8) (1700000000 + k) (1000 * k) [102; 110; 65 + k mod 26] (100 + k) k
                      (repeat (97 + k mod 26) 99)) (map Z.of_nat (seq 48 52))).
Proof. vm_compute. repeat split; congruence. Qed.
