(* C14 - list / buffer algebra used by the round-trip proof: takeZ / dropZ over appends, the exact content of a
   buffer after store / store_bytes, reading argument bytes back. *)
From Coq Require Import List ZArith Bool Lia.
Require Import Verif.gen.Consts_logfmt Verif.SerModel Verif.SerProofs.
Import ListNotations.
Open Scope Z_scope.

Lemma takeZ_nonpos : forall l k, k <= 0 -> takeZ k l = [].
Proof. destruct l; intros; cbn [takeZ]; [reflexivity|]. replace (k <=? 0) with true by (symmetry; apply Z.leb_le; lia). reflexivity. Qed.

Lemma dropZ_nonpos : forall l k, k <= 0 -> dropZ k l = l.
Proof. destruct l; intros; cbn [dropZ]; [reflexivity|]. replace (k <=? 0) with true by (symmetry; apply Z.leb_le; lia). reflexivity. Qed.

Lemma takeZ_cons_pos : forall x l k, 0 < k -> takeZ k (x :: l) = x :: takeZ (k - 1) l.
Proof. intros. cbn [takeZ]. replace (k <=? 0) with false by (symmetry; apply Z.leb_gt; lia). reflexivity. Qed.

Lemma dropZ_cons_pos : forall x l k, 0 < k -> dropZ k (x :: l) = dropZ (k - 1) l.
Proof. intros. cbn [dropZ]. replace (k <=? 0) with false by (symmetry; apply Z.leb_gt; lia). reflexivity. Qed.

Lemma takeZ_all : forall l k, zlen l <= k -> takeZ k l = l.
Proof.
  induction l as [|x t IH]; intros k H; [reflexivity|].
  rewrite zlen_cons in H. pose proof (zlen_nonneg _ t). rewrite takeZ_cons_pos by lia. rewrite IH by lia. reflexivity.
Qed.

Lemma dropZ_all : forall l k, zlen l <= k -> dropZ k l = [].
Proof.
  induction l as [|x t IH]; intros k H; [reflexivity|].
  rewrite zlen_cons in H. pose proof (zlen_nonneg _ t). rewrite dropZ_cons_pos by lia. apply IH. lia.
Qed.

Lemma takeZ_app_le : forall a b k, k <= zlen a -> takeZ k (a ++ b) = takeZ k a.
Proof.
  induction a as [|x t IH]; intros b k H.
  - change (zlen (@nil Z)) with 0 in H. rewrite !takeZ_nonpos by lia. reflexivity.
  - rewrite zlen_cons in H. cbn [app]. destruct (Z_le_gt_dec k 0).
    + rewrite !takeZ_nonpos by lia. reflexivity.
    + rewrite !takeZ_cons_pos by lia. rewrite IH by lia. reflexivity.
Qed.

Lemma takeZ_app_ge : forall a b k, zlen a <= k -> takeZ k (a ++ b) = a ++ takeZ (k - zlen a) b.
Proof.
  induction a as [|x t IH]; intros b k H.
  - change (zlen (@nil Z)) with 0. cbn [app]. rewrite Z.sub_0_r. reflexivity.
  - rewrite zlen_cons in *. pose proof (zlen_nonneg _ t). cbn [app]. rewrite takeZ_cons_pos by lia.
    rewrite IH by lia. replace (k - 1 - zlen t) with (k - (zlen t + 1)) by lia. reflexivity.
Qed.

Lemma dropZ_app_le : forall a b k, k <= zlen a -> dropZ k (a ++ b) = dropZ k a ++ b.
Proof.
  induction a as [|x t IH]; intros b k H.
  - change (zlen (@nil Z)) with 0 in H. cbn [app]. rewrite dropZ_nonpos by lia. reflexivity.
  - rewrite zlen_cons in H. cbn [app]. destruct (Z_le_gt_dec k 0).
    + rewrite !dropZ_nonpos by lia. reflexivity.
    + rewrite !dropZ_cons_pos by lia. apply IH. lia.
Qed.

Lemma dropZ_app_ge : forall a b k, zlen a <= k -> dropZ k (a ++ b) = dropZ (k - zlen a) b.
Proof.
  induction a as [|x t IH]; intros b k H.
  - change (zlen (@nil Z)) with 0. cbn [app]. rewrite Z.sub_0_r. reflexivity.
  - rewrite zlen_cons in *. pose proof (zlen_nonneg _ t). cbn [app]. rewrite dropZ_cons_pos by lia.
    rewrite IH by lia. replace (k - 1 - zlen t) with (k - (zlen t + 1)) by lia. reflexivity.
Qed.

Lemma takeZ_app_exact : forall a b, takeZ (zlen a) (a ++ b) = a.
Proof. intros. rewrite takeZ_app_le by lia. apply takeZ_all. lia. Qed.

Lemma dropZ_app_exact : forall a b, dropZ (zlen a) (a ++ b) = b.
Proof. intros. rewrite dropZ_app_ge by lia. rewrite Z.sub_diag. apply dropZ_nonpos. lia. Qed.

Lemma takeZ_dropZ : forall l k, takeZ k l ++ dropZ k l = l.
Proof.
  induction l as [|x t IH]; intros k; [reflexivity|].
  destruct (Z_le_gt_dec k 0).
  - rewrite takeZ_nonpos, dropZ_nonpos by lia. reflexivity.
  - rewrite takeZ_cons_pos, dropZ_cons_pos by lia. cbn [app]. rewrite IH. reflexivity.
Qed.

Lemma zlen_dropZ : forall l k, 0 <= k <= zlen l -> zlen (dropZ k l) = zlen l - k.
Proof.
  intros l k H. pose proof (takeZ_dropZ l k) as E. apply (f_equal (@zlen Z)) in E.
  rewrite zlen_app, zlen_takeZ in E. lia.
Qed.

Lemma dropZ_dropZ : forall l a b, 0 <= a -> 0 <= b -> dropZ a (dropZ b l) = dropZ (a + b) l.
Proof.
  induction l as [|x t IH]; intros a b Ha Hb; [destruct (a <=? 0); reflexivity|].
  destruct (Z.eq_dec b 0) as [->|].
  - rewrite (dropZ_nonpos (x :: t) 0) by lia. rewrite Z.add_0_r. reflexivity.
  - rewrite (dropZ_cons_pos x t b) by lia. rewrite (dropZ_cons_pos x t (a + b)) by lia.
    rewrite IH by lia. f_equal. lia.
Qed.

Lemma takeZ_takeZ : forall l a b, a <= b -> takeZ a (takeZ b l) = takeZ a l.
Proof.
  induction l as [|x t IH]; intros a b H; [destruct (b <=? 0); reflexivity|].
  destruct (Z_le_gt_dec a 0); [rewrite !takeZ_nonpos by lia; reflexivity|].
  rewrite (takeZ_cons_pos x t b) by lia. rewrite !takeZ_cons_pos by lia. rewrite IH by lia. reflexivity.
Qed.

(* ------------------------------------------------------------------ exact content after a store *)
Lemma upd_app : forall l i v, (i < length l)%nat -> upd l i v = firstn i l ++ v :: skipn (S i) l.
Proof.
  induction l as [|x t IH]; intros i v H; [cbn in H; lia|].
  destruct i; cbn [upd firstn skipn app]; [reflexivity|]. rewrite IH by (cbn in H; lia). reflexivity.
Qed.

Lemma takeZ_firstn : forall l k, 0 <= k -> takeZ k l = firstn (Z.to_nat k) l.
Proof.
  induction l as [|x t IH]; intros k H; [destruct (Z.to_nat k); reflexivity|].
  destruct (Z.eq_dec k 0) as [->|]; [reflexivity|].
  rewrite takeZ_cons_pos by lia. replace (Z.to_nat k) with (S (Z.to_nat (k - 1))) by lia.
  cbn [firstn]. rewrite IH by lia. reflexivity.
Qed.

Lemma dropZ_skipn : forall l k, 0 <= k -> dropZ k l = skipn (Z.to_nat k) l.
Proof.
  induction l as [|x t IH]; intros k H; [destruct (Z.to_nat k); reflexivity|].
  destruct (Z.eq_dec k 0) as [->|]; [reflexivity|].
  rewrite dropZ_cons_pos by lia. replace (Z.to_nat k) with (S (Z.to_nat (k - 1))) by lia.
  cbn [skipn]. apply IH. lia.
Qed.

Lemma store_spec : forall buf i v b, store buf i v = Some b -> b = takeZ i buf ++ v :: dropZ (i + 1) buf.
Proof.
  intros buf i v b H. apply store_inv in H. destruct H as [Hi [_ Hb]]. subst b.
  rewrite upd_app by (unfold zlen in Hi; lia).
  rewrite takeZ_firstn, dropZ_skipn by lia. replace (Z.to_nat (i + 1)) with (S (Z.to_nat i)) by lia. reflexivity.
Qed.

(* (a run of zero bytes may be "stored" anywhere; the in-range fact is stated for non-empty runs only) *)
Lemma store_bytes_spec : forall bs buf i b, store_bytes buf i bs = Some b -> 0 <= i ->
  b = takeZ i buf ++ bs ++ dropZ (i + zlen bs) buf /\ (bs <> [] -> i + zlen bs <= zlen buf).
Proof.
  induction bs as [|x t IH]; intros buf i b H Hi.
  - cbn in H. inversion H; subst. change (zlen (@nil Z)) with 0. rewrite Z.add_0_r. cbn [app].
    rewrite takeZ_dropZ. split; [reflexivity | congruence].
  - cbn [store_bytes] in H. destruct (store buf i x) as [b1|] eqn:E1; [|discriminate].
    pose proof (store_inv _ _ _ _ E1) as [Hr [L1 _]]. apply store_spec in E1.
    destruct (IH b1 (i + 1) b H ltac:(lia)) as [Eb Hin].
    pose proof (zlen_nonneg _ t) as Ht.
    assert (Hti : zlen (takeZ i buf) = i) by (rewrite zlen_takeZ; lia).
    split.
    + rewrite Eb, E1. rewrite zlen_cons.
      replace (takeZ (i + 1) (takeZ i buf ++ x :: dropZ (i + 1) buf)) with (takeZ i buf ++ [x]).
      2:{ rewrite takeZ_app_ge by lia. rewrite Hti. replace (i + 1 - i) with 1 by lia.
          rewrite takeZ_cons_pos by lia. rewrite (takeZ_nonpos _ (1 - 1)) by lia. reflexivity. }
      replace (dropZ (i + 1 + zlen t) (takeZ i buf ++ x :: dropZ (i + 1) buf)) with (dropZ (i + (zlen t + 1)) buf).
      2:{ rewrite dropZ_app_ge by lia. rewrite Hti. rewrite dropZ_cons_pos by lia.
          rewrite dropZ_dropZ by lia. f_equal. lia. }
      rewrite <- app_assoc. reflexivity.
    + intros _. rewrite zlen_cons. destruct t as [|y t'].
      * change (zlen (@nil Z)) with 0. lia.
      * specialize (Hin ltac:(congruence)). lia.
Qed.

(* reading bytes back *)
Lemma rd_dropZ : forall l i, 0 <= i -> rd l i = hd 0 (dropZ i l).
Proof. intros. unfold rd. replace (i <? 0) with false by (symmetry; apply Z.ltb_ge; lia). reflexivity. Qed.

Lemma rd_bytes_prefix : forall k l i bs rest, 0 <= i -> dropZ i l = bs ++ rest -> length bs = k -> rd_bytes l i k = bs.
Proof.
  induction k as [|k IH]; intros l i bs rest Hi E Hl.
  - destruct bs; [reflexivity | discriminate].
  - destruct bs as [|x t]; [discriminate|]. cbn [rd_bytes]. f_equal.
    + rewrite rd_dropZ by lia. rewrite E. reflexivity.
    + apply IH with (rest := rest); [lia | | cbn in Hl; lia].
      replace (i + 1) with (1 + i) by lia. rewrite <- dropZ_dropZ by lia. rewrite E. cbn [app].
      rewrite dropZ_cons_pos by lia. apply dropZ_nonpos. lia.
Qed.

Definition nonzero (l : list Z) : Prop := Forall (fun x => x <> 0) l.

Lemma cstr_app_nul : forall s rest, nonzero s -> cstr (s ++ 0 :: rest) = s.
Proof.
  induction s as [|x t IH]; intros rest H; [reflexivity|].
  inversion H; subst. cbn [app cstr]. replace (x =? 0) with false by (symmetry; apply Z.eqb_neq; assumption).
  rewrite IH by assumption. reflexivity.
Qed.

Lemma cstr_nonzero : forall l, nonzero (cstr l).
Proof.
  induction l as [|x t IH]; cbn [cstr]; [constructor|].
  destruct (x =? 0) eqn:E; [constructor|]. apply Z.eqb_neq in E. constructor; assumption.
Qed.

Lemma cstr_idem_nonzero : forall s, nonzero s -> cstr s = s.
Proof.
  induction s as [|x t IH]; intros H; [reflexivity|]. inversion H; subst. cbn [cstr].
  replace (x =? 0) with false by (symmetry; apply Z.eqb_neq; assumption). rewrite IH by assumption. reflexivity.
Qed.

Lemma nonzero_app : forall a b, nonzero a -> nonzero b -> nonzero (a ++ b).
Proof. intros. apply Forall_app. split; assumption. Qed.

Lemma nonzero_takeZ : forall l k, nonzero l -> nonzero (takeZ k l).
Proof.
  induction l as [|x t IH]; intros k H; [constructor|]. inversion H; subst. cbn [takeZ].
  destruct (k <=? 0); [constructor|]. constructor; [assumption | apply IH; assumption].
Qed.
