(* C16 - threaded logging (lib/log_thread.c, the thread-related parts of lib/log.c).  Models only, no proofs.

   PART A  sequential control-history model  run_ctl : bool -> list cop -> kst
           (orders of init / open / set-threaded / thread-start / ctl / close / log / fini / re-init;
            the worker thread is always quiescent between two calls).  Error state = a call locks
            logt_wthread_lock while it is NULL, or after qb_log_thread_stop destroyed it.
   PART B  interleaving model  exec : bool -> list nat -> cstate -> cstate
           (producers, the worker thread, a control thread; one micro-step per synchronisation
            operation, the granularity of the controlled scheduler harness/sched_rt.c).

   `fixed' selects the code being modelled:
     false = the code as found;
     true  = with fixes/C16-1-no-thread-no-lock.patch   (pause/resume/post when no logging thread exists),
                  fixes/C16-2-stop-resets-state.patch   (qb_log_thread_stop leaves the statics as at program start),
                  fixes/C16-3-exit-when-queue-empty.patch (worker exit test),
                  fixes/C16-4-close-pauses-worker.patch (qb_log_custom_close runs under pause/resume).  *)
From Coq Require Import ZArith List Bool.
Import ListNotations.
Require Import Verif.gen.Consts_logthr.
Local Open Scope Z_scope.

(* ================================================================================================
   PART A: control histories
   ================================================================================================ *)

Inductive tstate := TUnused | TDisabled | TEnabled.
Record tgt := { t_state : tstate; t_thr : bool }.          (* conf[pos].state, conf[pos].threaded *)
Inductive lockst := LNull | LLive | LFreed.                (* logt_wthread_lock: NULL / valid / dangling *)
Inductive cerr := ENullLock | EFreedLock.

(* targets are named by their index k among the dynamic slots: pos = QB_LOG_TARGET_DYNAMIC_START + k *)
Inductive cop :=
| KInit | KFini | KOpen | KClose (t : nat) | KEnable (t : nat) (b : bool) | KThreaded (t : nat) (b : bool)
| KCtl (t : nat)            (* any other qb_log_ctl (the harness uses QB_LOG_CONF_EXTENDED) *)
| KStart                    (* qb_log_thread_start *)
| KLog (m : Z).             (* a log call whose call site is selected by every open target *)

Inductive cev :=
| EvRc (rc : Z)
| EvWrite (t : nat) (m : Z) (by_thread : bool)   (* the target's logger callback; by_thread = called by the worker *)
| EvClose (t : nat).                             (* the target's close callback *)

Record kst := { k_inited : bool;            (* logger_inited *)
                k_tg : list tgt;            (* the dynamic slots of conf[] *)
                k_active : bool;            (* wthread_active *)
                k_flag : bool;              (* wthread_should_exit *)
                k_lock : lockst;
                k_err : option cerr }.

Definition NSLOT : nat := Z.to_nat (LOGT_TARGET_MAX - LOGT_DYN_START).

Definition kinit : kst :=
  {| k_inited := false; k_tg := repeat {| t_state := TUnused; t_thr := false |} NSLOT;
     k_active := false; k_flag := false; k_lock := LNull; k_err := None |}.

Definition is_enabled (t : tgt) : bool := match t_state t with TEnabled => true | _ => false end.
Definition is_unused (t : tgt) : bool := match t_state t with TUnused => true | _ => false end.

Fixpoint set_nth {A} (l : list A) (n : nat) (x : A) : list A :=
  match l, n with
  | [], _ => []
  | _ :: r, O => x :: r
  | a :: r, S n' => a :: set_nth r n' x
  end.

Fixpoint first_unused (k : nat) (l : list tgt) : option nat :=
  match l with
  | [] => None
  | t :: r => if is_unused t then Some k else first_unused (S k) r
  end.

(* logger invocations for message m on the enabled targets whose threaded flag is `thr', slot order *)
Fixpoint writes_from (k : nat) (l : list tgt) (thr : bool) (m : Z) (by_thread : bool) : list cev :=
  match l with
  | [] => []
  | t :: r => (if is_enabled t && Bool.eqb (t_thr t) thr then [EvWrite k m by_thread] else [])
              ++ writes_from (S k) r thr m by_thread
  end.

Fixpoint closes_from (k : nat) (l : list tgt) : list cev :=
  match l with
  | [] => []
  | t :: r => (if is_enabled t then [EvClose k] else []) ++ closes_from (S k) r
  end.

Definition with_state (t : tgt) (s : tstate) : tgt := {| t_state := s; t_thr := t_thr t |}.
Definition disable_all (l : list tgt) : list tgt :=
  map (fun t => if is_enabled t then with_state t TDisabled else t) l.

Definition use_lock (l : lockst) : option cerr :=
  match l with LNull => Some ENullLock | LFreed => Some EFreedLock | LLive => None end.

(* qb_log_thread_pause / _resume (they test the same things): does taking the lock go wrong? *)
Definition pause_err (fixed : bool) (s : kst) (t : tgt) : option cerr :=
  if t_thr t then
    match k_lock s with
    | LNull => if fixed then None else Some ENullLock
    | l => use_lock l
    end
  else None.

Definition kfail (s : kst) (e : cerr) : kst :=
  {| k_inited := k_inited s; k_tg := k_tg s; k_active := k_active s; k_flag := k_flag s;
     k_lock := k_lock s; k_err := Some e |}.

Definition kset_tg (s : kst) (tg : list tgt) : kst :=
  {| k_inited := k_inited s; k_tg := tg; k_active := k_active s; k_flag := k_flag s;
     k_lock := k_lock s; k_err := k_err s |}.

Definition lock_is_null (l : lockst) : bool := match l with LNull => true | _ => false end.

(* qb_log_thread_stop; the worker is quiescent (queue empty), so it exits on the stop post *)
Definition thread_stop (fixed : bool) (s : kst) : kst :=
  if negb (k_active s) && lock_is_null (k_lock s) then s
  else
    match use_lock (k_lock s) with      (* both branches lock it first (drain loop / flag section) *)
    | Some e => kfail s e
    | None =>
        if fixed then
          {| k_inited := k_inited s; k_tg := k_tg s; k_active := false; k_flag := false;
             k_lock := LNull; k_err := k_err s |}
        else
          {| k_inited := k_inited s; k_tg := k_tg s; k_active := k_active s;
             k_flag := if k_active s then true else k_flag s;
             k_lock := LFreed; k_err := k_err s |}
    end.

(* the checks at the head of qb_log_ctl2: -EINVAL, -EBADF, or the target *)
Definition ctl_target (s : kst) (t : nat) : Z + tgt :=
  if negb (k_inited s) then inl (- LOGT_EINVAL)
  else match nth_error (k_tg s) t with
       | None => inl (- LOGT_EBADF)
       | Some x => if is_unused x then inl (- LOGT_EBADF) else inr x
       end.

Definition kstep (fixed : bool) (s : kst) (o : cop) : kst * list cev :=
  match k_err s with
  | Some _ => (s, [])
  | None =>
  match o with
  | KInit =>                                   (* qb_log_init: every slot UNUSED; conf[i].threaded is NOT reset *)
      if k_inited s then (s, [])
      else ({| k_inited := true; k_tg := map (fun t => with_state t TUnused) (k_tg s);
               k_active := k_active s; k_flag := k_flag s; k_lock := k_lock s; k_err := None |}, [EvRc 0])
  | KFini =>                                   (* qb_log_fini: thread_stop, then disable every enabled target *)
      if negb (k_inited s) then (s, [EvRc 0])
      else
        let s1 := thread_stop fixed s in
        match k_err s1 with
        | Some _ => (s1, [])
        | None => ({| k_inited := false; k_tg := disable_all (k_tg s1); k_active := k_active s1;
                      k_flag := k_flag s1; k_lock := k_lock s1; k_err := None |},
                   closes_from 0 (k_tg s1) ++ [EvRc 0])
        end
  | KOpen =>                                   (* qb_log_custom_open = qb_log_target_alloc *)
      if negb (k_inited s) then (s, [])
      else match first_unused 0 (k_tg s) with
           | None => (s, [EvRc (- LOGT_EMFILE)])
           | Some k =>
               match nth_error (k_tg s) k with
               | Some x => (kset_tg s (set_nth (k_tg s) k (with_state x TDisabled)),
                            [EvRc (LOGT_DYN_START + Z.of_nat k)])
               | None => (s, [])
               end
           end
  | KClose t =>                                (* qb_log_custom_close *)
      if negb (k_inited s) then (s, [EvRc 0])
      else match nth_error (k_tg s) t with
           | None => (s, [EvRc 0])
           | Some x =>
               if is_unused x then (s, [EvRc 0])
               else match (if fixed then pause_err fixed s x else None) with
                    | Some e => (kfail s e, [])
                    | None => (kset_tg s (set_nth (k_tg s) t (with_state x TUnused)), [EvClose t; EvRc 0])
                    end
           end
  | KEnable t b =>
      match ctl_target s t with
      | inl rc => (s, [EvRc rc])
      | inr x =>
          match pause_err fixed s x with
          | Some e => (kfail s e, [])
          | None =>
              if b then (kset_tg s (set_nth (k_tg s) t (with_state x TEnabled)), [EvRc 0])
              else if is_enabled x then (kset_tg s (set_nth (k_tg s) t (with_state x TDisabled)), [EvClose t; EvRc 0])
              else (s, [EvRc 0])
          end
      end
  | KCtl t =>
      match ctl_target s t with
      | inl rc => (s, [EvRc rc])
      | inr x => match pause_err fixed s x with
                 | Some e => (kfail s e, [])
                 | None => (s, [EvRc 0])
                 end
      end
  | KThreaded t b =>                           (* QB_LOG_CONF_THREADED: no pause/resume *)
      match ctl_target s t with
      | inl rc => (s, [EvRc rc])
      | inr x => (kset_tg s (set_nth (k_tg s) t {| t_state := t_state x; t_thr := b |}), [EvRc 0])
      end
  | KStart =>                                  (* qb_log_thread_start *)
      if k_active s then (s, [EvRc 0])
      else ({| k_inited := k_inited s; k_tg := k_tg s; k_active := true; k_flag := k_flag s;
               k_lock := LLive; k_err := None |}, [EvRc 0])
  | KLog m =>                                  (* qb_log_real_va_ + qb_log_thread_log_post + the worker's write *)
      if negb (k_inited s) then (s, [])
      else
        let sync := writes_from 0 (k_tg s) false m false in
        if existsb (fun t => is_enabled t && t_thr t) (k_tg s) then
          match k_lock s with
          | LLive => (s, sync ++ writes_from 0 (k_tg s) true m true ++ [EvRc 0])
          | LNull => if fixed then (s, sync ++ writes_from 0 (k_tg s) true m false ++ [EvRc 0])
                     else (kfail s ENullLock, sync)
          | LFreed => (kfail s EFreedLock, sync)
          end
        else (s, sync ++ [EvRc 0])
  end
  end.

Fixpoint run_ctl_from (fixed : bool) (s : kst) (h : list cop) : kst * list cev :=
  match h with
  | [] => (s, [])
  | o :: r => let '(s1, e1) := kstep fixed s o in
              let '(s2, e2) := run_ctl_from fixed s1 r in (s2, e1 ++ e2)
  end.

Definition run_ctl (fixed : bool) (h : list cop) : kst := fst (run_ctl_from fixed kinit h).
Definition ctl_events (fixed : bool) (h : list cop) : list cev := snd (run_ctl_from fixed kinit h).
Definition is_error (s : kst) : bool := match k_err s with Some _ => true | None => false end.
