(* C16 - threaded logging (lib/log_thread.c, the thread-related parts of lib/log.c).  Models only, no proofs.

   PART A  sequential control-history model  run_ctl : bool -> list cop -> kst
           (orders of init / open / set-threaded / thread-start / ctl / close / log / fini / re-init;
            the worker thread is always quiescent between two calls).  Error state = a call locks
            logt_wthread_lock while it is NULL, or after qb_log_thread_stop destroyed it.
   PART B  interleaving model  exec : bool -> list nat -> cstate -> cstate
           (producers, the worker thread, a control thread; one micro-step per synchronisation
            operation, the granularity of the controlled scheduler harness/sched_rt.c).

   `fixed' selects the code being modelled:
     false = the code as found;
     true  = with fixes/C16-1-no-thread-no-lock.patch   (pause/resume/post when no logging thread exists),
                  fixes/C16-2-stop-resets-state.patch   (qb_log_thread_stop leaves the statics as at program start),
                  fixes/C16-3-exit-when-queue-empty.patch (worker exit test),
                  fixes/C16-4-close-pauses-worker.patch (qb_log_custom_close runs under pause/resume),
                  fixes/C16-5-in-logger-thread-local.patch (the in_logger guard of log.c is per thread).  *)
From Coq Require Import ZArith List Bool.
Import ListNotations.
Require Import Verif.gen.Consts_logthr.
Local Open Scope Z_scope.

(* ================================================================================================
   PART A: control histories
   ================================================================================================ *)

Inductive tstate := TUnused | TDisabled | TEnabled.
Record tgt := { t_state : tstate; t_thr : bool }.          (* conf[pos].state, conf[pos].threaded *)
Inductive lockst := LNull | LLive | LFreed.                (* logt_wthread_lock: NULL / valid / dangling *)
Inductive cerr := ENullLock | EFreedLock.

(* targets are named by their index k among the dynamic slots: pos = QB_LOG_TARGET_DYNAMIC_START + k *)
Inductive cop :=
| KInit | KFini | KOpen | KClose (t : nat) | KEnable (t : nat) (b : bool) | KThreaded (t : nat) (b : bool)
| KCtl (t : nat)            (* any other qb_log_ctl (the harness uses QB_LOG_CONF_EXTENDED) *)
| KStart                    (* qb_log_thread_start *)
| KLog (m : Z).             (* a log call whose call site is selected by every open target *)

Inductive cev :=
| EvRc (rc : Z)
| EvWrite (t : nat) (m : Z) (by_thread : bool)   (* the target's logger callback; by_thread = called by the worker *)
| EvClose (t : nat).                             (* the target's close callback *)

Record kst := { k_inited : bool;            (* logger_inited *)
                k_tg : list tgt;            (* the dynamic slots of conf[] *)
                k_active : bool;            (* wthread_active *)
                k_flag : bool;              (* wthread_should_exit *)
                k_lock : lockst;
                k_err : option cerr }.

Definition NSLOT : nat := Z.to_nat (LOGT_TARGET_MAX - LOGT_DYN_START).

Definition kinit : kst :=
  {| k_inited := false; k_tg := repeat {| t_state := TUnused; t_thr := false |} NSLOT;
     k_active := false; k_flag := false; k_lock := LNull; k_err := None |}.

Definition is_enabled (t : tgt) : bool := match t_state t with TEnabled => true | _ => false end.
Definition is_unused (t : tgt) : bool := match t_state t with TUnused => true | _ => false end.

Fixpoint set_nth {A} (l : list A) (n : nat) (x : A) : list A :=
  match l, n with
  | [], _ => []
  | _ :: r, O => x :: r
  | a :: r, S n' => a :: set_nth r n' x
  end.

Fixpoint first_unused (k : nat) (l : list tgt) : option nat :=
  match l with
  | [] => None
  | t :: r => if is_unused t then Some k else first_unused (S k) r
  end.

(* logger invocations for message m on the enabled targets whose threaded flag is `thr', slot order *)
Fixpoint writes_from (k : nat) (l : list tgt) (thr : bool) (m : Z) (by_thread : bool) : list cev :=
  match l with
  | [] => []
  | t :: r => (if is_enabled t && Bool.eqb (t_thr t) thr then [EvWrite k m by_thread] else [])
              ++ writes_from (S k) r thr m by_thread
  end.

Fixpoint closes_from (k : nat) (l : list tgt) : list cev :=
  match l with
  | [] => []
  | t :: r => (if is_enabled t then [EvClose k] else []) ++ closes_from (S k) r
  end.

Definition with_state (t : tgt) (s : tstate) : tgt := {| t_state := s; t_thr := t_thr t |}.
Definition disable_all (l : list tgt) : list tgt :=
  map (fun t => if is_enabled t then with_state t TDisabled else t) l.

Definition use_lock (l : lockst) : option cerr :=
  match l with LNull => Some ENullLock | LFreed => Some EFreedLock | LLive => None end.

(* qb_log_thread_pause / _resume (they test the same things): does taking the lock go wrong? *)
Definition pause_err (fixed : bool) (s : kst) (t : tgt) : option cerr :=
  if t_thr t then
    match k_lock s with
    | LNull => if fixed then None else Some ENullLock
    | l => use_lock l
    end
  else None.

Definition kfail (s : kst) (e : cerr) : kst :=
  {| k_inited := k_inited s; k_tg := k_tg s; k_active := k_active s; k_flag := k_flag s;
     k_lock := k_lock s; k_err := Some e |}.

Definition kset_tg (s : kst) (tg : list tgt) : kst :=
  {| k_inited := k_inited s; k_tg := tg; k_active := k_active s; k_flag := k_flag s;
     k_lock := k_lock s; k_err := k_err s |}.

Definition lock_is_null (l : lockst) : bool := match l with LNull => true | _ => false end.

(* qb_log_thread_stop; the worker is quiescent (queue empty), so it exits on the stop post *)
Definition thread_stop (fixed : bool) (s : kst) : kst :=
  if negb (k_active s) && lock_is_null (k_lock s) then s
  else
    match use_lock (k_lock s) with      (* both branches lock it first (drain loop / flag section) *)
    | Some e => kfail s e
    | None =>
        if fixed then
          {| k_inited := k_inited s; k_tg := k_tg s; k_active := false; k_flag := false;
             k_lock := LNull; k_err := k_err s |}
        else
          {| k_inited := k_inited s; k_tg := k_tg s; k_active := k_active s;
             k_flag := if k_active s then true else k_flag s;
             k_lock := LFreed; k_err := k_err s |}
    end.

(* the checks at the head of qb_log_ctl2: -EINVAL, -EBADF, or the target *)
Definition ctl_target (s : kst) (t : nat) : Z + tgt :=
  if negb (k_inited s) then inl (- LOGT_EINVAL)
  else match nth_error (k_tg s) t with
       | None => inl (- LOGT_EBADF)
       | Some x => if is_unused x then inl (- LOGT_EBADF) else inr x
       end.

Definition kstep (fixed : bool) (s : kst) (o : cop) : kst * list cev :=
  match k_err s with
  | Some _ => (s, [])
  | None =>
  match o with
  | KInit =>                                   (* qb_log_init: every slot UNUSED; conf[i].threaded is NOT reset *)
      if k_inited s then (s, [])
      else ({| k_inited := true; k_tg := map (fun t => with_state t TUnused) (k_tg s);
               k_active := k_active s; k_flag := k_flag s; k_lock := k_lock s; k_err := None |}, [EvRc 0])
  | KFini =>                                   (* qb_log_fini: thread_stop, then disable every enabled target *)
      if negb (k_inited s) then (s, [EvRc 0])
      else
        let s1 := thread_stop fixed s in
        match k_err s1 with
        | Some _ => (s1, [])
        | None => ({| k_inited := false; k_tg := disable_all (k_tg s1); k_active := k_active s1;
                      k_flag := k_flag s1; k_lock := k_lock s1; k_err := None |},
                   closes_from 0 (k_tg s1) ++ [EvRc 0])
        end
  | KOpen =>                                   (* qb_log_custom_open = qb_log_target_alloc *)
      if negb (k_inited s) then (s, [])
      else match first_unused 0 (k_tg s) with
           | None => (s, [EvRc (- LOGT_EMFILE)])
           | Some k =>
               match nth_error (k_tg s) k with
               | Some x => (kset_tg s (set_nth (k_tg s) k (with_state x TDisabled)),
                            [EvRc (LOGT_DYN_START + Z.of_nat k)])
               | None => (s, [])
               end
           end
  | KClose t =>                                (* qb_log_custom_close *)
      if negb (k_inited s) then (s, [EvRc 0])
      else match nth_error (k_tg s) t with
           | None => (s, [EvRc 0])
           | Some x =>
               if is_unused x then (s, [EvRc 0])
               else match (if fixed then pause_err fixed s x else None) with
                    | Some e => (kfail s e, [])
                    | None => (kset_tg s (set_nth (k_tg s) t (with_state x TUnused)), [EvClose t; EvRc 0])
                    end
           end
  | KEnable t b =>
      match ctl_target s t with
      | inl rc => (s, [EvRc rc])
      | inr x =>
          match pause_err fixed s x with
          | Some e => (kfail s e, [])
          | None =>
              if b then (kset_tg s (set_nth (k_tg s) t (with_state x TEnabled)), [EvRc 0])
              else if is_enabled x then (kset_tg s (set_nth (k_tg s) t (with_state x TDisabled)), [EvClose t; EvRc 0])
              else (s, [EvRc 0])
          end
      end
  | KCtl t =>
      match ctl_target s t with
      | inl rc => (s, [EvRc rc])
      | inr x => match pause_err fixed s x with
                 | Some e => (kfail s e, [])
                 | None => (s, [EvRc 0])
                 end
      end
  | KThreaded t b =>                           (* QB_LOG_CONF_THREADED: no pause/resume *)
      match ctl_target s t with
      | inl rc => (s, [EvRc rc])
      | inr x => (kset_tg s (set_nth (k_tg s) t {| t_state := t_state x; t_thr := b |}), [EvRc 0])
      end
  | KStart =>                                  (* qb_log_thread_start *)
      if k_active s then (s, [EvRc 0])
      else ({| k_inited := k_inited s; k_tg := k_tg s; k_active := true; k_flag := k_flag s;
               k_lock := LLive; k_err := None |}, [EvRc 0])
  | KLog m =>                                  (* qb_log_real_va_ + qb_log_thread_log_post + the worker's write *)
      if negb (k_inited s) then (s, [])
      else
        let sync := writes_from 0 (k_tg s) false m false in
        if existsb (fun t => is_enabled t && t_thr t) (k_tg s) then
          match k_lock s with
          | LLive => (s, sync ++ writes_from 0 (k_tg s) true m true ++ [EvRc 0])
          | LNull => if fixed then (s, sync ++ writes_from 0 (k_tg s) true m false ++ [EvRc 0])
                     else (kfail s ENullLock, sync)
          | LFreed => (kfail s EFreedLock, sync)
          end
        else (s, sync ++ [EvRc 0])
  end
  end.

Fixpoint run_ctl_from (fixed : bool) (s : kst) (h : list cop) : kst * list cev :=
  match h with
  | [] => (s, [])
  | o :: r => let '(s1, e1) := kstep fixed s o in
              let '(s2, e2) := run_ctl_from fixed s1 r in (s2, e1 ++ e2)
  end.

Definition run_ctl (fixed : bool) (h : list cop) : kst := fst (run_ctl_from fixed kinit h).
Definition ctl_events (fixed : bool) (h : list cop) : list cev := snd (run_ctl_from fixed kinit h).
Definition is_error (s : kst) : bool := match k_err s with Some _ => true | None => false end.

(* ================================================================================================
   PART B: interleavings of producers, the worker thread and a control thread
   ================================================================================================
   Initial state: logging system initialised, ONE custom target open, enabled, threaded, and
   qb_log_thread_start has returned (the worker is parked in its first sem_wait).
   Threads (schedule entries): 0 = control thread, 1 = worker, 2 + i = producer i.
   One micro-step = one synchronisation operation (lock, unlock, sem_post, sem_wait, sem_getvalue, join, exit) or
   harness yield point ("log" before each log call, "ctl" before each control call, "write" inside the
   target's logger callback) together with the thread-private code that follows it up to the next one -
   the granularity of harness/sched_rt.c.  Code between lock and unlock runs as one step (everything it
   touches is touched only under the lock; the harness checks that with tsan instrumentation), except that
   sem_getvalue and the logger callback are yield points of their own.
   qb_log_fini is only called after all producers were joined (logging concurrently with qb_log_fini is
   outside the API's contract: it destroys the lock the producers use). *)

Record msg := { m_tid : nat; m_seq : nat; m_len : Z }.
Definition msg_total (m : msg) : Z := LOGT_REC_SIZE + m_len m + 1.     (* sizeof(struct qb_log_record) + strlen + 1 *)
Fixpoint backlog (l : list msg) : Z := match l with [] => 0 | m :: r => msg_total m + backlog r end.

Inductive holder := HMain | HWorker | HProd (i : nat).
Inductive cerr2 := EPopEmpty                (* the worker took "the first record" of an empty list *)
                 | ECloseDuringWrite.       (* a target's close callback ran while the worker was inside its logger *)

Record shared := { lk : option holder;      (* holder of logt_wthread_lock *)
                   q : list msg;            (* logt_print_finished_records *)
                   mem : Z;                 (* logt_memory_used *)
                   drop : Z;                (* logt_dropped_messages *)
                   sem : Z;                 (* logt_print_finished *)
                   flag : bool;             (* wthread_should_exit *)
                   en : bool;               (* conf[t].state == ENABLED *)
                   closed : bool;           (* conf[t].state == UNUSED *)
                   inlog : bool }.          (* in_logger (log.c): process-wide re-entrancy guard *)

Record ghost := { plog : list (msg * bool * Z);   (* every record that entered the critical section of
                                                     qb_log_thread_log_post, oldest first: accepted?, bytes queued before *)
                  out : list (msg * bool);        (* records taken off the list by the worker, oldest first;
                                                     true = handed to the target's logger, false = target not enabled *)
                  reported : list Z;              (* the numbers printed as "%d messages lost" *)
                  guarded : list msg;             (* log calls turned away by the in_logger guard (silently) *)
                  skipped : list msg;             (* log calls made while the target was not enabled *)
                  closes : nat;                   (* invocations of the target's close callback *)
                  stopped : bool;                 (* qb_log_fini returned *)
                  err : option cerr2 }.

Definition set_lk (s : shared) (x : option holder) : shared :=
  {| lk := x; q := q s; mem := mem s; drop := drop s; sem := sem s; flag := flag s; en := en s; closed := closed s; inlog := inlog s |}.
Definition set_q (s : shared) (x : list msg) : shared :=
  {| lk := lk s; q := x; mem := mem s; drop := drop s; sem := sem s; flag := flag s; en := en s; closed := closed s; inlog := inlog s |}.
Definition set_mem (s : shared) (x : Z) : shared :=
  {| lk := lk s; q := q s; mem := x; drop := drop s; sem := sem s; flag := flag s; en := en s; closed := closed s; inlog := inlog s |}.
Definition set_drop (s : shared) (x : Z) : shared :=
  {| lk := lk s; q := q s; mem := mem s; drop := x; sem := sem s; flag := flag s; en := en s; closed := closed s; inlog := inlog s |}.
Definition set_sem (s : shared) (x : Z) : shared :=
  {| lk := lk s; q := q s; mem := mem s; drop := drop s; sem := x; flag := flag s; en := en s; closed := closed s; inlog := inlog s |}.
Definition set_flag (s : shared) (x : bool) : shared :=
  {| lk := lk s; q := q s; mem := mem s; drop := drop s; sem := sem s; flag := x; en := en s; closed := closed s; inlog := inlog s |}.
Definition set_en (s : shared) (x : bool) : shared :=
  {| lk := lk s; q := q s; mem := mem s; drop := drop s; sem := sem s; flag := flag s; en := x; closed := closed s; inlog := inlog s |}.
Definition set_closed (s : shared) (x : bool) : shared :=
  {| lk := lk s; q := q s; mem := mem s; drop := drop s; sem := sem s; flag := flag s; en := en s; closed := x; inlog := inlog s |}.
Definition set_inlog (s : shared) (x : bool) : shared :=
  {| lk := lk s; q := q s; mem := mem s; drop := drop s; sem := sem s; flag := flag s; en := en s; closed := closed s; inlog := x |}.

Definition add_plog (g : ghost) (x : msg * bool * Z) : ghost :=
  {| plog := plog g ++ [x]; out := out g; reported := reported g; guarded := guarded g; skipped := skipped g;
     closes := closes g; stopped := stopped g; err := err g |}.
Definition add_out (g : ghost) (x : msg * bool) : ghost :=
  {| plog := plog g; out := out g ++ [x]; reported := reported g; guarded := guarded g; skipped := skipped g;
     closes := closes g; stopped := stopped g; err := err g |}.
Definition add_reported (g : ghost) (x : Z) : ghost :=
  {| plog := plog g; out := out g; reported := reported g ++ [x]; guarded := guarded g; skipped := skipped g;
     closes := closes g; stopped := stopped g; err := err g |}.
Definition add_guarded (g : ghost) (x : msg) : ghost :=
  {| plog := plog g; out := out g; reported := reported g; guarded := guarded g ++ [x]; skipped := skipped g;
     closes := closes g; stopped := stopped g; err := err g |}.
Definition add_skipped (g : ghost) (x : msg) : ghost :=
  {| plog := plog g; out := out g; reported := reported g; guarded := guarded g; skipped := skipped g ++ [x];
     closes := closes g; stopped := stopped g; err := err g |}.
Definition set_err (g : ghost) (e : cerr2) : ghost :=
  {| plog := plog g; out := out g; reported := reported g; guarded := guarded g; skipped := skipped g;
     closes := closes g; stopped := stopped g; err := match err g with Some x => Some x | None => Some e end |}.
Definition set_stopped (g : ghost) : ghost :=
  {| plog := plog g; out := out g; reported := reported g; guarded := guarded g; skipped := skipped g;
     closes := closes g; stopped := true; err := err g |}.

Inductive ppc := PIdle                       (* at the "log" point before its next log call (finished when the program is empty) *)
               | PLock (m : msg)             (* in qb_log_thread_log_post, about to lock *)
               | PUnlock (m : msg) (acc : bool)
               | PPost (m : msg).            (* record appended, about to sem_post *)
Record prod := { p_prog : list Z;            (* lengths of the messages still to log *)
                 p_seq : nat;                (* number of log calls begun *)
                 p_pc : ppc }.

Inductive wpc := WWait | WLock | WGetval | WWrite (m : msg) | WUnlock | WUnlockExit | WExit | WDone.

Inductive mop := MCtl (b : bool)             (* qb_log_ctl(t, QB_LOG_CONF_ENABLED, b) *)
               | MClose                      (* qb_log_custom_close(t) *)
               | MStop.                      (* join every producer, then qb_log_fini *)
Inductive mpc := MIdle | MCtlLock (b : bool) | MCloseLock | MUnlock
               | MJoin (k : nat) | MStopLock | MStopUnlock | MStopPost | MStopJoin.

Inductive clabel := LbLog | LbCtl | LbLock | LbUnlock | LbPost | LbWait | LbGetval (v : Z) | LbWrite | LbExit
                  | LbJoinProd (k : nat) | LbJoinWorker.

Record cstate := { c_sh : shared; c_gh : ghost; c_w : wpc; c_mprog : list mop; c_m : mpc; c_prods : list prod }.

Definition cinit (mprog : list mop) (progs : list (list Z)) : cstate :=
  {| c_sh := {| lk := None; q := []; mem := 0; drop := 0; sem := 0; flag := false; en := true; closed := false; inlog := false |};
     c_gh := {| plog := []; out := []; reported := []; guarded := []; skipped := []; closes := 0; stopped := false; err := None |};
     c_w := WWait; c_mprog := mprog; c_m := MIdle;
     c_prods := map (fun p => {| p_prog := p; p_seq := 0; p_pc := PIdle |}) progs |}.

Definition lock_free (s : shared) : bool := match lk s with None => true | Some _ => false end.
Definition at_ppc (p : prod) (c : ppc) : prod := {| p_prog := p_prog p; p_seq := p_seq p; p_pc := c |}.
Definition prod_done (p : prod) : bool :=
  match p_pc p, p_prog p with PIdle, [] => true | _, _ => false end.

(* the decision core of qb_log_thread_log_post as one function (what prod_step's PLock step computes; tied to the
   translated C source in LogThrSrcEq.v): new logt_memory_used, new logt_dropped_messages, record accepted? *)
Definition post_decide (mem_used dropped len : Z) : Z * Z * bool :=
  let total := LOGT_REC_SIZE + len + 1 in
  if LOGT_LIMIT <? mem_used + total then (mem_used, dropped + 1, false) else (mem_used + total, dropped, true).

(* qb_log_thread_pause / _resume of the repaired code take the lock exactly when ... *)
Definition pause_takes_lock (t : tgt) (l : lockst) : bool := t_thr t && negb (lock_is_null l).

(* ---- producer i: qb_log_real_va_ -> qb_log_thread_log_post ---- *)
(* `inlog' is the process-wide in_logger of the code as found.  With fix 5 the flag is thread-local: a thread that
   begins a log call always finds its own flag clear, so the guard never turns a producer away (the field is then
   still written as before but read by nobody). *)
Definition prod_step (fixed : bool) (i : nat) (sh : shared) (gh : ghost) (p : prod) : option (shared * ghost * prod * clabel) :=
  match p_pc p with
  | PIdle =>
      match p_prog p with
      | [] => None
      | len :: rest =>
          let m := {| m_tid := i; m_seq := p_seq p; m_len := len |} in
          let p' c := {| p_prog := rest; p_seq := S (p_seq p); p_pc := c |} in
          if negb fixed && inlog sh then Some (sh, add_guarded gh m, p' PIdle, LbLog)   (* compare-and-exchange failed: return *)
          else if en sh then Some (set_inlog sh true, gh, p' (PLock m), LbLog)
          else Some (sh, add_skipped gh m, p' PIdle, LbLog)                       (* no enabled target: in_logger set and cleared *)
      end
  | PLock m =>
      if lock_free sh then
        let used := mem sh + msg_total m in
        if LOGT_LIMIT <? used then
          Some (set_lk (set_drop sh (drop sh + 1)) (Some (HProd i)), add_plog gh (m, false, backlog (q sh)),
                at_ppc p (PUnlock m false), LbLock)
        else
          Some (set_lk (set_q (set_mem sh used) (q sh ++ [m])) (Some (HProd i)), add_plog gh (m, true, backlog (q sh)),
                at_ppc p (PUnlock m true), LbLock)
      else None
  | PUnlock m acc =>
      if acc then Some (set_lk sh None, gh, at_ppc p (PPost m), LbUnlock)
      else Some (set_inlog (set_lk sh None) false, gh, at_ppc p PIdle, LbUnlock)
  | PPost m => Some (set_inlog (set_sem sh (sem sh + 1)) false, gh, at_ppc p PIdle, LbPost)
  end.

(* ---- worker: qb_logt_worker_thread ---- *)
Definition is_nil {A} (l : list A) : bool := match l with [] => true | _ => false end.

(* rec = first entry; list_del; memory accounting; "messages lost" report; qb_log_thread_log_write *)
Definition pop_section (sh : shared) (gh : ghost) : shared * ghost * wpc :=
  match q sh with
  | [] => (sh, set_err gh EPopEmpty, WUnlock)
  | m :: r =>
      let sh1 := set_q (set_mem sh (mem sh - msg_total m)) r in
      let sh2 := if drop sh =? 0 then sh1 else set_drop sh1 0 in
      let gh2 := if drop sh =? 0 then gh else add_reported gh (drop sh) in
      if en sh then (sh2, gh2, WWrite m) else (sh2, add_out gh2 (m, false), WUnlock)
  end.

Definition worker_step (fixed : bool) (sh : shared) (gh : ghost) (w : wpc) : option (shared * ghost * wpc * clabel) :=
  match w with
  | WWait => if 0 <? sem sh then Some (set_sem sh (sem sh - 1), gh, WLock, LbWait) else None
  | WLock =>
      if lock_free sh then
        let sh1 := set_lk sh (Some HWorker) in
        if fixed then
          if flag sh && is_nil (q sh) then Some (sh1, gh, WUnlockExit, LbLock)
          else let '(sh2, gh2, c) := pop_section sh1 gh in Some (sh2, gh2, c, LbLock)
        else
          if flag sh then Some (sh1, gh, WGetval, LbLock)
          else let '(sh2, gh2, c) := pop_section sh1 gh in Some (sh2, gh2, c, LbLock)
      else None
  | WGetval =>
      if sem sh =? 0 then Some (sh, gh, WUnlockExit, LbGetval (sem sh))
      else let '(sh2, gh2, c) := pop_section sh gh in Some (sh2, gh2, c, LbGetval (sem sh))
  | WWrite m => Some (sh, add_out gh (m, true), WUnlock, LbWrite)
  | WUnlock => Some (set_lk sh None, gh, WWait, LbUnlock)
  | WUnlockExit => Some (set_lk sh None, gh, WExit, LbUnlock)
  | WExit => Some (sh, gh, WDone, LbExit)
  | WDone => None
  end.

(* ---- control thread ---- *)
Definition in_write (w : wpc) : bool := match w with WWrite _ => true | _ => false end.

(* the target's close callback is invoked (log.c brackets it with in_logger = TRUE / FALSE) *)
Definition close_cb (sh : shared) (gh : ghost) (w : wpc) : shared * ghost :=
  let g1 := {| plog := plog gh; out := out gh; reported := reported gh; guarded := guarded gh; skipped := skipped gh;
               closes := S (closes gh); stopped := stopped gh; err := err gh |} in
  (set_inlog sh false, if in_write w then set_err g1 ECloseDuringWrite else g1).

Definition nth_done (l : list prod) (k : nat) : bool :=
  match nth_error l k with Some p => prod_done p | None => true end.

Definition main_step (fixed : bool) (s : cstate) : option (cstate * clabel) :=
  let sh := c_sh s in let gh := c_gh s in
  let mk sh' gh' prog' c' := {| c_sh := sh'; c_gh := gh'; c_w := c_w s; c_mprog := prog'; c_m := c'; c_prods := c_prods s |} in
  match c_m s with
  | MIdle =>
      match c_mprog s with
      | [] => None
      | MCtl b :: rest =>
          if closed sh then Some (mk sh gh rest MIdle, LbCtl)                (* -EBADF *)
          else Some (mk sh gh rest (MCtlLock b), LbCtl)                      (* qb_log_thread_pause *)
      | MClose :: rest =>
          if closed sh then Some (mk sh gh rest MIdle, LbCtl)
          else if fixed then Some (mk sh gh rest MCloseLock, LbCtl)
          else let '(sh1, gh1) := close_cb sh gh (c_w s) in                   (* as found: no pause *)
               Some (mk (set_closed (set_en sh1 false) true) gh1 rest MIdle, LbCtl)
      | MStop :: _ =>
          match c_prods s with
          | [] => Some (mk sh gh [] MStopLock, LbCtl)
          | _ => Some (mk sh gh [] (MJoin 0), LbCtl)
          end
      end
  | MCtlLock b =>
      if lock_free sh then
        let sh1 := set_lk sh (Some HMain) in
        if b then Some (mk (set_en sh1 true) gh (c_mprog s) MUnlock, LbLock)
        else if en sh then let '(sh2, gh2) := close_cb (set_en sh1 false) gh (c_w s) in
                           Some (mk sh2 gh2 (c_mprog s) MUnlock, LbLock)
        else Some (mk sh1 gh (c_mprog s) MUnlock, LbLock)
      else None
  | MCloseLock =>
      if lock_free sh then
        let '(sh2, gh2) := close_cb (set_lk sh (Some HMain)) gh (c_w s) in
        Some (mk (set_closed (set_en sh2 false) true) gh2 (c_mprog s) MUnlock, LbLock)
      else None
  | MUnlock => Some (mk (set_lk sh None) gh (c_mprog s) MIdle, LbUnlock)
  | MJoin k =>
      if nth_done (c_prods s) k then
        Some (mk sh gh (c_mprog s) (if Nat.ltb (S k) (length (c_prods s)) then MJoin (S k) else MStopLock), LbJoinProd k)
      else None
  | MStopLock =>                                   (* qb_log_thread_stop *)
      if lock_free sh then Some (mk (set_flag (set_lk sh (Some HMain)) true) gh (c_mprog s) MStopUnlock, LbLock) else None
  | MStopUnlock => Some (mk (set_lk sh None) gh (c_mprog s) MStopPost, LbUnlock)
  | MStopPost => Some (mk (set_sem sh (sem sh + 1)) gh (c_mprog s) MStopJoin, LbPost)
  | MStopJoin =>
      match c_w s with
      | WDone =>                                   (* joined; lock and semaphores destroyed; targets disabled *)
          if en sh then let '(sh2, gh2) := close_cb (set_en sh false) gh (c_w s) in
                        Some (mk sh2 (set_stopped gh2) (c_mprog s) MIdle, LbJoinWorker)
          else Some (mk sh (set_stopped gh) (c_mprog s) MIdle, LbJoinWorker)
      | _ => None
      end
  end.

Fixpoint upd_prod (l : list prod) (n : nat) (x : prod) : list prod :=
  match l, n with
  | [], _ => []
  | _ :: r, O => x :: r
  | a :: r, S n' => a :: upd_prod r n' x
  end.

(* one schedule entry; None = that thread is blocked or finished *)
Definition cstep (fixed : bool) (s : cstate) (tid : nat) : option (cstate * clabel) :=
  match tid with
  | O => main_step fixed s
  | S O =>
      match worker_step fixed (c_sh s) (c_gh s) (c_w s) with
      | Some (sh, gh, w, l) =>
          Some ({| c_sh := sh; c_gh := gh; c_w := w; c_mprog := c_mprog s; c_m := c_m s; c_prods := c_prods s |}, l)
      | None => None
      end
  | S (S i) =>
      match nth_error (c_prods s) i with
      | None => None
      | Some p =>
          match prod_step fixed i (c_sh s) (c_gh s) p with
          | Some (sh, gh, p', l) =>
              Some ({| c_sh := sh; c_gh := gh; c_w := c_w s; c_mprog := c_mprog s; c_m := c_m s;
                       c_prods := upd_prod (c_prods s) i p' |}, l)
          | None => None
          end
      end
  end.

Definition cstep' (fixed : bool) (s : cstate) (tid : nat) : cstate :=
  match cstep fixed s tid with Some (s', _) => s' | None => s end.

Definition exec (fixed : bool) (sched : list nat) (s : cstate) : cstate := fold_left (cstep' fixed) sched s.

(* ---- observables the theorems speak about ---- *)
Definition accepted (g : ghost) : list msg := map (fun x => fst (fst x)) (filter (fun x => snd (fst x)) (plog g)).
Definition dropped (g : ghost) : list msg := map (fun x => fst (fst x)) (filter (fun x => negb (snd (fst x))) (plog g)).
Definition popped (g : ghost) : list msg := map fst (out g).
Definition written (g : ghost) : list msg := map fst (filter snd (out g)).
Definition inflight (w : wpc) : list msg := match w with WWrite m => [m] | _ => [] end.
Definition c_error (s : cstate) : bool := match err (c_gh s) with Some _ => true | None => false end.
Definition all_done (s : cstate) : bool :=
  forallb prod_done (c_prods s) && match c_m s, c_mprog s with MIdle, [] => true | _, _ => false end &&
  match c_w s with WDone => true | _ => false end.
