(* C20: history-level theorems on top of the invariant (HdbProofs.v):
   destructor exactly when the count reaches zero, the reference-count equation,
   rejection of stale handles forever (under freshness of check words), handles resolve to
   their own object, iteration visits exactly the undestroyed objects. *)
From Coq Require Import ZArith List Bool Lia.
Require Import Verif.gen.Consts_hdb Verif.HdbModel Verif.HdbProofs.
Import ListNotations.
Local Open Scope Z_scope.

(* ------------------------------------------------------------------ *)
(* A. the destructor runs exactly when a put/destroy takes the count from 1 to 0 *)

Definition expected_dtor (d : hdb) (o : op) : option Z :=
  match o with
  | Put h | Destroy h =>
      match lookup d h with
      | Some (_, s) => if s_ref s =? 1 then Some (s_inst s) else None
      | None => None
      end
  | _ => None
  end.

Lemma handle_count_set_slot d i s : handle_count (set_slot d i s) = handle_count d.
Proof. unfold handle_count, set_slot; simpl. rewrite upd_length; auto. Qed.

Lemma lookup_after_mark d h i s s' :
  lookup d h = Some (i, s) -> s_state s' <> HDB_STATE_EMPTY -> s_check s' = s_check s ->
  lookup (set_slot d i s') h = Some (i, s').
Proof.
  intros L Hs Hc. pose proof (lookup_some _ _ _ _ L) as (Hi & H0 & Hn & Hne & Hchk).
  unfold lookup in *. rewrite handle_count_set_slot.
  destruct (handle_count d <=? idx_of h); [discriminate|].
  subst i. unfold nth_slot in *. destruct (idx_of h <? 0); [discriminate|].
  simpl. rewrite nth_upd_same by (apply nth_error_Some; congruence).
  apply Z.eqb_neq in Hs. rewrite Hs.
  rewrite Hn in L. destruct (s_state s =? HDB_STATE_EMPTY); [discriminate|].
  unfold check_ok in *. rewrite Hc. destruct ((check_of h =? NOCHECK) || (check_of h =? s_check s)); [auto|discriminate].
Qed.

Lemma dlog_drop_ref d i s :
  dlog (drop_ref d i s) = if s_ref s =? 1 then s_inst s :: dlog d else dlog d.
Proof.
  unfold drop_ref. replace (s_ref s - 1 =? 0) with (s_ref s =? 1).
  - destruct (s_ref s =? 1); reflexivity.
  - destruct (Z.eqb_spec (s_ref s) 1); destruct (Z.eqb_spec (s_ref s - 1) 0); auto; lia.
Qed.

Lemma dlog_get d h : dlog (fst (fst (do_get d h))) = dlog d.
Proof. destruct (do_get_cases d h) as [->|(s & _ & _ & _ & _ & ->)]; reflexivity. Qed.

Lemma dlog_iter_loop fuel : forall d r, dlog (fst (iter_loop fuel d r)) = dlog d.
Proof.
  induction fuel as [|f IH]; intros d r; simpl; auto.
  destruct (iter d <? handle_count d); simpl; auto.
  destruct (nth_slot d (iter d)) as [s|]; simpl; auto.
  pose proof (dlog_get d (mk_handle (s_check s) (iter d))) as G.
  destruct (do_get d (mk_handle (s_check s) (iter d))) as [[d1 r1] inst]. simpl in G.
  destruct (r1 =? 0); simpl; auto. rewrite IH. simpl. auto.
Qed.

Theorem dtor_exact d o :
  dlog (fst (step d o)) = match expected_dtor d o with Some x => x :: dlog d | None => dlog d end.
Proof.
  destruct o; unfold step, expected_dtor.
  - unfold do_create. destruct (find_empty (slots d) 0); simpl; auto.
    destruct (HDB_ARRAY_MAX_ELEMENTS <? handle_count d + 1); reflexivity.
  - unfold do_create_fail. destruct (find_empty (slots d) 0) as [i0|]; simpl.
    + destruct (nth_error (slots d) (Z.to_nat i0)); reflexivity.
    + destruct (HDB_ARRAY_MAX_ELEMENTS <? handle_count d + 1); reflexivity.
  - pose proof (dlog_get d h). destruct (do_get d h) as [[d' r] inst]; auto.
  - unfold do_put. destruct (lookup d h) as [[i s]|]; simpl; auto.
    rewrite dlog_drop_ref. destruct (s_ref s =? 1); auto.
  - unfold do_destroy. destruct (lookup d h) as [[i s]|] eqn:L; simpl; auto.
    unfold do_put.
    erewrite lookup_after_mark; eauto; simpl; [|apply st_pending_ne_empty].
    rewrite dlog_drop_ref. simpl. destruct (s_ref s =? 1); auto.
  - reflexivity.
  - reflexivity.
  - apply dlog_iter_loop.
Qed.

(* ------------------------------------------------------------------ *)
(* B. reference-count equation: count = 1 (create) + gets - puts - destroys *)

Definition contrib (s : slot) (x : Z) : Z :=
  if negb (s_state s =? HDB_STATE_EMPTY) && (s_inst s =? x) then s_ref s else 0.

Fixpoint refs_in (l : list slot) (x : Z) : Z :=
  match l with [] => 0 | s :: t => contrib s x + refs_in t x end.

Lemma refs_in_upd l i s s' x :
  nth_error l i = Some s -> refs_in (upd l i s') x = refs_in l x - contrib s x + contrib s' x.
Proof.
  revert i; induction l as [|a l IH]; intros [|i] H; simpl in *; try discriminate.
  - inversion H; subst. lia.
  - rewrite (IH _ H). lia.
Qed.

Lemma refs_in_app l s x : refs_in (l ++ [s]) x = refs_in l x + contrib s x.
Proof. induction l as [|a l IH]; simpl; lia. Qed.

Lemma contrib_zero_slot x : contrib zero_slot x = 0.
Proof. reflexivity. Qed.

Lemma contrib_empty s x : s_state s = HDB_STATE_EMPTY -> contrib s x = 0.
Proof. intros H; unfold contrib. rewrite H, Z.eqb_refl. reflexivity. Qed.

(* references gained by instance x in this step: read off the operation and its OUTPUT *)
Definition gained (d : hdb) (o : op) (r : out) (x : Z) : Z :=
  match o, r with
  | Create _, ORes 0 _ => if next_inst d =? x then 1 else 0      (* the "one" of a new object *)
  | Get _, ORes 0 inst => if inst =? x then 1 else 0
  | IterNext, OIter 0 inst _ => if inst =? x then 1 else 0
  | _, _ => 0
  end.

(* references dropped: the instance a successful put / destroy resolves to *)
Definition dropped (d : hdb) (o : op) (x : Z) : Z :=
  match o with
  | Put h | Destroy h =>
      match lookup d h with Some (_, s) => if s_inst s =? x then 1 else 0 | None => 0 end
  | _ => 0
  end.

Lemma refs_drop_ref d i s x :
  nth_error (slots d) (Z.to_nat i) = Some s -> nonempty s -> 1 <= s_ref s ->
  refs_in (slots (drop_ref d i s)) x = refs_in (slots d) x - (if s_inst s =? x then 1 else 0).
Proof.
  intros Hn Hne Hr. unfold drop_ref. unfold nonempty in Hne. apply Z.eqb_neq in Hne.
  destruct (Z.eqb_spec (s_ref s - 1) 0); simpl.
  - rewrite (refs_in_upd _ _ s) by auto. rewrite contrib_zero_slot. unfold contrib. rewrite Hne. simpl.
    destruct (s_inst s =? x); lia.
  - rewrite (refs_in_upd _ _ s) by auto. unfold contrib; simpl. rewrite Hne. simpl.
    destruct (s_inst s =? x); lia.
Qed.

Lemma refs_get d h x :
  let '(d', r, inst) := do_get d h in
  refs_in (slots d') x = refs_in (slots d) x + (if r =? 0 then (if inst =? x then 1 else 0) else 0).
Proof.
  destruct (do_get_cases d h) as [->|(s & H0 & Hn & Hs & _ & ->)].
  - replace (- HDB_EBADF =? 0) with false by reflexivity. lia.
  - simpl. rewrite (refs_in_upd _ _ s) by auto. unfold contrib; simpl.
    rewrite Hs. replace (HDB_STATE_ACTIVE =? HDB_STATE_EMPTY) with false by reflexivity. simpl.
    destruct (s_inst s =? x); lia.
Qed.

Lemma refs_iter_loop fuel : forall d r0 x, r0 <> 0 ->
  let '(d', o) := iter_loop fuel d r0 in
  refs_in (slots d') x = refs_in (slots d) x + gained d IterNext o x.
Proof.
  induction fuel as [|f IH]; intros d r0 x Hr0; simpl.
  - destruct r0; try lia; simpl; lia.
  - destruct (iter d <? handle_count d); [|destruct r0; try lia; simpl; lia].
    destruct (nth_slot d (iter d)) as [s|]; [|destruct r0; try lia; simpl; lia].
    pose proof (refs_get d (mk_handle (s_check s) (iter d)) x) as G.
    destruct (do_get d (mk_handle (s_check s) (iter d))) as [[d1 r1] inst].
    destruct (Z.eqb_spec r1 0) as [->|Hne].
    + simpl. simpl in G. lia.
    + specialize (IH {| slots := slots d1; iter := iter d1 + 1; next_inst := next_inst d1; dlog := dlog d1 |} r1 x Hne).
      destruct (iter_loop f _ r1) as [d' o]. simpl in IH. rewrite IH.
      replace (r1 =? 0) with false in G by (symmetry; apply Z.eqb_neq; auto).
      rewrite G. unfold gained. lia.
Qed.

Theorem ref_accounting d o x :
  Inv d ->
  let '(d', r) := step d o in
  refs_in (slots d') x = refs_in (slots d) x + gained d o r x - dropped d o x.
Proof.
  intros I. destruct o; unfold step, dropped.
  - unfold do_create. destruct (find_empty (slots d) 0) as [i|] eqn:E.
    + apply find_empty_spec in E. destruct E as (H0 & s & Hn & Hs). rewrite Z.sub_0_r in Hn.
      simpl. rewrite (refs_in_upd _ _ s) by auto. rewrite (contrib_empty s) by auto.
      unfold contrib; simpl. replace (HDB_STATE_ACTIVE =? HDB_STATE_EMPTY) with false by reflexivity. simpl.
      destruct (next_inst d =? x); lia.
    + destruct (HDB_ARRAY_MAX_ELEMENTS <? handle_count d + 1).
      * simpl. replace (- HDB_EINVAL) with (-22) by reflexivity. lia.
      * simpl. rewrite refs_in_app. unfold contrib; simpl.
        replace (HDB_STATE_ACTIVE =? HDB_STATE_EMPTY) with false by reflexivity. simpl.
        destruct (next_inst d =? x); lia.
  - unfold do_create_fail. destruct (find_empty (slots d) 0) as [i|] eqn:E.
    + apply find_empty_spec in E. destruct E as (H0 & s & Hn & Hs). rewrite Z.sub_0_r in Hn.
      rewrite Hn. simpl. rewrite (refs_in_upd _ _ s) by auto. rewrite (contrib_empty s) by auto.
      rewrite contrib_empty by (simpl; auto). replace (- HDB_ENOMEM) with (-12) by reflexivity. lia.
    + destruct (HDB_ARRAY_MAX_ELEMENTS <? handle_count d + 1); simpl.
      * replace (- HDB_EINVAL) with (-22) by reflexivity. lia.
      * rewrite refs_in_app, contrib_zero_slot. replace (- HDB_ENOMEM) with (-12) by reflexivity. lia.
  - pose proof (refs_get d h x) as G. destruct (do_get d h) as [[d' r] inst].
    unfold gained. destruct r; simpl in *; lia.
  - unfold do_put. destruct (lookup d h) as [[i s]|] eqn:L; simpl.
    + apply lookup_some in L. destruct L as (_ & _ & Hn & Hne & _).
      destruct (slot_ok_nonempty _ _ (inv_slots d I _ _ Hn) Hne) as (_ & Hr & _).
      rewrite refs_drop_ref by auto. lia.
    + replace (- HDB_EBADF) with (-9) by reflexivity. lia.
  - unfold do_destroy. destruct (lookup d h) as [[i s]|] eqn:L; simpl.
    + pose proof (lookup_some _ _ _ _ L) as (_ & _ & Hn & Hne & _).
      destruct (slot_ok_nonempty _ _ (inv_slots d I _ _ Hn) Hne) as (_ & Hr & _).
      unfold do_put. erewrite lookup_after_mark; eauto; simpl; [|apply st_pending_ne_empty].
      set (s' := {| s_state := HDB_STATE_PENDINGREMOVAL; s_check := s_check s; s_ref := s_ref s; s_inst := s_inst s |}).
      assert (Hn' : nth_error (slots (set_slot d i s')) (Z.to_nat i) = Some s').
      { simpl. apply nth_upd_same. apply nth_error_Some; congruence. }
      rewrite (refs_drop_ref _ _ s') by (auto; unfold nonempty; simpl; apply st_pending_ne_empty).
      simpl. rewrite (refs_in_upd _ _ s) by auto. unfold contrib; simpl.
      unfold nonempty in Hne. apply Z.eqb_neq in Hne. rewrite Hne.
      replace (HDB_STATE_PENDINGREMOVAL =? HDB_STATE_EMPTY) with false by reflexivity. simpl.
      destruct (s_inst s =? x); lia.
    + replace (- HDB_EBADF) with (-9) by reflexivity. lia.
  - simpl. set (r := do_refcount d h). destruct r; simpl; lia.
  - simpl. lia.
  - pose proof (refs_iter_loop (S (length (slots d))) d (-1) x) as G.
    destruct (iter_loop (S (length (slots d))) d (-1)) as [d' o]. rewrite G by lia. lia.
Qed.

(* the whole history: sum of gains minus drops *)
Fixpoint net (d : hdb) (ops : list op) (x : Z) : Z :=
  match ops with
  | [] => 0
  | o :: t => let '(d1, r) := step d o in gained d o r x - dropped d o x + net d1 t x
  end.

Theorem refcount_equation : forall ops d x, Inv d ->
  refs_in (slots (fst (run d ops))) x = refs_in (slots d) x + net d ops x.
Proof.
  induction ops as [|o ops IH]; intros d x I; simpl; [lia|].
  pose proof (ref_accounting d o x I) as A. pose proof (inv_step d o I) as Is.
  destruct (step d o) as [d1 r]. simpl in Is. specialize (IH d1 x Is).
  destruct (run d1 ops) as [d2 xs]. simpl in *. lia.
Qed.

Corollary refcount_equation_init : forall ops x,
  refs_in (slots (fst (run hdb_init ops))) x = net hdb_init ops x.
Proof. intros. rewrite refcount_equation by apply inv_init. reflexivity. Qed.

(* what refcount_get reports IS that sum: the resolved slot is the only one holding its instance *)
Lemma refs_in_unique : forall l i s,
  nth_error l i = Some s -> nonempty s ->
  (forall j t, nth_error l j = Some t -> nonempty t -> s_inst t = s_inst s -> j = i) ->
  refs_in l (s_inst s) = s_ref s.
Proof.
  induction l as [|a l IH]; intros i s Hn Hne U; [destruct i; discriminate|].
  destruct i; simpl in *.
  - inversion Hn; subst a. unfold contrib. unfold nonempty in Hne. apply Z.eqb_neq in Hne. rewrite Hne, Z.eqb_refl. simpl.
    assert (Z : forall m, refs_in m (s_inst s) = 0 \/ exists j t, nth_error m j = Some t /\ nonempty t /\ s_inst t = s_inst s).
    { induction m as [|b m IHm]; simpl; auto. unfold contrib at 1.
      destruct (Z.eqb_spec (s_state b) HDB_STATE_EMPTY); simpl.
      - destruct IHm as [->|(j & t & A & B & C)]; auto. right; exists (S j), t; auto.
      - destruct (Z.eqb_spec (s_inst b) (s_inst s)).
        + right. exists O, b; simpl; auto.
        + destruct IHm as [->|(j & t & A & B & C)]; auto. right; exists (S j), t; auto. }
    destruct (Z l) as [->|(j & t & A & B & C)]; [lia|].
    specialize (U (S j) t A B C). discriminate.
  - unfold contrib.
    destruct (Z.eqb_spec (s_state a) HDB_STATE_EMPTY); simpl.
    + apply (IH i); auto. intros j t A B C. specialize (U (S j) t A B C). lia.
    + destruct (Z.eqb_spec (s_inst a) (s_inst s)).
      * specialize (U O a eq_refl n e). discriminate.
      * apply (IH i); auto. intros j t A B C. specialize (U (S j) t A B C). lia.
Qed.

Theorem refcount_reported d h i s :
  Inv d -> lookup d h = Some (i, s) -> do_refcount d h = refs_in (slots d) (s_inst s).
Proof.
  intros I L. unfold do_refcount. rewrite L.
  apply lookup_some in L. destruct L as (_ & _ & Hn & Hne & _).
  symmetry. eapply refs_in_unique; eauto.
  intros j t A B C. eapply (inv_uniq d I); eauto.
Qed.

(* ------------------------------------------------------------------ *)
(* C. stale handles are rejected for ever, even when the slot is reused (freshness of check words) *)

Definition slot_dead (c : Z) (s : slot) : Prop := s_state s = HDB_STATE_EMPTY \/ s_check s <> c.

Definition all_dead_at (c : Z) (k : nat) (l : list slot) : Prop :=
  forall s, nth_error l k = Some s -> slot_dead c s.

(* the slot the handle names (if any) is EMPTY or carries another check word; the no-check
   form of a handle is excluded: it names whatever lives in the slot, by design of the API *)
Definition dead_for (h : Z) (d : hdb) : Prop :=
  check_of h <> NOCHECK /\
  (0 <= idx_of h -> all_dead_at (check_of h) (Z.to_nat (idx_of h)) (slots d)).

Definition op_on (h : Z) (o : op) : Prop := o = Get h \/ o = Put h \/ o = Destroy h \/ o = Refcount h.

Lemma dead_lookup h d : dead_for h d -> lookup d h = None.
Proof.
  intros [Hn Hd]. destruct (lookup d h) as [[i s]|] eqn:L; auto. exfalso.
  apply lookup_some in L. destruct L as (Hi & H0 & Hnth & Hne & Hc). subst i.
  destruct (Hd H0 s Hnth) as [H|H]; [apply Hne; auto|]. destruct Hc; congruence.
Qed.

Lemma dead_get h d : dead_for h d -> do_get d h = (d, - HDB_EBADF, 0).
Proof.
  intros [Hn Hd]. destruct (do_get_cases d h) as [->|(s & H0 & Hnth & Hs & Hc & _)]; auto.
  exfalso. destruct (Hd H0 s Hnth) as [H|H].
  - rewrite Hs in H. revert H. apply st_active_ne_empty.
  - destruct Hc; congruence.
Qed.

Theorem stale_rejected_now h d o :
  dead_for h d -> op_on h o -> step d o = (d, ORes (- HDB_EBADF) 0).
Proof.
  intros D [-> | [-> | [-> | ->]]]; unfold step.
  - rewrite dead_get; auto.
  - unfold do_put. rewrite dead_lookup; auto.
  - unfold do_destroy. rewrite dead_lookup; auto.
  - unfold do_refcount. rewrite dead_lookup; auto.
Qed.

Lemma all_dead_upd c k l i s' :
  all_dead_at c k l -> (i = k -> slot_dead c s') -> all_dead_at c k (upd l i s').
Proof.
  intros A H s Hn. rewrite nth_upd in Hn. destruct (Nat.eqb_spec i k).
  - destruct (Nat.ltb i (length l)); inversion Hn; subst; auto.
  - apply A; auto.
Qed.

Lemma zero_slot_dead c : slot_dead c zero_slot.
Proof. left. unfold zero_slot; simpl. symmetry; apply st_empty_zero. Qed.

Lemma dead_drop_ref c k d i s :
  all_dead_at c k (slots d) -> nth_error (slots d) (Z.to_nat i) = Some s -> nonempty s ->
  all_dead_at c k (slots (drop_ref d i s)).
Proof.
  intros A Hn Hne. unfold drop_ref. destruct (s_ref s - 1 =? 0); simpl.
  - apply all_dead_upd; auto. intros _. apply zero_slot_dead.
  - apply all_dead_upd; auto. intros <-. destruct (A s Hn) as [H|H]; [contradiction|]. right; simpl; auto.
Qed.

Lemma dead_put c k d h : all_dead_at c k (slots d) -> all_dead_at c k (slots (fst (do_put d h))).
Proof.
  intros A. unfold do_put. destruct (lookup d h) as [[i s]|] eqn:L; simpl; auto.
  apply lookup_some in L. destruct L as (_ & _ & Hn & Hne & _). apply dead_drop_ref; auto.
Qed.

Lemma dead_get_pres c k d h : all_dead_at c k (slots d) -> all_dead_at c k (slots (fst (fst (do_get d h)))).
Proof.
  intros A. destruct (do_get_cases d h) as [->|(s & H0 & Hn & Hs & _ & ->)]; simpl; auto.
  apply all_dead_upd; auto. intros <-. destruct (A s Hn) as [H|H].
  - exfalso. rewrite Hs in H. revert H. apply st_active_ne_empty.
  - right; simpl; auto.
Qed.

Lemma dead_iter_loop c k fuel : forall d r,
  all_dead_at c k (slots d) -> all_dead_at c k (slots (fst (iter_loop fuel d r))).
Proof.
  induction fuel as [|f IH]; intros d r A; simpl; auto.
  destruct (iter d <? handle_count d); simpl; auto.
  destruct (nth_slot d (iter d)) as [s|]; simpl; auto.
  pose proof (dead_get_pres c k d (mk_handle (s_check s) (iter d)) A) as G.
  destruct (do_get d (mk_handle (s_check s) (iter d))) as [[d1 r1] inst]. simpl in G.
  destruct (r1 =? 0); simpl; auto.
Qed.

Lemma dead_step c k d o :
  all_dead_at c k (slots d) -> o <> Create c -> all_dead_at c k (slots (fst (step d o))).
Proof.
  intros A Hc. destruct o; unfold step.
  - assert (Hne : chk <> c) by congruence.
    unfold do_create. destruct (find_empty (slots d) 0) as [i|]; simpl.
    + apply all_dead_upd; auto. intros _. right; simpl; auto.
    + destruct (HDB_ARRAY_MAX_ELEMENTS <? handle_count d + 1); simpl; auto.
      intros s Hn. rewrite nth_app_new in Hn. destruct (Nat.eqb k (length (slots d))).
      * inversion Hn; subst. right; simpl; auto.
      * apply A; auto.
  - unfold do_create_fail. destruct (find_empty (slots d) 0) as [i|] eqn:E; simpl.
    + apply find_empty_spec in E. destruct E as (H0 & s & Hn & Hs). rewrite Z.sub_0_r in Hn.
      rewrite Hn. simpl. apply all_dead_upd; auto. intros _. left; simpl; auto.
    + destruct (HDB_ARRAY_MAX_ELEMENTS <? handle_count d + 1); simpl; auto.
      intros s Hn. rewrite nth_app_new in Hn. destruct (Nat.eqb k (length (slots d))).
      * inversion Hn; subst. apply zero_slot_dead.
      * apply A; auto.
  - pose proof (dead_get_pres c k d h A). destruct (do_get d h) as [[d' r] inst]; auto.
  - pose proof (dead_put c k d h A). destruct (do_put d h); auto.
  - unfold do_destroy. destruct (lookup d h) as [[i s]|] eqn:L; simpl; auto.
    apply lookup_some in L. destruct L as (_ & _ & Hn & Hne & _).
    set (d1 := set_slot d i _).
    pose proof (dead_put c k d1 h) as P.
    destruct (do_put d1 h) as [d' r]. simpl in *. apply P. subst d1. simpl.
    apply all_dead_upd; auto. intros <-. destruct (A s Hn) as [H|H]; [contradiction|]. right; simpl; auto.
  - auto.
  - auto.
  - apply dead_iter_loop; auto.
Qed.

Lemma dead_for_step h d o : dead_for h d -> o <> Create (check_of h) -> dead_for h (fst (step d o)).
Proof. intros [Hn Hd] Hc. split; auto. intros H0. apply dead_step; auto. Qed.

(* outputs of the operations on h in a run *)
Fixpoint outs_on (h : Z) (d : hdb) (ops : list op) : list out :=
  match ops with
  | [] => []
  | o :: t => let '(d1, r) := step d o in
              match o with
              | Get g | Put g | Destroy g | Refcount g => if g =? h then r :: outs_on h d1 t else outs_on h d1 t
              | _ => outs_on h d1 t
              end
  end.

Theorem stale_rejected_forever : forall ops h d,
  dead_for h d -> (forall o, In o ops -> o <> Create (check_of h)) ->
  dead_for h (fst (run d ops)) /\ Forall (fun r => r = ORes (- HDB_EBADF) 0) (outs_on h d ops).
Proof.
  induction ops as [|o ops IH]; intros h d D F; simpl; [split; auto|].
  assert (D1 : dead_for h (fst (step d o))) by (apply dead_for_step; auto; apply F; left; auto).
  assert (R : op_on h o -> step d o = (d, ORes (- HDB_EBADF) 0)) by (apply stale_rejected_now; auto).
  destruct (step d o) as [d1 r] eqn:E. simpl in D1.
  destruct (IH h d1 D1 (fun o' Hin => F o' (or_intror Hin))) as [IH1 IH2].
  destruct (run d1 ops) as [d2 xs]. simpl in *. split; auto.
  destruct o; auto; destruct (Z.eqb_spec h0 h); auto; subst h0; constructor; auto.
  - assert (X : (d1, r) = (d, ORes (- HDB_EBADF) 0)) by (apply R; left; auto). inversion X; auto.
  - assert (X : (d1, r) = (d, ORes (- HDB_EBADF) 0)) by (apply R; right; left; auto). inversion X; auto.
  - assert (X : (d1, r) = (d, ORes (- HDB_EBADF) 0)) by (apply R; right; right; left; auto). inversion X; auto.
  - assert (X : (d1, r) = (d, ORes (- HDB_EBADF) 0)) by (apply R; right; right; right; auto). inversion X; auto.
Qed.

(* the last put/destroy makes the handle dead *)
Theorem last_put_kills h d i s :
  lookup d h = Some (i, s) -> s_ref s = 1 -> check_of h <> NOCHECK ->
  dead_for h (fst (do_put d h)) /\ dead_for h (fst (do_destroy d h)).
Proof.
  intros L R Hn. pose proof (lookup_some _ _ _ _ L) as (Hi & H0 & Hnth & Hne & Hc).
  assert (K : forall d' s', lookup d' h = Some (i, s') -> s_ref s' = 1 -> dead_for h (fst (do_put d' h))).
  { intros d' s' L' R'. unfold do_put. rewrite L'. simpl. unfold drop_ref. rewrite R'. simpl.
    split; auto. intros _ t Ht. rewrite <- Hi in Ht.
    apply lookup_some in L'. destruct L' as (_ & _ & Hn' & _).
    simpl in Ht. rewrite nth_upd_same in Ht by (apply nth_error_Some; congruence). inversion Ht. apply zero_slot_dead. }
  split; [eapply K; eauto|].
  unfold do_destroy. rewrite L. eapply K.
  - eapply lookup_after_mark; eauto; simpl; auto. apply st_pending_ne_empty.
  - simpl; auto.
Qed.

(* ------------------------------------------------------------------ *)
(* D. a handle resolves to the object it was created for, until that object is destroyed *)

Lemma to_i32_small x : 0 <= x < two31 -> to_i32 x = x.
Proof.
  intros H. unfold to_i32. unfold two31, two32 in *.
  rewrite Z.mod_small by lia. destruct (x <? 2147483648) eqn:E; auto. apply Z.ltb_ge in E. lia.
Qed.

Lemma mk_handle_split chk i :
  0 <= chk < two31 -> 0 <= i < two31 -> check_of (mk_handle chk i) = chk /\ idx_of (mk_handle chk i) = i.
Proof.
  intros Hc Hi. unfold check_of, idx_of, mk_handle. unfold two31, two32 in *.
  rewrite (Z.mod_small chk) by lia.
  replace ((chk * 4294967296 + i) / 4294967296) with chk by (apply Z.div_unique with i; lia).
  replace ((chk * 4294967296 + i) mod 4294967296) with i by (apply Z.mod_unique with chk; lia).
  split; apply to_i32_small; unfold two31; lia.
Qed.

(* h "owns" instance x: its slot is non-empty, carries h's check word and holds x *)
Definition owns (d : hdb) (h x : Z) : Prop :=
  0 <= idx_of h /\ exists s, nth_error (slots d) (Z.to_nat (idx_of h)) = Some s /\
                             nonempty s /\ s_check s = check_of h /\ s_inst s = x.

Theorem create_owns d chk d' h :
  Inv d -> 0 <= chk < two31 -> do_create d chk = (d', ORes 0 h) -> owns d' h (next_inst d).
Proof.
  intros I Hc E. unfold do_create in E.
  assert (Hmax : HDB_ARRAY_MAX_ELEMENTS <= two31) by (unfold HDB_ARRAY_MAX_ELEMENTS, two31; lia).
  pose proof (inv_len d I) as Hlen.
  destruct (find_empty (slots d) 0) as [i|] eqn:F.
  - inversion E; subst. apply find_empty_spec in F. destruct F as (H0 & s & Hn & _). rewrite Z.sub_0_r in Hn.
    assert (Hi : 0 <= i < two31).
    { split; auto. assert (Z.to_nat i < length (slots d))%nat by (apply nth_error_Some; congruence). lia. }
    destruct (mk_handle_split chk i Hc Hi) as [A B]. unfold owns. rewrite A, B. split; [lia|].
    eexists; split; [simpl; apply nth_upd_same; apply nth_error_Some; congruence|].
    repeat split; simpl; auto. apply st_active_ne_empty.
  - destruct (HDB_ARRAY_MAX_ELEMENTS <? handle_count d + 1) eqn:M; [inversion E; subst; discriminate|].
    inversion E; subst. apply Z.ltb_ge in M. unfold handle_count in *.
    assert (Hi : 0 <= Z.of_nat (length (slots d)) < two31) by lia.
    destruct (mk_handle_split chk _ Hc Hi) as [A B]. unfold owns. rewrite A, B. split; [lia|].
    eexists; split; [simpl; rewrite nth_app_new; rewrite Nat2Z.id, Nat.eqb_refl; reflexivity|].
    repeat split; simpl; auto. apply st_active_ne_empty.
Qed.

(* while h owns x: get returns x if the object was not destroyed, and refuses after destroy *)
Theorem owns_get d h x :
  owns d h x ->
  forall s, nth_error (slots d) (Z.to_nat (idx_of h)) = Some s ->
  (s_state s = HDB_STATE_ACTIVE -> snd (fst (do_get d h)) = 0 /\ snd (do_get d h) = x) /\
  (s_state s <> HDB_STATE_ACTIVE -> do_get d h = (d, - HDB_EBADF, 0)).
Proof.
  intros (H0 & s0 & Hn0 & Hne & Hc & Hx) s Hn. rewrite Hn in Hn0. inversion Hn0; subst s0.
  assert (Hlt : (Z.to_nat (idx_of h) < length (slots d))%nat) by (apply nth_error_Some; congruence).
  unfold do_get. unfold handle_count.
  replace (Z.of_nat (length (slots d)) <=? idx_of h) with false by (symmetry; apply Z.leb_gt; lia).
  unfold nth_slot. replace (idx_of h <? 0) with false by (symmetry; apply Z.ltb_ge; lia).
  rewrite Hn. split; intros Hs.
  - rewrite Hs, Z.eqb_refl. simpl. unfold check_ok. rewrite Hc, Z.eqb_refl, orb_true_r. simpl. auto.
  - apply Z.eqb_neq in Hs. rewrite Hs. reflexivity.
Qed.

(* every step either keeps the ownership or runs the destructor for x *)
Theorem owns_step d h x o :
  Inv d -> owns d h x -> owns (fst (step d o)) h x \/ In x (dlog (fst (step d o))).
Proof.
  intros I (H0 & s & Hn & Hne & Hc & Hx).
  assert (Hlt : (Z.to_nat (idx_of h) < length (slots d))%nat) by (apply nth_error_Some; congruence).
  assert (KEEP : forall d', dlog d' = dlog d \/ True ->
            (exists s', nth_error (slots d') (Z.to_nat (idx_of h)) = Some s' /\ nonempty s' /\ s_check s' = s_check s /\ s_inst s' = s_inst s) ->
            owns d' h x).
  { intros d' _ (s' & A & B & C & D). split; auto. exists s'. repeat split; auto; congruence. }
  (* generic facts about updating slot j with a slot that keeps check+inst and stays non-empty *)
  assert (UPD : forall j t t', nth_error (slots d) j = Some t -> nonempty t' -> s_check t' = s_check t -> s_inst t' = s_inst t ->
            exists s', nth_error (upd (slots d) j t') (Z.to_nat (idx_of h)) = Some s' /\ nonempty s' /\ s_check s' = s_check s /\ s_inst s' = s_inst s).
  { intros j t t' Hj Ht' Hc' Hi'. rewrite nth_upd. destruct (Nat.eqb_spec j (Z.to_nat (idx_of h))).
    - subst j. rewrite Hn in Hj. inversion Hj; subst t. apply Nat.ltb_lt in Hlt. rewrite Hlt. exists t'; auto.
    - exists s; auto. }
  destruct o; unfold step.
  - (* create: only touches an EMPTY slot or appends *)
    left. unfold do_create. destruct (find_empty (slots d) 0) as [i|] eqn:F.
    + apply find_empty_spec in F. destruct F as (Hi0 & t & Ht & Hst). rewrite Z.sub_0_r in Ht.
      apply KEEP; auto. simpl. rewrite nth_upd. destruct (Nat.eqb_spec (Z.to_nat i) (Z.to_nat (idx_of h))).
      * rewrite e in Ht. rewrite Hn in Ht. inversion Ht; subst t. contradiction.
      * exists s; auto.
    + destruct (HDB_ARRAY_MAX_ELEMENTS <? handle_count d + 1); simpl.
      * split; auto. exists s; auto.
      * apply KEEP; auto. simpl. rewrite nth_error_app1 by auto. exists s; auto.
  - (* failed create: only touches an EMPTY slot or appends an EMPTY one *)
    left. unfold do_create_fail. destruct (find_empty (slots d) 0) as [i|] eqn:F.
    + apply find_empty_spec in F. destruct F as (Hi0 & t & Ht & Hst). rewrite Z.sub_0_r in Ht.
      rewrite Ht. apply KEEP; auto. simpl. rewrite nth_upd. destruct (Nat.eqb_spec (Z.to_nat i) (Z.to_nat (idx_of h))).
      * rewrite e in Ht. rewrite Hn in Ht. inversion Ht; subst t. contradiction.
      * exists s; auto.
    + destruct (HDB_ARRAY_MAX_ELEMENTS <? handle_count d + 1); simpl.
      * split; auto. exists s; auto.
      * apply KEEP; auto. simpl. rewrite nth_error_app1 by auto. exists s; auto.
  - left. destruct (do_get_cases d h0) as [E|(t & Ht0 & Ht & Hst & _ & E)]; rewrite E; simpl.
    + split; auto. exists s; auto.
    + apply KEEP; auto. simpl. apply (UPD _ t); simpl; auto. unfold nonempty; simpl. rewrite Hst. apply st_active_ne_empty.
  - unfold do_put. destruct (lookup d h0) as [[i t]|] eqn:L; simpl; [|left; split; auto; exists s; auto].
    apply lookup_some in L. destruct L as (_ & _ & Ht & Htne & _).
    unfold drop_ref. destruct (s_ref t - 1 =? 0); simpl.
    + destruct (Nat.eqb_spec (Z.to_nat i) (Z.to_nat (idx_of h))).
      * right. left. rewrite e in Ht. rewrite Hn in Ht. inversion Ht; subst; auto.
      * left. apply KEEP; auto. simpl. rewrite nth_upd_other by auto. exists s; auto.
    + left. apply KEEP; auto. simpl. apply (UPD _ t); simpl; auto.
  - unfold do_destroy. destruct (lookup d h0) as [[i t]|] eqn:L; simpl; [|left; split; auto; exists s; auto].
    pose proof (lookup_some _ _ _ _ L) as (_ & _ & Ht & Htne & _).
    unfold do_put. erewrite lookup_after_mark; eauto; simpl; [|apply st_pending_ne_empty].
    unfold drop_ref; simpl. destruct (s_ref t - 1 =? 0); simpl.
    + destruct (Nat.eqb_spec (Z.to_nat i) (Z.to_nat (idx_of h))).
      * right. left. rewrite e in Ht. rewrite Hn in Ht. inversion Ht; subst; auto.
      * left. apply KEEP; auto. simpl. rewrite nth_upd_other by auto. rewrite nth_upd_other by auto. exists s; auto.
    + left. apply KEEP; auto. simpl.
      destruct (Nat.eqb_spec (Z.to_nat i) (Z.to_nat (idx_of h))).
      * rewrite e in *. rewrite Hn in Ht. inversion Ht; subst t.
        rewrite nth_upd_same by (rewrite upd_length; auto).
        eexists; split; [reflexivity|]. repeat split; simpl; auto. unfold nonempty; simpl. apply st_pending_ne_empty.
      * rewrite nth_upd_other by auto. rewrite nth_upd_other by auto. exists s; auto.
  - left. split; auto. exists s; auto.
  - left. split; auto. exists s; auto.
  - left.
    assert (G : forall fuel d1 r, (exists s', nth_error (slots d1) (Z.to_nat (idx_of h)) = Some s' /\ nonempty s' /\ s_check s' = s_check s /\ s_inst s' = s_inst s) ->
                exists s', nth_error (slots (fst (iter_loop fuel d1 r))) (Z.to_nat (idx_of h)) = Some s' /\ nonempty s' /\ s_check s' = s_check s /\ s_inst s' = s_inst s).
    { induction fuel as [|f IH]; intros d1 r K; simpl; auto.
      destruct (iter d1 <? handle_count d1); simpl; auto.
      destruct (nth_slot d1 (iter d1)) as [t|]; simpl; auto.
      assert (K1 : exists s', nth_error (slots (fst (fst (do_get d1 (mk_handle (s_check t) (iter d1)))))) (Z.to_nat (idx_of h)) = Some s' /\ nonempty s' /\ s_check s' = s_check s /\ s_inst s' = s_inst s).
      { destruct (do_get_cases d1 (mk_handle (s_check t) (iter d1))) as [E|(u & Hu0 & Hu & Hust & _ & E)]; rewrite E; simpl; auto.
        destruct K as (s1 & A & B & C & D). rewrite nth_upd.
        destruct (Nat.eqb_spec (Z.to_nat (idx_of (mk_handle (s_check t) (iter d1)))) (Z.to_nat (idx_of h))).
        - rewrite e in Hu. rewrite A in Hu. inversion Hu; subst u.
          assert (Hl : (Z.to_nat (idx_of h) < length (slots d1))%nat) by (apply nth_error_Some; congruence).
          apply Nat.ltb_lt in Hl. rewrite e, Hl. eexists; split; [reflexivity|]. repeat split; simpl; auto.
        - exists s1; auto. }
      destruct (do_get d1 (mk_handle (s_check t) (iter d1))) as [[d2 r2] inst]. simpl in K1.
      destruct (r2 =? 0); simpl; auto. }
    apply KEEP; auto. apply G. exists s; auto.
Qed.

(* ------------------------------------------------------------------ *)
(* E. the finding that was repaired (fix: commit 0ea8a9a in /repo): without the state test in
   put/destroy/refcount_get a never-issued value with check 0 naming an EMPTY slot is accepted. *)
Definition lookup_unfixed (d : hdb) (h : Z) : option (Z * slot) :=
  let chk := check_of h in
  let i := idx_of h in
  if (handle_count d <=? i) then None else
  match nth_slot d i with
  | None => None
  | Some s => if check_ok chk s then Some (i, s) else None
  end.

Definition witness_ops : list op := [Create 11; Destroy (mk_handle 11 0)].

Lemma unfixed_refuted :
  exists ops h, dead_for h (fst (run hdb_init ops)) /\ lookup_unfixed (fst (run hdb_init ops)) h <> None.
Proof. exists witness_ops, 0. split; [|vm_compute; discriminate]. split; [vm_compute; discriminate|].
       intros _ s H. vm_compute in H. inversion H; subst. left; reflexivity. Qed.

(* non-vacuity examples *)
Definition ex_ops : list op :=
  [Create 11; Create 12; Get (mk_handle 11 0); Destroy (mk_handle 11 0); Put (mk_handle 11 0); Create 13].

Lemma ex_stale_is_dead : dead_for (mk_handle 11 0) (fst (run hdb_init ex_ops)).
Proof. split; [vm_compute; discriminate|]. intros _ s H. vm_compute in H. inversion H; subst. right; vm_compute; discriminate. Qed.

Lemma ex_owner : owns (fst (run hdb_init ex_ops)) (mk_handle 13 0) 3 /\ owns (fst (run hdb_init ex_ops)) (mk_handle 12 1) 2.
Proof. split; (split; [vm_compute; discriminate|]); eexists; (split; [vm_compute; reflexivity|]);
       (repeat split; try reflexivity); vm_compute; discriminate. Qed.

Lemma ex_outputs :
  snd (run hdb_init (ex_ops ++ [Get (mk_handle 11 0); Refcount (mk_handle 12 1); Put (mk_handle 11 0)])) =
  [ORes 0 (mk_handle 11 0); ORes 0 (mk_handle 12 1); ORes 0 1; ORes 0 0; ORes 0 0; ORes 0 (mk_handle 13 0);
   ORes (-9) 0; ORes 1 0; ORes (-9) 0].
Proof. vm_compute. reflexivity. Qed.
