(* Extraction of the event-loop model for C08.  ExtrOcamlBasic only: bool/option/unit/list/prod/sumbool
   map to the OCaml types of the same shape; Z, positive, nat stay inductive; no Extract Constant. *)
From Coq Require Import ExtrOcamlBasic.
Require Import Verif.LoopModel.
Extraction "model_C08.ml" loop_create exec_op loop_run beh_of out uaf ti_lv.
