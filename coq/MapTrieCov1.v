(* C18 trie part, coverage (1): trie_node_next returns the least present node after the position; strings of nodes
   are stable under the operations; the stored key of a node with a value is its string. *)
From Coq Require Import List ZArith Bool Arith Lia.
Import ListNotations.
Require Import Verif.gen.Consts_trie Verif.MapTrieModel Verif.MapTrieProofs Verif.MapTrieProofs2 Verif.MapTrieProofs3
               Verif.MapTrieIter Verif.MapTrieIter2 Verif.MapTrieIds Verif.MapTrieIter3 Verif.MapTrieIter4
               Verif.MapTrieIter5 Verif.MapTrieSafe1 Verif.MapTrieSafe2 Verif.MapTrieDestroy1 Verif.MapTriePos
               Verif.MapTrieView.

Lemma same_id_same_path : forall r p q tp tq, (forall x, cnt_t r x <= 1) -> get_at r p = Some tp -> get_at r q = Some tq ->
  n_id (t_info tp) = n_id (t_info tq) -> p = q.
Proof.
  intros r p q tp tq U Gp Gq E. pose proof (find_unique _ _ _ U Gp) as F1. pose proof (find_unique _ _ _ U Gq) as F2.
  rewrite E in F1. rewrite F1 in F2. inversion F2. reflexivity.
Qed.

(* the successor is the first present node after the position, in the traversal order *)
Lemma next_least_path : forall r pp, (forall x, cnt_t r x <= 1) ->
  match next_t r pp with
  | Some pn => exists tn, get_at r pn = Some tn /\ alive tn = true /\ before pp pn /\
                 forall q tq, get_at r q = Some tq -> alive tq = true -> before pp q -> q = pn \/ before pn q
  | None => forall q tq, get_at r q = Some tq -> alive tq = true -> ~ before pp q
  end.
Proof.
  intros r pp U. pose proof (proj1 next_spec r pp) as NS. pose proof (proj1 next_before r pp) as NB.
  destruct (next_t r pp) as [pn|].
  - destruct NS as [Hp [tn [Gn [An En]]]]. exists tn. repeat split; auto.
    intros q tq Gq Aq Bq. pose proof (proj1 in_after r pp q tq Gq Aq Bq) as I. rewrite En in I. destruct I as [I|I].
    + left. symmetry. eapply same_id_same_path; eauto. congruence.
    + right. destruct (proj1 after_in r pn _ I) as [q2 [tq2 [G2 [E2 [A2 B2]]]]].
      assert (q2 = q) by (eapply same_id_same_path; eauto; congruence). subst q2. exact B2.
  - intros q tq Gq Aq Bq. pose proof (proj1 in_after r pp q tq Gq Aq Bq) as I. rewrite NS in I. destruct I.
Qed.

(* the lookup of k ends at the node whose string is k *)
Lemma look_istr : forall sz n, size_t n <= sz -> forall k p, look_t n k true = Some p -> qstr n p = k.
Proof.
  induction sz; intros n Hsz k p H.
  { destruct n; simpl in Hsz; lia. }
  destruct n as [i seg f]. cbn [look_t] in H. destruct (strip seg k 0) eqn:St; try discriminate.
  - apply strip_keyend in St. destruct St as [rest [S1 S2]]. simpl in S2. subst sc.
    destruct (length k <? length seg) eqn:E; simpl in H; [discriminate|]. inversion H; subst p.
    destruct rest; [rewrite app_nil_r in S1; simpl; auto|].
    subst seg. rewrite app_length in E. simpl in E. apply Nat.ltb_ge in E. lia.
  - pose proof (strip_segend _ _ _ _ _ St) as Sk. rewrite look_f_fget in H.
    destruct (fget f (c2i c)) as [t0|] eqn:G; [|discriminate].
    destruct (look_t t0 k' true) as [p0|] eqn:L; [|discriminate]. inversion H; subst p. simpl. rewrite G.
    rewrite (IHsz t0) with (k := k'); auto.
    + subst k. f_equal. f_equal. apply c2i_inj. apply c2i_i2c.
    + apply size_fget in G. simpl in Hsz. lia.
Qed.

(* strings only depend on the shape *)
Lemma qstr_upd : forall q p n g, qstr (upd_t n p g) q = qstr n q.
Proof.
  induction q; intros p n g; destruct n as [i s f]; destruct p as [|j p']; cbn [upd_t qstr t_seg t_ch]; auto.
  f_equal. f_equal. rewrite upd_f_fget. destruct (fget f j) as [c|] eqn:F.
  - destruct (Nat.eq_dec j a) as [e|e].
    + subst a. rewrite fget_fset_same by (eapply fget_some_lt; eauto). rewrite F. apply IHq.
    + rewrite fget_fset_other by auto. reflexivity.
  - reflexivity.
Qed.

Lemma qstr_rel : forall p n hdr n' q tq, rel_t n p hdr = Some n' -> get_at n' q = Some tq -> qstr n' q = qstr n q.
Proof.
  induction p; intros n hdr n' q tq R G; destruct n as [i s f]; cbn [rel_t] in R.
  - destruct (releasable i f hdr); inversion R; subst. reflexivity.
  - rewrite rel_f_fget in R. destruct (fget f a) as [c|] eqn:F.
    2:{ inversion R; subst. reflexivity. }
    pose proof (fget_some_lt _ _ _ F) as L.
    assert (X : forall x, (x = None \/ exists c', x = Some c' /\ rel_t c p false = Some c') ->
                get_at (TN i s (fset f a x)) q = Some tq -> qstr (TN i s (fset f a x)) q = qstr (TN i s f) q).
    { intros x Hx Gx. destruct q as [|b q']; [reflexivity|]. simpl in *.
      destruct (Nat.eq_dec a b) as [e|e].
      - subst b. rewrite fget_fset_same in * by auto. rewrite F. destruct Hx as [Hx|[c' [Hx Rc]]]; subst x; [discriminate|].
        f_equal. f_equal. eapply IHp; eauto.
      - rewrite fget_fset_other in * by auto. reflexivity. }
    destruct (rel_t c p false) as [c'|] eqn:Rc.
    + inversion R; subst. apply X; eauto.
    + destruct (releasable i (fset f a None) hdr); inversion R; subst. apply X; auto.
Qed.

(* the stored key of a node that has a value is the string of the node *)
Definition keyinv (r : tnode) : Prop := forall q, q <> [] -> c_val (obs_t r q) <> None -> c_key (obs_t r q) = Some q.

Lemma kv_upd : forall p r g q, (forall i, n_key (g i) = n_key i /\ n_val (g i) = n_val i) ->
  c_key (obs_t (upd_t r p g) q) = c_key (obs_t r q) /\ c_val (obs_t (upd_t r p g) q) = c_val (obs_t r q).
Proof.
  induction p; intros r g q Hg; destruct r as [i seg f]; cbn [upd_t obs_t].
  - destruct (strip seg q 0); auto. destruct (sc <? length seg); auto.
    destruct (Hg i) as [A B]. unfold core_of. simpl. auto.
  - destruct (strip seg q 0); auto. rewrite upd_f_fget. rewrite !obs_f_fget.
    destruct (fget f a) as [t|] eqn:G; auto. pose proof (fget_some_lt _ _ _ G) as L.
    destruct (Nat.eq_dec (c2i c) a) as [e|e].
    + rewrite e, fget_fset_same, G by auto. apply IHp. auto.
    + rewrite fget_fset_other by congruence. auto.
Qed.

Lemma keyinv_upd : forall r p g, keyinv r -> (forall i, n_key (g i) = n_key i /\ n_val (g i) = n_val i) -> keyinv (upd_t r p g).
Proof.
  intros r p g K Hg q Hq V. destruct (kv_upd p r g q Hg) as [A B]. rewrite A. rewrite B in V. apply K; auto.
Qed.

(* trie_node_deref keeps it *)
Lemma keyinv_deref : forall r p tn, all_t wfi r -> keyinv r -> get_at r p = Some tn -> p <> [] ->
  keyinv (fst (node_deref r p)).
Proof.
  intros r p tn W K G Hp. destruct tn as [i sg fc].
  unfold node_deref. rewrite G. destruct (alive_i i) eqn:AL; [|exact K].
  set (dc := fun i0 : ninfo => set_rc (n_rc i0 - 1) i0).
  assert (K1 : keyinv (upd_t r p dc)) by (apply keyinv_upd; auto).
  destruct (0 <? n_rc i - 1) eqn:Z; simpl; [exact K1|].
  apply Nat.ltb_ge in Z. unfold alive_i in AL. destruct (n_val i) as [v|] eqn:V; [|discriminate].
  apply negb_true_iff in AL. apply Nat.eqb_neq in AL. assert (Hrc : n_rc i = 1) by lia.
  pose proof (get_at_upd _ _ dc _ _ _ G) as G1.
  unfold node_destroy. rewrite G1. unfold dc at 1. cbn [set_rc n_val]. rewrite V. simpl.
  set (r1 := upd_t r p dc) in *.
  pose proof (look_qstr _ _ _ G1) as L. set (k0 := qstr r1 p) in *.
  destruct (upd_ok _ _ (le_n _) _ _ L) as [tn' [G1' [G2 [G3 [G4 G5]]]]]. rewrite G1 in G1'. inversion G1'; subst tn'. simpl in G2.
  set (g := fun i0 : ninfo => set_removed false (set_kv None None i0)).
  pose proof (all_get_at _ _ _ _ W G) as Wi. simpl in Wi. destruct Wi as [Wa [Wb Wc]].
  assert (W1 : all_t wfi r1).
  { unfold r1. apply all_upd_at2 with (tn := TN i sg fc); auto. unfold wfi, dc, set_rc. simpl.
    intros _. split; [intro X; rewrite V in X; discriminate | split; [exact Wb | exact Wc]]. }
  assert (W2 : all_t wfi (upd_t r1 p g)).
  { apply G5; auto. unfold wfi, g, dc, set_removed, set_kv, set_rc. simpl. intros _. repeat split; auto. lia. }
  pose proof (rel_ok p _ true W2) as R. unfold release. fold g.
  destruct (rel_t (upd_t r1 p g) p true) as [r3|]; [|destruct R as [_ X]; discriminate].
  destruct R as [R1 _]. intros q Hq Vq. rewrite R1 in *. rewrite G4 in *.
  destruct (list_eq_dec Nat.eq_dec q k0) as [e|e].
  - simpl in Vq. congruence.
  - apply K1; auto.
Qed.

(* repaired trie_insert: the node with a given (old) id keeps its info *)
Lemma ins_info_by_id : forall fx r k nid r1 p nid' q tq, f_split fx = true -> (forall x, cnt_t r x <= 1) ->
  (forall x, nid <= x -> cnt_t r x = 0) -> all_t wfi r ->
  ins_t fx r k true nid = (r1, p, nid') -> get_at r q = Some tq ->
  forall q1 tq1, get_at r1 q1 = Some tq1 -> n_id (t_info tq1) = n_id (t_info tq) -> t_info tq1 = t_info tq.
Proof.
  intros fx r k nid r1 p nid' q tq Hfx U B W I G q1 tq1 G1 E.
  set (P := fun i : ninfo => n_id i = n_id (t_info tq) -> i = t_info tq).
  assert (A0 : all_t (fun i _ => P i) r).
  { apply (proj1 all_of_paths). intros p0 t0 G0. unfold P. intro E0.
    assert (p0 = q) by (eapply same_id_same_path; eauto). subst p0. congruence. }
  assert (A1 : all_t (fun i _ => P i) r1).
  { eapply (ins_all fx P Hfx _ r (le_n _)); [|exact A0|exact I].
    intros x Hx. unfold P. simpl. intro E0. exfalso.
    pose proof (cnt_get _ _ _ G) as C. rewrite <- E0 in C. rewrite (B x Hx) in C. lia. }
  apply (paths_of_all P _ _ _ A1 G1). exact E.
Qed.
