(* C18 trie part: what get / rm / put observe (the dictionary view) while iterators come and go. *)
From Coq Require Import List ZArith Bool Arith Lia.
Import ListNotations.
Require Import Verif.gen.Consts_trie Verif.MapTrieModel Verif.MapTrieSpec Verif.MapTrieProofs Verif.MapTrieProofs2
               Verif.MapTrieProofs3 Verif.MapTrieIter Verif.MapTrieIter2 Verif.MapTrieIds Verif.MapTrieIter3
               Verif.MapTrieIter4 Verif.MapTrieIter6 Verif.MapTrieSafe1 Verif.MapTrieSafe2.

(* the value a lookup reports: none for a removed-but-held node *)
Definition dview (c : core) : option val := if c_rem c then None else c_val c.

Lemma dview_kvr : forall a b, kvr a = kvr b -> dview a = dview b.
Proof. intros a b H. unfold kvr in H. inversion H as [[A B C D]]. unfold dview. rewrite B, D. reflexivity. Qed.

(* updates that keep value and removed flag: the view of every key is unchanged *)
Lemma view_upd : forall p r g q, (forall i, n_val (g i) = n_val i /\ n_removed (g i) = n_removed i) ->
  dview (obs_t (upd_t r p g) q) = dview (obs_t r q).
Proof.
  induction p; intros r g q Hg; destruct r as [i seg f]; cbn [upd_t obs_t].
  - destruct (strip seg q 0); auto. destruct (sc <? length seg); auto.
    destruct (Hg i) as [A B]. unfold dview, core_of. simpl. rewrite A, B. reflexivity.
  - destruct (strip seg q 0); auto. rewrite upd_f_fget. rewrite !obs_f_fget.
    destruct (fget f a) as [t|] eqn:G; auto. pose proof (fget_some_lt _ _ _ G) as L.
    destruct (Nat.eq_dec (c2i c) a) as [e|e].
    + rewrite e, fget_fset_same, G by auto. apply IHp. auto.
    + rewrite fget_fset_other by congruence. reflexivity.
Qed.

(* trie_node_deref: when the last reference goes the node was already invisible (removed, or without value), so
   no key's view changes *)
Lemma deref_view : forall r p tn q, all_t wfi r -> get_at r p = Some tn -> p <> [] ->
  (n_rc (t_info tn) = 1 -> pres (t_info tn) = 0) ->
  dview (obs_t (fst (node_deref r p)) q) = dview (obs_t r q).
Proof.
  intros r p tn q W G Hp P0. destruct tn as [i sg fc]. simpl in P0.
  unfold node_deref. rewrite G. destruct (alive_i i) eqn:AL; [|reflexivity].
  set (dc := fun i0 : ninfo => set_rc (n_rc i0 - 1) i0).
  assert (V1 : forall q0, dview (obs_t (upd_t r p dc) q0) = dview (obs_t r q0)).
  { intro q0. apply view_upd. intros. split; reflexivity. }
  destruct (0 <? n_rc i - 1) eqn:Z; simpl; [apply V1|].
  apply Nat.ltb_ge in Z. unfold alive_i in AL. destruct (n_val i) as [v|] eqn:V; [|discriminate].
  apply negb_true_iff in AL. apply Nat.eqb_neq in AL. assert (Hrc : n_rc i = 1) by lia.
  specialize (P0 Hrc). unfold pres in P0. rewrite V in P0. destruct (n_removed i) eqn:Rm; [|discriminate].
  pose proof (get_at_upd _ _ dc _ _ _ G) as G1.
  unfold node_destroy. rewrite G1. unfold dc at 1. cbn [set_rc n_val]. rewrite V. simpl.
  set (r1 := upd_t r p dc) in *.
  pose proof (look_qstr _ _ _ G1) as L. set (k0 := qstr r1 p) in *.
  destruct (upd_ok _ _ (le_n _) _ _ L) as [tn' [G1' [G2 [G3 [G4 G5]]]]]. rewrite G1 in G1'. inversion G1'; subst tn'. simpl in G2.
  set (g := fun i0 : ninfo => set_removed false (set_kv None None i0)).
  pose proof (all_get_at _ _ _ _ W G) as Wi. simpl in Wi. destruct Wi as [Wa [Wb Wc]].
  assert (W1 : all_t wfi r1).
  { unfold r1. apply all_upd_at2 with (tn := TN i sg fc); auto. unfold wfi, dc, set_rc. simpl.
    intros _. split; [intro X; rewrite V in X; discriminate | split; [exact Wb | exact Wc]]. }
  assert (W2 : all_t wfi (upd_t r1 p g)).
  { apply G5; auto. unfold wfi, g, dc, set_removed, set_kv, set_rc. simpl. intros _. repeat split; auto. lia. }
  pose proof (rel_ok p _ true W2) as R. unfold release. fold g.
  destruct (rel_t (upd_t r1 p g) p true) as [r3|]; [|destruct R as [_ X]; discriminate].
  destruct R as [R1 _]. rewrite R1, G4. rewrite <- V1.
  destruct (list_eq_dec Nat.eq_dec q k0) as [e|e]; [|reflexivity].
  subst q. rewrite <- G2. unfold dview, core_of, g, dc, set_removed, set_kv, set_rc. simpl. rewrite Rm. reflexivity.
Qed.
