(* C17 trie part, destroy (1): positions - the successor lies after its predecessor, and what comes after a position
   does not depend on nodes before it. *)
From Coq Require Import List ZArith Bool Arith Lia.
Import ListNotations.
Require Import Verif.gen.Consts_trie Verif.MapTrieModel Verif.MapTrieProofs Verif.MapTrieProofs2 Verif.MapTrieIter
               Verif.MapTrieIter3 Verif.MapTrieSafe1.

(* p comes before q in the traversal (an ancestor comes before its descendants, a higher child index first) *)
Fixpoint before (p q : path) : Prop :=
  match p, q with
  | [], _ :: _ => True
  | j1 :: p', j2 :: q' => j2 < j1 \/ (j1 = j2 /\ before p' q')
  | _, [] => False
  end.

Lemma before_bump : forall j p q, before (S j :: p) (bump q) <-> before (j :: p) q \/ False.
Proof. intros. destruct q as [|j2 q]; simpl; intuition; lia. Qed.

Lemma first_nonnil : (forall t p, first_t t = Some p -> p <> []) /\ (forall f p, first_f f = Some p -> p <> []).
Proof.
  split; intros x p H.
  - pose proof (proj1 first_spec x) as S. unfold first_spec_t in S. rewrite H in S. tauto.
  - pose proof (proj2 first_spec x) as S. unfold first_spec_f in S. rewrite H in S. tauto.
Qed.

(* the successor lies after the position *)
Lemma next_before : (forall t rel p, next_t t rel = Some p -> before rel p) /\
                    (forall f j rel p, next_f f j rel = Some p -> before (j :: rel) p).
Proof.
  apply tnode_forest_ind.
  - intros i s f IH rel p H. cbn [next_t] in H. destruct rel as [|j rel'].
    + apply (proj2 first_nonnil) in H. destruct p; [congruence|]. exact I.
    + apply IH. exact H.
  - intros j rel p H. discriminate.
  - intros f IH j rel p H. cbn [next_f] in H. destruct j as [|j']; [discriminate|].
    destruct (next_f f j' rel) as [p0|] eqn:N; [|discriminate]. inversion H; subst.
    specialize (IH j' rel p0 N). destruct p0 as [|j0 p0']; simpl in *; [contradiction|]. destruct IH as [X|[X Y]]; [left; lia|right; split; auto].
  - intros t f IHt IHf j rel p H. cbn [next_f] in H. destruct j as [|j'].
    + destruct (next_t t rel) as [p0|] eqn:N; [|discriminate]. inversion H; subst. simpl. right. split; auto.
    + destruct (next_f f j' rel) as [p0|] eqn:N.
      * inversion H; subst. specialize (IHf j' rel p0 N). destruct p0 as [|j0 p0']; simpl in *; [contradiction|].
        destruct IHf as [X|[X Y]]; [left; lia|right; split; auto].
      * unfold self_or_first in H. destruct (alive t).
        -- inversion H; subst. simpl. left. lia.
        -- destruct (first_t t); inversion H; subst. simpl. left. lia.
Qed.

(* what comes after q is not affected by an info update at a position before q *)
Lemma after_upd_before :
  (forall t p q g, before p q -> after_t (upd_t t p g) q = after_t t q) /\
  (forall f j p jq q g, jq < j \/ (j = jq /\ before p q) -> after_f (upd_f f j p g) jq q = after_f f jq q).
Proof.
  apply tnode_forest_ind.
  - intros i s f IH p q g B. destruct p as [|j p']; destruct q as [|jq q']; simpl in B; try contradiction; cbn [upd_t after_t].
    + reflexivity.
    + apply IH. exact B.
  - intros. destruct j; reflexivity.
  - intros f IH j p jq q g B. destruct j as [|j']; cbn [upd_f after_f].
    + destruct B as [B|[B _]]; [lia|]. subst jq. reflexivity.
    + destruct jq as [|jq']; [reflexivity|]. rewrite IH; auto. destruct B as [B|[B C]]; [left; lia|right; split; auto; lia].
  - intros t f IHt IHf j p jq q g B. destruct j as [|j']; cbn [upd_f after_f].
    + destruct B as [B|[B C]]; [lia|]. subst jq. apply IHt. exact C.
    + destruct jq as [|jq']; [reflexivity|]. rewrite IHf; auto. destruct B as [B|[B C]]; [left; lia|right; split; auto; lia].
Qed.

Lemma after_f_fset_gt : forall f j jq q x, jq < j -> after_f (fset f j x) jq q = after_f f jq q.
Proof.
  induction f; intros j jq q x H; simpl; auto. destruct j as [|j']; [lia|]. destruct jq as [|jq']; simpl; auto.
  rewrite IHf by lia. reflexivity.
Qed.

Lemma after_f_fset_same : forall f j q c c', fget f j = Some c -> after_t c' q = after_t c q ->
  after_f (fset f j (Some c')) j q = after_f f j q.
Proof.
  induction f; intros j q c c' G H; simpl in G; [discriminate|]. destruct j as [|j']; simpl.
  - subst o. exact H.
  - rewrite (IHf j' q c c' G H). reflexivity.
Qed.

(* ... nor by releasing nodes before q, as long as q's node (which carries a key) is there *)
Lemma after_rel_before : forall p n hdr q tq n', rel_t n p hdr = Some n' -> before p q ->
  get_at n q = Some tq -> n_key (t_info tq) <> None -> after_t n' q = after_t n q.
Proof.
  induction p; intros n hdr q tq n' R B G K; destruct n as [i s f]; cbn [rel_t] in R.
  - destruct (releasable i f hdr); inversion R; subst. reflexivity.
  - destruct q as [|jq q']; simpl in B; [contradiction|].
    rewrite rel_f_fget in R. destruct (fget f a) as [c|] eqn:F.
    2:{ inversion R; subst. reflexivity. }
    pose proof (fget_some_lt _ _ _ F) as L. simpl in G.
    assert (X : forall x, (jq < a -> True) -> (a = jq -> exists c', x = Some c' /\ after_t c' q' = after_t c q') ->
                after_t (TN i s (fset f a x)) (jq :: q') = after_t (TN i s f) (jq :: q')).
    { intros x _ Hx. cbn [after_t]. destruct B as [B|[B C]].
      - apply after_f_fset_gt. exact B.
      - subst jq. destruct (Hx eq_refl) as [c' [E H]]. subst x. eapply after_f_fset_same; eauto. }
    destruct (rel_t c p false) as [c'|] eqn:Rc.
    + inversion R; subst. apply X; auto. intro E. subst jq. exists c'. split; auto.
      destruct B as [B|[_ C]]; [lia|]. rewrite F in G. eapply IHp; eauto.
    + (* the child was released: then q cannot lie in it *)
      assert (NE : a <> jq).
      { intro E. subst jq. rewrite F in G. pose proof (rel_survive p c false q' tq G K) as SV. rewrite Rc in SV. exact SV. }
      destruct (releasable i (fset f a None) hdr); inversion R; subst.
      apply X; auto. intro E. contradiction.
Qed.

(* a node with a key, elsewhere, keeps place and info when the node at p is destroyed *)
Lemma destroy_keeps : forall r p q tn, get_at r q = Some tn -> n_key (t_info tn) <> None -> p <> q ->
  exists tn', get_at (fst (node_destroy r p)) q = Some tn' /\ t_info tn' = t_info tn.
Proof.
  intros r p q tn G K Hne. unfold node_destroy. destruct (get_at r p) as [[i sg fc]|] eqn:Gp; [|eauto].
  destruct (n_val i); simpl; [|eauto].
  match goal with |- context [release ?x p] => set (r2 := x) end.
  assert (G2 : exists tn2, get_at r2 q = Some tn2 /\ t_info tn2 = t_info tn).
  { pose proof (info_at_upd_other p q r (fun i0 => set_removed false (set_kv None None i0)) Hne) as I.
    unfold info_at in I. rewrite G in I. fold r2 in I. destruct (get_at r2 q) as [tn2|]; [|discriminate]. inversion I. eauto. }
  destruct G2 as [tn2 [G2 T2]]. unfold release.
  pose proof (rel_survive p r2 true q tn2 G2) as SV. rewrite T2 in SV. specialize (SV K).
  destruct (rel_t r2 p true) as [r3|]; [|contradiction]. destruct SV as [tn3 [G3 T3]]. exists tn3. split; [exact G3|congruence].
Qed.

(* what comes after q is the same after the node at p (before q) has been destroyed *)
Lemma after_destroy : forall r p q tq, before p q -> get_at r q = Some tq -> n_key (t_info tq) <> None ->
  after_t (fst (node_destroy r p)) q = after_t r q.
Proof.
  intros r p q tq B G K. unfold node_destroy. destruct (get_at r p) as [[i sg fc]|] eqn:Gp; [|reflexivity].
  destruct (n_val i); simpl; [|reflexivity].
  set (g := fun i0 : ninfo => set_removed false (set_kv None None i0)).
  assert (Hne : p <> q).
  { intro E. subst q. clear -B. induction p; simpl in B; auto. destruct B as [B|[_ B]]; [lia|auto]. }
  assert (G2 : exists tn2, get_at (upd_t r p g) q = Some tn2 /\ t_info tn2 = t_info tq).
  { pose proof (info_at_upd_other p q r g Hne) as I. unfold info_at in I. rewrite G in I.
    destruct (get_at (upd_t r p g) q) as [tn2|]; [|discriminate]. inversion I. eauto. }
  destruct G2 as [tn2 [G2 T2]].
  unfold release. pose proof (rel_survive p (upd_t r p g) true q tn2 G2) as SV. rewrite T2 in SV. specialize (SV K).
  destruct (rel_t (upd_t r p g) p true) as [r3|] eqn:R; [|contradiction].
  rewrite (after_rel_before p _ true q tn2 r3 R B G2) by (rewrite T2; exact K).
  apply (proj1 after_upd_before). exact B.
Qed.
