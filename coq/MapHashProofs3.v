(* MapHashProofs3 - C18 for the pointer-level hashtable model (MapHashModel, repaired variant v_fixed):
   for ALL histories - any interleaving of iterator create / next / free (any number of iterators, next after
   the end, abandoned iterators) with put / get / rm / count / foreach / notify / destroy - no operation reaches an
   error state (UseAfterFree, OutOfBounds, RefUnderflow, OutOfFuel).
   Invariant [GoodP s P]: P = the positions of all iterators that currently hold a reference (caller-held ones
   and the temporary one of qb_map_foreach); every linked node is a live heap cell whose reference count is
   (0 if removed else 1) + the number of iterators parked on it, and is at least 1; every parked iterator's node
   is linked in the bucket the iterator remembers. *)
From Coq Require Import List NArith ZArith Bool Arith Lia Permutation.
Require Import Verif.MapSpec Verif.MapHashModel Verif.MapRefModel Verif.MapRefProofs Verif.MapHashProofs Verif.MapHashProofs2.
Import ListNotations.

Definition parked_on (id : nat) (hi : hiter) : bool :=
  match hi_node hi with Some x => Nat.eqb x id | None => false end.
Definition pcount (P : list hiter) (id : nat) : nat := length (filter (parked_on id) P).
Definition base (n : hnode) : nat := if hn_removed n then 0 else 1.

Record GoodP (s : hstate) (P : list hiter) : Prop := {
  p_nodup : NoDup (linked s);
  p_node : forall id, In id (linked s) ->
           exists n, deref (h_heap s) id = Ok n /\ hn_ref n = base n + pcount P id /\ 1 <= hn_ref n;
  p_iter : forall hi id, In hi P -> hi_node hi = Some id -> In id (bucket s (hi_bucket hi))
}.

Lemma pcount_perm : forall P P' id, Permutation P P' -> pcount P id = pcount P' id.
Proof.
  intros. unfold pcount. induction H; simpl; auto.
  - destruct (parked_on id x); simpl; auto.
  - destruct (parked_on id x), (parked_on id y); simpl; auto.
  - congruence.
Qed.

Lemma goodp_perm : forall s P P', Permutation P P' -> GoodP s P -> GoodP s P'.
Proof.
  intros. constructor.
  - apply (p_nodup _ _ H0).
  - intros id Hid. destruct (p_node _ _ H0 id Hid) as [n [N1 [N2 N3]]]. exists n. rewrite <- (pcount_perm P P') by auto. auto.
  - intros hi id Hhi Hn. apply (p_iter _ _ H0 hi id); auto. eapply Permutation_in; [apply Permutation_sym; eauto|auto].
Qed.

Lemma pcount_cons : forall hi P id, pcount (hi :: P) id = (if parked_on id hi then 1 else 0) + pcount P id.
Proof. intros. unfold pcount. simpl. destruct (parked_on id hi); auto. Qed.

Lemma pcount_pos : forall P hi id, In hi P -> hi_node hi = Some id -> 1 <= pcount P id.
Proof.
  induction P; simpl; intros. contradiction. rewrite pcount_cons. destruct H.
  - subst. unfold parked_on. rewrite H0, Nat.eqb_refl. lia.
  - specialize (IHP hi id H H0). lia.
Qed.

Lemma in_bucket_linked : forall s b id, In id (bucket s b) -> In id (linked s).
Proof. intros. unfold linked, bucket in *. apply in_concat_nth. eauto. Qed.

(* an iterator that is not parked anywhere does not count *)
Lemma goodp_none_add : forall s P b, GoodP s P -> GoodP s ({| hi_node := None; hi_bucket := b |} :: P).
Proof.
  intros. constructor; try apply H.
  intros hi id [Hhi|Hhi] Hn. subst. discriminate. eapply (p_iter _ _ H); eauto.
Qed.
Lemma goodp_none_del : forall s P hi, hi_node hi = None -> GoodP s (hi :: P) -> GoodP s P.
Proof.
  intros. constructor; try apply H0.
  - intros id Hid. destruct (p_node _ _ H0 id Hid) as [n N]. exists n. rewrite pcount_cons in N. unfold parked_on in N. rewrite H in N. auto.
  - intros hi' id Hhi Hn. eapply (p_iter _ _ H0); eauto. right; auto.
Qed.

(* M1: an iterator takes a reference on a linked node *)
Lemma goodp_park : forall s P id b n, GoodP s P -> In id (bucket s b) -> deref (h_heap s) id = Ok n ->
  GoodP (set_heap s (store (h_heap s) id (bumpn n))) ({| hi_node := Some id; hi_bucket := b |} :: P).
Proof.
  intros s P id b n G Hin Hd. assert (Hlt : id < length (h_heap s)) by (eapply deref_lt; eauto).
  constructor; simpl.
  - apply (p_nodup _ _ G).
  - intros x Hx. change (linked (set_heap s (store (h_heap s) id (bumpn n)))) with (linked s) in Hx.
    rewrite deref_store by auto. rewrite pcount_cons. unfold parked_on. simpl.
    destruct (p_node _ _ G x Hx) as [m [M1 [M2 M3]]].
    destruct (Nat.eqb id x) eqn:E.
    + apply Nat.eqb_eq in E. subst x. rewrite Hd in M1. inversion M1; subst m. exists (bumpn n). split; auto.
      unfold bumpn, base in *. simpl. lia.
    + exists m. split; auto; try lia.
  - intros hi x [Hhi|Hhi] Hn.
    + subst hi. simpl in *. inversion Hn; subst. exact Hin.
    + apply (p_iter _ _ G hi x Hhi Hn).
Qed.

Definition same_ctl (s s' : hstate) : Prop :=
  h_iters s' = h_iters s /\ h_used s' = h_used s /\ h_alive s' = h_alive s.
Lemma same_ctl_refl : forall s, same_ctl s s. Proof. intros. repeat split. Qed.
Lemma same_ctl_trans : forall a b c, same_ctl a b -> same_ctl b c -> same_ctl a c.
Proof. unfold same_ctl. intros a b c [A1 [A2 A3]] [B1 [B2 B3]]. repeat split; congruence. Qed.

(* M2: an iterator drops its reference (hashtable_node_deref of its node) *)
Lemma goodp_unpark : forall s P hi cur, GoodP s (hi :: P) -> hi_node hi = Some cur ->
  exists s' ns, node_deref s cur = Ok (s', ns) /\ GoodP s' P /\ same_ctl s s' /\
    (h_buckets s' = h_buckets s \/ h_buckets s' = map (remove_id cur) (h_buckets s)).
Proof.
  intros s P hi cur G Hc.
  assert (Hb : In cur (bucket s (hi_bucket hi))) by (apply (p_iter _ _ G hi cur); auto; left; auto).
  assert (Hl : In cur (linked s)) by (eapply in_bucket_linked; eauto).
  destruct (p_node _ _ G cur Hl) as [n [N1 [N2 N3]]].
  assert (Hlt : cur < length (h_heap s)) by (eapply deref_lt; eauto).
  rewrite pcount_cons in N2. unfold parked_on in N2. rewrite Hc, Nat.eqb_refl in N2.
  unfold node_deref. rewrite N1. simpl.
  destruct (hn_ref n) as [|r] eqn:R. lia.
  destruct r as [|r].
  - (* last reference: the node is destroyed *)
    assert (B0 : base n = 0) by lia. assert (P0 : pcount P cur = 0) by lia.
    eexists _, _. split; [reflexivity|]. split.
    + simpl. constructor; simpl.
      * unfold linked. simpl. unfold remove_id. rewrite concat_filter. apply NoDup_filter. apply (p_nodup _ _ G).
      * intros x Hx. unfold linked in Hx. simpl in Hx. unfold remove_id in Hx. rewrite concat_filter in Hx. apply filter_In in Hx.
        destruct Hx as [Hx1 Hx2]. apply negb_true_iff in Hx2. apply Nat.eqb_neq in Hx2.
        destruct (p_node _ _ G x Hx1) as [m [M1 [M2 M3]]]. exists m.
        rewrite pcount_cons in M2. unfold parked_on in M2. rewrite Hc in M2.
        replace (Nat.eqb cur x) with false in M2 by (symmetry; apply Nat.eqb_neq; auto).
        split; auto. unfold deref. rewrite nth_error_free_cell by auto. rewrite nth_error_store_other by auto. apply M1.
      * intros hi2 x Hhi2 Hn. unfold bucket. simpl. rewrite nth_map_remove. unfold remove_id. apply filter_In. split.
        apply (p_iter _ _ G hi2 x); auto. right; auto.
        apply negb_true_iff. apply Nat.eqb_neq. intro; subst x. generalize (pcount_pos P hi2 cur Hhi2 Hn). lia.
    + split. repeat split. right. reflexivity.
  - (* other references remain *)
    eexists _, _. split; [reflexivity|]. split.
    + constructor; simpl.
      * apply (p_nodup _ _ G).
      * intros x Hx. change (linked (set_heap s _)) with (linked s) in Hx. rewrite deref_store by auto.
        destruct (p_node _ _ G x Hx) as [m [M1 [M2 M3]]]. rewrite pcount_cons in M2. unfold parked_on in M2. rewrite Hc in M2.
        destruct (Nat.eqb cur x) eqn:E.
        { apply Nat.eqb_eq in E. subst x. eexists. split; [reflexivity|]. unfold base in *. simpl. lia. }
        { exists m. split; auto. }
      * intros hi2 x Hhi2 Hn. apply (p_iter _ _ G hi2 x); auto. right; auto.
    + split. repeat split. left. reflexivity.
Qed.

(* ---------- the list walks never touch a freed cell ---------- *)
Definition all_live (h : heap) (l : list nat) : Prop := forall id, In id l -> exists n, deref h id = Ok n.

Lemma goodp_all_live : forall s P, GoodP s P -> all_live (h_heap s) (linked s).
Proof. intros s P G id Hid. destruct (p_node _ _ G id Hid) as [n [N _]]. eauto. Qed.

Lemma find_node_safe : forall h l k, all_live h l ->
  exists r, find_node v_fixed h l k = Ok r /\ (forall id, r = Some id -> In id l /\ exists n, deref h id = Ok n /\ hn_removed n = false).
Proof.
  induction l; simpl; intros.
  - exists None. split; auto. intros; discriminate.
  - destruct (H a) as [n N]. left; auto. rewrite N. simpl. destruct (node_matches v_fixed n k) eqn:M.
    + exists (Some a). split; auto. intros id Hid. inversion Hid; subst. split; auto. exists n. split; auto.
      unfold node_matches in M. simpl in M. apply andb_true_iff in M. destruct M as [M _]. apply negb_true_iff in M. auto.
    + destruct (IHl k) as [r [R1 R2]]. intros id Hid. apply H. right; auto. exists r. split; auto.
      intros id Hid. destruct (R2 id Hid). split; auto.
Qed.

Lemma scan_safe : forall h l, all_live h l -> exists r, scan v_fixed h l = Ok r /\ (forall id, r = Some id -> In id l).
Proof.
  induction l; simpl; intros.
  - exists None. split; auto. intros; discriminate.
  - destruct (H a) as [n N]. left; auto. rewrite N. simpl. destruct (eligible v_fixed n).
    + exists (Some a). split; auto. intros id Hid. inversion Hid; auto.
    + destruct IHl as [r [R1 R2]]. intros id Hid. apply H. right; auto. exists r. split; auto.
Qed.

Lemma scan_buckets_safe : forall h rest b cands, all_live h (cands ++ concat rest) ->
  exists r, scan_buckets v_fixed h b cands rest = Ok r /\
    (forall id b', r = Some (id, b') -> (In id cands /\ b' = b) \/ (exists j, b' = S (b + j) /\ In id (nth j rest []))).
Proof.
  induction rest; simpl; intros b cands H.
  - destruct (scan_safe h cands) as [r [R1 R2]]. intros id Hid. apply H. apply in_or_app; auto.
    rewrite R1. simpl. destruct r as [id|].
    + exists (Some (id, b)). split; auto. intros id' b' E. inversion E; subst. left. auto.
    + exists None. split; auto. intros; discriminate.
  - destruct (scan_safe h cands) as [r [R1 R2]]. intros id Hid. apply H. apply in_or_app; auto.
    rewrite R1. simpl. destruct r as [id|].
    + exists (Some (id, b)). split; auto. intros id' b' E. inversion E; subst. left. auto.
    + destruct (IHrest (S b) a) as [r' [Q1 Q2]]. intros id Hid. apply H. apply in_or_app; auto.
      exists r'. split; auto. intros id b' E. destruct (Q2 id b' E) as [[Q3 Q4]|[j [Q3 Q4]]].
      * right. exists 0. split. lia. auto.
      * right. exists (S j). split. lia. auto.
Qed.

(* ---------- iterator operations ---------- *)
Section Safe.
Variable hf : key -> N.

Definition okf {A} (r : res A) : Prop := match r with Ok _ => True | Err OutOfFuel => True | Err _ => False end.

(* how the state after hashtable_iter_next is obtained: an optional reference taken on the node found, then the
   release of the node the iterator was parked on *)
Definition next_shape (s : hstate) (hi : hiter) (s' : hstate) : Prop :=
  exists s1 Pmid,
    (s1 = s \/ exists id n, In id (linked s) /\ deref (h_heap s) id = Ok n /\ s1 = set_heap s (store (h_heap s) id (bumpn n))) /\
    GoodP s1 (hi :: Pmid) /\
    match hi_node hi with Some cur => exists ns, node_deref s1 cur = Ok (s', ns) | None => s' = s1 end.

Lemma iter_next_safe : forall s P hi, GoodP s (hi :: P) ->
  exists s' hi' r ns, h_iter_next v_fixed s hi = Ok (s', hi', r, ns) /\ GoodP s' (hi' :: P) /\ same_ctl s s' /\ next_shape s hi s'.
Proof.
  intros s P hi G. unfold h_iter_next.
  set (b0 := hi_bucket hi).
  (* first *)
  assert (F : exists first, (match hi_node hi with
                             | Some cur => do _ <- deref (h_heap s) cur; Ok (after_id cur (bucket s b0))
                             | None => Ok (bucket s b0) end) = Ok first /\ forall x, In x first -> In x (bucket s b0)).
  { destruct (hi_node hi) as [cur|] eqn:Hc.
    - assert (Hb : In cur (bucket s b0)) by (apply (p_iter _ _ G hi cur); auto; left; auto).
      destruct (p_node _ _ G cur (in_bucket_linked _ _ _ Hb)) as [n [N1 _]]. rewrite N1. simpl.
      eexists. split; [reflexivity|]. intros. eapply after_id_incl; eauto.
    - eexists. split; [reflexivity|]. auto. }
  destruct F as [first [F1 F2]]. rewrite F1. cbn [bind].
  (* found *)
  assert (FO : exists found, (if Nat.ltb b0 (nb s) then scan_buckets v_fixed (h_heap s) b0 first (skipn (S b0) (h_buckets s)) else Ok None) = Ok found /\
               forall id b', found = Some (id, b') -> In id (bucket s b')).
  { destruct (Nat.ltb b0 (nb s)).
    - destruct (scan_buckets_safe (h_heap s) (skipn (S b0) (h_buckets s)) b0 first) as [r [R1 R2]].
      { intros id Hid. apply (goodp_all_live _ _ G). apply in_app_or in Hid. destruct Hid as [Hid|Hid].
        eapply in_bucket_linked; eauto. apply in_concat_skipn in Hid. destruct Hid as [b' [_ Hid]]. eapply in_bucket_linked; eauto. }
      exists r. split; auto. intros id b' E. destruct (R2 id b' E) as [[Q1 Q2]|[j [Q1 Q2]]].
      + subst. auto.
      + subst. rewrite nth_skipn' in Q2. unfold bucket. replace (S (b0 + j)) with (S b0 + j) by lia. auto.
    - exists None. split; auto. intros; discriminate. }
  destruct FO as [found [FO1 FO2]]. rewrite FO1. cbn [bind].
  destruct found as [[id b']|].
  - (* park on id, then leave the old node *)
    assert (Hin : In id (bucket s b')) by (apply FO2; auto).
    destruct (p_node _ _ G id (in_bucket_linked _ _ _ Hin)) as [n [N1 _]]. rewrite N1. simpl.
    assert (G1 : GoodP (set_heap s (store (h_heap s) id (bumpn n))) (hi :: {| hi_node := Some id; hi_bucket := b' |} :: P)).
    { eapply goodp_perm. apply perm_swap. apply goodp_park; auto. }
    fold (bumpn n).
    destruct (hi_node hi) as [cur|] eqn:Hc.
    + destruct (goodp_unpark _ _ hi cur G1 Hc) as [s2 [ns [U1 [U2 [U3 U4]]]]]. rewrite U1. simpl.
      assert (Hin2 : In id (bucket s2 b')) by (apply (p_iter _ _ U2 {| hi_node := Some id; hi_bucket := b' |} id); auto; left; auto).
      destruct (p_node _ _ U2 id (in_bucket_linked _ _ _ Hin2)) as [n2 [M1 _]]. rewrite M1. simpl.
      eexists _, _, _, _. split; [reflexivity|]. split; [auto|split; [exact U3|]].
      exists (set_heap s (store (h_heap s) id (bumpn n))), ({| hi_node := Some id; hi_bucket := b' |} :: P). split; [right; exists id, n; split; [eapply in_bucket_linked; eauto|auto]|]. split; [exact G1|]. rewrite Hc. eauto.
    + assert (G2 : GoodP (set_heap s (store (h_heap s) id (bumpn n))) ({| hi_node := Some id; hi_bucket := b' |} :: P)).
      { eapply goodp_none_del; eauto. }
      simpl. rewrite deref_store by (eapply deref_lt; eauto). rewrite Nat.eqb_refl. simpl.
      eexists _, _, _, _. split; [reflexivity|]. split; [auto|split; [repeat split|]].
      exists (set_heap s (store (h_heap s) id (bumpn n))), ({| hi_node := Some id; hi_bucket := b' |} :: P). split; [right; exists id, n; split; [eapply in_bucket_linked; eauto|auto]|]. split; [exact G1|]. rewrite Hc. reflexivity.
  - destruct (hi_node hi) as [cur|] eqn:Hc.
    + destruct (goodp_unpark _ _ hi cur G Hc) as [s2 [ns [U1 [U2 [U3 U4]]]]]. simpl. rewrite U1. simpl.
      eexists _, _, _, _. split; [reflexivity|]. split; [apply goodp_none_add; auto|split; [exact U3|]].
      exists s, P. split; [left; auto|]. split; [exact G|]. rewrite Hc. eauto.
    + simpl. eexists _, _, _, _. split; [reflexivity|]. split; [apply goodp_none_add; eapply goodp_none_del; eauto|split; [repeat split|]].
      exists s, P. split; [left; auto|]. split; [exact G|]. rewrite Hc. reflexivity.
Qed.

Lemma iter_free_safe : forall s P hi, GoodP s (hi :: P) ->
  exists s' ns, h_iter_free v_fixed s hi = Ok (s', ns) /\ GoodP s' P /\ same_ctl s s'.
Proof.
  intros. unfold h_iter_free. simpl. destruct (hi_node hi) as [cur|] eqn:Hc.
  - destruct (goodp_unpark _ _ hi cur H Hc) as [s2 [ns [U1 [U2 [U3 U4]]]]]. eauto.
  - eexists _, _. split; [reflexivity|]. split; [eapply goodp_none_del; eauto|repeat split].
Qed.

(* qb_map_foreach: the loop either completes or runs out of the model's fuel; it never touches a freed cell *)
Lemma foreach_loop_safe : forall fuel s P hi stop calls acc nacc, GoodP s (hi :: P) ->
  match foreach_loop v_fixed fuel s hi stop calls acc nacc with
  | Ok (s', hi', _, _) => GoodP s' (hi' :: P) /\ same_ctl s s'
  | Err e => e = OutOfFuel
  end.
Proof.
  induction fuel; simpl; intros; auto.
  destruct (iter_next_safe s P hi H) as [s1 [hi1 [r [ns [E [G1 [C1 _]]]]]]]. rewrite E. simpl.
  destruct r as [e|]; auto.
  destruct (negb (Nat.eqb stop 0) && Nat.leb stop (S calls)); auto.
  specialize (IHfuel s1 P hi1 stop (S calls) (e :: acc) (nacc ++ ns) G1).
  destruct (foreach_loop v_fixed fuel s1 hi1 stop (S calls) (e :: acc) (nacc ++ ns)) as [[[[s2 hi2] l2] ns2]|]; auto.
  destruct IHfuel. split; auto. eapply same_ctl_trans; eauto.
Qed.

Lemma foreach_safe : forall s P stop, GoodP s P ->
  match h_foreach v_fixed s stop with
  | Ok (s', _, _) => GoodP s' P /\ same_ctl s s'
  | Err e => e = OutOfFuel
  end.
Proof.
  intros. unfold h_foreach.
  generalize (foreach_loop_safe (S (S (length (h_heap s)))) s P h_iter_create stop 0 [] [] (goodp_none_add s P 0 H)).
  destruct (foreach_loop v_fixed (S (S (length (h_heap s)))) s h_iter_create stop 0 [] []) as [[[[s1 hi1] l] ns]|e]; auto.
  intros [G1 C1]. simpl. destruct (iter_free_safe s1 P hi1 G1) as [s2 [ns2 [F1 [F2 C2]]]]. rewrite F1. simpl. split; auto.
  eapply same_ctl_trans; eauto.
Qed.
End Safe.

(* ---------- the other operations ---------- *)
Section Safe2.
Variable hf : key -> N.

Lemma goodp_store : forall s P id n n', GoodP s P -> In id (linked s) -> deref (h_heap s) id = Ok n ->
  hn_ref n' = hn_ref n -> hn_removed n' = hn_removed n -> GoodP (set_heap s (store (h_heap s) id n')) P.
Proof.
  intros s P id n n' G Hin Hd Hr Hm. assert (Hlt : id < length (h_heap s)) by (eapply deref_lt; eauto).
  constructor; simpl; try apply G.
  intros x Hx. change (linked (set_heap s (store (h_heap s) id n'))) with (linked s) in Hx. rewrite deref_store by auto.
  destruct (p_node _ _ G x Hx) as [m [M1 [M2 M3]]]. destruct (Nat.eqb id x) eqn:E.
  - apply Nat.eqb_eq in E. subst x. rewrite Hd in M1. inversion M1; subst m. exists n'. unfold base in *. rewrite Hr, Hm. auto.
  - exists m. auto.
Qed.

Lemma upd_overflow : forall {A} (l : list A) i x, length l <= i -> upd l i x = l.
Proof. induction l; simpl; intros; auto. destruct i. lia. f_equal. apply IHl. lia. Qed.

Lemma lookup_safe : forall s P k b, GoodP s P ->
  exists r, find_node v_fixed (h_heap s) (bucket s b) k = Ok r /\
    (forall id, r = Some id -> In id (bucket s b) /\ exists n, deref (h_heap s) id = Ok n /\ hn_removed n = false).
Proof.
  intros. apply find_node_safe. intros id Hid. apply (goodp_all_live _ _ H). eapply in_bucket_linked; eauto.
Qed.

Lemma get_safe : forall s P k, GoodP s P -> exists x, h_get v_fixed hf s k = Ok x.
Proof.
  intros. unfold h_get. destruct (lookup_safe s P k (bucket_ix hf s k) H) as [r [R1 R2]]. rewrite R1. simpl.
  destruct r as [id|]; eauto. destruct (R2 id eq_refl) as [_ [n [N1 _]]]. rewrite N1. simpl. eauto.
Qed.

Lemma put_safe : forall s P k x, GoodP s P ->
  exists s' ns, h_put v_fixed hf s k x = Ok (s', ns) /\ GoodP s' P /\ same_ctl s s'.
Proof.
  intros s P k x G. unfold h_put. destruct (lookup_safe s P k (bucket_ix hf s k) G) as [r [R1 R2]]. rewrite R1. simpl.
  destruct r as [id|].
  - destruct (R2 id eq_refl) as [Hin [n [N1 N2]]]. rewrite N1. simpl.
    eexists _, _. split; [reflexivity|]. split; [|repeat split].
    eapply goodp_store; eauto. eapply in_bucket_linked; eauto.
  - set (b := bucket_ix hf s k). set (id := length (h_heap s)).
    set (n := {| hn_key := k; hn_val := x; hn_ref := 1; hn_removed := false; hn_subs := [] |}).
    eexists _, _. split; [reflexivity|]. split; [|repeat split].
    assert (FR : forall y, In y (linked s) -> y < id).
    { intros y Hy. destruct (p_node _ _ G y Hy) as [m [M1 _]]. eapply deref_lt; eauto. }
    assert (PC : pcount P id = 0).
    { unfold pcount. rewrite (filter_ext_in' _ (fun _ => false)). clear. induction P; simpl; auto.
      intros hi Hhi. unfold parked_on. destruct (hi_node hi) as [y|] eqn:E; auto. apply Nat.eqb_neq. intro. subst y.
      generalize (p_iter _ _ G hi id Hhi E). intro Q. apply in_bucket_linked in Q. apply FR in Q. lia. }
    destruct (le_lt_dec (nb s) b) as [OV|LT].
    + (* cannot happen for a table with buckets, but harmless: the node is simply not linked *)
      unfold bucket. simpl. rewrite upd_overflow by exact OV.
      constructor; simpl.
      * apply (p_nodup _ _ G).
      * intros y Hy. change (In y (linked s)) in Hy. destruct (p_node _ _ G y Hy) as [m [M1 M2]]. exists m. split; auto.
        rewrite deref_app; auto; eapply deref_lt; eauto.
      * intros hi y Hhi Hn. apply (p_iter _ _ G hi y Hhi Hn).
    + assert (LK : forall y, In y (concat (upd (h_buckets s) b (nth b (h_buckets s) [] ++ [id]))) <-> y = id \/ In y (linked s)).
      { intros. rewrite linked_put_new by exact LT. unfold linked. rewrite (concat_split (h_buckets s) b) by exact LT.
        rewrite ?in_app_iff. simpl. rewrite ?in_app_iff. intuition congruence. }
      constructor; simpl.
      * unfold linked, bucket. simpl. fold b. fold id. rewrite linked_put_new by exact LT.
        apply (Permutation_NoDup (l := id :: linked s)).
        { unfold linked. rewrite (concat_split (h_buckets s) b) at 1 by exact LT. rewrite app_assoc. apply Permutation_middle. }
        constructor. intro Q. apply FR in Q. lia. apply (p_nodup _ _ G).
      * intros y Hy. unfold linked, bucket in Hy. simpl in Hy. fold b in Hy. fold id in Hy. apply LK in Hy. destruct Hy as [Hy|Hy].
        { subst y. exists n. fold id. rewrite deref_app_new. rewrite PC. simpl. auto. }
        { destruct (p_node _ _ G y Hy) as [m [M1 M2]]. exists m. split; auto. rewrite deref_app; auto; apply FR; auto. }
      * intros hi y Hhi Hn. generalize (p_iter _ _ G hi y Hhi Hn). unfold bucket. simpl. fold b. fold id. rewrite nth_upd.
        intro Q. destruct (Nat.eqb b (hi_bucket hi) && Nat.ltb b (length (h_buckets s))) eqn:E; auto.
        apply andb_true_iff in E. destruct E as [E _]. apply Nat.eqb_eq in E. rewrite <- E in Q. apply in_or_app. auto.
Qed.

Lemma rm_safe : forall s P k, GoodP s P ->
  exists s' b ns, h_rm v_fixed hf s k = Ok (s', b, ns) /\ GoodP s' P /\ same_ctl s s'.
Proof.
  intros s P k G. unfold h_rm. set (b := bucket_ix hf s k). destruct (lookup_safe s P k b G) as [r [R1 R2]]. rewrite R1. simpl.
  destruct r as [id|].
  2:{ eexists _, _, _. split; [reflexivity|]. split; [auto|repeat split]. }
  destruct (R2 id eq_refl) as [Hin [n [N1 N2]]]. rewrite N1. simpl.
  assert (Hl : In id (linked s)) by (eapply in_bucket_linked; eauto).
  assert (Hlt : id < length (h_heap s)) by (eapply deref_lt; eauto).
  (* the presence reference behaves like one more parked iterator on the (now removed) node *)
  set (n1 := {| hn_key := hn_key n; hn_val := hn_val n; hn_ref := hn_ref n; hn_removed := true; hn_subs := hn_subs n |}).
  assert (G1 : GoodP (set_heap s (store (h_heap s) id n1)) ({| hi_node := Some id; hi_bucket := b |} :: P)).
  { constructor; simpl.
    - apply (p_nodup _ _ G).
    - intros y Hy. change (In y (linked s)) in Hy. rewrite deref_store by auto. rewrite pcount_cons. unfold parked_on. simpl.
      destruct (p_node _ _ G y Hy) as [m [M1 [M2 M3]]]. destruct (Nat.eqb id y) eqn:E.
      + apply Nat.eqb_eq in E. subst y. rewrite N1 in M1. inversion M1; subst m. exists n1. split; auto.
        unfold base in *. simpl. rewrite N2 in M2. split; auto; try lia.
      + exists m. auto.
    - intros hi y [Hhi|Hhi] Hn. subst hi. simpl in *. inversion Hn; subst. exact Hin. apply (p_iter _ _ G hi y Hhi Hn). }
  destruct (goodp_unpark _ _ _ id G1 eq_refl) as [s2 [ns [U1 [U2 [U3 U4]]]]]. rewrite U1. simpl.
  eexists _, _, _. split; [reflexivity|]. split.
  - constructor; simpl; apply U2.
  - exact U3.
Qed.

Lemma notify_add_safe : forall e1 e2 e3 s P k fn ev ud, GoodP s P ->
  exists s' z, h_notify_add v_fixed hf e1 e2 e3 s k fn ev ud = Ok (s', z) /\ GoodP s' P /\ same_ctl s s'.
Proof.
  intros. unfold h_notify_add. destruct k as [kk|].
  - destruct (has_bit ev EV_FREE). { eexists _, _. split; [reflexivity|]. split; [auto|repeat split]. }
    destruct (lookup_safe s P kk (bucket_ix hf s kk) H) as [r [R1 R2]]. rewrite R1. simpl.
    destruct r as [id|]. 2:{ eexists _, _. split; [reflexivity|]. split; [auto|repeat split]. }
    destruct (R2 id eq_refl) as [Hin [n [N1 N2]]]. rewrite N1. simpl.
    destruct (nsub_conflict (hn_subs n) fn ev ud). { eexists _, _. split; [reflexivity|]. split; [auto|repeat split]. }
    eexists _, _. split; [reflexivity|]. split; [|repeat split]. eapply goodp_store; eauto. eapply in_bucket_linked; eauto.
  - destruct (nsub_conflict (h_subs s) fn ev ud). { eexists _, _. split; [reflexivity|]. split; [auto|repeat split]. }
    eexists _, _. split; [reflexivity|]. split; [|repeat split]. constructor; simpl; apply H.
Qed.

Lemma notify_del_safe : forall e2 s P k fn ev ud, GoodP s P ->
  exists s' z, h_notify_del v_fixed hf e2 s k fn ev ud = Ok (s', z) /\ GoodP s' P /\ same_ctl s s'.
Proof.
  intros. unfold h_notify_del. destruct k as [kk|].
  - destruct (lookup_safe s P kk (bucket_ix hf s kk) H) as [r [R1 R2]]. rewrite R1. simpl.
    destruct r as [id|]. 2:{ eexists _, _. split; [reflexivity|]. split; [auto|repeat split]. }
    destruct (R2 id eq_refl) as [Hin [n [N1 N2]]]. rewrite N1. simpl.
    destruct (existsb (nsub_match fn ev ud) (hn_subs n)). 2:{ eexists _, _. split; [reflexivity|]. split; [auto|repeat split]. }
    eexists _, _. split; [reflexivity|]. split; [|repeat split]. eapply goodp_store; eauto. eapply in_bucket_linked; eauto.
  - destruct (existsb (nsub_match fn ev ud) (h_subs s)). 2:{ eexists _, _. split; [reflexivity|]. split; [auto|repeat split]. }
    eexists _, _. split; [reflexivity|]. split; [|repeat split]. constructor; simpl; apply H.
Qed.

(* destroy: every node is dereferenced once; nothing is touched after it was freed *)
Lemma destroy_nodes_safe : forall l s, NoDup l ->
  (forall id, In id l -> exists n, deref (h_heap s) id = Ok n /\ 1 <= hn_ref n) ->
  exists s' ns, destroy_nodes s l = Ok (s', ns).
Proof.
  induction l; simpl; intros s ND H. eauto.
  inversion ND; subst. destruct (H a) as [n [N1 N2]]. left; auto.
  assert (Hlt : a < length (h_heap s)) by (eapply deref_lt; eauto).
  unfold node_deref. rewrite N1. simpl. destruct (hn_ref n) as [|r] eqn:R. lia.
  destruct r.
  - simpl. match goal with |- context [destroy_nodes ?st l] => destruct (IHl st) as [s' [ns E]]; auto end.
    { intros id Hid. assert (id <> a) by (intro; subst; contradiction). destruct (H id) as [m M]. right; auto. exists m.
      simpl. unfold deref. rewrite nth_error_free_cell by auto. rewrite nth_error_store_other by auto. exact M. }
    rewrite E. simpl. eauto.
  - simpl. match goal with |- context [destroy_nodes ?st l] => destruct (IHl st) as [s' [ns E]]; auto end.
    { intros id Hid. assert (id <> a) by (intro; subst; contradiction). destruct (H id) as [m M]. right; auto. exists m.
      simpl. unfold deref. rewrite nth_error_store_other by auto. exact M. }
    rewrite E. simpl. eauto.
Qed.

Lemma destroy_safe : forall s P, GoodP s P -> exists s' ns, h_destroy s = Ok (s', ns) /\ h_alive s' = false.
Proof.
  intros. unfold h_destroy. destruct (destroy_nodes_safe (concat (h_buckets s)) s (p_nodup _ _ H)) as [s' [ns E]].
  { intros id Hid. destruct (p_node _ _ H id Hid) as [n [N1 [N2 N3]]]. eauto. }
  rewrite E. simpl. eauto.
Qed.
End Safe2.

(* ---------- the traversal loop terminates within its fuel ---------- *)
Lemma after_id_length_lt : forall l id, In id l -> length (after_id id l) < length l.
Proof.
  induction l; simpl; intros. contradiction. destruct (Nat.eqb a id) eqn:E. lia.
  destruct H. subst. rewrite Nat.eqb_refl in E. discriminate. apply IHl in H. lia.
Qed.

Lemma after_id_after : forall l cur id, NoDup l -> In id (after_id cur l) -> after_id id l = after_id id (after_id cur l).
Proof.
  induction l; simpl; intros. contradiction. inversion H; subst.
  destruct (Nat.eqb a cur) eqn:E.
  - destruct (Nat.eqb a id) eqn:E2; auto. apply Nat.eqb_eq in E2. subst. contradiction.
  - assert (In id l) by (eapply after_id_incl; eauto).
    destruct (Nat.eqb a id) eqn:E2. apply Nat.eqb_eq in E2. subst. contradiction. apply IHl; auto.
Qed.

Lemma after_id_remove : forall l cur id, id <> cur -> after_id id (remove_id cur l) = remove_id cur (after_id id l).
Proof.
  unfold remove_id. induction l; simpl; intros; auto.
  destruct (Nat.eqb a cur) eqn:E; simpl.
  - apply Nat.eqb_eq in E. subst. replace (Nat.eqb cur id) with false by (symmetry; apply Nat.eqb_neq; auto). apply IHl; auto.
  - destruct (Nat.eqb a id) eqn:E2; auto.
Qed.

Lemma filter_len_le : forall {A} (p : A -> bool) l, length (filter p l) <= length l.
Proof. induction l; simpl; auto. destruct (p a); simpl; lia. Qed.

Lemma skipn_map' : forall {A B} (f : A -> B) l n, skipn n (map f l) = map f (skipn n l).
Proof. induction l; destruct n; simpl; auto. Qed.

Definition cands_hi (s : hstate) (hi : hiter) : list nat :=
  match hi_node hi with Some cur => after_id cur (bucket s (hi_bucket hi)) | None => bucket s (hi_bucket hi) end.
Definition mu (s : hstate) (hi : hiter) : nat :=
  if Nat.ltb (hi_bucket hi) (nb s) then length (cands_hi s hi ++ concat (skipn (S (hi_bucket hi)) (h_buckets s))) else 0.

(* position (id, b') inside the remaining sequence of position (cands, b0): what is left after it is shorter *)
Lemma suffix_shorter : forall (B : list (list nat)) b0 cands id b',
  ((In id cands /\ b' = b0 /\ exists l, NoDup l /\ nth b0 B [] = l /\ (cands = l \/ exists cur, cands = after_id cur l)) \/
   (exists j, b' = S (b0 + j) /\ In id (nth j (skipn (S b0) B) []))) ->
  length (after_id id (nth b' B []) ++ concat (skipn (S b') B)) < length (cands ++ concat (skipn (S b0) B)).
Proof.
  intros B b0 cands id b' [[H1 [H2 [l [ND [HL HC]]]]]|[j [H1 H2]]].
  - subst b'. rewrite HL. rewrite !app_length. destruct HC as [HC|[cur HC]]; subst cands.
    + generalize (after_id_length_lt l id H1). lia.
    + rewrite (after_id_after l cur id ND H1). generalize (after_id_length_lt _ id H1). lia.
  - subst b'. set (rest := skipn (S b0) B) in *.
    assert (J : j < length rest). { destruct (le_lt_dec (length rest) j); auto. rewrite nth_overflow in H2 by auto. contradiction. }
    replace (nth (S (b0 + j)) B []) with (nth j rest []) by (unfold rest; rewrite nth_skipn'; f_equal; lia).
    replace (skipn (S (S (b0 + j))) B) with (skipn (S j) rest) by (unfold rest; rewrite skipn_skipn'; f_equal; lia).
    rewrite (concat_split rest j J). rewrite !app_length. generalize (after_id_length_lt _ id H2). lia.
Qed.

Lemma mu_remove : forall (B : list (list nat)) cur id b', id <> cur ->
  length (after_id id (nth b' (map (remove_id cur) B) []) ++ concat (skipn (S b') (map (remove_id cur) B))) <=
  length (after_id id (nth b' B []) ++ concat (skipn (S b') B)).
Proof.
  intros. rewrite nth_map_remove, skipn_map'. rewrite after_id_remove by auto. unfold remove_id at 2. rewrite concat_filter.
  unfold remove_id. rewrite <- filter_app. apply filter_len_le.
Qed.

Section Fuel.
Variable hf : key -> N.

Lemma iter_next_dec : forall s P hi s' hi' e ns, GoodP s (hi :: P) ->
  h_iter_next v_fixed s hi = Ok (s', hi', Some e, ns) -> mu s' hi' < mu s hi.
Proof.
  intros s P hi s' hi' e ns G. unfold h_iter_next.
  set (b0 := hi_bucket hi).
  assert (NDb : forall b, NoDup (bucket s b)) by (intros; unfold bucket; apply nodup_concat_nth; apply (p_nodup _ _ G)).
  assert (F : (match hi_node hi with
               | Some cur => do _ <- deref (h_heap s) cur; Ok (after_id cur (bucket s b0))
               | None => Ok (bucket s b0) end) = Ok (cands_hi s hi)).
  { unfold cands_hi. fold b0. destruct (hi_node hi) as [cur|] eqn:Hc; auto.
    assert (Hb : In cur (bucket s b0)) by (apply (p_iter _ _ G hi cur); auto; left; auto).
    destruct (p_node _ _ G cur (in_bucket_linked _ _ _ Hb)) as [n [N1 _]]. rewrite N1. reflexivity. }
  rewrite F. cbn [bind].
  destruct (Nat.ltb b0 (nb s)) eqn:LT.
  2:{ cbn [bind]. destruct (hi_node hi) as [cur|]; simpl.
      - destruct (node_deref s cur) as [[s2 ns2]|]; simpl; intro Q; discriminate.
      - intro Q; discriminate. }
  destruct (scan_buckets_safe (h_heap s) (skipn (S b0) (h_buckets s)) b0 (cands_hi s hi)) as [r [R1 R2]].
  { intros id Hid. apply (goodp_all_live _ _ G). apply in_app_or in Hid. destruct Hid as [Hid|Hid].
    - unfold cands_hi in Hid. fold b0 in Hid. destruct (hi_node hi); [apply after_id_incl in Hid|]; eapply in_bucket_linked; eauto.
    - apply in_concat_skipn in Hid. destruct Hid as [b' [_ Hid]]. eapply in_bucket_linked; eauto. }
  rewrite R1. cbn [bind]. destruct r as [[id b']|].
  2:{ cbn [bind]. destruct (hi_node hi) as [cur|]; simpl.
      - destruct (node_deref s cur) as [[s2 ns2]|]; simpl; intro Q; discriminate.
      - intro Q; discriminate. }
  (* the position found *)
  assert (POS : (In id (cands_hi s hi) /\ b' = b0 /\ exists l, NoDup l /\ nth b0 (h_buckets s) [] = l /\
                   (cands_hi s hi = l \/ exists cur, cands_hi s hi = after_id cur l)) \/
                (exists j, b' = S (b0 + j) /\ In id (nth j (skipn (S b0) (h_buckets s)) []))).
  { destruct (R2 id b' eq_refl) as [[Q1 Q2]|Q]; auto. left. split; auto. split; auto.
    exists (bucket s b0). split; auto. split; auto. unfold cands_hi. fold b0. destruct (hi_node hi); eauto. }
  assert (Hin : In id (bucket s b')).
  { destruct POS as [[Q1 [Q2 _]]|[j [Q1 Q2]]].
    - subst. unfold cands_hi in Q1. fold b0 in Q1. destruct (hi_node hi); auto. eapply after_id_incl; eauto.
    - subst. rewrite nth_skipn' in Q2. unfold bucket. replace (S (b0 + j)) with (S b0 + j) by lia. auto. }
  assert (Hb' : b' < nb s).
  { unfold nb. destruct (le_lt_dec (length (h_buckets s)) b'); auto. unfold bucket in Hin. rewrite nth_overflow in Hin by auto. contradiction. }
  assert (MU : mu s hi = length (cands_hi s hi ++ concat (skipn (S b0) (h_buckets s)))).
  { unfold mu. fold b0. rewrite LT. auto. }
  generalize (suffix_shorter (h_buckets s) b0 (cands_hi s hi) id b' POS). rewrite <- MU. intro DEC.
  destruct (p_node _ _ G id (in_bucket_linked _ _ _ Hin)) as [n [N1 _]]. rewrite N1. cbn [bind].
  fold (bumpn n).
  destruct (hi_node hi) as [cur|] eqn:Hc.
  - assert (G1 : GoodP (set_heap s (store (h_heap s) id (bumpn n))) (hi :: {| hi_node := Some id; hi_bucket := b' |} :: P)).
    { eapply goodp_perm. apply perm_swap. apply goodp_park; auto. }
    destruct (goodp_unpark _ _ hi cur G1 Hc) as [s2 [ns2 [U1 [U2 [U3 U4]]]]]. rewrite U1. cbn [bind].
    (* cur is not the node found: it lies before the remaining sequence *)
    assert (NE : id <> cur).
    { intro; subst id. assert (Hbc : In cur (bucket s b0)) by (apply (p_iter _ _ G hi cur); auto; left; auto).
      destruct POS as [[Q1 _]|[j [Q1 Q2]]].
      - unfold cands_hi in Q1. fold b0 in Q1. rewrite Hc in Q1. eapply after_id_notin; eauto.
      - rewrite nth_skipn' in Q2. assert (S b0 + j = b0). { eapply nodup_concat_unique; eauto. apply (p_nodup _ _ G). } lia. }
    assert (M2 : mu s2 {| hi_node := Some id; hi_bucket := b' |} < mu s hi).
    {
    assert (U4' : h_buckets s2 = h_buckets s \/ h_buckets s2 = map (remove_id cur) (h_buckets s)) by exact U4.
    apply Nat.ltb_lt in Hb'.
    unfold mu at 1. cbn [hi_bucket hi_node]. unfold nb, cands_hi, bucket. cbn [hi_bucket hi_node].
    destruct U4' as [U5|U5]; rewrite U5.
    + fold (nb s). rewrite Hb'. exact DEC.
    + rewrite map_length. fold (nb s). rewrite Hb'. eapply Nat.le_lt_trans. apply mu_remove; auto. exact DEC.
    }
    destruct (deref (h_heap s2) id) as [n2|]; simpl; intro Q; inversion Q; subst. exact M2.
  - simpl. rewrite deref_store by (eapply deref_lt; eauto). rewrite Nat.eqb_refl. simpl. intro Q; inversion Q; subst. clear Q.
    apply Nat.ltb_lt in Hb'.
    unfold mu at 1. cbn [hi_bucket hi_node]. unfold nb, cands_hi, bucket. cbn [hi_bucket hi_node h_buckets set_heap].
    fold (nb s). rewrite Hb'. exact DEC.
Qed.

Lemma foreach_loop_total : forall fuel s P hi stop calls acc nacc, GoodP s (hi :: P) -> mu s hi < fuel ->
  exists s' hi' l ns, foreach_loop v_fixed fuel s hi stop calls acc nacc = Ok (s', hi', l, ns).
Proof.
  induction fuel; simpl; intros. lia.
  destruct (iter_next_safe s P hi H) as [s1 [hi1 [r [ns [E [G1 [C1 _]]]]]]]. rewrite E. simpl.
  destruct r as [e|]; eauto.
  destruct (negb (Nat.eqb stop 0) && Nat.leb stop (S calls)); eauto.
  apply IHfuel with (P := P); auto. generalize (iter_next_dec s P hi s1 hi1 e ns H E). lia.
Qed.

Lemma mu_start : forall s P, GoodP s P -> mu s h_iter_create <= length (h_heap s).
Proof.
  intros. unfold mu, h_iter_create, cands_hi, bucket. cbn [hi_bucket hi_node]. destruct (Nat.ltb 0 (nb s)) eqn:E; [|lia].
  apply Nat.ltb_lt in E.
  assert (nth 0 (h_buckets s) [] ++ concat (skipn 1 (h_buckets s)) = linked s).
  { unfold linked. rewrite (concat_split (h_buckets s) 0) by exact E. reflexivity. }
  rewrite H0. apply nodup_bounded_length. apply (p_nodup _ _ H).
  intros x Hx. destruct (p_node _ _ H x Hx) as [n [N _]]. eapply deref_lt; eauto.
Qed.

Lemma foreach_total : forall s P stop, GoodP s P -> exists s' l ns, h_foreach v_fixed s stop = Ok (s', l, ns).
Proof.
  intros. unfold h_foreach.
  destruct (foreach_loop_total (S (S (length (h_heap s)))) s P h_iter_create stop 0 [] [] (goodp_none_add s P 0 H)) as [s1 [hi1 [l [ns E]]]].
  { generalize (mu_start s P H). lia. }
  rewrite E. simpl.
  generalize (foreach_loop_safe (S (S (length (h_heap s)))) s P h_iter_create stop 0 [] [] (goodp_none_add s P 0 H)). rewrite E.
  intros [G1 _]. destruct (iter_free_safe s1 P hi1 G1) as [s2 [ns2 [F1 _]]]. rewrite F1. simpl. eauto.
Qed.
End Fuel.

(* ---------- all histories ---------- *)
Definition its (s : hstate) : list hiter := map snd (h_iters s).
Record Top (s : hstate) : Prop := {
  t_good : GoodP s (its s);
  t_ids : NoDup (map fst (h_iters s));
  t_used : incl (map fst (h_iters s)) (h_used s)
}.
Definition TopInv (s : hstate) : Prop := h_alive s = false \/ Top s.

Lemma iter_split : forall l it hi, iter_lookup l it = Some hi ->
  exists l1 l2, l = l1 ++ (it, hi) :: l2 /\ ~ In it (map fst l1).
Proof.
  induction l as [|[i h] l]; simpl; intros. discriminate.
  destruct (Nat.eqb i it) eqn:E.
  - apply Nat.eqb_eq in E. subst. inversion H; subst. exists [], l. split; auto.
  - destruct (IHl it hi H) as [l1 [l2 [Q1 Q2]]]. exists ((i, h) :: l1), l2. subst. split; auto.
    simpl. intros [Q|Q]; auto. subst. rewrite Nat.eqb_refl in E. discriminate.
Qed.

Lemma iter_set_split : forall l1 l2 it hi hi', ~ In it (map fst l1) -> ~ In it (map fst l2) ->
  iter_set (l1 ++ (it, hi) :: l2) it hi' = l1 ++ (it, hi') :: l2 /\ iter_remove (l1 ++ (it, hi) :: l2) it = l1 ++ l2.
Proof.
  intros. unfold iter_set, iter_remove. rewrite map_app, filter_app. simpl. rewrite Nat.eqb_refl. simpl.
  assert (A : forall l, ~ In it (map fst l) ->
              map (fun p : nat * hiter => if Nat.eqb (fst p) it then (it, hi') else p) l = l /\
              filter (fun p : nat * hiter => negb (Nat.eqb (fst p) it)) l = l).
  { induction l as [|[i h] l]; simpl; intros; auto. destruct (Nat.eqb i it) eqn:E.
    - apply Nat.eqb_eq in E. subst. exfalso. apply H1. left; auto.
    - simpl. destruct IHl as [I1 I2]. intro. apply H1. right; auto. rewrite I1, I2. auto. }
  destruct (A l1 H) as [A1 A2]. destruct (A l2 H0) as [B1 B2]. rewrite A1, A2, B1, B2. auto.
Qed.

Lemma goodp_ctl : forall s s' P, h_heap s' = h_heap s -> h_buckets s' = h_buckets s -> GoodP s P -> GoodP s' P.
Proof.
  intros. destruct H1 as [A B C]. constructor.
  - unfold linked in *. rewrite H0. auto.
  - intros id Hid. unfold linked in *. rewrite H0 in Hid. rewrite H. auto.
  - intros hi id Hhi Hn. unfold bucket. rewrite H0. apply C; auto.
Qed.

Section Run.
Variable hf : key -> N.
Variable rc : Z * Z * Z.

Lemma top_same : forall s s', Top s -> GoodP s' (its s) -> same_ctl s s' -> TopInv s'.
Proof.
  intros s s' T G [C1 [C2 C3]]. right. constructor.
  - unfold its. rewrite C1. exact G.
  - rewrite C1. apply (t_ids _ T).
  - rewrite C1, C2. apply (t_used _ T).
Qed.

Theorem hash_step_safe : forall s o, TopInv s ->
  match h_step v_fixed hf rc s o with
  | Ok (s', _, _) => TopInv s'
  | Err e => e = OutOfFuel
  end.
Proof.
  intros s o [D|T]; destruct rc as [[e1 e2] e3]; unfold h_step.
  - rewrite D. simpl. left; auto.
  - destruct (h_alive s) eqn:A; simpl. 2:{ left; auto. }
    destruct o.
    + destruct (put_safe hf s (its s) k v (t_good _ T)) as [s' [ns [E [G C]]]]. rewrite E. simpl. eapply top_same; eauto.
    + destruct (get_safe hf s (its s) k (t_good _ T)) as [x E]. rewrite E. simpl. right; auto.
    + destruct (rm_safe hf s (its s) k (t_good _ T)) as [s' [b [ns [E [G C]]]]]. rewrite E. simpl. eapply top_same; eauto.
    + right; auto.
    + generalize (foreach_safe s (its s) stop (t_good _ T)).
      destruct (h_foreach v_fixed s stop) as [[[s' l] ns]|e]; simpl; auto. intros [G C]. eapply top_same; eauto.
    + destruct (notify_add_safe hf e1 e2 e3 s (its s) k fn ev ud (t_good _ T)) as [s' [z [E [G C]]]]. rewrite E. simpl. eapply top_same; eauto.
    + destruct (notify_del_safe hf e2 s (its s) k fn ev ud (t_good _ T)) as [s' [z [E [G C]]]]. rewrite E. simpl. eapply top_same; eauto.
    + destruct (destroy_safe s (its s) (t_good _ T)) as [s' [ns [E D]]]. rewrite E. simpl. left. exact D.
    + destruct (existsb (Nat.eqb it) (h_used s)) eqn:U. right; auto.
      right. constructor; simpl.
      * unfold its. simpl. eapply goodp_ctl. 3:{ apply goodp_none_add. apply (t_good _ T). } reflexivity. reflexivity.
      * constructor. 2: apply (t_ids _ T). intro Q. apply (t_used _ T) in Q.
        assert (existsb (Nat.eqb it) (h_used s) = true) by (apply existsb_exists; exists it; split; auto; apply Nat.eqb_refl). congruence.
      * intros x [Hx|Hx]. left; auto. right. apply (t_used _ T); auto.
    + destruct (iter_lookup (h_iters s) it) as [hi|] eqn:L. 2:{ right; auto. }
      destruct (iter_split _ _ _ L) as [l1 [l2 [Q1 Q2]]].
      assert (Q3 : ~ In it (map fst l2)).
      { generalize (t_ids _ T). rewrite Q1, map_app. simpl. intro ND. apply nodup_app_r in ND. inversion ND; auto. }
      assert (PM : Permutation (its s) (hi :: map snd l1 ++ map snd l2)).
      { unfold its. rewrite Q1, map_app. simpl. apply Permutation_sym. apply Permutation_middle. }
      destruct (iter_next_safe s (map snd l1 ++ map snd l2) hi (goodp_perm _ _ _ PM (t_good _ T))) as [s1 [hi1 [r [ns [E [G [[C1 [C2 C3]] _]]]]]]].
      rewrite E. simpl. right. rewrite C1, Q1. destruct (iter_set_split l1 l2 it hi hi1 Q2 Q3) as [S1 _]. rewrite S1.
      constructor; simpl.
      * unfold its. simpl. rewrite map_app. simpl. eapply goodp_ctl. 3:{ eapply goodp_perm. apply Permutation_middle. exact G. } reflexivity. reflexivity.
      * generalize (t_ids _ T). rewrite Q1, !map_app. simpl. auto.
      * rewrite C2. generalize (t_used _ T). rewrite Q1, !map_app. simpl. auto.
    + destruct (iter_lookup (h_iters s) it) as [hi|] eqn:L. 2:{ right; auto. }
      destruct (iter_split _ _ _ L) as [l1 [l2 [Q1 Q2]]].
      assert (Q3 : ~ In it (map fst l2)).
      { generalize (t_ids _ T). rewrite Q1, map_app. simpl. intro ND. apply nodup_app_r in ND. inversion ND; auto. }
      assert (PM : Permutation (its s) (hi :: map snd l1 ++ map snd l2)).
      { unfold its. rewrite Q1, map_app. simpl. apply Permutation_sym. apply Permutation_middle. }
      destruct (iter_free_safe s (map snd l1 ++ map snd l2) hi (goodp_perm _ _ _ PM (t_good _ T))) as [s1 [ns [E [G [C1 [C2 C3]]]]]].
      rewrite E. simpl. right. rewrite C1, Q1. destruct (iter_set_split l1 l2 it hi hi Q2 Q3) as [_ S2]. rewrite S2.
      constructor; simpl.
      * unfold its. simpl. rewrite map_app. eapply goodp_ctl. 3: exact G. reflexivity. reflexivity.
      * generalize (t_ids _ T). rewrite Q1, !map_app. simpl. intro ND. apply NoDup_remove_1 in ND. auto.
      * rewrite C2. intros x Hx. apply (t_used _ T). rewrite Q1, !map_app. rewrite map_app in Hx. simpl.
        apply in_app_or in Hx. apply in_or_app. destruct Hx; auto. right. right. auto.
Qed.

Theorem hash_step_total : forall s o, TopInv s ->
  exists s' x ns, h_step v_fixed hf rc s o = Ok (s', x, ns) /\ TopInv s'.
Proof.
  intros s o [D|T]; destruct rc as [[e1 e2] e3]; unfold h_step.
  - rewrite D. simpl. eexists _, _, _; split; [reflexivity|]. left; auto.
  - destruct (h_alive s) eqn:A; simpl. 2:{ eexists _, _, _; split; [reflexivity|]. left; auto. }
    destruct o.
    + destruct (put_safe hf s (its s) k v (t_good _ T)) as [s' [ns [E [G C]]]]. rewrite E. simpl. eexists _, _, _; split; [reflexivity|]. eapply top_same; eauto.
    + destruct (get_safe hf s (its s) k (t_good _ T)) as [x E]. rewrite E. simpl. eexists _, _, _; split; [reflexivity|]. right; auto.
    + destruct (rm_safe hf s (its s) k (t_good _ T)) as [s' [b [ns [E [G C]]]]]. rewrite E. simpl. eexists _, _, _; split; [reflexivity|]. eapply top_same; eauto.
    + eexists _, _, _; split; [reflexivity|]. right; auto.
    + generalize (foreach_safe s (its s) stop (t_good _ T)).
      destruct (foreach_total s (its s) stop (t_good _ T)) as [s' [l [ns E]]]. rewrite E. simpl. intros [G C].
      eexists _, _, _; split; [reflexivity|]. eapply top_same; eauto.
    + destruct (notify_add_safe hf e1 e2 e3 s (its s) k fn ev ud (t_good _ T)) as [s' [z [E [G C]]]]. rewrite E. simpl. eexists _, _, _; split; [reflexivity|]. eapply top_same; eauto.
    + destruct (notify_del_safe hf e2 s (its s) k fn ev ud (t_good _ T)) as [s' [z [E [G C]]]]. rewrite E. simpl. eexists _, _, _; split; [reflexivity|]. eapply top_same; eauto.
    + destruct (destroy_safe s (its s) (t_good _ T)) as [s' [ns [E D]]]. rewrite E. simpl. eexists _, _, _; split; [reflexivity|]. left. exact D.
    + destruct (existsb (Nat.eqb it) (h_used s)) eqn:U. eexists _, _, _; split; [reflexivity|]. right; auto.
      eexists _, _, _; split; [reflexivity|]. right. constructor; simpl.
      * unfold its. simpl. eapply goodp_ctl. 3:{ apply goodp_none_add. apply (t_good _ T). } reflexivity. reflexivity.
      * constructor. 2: apply (t_ids _ T). intro Q. apply (t_used _ T) in Q.
        assert (existsb (Nat.eqb it) (h_used s) = true) by (apply existsb_exists; exists it; split; auto; apply Nat.eqb_refl). congruence.
      * intros x [Hx|Hx]. left; auto. right. apply (t_used _ T); auto.
    + destruct (iter_lookup (h_iters s) it) as [hi|] eqn:L. 2:{ eexists _, _, _; split; [reflexivity|]. right; auto. }
      destruct (iter_split _ _ _ L) as [l1 [l2 [Q1 Q2]]].
      assert (Q3 : ~ In it (map fst l2)).
      { generalize (t_ids _ T). rewrite Q1, map_app. simpl. intro ND. apply nodup_app_r in ND. inversion ND; auto. }
      assert (PM : Permutation (its s) (hi :: map snd l1 ++ map snd l2)).
      { unfold its. rewrite Q1, map_app. simpl. apply Permutation_sym. apply Permutation_middle. }
      destruct (iter_next_safe s (map snd l1 ++ map snd l2) hi (goodp_perm _ _ _ PM (t_good _ T))) as [s1 [hi1 [r [ns [E [G [[C1 [C2 C3]] _]]]]]]].
      rewrite E. simpl. eexists _, _, _; split; [reflexivity|]. right. rewrite C1, Q1. destruct (iter_set_split l1 l2 it hi hi1 Q2 Q3) as [S1 _]. rewrite S1.
      constructor; simpl.
      * unfold its. simpl. rewrite map_app. simpl. eapply goodp_ctl. 3:{ eapply goodp_perm. apply Permutation_middle. exact G. } reflexivity. reflexivity.
      * generalize (t_ids _ T). rewrite Q1, !map_app. simpl. auto.
      * rewrite C2. generalize (t_used _ T). rewrite Q1, !map_app. simpl. auto.
    + destruct (iter_lookup (h_iters s) it) as [hi|] eqn:L. 2:{ eexists _, _, _; split; [reflexivity|]. right; auto. }
      destruct (iter_split _ _ _ L) as [l1 [l2 [Q1 Q2]]].
      assert (Q3 : ~ In it (map fst l2)).
      { generalize (t_ids _ T). rewrite Q1, map_app. simpl. intro ND. apply nodup_app_r in ND. inversion ND; auto. }
      assert (PM : Permutation (its s) (hi :: map snd l1 ++ map snd l2)).
      { unfold its. rewrite Q1, map_app. simpl. apply Permutation_sym. apply Permutation_middle. }
      destruct (iter_free_safe s (map snd l1 ++ map snd l2) hi (goodp_perm _ _ _ PM (t_good _ T))) as [s1 [ns [E [G [C1 [C2 C3]]]]]].
      rewrite E. simpl. eexists _, _, _; split; [reflexivity|]. right. rewrite C1, Q1. destruct (iter_set_split l1 l2 it hi hi Q2 Q3) as [_ S2]. rewrite S2.
      constructor; simpl.
      * unfold its. simpl. rewrite map_app. eapply goodp_ctl. 3: exact G. reflexivity. reflexivity.
      * generalize (t_ids _ T). rewrite Q1, !map_app. simpl. intro ND. apply NoDup_remove_1 in ND. auto.
      * rewrite C2. intros x Hx. apply (t_used _ T). rewrite Q1, !map_app. rewrite map_app in Hx. simpl.
        apply in_app_or in Hx. apply in_or_app. destruct Hx; auto. right. right. auto.
Qed.

Lemma top_create : forall m, TopInv (h_create m).
Proof.
  intros. right. assert (L : linked (h_create m) = []) by (unfold linked, h_create; simpl; apply concat_repeat_nil).
  constructor; simpl; try constructor.
  - rewrite L. constructor.
  - rewrite L. intros id [].
  - intros hi id [].
  - intros x [].
Qed.

(* C18, first clause, pointer-level hashtable model: for EVERY history the run never reaches UseAfterFree,
   OutOfBounds or RefUnderflow; the only error the statement leaves open is the model's own fuel bound of
   qb_map_foreach (excluded for iterator-free histories by C17_hashtable_no_error) *)
Theorem hash_c18_safe_from : forall ops s, TopInv s ->
  match snd (h_run v_fixed hf rc s ops) with None => True | Some e => e = OutOfFuel end.
Proof.
  induction ops; simpl; intros; auto.
  generalize (hash_step_safe s a H). destruct (h_step v_fixed hf rc s a) as [[[s' x] ns]|e]; simpl; auto.
  intro T. specialize (IHops s' T). destruct (h_run v_fixed hf rc s' ops). simpl in *. auto.
Qed.

Theorem hash_c18_safe : forall m ops,
  match snd (h_run v_fixed hf rc (h_create m) ops) with None => True | Some e => e = OutOfFuel end.
Proof. intros. apply hash_c18_safe_from. apply top_create. Qed.
(* C18, first clause, in full: EVERY history runs to its end without any error state (no use after free, no out of
   bounds, no reference underflow, and the traversal loop stays within its fuel) *)
Theorem hash_c18_no_error_from : forall ops s, TopInv s -> snd (h_run v_fixed hf rc s ops) = None.
Proof.
  induction ops; simpl; intros; auto.
  destruct (hash_step_total s a H) as [s' [x [ns [E T]]]]. rewrite E.
  specialize (IHops s' T). destruct (h_run v_fixed hf rc s' ops). simpl in *. auto.
Qed.

Theorem hash_c18_no_error : forall m ops, snd (h_run v_fixed hf rc (h_create m) ops) = None.
Proof. intros. apply hash_c18_no_error_from. apply top_create. Qed.
End Run.

Lemma c18_example_state :
  match h_state_after v_fixed MapHashProofs.hf8 rc_consts (h_create 8%N)
          [Put MapHashProofs.ka 1%N; IterCreate 0 None; IterNext 0; Rm MapHashProofs.ka] with
  | Ok s => pcount (its s) 0 = 1 /\ exists n, deref (h_heap s) 0 = Ok n /\ hn_removed n = true /\ hn_ref n = 1
  | Err _ => False
  end.
Proof. vm_compute. split; auto. eexists. split; [reflexivity|]. split; reflexivity. Qed.
