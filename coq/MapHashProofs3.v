(* MapHashProofs3 - C18 for the pointer-level hashtable model (MapHashModel, repaired variant v_fixed):
   for ALL histories - any interleaving of iterator create / next / free (any number of iterators, next after
   the end, abandoned iterators) with put / get / rm / count / foreach / notify / destroy - no operation reaches an
   error state (UseAfterFree, OutOfBounds, RefUnderflow, OutOfFuel).
   Invariant [GoodP s P]: P = the positions of all iterators that currently hold a reference (caller-held ones
   and the temporary one of qb_map_foreach); every linked node is a live heap cell whose reference count is
   (0 if removed else 1) + the number of iterators parked on it, and is at least 1; every parked iterator's node
   is linked in the bucket the iterator remembers. *)
From Coq Require Import List NArith ZArith Bool Arith Lia Permutation.
Require Import Verif.MapSpec Verif.MapHashModel Verif.MapRefModel Verif.MapRefProofs Verif.MapHashProofs2.
Import ListNotations.

Definition parked_on (id : nat) (hi : hiter) : bool :=
  match hi_node hi with Some x => Nat.eqb x id | None => false end.
Definition pcount (P : list hiter) (id : nat) : nat := length (filter (parked_on id) P).
Definition base (n : hnode) : nat := if hn_removed n then 0 else 1.

Record GoodP (s : hstate) (P : list hiter) : Prop := {
  p_nodup : NoDup (linked s);
  p_node : forall id, In id (linked s) ->
           exists n, deref (h_heap s) id = Ok n /\ hn_ref n = base n + pcount P id /\ 1 <= hn_ref n;
  p_iter : forall hi id, In hi P -> hi_node hi = Some id -> In id (bucket s (hi_bucket hi))
}.

Lemma pcount_perm : forall P P' id, Permutation P P' -> pcount P id = pcount P' id.
Proof.
  intros. unfold pcount. induction H; simpl; auto.
  - destruct (parked_on id x); simpl; auto.
  - destruct (parked_on id x), (parked_on id y); simpl; auto.
  - congruence.
Qed.

Lemma goodp_perm : forall s P P', Permutation P P' -> GoodP s P -> GoodP s P'.
Proof.
  intros. constructor.
  - apply (p_nodup _ _ H0).
  - intros id Hid. destruct (p_node _ _ H0 id Hid) as [n [N1 [N2 N3]]]. exists n. rewrite <- (pcount_perm P P') by auto. auto.
  - intros hi id Hhi Hn. apply (p_iter _ _ H0 hi id); auto. eapply Permutation_in; [apply Permutation_sym; eauto|auto].
Qed.

Lemma pcount_cons : forall hi P id, pcount (hi :: P) id = (if parked_on id hi then 1 else 0) + pcount P id.
Proof. intros. unfold pcount. simpl. destruct (parked_on id hi); auto. Qed.

Lemma pcount_pos : forall P hi id, In hi P -> hi_node hi = Some id -> 1 <= pcount P id.
Proof.
  induction P; simpl; intros. contradiction. rewrite pcount_cons. destruct H.
  - subst. unfold parked_on. rewrite H0, Nat.eqb_refl. lia.
  - specialize (IHP hi id H H0). lia.
Qed.

Lemma in_bucket_linked : forall s b id, In id (bucket s b) -> In id (linked s).
Proof. intros. unfold linked, bucket in *. apply in_concat_nth. eauto. Qed.

(* an iterator that is not parked anywhere does not count *)
Lemma goodp_none_add : forall s P b, GoodP s P -> GoodP s ({| hi_node := None; hi_bucket := b |} :: P).
Proof.
  intros. constructor; try apply H.
  intros hi id [Hhi|Hhi] Hn. subst. discriminate. eapply (p_iter _ _ H); eauto.
Qed.
Lemma goodp_none_del : forall s P hi, hi_node hi = None -> GoodP s (hi :: P) -> GoodP s P.
Proof.
  intros. constructor; try apply H0.
  - intros id Hid. destruct (p_node _ _ H0 id Hid) as [n N]. exists n. rewrite pcount_cons in N. unfold parked_on in N. rewrite H in N. auto.
  - intros hi' id Hhi Hn. eapply (p_iter _ _ H0); eauto. right; auto.
Qed.

(* M1: an iterator takes a reference on a linked node *)
Lemma goodp_park : forall s P id b n, GoodP s P -> In id (bucket s b) -> deref (h_heap s) id = Ok n ->
  GoodP (set_heap s (store (h_heap s) id (bumpn n))) ({| hi_node := Some id; hi_bucket := b |} :: P).
Proof.
  intros s P id b n G Hin Hd. assert (Hlt : id < length (h_heap s)) by (eapply deref_lt; eauto).
  constructor; simpl.
  - apply (p_nodup _ _ G).
  - intros x Hx. change (linked (set_heap s (store (h_heap s) id (bumpn n)))) with (linked s) in Hx.
    rewrite deref_store by auto. rewrite pcount_cons. unfold parked_on. simpl.
    destruct (p_node _ _ G x Hx) as [m [M1 [M2 M3]]].
    destruct (Nat.eqb id x) eqn:E.
    + apply Nat.eqb_eq in E. subst x. rewrite Hd in M1. inversion M1; subst m. exists (bumpn n). split; auto.
      unfold bumpn, base in *. simpl. lia.
    + exists m. split; auto; try lia.
  - intros hi x [Hhi|Hhi] Hn.
    + subst hi. simpl in *. inversion Hn; subst. exact Hin.
    + apply (p_iter _ _ G hi x Hhi Hn).
Qed.

Definition same_ctl (s s' : hstate) : Prop :=
  h_iters s' = h_iters s /\ h_used s' = h_used s /\ h_alive s' = h_alive s.
Lemma same_ctl_refl : forall s, same_ctl s s. Proof. intros. repeat split. Qed.
Lemma same_ctl_trans : forall a b c, same_ctl a b -> same_ctl b c -> same_ctl a c.
Proof. unfold same_ctl. intros a b c [A1 [A2 A3]] [B1 [B2 B3]]. repeat split; congruence. Qed.

(* M2: an iterator drops its reference (hashtable_node_deref of its node) *)
Lemma goodp_unpark : forall s P hi cur, GoodP s (hi :: P) -> hi_node hi = Some cur ->
  exists s' ns, node_deref s cur = Ok (s', ns) /\ GoodP s' P /\ same_ctl s s'.
Proof.
  intros s P hi cur G Hc.
  assert (Hb : In cur (bucket s (hi_bucket hi))) by (apply (p_iter _ _ G hi cur); auto; left; auto).
  assert (Hl : In cur (linked s)) by (eapply in_bucket_linked; eauto).
  destruct (p_node _ _ G cur Hl) as [n [N1 [N2 N3]]].
  assert (Hlt : cur < length (h_heap s)) by (eapply deref_lt; eauto).
  rewrite pcount_cons in N2. unfold parked_on in N2. rewrite Hc, Nat.eqb_refl in N2.
  unfold node_deref. rewrite N1. simpl.
  destruct (hn_ref n) as [|r] eqn:R. lia.
  destruct r as [|r].
  - (* last reference: the node is destroyed *)
    assert (B0 : base n = 0) by lia. assert (P0 : pcount P cur = 0) by lia.
    eexists _, _. split; [reflexivity|]. split.
    + simpl. constructor; simpl.
      * unfold linked. simpl. unfold remove_id. rewrite concat_filter. apply NoDup_filter. apply (p_nodup _ _ G).
      * intros x Hx. unfold linked in Hx. simpl in Hx. unfold remove_id in Hx. rewrite concat_filter in Hx. apply filter_In in Hx.
        destruct Hx as [Hx1 Hx2]. apply negb_true_iff in Hx2. apply Nat.eqb_neq in Hx2.
        destruct (p_node _ _ G x Hx1) as [m [M1 [M2 M3]]]. exists m.
        rewrite pcount_cons in M2. unfold parked_on in M2. rewrite Hc in M2.
        replace (Nat.eqb cur x) with false in M2 by (symmetry; apply Nat.eqb_neq; auto).
        split; auto. unfold deref. rewrite nth_error_free_cell by auto. rewrite nth_error_store_other by auto. apply M1.
      * intros hi2 x Hhi2 Hn. unfold bucket. simpl. rewrite nth_map_remove. unfold remove_id. apply filter_In. split.
        apply (p_iter _ _ G hi2 x); auto. right; auto.
        apply negb_true_iff. apply Nat.eqb_neq. intro; subst x. generalize (pcount_pos P hi2 cur Hhi2 Hn). lia.
    + repeat split.
  - (* other references remain *)
    eexists _, _. split; [reflexivity|]. split.
    + constructor; simpl.
      * apply (p_nodup _ _ G).
      * intros x Hx. change (linked (set_heap s _)) with (linked s) in Hx. rewrite deref_store by auto.
        destruct (p_node _ _ G x Hx) as [m [M1 [M2 M3]]]. rewrite pcount_cons in M2. unfold parked_on in M2. rewrite Hc in M2.
        destruct (Nat.eqb cur x) eqn:E.
        { apply Nat.eqb_eq in E. subst x. eexists. split; [reflexivity|]. unfold base in *. simpl. lia. }
        { exists m. split; auto. }
      * intros hi2 x Hhi2 Hn. apply (p_iter _ _ G hi2 x); auto. right; auto.
    + repeat split.
Qed.

(* ---------- the list walks never touch a freed cell ---------- *)
Definition all_live (h : heap) (l : list nat) : Prop := forall id, In id l -> exists n, deref h id = Ok n.

Lemma goodp_all_live : forall s P, GoodP s P -> all_live (h_heap s) (linked s).
Proof. intros s P G id Hid. destruct (p_node _ _ G id Hid) as [n [N _]]. eauto. Qed.

Lemma find_node_safe : forall h l k, all_live h l ->
  exists r, find_node v_fixed h l k = Ok r /\ (forall id, r = Some id -> In id l /\ exists n, deref h id = Ok n /\ hn_removed n = false).
Proof.
  induction l; simpl; intros.
  - exists None. split; auto. intros; discriminate.
  - destruct (H a) as [n N]. left; auto. rewrite N. simpl. destruct (node_matches v_fixed n k) eqn:M.
    + exists (Some a). split; auto. intros id Hid. inversion Hid; subst. split; auto. exists n. split; auto.
      unfold node_matches in M. simpl in M. apply andb_true_iff in M. destruct M as [M _]. apply negb_true_iff in M. auto.
    + destruct (IHl k) as [r [R1 R2]]. intros id Hid. apply H. right; auto. exists r. split; auto.
      intros id Hid. destruct (R2 id Hid). split; auto.
Qed.

Lemma scan_safe : forall h l, all_live h l -> exists r, scan v_fixed h l = Ok r /\ (forall id, r = Some id -> In id l).
Proof.
  induction l; simpl; intros.
  - exists None. split; auto. intros; discriminate.
  - destruct (H a) as [n N]. left; auto. rewrite N. simpl. destruct (eligible v_fixed n).
    + exists (Some a). split; auto. intros id Hid. inversion Hid; auto.
    + destruct IHl as [r [R1 R2]]. intros id Hid. apply H. right; auto. exists r. split; auto.
Qed.

Lemma scan_buckets_safe : forall h rest b cands, all_live h (cands ++ concat rest) ->
  exists r, scan_buckets v_fixed h b cands rest = Ok r /\
    (forall id b', r = Some (id, b') -> (In id cands /\ b' = b) \/ (exists j, b' = S (b + j) /\ In id (nth j rest []))).
Proof.
  induction rest; simpl; intros b cands H.
  - destruct (scan_safe h cands) as [r [R1 R2]]. intros id Hid. apply H. apply in_or_app; auto.
    rewrite R1. simpl. destruct r as [id|].
    + exists (Some (id, b)). split; auto. intros id' b' E. inversion E; subst. left. auto.
    + exists None. split; auto. intros; discriminate.
  - destruct (scan_safe h cands) as [r [R1 R2]]. intros id Hid. apply H. apply in_or_app; auto.
    rewrite R1. simpl. destruct r as [id|].
    + exists (Some (id, b)). split; auto. intros id' b' E. inversion E; subst. left. auto.
    + destruct (IHrest (S b) a) as [r' [Q1 Q2]]. intros id Hid. apply H. apply in_or_app; auto.
      exists r'. split; auto. intros id b' E. destruct (Q2 id b' E) as [[Q3 Q4]|[j [Q3 Q4]]].
      * right. exists 0. split. lia. auto.
      * right. exists (S j). split. lia. auto.
Qed.

(* ---------- iterator operations ---------- *)
Section Safe.
Variable hf : key -> N.

Definition okf {A} (r : res A) : Prop := match r with Ok _ => True | Err OutOfFuel => True | Err _ => False end.

Lemma iter_next_safe : forall s P hi, GoodP s (hi :: P) ->
  exists s' hi' r ns, h_iter_next v_fixed s hi = Ok (s', hi', r, ns) /\ GoodP s' (hi' :: P) /\ same_ctl s s'.
Proof.
  intros s P hi G. unfold h_iter_next.
  set (b0 := hi_bucket hi).
  (* first *)
  assert (F : exists first, (match hi_node hi with
                             | Some cur => do _ <- deref (h_heap s) cur; Ok (after_id cur (bucket s b0))
                             | None => Ok (bucket s b0) end) = Ok first /\ forall x, In x first -> In x (bucket s b0)).
  { destruct (hi_node hi) as [cur|] eqn:Hc.
    - assert (Hb : In cur (bucket s b0)) by (apply (p_iter _ _ G hi cur); auto; left; auto).
      destruct (p_node _ _ G cur (in_bucket_linked _ _ _ Hb)) as [n [N1 _]]. rewrite N1. simpl.
      eexists. split; [reflexivity|]. intros. eapply after_id_incl; eauto.
    - eexists. split; [reflexivity|]. auto. }
  destruct F as [first [F1 F2]]. rewrite F1. cbn [bind].
  (* found *)
  assert (FO : exists found, (if Nat.ltb b0 (nb s) then scan_buckets v_fixed (h_heap s) b0 first (skipn (S b0) (h_buckets s)) else Ok None) = Ok found /\
               forall id b', found = Some (id, b') -> In id (bucket s b')).
  { destruct (Nat.ltb b0 (nb s)).
    - destruct (scan_buckets_safe (h_heap s) (skipn (S b0) (h_buckets s)) b0 first) as [r [R1 R2]].
      { intros id Hid. apply (goodp_all_live _ _ G). apply in_app_or in Hid. destruct Hid as [Hid|Hid].
        eapply in_bucket_linked; eauto. apply in_concat_skipn in Hid. destruct Hid as [b' [_ Hid]]. eapply in_bucket_linked; eauto. }
      exists r. split; auto. intros id b' E. destruct (R2 id b' E) as [[Q1 Q2]|[j [Q1 Q2]]].
      + subst. auto.
      + subst. rewrite nth_skipn' in Q2. unfold bucket. replace (S (b0 + j)) with (S b0 + j) by lia. auto.
    - exists None. split; auto. intros; discriminate. }
  destruct FO as [found [FO1 FO2]]. rewrite FO1. cbn [bind].
  destruct found as [[id b']|].
  - (* park on id, then leave the old node *)
    assert (Hin : In id (bucket s b')) by (apply FO2; auto).
    destruct (p_node _ _ G id (in_bucket_linked _ _ _ Hin)) as [n [N1 _]]. rewrite N1. simpl.
    assert (G1 : GoodP (set_heap s (store (h_heap s) id (bumpn n))) (hi :: {| hi_node := Some id; hi_bucket := b' |} :: P)).
    { eapply goodp_perm. apply perm_swap. apply goodp_park; auto. }
    fold (bumpn n).
    destruct (hi_node hi) as [cur|] eqn:Hc.
    + destruct (goodp_unpark _ _ hi cur G1 Hc) as [s2 [ns [U1 [U2 U3]]]]. rewrite U1. simpl.
      assert (Hin2 : In id (bucket s2 b')) by (apply (p_iter _ _ U2 {| hi_node := Some id; hi_bucket := b' |} id); auto; left; auto).
      destruct (p_node _ _ U2 id (in_bucket_linked _ _ _ Hin2)) as [n2 [M1 _]]. rewrite M1. simpl.
      eexists _, _, _, _. split; [reflexivity|]. split; [auto|exact U3].
    + assert (G2 : GoodP (set_heap s (store (h_heap s) id (bumpn n))) ({| hi_node := Some id; hi_bucket := b' |} :: P)).
      { eapply goodp_none_del; eauto. }
      simpl. rewrite deref_store by (eapply deref_lt; eauto). rewrite Nat.eqb_refl. simpl.
      eexists _, _, _, _. split; [reflexivity|]. split; [auto|repeat split].
  - destruct (hi_node hi) as [cur|] eqn:Hc.
    + destruct (goodp_unpark _ _ hi cur G Hc) as [s2 [ns [U1 [U2 U3]]]]. simpl. rewrite U1. simpl.
      eexists _, _, _, _. split; [reflexivity|]. split; [apply goodp_none_add; auto|exact U3].
    + simpl. eexists _, _, _, _. split; [reflexivity|]. split; [apply goodp_none_add; eapply goodp_none_del; eauto|repeat split].
Qed.

Lemma iter_free_safe : forall s P hi, GoodP s (hi :: P) ->
  exists s' ns, h_iter_free v_fixed s hi = Ok (s', ns) /\ GoodP s' P /\ same_ctl s s'.
Proof.
  intros. unfold h_iter_free. simpl. destruct (hi_node hi) as [cur|] eqn:Hc.
  - destruct (goodp_unpark _ _ hi cur H Hc) as [s2 [ns [U1 [U2 U3]]]]. eauto.
  - eexists _, _. split; [reflexivity|]. split; [eapply goodp_none_del; eauto|repeat split].
Qed.

(* qb_map_foreach: the loop either completes or runs out of the model's fuel; it never touches a freed cell *)
Lemma foreach_loop_safe : forall fuel s P hi stop calls acc nacc, GoodP s (hi :: P) ->
  match foreach_loop v_fixed fuel s hi stop calls acc nacc with
  | Ok (s', hi', _, _) => GoodP s' (hi' :: P) /\ same_ctl s s'
  | Err e => e = OutOfFuel
  end.
Proof.
  induction fuel; simpl; intros; auto.
  destruct (iter_next_safe s P hi H) as [s1 [hi1 [r [ns [E [G1 C1]]]]]]. rewrite E. simpl.
  destruct r as [e|]; auto.
  destruct (negb (Nat.eqb stop 0) && Nat.leb stop (S calls)); auto.
  specialize (IHfuel s1 P hi1 stop (S calls) (e :: acc) (nacc ++ ns) G1).
  destruct (foreach_loop v_fixed fuel s1 hi1 stop (S calls) (e :: acc) (nacc ++ ns)) as [[[[s2 hi2] l2] ns2]|]; auto.
  destruct IHfuel. split; auto. eapply same_ctl_trans; eauto.
Qed.

Lemma foreach_safe : forall s P stop, GoodP s P ->
  match h_foreach v_fixed s stop with
  | Ok (s', _, _) => GoodP s' P /\ same_ctl s s'
  | Err e => e = OutOfFuel
  end.
Proof.
  intros. unfold h_foreach.
  generalize (foreach_loop_safe (S (S (length (h_heap s)))) s P h_iter_create stop 0 [] [] (goodp_none_add s P 0 H)).
  destruct (foreach_loop v_fixed (S (S (length (h_heap s)))) s h_iter_create stop 0 [] []) as [[[[s1 hi1] l] ns]|e]; auto.
  intros [G1 C1]. simpl. destruct (iter_free_safe s1 P hi1 G1) as [s2 [ns2 [F1 [F2 C2]]]]. rewrite F1. simpl. split; auto.
  eapply same_ctl_trans; eauto.
Qed.
End Safe.
