(* C13 - bounds theorems about the repaired line formatter of LogFmtModel.v ([fx = true]):
   for all formats, messages, call-site data, limits >= 1, ellipsis settings, oracle texts and prior buffer
   contents: no out-of-bounds access and a NUL inside the limit. *)
From Coq Require Import List ZArith Bool Lia.
Require Import Verif.gen.Consts_logfmt Verif.SerModel Verif.SerProofs Verif.LogFmtModel.
Import ListNotations.
Open Scope Z_scope.

Definition fgood (L : Z) (r : fres) : Prop :=
  exists buf, r = FDone buf /\ zlen buf = L /\ exists k, 0 <= k < L /\ rd buf k = 0.

Lemma store_bytes_rd_after : forall bs buf i b j, store_bytes buf i bs = Some b -> 0 <= i -> i + zlen bs <= j -> rd b j = rd buf j.
Proof.
  induction bs as [|x t IH]; intros buf i b j H Hi Hj.
  - cbn in H. inversion H. reflexivity.
  - cbn [store_bytes] in H. destruct (store buf i x) as [b1|] eqn:E1; [|discriminate].
    rewrite zlen_cons in Hj. pose proof (zlen_nonneg _ t).
    rewrite (IH b1 (i + 1) b j H) by lia. eapply rd_store_other; eauto; lia.
Qed.

Lemma tf_finish_good : forall L ell st, 1 <= L ->
  zlen (f_buf st) = L -> 0 <= f_idx st <= L - 1 -> fgood L (tf_finish true L ell st).
Proof.
  intros L ell st HL Hb Hi. unfold tf_finish.
  set (idx := f_idx st) in *.
  assert (Hb1 : exists b1, (if (0 <? idx) && (rd (f_buf st) (idx - 1) =? 10) then store (f_buf st) (idx - 1) 0 else Some (f_buf st)) = Some b1 /\ zlen b1 = L).
  { destruct ((0 <? idx) && (rd (f_buf st) (idx - 1) =? 10)) eqn:E.
    - apply andb_true_iff in E. destruct E as [E _]. apply Z.ltb_lt in E.
      destruct (store_some (f_buf st) (idx - 1) 0) as [b [Eb Lb]]; [lia|]. exists b. split; [exact Eb | lia].
    - exists (f_buf st). split; [reflexivity | exact Hb]. }
  destruct Hb1 as [b1 [E1 L1]]. rewrite E1.
  destruct (store_some b1 idx 0) as [b2 [E2 L2]]; [lia|]. rewrite E2.
  destruct (ell && (wrapsz (L - 1) <=? idx) && (3 <=? idx)) eqn:EE.
  - apply andb_true_iff in EE. destruct EE as [_ E3]. apply Z.leb_le in E3.
    destruct (store_bytes_some [46; 46; 46] b2 (idx - 3)) as [b3 [E3b L3]]; [lia | |].
    { change (zlen [46; 46; 46]) with 3. lia. }
    rewrite E3b. exists b3. split; [reflexivity|]. split; [lia|]. exists idx. split; [lia|].
    rewrite (store_bytes_rd_after _ _ _ _ idx E3b); [| lia | change (zlen [46; 46; 46]) with 3; lia].
    eapply rd_store_same; eauto.
  - exists b2. split; [reflexivity|]. split; [lia|]. exists idx. split; [lia|]. eapply rd_store_same; eauto.
Qed.

Lemma sf_finish_good : forall L st, zlen (f_buf st) = L -> 0 <= f_idx st <= L - 1 -> fgood L (sf_finish st).
Proof.
  intros L st Hb Hi. unfold sf_finish.
  destruct (store_some (f_buf st) (f_idx st) 0) as [b [E Lb]]; [lia|]. rewrite E.
  exists b. split; [reflexivity|]. split; [lia|]. exists (f_idx st). split; [lia|]. eapply rd_store_same; eauto.
Qed.

Lemma atoi_cutoff_nonneg : forall ds, 0 <= atoi_cutoff ds.
Proof. intros. unfold atoi_cutoff. destruct ds; [lia|]. apply wrapsz_nonneg. Qed.

Section LoopBounds.
  Variable L : Z.
  Variable dynamic : bool.
  Variable field : Z -> option (list Z).
  Variable finish : fst -> fres.
  Hypothesis HL : 1 <= L < SIZE_MOD.
  Hypothesis Hfin : forall st, zlen (f_buf st) = L -> 0 <= f_idx st <= L - 1 -> fgood L (finish st).

  Lemma emit_good : forall st src cutoff ralign k,
    zlen (f_buf st) = L -> 0 <= f_idx st -> f_idx st + 1 < L -> 0 <= cutoff ->
    (forall st', zlen (f_buf st') = L -> 0 <= f_idx st' <= L - 1 -> fgood L (k st')) ->
    fgood L (emit L st src cutoff ralign k).
  Proof.
    intros st src cutoff ralign k Hb Hi0 Hi1 Hc Hk. unfold emit, strcpy_cutoff_m.
    rewrite wrapsz_small by lia.
    replace (L - f_idx st <=? 1) with false by (symmetry; apply Z.leb_gt; lia).
    set (c1 := if cutoff =? 0 then zlen src else cutoff).
    pose proof (zlen_nonneg _ src) as Hs.
    assert (Hc1 : 0 <= c1) by (unfold c1; destruct (cutoff =? 0); lia).
    set (c2 := Z.min c1 (L - f_idx st - 1)).
    set (l2 := Z.min (zlen src) c2).
    set (bytes := if ralign then repeat 32 (Z.to_nat (c2 - l2)) ++ takeZ l2 src
                  else takeZ l2 src ++ repeat 32 (Z.to_nat (c2 - l2))).
    assert (Hlen : zlen bytes = c2).
    { unfold bytes. destruct ralign; rewrite zlen_app, zlen_repeat, zlen_takeZ; unfold l2, c2; lia. }
    destruct (store_bytes_some (bytes ++ [0]) (f_buf st) (f_idx st)) as [b [Eb Lb]]; [lia | |].
    { rewrite zlen_app, Hlen. change (zlen [0]) with 1. unfold c2. lia. }
    rewrite Eb. apply Hk; cbn; [lia|].
    assert (0 <= c2) by (unfold c2; lia).
    pose proof (wrap32_bounds c2). pose proof (wrap32_bounds (f_idx st + wrap32 c2)). unfold c2 in *. lia.
  Qed.

  Lemma bottom_good : forall st k,
    zlen (f_buf st) = L -> 0 <= f_idx st <= L - 1 ->
    (forall st', zlen (f_buf st') = L -> 0 <= f_idx st' <= L - 1 -> fgood L (k st')) ->
    fgood L (bottom L finish st k).
  Proof.
    intros st k Hb Hi Hk. unfold bottom. destruct (wrapsz (L - 1) <=? f_idx st); [apply Hfin | apply Hk]; auto.
  Qed.

  Lemma conv_good : forall st ralign ds txt c k,
    zlen (f_buf st) = L -> 0 <= f_idx st -> f_idx st + 1 < L ->
    (forall st', zlen (f_buf st') = L -> 0 <= f_idx st' <= L - 1 -> fgood L (k st')) ->
    fgood L (conv L dynamic field st ralign ds txt c k).
  Proof.
    intros st ralign ds txt c k Hb H0 H1 Hk. unfold conv.
    pose proof (atoi_cutoff_nonneg ds). pose proof (zlen_nonneg _ txt).
    destruct (field c); [apply emit_good; auto|].
    destruct dynamic; apply emit_good; auto; lia.
  Qed.

  Definition fminv (m : fmode) (st : fst) : Prop :=
    zlen (f_buf st) = L /\ 0 <= f_idx st /\
    match m with MLit => f_idx st <= L - 1 | MDir _ _ _ _ => f_idx st + 1 < L end.

  Lemma fmt_go_good : forall f m st, fminv m st -> fgood L (fmt_go true L dynamic field finish f m st).
  Proof.
    induction f as [|c f' IH]; intros m st [Hb [H0 Hm]].
    - destruct m as [|ralign ds dash_ok txt]; cbn [fmt_go].
      + apply Hfin; auto; lia.
      + apply conv_good; [exact Hb | exact H0 | exact Hm | ]. intros st' Hb' Hi'.
        apply bottom_good; [exact Hb' | exact Hi' | ]. intros. apply Hfin; assumption.
    - destruct m as [|ralign ds dash_ok txt]; cbn [fmt_go andb].
      + destruct (L <=? f_idx st + 1) eqn:E; [apply Hfin; auto; lia|]. apply Z.leb_gt in E.
        destruct (c =? 37); [apply IH; repeat split; auto; lia|].
        destruct (store_some (f_buf st) (f_idx st) c) as [b [Eb Lb]]; [lia|]. rewrite Eb.
        pose proof (wrap32_bounds (f_idx st + 1)).
        apply bottom_good; cbn; try lia. intros. apply IH. repeat split; auto; lia.
      + destruct (dash_ok && (c =? 45)); [apply IH; repeat split; auto|].
        destruct (is_digit c); [apply IH; repeat split; auto|].
        apply conv_good; [exact Hb | exact H0 | exact Hm | ]. intros st' Hb' Hi'.
        apply bottom_good; [exact Hb' | exact Hi' | ]. intros. apply IH. repeat split; auto; lia.
  Qed.
End LoopBounds.

Theorem target_format_bounds : forall fmt cs msg L ell o garbage,
  1 <= L < SIZE_MOD -> zlen garbage = L ->
  fgood L (target_format true fmt cs msg L ell o garbage).
Proof.
  intros. unfold target_format. apply fmt_go_good; auto.
  - intros. apply tf_finish_good; auto; lia.
  - repeat split; cbn; lia.
Qed.

(* qb_log_format_set: the expansion goes into modified_format[size]; with the limit L <= size nothing is stored
   outside it and the result is a C string shorter than L *)
Theorem format_static_bounds : forall fmt L o garbage,
  1 <= L < SIZE_MOD -> L <= zlen garbage ->
  exists buf, format_static true fmt L o garbage = FDone buf /\ zlen buf = zlen garbage /\
              exists k, 0 <= k < L /\ rd buf k = 0.
Proof.
  intros fmt L o garbage HL Hg.
  (* the loop never looks beyond the first L bytes: run the lemma on a buffer that is a prefix-sized view *)
  assert (Hgen : forall f m st, zlen (f_buf st) = zlen garbage -> 0 <= f_idx st ->
            match m with MLit => f_idx st <= L - 1 | MDir _ _ _ _ => f_idx st + 1 < L end ->
            exists buf, fmt_go true L false
                          (fun c => if c =? 80 then Some (o_pid o) else if c =? 78 then Some (o_name o)
                                    else if c =? 72 then Some (o_host o) else None) sf_finish f m st = FDone buf /\
                        zlen buf = zlen garbage /\ exists k, 0 <= k < L /\ rd buf k = 0).
  { set (field := fun c => if c =? 80 then Some (o_pid o) else if c =? 78 then Some (o_name o)
                                    else if c =? 72 then Some (o_host o) else None).
    set (G := zlen garbage) in *.
    assert (Hfin : forall st, zlen (f_buf st) = G -> 0 <= f_idx st <= L - 1 ->
               exists buf, sf_finish st = FDone buf /\ zlen buf = G /\ exists k, 0 <= k < L /\ rd buf k = 0).
    { intros st Hb Hi. unfold sf_finish.
      destruct (store_some (f_buf st) (f_idx st) 0) as [b [E Lb]]; [lia|]. rewrite E.
      exists b. split; [reflexivity|]. split; [lia|]. exists (f_idx st). split; [lia|]. eapply rd_store_same; eauto. }
    assert (Hemit : forall st src cutoff ralign k,
               zlen (f_buf st) = G -> 0 <= f_idx st -> f_idx st + 1 < L -> 0 <= cutoff ->
               (forall st', zlen (f_buf st') = G -> 0 <= f_idx st' <= L - 1 ->
                  exists buf, k st' = FDone buf /\ zlen buf = G /\ exists k0, 0 <= k0 < L /\ rd buf k0 = 0) ->
               exists buf, emit L st src cutoff ralign k = FDone buf /\ zlen buf = G /\ exists k0, 0 <= k0 < L /\ rd buf k0 = 0).
    { intros st src cutoff ralign k Hb Hi0 Hi1 Hc Hk. unfold emit, strcpy_cutoff_m.
      rewrite wrapsz_small by lia.
      replace (L - f_idx st <=? 1) with false by (symmetry; apply Z.leb_gt; lia).
      set (c1 := if cutoff =? 0 then zlen src else cutoff).
      pose proof (zlen_nonneg _ src) as Hs.
      assert (Hc1 : 0 <= c1) by (unfold c1; destruct (cutoff =? 0); lia).
      set (c2 := Z.min c1 (L - f_idx st - 1)).
      set (l2 := Z.min (zlen src) c2).
      set (bytes := if ralign then repeat 32 (Z.to_nat (c2 - l2)) ++ takeZ l2 src
                    else takeZ l2 src ++ repeat 32 (Z.to_nat (c2 - l2))).
      assert (Hlen : zlen bytes = c2).
      { unfold bytes. destruct ralign; rewrite zlen_app, zlen_repeat, zlen_takeZ; unfold l2, c2; lia. }
      destruct (store_bytes_some (bytes ++ [0]) (f_buf st) (f_idx st)) as [b [Eb Lb]]; [lia | |].
      { rewrite zlen_app, Hlen. change (zlen [0]) with 1. unfold c2. lia. }
      rewrite Eb. apply Hk; cbn; [lia|].
      assert (0 <= c2) by (unfold c2; lia).
      pose proof (wrap32_bounds c2). pose proof (wrap32_bounds (f_idx st + wrap32 c2)). unfold c2 in *. lia. }
    assert (Hbottom : forall st k, zlen (f_buf st) = G -> 0 <= f_idx st <= L - 1 ->
               (forall st', zlen (f_buf st') = G -> 0 <= f_idx st' <= L - 1 ->
                  exists buf, k st' = FDone buf /\ zlen buf = G /\ exists k0, 0 <= k0 < L /\ rd buf k0 = 0) ->
               exists buf, bottom L sf_finish st k = FDone buf /\ zlen buf = G /\ exists k0, 0 <= k0 < L /\ rd buf k0 = 0).
    { intros st k Hb Hi Hk. unfold bottom. destruct (wrapsz (L - 1) <=? f_idx st); [apply Hfin | apply Hk]; auto. }
    assert (Hconv : forall st ralign ds txt c k, zlen (f_buf st) = G -> 0 <= f_idx st -> f_idx st + 1 < L ->
               (forall st', zlen (f_buf st') = G -> 0 <= f_idx st' <= L - 1 ->
                  exists buf, k st' = FDone buf /\ zlen buf = G /\ exists k0, 0 <= k0 < L /\ rd buf k0 = 0) ->
               exists buf, conv L false field st ralign ds txt c k = FDone buf /\ zlen buf = G /\ exists k0, 0 <= k0 < L /\ rd buf k0 = 0).
    { intros st ralign ds txt c k Hb H0 H1 Hk. unfold conv.
      pose proof (atoi_cutoff_nonneg ds). pose proof (zlen_nonneg _ txt).
      destruct (field c); apply Hemit; auto; lia. }
    induction f as [|c f' IH]; intros m st Hb H0 Hm.
    - destruct m as [|ralign ds dash_ok txt]; cbn [fmt_go].
      + apply Hfin; auto; lia.
      + apply Hconv; [exact Hb | exact H0 | exact Hm | ]. intros st' Hb' Hi'.
        apply Hbottom; [exact Hb' | exact Hi' | ]. intros. apply Hfin; assumption.
    - destruct m as [|ralign ds dash_ok txt]; cbn [fmt_go andb].
      + destruct (L <=? f_idx st + 1) eqn:E; [apply Hfin; auto; lia|]. apply Z.leb_gt in E.
        destruct (c =? 37); [apply IH; auto; lia|].
        destruct (store_some (f_buf st) (f_idx st) c) as [b [Eb Lb]]; [lia|]. rewrite Eb.
        pose proof (wrap32_bounds (f_idx st + 1)).
        apply Hbottom; cbn; try lia. intros. apply IH; auto; lia.
      + destruct (dash_ok && (c =? 45)); [apply IH; auto|].
        destruct (is_digit c); [apply IH; auto|].
        apply Hconv; [exact Hb | exact H0 | exact Hm | ]. intros st' Hb' Hi'.
        apply Hbottom; [exact Hb' | exact Hi' | ]. intros. apply IH; auto; lia. }
  unfold format_static. apply Hgen; cbn; lia.
Qed.

(* the control API (repaired) accepts exactly the limits the theorems cover *)
Theorem ctl_accepts_range : forall v, ctl_accepts_line_len true v = true <-> 1 <= v <= LF_ABSOLUTE_MAX_LEN.
Proof.
  intros v. unfold ctl_accepts_line_len. rewrite andb_true_iff, Z.leb_le, Z.leb_le. reflexivity.
Qed.

Lemma modified_format_fits : forall v, ctl_accepts_line_len true v = true -> v <= MODIFIED_FORMAT_SIZE true.
Proof. intros v H. apply ctl_accepts_range in H. unfold MODIFIED_FORMAT_SIZE. lia. Qed.
