(* C20 property theorems: statements only, each closed by `exact`. *)
From Coq Require Import ZArith List.
Require Import Verif.HdbModel Verif.HdbProofs.
Import ListNotations.
Local Open Scope Z_scope.

Theorem C20_invariant_all_histories : forall ops, Inv (fst (run hdb_init ops)).
Proof. exact inv_run_init. Qed.
Print Assumptions C20_invariant_all_histories.
