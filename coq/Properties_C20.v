(* C20 - handle database: the property theorems.  Statements only; each is closed by `exact`.
   The model (HdbModel.v) transcribes lib/hdb.c; `run hdb_init ops` is the state after an
   arbitrary history `ops` of create/get/put/destroy/refcount/iterate calls with arbitrary
   (issued, stale, never-issued, no-check) handle values. *)
From Coq Require Import ZArith List.
Require Import Verif.gen.Consts_hdb Verif.HdbModel Verif.HdbConvert Verif.HdbProofs Verif.HdbProofs2 Verif.HdbIter.
Import ListNotations.
Local Open Scope Z_scope.

(* side conditions on constants regenerated from /repo: memset(0) means EMPTY, states distinct, 64-bit handle *)
Theorem C20_consts_ok :
  HDB_STATE_EMPTY = 0 /\ HDB_STATE_ACTIVE <> HDB_STATE_EMPTY /\ HDB_STATE_PENDINGREMOVAL <> HDB_STATE_EMPTY /\
  HDB_STATE_PENDINGREMOVAL <> HDB_STATE_ACTIVE /\ HDB_SIZEOF_HANDLE_T = 8 /\ HDB_SIZEOF_CHECK = 4.
Proof. exact (conj st_empty_zero (conj st_active_ne_empty (conj st_pending_ne_empty (conj st_pending_ne_active
              (conj (proj1 handle_is_64_bits) (proj1 (proj2 handle_is_64_bits))))))). Qed.
Print Assumptions C20_consts_ok.

(* representation invariant in every reachable state: live slots have count >= 1, one slot per object,
   no live object has been destructed, no object destructed twice *)
Theorem C20_invariant_all_histories : forall ops, Inv (fst (run hdb_init ops)).
Proof. exact inv_run_init. Qed.
Print Assumptions C20_invariant_all_histories.

(* the destructor runs at most once per object, over every history *)
Theorem C20_destructor_at_most_once : forall ops, NoDup (dlog (fst (run hdb_init ops))).
Proof. exact dlog_nodup_all_histories. Qed.
Print Assumptions C20_destructor_at_most_once.

(* ... and exactly at the put/destroy that takes the count from 1 to 0, never otherwise (any state, any op) *)
Theorem C20_destructor_exactly_at_zero : forall d o,
  dlog (fst (step d o)) = match expected_dtor d o with Some x => x :: dlog d | None => dlog d end.
Proof. exact dtor_exact. Qed.
Print Assumptions C20_destructor_exactly_at_zero.

(* count of object x after any history = (1 for its creation + gets and iterator visits that returned x)
   - (puts and destroys that resolved to x) *)
Theorem C20_refcount_equation : forall ops x,
  refs_in (slots (fst (run hdb_init ops))) x = net hdb_init ops x.
Proof. exact refcount_equation_init. Qed.
Print Assumptions C20_refcount_equation.

(* ... and that number is what refcount_get reports for any handle resolving to x *)
Theorem C20_refcount_reported : forall d h i s,
  Inv d -> lookup d h = Some (i, s) -> do_refcount d h = refs_in (slots d) (s_inst s).
Proof. exact refcount_reported. Qed.
Print Assumptions C20_refcount_reported.

(* the last put (or destroy) makes the handle dead ... *)
Theorem C20_last_put_kills : forall h d i s,
  lookup d h = Some (i, s) -> s_ref s = 1 -> check_of h <> NOCHECK ->
  dead_for h (fst (do_put d h)) /\ dead_for h (fst (do_destroy d h)).
Proof. exact last_put_kills. Qed.
Print Assumptions C20_last_put_kills.

(* ... and a dead handle value (stale, or never issued) - and hence every copy of it - is refused by
   get/put/destroy/refcount_get with -EBADF and no state change, for ever, also after its slot is reused,
   provided no later create draws the same check word (freshness of random(), the stated hypothesis) *)
Theorem C20_stale_rejected_forever : forall ops h d,
  dead_for h d -> (forall o, In o ops -> o <> Create (check_of h)) ->
  dead_for h (fst (run d ops)) /\ Forall (fun r => r = ORes (- HDB_EBADF) 0) (outs_on h d ops).
Proof. exact stale_rejected_forever. Qed.
Print Assumptions C20_stale_rejected_forever.

Theorem C20_stale_op_changes_nothing : forall h d o,
  dead_for h d -> op_on h o -> step d o = (d, ORes (- HDB_EBADF) 0).
Proof. exact stale_rejected_now. Qed.
Print Assumptions C20_stale_op_changes_nothing.

(* a handle resolves to the object it was created for until that object's destructor has run *)
Theorem C20_create_owns : forall d chk d' h,
  Inv d -> 0 <= chk < two31 -> do_create d chk = (d', ORes 0 h) -> owns d' h (next_inst d).
Proof. exact create_owns. Qed.
Print Assumptions C20_create_owns.

Theorem C20_owner_survives_every_step : forall d h x o,
  Inv d -> owns d h x -> owns (fst (step d o)) h x \/ In x (dlog (fst (step d o))).
Proof. exact owns_step. Qed.
Print Assumptions C20_owner_survives_every_step.

(* get on the owner: the object while ACTIVE; refused once destroy was called (PENDINGREMOVAL) *)
Theorem C20_get_resolves_until_destroy : forall d h x,
  owns d h x ->
  forall s, nth_error (slots d) (Z.to_nat (idx_of h)) = Some s ->
  (s_state s = HDB_STATE_ACTIVE -> snd (fst (do_get d h)) = 0 /\ snd (do_get d h) = x) /\
  (s_state s <> HDB_STATE_ACTIVE -> do_get d h = (d, - HDB_EBADF, 0)).
Proof. exact owns_get. Qed.
Print Assumptions C20_get_resolves_until_destroy.

(* iteration (reset, then next until it fails) returns precisely the objects that have not been destroyed
   (slots in state ACTIVE), each once, in slot order - after every history whose check words are in random()'s range *)
Theorem C20_iteration_visits_exactly_undestroyed : forall ops,
  Forall create_in_range ops ->
  let d := fst (run hdb_init ops) in
  iterate (S (length (slots d))) (fst (step d IterReset)) = undestroyed d.
Proof. exact iteration_complete_all_histories. Qed.
Print Assumptions C20_iteration_visits_exactly_undestroyed.


(* qb_hdb_base_convert / qb_hdb_nocheck_convert: the no-check form of a handle names the same slot and is
   validated without comparing the check word, so it resolves to whatever object lives in that slot now -
   which is why the stale-handle theorems above require check_of h <> NOCHECK. *)
Theorem C20_nocheck_form_same_slot : forall c i, 0 <= i < two31 ->
  idx_of (nocheck_convert (base_convert (mk_handle c i))) = idx_of (mk_handle c i) /\
  check_of (nocheck_convert (base_convert (mk_handle c i))) = NOCHECK.
Proof. exact nocheck_of_base_same_slot. Qed.
Print Assumptions C20_nocheck_form_same_slot.

Theorem C20_nocheck_form_resolves_current_object : forall d i s,
  0 <= i < handle_count d -> i < two31 ->
  nth_error (slots d) (Z.to_nat i) = Some s -> s_state s <> HDB_STATE_EMPTY ->
  lookup d (nocheck_convert i) = Some (i, s).
Proof. exact nocheck_lookup. Qed.
Print Assumptions C20_nocheck_form_resolves_current_object.

Example C20_ex_convert :
  base_convert 0x0000003d00000007 = 7 /\ nocheck_convert 7 = 0xffffffff00000007 /\
  nocheck_convert (two32 + 7) = 0xffffffff00000007.
Proof. exact ex_convert. Qed.

(* the repaired defect, kept as a refutation of the pre-fix validation (see known_findings.json) *)
Theorem C20_unfixed_validation_refuted :
  exists ops h, dead_for h (fst (run hdb_init ops)) /\ lookup_unfixed (fst (run hdb_init ops)) h <> None.
Proof. exact unfixed_refuted. Qed.
Print Assumptions C20_unfixed_validation_refuted.

(* non-vacuity: concrete histories meeting the hypotheses above *)
Example C20_ex_stale_is_dead : dead_for (mk_handle 11 0) (fst (run hdb_init ex_ops)).
Proof. exact ex_stale_is_dead. Qed.
Example C20_ex_owner : owns (fst (run hdb_init ex_ops)) (mk_handle 13 0) 3 /\ owns (fst (run hdb_init ex_ops)) (mk_handle 12 1) 2.
Proof. exact ex_owner. Qed.
Example C20_ex_iteration : iterate 10 (fst (step (fst (run hdb_init ex_ops)) IterReset)) = [3; 2].
Proof. exact ex_iteration. Qed.
