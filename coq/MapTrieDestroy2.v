(* C17 trie part, destroy (2): trie_destroy visits the present nodes in traversal order and makes exactly the
   DELETED (+ FREE) calls for each of them. *)
From Coq Require Import List ZArith Bool Arith Lia.
Import ListNotations.
Require Import Verif.gen.Consts_trie Verif.MapTrieModel Verif.MapTrieSpec Verif.MapTrieProofs Verif.MapTrieProofs2
               Verif.MapTrieProofs3 Verif.MapTrieIter Verif.MapTrieIter2 Verif.MapTrieIds Verif.MapTrieIter3
               Verif.MapTrieIter4 Verif.MapTrieIter5 Verif.MapTrieIter6 Verif.MapTrieSafe1 Verif.MapTrieSafe2
               Verif.MapTrieNotify Verif.MapTrieNotify2 Verif.MapTrieNotify3 Verif.MapTrieNotify4 Verif.MapTrieDestroy1.

(* during trie_destroy a cleared node keeps its reference count, so only this weaker node property holds *)
Definition wfw (i : ninfo) (seg : list byte) : Prop :=
  (n_val i = None -> n_key i = None /\ n_removed i = false) /\ (n_key i = None -> n_val i = None).

(* key, value, notifier list, removed flag of what a lookup finds *)
Definition kvnr (c : core) := (c_key c, c_val c, c_nots c, c_rem c).

Lemma releasable_weak : forall i seg f hdr, wfw i seg -> releasable i f hdr = true ->
  hdr = false /\ forall q, kvnr (obs_t (TN i seg f) q) = kvnr blank.
Proof.
  unfold releasable. intros i seg f hdr [Hv Hk] H.
  apply andb_true_iff in H. destruct H as [H H4]. apply andb_true_iff in H. destruct H as [H H3].
  apply andb_true_iff in H. destruct H as [H1 H2].
  destruct (n_key i) eqn:K; [discriminate|]. destruct (n_nots i) eqn:N; [|discriminate].
  split. { destruct hdr; auto; discriminate. }
  intro q. cbn [obs_t]. destruct (strip seg q 0); auto.
  - destruct (sc <? length seg); auto. unfold kvnr, core_of, blank. simpl.
    pose proof (Hk eq_refl) as V. destruct (Hv V) as [_ R]. rewrite K, V, R, N. reflexivity.
  - rewrite obs_f_fget, fall_none_fget; auto.
Qed.

Lemma rel_weak : forall p n hdr, all_t wfw n ->
  match rel_t n p hdr with
  | Some n' => forall q, kvnr (obs_t n' q) = kvnr (obs_t n q)
  | None => (forall q, kvnr (obs_t n q) = kvnr blank) /\ hdr = false
  end.
Proof.
  induction p; intros n hdr Hwf; destruct n as [i seg f]; cbn [rel_t].
  - destruct (releasable i f hdr) eqn:R.
    + destruct Hwf as [Hi _]. destruct (releasable_weak _ _ _ _ Hi R). auto.
    + auto.
  - rewrite rel_f_fget. destruct (fget f a) as [t|] eqn:G; [|auto].
    destruct Hwf as [Hi Hf].
    pose proof (all_f_fget _ _ _ _ Hf G) as Ht.
    pose proof (fget_some_lt _ _ _ G) as Hlt.
    specialize (IHp t false Ht). destruct (rel_t t p false) as [t'|].
    + intro q. cbn [obs_t]. destruct (strip seg q 0); auto. rewrite !obs_f_fget.
      destruct (Nat.eq_dec (c2i c) a) as [e|e].
      * rewrite e, fget_fset_same, G by auto. apply IHp.
      * rewrite fget_fset_other by congruence. reflexivity.
    + destruct IHp as [I1 _].
      assert (Hobs : forall q, kvnr (obs_t (TN i seg (fset f a None)) q) = kvnr (obs_t (TN i seg f) q)).
      { intro q. cbn [obs_t]. destruct (strip seg q 0); auto. rewrite !obs_f_fget.
        destruct (Nat.eq_dec (c2i c) a) as [e|e].
        - rewrite e, fget_fset_same, G by auto. symmetry. apply I1.
        - rewrite fget_fset_other by congruence. reflexivity. }
      destruct (releasable i (fset f a None) hdr) eqn:R.
      * destruct (releasable_weak _ _ _ _ Hi R) as [X Y]. split; auto. intro q. rewrite <- Hobs. apply Y.
      * exact Hobs.
Qed.

Lemma wfi_wfw : forall n, all_t wfi n -> all_t wfw n.
Proof.
  intros n H. apply (proj1 all_of_paths n (fun i => wfw i [])). intros p tn G.
  pose proof (all_get_at _ _ _ _ H G) as [A [B _]]. unfold wfw. split; auto. intro V. destruct (A V) as [X [_ Y]]. auto.
Qed.

Record DC (r : tnode) (S : sstate) (next : nat) : Prop := {
  dc_wf : all_t wfw r;
  dc_ids : ids_r r next;
  dc_hval : n_val (t_info r) = None;
  dc_nots : forall q, c_nots (obs_t r q) = s_get S q;
  dc_key : forall q, q <> [] -> c_val (obs_t r q) <> None -> c_key (obs_t r q) = Some q
}.

(* the calls for the entry of one node: DELETED for every matching subscription, FREE for every FREE subscription *)
Definition dev (S : sstate) (i : ninfo) : list ev :=
  match n_key i, n_val i with
  | Some k, Some v => notify_spec (s_get S) k TRIE_NOTIFY_DELETED (Some k) (Some v) None
  | _, _ => []
  end.

Definition cur_events (S : sstate) (i : ninfo) : list ev := match n_val i with Some _ => dev S i | None => [] end.

Lemma kvnr_parts : forall a b, kvnr a = kvnr b -> c_key a = c_key b /\ c_val a = c_val b /\ c_nots a = c_nots b.
Proof. intros a b H. unfold kvnr in H. inversion H. auto. Qed.

(* trie_node_destroy of the node at pc *)
Lemma destroy_step : forall r S next pc tn, DC r S next -> get_at r pc = Some tn ->
  DC (fst (node_destroy r pc)) S next /\ snd (node_destroy r pc) = cur_events S (t_info tn).
Proof.
  intros r S next pc tn HD G. pose proof HD as HD0. destruct HD as [W I HV NO KY].
  unfold node_destroy, cur_events. rewrite G. destruct tn as [i sg fc]. simpl.
  destruct (n_val i) as [v|] eqn:V; [|split; auto].
  assert (Hp : pc <> []).
  { intro Z. subst pc. simpl in G. inversion G; subst r. simpl in HV. congruence. }
  pose proof (look_qstr _ _ _ G) as L. set (k := qstr r pc) in *.
  pose proof (qstr_nonempty pc r Hp) as Kne. fold k in Kne.
  destruct (upd_ok _ _ (le_n _) _ _ L) as [tn' [G1 [G2 [G3 [G4 G5]]]]]. rewrite G in G1. inversion G1; subst tn'. simpl in G2.
  assert (Kk : n_key i = Some k).
  { pose proof (KY k Kne) as X. rewrite <- G2 in X. simpl in X. apply X. congruence. }
  set (g := fun i0 : ninfo => set_removed false (set_kv None None i0)).
  assert (W2 : all_t wfw (upd_t r pc g)).
  { apply G5; auto. unfold wfw, g. simpl. intros _. split; auto. }
  pose proof (rel_weak pc _ true W2) as R. pose proof (rel_info pc (upd_t r pc g) true) as RI.
  pose proof (ids_r_release (upd_t r pc g) next pc) as IR. unfold release in *. fold g.
  destruct (rel_t (upd_t r pc g) pc true) as [r3|] eqn:RE.
  2:{ destruct R as [_ X]. discriminate. }
  simpl. split.
  - constructor.
    + apply (proj1 all_of_paths r3 (fun i0 => wfw i0 [])). intros q tq Gq.
      destruct (rel_get _ _ _ _ _ _ RE Gq) as [tq0 [Gq0 T]]. rewrite <- T.
      apply (all_get_at _ _ _ _ W2 Gq0).
    + apply IR. apply ids_r_upd; auto.
    + rewrite RI. rewrite upd_root_info by auto. exact HV.
    + intro q. destruct (kvnr_parts _ _ (R q)) as [_ [_ N]]. rewrite N, G4.
      destruct (list_eq_dec Nat.eq_dec q k) as [e|e]; [|apply NO]. subst q. simpl. rewrite <- NO, <- G2. reflexivity.
    + intros q Hq. destruct (kvnr_parts _ _ (R q)) as [K1 [V1 _]]. rewrite K1, V1, G4.
      destruct (list_eq_dec Nat.eq_dec q k) as [e|e]; [simpl; congruence|apply KY; auto].
  - unfold dev. simpl. rewrite Kk, V. rewrite (notify_obs _ k) by exact L.
    apply notify_spec_ext. exact NO.
Qed.

Lemma keyed_alive : forall tn s, wfw (t_info tn) s -> alive tn = true -> n_key (t_info tn) <> None.
Proof.
  intros tn s [A B] AL K. pose proof (B K) as V. unfold alive, present_i, alive_i in AL. rewrite V in AL. discriminate.
Qed.

Lemma before_irrefl : forall p, ~ before p p.
Proof. induction p; simpl; auto. intros [B|[_ B]]; [lia|auto]. Qed.

(* the loop of trie_destroy from node cur on *)
Lemma destroy_from : forall S next L fuel r cur pc tcur acc, DC r S next -> get_at r pc = Some tcur ->
  n_id (t_info tcur) = cur -> after_t r pc = L -> length L < fuel ->
  exists r', destroy_loop fuel r cur acc = Ok (r', acc ++ cur_events S (t_info tcur) ++ flat_map (dev S) L).
Proof.
  intros S next. induction L as [|x L' IH]; intros fuel r cur pc tcur acc HD G Ei E Lf;
    (destruct fuel as [|fuel']; [simpl in Lf; lia|]); cbn [destroy_loop];
    destruct (dc_ids _ _ _ HD) as [U [_ [H0 _]]];
    assert (FR : find_t r 0 = Some []) by (pose proof (find_root r) as X; rewrite H0 in X; exact X);
    pose proof (find_unique _ _ _ U G) as FC; rewrite Ei in FC;
    unfold node_next; rewrite FC, FR; cbn [strip_prefix get_at];
    pose proof (proj1 next_spec r pc) as NS; pose proof (proj1 next_before r pc) as NB;
    destruct (next_t r pc) as [pf|].
  - destruct NS as [_ [tn [_ [_ X]]]]. rewrite E in X. discriminate.
  - destruct (destroy_step r S next pc tcur HD G) as [_ EV]. destruct (node_destroy r pc) as [r1 evs]. simpl in EV.
    exists r1. rewrite EV. simpl. rewrite app_nil_r. reflexivity.
  - destruct NS as [Hpf [tnf [Gf [Af X]]]]. rewrite E in X. inversion X as [[X1 X2]]. subst x. cbn [app].
    specialize (NB pf eq_refl).
    assert (Hne : pc <> pf). { intro Z. subst pf. apply (before_irrefl _ NB). }
    pose proof (all_get_at _ _ _ _ (dc_wf _ _ _ HD) Gf) as Wf.
    pose proof (keyed_alive _ _ Wf Af) as Kf.
    destruct (destroy_step r S next pc tcur HD G) as [HD1 EV].
    destruct (destroy_keeps r pc pf tnf Gf Kf Hne) as [tnf' [Gf' Tf']].
    pose proof (after_destroy r pc pf tnf NB Gf Kf) as AD.
    unfold id_at. rewrite Gf.
    destruct (node_destroy r pc) as [r1 evs]. simpl in *.
    destruct (IH fuel' r1 (n_id (t_info tnf)) pf tnf' (acc ++ evs) HD1 Gf') as [r' R]; auto; try congruence; try lia.
    exists r'. rewrite R. rewrite Tf', EV. unfold cur_events at 2.
    assert (Vf : n_val (t_info tnf) <> None).
    { unfold alive, present_i, alive_i in Af. destruct (n_val (t_info tnf)); [congruence|discriminate]. }
    destruct (n_val (t_info tnf)); [|congruence]. rewrite <- !app_assoc. rewrite <- X2. reflexivity.
  - rewrite E in NS. discriminate.
Qed.

(* qb_map_destroy as a step: for every present entry, in traversal (ascending signed-char) order, exactly the
   DELETED calls of the matching subscriptions and one FREE call per FREE subscription; no error state *)
Lemma destroy_step_full : forall fx t d S, Inv4 t d S ->
  exists t', step fx t ODestroy = Ok (t', RUnit, flat_map (dev S) (al_t (t_root t))).
Proof.
  intros fx t d S [HI [IO NO]]. cbn [step].
  assert (HD : DC (t_root t) S (t_next t)).
  { constructor.
    - apply wfi_wfw. apply (inv_wf _ _ HI).
    - apply ids_ok_r. exact IO.
    - apply (inv_hval _ _ HI).
    - exact NO.
    - apply (inv_key _ _ HI). }
  destruct (destroy_from S (t_next t) (al_t (t_root t)) (Datatypes.S (size_t (t_root t))) (t_root t) 0 [] (t_root t) [] HD)
    as [r' R]; auto.
  - apply (ids_hdr _ IO).
  - apply after_t_nil.
  - pose proof (proj1 al_len (t_root t)). lia.
  - rewrite R. unfold cur_events. rewrite (inv_hval _ _ HI). simpl. eauto.
Qed.
