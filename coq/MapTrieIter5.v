(* C17 trie part, iteration (5): the list of present nodes and the dictionary. *)
From Coq Require Import List ZArith Bool Arith Lia.
Import ListNotations.
Require Import Verif.gen.Consts_trie Verif.MapTrieModel Verif.MapTrieSpec Verif.MapTrieProofs Verif.MapTrieProofs2
               Verif.MapTrieIter Verif.MapTrieIter2 Verif.MapTrieIds Verif.MapTrieIter3 Verif.MapTrieIter4.

Definition self_l (t : tnode) : list ninfo := (if alive t then [t_info t] else []) ++ al_t t.

Lemma al_f_cons_some : forall t f, al_f (FCons (Some t) f) = al_f f ++ self_l t.
Proof. reflexivity. Qed.

(* every listed info is the info of a present node at a non-empty path *)
Lemma al_in : (forall t i, In i (al_t t) -> exists p tn, p <> [] /\ get_at t p = Some tn /\ t_info tn = i /\ alive tn = true) /\
              (forall f i, In i (al_f f) -> exists p tn, p <> [] /\ get_f f p = Some tn /\ t_info tn = i /\ alive tn = true).
Proof.
  apply tnode_forest_ind.
  - intros i s f IH x H. simpl in H. destruct (IH x H) as [p [tn [Hp [G [E A]]]]].
    exists p, tn. rewrite get_at_cons by auto. auto.
  - intros x H. destruct H.
  - intros f IH x H. simpl in H. rewrite app_nil_r in H. destruct (IH x H) as [p [tn [Hp [G [E A]]]]].
    exists (bump p), tn. rewrite get_f_bump by auto. split; auto. destruct p; [congruence|discriminate].
  - intros t f IHt IHf x H. rewrite al_f_cons_some in H. apply in_app_or in H. destruct H as [H|H].
    + destruct (IHf x H) as [p [tn [Hp [G [E A]]]]].
      exists (bump p), tn. rewrite get_f_bump by auto. split; auto. destruct p; [congruence|discriminate].
    + unfold self_l in H. apply in_app_or in H. destruct H as [H|H].
      * destruct (alive t) eqn:A; [|destruct H]. destruct H as [H|[]]. subst x.
        exists [0], t. simpl. split; [discriminate|]. auto.
      * destruct (IHt x H) as [p [tn [Hp [G [E A]]]]]. exists (0 :: p), tn. simpl. split; [discriminate|]. auto.
Qed.

Lemma al_f_fget : forall f j c x, fget f j = Some c -> In x (self_l c) -> In x (al_f f).
Proof.
  induction f; intros j c x G H; simpl in G; [discriminate|]. destruct j.
  - subst o. rewrite al_f_cons_some. apply in_or_app. auto.
  - destruct o; simpl; apply in_or_app; left; eapply IHf; eauto.
Qed.

(* every present node below t is listed *)
Lemma in_al : forall p t tn, p <> [] -> get_at t p = Some tn -> alive tn = true -> In (t_info tn) (al_t t).
Proof.
  induction p; intros t tn Hp G A; [congruence|]. destruct t as [i s f]. simpl in G.
  destruct (fget f a) as [c|] eqn:F; [|discriminate]. simpl.
  apply (al_f_fget f a c _ F). unfold self_l. destruct p.
  - simpl in G. inversion G; subst. rewrite A. simpl. auto.
  - apply in_or_app. right. apply IHp; auto. discriminate.
Qed.

(* ids in the list: no more often than in the tree *)
Definition cn (l : list ninfo) (id : nat) : nat := count_occ Nat.eq_dec (map n_id l) id.

Lemma cn_app : forall a b id, cn (a ++ b) id = cn a id + cn b id.
Proof. intros. unfold cn. rewrite map_app, count_occ_app. reflexivity. Qed.

Lemma al_cnt : (forall t id, cn (al_t t) id <= cnt_f (t_ch t) id) /\ (forall f id, cn (al_f f) id <= cnt_f f id).
Proof.
  apply tnode_forest_ind.
  - intros i s f IH id. simpl. apply IH.
  - intros. unfold cn. simpl. lia.
  - intros f IH id. simpl. rewrite app_nil_r. specialize (IH id). lia.
  - intros t f IHt IHf id. rewrite al_f_cons_some, cn_app. simpl. specialize (IHt id). specialize (IHf id).
    unfold self_l. rewrite cn_app. destruct t as [i s fc]. simpl in *.
    assert (cn (if alive (TN i s fc) then [i] else []) id <= (if n_id i =? id then 1 else 0)).
    { destruct (alive (TN i s fc)); unfold cn; simpl; [|lia].
      destruct (Nat.eq_dec (n_id i) id); destruct (Nat.eqb_spec (n_id i) id); try lia; congruence. }
    lia.
Qed.

Lemma al_nodup_ids : forall r, (forall id, cnt_t r id <= 1) -> NoDup (map n_id (al_t r)).
Proof.
  intros r U. apply (NoDup_count_occ' Nat.eq_dec). intros id H.
  pose proof (proj1 al_cnt r id) as C. pose proof (U id) as Ui. destruct r as [i s f]. simpl in *.
  unfold cn in C. apply (count_occ_In Nat.eq_dec) in H. lia.
Qed.

Lemma nodup_map_inj : forall (A B C : Type) (f : A -> B) (g : A -> C) (l : list A),
  NoDup (map f l) -> (forall x y, In x l -> In y l -> g x = g y -> f x = f y) -> NoDup (map g l).
Proof.
  induction l; intros ND H; simpl; constructor.
  - inversion ND; subst. intro X. apply in_map_iff in X. destruct X as [y [E Y]].
    apply H2. apply in_map_iff. exists y. split; auto. symmetry. apply H; simpl; auto.
  - inversion ND; subst. apply IHl; auto. intros. apply H; simpl; auto.
Qed.

Lemma al_len : (forall t, length (al_t t) < size_t t) /\ (forall f, length (al_f f) <= size_f f).
Proof.
  apply tnode_forest_ind.
  - intros i s f IH. simpl. lia.
  - simpl. lia.
  - intros f IH. simpl. rewrite app_nil_r. lia.
  - intros t f IHt IHf. rewrite al_f_cons_some, app_length. unfold self_l. rewrite app_length. simpl.
    destruct (alive t); simpl; lia.
Qed.

(* ---------- the present nodes of a map state are exactly the dictionary's entries ---------- *)
Lemma al_node_facts : forall t d i, Inv t d -> In i (al_t (t_root t)) ->
  exists p tn, p <> [] /\ get_at (t_root t) p = Some tn /\ t_info tn = i /\
    n_key i = Some (qstr (t_root t) p) /\ n_val i = d_get d (qstr (t_root t) p) /\ n_val i <> None.
Proof.
  intros t d i HI H. destruct (proj1 al_in _ _ H) as [p [tn [Hp [G [E A]]]]].
  exists p, tn. split; auto. split; auto. split; auto.
  pose proof (obs_qstr _ _ _ G) as O. pose proof (qstr_nonempty p (t_root t) Hp) as Q.
  destruct (inv_obs _ _ HI _ Q) as [O1 _]. pose proof (inv_key _ _ HI _ Q) as K.
  rewrite O in O1, K. subst i. unfold core_of in *. simpl in *.
  assert (V : n_val (t_info tn) <> None).
  { unfold alive, present_i, alive_i in A. destruct (n_val (t_info tn)); [congruence|discriminate]. }
  split; [apply K; exact V|]. split; auto.
Qed.

Lemma al_sound : forall t d i, Inv t d -> In i (al_t (t_root t)) ->
  exists k v, n_key i = Some k /\ n_val i = Some v /\ d_get d k = Some v.
Proof.
  intros t d i HI H. destruct (al_node_facts t d i HI H) as [p [tn [_ [_ [_ [K [V NV]]]]]]].
  destruct (n_val i) as [v|] eqn:E; [|congruence]. exists (qstr (t_root t) p), v. auto.
Qed.

Lemma al_complete : forall t d k v, Inv t d -> k <> [] -> d_get d k = Some v ->
  exists i, In i (al_t (t_root t)) /\ n_key i = Some k /\ n_val i = Some v.
Proof.
  intros t d k v HI Hk D. destruct (inv_obs _ _ HI k Hk) as [O1 [O2 O3]]. pose proof (inv_key _ _ HI k Hk) as K.
  rewrite obs_of_lookup in O1, O2, O3, K.
  destruct (look_t (t_root t) k true) as [p|] eqn:L; [|simpl in O1; congruence].
  destruct (get_at (t_root t) p) as [tn|] eqn:G; [|simpl in O1; congruence].
  unfold core_of in *. simpl in *. rewrite D in O1.
  assert (Hp : p <> []).
  { pose proof (inv_hdr _ _ HI) as Hh. destruct (t_root t) as [i1 s1 f1]. simpl in Hh. subst s1. eapply hdr_look; eauto. }
  exists (t_info tn). split; [|split; auto].
  - apply in_al with (p := p); auto. unfold alive, present_i, alive_i. rewrite O1, O2.
    rewrite O3 by congruence. reflexivity.
  - apply K. congruence.
Qed.

Lemma al_nodup_keys : forall t d, Inv t d -> (forall id, cnt_t (t_root t) id <= 1) -> NoDup (map n_key (al_t (t_root t))).
Proof.
  intros t d HI U. apply nodup_map_inj with (f := n_id); [apply al_nodup_ids; auto|].
  intros x y Hx Hy E.
  destruct (al_node_facts t d x HI Hx) as [px [tx [_ [Gx [Ex [Kx _]]]]]].
  destruct (al_node_facts t d y HI Hy) as [py [ty [_ [Gy [Ey [Ky _]]]]]].
  rewrite Kx, Ky in E. inversion E as [Q].
  pose proof (look_qstr _ _ _ Gx) as Lx. pose proof (look_qstr _ _ _ Gy) as Ly. rewrite Q in Lx. rewrite Lx in Ly.
  inversion Ly; subst py. rewrite Gx in Gy. inversion Gy; subst ty. congruence.
Qed.
