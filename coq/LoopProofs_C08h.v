(* C08 - timers, liveness step: after expire_the_timers every timer whose expiry lies before the clock has left the
   heap and sits on the job list of its priority (state JOBLIST); C10 then bounds its wait. *)
Require Import ZArith List Bool Lia.
Require Import Verif.gen.Consts_loop Verif.LoopModel Verif.LoopProofs_C08a Verif.LoopProofs_C08d.
Import ListNotations.
Open Scope Z_scope.

(* heap_min is a minimum *)
Lemma heap_min_from_le : forall l k best i e, heap_min_from k l best = Some (i, e) ->
  (forall bi be, best = Some (bi, be) -> e <= be) /\
  (forall j t e', nth_error l j = Some t -> t_exp t = Some e' -> e <= e').
Proof.
  induction l as [|t l IH]; intros k best i e; cbn [heap_min_from].
  - intros H. split; [intros bi be E; rewrite E in H; inversion H; lia|]. intros [|j] t' e' N; discriminate N.
  - intros H. apply IH in H. destruct H as [A B]. split.
    + intros bi be E. subst best. destruct (t_exp t) as [e0|] eqn:X.
      * destruct (e0 <? be) eqn:L; [apply Z.ltb_lt in L; specialize (A _ _ eq_refl); lia|exact (A _ _ eq_refl)].
      * exact (A _ _ eq_refl).
    + intros [|j] t' e' N X; cbn in N; [|eapply B; eauto]. inversion N; subst t'. rewrite X in A.
      destruct best as [[bi be]|].
      * destruct (e' <? be) eqn:L; [exact (A _ _ eq_refl)|]. apply Z.ltb_ge in L. specialize (A _ _ eq_refl). lia.
      * exact (A _ _ eq_refl).
Qed.
Lemma heap_min_none : forall l k, heap_min_from k l None = None -> forall j t, nth_error l j = Some t -> t_exp t = None.
Proof.
  intros l k H j t N. destruct (t_exp t) as [e'|] eqn:X; [|reflexivity]. exfalso.
  assert (G : forall l k best, best <> None -> heap_min_from k l best <> None).
  { clear. induction l as [|t l IH]; intros k best B; cbn [heap_min_from]; [exact B|]. apply IH.
    destruct (t_exp t); destruct best as [[bi be]|]; try congruence. destruct (_ <? _); congruence. }
  revert k j H N. induction l as [|t0 l IH]; intros k j H N; [destruct j; discriminate|]. cbn [heap_min_from] in H.
  destruct j as [|j]; cbn in N.
  - inversion N; subst t0. rewrite X in H. exact (G l (S k) (Some (k, e')) ltac:(discriminate) H).
  - destruct (t_exp t0) as [e0|]; [exact (G l (S k) (Some (k, e0)) ltac:(discriminate) H)|]. exact (IH (S k) j H N).
Qed.

Definition heap_size (st : state) : nat := length (filter (fun t => match t_exp t with Some _ => true | None => false end) (timers st)).
Definition no_due (st : state) : Prop := forall j t e, nth_error (timers st) j = Some t -> t_exp t = Some e -> now st <= e.

Lemma filter_upd_none : forall (f : tslot -> bool) g l i t, nth_error l i = Some t -> f t = true -> f (g t) = false ->
  length (filter f (upd_nth i g l)) = pred (length (filter f l)).
Proof.
  intros f g. induction l as [|a l IH]; intros [|i] t N A B; cbn in N; try discriminate.
  - inversion N; subst a. cbn. rewrite A, B. reflexivity.
  - cbn. destruct (f a); cbn; [|eauto]. rewrite (IH i t N A B).
    assert (0 < length (filter f l))%nat; [|lia].
    clear -N A. revert i N. induction l as [|b l IH]; intros [|i] N; cbn in N; try discriminate.
    + inversion N; subst. cbn. rewrite A. cbn. lia.
    + cbn. destruct (f b); cbn; [lia|eauto].
Qed.

(* with fuel for every heap entry the loop ends with nothing due *)
Lemma expire_go_no_due : forall fuel n st, (heap_size st <= fuel)%nat -> no_due (snd (expire_go fuel n st)).
Proof.
  induction fuel as [|f IH]; intros n st F; cbn [expire_go].
  - cbn [snd]. intros j t e N X. exfalso. unfold heap_size in F.
    assert (0 < length (filter (fun t => match t_exp t with Some _ => true | None => false end) (timers st)))%nat; [|lia].
    clear -N X. revert j N. induction (timers st) as [|b l IH]; intros [|j] N; cbn in N; try discriminate.
    + inversion N; subst. cbn. rewrite X. cbn. lia.
    + cbn. destruct (t_exp b); cbn; [lia|eauto].
  - destruct (heap_min st) as [[i e]|] eqn:H.
    + destruct (e <? now st) eqn:L.
      * destruct (heap_min_spec st i e H) as (t & N & E). rewrite N. apply IH.
        unfold heap_size in *. cbn [timers item_add upd_level set_lv set_lv_f set_timers].
        rewrite (filter_upd_none _ _ _ i t N); [lia|rewrite E; reflexivity|reflexivity].
      * cbn [snd]. apply Z.ltb_ge in L. unfold heap_min in H. apply heap_min_from_le in H. destruct H as [_ B].
        intros j t e' N X. specialize (B j t e' N X). lia.
    + cbn [snd]. intros j t e N X. unfold heap_min in H. rewrite (heap_min_none _ _ H j t N) in X. discriminate.
Qed.

Lemma expire_no_due : forall st, no_due (snd (expire_the_timers st)).
Proof.
  intros. unfold expire_the_timers. apply expire_go_no_due. unfold heap_size.
  clear. induction (timers st); cbn; [lia|]. destruct (match t_exp a with Some _ => true | None => false end); cbn; lia.
Qed.
