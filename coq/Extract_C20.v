(* Extraction of the C20 model.  ExtrOcamlBasic only: bool/option/unit/list/prod/sumbool
   map to the OCaml types of the same shape; Z, positive, nat stay inductive; no Extract Constant. *)
From Coq Require Import ExtrOcamlBasic.
Require Import Verif.HdbModel.
Extraction "model_C20.ml" hdb_init step run dlog base_convert nocheck_convert.
