(* C20: qb_hdb_base_convert / qb_hdb_nocheck_convert (lib/hdb.c) and how the handle-validating calls
   treat the values they produce. *)
From Coq Require Import ZArith List Bool Lia.
Import ListNotations.
Require Import Verif.gen.Consts_hdb Verif.HdbModel.
Local Open Scope Z_scope.
Ltac Zify.zify_post_hook ::= Z.div_mod_to_equations.

Lemma to_i32_small x : 0 <= x < two31 -> to_i32 x = x.
Proof.
  intros H. unfold to_i32. assert (x mod two32 = x) as -> by (apply Z.mod_small; unfold two31, two32 in *; lia).
  destruct (x <? two31) eqn:E; [reflexivity|]. apply Z.ltb_ge in E. lia.
Qed.

(* base_convert keeps exactly the slot index half of a handle *)
Lemma base_convert_mk c i : 0 <= i < two32 -> base_convert (mk_handle c i) = i.
Proof.
  intros H. unfold base_convert, mk_handle.
  rewrite Z.add_comm, Z.mod_add by (unfold two32; lia). apply Z.mod_small; exact H.
Qed.

Lemma base_convert_range h : 0 <= base_convert h < two32.
Proof. unfold base_convert. apply Z.mod_pos_bound. unfold two32; lia. Qed.

(* a no-check handle carries the check word the validation treats as "do not compare" and the same index *)
Lemma nocheck_convert_check i : check_of (nocheck_convert i) = NOCHECK.
Proof.
  unfold check_of, nocheck_convert, NOCHECK.
  assert (Hm : 0 <= i mod two32 < two32) by (apply Z.mod_pos_bound; unfold two32; lia).
  assert (((two32 - 1) * two32 + i mod two32) / two32 = two32 - 1) as ->.
  { rewrite Z.add_comm, Z.div_add by (unfold two32; lia). rewrite Z.div_small by exact Hm. lia. }
  unfold to_i32. rewrite Z.mod_small by (unfold two32; lia).
  unfold two32, two31. reflexivity.
Qed.

Lemma nocheck_convert_idx i : idx_of (nocheck_convert i) = to_i32 i.
Proof.
  unfold idx_of, nocheck_convert.
  rewrite Z.add_comm, Z.mod_add by (unfold two32; lia).
  unfold to_i32. cbv zeta. rewrite !Z.mod_mod by (unfold two32; lia). reflexivity.
Qed.

Lemma nocheck_convert_range i : 0 <= nocheck_convert i < two32 * two32.
Proof.
  unfold nocheck_convert.
  assert (Hm : 0 <= i mod two32 < two32) by (apply Z.mod_pos_bound; unfold two32; lia).
  unfold two32 in *. lia.
Qed.

(* The documented meaning of the no-check form: nocheck_convert (base_convert h) names the same slot as h and
   is validated WITHOUT comparing the check word - lookup succeeds on whatever non-empty object lives in that
   slot now.  (This is why the stale-handle theorems of C20 require check_of h <> NOCHECK.) *)
Theorem nocheck_lookup d i s :
  0 <= i < handle_count d -> i < two31 ->
  nth_error (slots d) (Z.to_nat i) = Some s -> s_state s <> HDB_STATE_EMPTY ->
  lookup d (nocheck_convert i) = Some (i, s).
Proof.
  intros Hi H31 Hn He. unfold lookup.
  rewrite nocheck_convert_check, nocheck_convert_idx, to_i32_small by lia.
  destruct (handle_count d <=? i) eqn:E1; [apply Z.leb_le in E1; lia|].
  unfold nth_slot. destruct (i <? 0) eqn:E2; [apply Z.ltb_lt in E2; lia|].
  rewrite Hn. destruct (s_state s =? HDB_STATE_EMPTY) eqn:E3; [apply Z.eqb_eq in E3; contradiction|].
  unfold check_ok. rewrite Z.eqb_refl. reflexivity.
Qed.

Theorem nocheck_of_base_same_slot c i : 0 <= i < two31 ->
  idx_of (nocheck_convert (base_convert (mk_handle c i))) = idx_of (mk_handle c i) /\
  check_of (nocheck_convert (base_convert (mk_handle c i))) = NOCHECK.
Proof.
  intros H. assert (H2 : 0 <= i < two32) by (unfold two31, two32 in *; lia).
  rewrite base_convert_mk by exact H2. split; [|apply nocheck_convert_check].
  rewrite nocheck_convert_idx. unfold idx_of, mk_handle.
  rewrite Z.add_comm, Z.mod_add by (unfold two32; lia).
  unfold to_i32. cbv zeta. rewrite !Z.mod_mod by (unfold two32; lia). reflexivity.
Qed.

Example ex_convert :
  base_convert 0x0000003d00000007 = 7 /\ nocheck_convert 7 = 0xffffffff00000007 /\
  nocheck_convert (two32 + 7) = 0xffffffff00000007.
Proof. vm_compute. auto. Qed.
