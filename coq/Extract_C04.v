(* Extraction of the C04 model.  ExtrOcamlBasic only; Z, positive, nat stay inductive; no Extract Constant. *)
From Coq Require Import ExtrOcamlBasic.
Require Import Verif.IpcLifeModel.
Extraction "model_C04.ml" world0 step clear_log conns next s_alloc s_rc jobs log
  c_alloc c_st c_rc c_ph c_uref.
