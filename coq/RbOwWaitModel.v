(* C07 gap "waits are modelled for ms_timeout = 0 only": qb_rb_chunk_read / qb_rb_chunk_peek with ANY ms_timeout on a
   ring with the semaphore notifier.  No proofs in this file.

   The notifier's timedwait_fn (lib/ringbuffer_helper.c: my_posix_sem_timedwait) blocks in sem_timedwait (ms_timeout > 0),
   sem_wait (< 0) or polls with sem_trywait (= 0), retries on EINTR, and answers 0 (a notification was taken: the count
   was positive at that moment and is decremented), -ETIMEDOUT (none arrived in time; EAGAIN of sem_trywait is mapped to
   it) or another -errno.  Which of these happens after how long is decided outside the sequential model: the answer
   `res' is an ORACLE argument of the operation (recorded from the implementation run).  In a single-threaded history
   nobody can post while the caller blocks, so the answers consistent with the count c are: 0 when c > 0,
   -ETIMEDOUT when c = 0 and the timeout is finite (RbOwWait.wait_consistent); other answers are failures of the
   semaphore itself (e.g. -EINVAL, -EIDRM) and are passed through by the code as transcribed below. *)
From Coq Require Import ZArith List Bool.
Import ListNotations.
Require Import Verif.gen.Consts_rb Verif.gen.Consts_rbow Verif.RbModel Verif.RbSpec.
Local Open Scope Z_scope.

(* notifier.timedwait_fn(instance, ms_timeout) with answer res: the count is decremented iff the wait succeeded *)
Definition sem_wait_res (b : rb) (res : Z) : rb * Z :=
  match sem b with
  | None => (b, 0)                                           (* timedwait_fn == NULL: res stays 0 *)
  | Some c => if res =? 0 then (set_sem b (Some (c - 1)), 0) else (b, res)
  end.

(* qb_rb_chunk_read(rb, out, n, ms_timeout), the notifier answering res:
     if (res < 0 && res != -EIDRM) return res;  then as for ms_timeout = 0 *)
Definition read_w (eidrm : Z) (b : rb) (n res : Z) : rb * Z * list Z :=
  let '(b1, r) := sem_wait_res b res in
  if (r <? 0) && negb (r =? - eidrm) then (b1, r, [])
  else if negb (chunk_ready b1) then
    match sem b1 with
    | None => (b1, - RB_ETIMEDOUT, [])
    | Some _ => (sem_post b1, - RB_EBADMSG, [])
    end
  else
    let size := ldw (data b1) (rpt b1) in
    if n <? size then (sem_post b1, - RB_ENOBUFS, [])
    else let bytes := chunk_bytes b1 size in
         let '(b2, _) := reclaim b1 in (b2, size, bytes).

(* qb_rb_chunk_peek(rb, &p, ms_timeout): -ETIMEDOUT is reported as 0, other failures as they are *)
Definition peek_w (eidrm : Z) (b : rb) (res : Z) : rb * Z * list Z :=
  let '(b1, r) := sem_wait_res b res in
  if (r <? 0) && negb (r =? - eidrm) then (b1, if r =? - RB_ETIMEDOUT then 0 else r, [])
  else if negb (chunk_ready b1) then (sem_post b1, - RB_EBADMSG, [])
  else let size := ldw (data b1) (rpt b1) in (b1, size, chunk_bytes b1 size).

(* the answers a single-threaded history can see: 0 with a positive count, -ETIMEDOUT with count 0 *)
Definition wait_consistent (b : rb) (res : Z) : Prop :=
  match sem b with
  | None => True
  | Some c => (0 < c /\ res = 0) \/ (c <= 0 /\ res = - RB_ETIMEDOUT)
  end.

(* ------------------------------------------------------------------ operation lists with timed waits *)
Inductive wop :=
| WOp (o : op)                  (* an operation of RbModel.step (reads and peeks with ms_timeout = 0) *)
| WRead (n res : Z)             (* qb_rb_chunk_read(.., n, ms_timeout <> 0), the notifier answering res *)
| WPeek (res : Z).              (* qb_rb_chunk_peek(.., ms_timeout <> 0) *)

Definition wstep (eidrm : Z) (b : rb) (o : wop) : rb * out :=
  match o with
  | WOp o => step b o
  | WRead n res => let '(b1, r, bytes) := read_w eidrm b n res in (b1, ORet r bytes)
  | WPeek res => let '(b1, r, bytes) := peek_w eidrm b res in (b1, ORet r bytes)
  end.

Fixpoint wrun (eidrm : Z) (b : rb) (ops : list wop) : rb * list out :=
  match ops with
  | [] => (b, [])
  | o :: t => let '(b1, x) := wstep eidrm b o in let '(b2, xs) := wrun eidrm b1 t in (b2, x :: xs)
  end.

Definition untimed (o : wop) : op :=
  match o with WOp o => o | WRead n _ => ORead n | WPeek _ => OPeek end.

(* every notifier answer in the history is one a single-threaded run can see (judged along the run) *)
Fixpoint wconsistent (eidrm : Z) (b : rb) (ops : list wop) : Prop :=
  match ops with
  | [] => True
  | o :: t => match o with WOp _ => True | WRead _ res => wait_consistent b res | WPeek res => wait_consistent b res end /\
              wconsistent eidrm (fst (wstep eidrm b o)) t
  end.

(* for the model runner: the answer a single-threaded run sees, and the errno constant of the working tree *)
Definition consistent_answer (b : rb) : Z :=
  match sem b with None => 0 | Some c => if 0 <? c then 0 else - RB_ETIMEDOUT end.
Definition read_wait (b : rb) (n : Z) : rb * Z * list Z := read_w RBO_EIDRM b n (consistent_answer b).
Definition peek_wait (b : rb) : rb * Z * list Z := peek_w RBO_EIDRM b (consistent_answer b).
