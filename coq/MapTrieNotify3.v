(* C17 trie part, notifiers (3): every operation makes exactly the notifier calls the specification demands. *)
From Coq Require Import List ZArith Bool Arith Lia.
Import ListNotations.
Require Import Verif.gen.Consts_trie Verif.MapTrieModel Verif.MapTrieSpec Verif.MapTrieProofs Verif.MapTrieProofs2
               Verif.MapTrieProofs3 Verif.MapTrieNotify Verif.MapTrieNotify2.

Lemma notify_spec_ext : forall f g k e ko old new, (forall q, f q = g q) ->
  notify_spec f k e ko old new = notify_spec g k e ko old new.
Proof.
  intros. unfold notify_spec. rewrite H. f_equal. apply flat_map_ext. intro q. rewrite H. reflexivity.
Qed.

(* the calls put / rm have to make *)
Definition spec_put_events (S : sstate) (d : dict) (k : key) (v : val) : list ev :=
  match d_get d k with
  | None => notify_spec (s_get S) k TRIE_NOTIFY_INSERTED (Some k) None (Some v)
  | Some ov => notify_spec (s_get S) k TRIE_NOTIFY_REPLACED (Some k) (Some ov) (Some v)
  end.
Definition spec_rm_events (S : sstate) (d : dict) (k : key) : list ev :=
  match d_get d k with
  | None => []
  | Some ov => notify_spec (s_get S) k TRIE_NOTIFY_DELETED (Some k) (Some ov) None
  end.

Lemma put_full : forall fx t d S k v, Inv t d -> nots_ok (t_root t) S -> kvalid k ->
  nots_ok (t_root (fst (do_put fx t k v))) S /\ snd (do_put fx t k v) = spec_put_events S d k v.
Proof.
  intros fx t d S k v HI NO [Hne Hnz]. destruct HI as [Hwf Hhdr Hhv Hkey Hobs Hlen Hnd].
  unfold do_put. destruct (ins_t fx (t_root t) k true (t_next t)) as [[r1 p] nid] eqn:I.
  destruct (ins_ok fx _ _ (le_n _) _ _ _ _ _ _ Hwf Hnz I) as [O1 [L1 W1]].
  assert (Hs1 : t_seg r1 = []).
  { destruct (t_root t) as [i0 s0 f0]. simpl in Hhdr. subst s0. eapply hdr_ins; eauto. }
  assert (Hp : p <> []).
  { destruct r1 as [i1 s1 f1]. simpl in Hs1. subst s1. eapply hdr_look; eauto. }
  destruct (upd_ok _ _ (le_n _) _ _ L1) as [tn [G1 [G2 [G3 [G4 G5]]]]].
  rewrite G1. destruct tn as [i sg fc]. simpl in G2.
  destruct (Hobs k Hne) as [Ok1 [Ok3 Ok2]]. pose proof (Hkey k Hne) as Kk.
  rewrite <- O1 in Ok1, Ok2, Ok3, Kk. rewrite <- G2 in Ok1, Ok2, Ok3, Kk. simpl in Ok1, Ok2, Ok3, Kk. rewrite Ok3.
  assert (Nk : n_nots i = s_get S k).
  { rewrite <- NO, <- O1, <- G2. reflexivity. }
  unfold spec_put_events. rewrite <- Ok1.
  destruct (n_val i) eqn:V.
  - simpl. split.
    + intro q. rewrite G4. destruct (list_eq_dec Nat.eq_dec q k) as [e|e].
      * subst q. simpl. exact Nk.
      * rewrite O1. apply NO.
    + rewrite (notify_obs _ k) by (rewrite G3; exact L1). rewrite Kk by congruence.
      apply notify_spec_ext. intro q. rewrite G4. destruct (list_eq_dec Nat.eq_dec q k) as [e|e].
      * subst q. simpl. exact Nk.
      * rewrite O1. apply NO.
  - unfold node_ref. destruct p as [|j p']; [congruence|]. rewrite upd_upd. simpl. split.
    + intro q. rewrite G4. destruct (list_eq_dec Nat.eq_dec q k) as [e|e].
      * subst q. simpl. exact Nk.
      * rewrite O1. apply NO.
    + rewrite (notify_obs _ k) by (rewrite G3; exact L1).
      apply notify_spec_ext. intro q. rewrite G4. destruct (list_eq_dec Nat.eq_dec q k) as [e|e].
      * subst q. simpl. exact Nk.
      * rewrite O1. apply NO.
Qed.

Lemma upd_id_at' : forall p n (i : ninfo) sg fc, get_at n p = Some (TN i sg fc) -> upd_t n p (fun i0 => i0) = n.
Proof.
  induction p; intros n i sg fc G; destruct n as [i0 s f]; simpl in G; cbn [upd_t]; auto.
  f_equal. rewrite upd_f_fget. destruct (fget f a) as [c|] eqn:F; [|discriminate].
  rewrite (IHp c i sg fc G). clear -F. revert a F. induction f; simpl; intros; [discriminate|].
  destruct a; simpl in *; [subst; reflexivity|]. f_equal. auto.
Qed.

Lemma rm_full : forall fx t d S k, f_rm fx = true -> Inv t d -> nots_ok (t_root t) S -> kvalid k ->
  nots_ok (t_root (fst (fst (do_rm fx t k)))) S /\ snd (do_rm fx t k) = spec_rm_events S d k.
Proof.
  intros fx t d S k Hfx HI NO [Hne Hnz]. destruct HI as [Hwf Hhdr Hhv Hkey Hobs Hlen Hnd].
  destruct (Hobs k Hne) as [Ok1 [Ok3 Ok2]]. pose proof (Hkey k Hne) as Kk.
  unfold do_rm, lookup, spec_rm_events. rewrite Hfx.
  destruct k as [|b k0] eqn:Ek; [congruence|]. rewrite <- Ek in *. clear Ek b k0.
  destruct (look_t (t_root t) k true) as [p|] eqn:L.
  2:{ rewrite (look_none_obs _ _ (le_n _) _ L) in Ok1. simpl in Ok1. rewrite <- Ok1. simpl. split; auto. }
  destruct (upd_ok _ _ (le_n _) _ _ L) as [tn [G1 [G2 [G3 [G4 G5]]]]].
  rewrite G1. destruct tn as [i sg fc]. simpl in G2. rewrite <- G2 in Ok1, Ok2, Ok3, Kk. simpl in Ok1, Ok2, Ok3, Kk.
  unfold alive. simpl. unfold present_i, alive_i. rewrite Ok3.
  assert (Nk : n_nots i = s_get S k). { rewrite <- NO, <- G2. reflexivity. }
  rewrite <- Ok1.
  destruct (n_val i) as [v|] eqn:V.
  2:{ simpl. split; auto. }
  assert (Hrc : n_rc i = 1) by (apply Ok2; congruence).
  rewrite Hrc. simpl.
  set (g0 := fun i0 : ninfo => if f_removed fx then set_removed true i0 else i0).
  assert (E0 : (if f_removed fx then upd_t (t_root t) p (set_removed true) else t_root t) = upd_t (t_root t) p g0).
  { unfold g0. destruct (f_removed fx); auto. symmetry. apply upd_id_at' with (i := i) (sg := sg) (fc := fc); auto. }
  rewrite E0. clear E0.
  assert (Hg0 : n_val (g0 i) = Some v /\ n_rc (g0 i) = 1 /\ n_key (g0 i) = n_key i /\ n_nots (g0 i) = n_nots i).
  { unfold g0. destruct (f_removed fx); simpl; auto. }
  destruct Hg0 as [Hg0v [Hg0r [Hg0k Hg0n]]].
  unfold node_deref. rewrite (get_at_upd _ _ g0 _ _ _ G1). unfold alive_i. rewrite Hg0v, Hg0r. simpl.
  rewrite upd_upd.
  unfold node_destroy. rewrite (get_at_upd _ _ _ _ _ _ G1). cbn [set_rc n_val n_key]. rewrite Hg0v.
  rewrite upd_upd.
  set (G1f := fun i0 : ninfo => set_rc (n_rc (g0 i0) - 1) (g0 i0)).
  set (G := fun i0 : ninfo => set_removed false (set_kv None None (set_rc (n_rc (g0 i0) - 1) (g0 i0)))).
  assert (W2 : all_t wfi (upd_t (t_root t) p G)).
  { apply G5; auto. unfold wfi, G, set_removed, set_kv, set_rc. simpl. intros [A [B C]]. repeat split; auto.
    rewrite Hg0r. reflexivity. }
  pose proof (rel_ok p _ true W2) as R. unfold release. fold G.
  destruct (rel_t (upd_t (t_root t) p G) p true) as [r'|].
  2:{ destruct R as [_ X]. discriminate. }
  destruct R as [R1 [R2 R3]]. simpl. split.
  - intro q. rewrite R1, G4. destruct (list_eq_dec Nat.eq_dec q k) as [e|e].
    + subst q. unfold G. simpl. rewrite Hg0n. exact Nk.
    + apply NO.
  - fold G1f. rewrite (notify_obs _ k) by (rewrite G3; exact L). rewrite Hg0k, Kk by congruence.
    apply notify_spec_ext. intro q. rewrite G4. destruct (list_eq_dec Nat.eq_dec q k) as [e|e].
    + subst q. unfold G1f. simpl. rewrite Hg0n. exact Nk.
    + apply NO.
Qed.

Lemma look_root_nil : forall r, t_seg r = [] -> look_t r [] true = Some [].
Proof. intros. destruct r as [i s f]. simpl in H. subst s. reflexivity. Qed.

Lemma notify_add_full : forall fx t d S k fn e ud, Inv t d -> nots_ok (t_root t) S -> okvalid k ->
  snd (do_notify_add fx t k fn e ud) = snd (spec_notify_add S k fn e ud) /\
  nots_ok (t_root (fst (do_notify_add fx t k fn e ud))) (fst (spec_notify_add S k fn e ud)).
Proof.
  intros fx t d S k fn e ud HI NO Hk. unfold do_notify_add, spec_notify_add.
  destruct ((match k with Some _ => true | None => false end) && has e TRIE_NOTIFY_FREE); [split; auto|].
  assert (X : exists r1 p nid, (match k with
      | Some kk => match lookup (t_root t) kk true with
                   | Some p => (t_root t, p, t_next t)
                   | None => ins_t fx (t_root t) kk true (t_next t)
                   end
      | None => (t_root t, [], t_next t) end) = (r1, p, nid) /\
      (forall q, obs_t r1 q = obs_t (t_root t) q) /\ look_t r1 (okey k) true = Some p).
  { destruct k as [kk|]; simpl.
    - destruct Hk as [Hne Hnz]. unfold lookup. destruct kk as [|b k0] eqn:Ek; [congruence|]. rewrite <- Ek in *.
      destruct (look_t (t_root t) kk true) as [p|] eqn:L.
      + do 3 eexists. split; [reflexivity|]. auto.
      + destruct (ins_t fx (t_root t) kk true (t_next t)) as [[r1 p] nid] eqn:I.
        destruct (ins_ok fx _ _ (le_n _) _ _ _ _ _ _ (inv_wf _ _ HI) Hnz I) as [O1 [L1 W1]].
        do 3 eexists. split; [reflexivity|]. auto.
    - do 3 eexists. split; [reflexivity|]. split; auto. apply look_root_nil. apply (inv_hdr _ _ HI). }
  destruct X as [r1 [p [nid [E [O L]]]]]. rewrite E.
  destruct (upd_ok _ _ (le_n _) _ _ L) as [tn [G1 [G2 [G3 [G4 G5]]]]].
  rewrite G1. destruct tn as [i sg fc]. simpl in G2.
  assert (Nk : n_nots i = s_get S (okey k)). { rewrite <- NO, <- O, <- G2. reflexivity. }
  rewrite Nk.
  destruct (existsb _ (s_get S (okey k))).
  - simpl. split; auto. intro q. rewrite O. apply NO.
  - simpl. split; auto. intro q. rewrite G4. rewrite s_get_set.
    destruct (list_eq_dec Nat.eq_dec q (okey k)) as [e1|e1].
    + destruct (key_dec (okey k) q) as [e2|e2]; [|congruence]. simpl. rewrite Nk. reflexivity.
    + destruct (key_dec (okey k) q) as [e2|e2]; [congruence|]. rewrite O. apply NO.
Qed.

(* the documented precondition of qb_map_notify_del: the key is one a notifier is registered on (or NULL) *)
Definition del_valid (S : sstate) (k : option key) : Prop :=
  match k with Some kk => kk <> [] /\ s_get S kk <> [] | None => True end.

Lemma notify_del_full : forall t d S k fn e cmp ud, Inv t d -> nots_ok (t_root t) S -> del_valid S k ->
  snd (do_notify_del t k fn e cmp ud) = snd (spec_notify_del S k fn e cmp ud) /\
  nots_ok (t_root (fst (do_notify_del t k fn e cmp ud))) (fst (spec_notify_del S k fn e cmp ud)).
Proof.
  intros t d S k fn e cmp ud HI NO Hk. unfold do_notify_del, spec_notify_del.
  assert (X : exists p, (match k with Some kk => lookup (t_root t) kk false | None => Some [] end) = Some p /\
                        look_t (t_root t) (okey k) true = Some p).
  { destruct k as [kk|]; simpl.
    - destruct Hk as [Hne Hs]. unfold lookup. destruct kk as [|b k0] eqn:Ek; [congruence|]. rewrite <- Ek in *.
      destruct (look_t (t_root t) kk true) as [p|] eqn:L.
      + exists p. split; auto. apply (look_exact_nonexact _ _ (le_n _)). exact L.
      + exfalso. apply Hs. rewrite <- NO. rewrite (look_none_obs _ _ (le_n _) _ L). reflexivity.
    - exists []. split; auto. apply look_root_nil. apply (inv_hdr _ _ HI). }
  destruct X as [p [E L]]. rewrite E.
  destruct (upd_ok _ _ (le_n _) _ _ L) as [tn [G1 [G2 [G3 [G4 G5]]]]].
  rewrite G1. destruct tn as [i sg fc]. simpl in G2.
  assert (Nk : n_nots i = s_get S (okey k)). { rewrite <- NO, <- G2. reflexivity. }
  rewrite Nk.
  destruct (existsb _ (s_get S (okey k))).
  2:{ simpl. split; auto. }
  simpl. split; auto.
  match goal with |- context [release ?r p] => set (r1 := r) end.
  assert (W1 : all_t wfi r1).
  { unfold r1. apply G5; [apply (inv_wf _ _ HI)|]. intros [A [B C]]. unfold wfi. simpl. auto. }
  pose proof (rel_ok p r1 true W1) as R. unfold release. destruct (rel_t r1 p true) as [r'|].
  2:{ destruct R as [_ Y]. discriminate. }
  destruct R as [R1 _]. intro q. rewrite R1. unfold r1. rewrite G4, s_get_set.
  destruct (list_eq_dec Nat.eq_dec q (okey k)) as [e1|e1].
  - destruct (key_dec (okey k) q) as [e2|e2]; [|congruence]. simpl. rewrite Nk. reflexivity.
  - destruct (key_dec (okey k) q) as [e2|e2]; [congruence|]. apply NO.
Qed.
