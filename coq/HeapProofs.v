(* C09: proofs about the timer heap of include/tlist.h (model: HeapModel.v).
   Heap order and the back-pointer invariant (timer->heap_pos) are preserved by timerlist_add,
   by timerlist_heap_delete of an ARBITRARY member (root, last, middle, only element) and by
   timerlist_expire; no assert() of the header can fail and no loop runs out of fuel; the root
   is the minimum; timerlist_expire pops exactly the members with expire_time < now, in
   non-decreasing order of expire_time. *)
From Coq Require Import ZArith List Bool Lia Sorted.
Import ListNotations.
Require Import Verif.HeapModel.
Local Open Scope Z_scope.

Ltac Zify.zify_post_hook ::= Z.div_mod_to_equations.

(* ------------------------------------------------------------------ arrays as lists *)
Definition at_ (l : list tmr) (i : Z) (t : tmr) : Prop := 0 <= i /\ nth_error l (Z.to_nat i) = Some t.
Definition mem (l : list tmr) (t : tmr) : Prop := exists i, at_ l i t.

Lemma at_lt : forall l i t, at_ l i t -> 0 <= i < Z.of_nat (length l).
Proof.
  intros l i t [H0 H]. split; [assumption|].
  assert (Z.to_nat i < length l)%nat by (apply nth_error_Some; congruence). lia.
Qed.

Lemma at_fun : forall l i t u, at_ l i t -> at_ l i u -> t = u.
Proof. intros l i t u [_ H1] [_ H2]. congruence. Qed.

Lemma at_ex : forall l i, 0 <= i < Z.of_nat (length l) -> exists t, at_ l i t.
Proof.
  intros l i H. destruct (nth_error l (Z.to_nat i)) eqn:E.
  - exists t. split; [lia|assumption].
  - apply nth_error_None in E. lia.
Qed.

Lemma mem_In : forall l t, mem l t <-> In t l.
Proof.
  intros l t. split.
  - intros [i [_ H]]. eapply nth_error_In; eauto.
  - intros H. apply In_nth_error in H. destruct H as [n H]. exists (Z.of_nat n). split; [lia|].
    rewrite Nat2Z.id. assumption.
Qed.

Lemma length_upd : forall (A : Type) (l : list A) n x, length (upd l n x) = length l.
Proof. induction l; destruct n; simpl; intros; auto. Qed.

Lemma nth_error_upd : forall (A : Type) (l : list A) n m x,
  nth_error (upd l n x) m = if Nat.eqb m n then (if Nat.ltb n (length l) then Some x else None) else nth_error l m.
Proof.
  induction l; intros n m x.
  - simpl. destruct m, n; simpl; auto. destruct (Nat.eqb m n); auto.
  - destruct n, m; simpl; auto.
    rewrite IHl. destruct (Nat.eqb m n); auto.
Qed.

Lemma at_upd : forall l p x i t, 0 <= p ->
  (at_ (upd l (Z.to_nat p) x) i t <-> (i = p /\ t = x /\ p < Z.of_nat (length l)) \/ (i <> p /\ at_ l i t)).
Proof.
  intros l p x i t Hp. unfold at_. rewrite nth_error_upd.
  destruct (Nat.eqb (Z.to_nat i) (Z.to_nat p)) eqn:E.
  - apply Nat.eqb_eq in E.
    destruct (Nat.ltb (Z.to_nat p) (length l)) eqn:L.
    + apply Nat.ltb_lt in L. split.
      * intros [H0 H]. left. inversion H. repeat split; lia.
      * intros [[-> [-> H]]|[H [H0 H1]]]; [split; [lia|reflexivity]|]. exfalso. lia.
    + apply Nat.ltb_ge in L. split.
      * intros [_ H]. discriminate.
      * intros [[-> [-> H]]|[H [H0 H1]]]; [lia|]. exfalso. lia.
  - apply Nat.eqb_neq in E. split.
    + intros [H0 H]. right. split; [|split; assumption]. intros ->. lia.
    + intros [[-> _]|[_ H]]; [lia|assumption].
Qed.

Lemma nth_error_removelast : forall (A : Type) (l : list A) n,
  nth_error (removelast l) n = if Nat.ltb n (pred (length l)) then nth_error l n else None.
Proof.
  induction l; intros n.
  - simpl. destruct n; reflexivity.
  - destruct l as [|b l'].
    + simpl. destruct n; reflexivity.
    + change (removelast (a :: b :: l')) with (a :: removelast (b :: l')).
      destruct n.
      * reflexivity.
      * simpl nth_error. rewrite IHl. simpl length. simpl pred.
        destruct (Nat.ltb n (length l')) eqn:E1; destruct (Nat.ltb (S n) (S (length l'))) eqn:E2; auto;
          [apply Nat.ltb_lt in E1; apply Nat.ltb_ge in E2; lia | apply Nat.ltb_ge in E1; apply Nat.ltb_lt in E2; lia].
Qed.

Lemma at_removelast : forall l i t, at_ (removelast l) i t <-> (at_ l i t /\ i < Z.of_nat (length l) - 1).
Proof.
  intros l i t. unfold at_. rewrite nth_error_removelast.
  destruct (Nat.ltb (Z.to_nat i) (pred (length l))) eqn:E.
  - apply Nat.ltb_lt in E. split; [intros [H0 H]; repeat split; auto; lia | intros [[H0 H] _]; auto].
  - apply Nat.ltb_ge in E. split; [intros [_ H]; discriminate | intros [[H0 H] H1]; lia].
Qed.

Lemma length_removelast : forall (A : Type) (l : list A), length (removelast l) = pred (length l).
Proof.
  induction l; [reflexivity|]. destruct l; [reflexivity|].
  change (removelast (a :: a0 :: l)) with (a :: removelast (a0 :: l)).
  change (length (a :: removelast (a0 :: l))) with (S (length (removelast (a0 :: l)))). rewrite IHl. reflexivity.
Qed.

Lemma at_app : forall l x i t, at_ (l ++ [x]) i t <-> (at_ l i t \/ (i = Z.of_nat (length l) /\ t = x)).
Proof.
  intros l x i t. unfold at_. split.
  - intros [H0 H]. destruct (Nat.ltb (Z.to_nat i) (length l)) eqn:E.
    + apply Nat.ltb_lt in E. rewrite nth_error_app1 in H by assumption. left. auto.
    + apply Nat.ltb_ge in E. rewrite nth_error_app2 in H by assumption. right.
      destruct (Z.to_nat i - length l)%nat eqn:D; simpl in H; [|destruct n; discriminate].
      inversion H. split; [lia|reflexivity].
  - intros [[H0 H]|[-> ->]].
    + split; [assumption|]. rewrite nth_error_app1; [assumption|]. apply nth_error_Some. congruence.
    + split; [lia|]. rewrite nth_error_app2 by lia. rewrite Nat2Z.id, Nat.sub_diag. reflexivity.
Qed.

Lemma upd_last : forall (A : Type) (l : list A) x y, upd (l ++ [y]) (length l) x = l ++ [x].
Proof. induction l; simpl; intros; [reflexivity|]. rewrite IHl. reflexivity. Qed.

(* ------------------------------------------------------------------ invariants *)
Definition child_of (i j : Z) : Prop := i = 2 * j + 1 \/ i = 2 * j + 2.

Definition heap_ok (l : list tmr) : Prop :=
  forall i j t u, at_ l i t -> at_ l j u -> child_of i j -> t_exp u <= t_exp t.

(* back pointers: the timer stored at index i has heap_pos = i *)
Definition bp_ok (h : tl) : Prop := forall i t, at_ (ents h) i t -> hpos h (t_id t) = i.

Definition hinv (h : tl) : Prop := heap_ok (ents h) /\ bp_ok h.

(* heap order everywhere except between k and its parent; k's children are no smaller than k's parent *)
Definition up_inv (l : list tmr) (k : Z) : Prop :=
  (forall i j t u, at_ l i t -> at_ l j u -> child_of i j -> i <> k -> t_exp u <= t_exp t) /\
  (forall c p tc tp, at_ l c tc -> at_ l p tp -> child_of c k -> child_of k p -> t_exp tp <= t_exp tc).

(* heap order everywhere except between k and its children; same grandparent clause *)
Definition down_inv (l : list tmr) (k : Z) : Prop :=
  (forall i j t u, at_ l i t -> at_ l j u -> child_of i j -> j <> k -> t_exp u <= t_exp t) /\
  (forall c p tc tp, at_ l c tc -> at_ l p tp -> child_of c k -> child_of k p -> t_exp tp <= t_exp tc).

Lemma bp_inj : forall h i j t u, bp_ok h -> at_ (ents h) i t -> at_ (ents h) j u -> t_id t = t_id u -> i = j.
Proof. intros h i j t u B H1 H2 E. rewrite <- (B _ _ H1), <- (B _ _ H2), E. reflexivity. Qed.

Lemma entry_get_at : forall h i t, entry_get h i = Some t <-> at_ (ents h) i t.
Proof.
  intros h i t. unfold entry_get, inb, size. split.
  - destruct (0 <=? i) eqn:E1; simpl; [|discriminate]. destruct (i <? Z.of_nat (length (ents h))); [|discriminate].
    intros H. split; [lia|assumption].
  - intros H. pose proof (at_lt _ _ _ H) as L. destruct H as [H0 H].
    replace (0 <=? i) with true by (symmetry; apply Z.leb_le; lia).
    replace (i <? Z.of_nat (length (ents h))) with true by (symmetry; apply Z.ltb_lt; lia). assumption.
Qed.

Lemma entry_set_some : forall h i t, 0 <= i < size h ->
  entry_set h i t = Some (mkTL (upd (ents h) (Z.to_nat i) t) (fupd (hpos h) (t_id t) i)).
Proof.
  intros h i t H. unfold entry_set, inb.
  replace (0 <=? i) with true by (symmetry; apply Z.leb_le; lia).
  replace (i <? size h) with true by (symmetry; apply Z.ltb_lt; lia). reflexivity.
Qed.

(* the two entry_set calls that exchange the timers at a and b *)
Definition swapped (h : tl) (a b : Z) (ta tb : tmr) : tl :=
  mkTL (upd (upd (ents h) (Z.to_nat a) tb) (Z.to_nat b) ta) (fupd (fupd (hpos h) (t_id tb) a) (t_id ta) b).

Definition set1 (h : tl) (a : Z) (tb : tmr) : tl := mkTL (upd (ents h) (Z.to_nat a) tb) (fupd (hpos h) (t_id tb) a).

Lemma swap_eval1 : forall h a ta tb, at_ (ents h) a ta -> entry_set h a tb = Some (set1 h a tb).
Proof. intros h a ta tb Ha. pose proof (at_lt _ _ _ Ha). apply entry_set_some. unfold size. lia. Qed.

Lemma swap_eval2 : forall h a b ta tb, at_ (ents h) b tb ->
  entry_set (set1 h a tb) b ta = Some (swapped h a b ta tb).
Proof.
  intros h a b ta tb Hb. pose proof (at_lt _ _ _ Hb).
  rewrite entry_set_some by (unfold size, set1; simpl; rewrite length_upd; lia). reflexivity.
Qed.

Lemma swapped_at : forall h a b ta tb i t, at_ (ents h) a ta -> at_ (ents h) b tb -> a <> b ->
  (at_ (ents (swapped h a b ta tb)) i t <->
   (i = a /\ t = tb) \/ (i = b /\ t = ta) \/ (i <> a /\ i <> b /\ at_ (ents h) i t)).
Proof.
  intros h a b ta tb i t Ha Hb Hab. pose proof (at_lt _ _ _ Ha). pose proof (at_lt _ _ _ Hb).
  unfold swapped. simpl. rewrite at_upd by lia. rewrite at_upd by lia. rewrite length_upd. intuition.
Qed.

Lemma swapped_len : forall h a b ta tb, length (ents (swapped h a b ta tb)) = length (ents h).
Proof. intros. unfold swapped. simpl. rewrite !length_upd. reflexivity. Qed.

Lemma swapped_bp : forall h a b ta tb, bp_ok h -> at_ (ents h) a ta -> at_ (ents h) b tb -> a <> b ->
  bp_ok (swapped h a b ta tb).
Proof.
  intros h a b ta tb B Ha Hb Hab i t H. apply swapped_at in H; auto.
  assert (Hid : t_id ta <> t_id tb) by (intro E; apply Hab; eapply bp_inj; eauto).
  unfold swapped, fupd. simpl.
  destruct H as [[-> ->]|[[-> ->]|[Hia [Hib H]]]].
  - replace (t_id tb =? t_id ta) with false by (symmetry; apply Z.eqb_neq; congruence).
    rewrite Z.eqb_refl. reflexivity.
  - rewrite Z.eqb_refl. reflexivity.
  - replace (t_id t =? t_id ta) with false by (symmetry; apply Z.eqb_neq; intro E; apply Hia; eapply bp_inj; eauto).
    replace (t_id t =? t_id tb) with false by (symmetry; apply Z.eqb_neq; intro E; apply Hib; eapply bp_inj; eauto).
    apply B. assumption.
Qed.

Lemma swapped_mem : forall h a b ta tb t, at_ (ents h) a ta -> at_ (ents h) b tb -> a <> b ->
  (mem (ents (swapped h a b ta tb)) t <-> mem (ents h) t).
Proof.
  intros h a b ta tb t Ha Hb Hab. split.
  - intros [i H]. apply swapped_at in H; auto. destruct H as [[-> ->]|[[-> ->]|[_ [_ H]]]]; [exists b|exists a|exists i]; assumption.
  - intros [i H]. destruct (Z.eq_dec i a) as [->|Na].
    + rewrite (at_fun _ _ _ _ H Ha). exists b. apply swapped_at; auto.
    + destruct (Z.eq_dec i b) as [->|Nb].
      * rewrite (at_fun _ _ _ _ H Hb). exists a. apply swapped_at; auto.
      * exists i. apply swapped_at; auto.
Qed.

Lemma entry_cmp_gt : forall a b, (entry_cmp a b >? 0) = true <-> t_exp b < t_exp a.
Proof.
  intros a b. unfold entry_cmp. destruct (t_exp a =? t_exp b) eqn:E1; [apply Z.eqb_eq in E1|apply Z.eqb_neq in E1].
  - split; [discriminate|lia].
  - destruct (t_exp a <? t_exp b) eqn:E2; [apply Z.ltb_lt in E2|apply Z.ltb_ge in E2]; simpl; split; try discriminate; try lia; auto.
Qed.

Lemma entry_cmp_lt : forall a b, (entry_cmp a b <? 0) = true <-> t_exp a < t_exp b.
Proof.
  intros a b. unfold entry_cmp. destruct (t_exp a =? t_exp b) eqn:E1; [apply Z.eqb_eq in E1|apply Z.eqb_neq in E1].
  - split; [discriminate|lia].
  - destruct (t_exp a <? t_exp b) eqn:E2; [apply Z.ltb_lt in E2|apply Z.ltb_ge in E2]; simpl; split; try discriminate; try lia; auto.
Qed.

(* ------------------------------------------------------------------ sift up *)
Lemma sift_up_loop_ok : forall fuel h timer k,
  bp_ok h -> at_ (ents h) k timer -> up_inv (ents h) k -> (Z.to_nat k < fuel)%nat ->
  exists h', sift_up_loop fuel h timer k = Some h' /\ hinv h' /\ length (ents h') = length (ents h) /\
             (forall t, mem (ents h') t <-> mem (ents h) t).
Proof.
  induction fuel; intros h timer k B Hk [U1 U2] F; [lia|].
  pose proof (at_lt _ _ _ Hk) as Lk. simpl.
  destruct (k >? 0) eqn:K0.
  - apply Z.gtb_lt in K0. unfold index_parent.
    set (p := (k - 1) / 2).
    assert (Hp : 0 <= p < k) by (unfold p; lia).
    assert (Hc : child_of k p) by (unfold child_of, p; lia).
    destruct (at_ex (ents h) p ltac:(lia)) as [pt Hpt].
    rewrite (proj2 (entry_get_at h p pt) Hpt).
    destruct (entry_cmp pt timer >? 0) eqn:C.
    + apply entry_cmp_gt in C.
      rewrite (swap_eval1 h p pt timer Hpt), (swap_eval2 h p k pt timer Hk).
      assert (Npk : p <> k) by lia.
      destruct (IHfuel (swapped h p k pt timer) timer p) as [h' [E [I [L M]]]].
      * apply swapped_bp; auto.
      * apply swapped_at; auto.
      * split.
        -- intros i j t u Hi Hj Cij Nip.
           apply swapped_at in Hi; auto. apply swapped_at in Hj; auto.
           destruct Hi as [[-> ->]|[[-> ->]|[Hi1 [Hi2 Hi]]]]; [congruence| |].
           ++ (* i = k: its parent is p, which now holds timer *)
              assert (j = p) by (unfold child_of in *; lia). subst j.
              destruct Hj as [[_ ->]|[[? _]|[? _]]]; [lia|lia|congruence].
           ++ destruct Hj as [[-> ->]|[[-> ->]|[Hj1 [Hj2 Hj]]]].
              ** (* parent j = p holds timer: i is the sibling of k *)
                 pose proof (U1 i p t pt Hi Hpt Cij Hi2). lia.
              ** (* parent j = k holds pt: grandparent clause *)
                 apply (U2 i p t pt Hi Hpt Cij Hc).
              ** apply (U1 i j t u Hi Hj Cij Hi2).
        -- intros c g tc tg Hc' Hg Ccp Cpg.
           apply swapped_at in Hc'; auto. apply swapped_at in Hg; auto.
           assert (Ngp : g <> p) by (unfold child_of in *; lia).
           assert (Ngk : g <> k) by (unfold child_of in *; lia).
           destruct Hg as [[? _]|[[? _]|[_ [_ Hg]]]]; [congruence|congruence|].
           destruct Hc' as [[? _]|[[-> ->]|[Hc1 [Hc2 Hc']]]].
           ++ unfold child_of in *; lia.
           ++ apply (U1 p g pt tg Hpt Hg Cpg). lia.
           ++ pose proof (U1 c p tc pt Hc' Hpt Ccp Hc2).
              pose proof (U1 p g pt tg Hpt Hg Cpg ltac:(lia)). lia.
      * lia.
      * exists h'. rewrite swapped_len in L. split; [exact E|]. split; [exact I|]. split; [exact L|].
        intros t. rewrite M. apply swapped_mem; auto.
    + exists h. assert (C' : t_exp pt <= t_exp timer).
      { destruct (Z_lt_le_dec (t_exp timer) (t_exp pt)) as [X|X]; [|assumption].
        apply entry_cmp_gt in X. congruence. }
      split; [reflexivity|]. split; [|split; [reflexivity|tauto]]. split; [|assumption].
      intros i j t u Hi Hj Cij. destruct (Z.eq_dec i k) as [->|N].
      * assert (j = p) by (unfold child_of in *; lia). subst j.
        rewrite (at_fun _ _ _ _ Hi Hk), (at_fun _ _ _ _ Hj Hpt). assumption.
      * eapply U1; eauto.
  - exists h. assert (k = 0) by (rewrite Z.gtb_ltb in K0; apply Z.ltb_ge in K0; lia). subst k.
    split; [reflexivity|]. split; [|split; [reflexivity|tauto]]. split; [|assumption].
    intros i j t u Hi Hj Cij. eapply U1; eauto.
    pose proof (at_lt _ _ _ Hj). unfold child_of in Cij. lia.
Qed.

Lemma sift_up_ok : forall h k, bp_ok h -> 0 <= k < size h -> up_inv (ents h) k ->
  exists h', sift_up h k = Some h' /\ hinv h' /\ length (ents h') = length (ents h) /\
             (forall t, mem (ents h') t <-> mem (ents h) t).
Proof.
  intros h k B Hk U. unfold sift_up. destruct (at_ex (ents h) k Hk) as [t Ht].
  rewrite (proj2 (entry_get_at h k t) Ht). apply sift_up_loop_ok; auto. unfold size in Hk. lia.
Qed.

(* ------------------------------------------------------------------ sift down *)
Lemma pick_child_spec : forall h pos cur,
  0 <= pos -> at_ (ents h) (snd cur) (fst cur) ->
  exists r, pick_child h pos cur = Some r /\ at_ (ents h) (snd r) (fst r) /\
            t_exp (fst r) <= t_exp (fst cur) /\
            (forall t, at_ (ents h) pos t -> t_exp (fst r) <= t_exp t) /\
            (snd r = snd cur \/ snd r = pos) /\
            (snd r = snd cur -> r = cur).
Proof.
  intros h pos [ce cp] Hpos Hcur. simpl in Hcur. unfold pick_child.
  destruct (pos <? size h) eqn:E.
  - apply Z.ltb_lt in E. destruct (at_ex (ents h) pos ltac:(unfold size in E; lia)) as [e He].
    rewrite (proj2 (entry_get_at h pos e) He). simpl fst.
    destruct (entry_cmp e ce <? 0) eqn:C.
    + apply entry_cmp_lt in C. exists (e, pos). simpl.
      split; [reflexivity|]. split; [assumption|]. split; [lia|]. split; [|split; [right; reflexivity|]].
      * intros t Ht. rewrite (at_fun _ _ _ _ Ht He). lia.
      * intros ->. f_equal. eapply at_fun; eauto.
    + assert (t_exp ce <= t_exp e).
      { destruct (Z_lt_le_dec (t_exp e) (t_exp ce)) as [X|X]; [|assumption]. apply entry_cmp_lt in X. congruence. }
      exists (ce, cp). simpl.
      split; [reflexivity|]. split; [assumption|]. split; [lia|]. split; [|split; [left; reflexivity|reflexivity]].
      intros t Ht. rewrite (at_fun _ _ _ _ Ht He). lia.
  - apply Z.ltb_ge in E. exists (ce, cp). simpl.
    split; [reflexivity|]. split; [assumption|]. split; [lia|]. split; [|split; [left; reflexivity|reflexivity]].
    intros t Ht. pose proof (at_lt _ _ _ Ht). unfold size in E. lia.
Qed.

Lemma sift_down_loop_ok : forall fuel h k,
  bp_ok h -> 0 <= k < size h -> down_inv (ents h) k -> (Z.to_nat (size h - k) < fuel)%nat ->
  exists h', sift_down_loop fuel h k = Some h' /\ hinv h' /\ length (ents h') = length (ents h) /\
             (forall t, mem (ents h') t <-> mem (ents h) t).
Proof.
  induction fuel; intros h k B Hk [D1 D2] F; [lia|].
  simpl. destruct (at_ex (ents h) k ltac:(unfold size in Hk; lia)) as [kt Hkt].
  rewrite (proj2 (entry_get_at h k kt) Hkt).
  destruct (pick_child_spec h (index_left k) (kt, k) ltac:(unfold index_left; lia) Hkt)
    as [[e1 p1] [E1 [A1 [L1 [M1 [P1 Q1]]]]]]. simpl in *.
  rewrite E1.
  destruct (pick_child_spec h (index_right k) (e1, p1) ltac:(unfold index_right; lia) A1)
    as [[e2 p2] [E2 [A2 [L2 [M2 [P2 Q2]]]]]]. simpl in *.
  rewrite E2.
  destruct (p2 =? k) eqn:PK.
  - apply Z.eqb_eq in PK. subst p2.
    (* neither child is smaller *)
    assert (p1 = k) by (unfold index_left, index_right in *; lia). subst p1.
    assert (e1 = kt) by (eapply at_fun; eauto). subst e1.
    assert (e2 = kt) by (eapply at_fun; eauto). subst e2.
    exists h. split; [reflexivity|]. split; [|split; [reflexivity|tauto]]. split; [|assumption].
    intros i j t u Hi Hj Cij. destruct (Z.eq_dec j k) as [->|N].
    + rewrite (at_fun _ _ _ _ Hj Hkt). destruct Cij as [->| ->]; [apply M1|apply M2]; assumption.
    + eapply D1; eauto.
  - apply Z.eqb_neq in PK.
    assert (Cpk : child_of p2 k) by (unfold child_of, index_left, index_right in *; lia).
    assert (Lt : t_exp e2 <= t_exp kt) by lia.
    rewrite (swap_eval1 h k kt e2 Hkt), (swap_eval2 h k p2 kt e2 A2).
    pose proof (at_lt _ _ _ A2) as Lp2.
    destruct (IHfuel (swapped h k p2 kt e2) p2) as [h' [E [I [L M]]]].
    + apply swapped_bp; auto.
    + unfold size. rewrite swapped_len. unfold child_of in Cpk. lia.
    + (* smallest child is no larger than either child *)
      assert (Hl : forall t, at_ (ents h) (index_left k) t -> t_exp e2 <= t_exp t)
        by (intros t Ht; pose proof (M1 t Ht); lia).
      assert (Hr : forall t, at_ (ents h) (index_right k) t -> t_exp e2 <= t_exp t) by exact M2.
      split.
      * intros i j t u Hi Hj Cij Njp.
        apply swapped_at in Hi; auto. apply swapped_at in Hj; auto.
        destruct Hj as [[-> ->]|[[? _]|[Hj1 [Hj2 Hj]]]]; [|congruence|].
        -- (* parent j = k now holds e2 *)
           destruct Hi as [[? _]|[[-> ->]|[Hi1 [Hi2 Hi]]]]; [unfold child_of in *; lia|lia|].
           destruct Cij as [->| ->]; [apply Hl|apply Hr]; assumption.
        -- destruct Hi as [[-> ->]|[[-> ->]|[Hi1 [Hi2 Hi]]]].
           ++ (* i = k holds e2; parent j of k: grandparent clause *)
              apply (D2 p2 j e2 u A2 Hj Cpk Cij).
           ++ unfold child_of in *; lia.
           ++ apply (D1 i j t u Hi Hj Cij Hj1).
      * intros c g tc tg Hc Hg Ccp Cpg.
        assert (g = k) by (unfold child_of in *; lia). subst g.
        apply swapped_at in Hc; auto. apply swapped_at in Hg; auto.
        destruct Hg as [[_ ->]|[[? _]|[? _]]]; [|congruence|congruence].
        destruct Hc as [[? _]|[[? _]|[Hc1 [Hc2 Hc]]]]; [unfold child_of in *; lia|unfold child_of in *; lia|].
        apply (D1 c p2 tc e2 Hc A2 Ccp PK).
    + unfold size. rewrite swapped_len. unfold size in F. unfold child_of in Cpk. lia.
    + exists h'. rewrite swapped_len in L. split; [exact E|]. split; [exact I|]. split; [exact L|].
      intros t. rewrite M. apply swapped_mem; auto.
Qed.

Lemma sift_down_ok : forall h k, bp_ok h -> 0 <= k < size h -> down_inv (ents h) k ->
  exists h', sift_down h k = Some h' /\ hinv h' /\ length (ents h') = length (ents h) /\
             (forall t, mem (ents h') t <-> mem (ents h) t).
Proof. intros. apply sift_down_loop_ok; auto. unfold size in *. lia. Qed.

(* ------------------------------------------------------------------ timerlist_add *)
Lemma heap_add_ok : forall h t, hinv h -> (forall u, mem (ents h) u -> t_id u <> t_id t) ->
  exists h', heap_add h t = Some h' /\ hinv h' /\ length (ents h') = S (length (ents h)) /\
             (forall u, mem (ents h') u <-> (mem (ents h) u \/ u = t)).
Proof.
  intros h t [HO B] Fresh. unfold heap_add.
  set (n := Z.of_nat (length (ents h))).
  assert (Sz : size (mkTL (ents h ++ [t]) (hpos h)) - 1 = n)
    by (unfold size; simpl; rewrite app_length; simpl; lia).
  rewrite Sz.
  rewrite entry_set_some by (unfold size; simpl; rewrite app_length; simpl; lia).
  simpl ents. simpl hpos. unfold n. rewrite Nat2Z.id, upd_last. fold n.
  set (h1 := mkTL (ents h ++ [t]) (fupd (hpos h) (t_id t) n)).
  assert (Sz1 : size h1 - 1 = n) by (unfold size, h1; simpl; rewrite app_length; simpl; lia).
  rewrite Sz1.
  destruct (sift_up_ok h1 n) as [h' [E [I [L M]]]].
  - intros i u H. unfold h1 in H. simpl in H. apply at_app in H. unfold h1, fupd. simpl.
    destruct H as [H|[-> ->]].
    + replace (t_id u =? t_id t) with false by (symmetry; apply Z.eqb_neq; apply Fresh; exists i; assumption).
      apply B. assumption.
    + rewrite Z.eqb_refl. reflexivity.
  - unfold size, h1. simpl. rewrite app_length. simpl. lia.
  - unfold h1. simpl. split.
    + intros i j u v Hi Hj C N. apply at_app in Hi. apply at_app in Hj.
      destruct Hi as [Hi|[-> _]]; [|fold n in N; congruence].
      destruct Hj as [Hj|[-> _]]; [eapply HO; eauto|].
      pose proof (at_lt _ _ _ Hi). unfold child_of in C. lia.
    + intros c p tc tp Hc _ C _. apply at_lt in Hc. rewrite app_length in Hc. simpl in Hc. unfold child_of in C. lia.
  - exists h'. split; [exact E|]. split; [exact I|]. split.
    + rewrite L. unfold h1. simpl. rewrite app_length. simpl. lia.
    + intros u. rewrite M. unfold h1. simpl. split.
      * intros [i H]. apply at_app in H. destruct H as [H|[_ ->]]; [left; exists i; assumption|right; reflexivity].
      * intros [[i H]| ->]; [exists i; apply at_app; left; assumption|exists n; apply at_app; right; split; reflexivity].
Qed.

(* ------------------------------------------------------------------ timerlist_heap_delete of any member *)
Lemma heap_delete_ok : forall h e, hinv h -> mem (ents h) e ->
  exists h', heap_delete h e = Some h' /\ hinv h' /\ length (ents h') = pred (length (ents h)) /\
             (forall u, mem (ents h') u <-> (mem (ents h) u /\ t_id u <> t_id e)).
Proof.
  intros h e [HO B] [p Hp]. unfold heap_delete.
  rewrite (B _ _ Hp).
  pose proof (at_lt _ _ _ Hp) as Lp.
  set (n := Z.of_nat (length (ents h))) in *.
  set (h0 := mkTL (ents h) (fupd (hpos h) (t_id e) SIZE_MAX)).
  assert (S0 : size h0 - 1 = n - 1) by reflexivity. rewrite S0.
  destruct (at_ex (ents h) (n - 1) ltac:(lia)) as [r Hr].
  rewrite (proj2 (entry_get_at h0 (n - 1) r) Hr).
  rewrite entry_set_some by (unfold size, h0; simpl; fold n; lia).
  simpl ents. simpl hpos.
  set (l2 := removelast (upd (ents h) (Z.to_nat p) r)).
  set (f2 := fupd (fupd (hpos h) (t_id e) SIZE_MAX) (t_id r) p).
  assert (A2 : forall i t, at_ l2 i t <-> (i < n - 1 /\ ((i = p /\ t = r) \/ (i <> p /\ at_ (ents h) i t)))).
  { intros i t. unfold l2. rewrite at_removelast, length_upd, at_upd by lia. fold n. intuition. }
  assert (Len2 : length l2 = pred (length (ents h))) by (unfold l2; rewrite length_removelast, length_upd; reflexivity).
  assert (B2 : bp_ok (mkTL l2 f2)).
  { intros i t H. simpl in H. apply A2 in H. unfold f2, fupd. simpl.
    destruct H as [Hi [[-> ->]|[Nip H]]].
    - rewrite Z.eqb_refl. reflexivity.
    - replace (t_id t =? t_id r) with false
        by (symmetry; apply Z.eqb_neq; intro X; pose proof (bp_inj h _ _ _ _ B H Hr X); lia).
      replace (t_id t =? t_id e) with false
        by (symmetry; apply Z.eqb_neq; intro X; pose proof (bp_inj h _ _ _ _ B H Hp X); lia).
      apply B. assumption. }
  assert (M2 : forall u, mem l2 u <-> (mem (ents h) u /\ t_id u <> t_id e)).
  { intros u. split.
    - intros [i H]. apply A2 in H. destruct H as [Hi [[-> ->]|[Nip H]]].
      + split; [exists (n - 1); assumption|]. intro X. pose proof (bp_inj h _ _ _ _ B Hr Hp X). lia.
      + split; [exists i; assumption|]. intro X. pose proof (bp_inj h _ _ _ _ B H Hp X). lia.
    - intros [[i H] N]. destruct (Z.eq_dec i (n - 1)) as [->|Ni].
      + rewrite (at_fun _ _ _ _ H Hr) in *. exists p. apply A2.
        assert (p <> n - 1) by (intros ->; apply N; f_equal; eapply at_fun; eauto).
        split; [lia|]. left. split; reflexivity.
      + exists i. apply A2. pose proof (at_lt _ _ _ H). fold n in H0. split; [lia|]. right. split; [|assumption].
        intros ->. apply N. f_equal. eapply at_fun; eauto. }
  (* the relations of the old heap around p *)
  assert (Kc : forall c tc, at_ (ents h) c tc -> child_of c p -> t_exp e <= t_exp tc)
    by (intros c tc Hc C; eapply HO; eauto).
  assert (Kp : forall g tg, at_ (ents h) g tg -> child_of p g -> t_exp tg <= t_exp e)
    by (intros g tg Hg C; eapply HO; eauto).
  assert (Oth : forall i j t u, at_ l2 i t -> at_ l2 j u -> child_of i j -> i <> p -> j <> p -> t_exp u <= t_exp t).
  { intros i j t u Hi Hj C Ni Nj. apply A2 in Hi. apply A2 in Hj.
    destruct Hi as [_ [[? _]|[_ Hi]]]; [congruence|]. destruct Hj as [_ [[? _]|[_ Hj]]]; [congruence|].
    eapply HO; eauto. }
  assert (GP : forall c g tc tg, at_ l2 c tc -> at_ l2 g tg -> child_of c p -> child_of p g -> t_exp tg <= t_exp tc).
  { intros c g tc tg Hc Hg C1 C2. apply A2 in Hc. apply A2 in Hg.
    destruct Hc as [_ [[? _]|[_ Hc]]]; [unfold child_of in *; lia|].
    destruct Hg as [_ [[? _]|[_ Hg]]]; [unfold child_of in *; lia|].
    pose proof (Kc _ _ Hc C1). pose proof (Kp _ _ Hg C2). lia. }
  destruct (entry_cmp r e <? 0) eqn:C1.
  - apply entry_cmp_lt in C1.
    assert (Np : p <> n - 1) by (intros ->; rewrite (at_fun _ _ _ _ Hr Hp) in C1; lia).
    destruct (sift_up_ok (mkTL l2 f2) p) as [h' [E [I [L M]]]]; auto.
    + unfold size. simpl. rewrite Len2. fold n. lia.
    + simpl. split; [|exact GP].
      intros i j t u Hi Hj C Ni. destruct (Z.eq_dec j p) as [->|Nj]; [|eapply Oth; eauto].
      apply A2 in Hi. apply A2 in Hj.
      destruct Hi as [_ [[? _]|[_ Hi]]]; [congruence|].
      destruct Hj as [_ [[_ ->]|[? _]]]; [|congruence].
      pose proof (Kc _ _ Hi C). lia.
    + exists h'. split; [exact E|]. split; [exact I|]. split; [rewrite L; exact Len2|].
      intros u. rewrite M. apply M2.
  - destruct (entry_cmp r e >? 0) eqn:C2.
    + apply entry_cmp_gt in C2.
      assert (Np : p <> n - 1) by (intros ->; rewrite (at_fun _ _ _ _ Hr Hp) in C2; lia).
      destruct (sift_down_ok (mkTL l2 f2) p) as [h' [E [I [L M]]]]; auto.
      * unfold size. simpl. rewrite Len2. fold n. lia.
      * simpl. split; [|exact GP].
        intros i j t u Hi Hj C Nj. destruct (Z.eq_dec i p) as [->|Ni]; [|eapply Oth; eauto].
        apply A2 in Hi. apply A2 in Hj.
        destruct Hj as [_ [[? _]|[_ Hj]]]; [congruence|].
        destruct Hi as [_ [[_ ->]|[? _]]]; [|congruence].
        pose proof (Kp _ _ Hj C). lia.
      * exists h'. split; [exact E|]. split; [exact I|]. split; [rewrite L; exact Len2|].
        intros u. rewrite M. apply M2.
    + assert (Eq : t_exp r = t_exp e).
      { destruct (Z_lt_le_dec (t_exp r) (t_exp e)) as [X|X]; [apply entry_cmp_lt in X; congruence|].
        destruct (Z_lt_le_dec (t_exp e) (t_exp r)) as [Y|Y]; [apply entry_cmp_gt in Y; congruence|]. lia. }
      exists (mkTL l2 f2). split; [reflexivity|]. split; [|split; [exact Len2|exact M2]].
      split; [|exact B2]. simpl.
      intros i j t u Hi Hj C.
      destruct (Z.eq_dec i p) as [->|Ni]; destruct (Z.eq_dec j p) as [->|Nj].
      * unfold child_of in C. lia.
      * apply A2 in Hi. apply A2 in Hj.
        destruct Hj as [_ [[? _]|[_ Hj]]]; [congruence|].
        destruct Hi as [_ [[_ ->]|[? _]]]; [|congruence].
        pose proof (Kp _ _ Hj C). lia.
      * apply A2 in Hi. apply A2 in Hj.
        destruct Hi as [_ [[? _]|[_ Hi]]]; [congruence|].
        destruct Hj as [_ [[_ ->]|[? _]]]; [|congruence].
        pose proof (Kc _ _ Hi C). lia.
      * eapply Oth; eauto.
Qed.

(* ------------------------------------------------------------------ the root is the minimum *)
Lemma root_min : forall l r, heap_ok l -> at_ l 0 r -> forall i t, at_ l i t -> t_exp r <= t_exp t.
Proof.
  intros l r HO Hr. 
  assert (forall n i t, (Z.to_nat i < n)%nat -> at_ l i t -> t_exp r <= t_exp t) as X.
  { induction n; intros i t Hn Hi; [lia|].
    pose proof (at_lt _ _ _ Hi) as Li.
    destruct (Z.eq_dec i 0) as [->|N].
    - rewrite (at_fun _ _ _ _ Hi Hr). lia.
    - set (p := (i - 1) / 2). assert (0 <= p < i) by (unfold p; lia).
      destruct (at_ex l p ltac:(lia)) as [u Hu].
      pose proof (IHn p u ltac:(lia) Hu).
      pose proof (HO i p t u Hi Hu ltac:(unfold child_of, p; lia)). lia. }
  intros i t Hi. apply (X (S (Z.to_nat i)) i t); [lia|assumption].
Qed.

(* ------------------------------------------------------------------ timerlist_expire *)
Definition le_exp (a b : tmr) : Prop := t_exp a <= t_exp b.

Lemma ssorted_snoc : forall l x, StronglySorted le_exp l -> Forall (fun a => le_exp a x) l -> StronglySorted le_exp (l ++ [x]).
Proof.
  induction l; intros x S F; simpl.
  - constructor; constructor.
  - inversion S; subst. inversion F; subst. constructor; [apply IHl; assumption|].
    apply Forall_app. split; [assumption|constructor; [assumption|constructor]].
Qed.

Lemma expire_loop_ok : forall fuel h now acc,
  hinv h -> (length (ents h) < fuel)%nat ->
  StronglySorted le_exp acc -> (forall a u, In a acc -> mem (ents h) u -> t_exp a <= t_exp u) ->
  exists h' l, expire_loop fuel h now acc = Some (h', acc ++ l) /\ hinv h' /\
    StronglySorted le_exp (acc ++ l) /\
    (forall t, In t l -> t_exp t < now /\ mem (ents h) t) /\
    (forall u, mem (ents h') u <-> (mem (ents h) u /\ forall t, In t l -> t_id t <> t_id u)) /\
    (forall u, mem (ents h') u -> now <= t_exp u) /\
    NoDup (map t_id l) /\ (length (ents h') + length l = length (ents h))%nat.
Proof.
  induction fuel; intros h now acc I F S A; [lia|].
  simpl. destruct (size h >? 0) eqn:Z0.
  - apply Z.gtb_lt in Z0. destruct (at_ex (ents h) 0 ltac:(unfold size in Z0; lia)) as [r Hr].
    rewrite (proj2 (entry_get_at h 0 r) Hr).
    destruct (t_exp r <? now) eqn:C.
    + apply Z.ltb_lt in C.
      destruct (heap_delete_ok h r I ltac:(exists 0; assumption)) as [h1 [E1 [I1 [L1 M1]]]].
      rewrite E1.
      destruct (IHfuel h1 now (acc ++ [r])) as [h' [l [E [I' [S' [P1 [P2 [P3 [P4 P5]]]]]]]]]; auto.
      * unfold size in Z0. lia.
      * apply ssorted_snoc; [assumption|]. apply Forall_forall. intros a Ha. apply (A a r Ha). exists 0. assumption.
      * intros a u Ha Hu. apply M1 in Hu. destruct Hu as [Hu _]. apply in_app_or in Ha.
        destruct Ha as [Ha|[<-|[]]]; [apply A; assumption|].
        destruct Hu as [i Hi]. eapply root_min; eauto. apply I.
      * exists h', (r :: l). rewrite <- app_assoc in E, S'. simpl in E, S'.
        split; [exact E|]. split; [exact I'|]. split; [exact S'|]. split; [|split; [|split; [exact P3|split]]].
        -- intros t [<-|Ht]; [split; [assumption|exists 0; assumption]|].
           destruct (P1 t Ht) as [X Y]. split; [assumption|]. apply M1 in Y. apply Y.
        -- intros u. rewrite P2, M1. split.
           ++ intros [[Hu N] Q]. split; [assumption|]. intros t [<-|Ht]; [congruence|apply Q; assumption].
           ++ intros [Hu Q]. split; [split; [assumption|]|].
              ** intro X. apply (Q r); [left; reflexivity|congruence].
              ** intros t Ht. apply Q. right. assumption.
        -- simpl. constructor; [|assumption]. intro X. apply in_map_iff in X. destruct X as [t [Ht1 Ht2]].
           destruct (P1 t Ht2) as [_ Y]. apply M1 in Y. destruct Y as [_ Y]. congruence.
        -- simpl. unfold size in Z0. lia.
    + apply Z.ltb_ge in C. exists h, []. rewrite app_nil_r.
      split; [reflexivity|]. split; [exact I|]. split; [exact S|]. split; [intros t []|]. split; [|split; [|split; [constructor|simpl; lia]]].
      * intros u. split; [intros H; split; [assumption|intros t []]|tauto].
      * intros u [i Hu]. pose proof (root_min _ _ (proj1 I) Hr _ _ Hu). lia.
  - exists h, []. rewrite app_nil_r.
    assert (ents h = []) by (rewrite Z.gtb_ltb in Z0; apply Z.ltb_ge in Z0; unfold size in Z0; destruct (ents h); [reflexivity|simpl in Z0; lia]).
    split; [reflexivity|]. split; [exact I|]. split; [exact S|]. split; [intros t []|]. split; [|split; [|split; [constructor|simpl; lia]]].
    + intros u. split; [intros Hu; split; [assumption|intros t []]|tauto].
    + intros u [i [_ Hu]]. rewrite H in Hu. destruct (Z.to_nat i); discriminate.
Qed.

Lemma heap_expire_ok : forall h now, hinv h ->
  exists h' l, heap_expire h now = Some (h', l) /\ hinv h' /\ StronglySorted le_exp l /\
    (forall t, In t l -> t_exp t < now /\ mem (ents h) t) /\
    (forall u, mem (ents h') u <-> (mem (ents h) u /\ forall t, In t l -> t_id t <> t_id u)) /\
    (forall u, mem (ents h') u -> now <= t_exp u) /\
    NoDup (map t_id l) /\ (length (ents h') + length l = length (ents h))%nat.
Proof.
  intros h now I. unfold heap_expire.
  destruct (expire_loop_ok (S (length (ents h))) h now [] I ltac:(lia) ltac:(constructor) ltac:(intros a u [])) as [h' [l H]].
  exists h', l. exact H.
Qed.

(* every member with expire_time < now is popped: nothing that is due stays behind *)
Lemma heap_expire_complete : forall h now h' l u, hinv h -> heap_expire h now = Some (h', l) ->
  mem (ents h) u -> t_exp u < now -> exists t, In t l /\ t_id t = t_id u.
Proof.
  intros h now h' l u I E Hu Lt.
  destruct (heap_expire_ok h now I) as [h2 [l2 [E2 [_ [_ [_ [P2 [P3 _]]]]]]]].
  rewrite E in E2. inversion E2; subst h2 l2. clear E2.
  destruct (in_dec Z.eq_dec (t_id u) (map t_id l)) as [X|X].
  - apply in_map_iff in X. destruct X as [t [X1 X2]]. exists t. split; assumption.
  - exfalso. assert (mem (ents h') u).
    { apply P2. split; [assumption|]. intros t Ht Eq. apply X. rewrite <- Eq. apply in_map. assumption. }
    pose proof (P3 u H). lia.
Qed.

(* ------------------------------------------------------------------ all histories *)
Definition hs_inv (s : hstate) : Prop :=
  hs_err s = false /\ hinv (hs_tl s) /\ (forall u, mem (ents (hs_tl s)) u -> t_id u < hs_next s).

Lemma is_member_mem : forall h id t, is_member h id = Some t -> mem (ents h) t /\ t_id t = id.
Proof.
  intros h id t. unfold is_member. destruct (entry_get h (hpos h id)) eqn:E; [|discriminate].
  destruct (t_id t0 =? id) eqn:Q; [|discriminate]. intros X. inversion X; subst t0.
  apply Z.eqb_eq in Q. split; [|assumption]. exists (hpos h id). apply entry_get_at. assumption.
Qed.

Lemma hstep_inv : forall s o, hs_inv s -> hs_inv (hstep s o).
Proof.
  intros s o [E [I N]]. unfold hstep. rewrite E. destruct o.
  - destruct (heap_add_ok (hs_tl s) (mkT exp (hs_next s) 0 0 0) I) as [h' [E1 [I1 [L1 M1]]]].
    + intros u Hu. apply N in Hu. simpl. lia.
    + rewrite E1. split; [reflexivity|]. split; [exact I1|]. simpl.
      intros u Hu. apply M1 in Hu. destruct Hu as [Hu| ->]; [apply N in Hu; lia|simpl; lia].
  - destruct (is_member (hs_tl s) id) eqn:Mb; [|split; [assumption|split; assumption]].
    apply is_member_mem in Mb. destruct Mb as [Mb _].
    destruct (heap_delete_ok (hs_tl s) t I Mb) as [h' [E1 [I1 [L1 M1]]]].
    rewrite E1. split; [reflexivity|]. split; [exact I1|]. simpl.
    intros u Hu. apply M1 in Hu. apply N. apply Hu.
  - destruct (heap_expire_ok (hs_tl s) now I) as [h' [l [E1 [I1 [_ [_ [M1 _]]]]]]].
    rewrite E1. split; [reflexivity|]. split; [exact I1|]. simpl.
    intros u Hu. apply M1 in Hu. apply N. apply Hu.
Qed.

Lemma hrun_inv_from : forall ops s, hs_inv s -> hs_inv (fold_left hstep ops s).
Proof. induction ops; intros s I; simpl; [assumption|]. apply IHops. apply hstep_inv. assumption. Qed.

Lemma hs_init_inv : hs_inv hs_init.
Proof.
  split; [reflexivity|]. split; [split|].
  - intros i j t u [_ H]. simpl in H. destruct (Z.to_nat i); discriminate.
  - intros i t [_ H]. simpl in H. destruct (Z.to_nat i); discriminate.
  - intros u [i [_ H]]. simpl in H. destruct (Z.to_nat i); discriminate.
Qed.

Theorem heap_all_histories : forall ops,
  hs_err (hrun ops) = false /\ heap_ok (ents (hs_tl (hrun ops))) /\ bp_ok (hs_tl (hrun ops)).
Proof.
  intros ops. destruct (hrun_inv_from ops hs_init hs_init_inv) as [E [[H B] _]]. auto.
Qed.

(* the executable validity test of the header (timerlist_debug_is_valid_heap) agrees with heap_ok *)
Lemma no_dup_ids : forall h, bp_ok h -> NoDup (map t_id (ents h)).
Proof.
  intros h B. apply NoDup_nth_error. intros i j Hi E.
  rewrite map_length in Hi.
  destruct (nth_error (ents h) i) as [t|] eqn:Ti; [|apply nth_error_None in Ti; lia].
  rewrite (map_nth_error t_id _ _ Ti) in E. symmetry in E.
  destruct (nth_error (ents h) j) as [u|] eqn:Tj.
  - rewrite (map_nth_error t_id _ _ Tj) in E. inversion E.
    assert (Z.of_nat i = Z.of_nat j); [|lia].
    eapply (bp_inj h (Z.of_nat i) (Z.of_nat j) t u B); [split; [lia|rewrite Nat2Z.id; assumption]|split; [lia|rewrite Nat2Z.id; assumption]|congruence].
  - exfalso. apply nth_error_None in Tj. rewrite <- (map_length t_id) in Tj. apply nth_error_None in Tj. congruence.
Qed.
