(* Executable model of libqb's event loop (lib/loop.c, loop_job.c, loop_timerlist.c, loop_poll.c,
   loop_poll_epoll.c) for C08 and C10.  Model only - no proofs here.

   What is transcribed statement by statement (the C function is named at each definition): the three
   priority levels with wait_head / job_head / todo, qb_loop_level_item_add/del, the job source
   (add, del, get_more_jobs, job_dispatch), the timer source (slot table with state / check word,
   timer handles, add, del, is_running, expire_the_timers, timer_dispatch,
   qb_loop_timer_msec_duration_to_expire), the poll source with the epoll driver (slot table with
   state / check / fd / events / revents, tombstones, qb_poll_fds_usage_check_, _poll_add_, poll_add/mod/del,
   _poll_and_add_to_jobs_ with the MAX_EVENTS batch, _poll_dispatch_and_take_back_), the signal source
   (registrations, the pipe entry, clones, signal_add/mod/del, _signal_dispatch_and_take_back_) and
   qb_loop_run / qb_loop_run_level / qb_loop_stop.

   What is abstracted: the timer heap of include/tlist.h is the SET of (expiry, slot) pairs kept in the
   slot table ([t_exp = Some e] = the slot has a heap entry); expire pops the smallest expiry first
   (ties: lowest slot; the generators never produce ties, the heap itself is C09's subject).  malloc
   never fails.  The mutexes are no-ops (single thread).

   The environment (the kernel side of epoll, the signal pipe, the clock, random()) is a small automaton
   that the C harness (harness/h_loop.c, through -Wl,--wrap) implements identically: [kset] is the
   kernel's interest list of the epoll descriptor (epoll_ctl ADD/MOD/DEL with EEXIST/ENOENT), [sigpipe]
   the bytes in the signal pipe, [now] the virtual clock, [rand] the stream random() returns.

   User callbacks are data: [beh key n] is what the n-th invocation of a callback registered with user
   data [key] does (a list of API calls / environment actions) and returns.

   Code variants: the state carries a record [fixes] saying which repairs the modelled tree contains
   (a failed poll add clears the whole entry; signal_del removes every clone; run starts with the todo
   left over).  [tree_fixes] is computed from constants that harness/consts/loop.c obtains by probing the
   behaviour of the tree on every run, so the same model follows /repo before and after those commits.

   Ghost log: besides the observable events the state's [out] records, for the theorems only, the
   creation (EvAdd), callback entry (EvInv) and removal (EvDel) of every registration, identified by a
   uid taken from an allocation counter at the add call. *)
Require Import ZArith List Bool Lia.
Require Import Verif.gen.Consts_loop.
Import ListNotations.
Open Scope Z_scope.

(* ------------------------------------------------------------------ basic types *)
Inductive prio := Low | Med | High.
Definition prio_z (p : prio) : Z := match p with Low => LOOP_LOW | Med => LOOP_MED | High => LOOP_HIGH end.
Definition prio_eqb (a b : prio) : bool :=
  match a, b with Low, Low | Med, Med | High, High => true | _, _ => false end.
(* p >= p_stop on the enum values *)
Definition prio_geb (p pstop : prio) : bool := prio_z pstop <=? prio_z p.

(* enum qb_poll_entry_state *)
Inductive est := Empty | Joblist | Deleted | Active.
Definition est_eqb (a b : est) : bool :=
  match a, b with Empty, Empty | Joblist, Joblist | Deleted, Deleted | Active, Active => true | _, _ => false end.

(* an element of a wait_head / job_head list: struct qb_loop_item embedded in ... *)
Inductive qitem :=
| QJob (uid key : Z)                 (* struct qb_loop_job (malloc'ed per add) *)
| QTimer (slot : nat)                (* struct qb_loop_timer = slot of the timers array *)
| QFd (slot : nat)                   (* struct qb_poll_entry = slot of the poll_entries array *)
| QSig (uid from signo key : Z).     (* clone of registration [from], fields copied at delivery *)

Definition qitem_eqb (a b : qitem) : bool :=
  match a, b with
  | QJob u _, QJob v _ => u =? v
  | QTimer s, QTimer t => Nat.eqb s t
  | QFd s, QFd t => Nat.eqb s t
  | QSig u _ _ _, QSig v _ _ _ => u =? v
  | _, _ => false
  end.

Record level := { wait : list qitem; jobq : list qitem; todo : Z }.

Record tslot := { t_state : est; t_check : Z; t_p : prio; t_key : Z; t_uid : Z;
                  t_exp : option Z (* timerlist_handle: Some expire_time while the heap holds the entry *) }.
Record pslot := { p_state : est; p_check : Z; p_fd : Z; p_events : Z; p_revents : Z; p_p : prio;
                  p_key : Z; p_uid : Z; p_sig : bool (* item.type == QB_LOOP_SIG: the pipe entry *);
                  p_fn : bool (* add_to_jobs has been set *) }.
Record sigreg := { s_id : Z; s_signo : Z; s_p : prio; s_key : Z }.
Record kreg := { k_fd : Z; k_events : Z; k_data : Z }.

(* ------------------------------------------------------------------ API calls as data *)
Inductive op :=
| OJobAdd (p : prio) (key : Z)
| OJobDel (p : prio) (key : Z)
| OTimerAdd (p : prio) (dur key reg : Z)
| OTimerDel (reg : Z)
| OTimerRunning (reg : Z)
| OPollAdd (p : prio) (fd events key : Z)
| OPollMod (p : prio) (fd events key : Z)
| OPollDel (fd : Z)
| OSigAdd (p : prio) (signo key reg : Z)
| OSigMod (p : prio) (signo key reg : Z)
| OSigDel (reg : Z)
| OStop
| OClose (fd : Z)        (* environment: the descriptor is closed (leaves the kernel's interest list); the number is free again *)
| ORaise (signo : Z).    (* environment: a signal is raised now *)

(* observable events, in the order they happen *)
Inductive ev :=
| EvOp (o : op)                      (* an API call / environment action is about to be made *)
| EvRet (tag : Z) (res : Z)          (* an API call returned *)
| EvCb (kind key a b : Z)            (* a user callback was entered: kind 0 job,1 timer,2 fd,3 signal *)
| EvWait (timeout nev : Z)           (* epoll_wait was called with this timeout and returned nev events *)
| EvUsleep                           (* the poll source dropped an event it could not resolve *)
| EvRunRet                           (* qb_loop_run returned *)
| EvUaf (what : Z)                   (* the C code would touch freed memory here *)
(* ghost events (not printed): registration uid created at priority p / its callback entered /
   removed (delete call succeeded, or the callback asked for removal); kind 0 job, 1 timer, 2 fd, 3 signal *)
| EvAdd (kind uid : Z) (p : prio)
| EvInv (kind uid : Z)
| EvDel (kind uid : Z).

(* which repairs the modelled tree contains (constants regenerated from the tree by behavioural probes,
   harness/consts/loop.c); the model follows the code either way *)
Record fixes := { fx_polladd : bool;   (* fixes/C08-poll-add-failure: a failed add clears the whole entry *)
                  fx_sigdel : bool;    (* fixes/C08-signal-del-clones: signal_del removes every clone *)
                  fx_runtodo : bool;   (* C09's run-pending-todo: run starts with the todo left over *)
                  fx_pollreuse : bool }. (* fixes/C08-poll-add-live-fd: an fd number that still has a live entry is refused *)
Definition fixes_all : fixes := {| fx_polladd := true; fx_sigdel := true; fx_runtodo := true; fx_pollreuse := true |}.
Definition fixes_none : fixes := {| fx_polladd := false; fx_sigdel := false; fx_runtodo := false; fx_pollreuse := false |}.
Definition tree_fixes : fixes :=
  {| fx_polladd := LOOP_FIX_POLLADD =? 1; fx_sigdel := LOOP_FIX_SIGDEL =? 1; fx_runtodo := LOOP_FIX_RUNTODO =? 1;
     fx_pollreuse := LOOP_FIX_POLLREUSE =? 1 |}.

Record state := {
  lv : prio -> level;
  timers : list tslot;
  polls : list pslot;
  sigs : list sigreg;
  stop : bool;
  (* environment *)
  now : Z; kset : list kreg; sigpipe : list Z; rand : list Z; randn : Z;
  (* harness: handle registers, per-key invocation counts, allocation counter *)
  regs : list (Z * Z) (* timer handles *); sregs : list (Z * Z) (* signal handles *); cnt : list (Z * Z); next_uid : Z;
  (* ghost / observable *)
  out : list ev (* newest first *); uaf : bool;
  fx : fixes (* never changes *) }.

Definition set_lv_f (f : prio -> level) st := Build_state f (timers st) (polls st) (sigs st) (stop st) (now st) (kset st) (sigpipe st) (rand st) (randn st) (regs st) (sregs st) (cnt st) (next_uid st) (out st) (uaf st) (fx st).
Definition set_timers v st := Build_state (lv st) v (polls st) (sigs st) (stop st) (now st) (kset st) (sigpipe st) (rand st) (randn st) (regs st) (sregs st) (cnt st) (next_uid st) (out st) (uaf st) (fx st).
Definition set_polls v st := Build_state (lv st) (timers st) v (sigs st) (stop st) (now st) (kset st) (sigpipe st) (rand st) (randn st) (regs st) (sregs st) (cnt st) (next_uid st) (out st) (uaf st) (fx st).
Definition set_sigs v st := Build_state (lv st) (timers st) (polls st) v (stop st) (now st) (kset st) (sigpipe st) (rand st) (randn st) (regs st) (sregs st) (cnt st) (next_uid st) (out st) (uaf st) (fx st).
Definition set_stop v st := Build_state (lv st) (timers st) (polls st) (sigs st) v (now st) (kset st) (sigpipe st) (rand st) (randn st) (regs st) (sregs st) (cnt st) (next_uid st) (out st) (uaf st) (fx st).
Definition set_now v st := Build_state (lv st) (timers st) (polls st) (sigs st) (stop st) v (kset st) (sigpipe st) (rand st) (randn st) (regs st) (sregs st) (cnt st) (next_uid st) (out st) (uaf st) (fx st).
Definition set_kset v st := Build_state (lv st) (timers st) (polls st) (sigs st) (stop st) (now st) v (sigpipe st) (rand st) (randn st) (regs st) (sregs st) (cnt st) (next_uid st) (out st) (uaf st) (fx st).
Definition set_sigpipe v st := Build_state (lv st) (timers st) (polls st) (sigs st) (stop st) (now st) (kset st) v (rand st) (randn st) (regs st) (sregs st) (cnt st) (next_uid st) (out st) (uaf st) (fx st).
Definition set_rand v n st := Build_state (lv st) (timers st) (polls st) (sigs st) (stop st) (now st) (kset st) (sigpipe st) v n (regs st) (sregs st) (cnt st) (next_uid st) (out st) (uaf st) (fx st).
Definition set_regs v st := Build_state (lv st) (timers st) (polls st) (sigs st) (stop st) (now st) (kset st) (sigpipe st) (rand st) (randn st) v (sregs st) (cnt st) (next_uid st) (out st) (uaf st) (fx st).
Definition set_sregs v st := Build_state (lv st) (timers st) (polls st) (sigs st) (stop st) (now st) (kset st) (sigpipe st) (rand st) (randn st) (regs st) v (cnt st) (next_uid st) (out st) (uaf st) (fx st).
Definition set_cnt v st := Build_state (lv st) (timers st) (polls st) (sigs st) (stop st) (now st) (kset st) (sigpipe st) (rand st) (randn st) (regs st) (sregs st) v (next_uid st) (out st) (uaf st) (fx st).
Definition set_next_uid v st := Build_state (lv st) (timers st) (polls st) (sigs st) (stop st) (now st) (kset st) (sigpipe st) (rand st) (randn st) (regs st) (sregs st) (cnt st) v (out st) (uaf st) (fx st).
Definition set_out v st := Build_state (lv st) (timers st) (polls st) (sigs st) (stop st) (now st) (kset st) (sigpipe st) (rand st) (randn st) (regs st) (sregs st) (cnt st) (next_uid st) v (uaf st) (fx st).
Definition set_uaf v st := Build_state (lv st) (timers st) (polls st) (sigs st) (stop st) (now st) (kset st) (sigpipe st) (rand st) (randn st) (regs st) (sregs st) (cnt st) (next_uid st) (out st) v (fx st).

Definition set_lv (p : prio) (l : level) st := set_lv_f (fun q => if prio_eqb q p then l else lv st q) st.
Definition emit (e : ev) st := set_out (e :: out st) st.
Definition flag_uaf (what : Z) st := emit (EvUaf what) (set_uaf true st).
Definition fresh_uid st : Z * state := (next_uid st, set_next_uid (next_uid st + 1) st).

(* ------------------------------------------------------------------ list helpers *)
Fixpoint upd_nth {A} (n : nat) (f : A -> A) (l : list A) : list A :=
  match l, n with
  | [], _ => []
  | x :: r, O => f x :: r
  | x :: r, S m => x :: upd_nth m f r
  end.
Fixpoint find_idx {A} (f : A -> bool) (l : list A) : option nat :=
  match l with
  | [] => None
  | x :: r => if f x then Some O else option_map S (find_idx f r)
  end.
(* remove the first element satisfying f; None when there is none *)
Fixpoint remove_first {A} (f : A -> bool) (l : list A) : option (A * list A) :=
  match l with
  | [] => None
  | x :: r => if f x then Some (x, r) else
      match remove_first f r with Some (y, r') => Some (y, x :: r') | None => None end
  end.
Fixpoint assoc (k : Z) (l : list (Z * Z)) : Z :=
  match l with [] => 0 | (a, v) :: r => if a =? k then v else assoc k r end.
Fixpoint assoc_set (k v : Z) (l : list (Z * Z)) : list (Z * Z) :=
  match l with [] => [(k, v)] | (a, w) :: r => if a =? k then (a, v) :: r else (a, w) :: assoc_set k v r end.
Definition zlen {A} (l : list A) : Z := Z.of_nat (length l).

(* ------------------------------------------------------------------ environment: random(), clock, epoll, signals *)
(* __wrap_random: the scripted stream, then 1000001, 1000002, ... *)
Definition next_random st : Z * state :=
  match rand st with
  | x :: r => (x, set_rand r (randn st + 1) st)
  | [] => (1000001 + randn st, set_rand [] (randn st + 1) st)
  end.

Definition kfind (fd : Z) (ks : list kreg) : option kreg := find (fun k => k_fd k =? fd) ks.
(* __wrap_epoll_ctl *)
Definition k_add fd events data st : Z * state :=
  match kfind fd (kset st) with
  | Some _ => (- LOOP_EEXIST, st)
  | None => (0, set_kset (kset st ++ [Build_kreg fd events data]) st)
  end.
Definition k_mod fd events data st : Z * state :=
  match kfind fd (kset st) with
  | None => (- LOOP_ENOENT, st)
  | Some _ => (0, set_kset (map (fun k => if k_fd k =? fd then Build_kreg fd events data else k) (kset st)) st)
  end.
Definition k_del fd st : Z * state :=
  match kfind fd (kset st) with
  | None => (- LOOP_ENOENT, st)
  | Some _ => (0, set_kset (filter (fun k => negb (k_fd k =? fd)) (kset st)) st)
  end.
(* the descriptor number of the signal pipe's read end, as the harness canonicalises it *)
Definition SIGPIPE_FD : Z := -2.

(* a signal is raised: the handler _handle_real_signal_ is installed exactly while some registration
   names the signal (_adjust_sigactions_); it writes the number into the pipe.  Otherwise the harness
   does not raise it (the default action would end the process). *)
Definition raise_signal (signo : Z) st : state :=
  if existsb (fun s => s_signo s =? signo) (sigs st) then set_sigpipe (sigpipe st ++ [signo]) st else st.

Definition bit (x m : Z) : bool := negb (Z.land x m =? 0).
(* _poll_to_epoll_event_ *)
Definition poll_to_epoll (e : Z) : Z :=
  Z.lor (if bit e LOOP_POLLIN then LOOP_EPOLLIN else 0)
 (Z.lor (if bit e LOOP_POLLOUT then LOOP_EPOLLOUT else 0)
 (Z.lor (if bit e LOOP_POLLPRI then LOOP_EPOLLPRI else 0)
 (Z.lor (if bit e LOOP_POLLERR then LOOP_EPOLLERR else 0)
 (Z.lor (if bit e LOOP_POLLHUP then LOOP_EPOLLHUP else 0)
        (if bit e LOOP_POLLNVAL then LOOP_EPOLLERR else 0))))).
(* _epoll_to_poll_event_ *)
Definition epoll_to_poll (e : Z) : Z :=
  Z.lor (if bit e LOOP_EPOLLIN then LOOP_POLLIN else 0)
 (Z.lor (if bit e LOOP_EPOLLOUT then LOOP_POLLOUT else 0)
 (Z.lor (if bit e LOOP_EPOLLPRI then LOOP_POLLPRI else 0)
 (Z.lor (if bit e LOOP_EPOLLERR then LOOP_POLLERR else 0)
        (if bit e LOOP_EPOLLHUP then LOOP_POLLHUP else 0)))).

(* one turn's environment: the clock advances by e_adv during the wait, e_sigs are raised during the
   wait, the descriptors of e_ready (in this order; SIGPIPE_FD = the signal pipe) have the given epoll
   event bits pending, e_stop = something outside the callbacks requests stop during the wait *)
Record env := { e_adv : Z; e_sigs : list Z; e_ready : list (Z * Z); e_stop : bool }.
Definition env_end : env := {| e_adv := 0; e_sigs := []; e_ready := []; e_stop := true |}.

(* __wrap_epoll_wait: which events the kernel reports (at most maxev) *)
Fixpoint kernel_events (ks : list kreg) (pipe_ready : bool) (ready : list (Z * Z)) (maxev : nat) : list (Z * Z) :=
  match ready, maxev with
  | [], _ => []
  | _, O => []
  | (fd, bits) :: r, S m =>
      match kfind fd ks with
      | None => kernel_events ks pipe_ready r maxev
      | Some k =>
          let got := Z.land bits (Z.lor (k_events k) (Z.lor LOOP_EPOLLERR LOOP_EPOLLHUP)) in
          if (if fd =? SIGPIPE_FD then pipe_ready else true) && negb (got =? 0)
          then (k_data k, got) :: kernel_events ks pipe_ready r m
          else kernel_events ks pipe_ready r maxev
      end
  end.

(* ------------------------------------------------------------------ levels *)
Definition upd_level (p : prio) (f : level -> level) st := set_lv p (f (lv st p)) st.
(* qb_loop_level_item_add *)
Definition item_add (p : prio) (it : qitem) st :=
  upd_level p (fun l => {| wait := wait l; jobq := jobq l ++ [it]; todo := todo l + 1 |}) st.
Definition in_jobq (it : qitem) (p : prio) st : bool := existsb (qitem_eqb it) (jobq (lv st p)).
Definition unlink (it : qitem) (p : prio) st :=
  upd_level p (fun l => {| wait := wait l;
                           jobq := match remove_first (qitem_eqb it) (jobq l) with Some (_, r) => r | None => jobq l end;
                           todo := todo l |}) st.
Definition dec_todo (p : prio) st :=
  upd_level p (fun l => {| wait := wait l; jobq := jobq l; todo := todo l - 1 |}) st.
(* qb_loop_level_item_del(level p, job): the item is unlinked from whichever job_head holds it
   (qb_list_del acts on the item's own links); level p's todo is decremented; nothing happens when
   the item is on no list (being dispatched). *)
Definition item_del (p : prio) (it : qitem) st :=
  if in_jobq it High st then dec_todo p (unlink it High st)
  else if in_jobq it Med st then dec_todo p (unlink it Med st)
  else if in_jobq it Low st then dec_todo p (unlink it Low st)
  else st.

(* ------------------------------------------------------------------ jobs (loop_job.c) *)
Definition item_uid (it : qitem) : Z := match it with QJob u _ => u | QSig u _ _ _ => u | _ => 0 end.
Definition is_job_key (key : Z) (it : qitem) : bool := match it with QJob _ k => k =? key | _ => false end.
(* qb_loop_job_add *)
Definition job_add (p : prio) (key : Z) st : Z * state :=
  let '(u, st) := fresh_uid st in
  (0, upd_level p (fun l => {| wait := wait l ++ [QJob u key]; jobq := jobq l; todo := todo l |}) (emit (EvAdd 0 u p) st)).
(* qb_loop_job_del *)
Definition job_del (p : prio) (key : Z) st : Z * state :=
  match remove_first (is_job_key key) (wait (lv st p)) with
  | Some (it, r) => (0, upd_level p (fun l => {| wait := r; jobq := jobq l; todo := todo l |}) (emit (EvDel 0 (item_uid it)) st))
  | None =>
      match find (is_job_key key) (jobq (lv st p)) with
      | Some it => (0, item_del p it (emit (EvDel 0 (item_uid it)) st))
      | None => (- LOOP_ENOENT, st)
      end
  end.
(* get_more_jobs, one level *)
Definition more_jobs_level (p : prio) (acc : Z * state) : Z * state :=
  let '(n, st) := acc in
  match wait (lv st p) with
  | [] => (n, st)
  | w => (n + zlen w,
          upd_level p (fun l => {| wait := []; jobq := jobq l ++ w; todo := todo l + zlen w |}) st)
  end.
(* get_more_jobs *)
Definition get_more_jobs st : Z * state :=
  more_jobs_level High (more_jobs_level Med (more_jobs_level Low (0, st))).

(* ------------------------------------------------------------------ timers (loop_timerlist.c) *)
Definition TWO32 : Z := 4294967296.
Definition TWO64 : Z := 18446744073709551616.
Definition tslot_zero : tslot :=
  {| t_state := Empty; t_check := 0; t_p := Low; t_key := 0; t_uid := 0; t_exp := None |}.
(* the check-word loop of qb_loop_timer_add: up to 200 draws, stops at the first positive one *)
Fixpoint draw_check (fuel : nat) (cur : Z) st : Z * state :=
  match fuel with
  | O => (cur, st)
  | S f => let '(r, st') := next_random st in if 0 <? r then (r, st') else draw_check f r st'
  end.
(* _get_empty_array_position_ (timers): first EMPTY slot, else grow by one zeroed slot *)
Definition timer_slot st : nat * state :=
  match find_idx (fun t => est_eqb (t_state t) Empty) (timers st) with
  | Some i => (i, st)
  | None => (length (timers st), set_timers (timers st ++ [tslot_zero]) st)
  end.
Definition wrap64 (x : Z) : Z := x mod TWO64.
(* qb_loop_timer_add; the handle is stored in harness register reg *)
Definition timer_add (p : prio) (dur key reg : Z) st : Z * state :=
  let '(i, st) := timer_slot st in
  let '(u, st) := fresh_uid st in
  let '(c, st) := draw_check 200 0 st in
  let st := emit (EvAdd 1 u p) st in
  let st := set_timers (upd_nth i (fun _ => {| t_state := Active; t_check := c; t_p := p; t_key := key; t_uid := u;
                                              t_exp := Some (wrap64 (now st + dur)) |}) (timers st)) st in
  (0, set_regs (assoc_set reg (c * TWO32 + Z.of_nat i) (regs st)) st).
(* _timer_from_handle_ *)
Definition timer_from_handle (h : Z) st : option (nat * tslot) :=
  if h =? 0 then None else
  if h / TWO32 =? 0 then None else   (* a zero check half is never handed out; it marks unused and dispatching slots *)
  let pos := Z.to_nat (h mod TWO32) in
  match nth_error (timers st) pos with
  | None => None
  | Some t => if t_check t =? h / TWO32 then Some (pos, t) else None
  end.
(* qb_loop_timer_del *)
Definition timer_del (h : Z) st : Z * state :=
  match timer_from_handle h st with
  | None => (- LOOP_EINVAL, st)
  | Some (i, t) =>
      match t_state t with
      | Deleted => (0, st)
      | Empty => (- LOOP_EINVAL, st)
      | _ =>
          let st := match t_state t with Joblist => item_del (t_p t) (QTimer i) st | _ => st end in
          let st := emit (EvDel 1 (t_uid t)) st in
          (0, set_timers (upd_nth i (fun t => {| t_state := Empty; t_check := t_check t; t_p := t_p t;
                                                 t_key := t_key t; t_uid := t_uid t; t_exp := None |}) (timers st)) st)
      end
  end.
(* qb_loop_timer_is_running = qb_loop_timer_expire_time_get > 0 *)
Definition timer_is_running (h : Z) st : Z :=
  match timer_from_handle h st with
  | Some (_, t) => match t_state t, t_exp t with Active, Some e => if 0 <? e then 1 else 0 | _, _ => 0 end
  | None => 0
  end.
(* smallest expiry among the heap entries: (slot, expiry) *)
Fixpoint heap_min_from (i : nat) (l : list tslot) (best : option (nat * Z)) : option (nat * Z) :=
  match l with
  | [] => best
  | t :: r =>
      let best' := match t_exp t, best with
                   | Some e, Some (_, b) => if e <? b then Some (i, e) else best
                   | Some e, None => Some (i, e)
                   | None, _ => best
                   end in
      heap_min_from (S i) r best'
  end.
Definition heap_min st := heap_min_from O (timers st) None.
(* timerlist_expire + make_job_from_tmo *)
Fixpoint expire_go (fuel : nat) (n : Z) st : Z * state :=
  match fuel with
  | O => (n, st)
  | S f =>
      match heap_min st with
      | Some (i, e) =>
          if e <? now st then
            match nth_error (timers st) i with
            | Some t =>
                let st := set_timers (upd_nth i (fun t => {| t_state := Joblist; t_check := t_check t; t_p := t_p t;
                                                             t_key := t_key t; t_uid := t_uid t; t_exp := None |}) (timers st)) st in
                expire_go f (n + 1) (item_add (t_p t) (QTimer i) st)
            | None => (n, st)
            end
          else (n, st)
      | None => (n, st)
      end
  end.
(* expire_the_timers *)
Definition expire_the_timers st : Z * state := expire_go (length (timers st)) 0 st.
(* qb_loop_timer_msec_duration_to_expire, for waits below 2^31 ms (above that C09's findings apply);
   clock resolution 1 ns in the harness, so 1000 / timerlist_hertz = 0 *)
Definition timer_timeout st : Z :=
  match heap_min st with
  | None => -1
  | Some (_, e) => if e <? now st then 0 else (e - now st) / LOOP_NS_IN_MSEC
  end.

(* ------------------------------------------------------------------ poll entries (loop_poll.c, loop_poll_epoll.c) *)
Definition pslot_zero : pslot :=
  {| p_state := Empty; p_check := 0; p_fd := 0; p_events := 0; p_revents := 0; p_p := Low; p_key := 0; p_uid := 0;
     p_sig := false; p_fn := false |}.
(* _poll_entry_empty_: memset 0, fd = -1 *)
Definition pslot_emptied : pslot :=
  {| p_state := Empty; p_check := 0; p_fd := -1; p_events := 0; p_revents := 0; p_p := Low; p_key := 0; p_uid := 0;
     p_sig := false; p_fn := false |}.
(* _poll_entry_mark_deleted_ *)
Definition mark_deleted (e : pslot) : pslot :=
  {| p_state := Deleted; p_check := 0; p_fd := -1; p_events := p_events e; p_revents := p_revents e; p_p := p_p e;
     p_key := p_key e; p_uid := p_uid e; p_sig := p_sig e; p_fn := p_fn e |}.
Definition set_pstate (s : est) (e : pslot) : pslot :=
  {| p_state := s; p_check := p_check e; p_fd := p_fd e; p_events := p_events e; p_revents := p_revents e; p_p := p_p e;
     p_key := p_key e; p_uid := p_uid e; p_sig := p_sig e; p_fn := p_fn e |}.
Definition set_prevents (r : Z) (e : pslot) : pslot :=
  {| p_state := p_state e; p_check := p_check e; p_fd := p_fd e; p_events := p_events e; p_revents := r; p_p := p_p e;
     p_key := p_key e; p_uid := p_uid e; p_sig := p_sig e; p_fn := p_fn e |}.
(* _poll_entry_check_generate_ *)
Fixpoint draw_check_p (fuel : nat) (cur : Z) st : Z * state :=
  match fuel with
  | O => (cur, st)
  | S f => let '(r, st') := next_random st in
           if negb (r =? 0) && negb (r =? TWO32 - 1) then (r, st') else draw_check_p f r st'
  end.
(* _get_empty_array_position_ (poll) *)
Definition poll_slot st : nat * state :=
  match find_idx (fun e => est_eqb (p_state e) Empty) (polls st) with
  | Some i => (i, st)
  | None => (length (polls st), set_polls (polls st ++ [pslot_zero]) st)
  end.
(* _poll_add_ followed by the caller's assignments (is_sig: qb_loop_signals_create's pipe entry).
   A failed driver.add leaves everything but the state in place, and the caller does not set
   poll_dispatch_fn / type / add_to_jobs. *)
Definition fd_is_live (fd : Z) (e : pslot) : bool :=
  (p_fd e =? fd) && (est_eqb (p_state e) Active || est_eqb (p_state e) Joblist).
Definition poll_add_gen (is_sig : bool) (p : prio) (fd events key : Z) st : Z * state :=
  (* repaired: a descriptor number that still has a live entry is refused before anything else happens *)
  if fx_pollreuse (fx st) && existsb (fd_is_live fd) (polls st) then (- LOOP_EEXIST, st) else
  let '(i, st) := poll_slot st in
  let '(u, st) := fresh_uid st in
  let '(c, st) := draw_check_p 200 0 st in
  let '(res, st) := k_add fd (poll_to_epoll events) (c * TWO32 + Z.of_nat i) st in
  let mk (old : pslot) (ok : bool) :=
    if ok then
      {| p_state := Active; p_check := c; p_fd := fd; p_events := events; p_revents := 0; p_p := p;
         p_key := key; p_uid := u; p_sig := is_sig; p_fn := true |}
    else if fx_polladd (fx st) then pslot_emptied
    else {| p_state := Empty; p_check := c; p_fd := fd; p_events := events; p_revents := 0; p_p := p;
            p_key := key; p_uid := u; p_sig := p_sig old; p_fn := p_fn old |} in
  let st := if res =? 0 then emit (EvAdd 2 u p) st else st in
  (res, set_polls (upd_nth i (fun old => mk old (res =? 0)) (polls st)) st).
(* qb_loop_poll_add *)
Definition poll_add := poll_add_gen false.
(* qb_loop_poll_mod *)
Definition poll_mod (p : prio) (fd events key : Z) st : Z * state :=
  match find_idx (fun e => p_fd e =? fd) (polls st) with
  | None => (- LOOP_EBADF, st)
  | Some i =>
      match nth_error (polls st) i with
      | None => (- LOOP_EBADF, st)
      | Some e =>
          if est_eqb (p_state e) Deleted || (p_check e =? 0) then (- LOOP_EBADF, st) else
          let '(res, st) := if p_events e =? events then (0, st)
                            else k_mod fd (poll_to_epoll events) (p_check e * TWO32 + Z.of_nat i) st in
          (res, set_polls (upd_nth i (fun e => {| p_state := p_state e; p_check := p_check e; p_fd := p_fd e;
                                                  p_events := events; p_revents := p_revents e; p_p := p; p_key := key;
                                                  p_uid := p_uid e; p_sig := p_sig e; p_fn := p_fn e |}) (polls st)) st)
      end
  end.
(* qb_loop_poll_del *)
Definition poll_del (fd : Z) st : Z * state :=
  match find_idx (fun e => (p_fd e =? fd) && negb (p_sig e)) (polls st) with
  | None => (- LOOP_EBADF, st)
  | Some i =>
      match nth_error (polls st) i with
      | None => (- LOOP_EBADF, st)
      | Some e =>
          match p_state e with
          | Deleted | Empty => (0, st)
          | _ =>
              let st := match p_state e with Joblist => item_del (p_p e) (QFd i) st | _ => st end in
              let st := emit (EvDel 2 (p_uid e)) st in
              let '(res, st) := k_del fd st in
              (res, set_polls (upd_nth i mark_deleted (polls st)) st)
          end
      end
  end.
(* the tombstone sweep of qb_poll_fds_usage_check_ *)
Definition usage_check st :=
  set_polls (map (fun e => if est_eqb (p_state e) Deleted then pslot_emptied else e) (polls st)) st.

(* ------------------------------------------------------------------ signals (loop_poll.c) *)
Definition sig_find (id : Z) st : option sigreg := find (fun s => s_id s =? id) (sigs st).
(* qb_loop_signal_add; the handle (the registration's identity) goes to harness register reg *)
Definition signal_add (p : prio) (signo key reg : Z) st : Z * state :=
  let '(u, st) := fresh_uid st in
  (0, set_sregs (assoc_set reg u (sregs st)) (set_sigs (sigs st ++ [Build_sigreg u signo p key]) (emit (EvAdd 3 u p) st))).
(* qb_loop_signal_mod; a handle whose registration has been freed is a use after free *)
Definition signal_mod (p : prio) (signo key h : Z) st : Z * state :=
  if h =? 0 then (- LOOP_EINVAL, st) else
  match sig_find h st with
  | None => (0, flag_uaf 1 st)
  | Some _ => (0, set_sigs (map (fun s => if s_id s =? h then Build_sigreg h signo p key else s) (sigs st)) st)
  end.
Definition is_clone_of (id : Z) (it : qitem) : bool := match it with QSig _ f _ _ => f =? id | _ => false end.
(* removal of every clone of registration h from level p's job_head (repaired qb_loop_signal_del):
   one qb_loop_level_item_del(&l->level[p], clone) each *)
Definition purge_clones (h : Z) (p : prio) st :=
  upd_level p (fun l => {| wait := wait l; jobq := filter (fun it => negb (is_clone_of h it)) (jobq l);
                           todo := todo l - zlen (filter (is_clone_of h) (jobq l)) |}) st.
(* qb_loop_signal_del.  The wait_head scan never finds anything (clones are put on job_head only).
   As found: the FIRST clone on the job_head of the registration's CURRENT priority is unlinked (and leaked).
   Repaired (fixes/C08-signal-del-clones): every clone on the three job_heads is unlinked and freed.
   Then the registration is freed. *)
Definition signal_del (h : Z) st : Z * state :=
  if h =? 0 then (- LOOP_EINVAL, st) else
  match sig_find h st with
  | None => (0, flag_uaf 2 st)
  | Some s =>
      let st := if fx_sigdel (fx st) then purge_clones h High (purge_clones h Med (purge_clones h Low st))
                else match find (is_clone_of h) (jobq (lv st (s_p s))) with
                     | Some it => item_del (s_p s) it st
                     | None => st
                     end in
      (0, set_sigs (filter (fun s => negb (s_id s =? h)) (sigs st)) (emit (EvDel 3 h) st))
  end.
(* _qb_signal_add_to_jobs_: one number is read from the pipe, one clone per matching registration *)
Fixpoint clone_all (signo : Z) (l : list sigreg) (n : Z) st : Z * state :=
  match l with
  | [] => (n, st)
  | s :: r =>
      if s_signo s =? signo then
        let '(u, st) := fresh_uid st in
        clone_all signo r (n + 1) (item_add (s_p s) (QSig u (s_id s) signo (s_key s)) st)
      else clone_all signo r n st
  end.
Definition signal_add_to_jobs (i : nat) st : Z * state :=
  match sigpipe st with
  | [] => (0, st)
  | signo :: rest =>
      let st := set_sigpipe rest st in
      let st := set_polls (upd_nth i (set_prevents 0) (polls st)) st in
      clone_all signo (sigs st) 0 st
  end.

(* ------------------------------------------------------------------ the poll source's turn *)
(* _poll_entry_from_handle_ + the body of the event loop of _poll_and_add_to_jobs_ *)
Definition poll_event (evt : Z * Z) (acc : Z * state) : Z * state :=
  let '(n, st) := acc in
  let '(data, bits) := evt in
  let pos := Z.to_nat (data mod TWO32) in
  match nth_error (polls st) pos with
  | None => (n, emit EvUsleep st)
  | Some e =>
      if negb (p_check e =? data / TWO32) then (n, emit EvUsleep st) else
      if (p_fd e =? -1) || est_eqb (p_state e) Deleted then (n, st) else
      let st := set_polls (upd_nth pos (fun e => set_prevents (Z.lor (p_revents e) (epoll_to_poll bits)) e) (polls st)) st in
      if est_eqb (p_state e) Joblist then (n, st) else
      if negb (p_fn e) then (n, flag_uaf 3 st) (* add_to_jobs is a null pointer *) else
      if p_sig e then let '(k, st) := signal_add_to_jobs pos st in (n + k, st)
      else (n + 1, set_polls (upd_nth pos (set_pstate Joblist) (polls (item_add (p_p e) (QFd pos) st)))
                             (item_add (p_p e) (QFd pos) st))
  end.
(* _poll_and_add_to_jobs_ with the environment's side of epoll_wait *)
Definition poll_and_add_to_jobs (e : env) (timeout : Z) st : Z * state :=
  let st := usage_check st in
  let st := set_now (now st + e_adv e) st in
  let st := fold_left (fun s g => raise_signal g s) (e_sigs e) st in
  let st := if e_stop e then set_stop true st else st in
  let evs := kernel_events (kset st) (match sigpipe st with [] => false | _ => true end) (e_ready e)
                           (Z.to_nat LOOP_MAX_EVENTS) in
  let st := emit (EvWait timeout (zlen evs)) st in
  fold_left (fun acc evt => poll_event evt acc) evs (0, st).

Definition ret (tag : Z) (r : Z * state) : state := emit (EvRet tag (fst r)) (snd r).
Definition exec_op (o : op) st : state :=
  let st := emit (EvOp o) st in
  match o with
  | OJobAdd p key => ret 1 (job_add p key st)
  | OJobDel p key => ret 2 (job_del p key st)
  | OTimerAdd p dur key reg => ret 3 (timer_add p dur key reg st)
  | OTimerDel reg => ret 4 (timer_del (assoc reg (regs st)) st)
  | OTimerRunning reg => ret 5 (timer_is_running (assoc reg (regs st)) st, st)
  | OPollAdd p fd events key => ret 6 (poll_add p fd events key st)
  | OPollMod p fd events key => ret 7 (poll_mod p fd events key st)
  | OPollDel fd => ret 8 (poll_del fd st)
  | OSigAdd p signo key reg => ret 9 (signal_add p signo key reg st)
  | OSigMod p signo key reg => ret 10 (signal_mod p signo key (assoc reg (sregs st)) st)
  | OSigDel reg => ret 11 (signal_del (assoc reg (sregs st)) st)
  | OStop => set_stop true st                                     (* qb_loop_stop *)
  | OClose fd => set_kset (filter (fun k => negb (k_fd k =? fd)) (kset st)) st
  | ORaise signo => raise_signal signo st
  end.
Definition exec_ops (ops : list op) st : state := fold_left (fun s o => exec_op o s) ops st.

(* behaviour table: the n-th (from 0) invocation of a callback with user data key *)
Definition behaviour := Z -> Z -> list op * Z.
(* enter a user callback: log it, count it, run its calls; gives the callback's return value *)
Definition callback (beh : behaviour) (kind key a b : Z) st : Z * state :=
  let n := assoc key (cnt st) in
  let st := set_cnt (assoc_set key (n + 1) (cnt st)) (emit (EvCb kind key a b) st) in
  let '(ops, r) := beh key n in
  (r, exec_ops ops st).

(* dispatch_and_take_back of the four sources *)
Definition dispatch (beh : behaviour) (it : qitem) st : state :=
  match it with
  | QJob u key => snd (callback beh 0 key 0 0 (emit (EvInv 0 u) st))              (* job_dispatch *)
  | QTimer i =>                                                                    (* timer_dispatch *)
      match nth_error (timers st) i with
      | None => st
      | Some t =>
          let st := set_timers (upd_nth i (fun t => {| t_state := t_state t; t_check := 0; t_p := t_p t; t_key := t_key t;
                                                       t_uid := t_uid t; t_exp := t_exp t |}) (timers st)) st in
          let '(_, st) := callback beh 1 (t_key t) 0 0 (emit (EvInv 1 (t_uid t)) st) in
          set_timers (upd_nth i (fun t => {| t_state := Empty; t_check := t_check t; t_p := t_p t; t_key := t_key t;
                                             t_uid := t_uid t; t_exp := t_exp t |}) (timers st)) st
      end
  | QFd i =>                                                                       (* _poll_dispatch_and_take_back_ *)
      match nth_error (polls st) i with
      | None => st
      | Some e =>
          let '(res, st) := callback beh 2 (p_key e) (p_fd e) (p_revents e) (emit (EvInv 2 (p_uid e)) st) in
          if res <? 0 then
            (* ghost: the removal is logged unless a poll_del from inside the callback already logged it *)
            let st := match nth_error (polls st) i with
                      | Some e' => if est_eqb (p_state e') Deleted then st else emit (EvDel 2 (p_uid e)) st
                      | None => st
                      end in
            set_polls (upd_nth i mark_deleted (polls st)) st
          else set_polls (upd_nth i (fun e => if est_eqb (p_state e) Deleted then e
                                              else set_prevents 0 (set_pstate Active e)) (polls st)) st
      end
  | QSig _ from signo key =>                                                       (* _signal_dispatch_and_take_back_ *)
      let '(res, st) := callback beh 3 key signo 0 (emit (EvInv 3 from) st) in
      if res =? 0 then st else
      match sig_find from st with
      | None => flag_uaf 4 st            (* sig->cloned_from has been freed *)
      | Some _ => snd (signal_del from st)
      end
  end.

(* qb_loop_run_level: returns the number of items dispatched as well *)
Fixpoint run_level_go (beh : behaviour) (p : prio) (fuel : nat) (processed : Z) st : state * Z :=
  match fuel with
  | O => (st, processed)
  | S f =>
      match jobq (lv st p) with
      | [] => (st, processed)
      | it :: rest =>
          let st := upd_level p (fun l => {| wait := wait l; jobq := rest; todo := todo l |}) st in
          let st := dec_todo p (dispatch beh it st) in
          let processed := processed + 1 in
          if stop st then (st, processed)
          else if processed <? LOOP_TO_PROCESS then run_level_go beh p f processed st
          else (st, processed)
      end
  end.
Definition run_level (beh : behaviour) (p : prio) st : state * Z :=
  run_level_go beh p (S (Z.to_nat LOOP_TO_PROCESS)) 0 st.

(* what one turn did at one level *)
Record lvinfo := { li_admitted : bool;   (* p >= p_stop and the turn got as far as this level *)
                   li_qlen : Z;          (* length of job_head when the level's turn came *)
                   li_disp : Z }.        (* items dispatched *)
Definition li_none : lvinfo := {| li_admitted := false; li_qlen := 0; li_disp := 0 |}.
Record runstate := { r_pstop : prio; r_remaining : Z }.
Record turninfo := { ti_pstop : prio; ti_timeout : Z; ti_high : lvinfo; ti_med : lvinfo; ti_low : lvinfo;
                     ti_returned : bool (* qb_loop_run returned from inside this turn *) }.
Definition ti_lv (t : turninfo) (p : prio) := match p with High => ti_high t | Med => ti_med t | Low => ti_low t end.

(* the rotation at the top of the do-while *)
Definition next_pstop (p : prio) : prio := match p with Low => High | High => Med | Med => Low end.

Definition serve (beh : behaviour) (pstop p : prio) st : state * lvinfo :=
  if prio_geb p pstop then
    let q := zlen (jobq (lv st p)) in
    let '(st', n) := run_level beh p st in
    (st', {| li_admitted := true; li_qlen := q; li_disp := n |})
  else (st, {| li_admitted := false; li_qlen := zlen (jobq (lv st p)); li_disp := 0 |}).

(* one turn of the do-while of qb_loop_run *)
Definition iteration (beh : behaviour) (e : env) (rs : runstate) st : state * runstate * turninfo :=
  let pstop := next_pstop (r_pstop rs) in
  let '(job_todo, st) := get_more_jobs st in
  let '(timer_todo, st) := expire_the_timers st in
  let timeout := if (0 <? r_remaining rs) || (0 <? timer_todo) then 0
                 else if 0 <? job_todo then 50 else timer_timeout st in
  let '(_, st) := poll_and_add_to_jobs e timeout st in
  let mk h m l ret := {| ti_pstop := pstop; ti_timeout := timeout; ti_high := h; ti_med := m; ti_low := l; ti_returned := ret |} in
  let '(st, ih) := serve beh pstop High st in
  if li_admitted ih && stop st then (st, {| r_pstop := pstop; r_remaining := 0 |}, mk ih li_none li_none true) else
  let rem := todo (lv st High) in
  let '(st, im) := serve beh pstop Med st in
  if li_admitted im && stop st then (st, {| r_pstop := pstop; r_remaining := rem |}, mk ih im li_none true) else
  let rem := rem + todo (lv st Med) in
  let '(st, il) := serve beh pstop Low st in
  if li_admitted il && stop st then (st, {| r_pstop := pstop; r_remaining := rem |}, mk ih im il true) else
  let rem := rem + todo (lv st Low) in
  (st, {| r_pstop := pstop; r_remaining := rem |}, mk ih im il false).

(* qb_loop_run: one environment per turn; when the script's environments are used up the harness
   requests stop during the wait (env_end).  Also gives the per-turn record. *)
Fixpoint run_go (beh : behaviour) (envs : list env) (rs : runstate) st : state * list turninfo :=
  match envs with
  | [] => let '(st, _, ti) := iteration beh env_end rs st in (st, [ti])
  | e :: es =>
      let '(st, rs, ti) := iteration beh e rs st in
      if ti_returned ti || stop st then (st, [ti])
      else let '(st, tis) := run_go beh es rs st in (st, ti :: tis)
  end.
Definition run_start : runstate := {| r_pstop := Low; r_remaining := 0 |}.
(* remaining_todo at the start of qb_loop_run: 0 as found; the todo left by an earlier run once C09's fix is in *)
Definition run_start_of st : runstate :=
  {| r_pstop := Low;
     r_remaining := if fx_runtodo (fx st) then todo (lv st High) + todo (lv st Med) + todo (lv st Low) else 0 |}.
Definition loop_run (beh : behaviour) (envs : list env) st : state * list turninfo :=
  let '(st, tis) := run_go beh envs (run_start_of st) (set_stop false st) in
  (emit EvRunRet st, tis).

(* qb_loop_create: the signal source adds the pipe's read end at HIGH priority (consumes a check word) *)
Definition level_init : level := {| wait := []; jobq := []; todo := 0 |}.
Definition state_zero (f : fixes) (rnd : list Z) : state :=
  {| lv := fun _ => level_init; timers := []; polls := []; sigs := []; stop := false;
     now := 1000000000; kset := []; sigpipe := []; rand := rnd; randn := 0;
     regs := []; sregs := []; cnt := []; next_uid := 1; out := []; uaf := false; fx := f |}.
Definition loop_create_fx (f : fixes) (rnd : list Z) : state :=
  snd (poll_add_gen true High SIGPIPE_FD LOOP_POLLIN 0 (state_zero f rnd)).
(* the loop of the tree the constants were generated from *)
Definition loop_create (rnd : list Z) : state := loop_create_fx tree_fixes rnd.

(* a history: calls from outside the loop and runs *)
Inductive cmd := CmdOp (o : op) | CmdRun (envs : list env).
Definition exec_cmd (beh : behaviour) (c : cmd) st : state :=
  match c with
  | CmdOp o => exec_op o st
  | CmdRun envs => fst (loop_run beh envs st)
  end.
Definition run_history_fx (f : fixes) (beh : behaviour) (h : list cmd) (rnd : list Z) : state :=
  fold_left (fun s c => exec_cmd beh c s) h (loop_create_fx f rnd).
Definition run_history (beh : behaviour) (h : list cmd) (rnd : list Z) : state := run_history_fx tree_fixes beh h rnd.

(* behaviour table from an association list ((key, n), (ops, ret)); default: no calls, return 0 *)
Fixpoint beh_of (tbl : list ((Z * Z) * (list op * Z))) (key n : Z) : list op * Z :=
  match tbl with
  | [] => ([], 0)
  | ((k, m), r) :: t => if (k =? key) && (m =? n) then r else beh_of t key n
  end.
