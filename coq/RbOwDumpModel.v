(* C11: the dump file, word by word.  No proofs in this file.
   qb_rb_create_from_file (lib/ringbuffer.c) applied to the words qb_rb_write_to_file produced (RbModel.dump, which the
   correspondence run compares word for word with the real file). *)
From Coq Require Import ZArith List Bool.
Import ListNotations.
Require Import Verif.gen.Consts_rb Verif.RbModel Verif.RbSpec Verif.RbOwSpec.
Local Open Scope Z_scope.

(* read(fd, rb->shared_data, n_required): the file's words land at word index i, i+1, ... *)
Fixpoint load_words (m : mem) (i : Z) (ws : list Z) : mem :=
  match ws with
  | [] => m
  | w :: t => load_words (stw m i w) (i + 1) t
  end.

(* None = the function returns NULL.  Header order: word_size, write_pt, read_pt, version, hash. *)
Definition rb_from_dump (ws : list Z) : option rb :=
  match ws with
  | W :: w :: r :: ver :: hash :: dat =>
      if negb (hash =? (W + w + r + ver) mod two32) then None            (* "Corrupt blackbox: File header hash" *)
      else if negb (ver =? RB_FILE_HEADER_VERSION) then None            (* "Wrong file header version" *)
      else
        (* qb_rb_open("create_from_file", n_required - (QB_RB_CHUNK_MARGIN + 1), CREATE | NO_SEMAPHORE) *)
        let fresh := rb_open (RB_SIZEOF_WORD * W - (RB_CHUNK_MARGIN + RB_SIZE_EXTRA)) true false in
        if negb (zlen dat =? W) then None                                (* n_read != n_required *)
        else Some {| rW := rW fresh; wpt := w; rpt := r; data := load_words (data fresh) 0 dat;
                     sem := sem fresh; ovw := ovw fresh |}
  | _ => None
  end.

(* contents of a dump, read back through the file's words *)
Definition readback_words (b : rb) (n : Z) : list chunk :=
  match rb_from_dump (dump b) with
  | Some fb => drain (Z.to_nat (rW fb)) fb n
  | None => []
  end.

(* every byte of the data area is a byte *)
Definition bytes_ok (m : mem) : Prop := forall a, 0 <= a -> 0 <= ld m a < 256.
Definition chunk_bytes_ok (d : list Z) : Prop := Forall (fun x => 0 <= x < 256) d.
Definition op_bytes_ok (o : op) : Prop :=
  match o with OWrite d => chunk_bytes_ok d | OAllocCommit _ d => chunk_bytes_ok d | _ => True end.
