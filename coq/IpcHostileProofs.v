(* C06: proofs.
   Part B/C - an ACCEPTED client that writes arbitrary requests into the raw channels (IpcDataModel.v, op CRaw, no
   well-formedness assumption on anything): the socket receive function writes only inside the caller's buffer, and
   every msg_process invocation is told a length that exceeds neither what was received, nor what was sent, nor the
   negotiated maximum - for every history of arbitrary calls.  Both statements are refuted for the code as found.
   Part A - a peer that is not (yet) an accepted client (IpcHostileModel.v): for every byte stream, cut into pieces in
   every possible way, with the peer's shutdown/close at any point: the handshake buffer is never overrun, a
   connection is only ever created from a complete request whose id is QB_IPC_MSG_AUTHENTICATE, the service's
   resources are exactly accounted for (no descriptor, poll-table entry, service reference or auth record survives a
   peer that went away), peers do not influence each other nor an established connection. *)
From Coq Require Import ZArith List Bool Lia Arith.
Import ListNotations.
Require Import Verif.gen.Consts_ipcdata Verif.IpcDataModel Verif.IpcHostileModel.
Local Open Scope Z_scope.

Ltac fin := cbn; repeat split; try congruence; try assumption; auto.

Ltac brk :=
  repeat match goal with
         | |- context [match ?x with _ => _ end] => destruct x eqn:?
         end.

(* ================================================================= Part B: qb_ipc_us_recv_at_most stays in bounds *)

Lemma to_size_t_nonneg x : 0 <= x -> to_size_t x = x.
Proof. intros H. unfold to_size_t. destruct (x <? 0) eqn:E; [apply Z.ltb_lt in E; lia | reflexivity]. Qed.

Theorem recv_extent_in_bounds (m : msg) (buflen : Z) :
  0 <= buflen -> 0 <= recv_write_extent fixed m buflen <= buflen.
Proof.
  intros Hb. unfold recv_write_extent. cbn [v_recvbound fixed andb].
  set (tr := if IPC_HDR_SIZE <=? m_len m then m_hsize m else 0).
  destruct (tr <? 0) eqn:E1; cbn [orb]; [lia|].
  destruct (buflen <? tr) eqn:E2; [lia|].
  apply Z.ltb_ge in E1. apply Z.ltb_ge in E2. rewrite to_size_t_nonneg by exact E1. lia.
Qed.

(* the value a receive call returns never exceeds the caller's buffer either (both transports) *)
Theorem xrecv_result_in_bounds t q buflen q' res om :
  0 <= buflen -> xrecv fixed t q buflen = (q', res, om) -> res <= buflen.
Proof.
  intros Hb H. unfold xrecv in H. destruct q as [|m rest].
  - inversion H; subst. unfold IPC_ETIMEDOUT. lia.
  - destruct t.
    + destruct (buflen <? m_len m) eqn:E; inversion H; subst.
      * unfold IPC_ENOBUFS. lia.
      * apply Z.ltb_ge in E. lia.
    + cbn [v_recvbound fixed andb] in H.
      set (tr := if IPC_HDR_SIZE <=? m_len m then m_hsize m else 0) in *.
      destruct (tr <? 0) eqn:E1; cbn [orb] in H.
      { inversion H; subst. unfold IPC_EMSGSIZE. lia. }
      destruct (buflen <? tr) eqn:E2.
      { inversion H; subst. unfold IPC_EMSGSIZE. lia. }
      apply Z.ltb_ge in E1. apply Z.ltb_ge in E2. rewrite to_size_t_nonneg in H by exact E1.
      destruct (Z.min tr (m_len m) =? 0) eqn:E3; inversion H; subst.
      * unfold IPC_ENOTCONN. lia.
      * lia.
Qed.

(* the code as found: a datagram whose size field exceeds the buffer is received past its end; and the header peek
   alone overruns a buffer shorter than a header *)
Theorem recv_extent_orig_refuted :
  (exists m buflen, 0 <= buflen /\ m_hsize m = m_len m /\ buflen < recv_write_extent orig m buflen) /\
  (exists m buflen, 0 <= buflen /\ m_hsize m = m_len m /\ m_len m <= 16 /\ buflen < recv_write_extent orig m buflen).
Proof.
  split.
  - exists {| m_id := 1; m_len := 20000; m_hsize := 20000; m_tag := 1 |}, 12328. vm_compute. intuition congruence.
  - exists {| m_id := 1; m_len := 16; m_hsize := 16; m_tag := 1 |}, 4. vm_compute. intuition congruence.
Qed.

(* ================================================================= Part C: the length msg_process is told *)

(* 0 <= size told <= bytes received <= bytes sent; size told <= negotiated maximum; it is the header's own field; and
   what was sent is at least a header (so the callback may look at the header it is given) *)
Definition cb_ok (mx : Z) (c : cb) : Prop :=
  let '(size, m) := c in
  0 <= size /\ size <= m_len m /\ size <= mx /\ size = m_hsize m /\ IPC_HDR_SIZE <= m_len m.

Lemma process_body_cbs s m size reclaim s1 res cbs :
  size <= m_len m ->
  process_body fixed s m size reclaim = (s1, res, cbs) ->
  maxsz s1 = maxsz s /\ tr s1 = tr s /\ Forall (cb_ok (maxsz s)) cbs.
Proof.
  intros Hsz H. unfold process_body in H. cbn [v_reqvalid fixed andb] in H.
  destruct ((size =? 0) || (m_id m =? IPC_MSG_DISCONNECT)); [inversion H; subst; auto|].
  destruct (size <? IPC_HDR_SIZE) eqn:E1; cbn [orb] in H; [inversion H; subst; auto|].
  destruct (m_hsize m <? 0) eqn:E2; cbn [orb] in H; [inversion H; subst; auto|].
  destruct (size <? m_hsize m) eqn:E3; cbn [orb] in H; [inversion H; subst; auto|].
  destruct (maxsz s <? m_hsize m) eqn:E4; [inversion H; subst; auto|].
  apply Z.ltb_ge in E1, E2, E3, E4.
  inversion H; subst; clear H.
  split; [destruct reclaim; reflexivity|]. split; [destruct reclaim; reflexivity|].
  constructor; [|constructor]. unfold cb_ok. rewrite to_size_t_nonneg by exact E2. lia.
Qed.

Lemma process_request_cbs s s1 res cbs :
  process_request fixed s = (s1, res, cbs) ->
  maxsz s1 = maxsz s /\ tr s1 = tr s /\ Forall (cb_ok (maxsz s)) cbs.
Proof.
  intros H. unfold process_request in H. destruct (tr s) eqn:Et.
  - destruct (q_req (ch s)) as [|m rest] eqn:Eq.
    + inversion H; subst. auto.
    + destruct (m_len m =? 0).
      * inversion H; subst. auto.
      * apply process_body_cbs in H; [|lia]. destruct H as (A & B & C). rewrite B. auto.
  - destruct (xrecv fixed SOCK (q_req (ch s)) (maxsz s)) as [[q' r] om] eqn:Ex.
    destruct om as [m|].
    + assert (Hr : r <= m_len m).
      { unfold xrecv in Ex. destruct (q_req (ch s)) as [|m0 rest]; [inversion Ex|].
        cbn [v_recvbound fixed andb] in Ex.
        destruct (((if IPC_HDR_SIZE <=? m_len m0 then m_hsize m0 else 0) <? 0) ||
                  (maxsz s <? (if IPC_HDR_SIZE <=? m_len m0 then m_hsize m0 else 0))); [inversion Ex|].
        destruct (Z.min (to_size_t (if IPC_HDR_SIZE <=? m_len m0 then m_hsize m0 else 0)) (m_len m0) =? 0);
          inversion Ex; subst. lia. }
      apply process_body_cbs in H; [|exact Hr]. cbn in H. destruct H as (A & B & C). rewrite A, B. cbn. auto.
    + destruct ((r =? - IPC_EAGAIN) || (r =? - IPC_ETIMEDOUT)); inversion H; subst; cbn; auto.
Qed.

Lemma Forall_app2 {A} (P : A -> Prop) l1 l2 : Forall P l1 -> Forall P l2 -> Forall P (l1 ++ l2).
Proof. intros; apply Forall_app; auto. Qed.

Lemma disp_loop_cbs n : forall s k cbs s' res k' cbs',
  disp_loop fixed n s k cbs = (s', res, k', cbs') ->
  Forall (cb_ok (maxsz s)) cbs ->
  maxsz s' = maxsz s /\ tr s' = tr s /\ Forall (cb_ok (maxsz s)) cbs'.
Proof.
  induction n as [|n IH]; intros s k cbs s' res k' cbs' H Hc.
  - cbn [disp_loop] in H. destruct (process_request fixed s) as [[s1 r] c1] eqn:Ep.
    apply process_request_cbs in Ep. destruct Ep as (A & B & C).
    destruct (r =? - IPC_ESHUTDOWN); inversion H; subst; (split; [exact A|split; [exact B|apply Forall_app2; assumption]]).
  - cbn [disp_loop] in H. destruct (process_request fixed s) as [[s1 r] c1] eqn:Ep.
    apply process_request_cbs in Ep. destruct Ep as (A & B & C).
    destruct (r =? - IPC_ESHUTDOWN).
    { inversion H; subst. split; [exact A|split; [exact B|apply Forall_app2; assumption]]. }
    destruct n as [|n'].
    { inversion H; subst. split; [exact A|split; [exact B|apply Forall_app2; assumption]]. }
    destruct ((0 <? r) && (fc_en (sv s1) =? 0)).
    + apply IH in H.
      * rewrite A, B in H. exact H.
      * rewrite A. apply Forall_app2; assumption.
    + inversion H; subst. split; [exact A|split; [exact B|apply Forall_app2; assumption]].
Qed.

Lemma resend_mx s env s' r e : resend s env = (s', r, e) -> maxsz s' = maxsz s /\ tr s' = tr s.
Proof. unfold resend. intros H. revert H. brk; intros H; inversion H; subst; auto. Qed.

Lemma dispatch_cbs s pin pout env s' r cbs e :
  dispatch fixed s pin pout env = (s', r, cbs, e) ->
  maxsz s' = maxsz s /\ tr s' = tr s /\ Forall (cb_ok (maxsz s)) cbs.
Proof.
  unfold dispatch. intros H.
  destruct (if pout then let '(s'0, _, e'0) := resend s env in (s'0, e'0) else (s, env)) as [s0 env0] eqn:E0.
  assert (H0 : maxsz s0 = maxsz s /\ tr s0 = tr s).
  { destruct pout; [|inversion E0; auto]. destruct (resend s env) as [[a b] c] eqn:Er. inversion E0; subst.
    eapply resend_mx; eauto. }
  destruct H0 as [M0 T0].
  destruct (negb pin); [inversion H; subst; fin|].
  destruct (negb (fc_en (sv s0) =? 0)); [inversion H; subst; fin|].
  destruct (tr s0) eqn:Et.
  - destruct (q_len_limit s0 =? 0).
    { inversion H; subst. destruct (0 <? c2s (nt s0)); fin. }
    destruct (disp_loop fixed (Z.to_nat (q_len_limit s0)) s0 0 []) as [[[s1 res] recvd] cbs1] eqn:Ed.
    apply disp_loop_cbs in Ed; [|constructor]. destruct Ed as (A & B & C). rewrite M0 in *.
    destruct (res =? - IPC_ESHUTDOWN); [inversion H; subst; cbn; rewrite ?A, ?B; fin|].
    destruct (c2s (nt s1) <? recvd); [inversion H; subst; cbn; rewrite ?A, ?B; fin|].
    match type of H with (if ?c then _ else _, _, _, _) = _ => destruct c end;
      inversion H; subst; cbn; rewrite ?A, ?B; fin.
  - destruct (disp_loop fixed (Z.to_nat (q_len_limit s0)) s0 0 []) as [[[s1 res] recvd] cbs1] eqn:Ed.
    apply disp_loop_cbs in Ed; [|constructor]. destruct Ed as (A & B & C). rewrite M0 in *.
    destruct (res =? - IPC_ESHUTDOWN); [inversion H; subst; cbn; rewrite ?A, ?B; fin|].
    match type of H with (if ?c then _ else _, _, _, _) = _ => destruct c end;
      inversion H; subst; cbn; rewrite ?A, ?B; fin.
Qed.

Lemma xsend_any t W q m env q' r e : xsend t W q m env = (q', r, e) -> True.
Proof. auto. Qed.

Lemma c_send_mx s v m env s' r e : c_send s v m env = (s', r, e) -> maxsz s' = maxsz s /\ tr s' = tr s.
Proof. unfold c_send. intros H. revert H. brk; intros H; inversion H; subst; auto. Qed.

Lemma c_raw_mx s m env s' r e : c_raw s m env = (s', r, e) -> maxsz s' = maxsz s /\ tr s' = tr s.
Proof. unfold c_raw. intros H. revert H. brk; intros H; inversion H; subst; auto. Qed.

Lemma c_recv_mx vr s bl s' r om : c_recv vr s bl = (s', r, om) -> maxsz s' = maxsz s /\ tr s' = tr s.
Proof. unfold c_recv. intros H. revert H. brk; intros H; inversion H; subst; auto. Qed.

Lemma c_evrecv_mx vr s bl s' r om : c_evrecv vr s bl = (s', r, om) -> maxsz s' = maxsz s /\ tr s' = tr s.
Proof. unfold c_evrecv. intros H. revert H. brk; intros H; inversion H; subst; auto. Qed.

Lemma c_sendrecv_mx vr s m bl env s' r om e :
  c_sendrecv vr s m bl env = (s', r, om, e) -> maxsz s' = maxsz s /\ tr s' = tr s.
Proof.
  unfold c_sendrecv. intros H. destruct (fc_blocks s); [inversion H; subst; auto|].
  destruct (c_send s true m env) as [[s1 r1] e1] eqn:E1. apply c_send_mx in E1.
  destruct (r1 <? 0); [inversion H; subst; auto|].
  destruct (c_recv vr s1 bl) as [[s2 r2] om2] eqn:E2. apply c_recv_mx in E2. inversion H; subst.
  destruct E1, E2. split; congruence.
Qed.

Lemma new_notification_mx s env s' r e : new_notification s env = (s', r, e) -> maxsz s' = maxsz s /\ tr s' = tr s.
Proof.
  unfold new_notification. intros H. destruct (tr s) eqn:Et; [|inversion H; subst; fin].
  destruct (0 <? outst (nt s)).
  - apply resend_mx in H. cbn in H. destruct H; split; congruence.
  - revert H. brk; intros H; inversion H; subst; fin.
Qed.

Lemma s_resp_mx vr s v m env s' r e : s_resp vr s v m env = (s', r, e) -> maxsz s' = maxsz s /\ tr s' = tr s.
Proof. unfold s_resp. intros H. revert H. brk; intros H; inversion H; subst; auto. Qed.

Lemma s_evt_mx vr s v m env s' r e : s_evt vr s v m env = (s', r, e) -> maxsz s' = maxsz s /\ tr s' = tr s.
Proof.
  unfold s_evt. intros H.
  destruct ((negb v || v_sendchk vr) && (maxsz s <? m_len m)); [inversion H; subst; auto|].
  destruct (xsend (tr s) (W_of s) (q_evt (ch s)) m env) as [[q' res] env1].
  destruct (sent_ok v res (m_len m)).
  - match type of H with context [new_notification ?a ?b] =>
      destruct (new_notification a b) as [[s2 resn] env2] eqn:En end.
    apply new_notification_mx in En. cbn in En.
    destruct ((resn <? 0) && negb (resn =? - IPC_EAGAIN) && (v || negb (resn =? - IPC_ENOBUFS)));
      inversion H; subst; exact En.
  - destruct ((res =? - IPC_EAGAIN) || (res =? - IPC_ETIMEDOUT)); [|inversion H; subst; auto].
    destruct (0 <? outst (nt s)).
    + destruct (resend s env1) as [[s1 x] env2] eqn:Er. apply resend_mx in Er. inversion H; subst. exact Er.
    + inversion H; subst. auto.
Qed.

Lemma s_turn_cbs s wr env s' r cbs e :
  s_turn fixed s wr env = (s', r, cbs, e) -> maxsz s' = maxsz s /\ tr s' = tr s /\ Forall (cb_ok (maxsz s)) cbs.
Proof.
  unfold s_turn. intros H.
  destruct (negb (server_fd_pollin s) && negb (pollout (nt s) && wr)); [inversion H; subst; auto|].
  destruct (dispatch fixed s (server_fd_pollin s) (pollout (nt s) && wr) env) as [[[s1 x] c1] e1] eqn:Ed.
  apply dispatch_cbs in Ed. inversion H; subst. exact Ed.
Qed.

(* one call, any state, any op (raw requests included), any kernel answers *)
Lemma step_cbs s o env s' x :
  step fixed s o env = (s', x) -> maxsz s' = maxsz s /\ tr s' = tr s /\ Forall (cb_ok (maxsz s)) (o_cbs x).
Proof.
  unfold step. intros H. destruct (closed s || blocked s); [inversion H; subst; cbn; auto|].
  destruct o.
  - destruct (c_send s v m env) as [[a b] c] eqn:E. apply c_send_mx in E. inversion H; subst; destruct E; fin.
  - destruct (c_sendrecv fixed s m buflen env) as [[[a b] c] d] eqn:E. apply c_sendrecv_mx in E.
    inversion H; subst; destruct E; fin.
  - destruct (c_recv fixed s buflen) as [[a b] c] eqn:E. apply c_recv_mx in E. inversion H; subst; destruct E; fin.
  - destruct (c_evrecv fixed s buflen) as [[a b] c] eqn:E. apply c_evrecv_mx in E. inversion H; subst; destruct E; fin.
  - destruct ((n <? 0) || (2 <? n)); inversion H; subst; cbn; auto.
  - destruct (s_turn fixed s writable env) as [[[a b] c] d] eqn:E. apply s_turn_cbs in E.
    inversion H; subst; cbn. exact E.
  - destruct (s_resp fixed s v m env) as [[a b] c] eqn:E. apply s_resp_mx in E. inversion H; subst; destruct E; fin.
  - destruct (s_evt fixed s v m env) as [[a b] c] eqn:E. apply s_evt_mx in E. inversion H; subst; destruct E; fin.
  - inversion H; subst; cbn. unfold s_rate. brk; cbn; auto.
  - inversion H; subst; cbn. auto.
  - destruct (c_raw s m env) as [[a b] c] eqn:E. apply c_raw_mx in E. inversion H; subst; destruct E; fin.
Qed.

Definition out_cbs_ok (mx : Z) (x : out) : Prop := Forall (cb_ok mx) (o_cbs x).

Lemma run_cbs h : forall s s' outs,
  run fixed s h = (s', outs) -> maxsz s' = maxsz s /\ Forall (out_cbs_ok (maxsz s)) outs.
Proof.
  induction h as [|[o env] h IH]; intros s s' outs H; cbn [run] in H.
  - inversion H; subst. auto.
  - destruct (step fixed s o env) as [s1 x] eqn:Es. destruct (run fixed s1 h) as [s2 xs] eqn:Er.
    inversion H; subst. apply step_cbs in Es. destruct Es as (A & B & C). apply IH in Er. destruct Er as (D & E).
    rewrite A in *. split; [exact D|]. constructor; [exact C|exact E].
Qed.

(* every history of arbitrary calls on an established connection, hostile raw requests included *)
Theorem reported_size_bounded t mx h s outs :
  run fixed (init t mx) h = (s, outs) -> Forall (out_cbs_ok mx) outs.
Proof. intros H. apply run_cbs in H. cbn in H. tauto. Qed.

Definition hostile_req : msg := {| m_id := 1; m_len := 120; m_hsize := 5000; m_tag := 7 |}.

(* the code as found: a 120-byte request whose header says 5000 - msg_process is told 5000, on both transports *)
Theorem reported_size_orig_refuted :
  forall t, exists x, In x (snd (run orig (init t 12328) [(CRaw hostile_req, []); (STurn false, [])])) /\
                      o_cbs x = [(5000, hostile_req)].
Proof.
  intros t. destruct t; vm_compute; eexists; (split; [right; left; reflexivity | reflexivity]).
Qed.

(* ... and with the fixes the same history makes the server drop that client without calling msg_process *)
Example hostile_req_fixed :
  forall t, let r := run fixed (init t 12328) [(CRaw hostile_req, []); (STurn false, [])] in
            closed (fst r) = true /\ map o_cbs (snd r) = [[]; []].
Proof. intros t. destruct t; vm_compute; auto. Qed.

(* ================================================================= Part A: peers that are not accepted clients *)
Local Open Scope nat_scope.

Definition chunks_ok (k : ksock) : Prop := Forall (fun c : list Z => c <> []) (k_chunks k).
Definition unread (k : ksock) : list Z := concat (k_chunks k).

Lemma LEN_pos : 0 < LEN. Proof. apply Nat.ltb_lt. reflexivity. Qed.
Arguments LEN : simpl never.

Lemma krecv_spec k want r k' :
  chunks_ok k -> 0 < want -> krecv k want = (r, k') ->
  chunks_ok k' /\ k_eof k' = k_eof k /\ k_hup k' = k_hup k /\
  match r with
  | RGot l => l <> [] /\ length l <= want /\ l ++ unread k' = unread k
  | RAgain => k_chunks k = [] /\ k_eof k = false /\ k' = k
  | REof => k_chunks k = [] /\ k_eof k = true /\ k' = k
  end.
Proof.
  intros Hc Hw H. unfold krecv in H. destruct (k_chunks k) as [|c rest] eqn:Ek.
  - destruct (k_eof k) eqn:Ee; inversion H; subst; repeat split; auto.
  - inversion H; subst; clear H. unfold chunks_ok in Hc. rewrite Ek in Hc. inversion Hc as [|? ? Hc1 Hc2]; subst.
    assert (Hcat : firstn want c ++ skipn want c = c) by apply firstn_skipn.
    repeat split; cbn.
    + unfold chunks_ok; cbn. destruct (skipn want c) eqn:Es; [exact Hc2|]. constructor; [congruence|exact Hc2].
    + destruct c as [|z c]; [congruence|]. destruct want; [lia|]. cbn. congruence.
    + rewrite firstn_length. lia.
    + unfold unread; cbn. rewrite Ek. cbn. destruct (skipn want c) eqn:Es.
      * rewrite app_nil_r in Hcat. rewrite Hcat. reflexivity.
      * change (concat ((z :: l) :: rest)) with ((z :: l) ++ concat rest). rewrite app_assoc. rewrite Hcat. reflexivity.
Qed.

Lemma recv_msghdr_spec fuel : forall got k r got' k',
  chunks_ok k -> length got < LEN -> LEN - length got <= fuel ->
  recv_msghdr fuel got k = (r, got', k') ->
  r <> MhOutOfFuel /\ chunks_ok k' /\ k_eof k' = k_eof k /\ k_hup k' = k_hup k /\
  got' ++ unread k' = got ++ unread k /\
  (r = MhFull -> length got' = LEN) /\ (r <> MhFull -> length got' < LEN) /\
  (r = MhAgain -> k_chunks k' = [] /\ k_eof k = false) /\ (forall e, r = MhErr e -> k_chunks k' = [] /\ k_eof k = true).
Proof.
  induction fuel as [|f IH]; intros got k r got' k' Hc Hl Hf H.
  - lia.
  - cbn [recv_msghdr] in H. destruct (krecv k (LEN - length got)) as [rr k1] eqn:Ek.
    apply krecv_spec in Ek; [|exact Hc|lia]. destruct Ek as (C1 & E1 & U1 & Hr).
    destruct rr as [l| |].
    + destruct Hr as (Hn & Hle & Hcat). destruct l as [|z l]; [congruence|].
      destruct (Nat.eqb (length (got ++ z :: l)) LEN) eqn:Eq.
      * apply Nat.eqb_eq in Eq. inversion H; subst. repeat split; auto; try congruence; try discriminate.
        rewrite <- app_assoc. rewrite Hcat. reflexivity.
      * apply Nat.eqb_neq in Eq. rewrite app_length in Eq. cbn [length] in *.
        apply IH in H; [| exact C1 | rewrite app_length; cbn [length]; lia | rewrite app_length; cbn [length]; lia].
        destruct H as (A & B & C & D & E & F & G & I1 & I2). repeat split; auto; try congruence.
        -- rewrite E. rewrite <- app_assoc. rewrite Hcat. reflexivity.
        -- apply I1; assumption.
        -- destruct (I1 H) as [_ X]. congruence.
        -- eapply I2; eauto.
        -- destruct (I2 _ H) as [_ X]. congruence.
    + destruct Hr as (Hk & He & ->). inversion H; subst. repeat split; auto; try congruence; try discriminate.
    + destruct Hr as (Hk & He & ->). inversion H; subst. repeat split; auto; try congruence; try discriminate.
Qed.

(* ---- the invariant of one peer ---- *)
Definition valid_request (bytes : list Z) : Prop :=
  LEN <= length bytes /\ req_id (firstn LEN bytes) = IPC_MSG_AUTHENTICATE.

Definition peer_ok (enforced : Z) (p : peer) : Prop :=
  chunks_ok (p_sock p) /\
  match p_stat p with
  | PArrived => unread (p_sock p) = p_sent p
  | PPending got => length got < LEN /\ got ++ unread (p_sock p) = p_sent p       (* data->msg is never overrun *)
  | PClosed => True
  | PConn mx => valid_request (p_sent p) /\ mx = Z.max (req_max (firstn LEN (p_sent p))) enforced
  | PGone => valid_request (p_sent p)
  end.

Lemma process_auth_spec down cred got k o k' :
  chunks_ok k -> length got < LEN -> process_auth down cred got k = (o, k') ->
  chunks_ok k' /\ k_eof k' = k_eof k /\ k_hup k' = k_hup k /\
  match o with
  | PaStay got' => length got' < LEN /\ got' ++ unread k' = got ++ unread k
  | PaClose _ => True
  | PaHand req => length req = LEN /\ req_id req = IPC_MSG_AUTHENTICATE /\ req ++ unread k' = got ++ unread k /\
                  down = false /\ cred = true /\ k_hup k = false
  end.
Proof.
  intros Hc Hl H. unfold process_auth in H.
  destruct down; [inversion H; subst; auto|].
  destruct (k_hup k) eqn:Eh; [inversion H; subst; auto|].
  destruct (negb (pollin k)); [inversion H; subst; auto|].
  destruct (recv_msghdr (S LEN) got k) as [[r got'] k1] eqn:Er.
  apply recv_msghdr_spec in Er; [|exact Hc|exact Hl|lia].
  destruct Er as (A & B & C & D & E & F & G & _ & _).
  destruct r.
  - specialize (F eq_refl). destruct cred; cbn [negb] in H; [|inversion H; subst; rewrite D; auto].
    destruct (req_id got' =? IPC_MSG_AUTHENTICATE)%Z eqn:Ei; inversion H; subst.
    + apply Z.eqb_eq in Ei. rewrite D. repeat split; auto.
    + rewrite D. auto.
  - inversion H; subst. rewrite D. repeat split; auto. apply G. congruence.
  - inversion H; subst. rewrite D. auto.
  - congruence.
Qed.

(* ---- resource accounting ---- *)
Local Open Scope Z_scope.

Definition res_plus (a b : res) : res :=
  {| r_table := r_table a + r_table b; r_fds := r_fds a + r_fds b; r_shm := r_shm a + r_shm b;
     r_refs := r_refs a + r_refs b; r_auths := r_auths a + r_auths b; r_conns := r_conns a + r_conns b |}.
Definition res_minus (a b : res) : res :=
  {| r_table := r_table a - r_table b; r_fds := r_fds a - r_fds b; r_shm := r_shm a - r_shm b;
     r_refs := r_refs a - r_refs b; r_auths := r_auths a - r_auths b; r_conns := r_conns a - r_conns b |}.
Definition res_zero : res := {| r_table := 0; r_fds := 0; r_shm := 0; r_refs := 0; r_auths := 0; r_conns := 0 |}.

(* what one peer makes the service hold, by its status *)
Definition weight (t : transport) (st : pstat) : res :=
  match st with
  | PPending _ => {| r_table := 1; r_fds := 1; r_shm := 0; r_refs := 1; r_auths := 1; r_conns := 0 |}
  | PConn _ => {| r_table := conn_table t; r_fds := 1 + conn_extra_fds t; r_shm := 1; r_refs := 1; r_auths := 0; r_conns := 1 |}
  | _ => res_zero
  end.

Fixpoint acct (t : transport) (ps : list peer) : res :=
  match ps with
  | [] => res_idle
  | p :: rest => res_plus (acct t rest) (weight t (p_stat p))
  end.

Ltac res_eq :=
  repeat match goal with r : res |- _ => destruct r end;
  unfold res_plus, res_minus, res_add, res_zero, res_idle, weight, conn_table, conn_extra_fds; cbn;
  repeat match goal with t : transport |- _ => destruct t end; cbn; f_equal; lia.

Definition is_conn (p : peer) : Z := match p_stat p with PConn _ | PGone => 1 | _ => 0 end.
Definition is_gone (p : peer) : Z := match p_stat p with PGone => 1 | _ => 0 end.
Definition dead (p : peer) : Prop := p_stat p = PClosed \/ p_stat p = PGone.

Lemma peer_turn_spec t enf down cred p r p' r' c :
  peer_ok enf p -> peer_turn t enf down cred p r = (p', r', c) ->
  peer_ok enf p' /\ p_sent p' = p_sent p /\
  k_hup (p_sock p') = k_hup (p_sock p) /\ k_eof (p_sock p') = k_eof (p_sock p) /\
  r' = res_plus (res_minus r (weight t (p_stat p))) (weight t (p_stat p')) /\
  c = (is_conn p' - is_conn p, is_conn p' - is_conn p, is_gone p' - is_gone p, is_gone p' - is_gone p).
Proof.
  intros [Hc Hs] H. unfold peer_turn in H. destruct p as [st k sent]. cbn [p_stat p_sock p_sent] in *.
  pose proof LEN_pos as HP.
  destruct st as [|got| |mx|].
  - inversion H; subst; clear H. unfold peer_ok, is_conn, is_gone; cbn [p_stat p_sock p_sent length app].
    repeat split; auto; try res_eq.
  - destruct Hs as [Hl Hcat].
    destruct (process_auth down cred got k) as [o k1] eqn:Ep.
    apply process_auth_spec in Ep; [|exact Hc|exact Hl]. destruct Ep as (A & B & C & D).
    destruct o as [got'|e|req]; inversion H; clear H; subst p' r' c; unfold peer_ok, is_conn, is_gone;
      cbn [p_stat p_sock p_sent].
    + destruct D as [D1 D2]. repeat split; auto; try congruence; try res_eq.
    + repeat split; auto; try res_eq.
    + destruct D as (D1 & D2 & D3 & _).
      assert (Hf : firstn LEN sent = req).
      { rewrite <- Hcat, <- D3. rewrite <- D1. rewrite firstn_app. rewrite Nat.sub_diag. cbn [firstn]. rewrite app_nil_r.
        apply firstn_all. }
      assert (Hlen : (LEN <= length sent)%nat).
      { rewrite <- Hcat, <- D3. rewrite app_length. lia. }
      unfold valid_request. rewrite Hf. repeat split; auto; try res_eq.
  - inversion H; subst; clear H. unfold peer_ok, is_conn, is_gone; cbn [p_stat p_sock p_sent]. repeat split; auto; try res_eq.
  - destruct Hs as [Hv Hmx].
    destruct (k_hup k || (k_eof k && match k_chunks k with [] => true | _ => false end)).
    + inversion H; subst; clear H. unfold peer_ok, is_conn, is_gone; cbn [p_stat p_sock p_sent].
      repeat split; auto; try res_eq; apply Hv.
    + assert (Hk : forall n, chunks_ok {| k_chunks := match k_chunks k with
                                                      | [] => []
                                                      | c1 :: rest => match skipn n c1 with [] => rest | l => l :: rest end
                                                      end; k_eof := k_eof k; k_hup := k_hup k |}).
      { intros n. unfold chunks_ok in *; cbn. destruct (k_chunks k) as [|c0 rest]; [constructor|].
        inversion Hc; subst. destruct (skipn n c0); [assumption|]. constructor; [congruence|assumption]. }
      pose proof (Hk 1%nat) as Hk1. pose proof (Hk 10%nat) as Hk10.
      destruct t; destruct (k_chunks k) as [|c1 rest] eqn:Ek; inversion H; subst; clear H;
        unfold peer_ok, is_conn, is_gone; cbn [p_stat p_sock p_sent];
        repeat split; auto; try res_eq; try apply Hv.
  - inversion H; subst; clear H. unfold peer_ok, is_conn, is_gone; cbn [p_stat p_sock p_sent]. repeat split; auto; try res_eq; apply Hs.
Qed.

Lemma dead_turn t enf down cred p r : dead p -> peer_turn t enf down cred p r = (p, r, (0, 0, 0, 0)).
Proof. intros [H|H]; unfold peer_turn; rewrite H; reflexivity. Qed.

Lemma turns_spec n t enf down cred : forall p r acc p' r' acc',
  peer_ok enf p -> turns n t enf down cred p r acc = (p', r', acc') ->
  peer_ok enf p' /\ p_sent p' = p_sent p /\
  k_hup (p_sock p') = k_hup (p_sock p) /\ k_eof (p_sock p') = k_eof (p_sock p) /\
  r' = res_plus (res_minus r (weight t (p_stat p))) (weight t (p_stat p')) /\
  acc' = add4 acc (is_conn p' - is_conn p, is_conn p' - is_conn p, is_gone p' - is_gone p, is_gone p' - is_gone p).
Proof.
  induction n as [|n IH]; intros p r acc p' r' acc' Hok H; cbn [turns] in H.
  - inversion H; subst. split; [exact Hok|]. split; [reflexivity|]. split; [reflexivity|]. split; [reflexivity|]. split.
    + generalize (weight t (p_stat p')). intros w. res_eq.
    + destruct acc' as [[[a b] c] d]. unfold add4. repeat rewrite Z.sub_diag. repeat rewrite Z.add_0_r. reflexivity.
  - destruct (peer_turn t enf down cred p r) as [[p1 r1] c1] eqn:Et.
    apply peer_turn_spec in Et; [|exact Hok]. destruct Et as (A & B & C & D & E & F).
    apply IH in H; [|exact A]. destruct H as (A' & B' & C' & D' & E' & F').
    split; [exact A'|]. split; [congruence|]. split; [congruence|]. split; [congruence|]. split.
    + rewrite E', E. generalize (weight t (p_stat p)) (weight t (p_stat p1)) (weight t (p_stat p')). intros w1 w2 w3. res_eq.
    + rewrite F', F. destruct acc as [[[a b] c] d]. unfold add4. f_equal; [f_equal; [f_equal|]|]; lia.
Qed.

(* once the peer has closed its socket, two looks of the main loop are enough *)
Lemma turn_hup t enf down cred p r p' r' c :
  k_hup (p_sock p) = true -> peer_turn t enf down cred p r = (p', r', c) ->
  k_hup (p_sock p') = true /\ (p_stat p = PArrived \/ dead p') /\ (p_stat p = PArrived -> exists got, p_stat p' = PPending got).
Proof.
  intros Hh H. unfold peer_turn in H. destruct p as [st k sent]; cbn [p_stat p_sock p_sent] in *.
  destruct st as [|got| |mx|].
  - inversion H; subst; cbn. split; [exact Hh|]. split; [left; reflexivity|]. intros _. eexists; reflexivity.
  - unfold process_auth in H. rewrite Hh in H. destruct down; inversion H; subst; cbn;
      (split; [exact Hh|]; split; [right; left; reflexivity|intros X; discriminate X]).
  - inversion H; subst; cbn. split; [exact Hh|]. split; [right; left; reflexivity|intros X; discriminate X].
  - rewrite Hh in H. cbn [orb] in H. inversion H; subst; cbn.
    split; [exact Hh|]. split; [right; right; reflexivity|intros X; discriminate X].
  - inversion H; subst; cbn. split; [exact Hh|]. split; [right; right; reflexivity|intros X; discriminate X].
Qed.

Lemma turns_dead n t enf down cred : forall p r acc, dead p -> turns n t enf down cred p r acc = (p, r, acc).
Proof.
  induction n as [|n IH]; intros p r acc Hd; cbn [turns]; [reflexivity|].
  rewrite dead_turn by exact Hd. rewrite IH by exact Hd.
  destruct acc as [[[a b] c] d]. unfold add4. repeat rewrite Z.add_0_r. reflexivity.
Qed.

Lemma turns_hup_dead n t enf down cred p r acc p' r' acc' :
  k_hup (p_sock p) = true -> turns (S (S n)) t enf down cred p r acc = (p', r', acc') -> dead p'.
Proof.
  intros Hh H. cbn [turns] in H.
  destruct (peer_turn t enf down cred p r) as [[p1 r1] c1] eqn:E1.
  destruct (peer_turn t enf down cred p1 r1) as [[p2 r2] c2] eqn:E2.
  pose proof (turn_hup _ _ _ _ _ _ _ _ _ Hh E1) as (H1 & D1 & A1).
  pose proof (turn_hup _ _ _ _ _ _ _ _ _ H1 E2) as (H2 & D2 & A2).
  assert (Hd2 : dead p2).
  { destruct D2 as [Ha|Hd]; [|exact Hd]. destruct D1 as [Ha1|Hd1].
    - destruct (A1 Ha1) as [got Hg]. congruence.
    - destruct Hd1 as [X|X]; congruence. }
  rewrite turns_dead in H by exact Hd2. inversion H; subst. exact Hd2.
Qed.

(* ---- the service ---- *)
Definition Inv_hs (s : hsvc) : Prop :=
  h_res s = acct (h_tr s) (h_peers s) /\ Forall (peer_ok (h_enforced s)) (h_peers s).

Lemma inv_hs_init t : Inv_hs (hs_init t).
Proof. split; [reflexivity|constructor]. Qed.

Lemma acct_app t ps p : acct t (ps ++ [p]) = res_plus (acct t ps) (weight t (p_stat p)).
Proof.
  induction ps as [|q ps IH]; cbn [app acct].
  - generalize (weight t (p_stat p)). intros w. res_eq.
  - rewrite IH. generalize (acct t ps) (weight t (p_stat p)) (weight t (p_stat q)). intros a b c. res_eq.
Qed.

Lemma acct_set_nth t : forall ps k p p',
  nth_error ps k = Some p ->
  acct t (set_nth ps k p') = res_plus (res_minus (acct t ps) (weight t (p_stat p))) (weight t (p_stat p')).
Proof.
  induction ps as [|q ps IH]; intros k p p' H.
  - destruct k; discriminate H.
  - destruct k as [|k]; cbn in H.
    + inversion H; subst. cbn [set_nth acct].
      generalize (acct t ps) (weight t (p_stat p)) (weight t (p_stat p')). intros a b c. res_eq.
    + cbn [set_nth acct]. rewrite (IH _ _ _ H).
      generalize (acct t ps) (weight t (p_stat p)) (weight t (p_stat p')) (weight t (p_stat q)). intros a b c d. res_eq.
Qed.

Lemma Forall_set_nth {A} (P : A -> Prop) : forall l k x, Forall P l -> P x -> Forall P (set_nth l k x).
Proof.
  induction l as [|h l IH]; intros k x Hl Hx; cbn; [constructor|].
  inversion Hl; subst. destruct k; constructor; auto.
Qed.

Lemma nth_error_set_nth_same {A} : forall (l : list A) k x y, nth_error l k = Some y -> nth_error (set_nth l k x) k = Some x.
Proof.
  induction l as [|h l IH]; intros k x y H; destruct k; cbn in *; try discriminate; auto. eapply IH; eauto.
Qed.

Lemma nth_error_set_nth_other {A} : forall (l : list A) k j x, j <> k -> nth_error (set_nth l k x) j = nth_error l j.
Proof.
  induction l as [|h l IH]; intros k j x H; destruct k, j; cbn; auto; try congruence; try (apply IH; congruence).
Qed.

Lemma k_push_ok k bytes : chunks_ok k -> chunks_ok (k_push k bytes) /\ unread (k_push k bytes) = unread k ++ bytes.
Proof.
  intros H. unfold k_push. destruct bytes as [|b bs]; [rewrite app_nil_r; auto|].
  split.
  - unfold chunks_ok; cbn. apply Forall_app. split; [exact H|]. constructor; [congruence|constructor].
  - unfold unread; cbn. rewrite concat_app. cbn. rewrite app_nil_r. reflexivity.
Qed.

(* the peer an op is about *)
Definition target (s : hsvc) (o : hop) : nat :=
  match o with HNew _ => length (h_peers s) | HApp k _ | HShut k | HClose k => k end.

(* the peer as the op leaves it before the server looks: new bytes queued / shut down / closed *)
Definition prepared (s : hsvc) (o : hop) : option peer :=
  match o with
  | HNew bytes => Some {| p_stat := PArrived; p_sock := k_push k_empty bytes; p_sent := bytes |}
  | HApp k bytes =>
      match nth_error (h_peers s) k with
      | None => None
      | Some p => Some match p_stat p with
                       | PClosed | PGone => p
                       | _ => {| p_stat := p_stat p; p_sock := k_push (p_sock p) bytes; p_sent := p_sent p ++ bytes |}
                       end
      end
  | HShut k => match nth_error (h_peers s) k with
               | None => None
               | Some p => Some {| p_stat := p_stat p; p_sock := k_shut (p_sock p); p_sent := p_sent p |}
               end
  | HClose k => match nth_error (h_peers s) k with
                | None => None
                | Some p => Some {| p_stat := p_stat p; p_sock := k_close (p_sock p); p_sent := p_sent p |}
                end
  end.

Lemma prepared_ok s o p1 :
  Forall (peer_ok (h_enforced s)) (h_peers s) -> prepared s o = Some p1 ->
  peer_ok (h_enforced s) p1 /\
  match o with
  | HNew _ => p_stat p1 = PArrived
  | HApp k _ | HShut k | HClose k => exists p, nth_error (h_peers s) k = Some p /\ p_stat p1 = p_stat p
  end.
Proof.
  intros Hall H. destruct o as [bytes|k bytes|k|k]; cbn in H.
  - inversion H; subst. split; [|reflexivity]. unfold peer_ok; cbn.
    destruct (k_push_ok k_empty bytes) as [A B]; [constructor|]. split; [exact A|]. rewrite B. reflexivity.
  - destruct (nth_error (h_peers s) k) as [p|] eqn:En; [|discriminate]. inversion H; subst; clear H.
    assert (Hp : peer_ok (h_enforced s) p).
    { rewrite Forall_forall in Hall. apply Hall. eapply nth_error_In; eauto. }
    split; [|exists p; split; [reflexivity|destruct (p_stat p) eqn:Es0; cbn; congruence]].
    destruct Hp as [Hc Hs]. destruct (k_push_ok (p_sock p) bytes Hc) as [A B].
    destruct (p_stat p) as [|got| |mx|] eqn:Es; unfold peer_ok; cbn [p_stat p_sock p_sent]; rewrite ?Es.
    + split; [exact A|]. rewrite B, Hs. reflexivity.
    + split; [exact A|]. destruct Hs as [Hl Hcat]. split; [exact Hl|]. rewrite B, app_assoc, Hcat. reflexivity.
    + split; [exact Hc|exact I].
    + split; [exact A|]. destruct Hs as [[Hl Hid] Hmx].
      assert (Hf : firstn LEN (p_sent p ++ bytes) = firstn LEN (p_sent p)).
      { rewrite firstn_app. replace (LEN - length (p_sent p))%nat with 0%nat by lia. cbn [firstn]. apply app_nil_r. }
      unfold valid_request. rewrite Hf. split; [split|].
      * rewrite app_length. lia.
      * exact Hid.
      * exact Hmx.
    + split; [exact Hc|exact Hs].
  - destruct (nth_error (h_peers s) k) as [p|] eqn:En; [|discriminate]. inversion H; subst; clear H.
    assert (Hp : peer_ok (h_enforced s) p).
    { rewrite Forall_forall in Hall. apply Hall. eapply nth_error_In; eauto. }
    split; [|exists p; split; reflexivity]. exact Hp.
  - destruct (nth_error (h_peers s) k) as [p|] eqn:En; [|discriminate]. inversion H; subst; clear H.
    assert (Hp : peer_ok (h_enforced s) p).
    { rewrite Forall_forall in Hall. apply Hall. eapply nth_error_In; eauto. }
    split; [|exists p; split; reflexivity]. exact Hp.
Qed.

(* hs_step = prepare the peer, give the server its turns, put the peer back *)
Lemma hs_step_unfold cred s o :
  hs_step cred s o =
  match prepared s o with
  | None => (s, None)
  | Some p1 =>
      let '(p', r', c) := turns NTURNS (h_tr s) (h_enforced s) (h_down s) cred p1 (h_res s) (0, 0, 0, 0) in
      (with_peers s (match o with HNew _ => h_peers s ++ [p'] | _ => set_nth (h_peers s) (target s o) p' end) r',
       Some (mk_hout (target s o) p' c))
  end.
Proof.
  unfold hs_step, prepared. destruct o as [bytes|k bytes|k|k]; cbn [target].
  - destruct (turns _ _ _ _ _ _ _ _) as [[p' r'] c]. reflexivity.
  - destruct (nth_error (h_peers s) k); [|reflexivity]. destruct (turns _ _ _ _ _ _ _ _) as [[p' r'] c]. reflexivity.
  - destruct (nth_error (h_peers s) k); [|reflexivity]. destruct (turns _ _ _ _ _ _ _ _) as [[p' r'] c]. reflexivity.
  - destruct (nth_error (h_peers s) k); [|reflexivity]. destruct (turns _ _ _ _ _ _ _ _) as [[p' r'] c]. reflexivity.
Qed.

Lemma hs_step_inv cred s o s' x : Inv_hs s -> hs_step cred s o = (s', x) -> Inv_hs s'.
Proof.
  intros [Hr Hall] H. rewrite hs_step_unfold in H.
  destruct (prepared s o) as [p1|] eqn:Ep; [|inversion H; subst; split; assumption].
  destruct (prepared_ok _ _ _ Hall Ep) as [Hp1 Hst].
  destruct (turns NTURNS (h_tr s) (h_enforced s) (h_down s) cred p1 (h_res s) (0, 0, 0, 0)) as [[p' r'] c] eqn:Et.
  apply turns_spec in Et; [|exact Hp1]. destruct Et as (A & B & C & D & E & F).
  inversion H; subst; clear H. unfold Inv_hs; cbn.
  destruct o as [bytes|k bytes|k|k].
  - split; [|apply Forall_app; split; [exact Hall|constructor; [exact A|constructor]]].
    rewrite acct_app, Hr, Hst. generalize (acct (h_tr s) (h_peers s)) (weight (h_tr s) (p_stat p')). intros a b. res_eq.
  - destruct Hst as (p & Hn & Hs). split; [|apply Forall_set_nth; assumption].
    cbn [target]. rewrite (acct_set_nth _ _ _ _ _ Hn), Hr, Hs. reflexivity.
  - destruct Hst as (p & Hn & Hs). split; [|apply Forall_set_nth; assumption].
    cbn [target]. rewrite (acct_set_nth _ _ _ _ _ Hn), Hr, Hs. reflexivity.
  - destruct Hst as (p & Hn & Hs). split; [|apply Forall_set_nth; assumption].
    cbn [target]. rewrite (acct_set_nth _ _ _ _ _ Hn), Hr, Hs. reflexivity.
Qed.

Lemma hs_step_fixed_fields cred s o s' x :
  hs_step cred s o = (s', x) -> h_tr s' = h_tr s /\ h_enforced s' = h_enforced s /\ h_down s' = h_down s.
Proof.
  intros H. rewrite hs_step_unfold in H. destruct (prepared s o); [|inversion H; subst; auto].
  destruct (turns _ _ _ _ _ _ _ _) as [[p' r'] c]. inversion H; subst. cbn. auto.
Qed.

(* A1: every reachable state, for every sequence of ops = every byte stream, every way of cutting it, shutdown and
   close at any point, any number of peers *)
Theorem hs_invariant cred t h : Inv_hs (fst (hs_run cred (hs_init t) h)).
Proof.
  assert (G : forall h s, Inv_hs s -> Inv_hs (fst (hs_run cred s h))).
  { induction h0 as [|o h0 IH]; intros s Hs; cbn [hs_run]; [exact Hs|].
    destruct (hs_step cred s o) as [s1 x] eqn:E1. destruct (hs_run cred s1 h0) as [s2 xs] eqn:E2. cbn.
    apply hs_step_inv in E1; [|exact Hs]. specialize (IH s1 E1). rewrite E2 in IH. exact IH. }
  apply G. apply inv_hs_init.
Qed.

Lemma process_auth_hand down cred got k req k' :
  process_auth down cred got k = (PaHand req, k') -> down = false /\ cred = true.
Proof.
  unfold process_auth. destruct down; [discriminate|]. destruct (k_hup k); [discriminate|].
  destruct (negb (pollin k)); [discriminate|].
  destruct (recv_msghdr (S LEN) got k) as [[r g] k1]. destruct r; try discriminate.
  destruct cred; cbn [negb]; [|discriminate]. auto.
Qed.

Lemma is_conn_01 p : is_conn p = 0 \/ is_conn p = 1.
Proof. unfold is_conn. destruct (p_stat p); auto. Qed.

Lemma peer_turn_mono t enf down cred p r p' r' c :
  peer_turn t enf down cred p r = (p', r', c) ->
  is_conn p <= is_conn p' /\ (is_conn p < is_conn p' -> down = false /\ cred = true).
Proof.
  intros H. unfold peer_turn in H. destruct p as [st k sent]; cbn [p_stat p_sock p_sent] in *.
  destruct st as [|got| |mx|]; unfold is_conn; cbn [p_stat].
  - inversion H; subst; cbn. split; lia.
  - destruct (process_auth down cred got k) as [o k1] eqn:Ep. destruct o as [g|e|req]; inversion H; subst; cbn.
    + split; lia.
    + split; lia.
    + split; [lia|]. intros _. eapply process_auth_hand; eauto.
  - inversion H; subst; cbn. split; lia.
  - destruct (k_hup k || (k_eof k && match k_chunks k with [] => true | _ => false end)).
    + inversion H; subst; cbn. split; lia.
    + destruct t; destruct (k_chunks k); inversion H; subst; cbn; split; lia.
  - inversion H; subst; cbn. split; lia.
Qed.

Lemma turns_mono n t enf down cred : forall p r acc p' r' acc',
  turns n t enf down cred p r acc = (p', r', acc') ->
  is_conn p <= is_conn p' /\ (is_conn p < is_conn p' -> down = false /\ cred = true).
Proof.
  induction n as [|n IH]; intros p r acc p' r' acc' H; cbn [turns] in H.
  - inversion H; subst. split; lia.
  - destruct (peer_turn t enf down cred p r) as [[p1 r1] c1] eqn:Et.
    apply peer_turn_mono in Et. apply IH in H. destruct Et as [A B], H as [C D]. split; [lia|].
    intros Hlt. destruct (is_conn_01 p), (is_conn_01 p1), (is_conn_01 p'); try lia; [apply D; lia|apply B; lia].
Qed.

(* readable consequences of A1 *)
Theorem hs_buffer_bounded cred t h p got :
  In p (h_peers (fst (hs_run cred (hs_init t) h))) -> p_stat p = PPending got -> (length got < LEN)%nat.
Proof.
  intros Hin Hs. destruct (hs_invariant cred t h) as [_ Hall]. rewrite Forall_forall in Hall.
  destruct (Hall _ Hin) as [_ Hp]. rewrite Hs in Hp. apply Hp.
Qed.

Theorem hs_conn_only_valid cred t h p :
  In p (h_peers (fst (hs_run cred (hs_init t) h))) ->
  (forall mx, p_stat p = PConn mx -> valid_request (p_sent p) /\ mx = Z.max (req_max (firstn LEN (p_sent p))) 0) /\
  (p_stat p = PGone -> valid_request (p_sent p)).
Proof.
  intros Hin. destruct (hs_invariant cred t h) as [_ Hall]. rewrite Forall_forall in Hall.
  destruct (Hall _ Hin) as [_ Hp].
  assert (He : h_enforced (fst (hs_run cred (hs_init t) h)) = 0).
  { assert (G : forall h s, h_enforced (fst (hs_run cred s h)) = h_enforced s).
    { induction h0 as [|o h0 IH]; intros s; cbn [hs_run]; [reflexivity|].
      destruct (hs_step cred s o) as [s1 x] eqn:E1. destruct (hs_run cred s1 h0) as [s2 xs] eqn:E2. cbn.
      apply hs_step_fixed_fields in E1. specialize (IH s1). rewrite E2 in IH. cbn in IH. rewrite IH. apply E1. }
    rewrite G. reflexivity. }
  rewrite He in Hp. split.
  - intros mx Hs. rewrite Hs in Hp. exact Hp.
  - intros Hs. rewrite Hs in Hp. exact Hp.
Qed.

Theorem hs_resources_accounted cred t h :
  let s := fst (hs_run cred (hs_init t) h) in h_res s = acct (h_tr s) (h_peers s).
Proof. intros s. apply (hs_invariant cred t h). Qed.

(* A2: a connection_accept callback (and hence a connection) only ever comes from a complete request with the
   AUTHENTICATE id at the front of what the peer sent (while the service is up and credentials were delivered);
   msg_process is never called on behalf of such a peer *)
Theorem hs_accept_only_valid cred s o s' x :
  Inv_hs s -> hs_step cred s o = (s', Some x) ->
  ho_msgproc x = 0 /\ (ho_accept x = 0 \/ ho_accept x = 1) /\ ho_created x = ho_accept x /\
  (ho_accept x <> 0 ->
   exists p', nth_error (h_peers s') (target s o) = Some p' /\ valid_request (p_sent p') /\
              cred = true /\ h_down s = false).
Proof.
  intros [Hr Hall] H. rewrite hs_step_unfold in H.
  destruct (prepared s o) as [p1|] eqn:Ep; [|discriminate].
  destruct (prepared_ok _ _ _ Hall Ep) as [Hp1 Hst].
  destruct (turns NTURNS (h_tr s) (h_enforced s) (h_down s) cred p1 (h_res s) (0, 0, 0, 0)) as [[p' r'] c] eqn:Et.
  pose proof (turns_mono _ _ _ _ _ _ _ _ _ _ _ Et) as [M1 M2].
  apply turns_spec in Et; [|exact Hp1]. destruct Et as (A & B & C & D & E & F).
  inversion H; subst; clear H. unfold mk_hout, add4; cbn.
  split; [reflexivity|].
  split; [destruct (is_conn_01 p1), (is_conn_01 p'); lia|]. split; [reflexivity|].
  intros Hne. assert (Hlt : is_conn p1 < is_conn p') by lia. destruct (M2 Hlt) as [Hd Hcr].
  exists p'. split.
  - destruct o as [bytes|k bytes|k|k]; cbn [target].
    + rewrite nth_error_app2 by lia. rewrite Nat.sub_diag. reflexivity.
    + destruct Hst as (p & Hn & _). eapply nth_error_set_nth_same; eauto.
    + destruct Hst as (p & Hn & _). eapply nth_error_set_nth_same; eauto.
    + destruct Hst as (p & Hn & _). eapply nth_error_set_nth_same; eauto.
  - split; [|auto]. destruct A as [_ A]. unfold is_conn in Hlt.
    destruct (p_stat p') eqn:Es; try (destruct (p_stat p1); lia).
    + destruct A as [A _]. exact A.
    + exact A.
Qed.

(* A3: whatever a peer did before, once it has closed its socket the server releases everything it held for it:
   the peer's entry is `dead' (closed without a connection, or its connection torn down), and dead peers weigh
   nothing in the accounting of A1 *)
Theorem hs_close_releases cred s k p s' x :
  nth_error (h_peers s) k = Some p -> hs_step cred s (HClose k) = (s', x) ->
  exists p', nth_error (h_peers s') k = Some p' /\ dead p' /\ weight (h_tr s') (p_stat p') = res_zero.
Proof.
  intros Hn H. rewrite hs_step_unfold in H. cbn [prepared] in H. rewrite Hn in H.
  destruct (turns NTURNS _ _ _ _ _ _ _) as [[p' r'] c] eqn:Et.
  inversion H; subst; clear H. cbn [h_peers with_peers target h_tr].
  exists p'. split; [eapply nth_error_set_nth_same; eauto|].
  assert (Hd : dead p').
  { change NTURNS with (S (S 198)) in Et. eapply turns_hup_dead; [|exact Et]. reflexivity. }
  split; [exact Hd|]. destruct Hd as [Hd|Hd]; rewrite Hd; reflexivity.
Qed.

Lemma acct_dead t ps : Forall dead ps -> acct t ps = res_idle.
Proof.
  induction ps as [|p ps IH]; intros H; [reflexivity|]. inversion H; subst. cbn [acct]. rewrite IH by assumption.
  assert (W : weight t (p_stat p) = res_zero) by (destruct H2 as [X|X]; rewrite X; reflexivity).
  rewrite W. reflexivity.
Qed.

(* ... so when every peer that ever connected is gone, the service holds exactly what an idle service holds: its
   listening socket (registered) and its creator's reference - no descriptor, table entry, directory, reference,
   auth record or connection object is left *)
Theorem hs_all_gone_idle cred t h :
  let s := fst (hs_run cred (hs_init t) h) in Forall dead (h_peers s) -> h_res s = res_idle.
Proof.
  intros s Hd. destruct (hs_invariant cred t h) as [Hr _]. fold s in Hr. rewrite Hr. apply acct_dead. exact Hd.
Qed.

(* A4: peers do not influence each other ... *)
Theorem hs_isolation cred s o s' x j :
  hs_step cred s o = (s', x) -> j <> target s o -> (j < length (h_peers s))%nat ->
  nth_error (h_peers s') j = nth_error (h_peers s) j.
Proof.
  intros H Hj Hlen. rewrite hs_step_unfold in H. destruct (prepared s o); [|inversion H; subst; reflexivity].
  destruct (turns _ _ _ _ _ _ _ _) as [[p' r'] c]. inversion H; subst; clear H. cbn [h_peers with_peers].
  destruct o; cbn [target] in *.
  - rewrite nth_error_app1 by exact Hlen. reflexivity.
  - apply nth_error_set_nth_other; exact Hj.
  - apply nth_error_set_nth_other; exact Hj.
  - apply nth_error_set_nth_other; exact Hj.
Qed.

(* ... nor the established connection of a well-behaved client, and nothing a raw peer does makes msg_process run;
   conversely the data path never touches the handshake state *)
Theorem lab_frame vr l o l' hx dx :
  lab_step vr l o = (l', hx, dx) ->
  match o with
  | LHs _ => l_main l' = l_main l /\ dx = None
  | LData _ _ => l_hs l' = l_hs l /\ hx = None
  end.
Proof.
  unfold lab_step. destruct o as [h|d env].
  - destruct (hs_step true (l_hs l) h) as [s' x]. intros H; inversion H; subst. auto.
  - destruct (l_main l) as [m|].
    + destruct (step vr m d env) as [m' x]. intros H; inversion H; subst. auto.
    + intros H; inversion H; subst. auto.
Qed.

(* ---- non-vacuity: a concrete hostile session (24-byte request; id -1 = AUTHENTICATE) ---- *)
Definition ex_valid : list Z := [255;255;255;255; 0;0;0;0; 24;0;0;0; 0;0;0;0; 0;32;0;0; 0;0;0;0]%Z.
Definition ex_session : list hop :=
  [ HNew (firstn 10 ex_valid);            (* peer 0: a truncated request ... *)
    HNew [5;0;0;0; 0;0;0;0; 24;0;0;0; 0;0;0;0; 0;32;0;0; 0;0;0;0]%Z;   (* peer 1: wrong id: closed at once *)
    HApp 0 (skipn 10 ex_valid ++ [7;7;7]%Z);  (* ... completed later, followed by garbage: accepted *)
    HNew [];                              (* peer 2: connects and says nothing *)
    HNew (firstn 23 ex_valid);            (* peer 3: one byte short *)
    HShut 3;                              (* ... and end of stream *)
    HClose 2; HClose 0; HClose 1; HClose 3 ].

Example ex_session_result :
  let r := hs_run true (hs_init SHM) ex_session in
  map (fun x => match x with Some x => (ho_sock x, ho_accept x, ho_closed x) | None => (9, 9, 9) end) (snd r) =
    [(0, 0, 0); (-1, 0, 0); (1, 1, 0); (0, 0, 0); (0, 0, 0); (-1, 0, 0); (-1, 0, 0); (1, 0, 1); (-1, 0, 0); (-1, 0, 0)]%Z /\
  h_res (fst r) = res_idle /\ Forall dead (h_peers (fst r)).
Proof.
  vm_compute. split; [reflexivity|]. split; [reflexivity|].
  repeat (apply Forall_cons; [unfold dead; cbn; auto|]). apply Forall_nil.
Qed.

(* ================================================================= Part A, functional characterisation:
   what becomes of a peer depends only on the bytes it sent, not on how the stream was cut into pieces nor on when the
   server looked: fewer than a request -> still pending with exactly those bytes buffered; a complete request with
   the AUTHENTICATE id in front -> a connection with the requested buffer size; anything else -> closed. *)
Local Open Scope nat_scope.

Definition quiet (k : ksock) : Prop := k_eof k = false /\ k_hup k = false.

Definition classify (enf : Z) (b : list Z) : pstat :=
  if length b <? LEN then PPending b
  else if (req_id (firstn LEN b) =? IPC_MSG_AUTHENTICATE)%Z then PConn (Z.max (req_max (firstn LEN b)) enf)
  else PClosed.

Lemma firstn_app_long {A} (l1 l2 : list A) n : n <= length l1 -> firstn n (l1 ++ l2) = firstn n l1.
Proof. intros H. rewrite firstn_app. replace (n - length l1) with 0 by lia. cbn [firstn]. apply app_nil_r. Qed.

Lemma process_auth_quiet got k o k' :
  chunks_ok k -> length got < LEN -> quiet k -> process_auth false true got k = (o, k') ->
  quiet k' /\ chunks_ok k' /\
  match o with
  | PaStay got' => got' = got ++ unread k /\ k_chunks k' = [] /\ length got' < LEN
  | PaHand req => req = firstn LEN (got ++ unread k) /\ LEN <= length (got ++ unread k) /\
                  req_id req = IPC_MSG_AUTHENTICATE /\ req ++ unread k' = got ++ unread k
  | PaClose _ => LEN <= length (got ++ unread k) /\ req_id (firstn LEN (got ++ unread k)) <> IPC_MSG_AUTHENTICATE
  end.
Proof.
  intros Hc Hl [He Hh] H. unfold process_auth in H. rewrite Hh in H.
  unfold pollin in H. destruct (k_chunks k) as [|c rest] eqn:Ek.
  - rewrite He in H. cbn [negb] in H. inversion H; subst. split; [split; assumption|]. split; [exact Hc|].
    unfold unread. rewrite Ek. cbn [concat]. rewrite app_nil_r. auto.
  - cbn [negb] in H. destruct (recv_msghdr (S LEN) got k) as [[r got'] k1] eqn:Er.
    apply recv_msghdr_spec in Er; [|exact Hc|exact Hl|lia].
    destruct Er as (A & B & C & D & E & F & G & I1 & I2).
    assert (Hq : quiet k1) by (split; congruence).
    destruct r.
    + specialize (F eq_refl). cbn [negb] in H.
      assert (Hf : firstn LEN (got ++ unread k) = got').
      { rewrite <- E. rewrite <- F. rewrite firstn_app_long by lia. apply firstn_all. }
      assert (Hlen : LEN <= length (got ++ unread k)).
      { rewrite <- E. rewrite app_length. lia. }
      destruct (req_id got' =? IPC_MSG_AUTHENTICATE)%Z eqn:Ei; inversion H; subst o k'.
      * apply Z.eqb_eq in Ei. split; [exact Hq|]. split; [exact B|]. repeat split; auto.
      * apply Z.eqb_neq in Ei. split; [exact Hq|]. split; [exact B|]. rewrite Hf. auto.
    + inversion H; subst o k'. destruct (I1 eq_refl) as [X _]. split; [exact Hq|]. split; [exact B|].
      assert (Hu : unread k1 = []) by (unfold unread; rewrite X; reflexivity).
      rewrite Hu, app_nil_r in E. split; [exact E|]. split; [exact X|]. apply G. discriminate.
    + destruct (I2 e eq_refl) as [_ X]. congruence.
    + congruence.
Qed.

(* a pending peer whose socket is drained and quiet is left alone; a quiet connection stays a connection *)
Lemma turn_pending_stable t enf p r got :
  p_stat p = PPending got -> k_chunks (p_sock p) = [] -> quiet (p_sock p) ->
  peer_turn t enf false true p r = (p, r, (0, 0, 0, 0)%Z).
Proof.
  intros Hs Hk [He Hh]. unfold peer_turn. rewrite Hs. unfold process_auth. rewrite Hh. unfold pollin. rewrite Hk, He.
  cbn [negb]. destruct p as [st k sent]; cbn in *. subst st. reflexivity.
Qed.

Lemma turns_pending_stable n t enf : forall p r acc got,
  p_stat p = PPending got -> k_chunks (p_sock p) = [] -> quiet (p_sock p) ->
  turns n t enf false true p r acc = (p, r, acc).
Proof.
  induction n as [|n IH]; intros p r acc got Hs Hk Hq; cbn [turns]; [reflexivity|].
  rewrite (turn_pending_stable _ _ _ _ _ Hs Hk Hq). rewrite (IH _ _ _ _ Hs Hk Hq).
  destruct acc as [[[a b] c] d]. unfold add4. repeat rewrite Z.add_0_r. reflexivity.
Qed.

Lemma turn_conn_quiet t enf p r mx p' r' c :
  p_stat p = PConn mx -> quiet (p_sock p) -> peer_turn t enf false true p r = (p', r', c) ->
  p_stat p' = PConn mx /\ quiet (p_sock p') /\ p_sent p' = p_sent p.
Proof.
  intros Hs [He Hh] H. unfold peer_turn in H. rewrite Hs in H. rewrite Hh, He in H. cbn [orb andb] in H.
  destruct t; destruct (k_chunks (p_sock p)); inversion H; subst; cbn; unfold quiet; cbn; auto.
Qed.

Lemma turns_conn_quiet n t enf : forall p r acc mx p' r' acc',
  p_stat p = PConn mx -> quiet (p_sock p) -> turns n t enf false true p r acc = (p', r', acc') ->
  p_stat p' = PConn mx /\ quiet (p_sock p') /\ p_sent p' = p_sent p.
Proof.
  induction n as [|n IH]; intros p r acc mx p' r' acc' Hs Hq H; cbn [turns] in H.
  - inversion H; subst. auto.
  - destruct (peer_turn t enf false true p r) as [[p1 r1] c1] eqn:Et.
    destruct (turn_conn_quiet _ _ _ _ _ _ _ _ Hs Hq Et) as (A & B & C).
    destruct (IH _ _ _ _ _ _ _ A B H) as (A' & B' & C'). split; [exact A'|]. split; [exact B'|]. congruence.
Qed.

Lemma classify_pending enf b : length b < LEN -> classify enf b = PPending b.
Proof. intros H. unfold classify. apply Nat.ltb_lt in H. rewrite H. reflexivity. Qed.

Lemma classify_long enf b c : LEN <= length b -> classify enf (b ++ c) = classify enf b.
Proof.
  intros H. unfold classify. rewrite app_length.
  assert (H1 : (length b + length c <? LEN) = false) by (apply Nat.ltb_ge; lia).
  assert (H2 : (length b <? LEN) = false) by (apply Nat.ltb_ge; lia).
  rewrite H1, H2. rewrite firstn_app_long by exact H. reflexivity.
Qed.

(* a peer that has just arrived, or is pending with everything it sent either buffered or still unread, is - after one
   more look than it takes to accept it - exactly what its byte stream says *)
Lemma turns_classify_pending n t enf p r acc got p' r' acc' :
  peer_ok enf p -> quiet (p_sock p) -> p_stat p = PPending got ->
  turns (S n) t enf false true p r acc = (p', r', acc') ->
  p_stat p' = classify enf (p_sent p) /\ quiet (p_sock p') /\ p_sent p' = p_sent p /\
  (forall g, p_stat p' = PPending g -> k_chunks (p_sock p') = []).
Proof.
  intros [Hc Hs] Hq Hst H. rewrite Hst in Hs. destruct Hs as [Hl Hcat].
  cbn [turns] in H. destruct (peer_turn t enf false true p r) as [[p1 r1] c1] eqn:Et.
  unfold peer_turn in Et. rewrite Hst in Et.
  destruct (process_auth false true got (p_sock p)) as [o k1] eqn:Ep.
  apply process_auth_quiet in Ep; [|exact Hc|exact Hl|exact Hq]. destruct Ep as (Q1 & C1 & Ho).
  destruct o as [got'|e|req]; inversion Et; subst p1 r1 c1; clear Et.
  - destruct Ho as (Hg & Hk & Hl'). rewrite Hcat in Hg. subst got'.
    erewrite turns_pending_stable in H; [|reflexivity|exact Hk|exact Q1].
    inversion H; subst. cbn. rewrite classify_pending by exact Hl'. repeat split; auto; apply Q1.
  - destruct Ho as (Hlen & Hid). rewrite Hcat in *.
    rewrite turns_dead in H by (left; reflexivity). inversion H; subst. cbn.
    split.
    + unfold classify. assert (X : (length (p_sent p) <? LEN) = false) by (apply Nat.ltb_ge; lia). rewrite X.
      apply Z.eqb_neq in Hid. rewrite Hid. reflexivity.
    + repeat split; try apply Q1. intros g Hg. discriminate Hg.
  - destruct Ho as (Hreq & Hlen & Hid & _). rewrite Hcat in *.
    eapply turns_conn_quiet in H; [|reflexivity|exact Q1]. destruct H as (A & B & C). cbn in C.
    split.
    + rewrite A. unfold classify. assert (X : (length (p_sent p) <? LEN) = false) by (apply Nat.ltb_ge; lia). rewrite X.
      rewrite <- Hreq. apply Z.eqb_eq in Hid. rewrite Hid. reflexivity.
    + split; [exact B|]. split; [exact C|]. intros g Hg. congruence.
Qed.

Lemma turns_S n t enf down cred p r acc :
  turns (S n) t enf down cred p r acc =
  let '(p', r', c) := peer_turn t enf down cred p r in turns n t enf down cred p' r' (add4 acc c).
Proof. reflexivity. Qed.

Lemma turns_classify_arrived n t enf p r acc p' r' acc' :
  peer_ok enf p -> quiet (p_sock p) -> p_stat p = PArrived ->
  turns (S (S n)) t enf false true p r acc = (p', r', acc') ->
  p_stat p' = classify enf (p_sent p) /\ quiet (p_sock p') /\ p_sent p' = p_sent p /\
  (forall g, p_stat p' = PPending g -> k_chunks (p_sock p') = []).
Proof.
  intros Hok Hq Hst H. rewrite turns_S in H.
  destruct (peer_turn t enf false true p r) as [[p1 r1] c1] eqn:Et.
  pose proof (peer_turn_spec _ _ _ _ _ _ _ _ _ Hok Et) as (A & B & C & D & _).
  unfold peer_turn in Et. rewrite Hst in Et. inversion Et; subst p1 r1 c1; clear Et.
  eapply turns_classify_pending in H; [|exact A|exact Hq|reflexivity]. exact H.
Qed.

(* one peer, its stream delivered in any pieces c0, c1, c2, ...: the outcome is the classification of the whole stream *)
Definition one_peer_ok (s : hsvc) (b : list Z) : Prop :=
  exists p, h_peers s = [p] /\ peer_ok (h_enforced s) p /\ quiet (p_sock p) /\ h_down s = false /\
            p_stat p = classify (h_enforced s) b /\
            (p_stat p <> PClosed -> b = p_sent p) /\ (p_stat p = PClosed -> LEN <= length b) /\
            (forall g, p_stat p = PPending g -> k_chunks (p_sock p) = []).

Lemma classify_not_arrived enf b : classify enf b <> PArrived /\ classify enf b <> PGone.
Proof. unfold classify. destruct (length b <? LEN); [split; discriminate|]. destruct (_ =? _)%Z; split; discriminate. Qed.

Lemma k_push_quiet k c : quiet k -> quiet (k_push k c).
Proof. intros H. unfold k_push. destruct c; [exact H|exact H]. Qed.

Lemma classify_closed_len enf b : classify enf b = PClosed -> LEN <= length b.
Proof.
  unfold classify. destruct (length b <? LEN) eqn:E; [discriminate|]. intros _. apply Nat.ltb_ge in E. exact E.
Qed.

Lemma one_peer_app s b c s' x :
  one_peer_ok s b -> hs_step true s (HApp 0 c) = (s', x) -> one_peer_ok s' (b ++ c).
Proof.
  intros (p & Hp & Hok & Hq & Hd & Hst & Hb & Hcl & Hdr) H.
  assert (Hall : Forall (peer_ok (h_enforced s)) (h_peers s)) by (rewrite Hp; constructor; [exact Hok|constructor]).
  rewrite hs_step_unfold in H.
  destruct (prepared s (HApp 0 c)) as [p1|] eqn:Ep;
    [|cbn [prepared] in Ep; rewrite Hp in Ep; cbn [nth_error] in Ep; discriminate Ep].
  destruct (prepared_ok _ _ _ Hall Ep) as [Hp1 _].
  destruct (turns NTURNS (h_tr s) (h_enforced s) (h_down s) true p1 (h_res s) (0, 0, 0, 0)%Z) as [[p' r'] cc] eqn:Et.
  pose proof (turns_spec _ _ _ _ _ _ _ _ _ _ _ Hp1 Et) as (A & B & _).
  inversion H; subst s' x; clear H. rewrite Hd in Et.
  cbn [prepared] in Ep. rewrite Hp in Ep. cbn [nth_error] in Ep. inversion Ep as [Ep1]; clear Ep.
  unfold one_peer_ok. cbn [h_peers with_peers h_enforced h_down target]. rewrite Hp. cbn [set_nth].
  exists p'. split; [reflexivity|]. split; [exact A|].
  destruct (p_stat p) as [|l| |mx|] eqn:Es.
  - exfalso. destruct (classify_not_arrived (h_enforced s) b) as [X _]. congruence.
  - assert (Hb' : b = p_sent p) by (apply Hb; discriminate).
    change NTURNS with (S 199) in Et. rewrite <- Ep1 in Et.
    eapply turns_classify_pending in Et;
      [| rewrite Ep1; exact Hp1 | cbn [p_sock]; apply k_push_quiet; exact Hq | reflexivity ].
    cbn [p_sent] in Et. destruct Et as (E1 & E2 & E3 & E4). rewrite <- Hb' in E1, E3.
    split; [exact E2|]. split; [exact Hd|]. split; [exact E1|]. split; [intros _; symmetry; exact E3|].
    split; [intros X; apply (classify_closed_len (h_enforced s)); congruence|exact E4].
  - rewrite <- Ep1 in Et. rewrite turns_dead in Et by (left; exact Es). inversion Et; subst p' r' cc.
    specialize (Hcl eq_refl). rewrite classify_long by exact Hcl.
    split; [exact Hq|]. split; [exact Hd|]. split; [congruence|]. split; [intros X; congruence|].
    split; [intros _; rewrite app_length; lia|intros g X; congruence].
  - assert (Hb' : b = p_sent p) by (apply Hb; discriminate).
    rewrite <- Ep1 in Et.
    eapply turns_conn_quiet in Et; [| reflexivity | cbn [p_sock]; apply k_push_quiet; exact Hq ].
    cbn [p_sent] in Et. destruct Et as (E1 & E2 & E3).
    destruct Hok as [_ Hs]. rewrite Es in Hs. destruct Hs as [[Hlen _] _].
    rewrite classify_long by (rewrite Hb'; exact Hlen).
    split; [exact E2|]. split; [exact Hd|]. split; [congruence|]. split; [intros _; rewrite E3, Hb'; reflexivity|].
    split; [intros X; congruence|intros g X; congruence].
  - exfalso. destruct (classify_not_arrived (h_enforced s) b) as [_ X]. congruence.
Qed.

Lemma one_peer_new t c0 s' x :
  hs_step true (hs_init t) (HNew c0) = (s', x) -> one_peer_ok s' c0.
Proof.
  intros H. rewrite hs_step_unfold in H. cbn [prepared] in H.
  set (p1 := {| p_stat := PArrived; p_sock := k_push k_empty c0; p_sent := c0 |}) in *.
  assert (Hp1 : peer_ok 0 p1).
  { unfold peer_ok; cbn. destruct (k_push_ok k_empty c0) as [A B]; [constructor|]. split; [exact A|]. rewrite B. reflexivity. }
  assert (Hq1 : quiet (p_sock p1)) by (cbn; apply k_push_quiet; split; reflexivity).
  cbn [hs_init h_tr h_enforced h_down h_res h_peers] in H.
  destruct (turns NTURNS t 0%Z false true p1 res_idle (0, 0, 0, 0)%Z) as [[p' r'] cc] eqn:Et.
  pose proof (turns_spec _ _ _ _ _ _ _ _ _ _ _ Hp1 Et) as (A & B & _).
  inversion H; subst s' x; clear H.
  change NTURNS with (S (S 198)) in Et.
  eapply turns_classify_arrived in Et; [|exact Hp1|exact Hq1|reflexivity]. destruct Et as (E1 & E2 & E3 & E4).
  subst p1. cbn [p_sent p_sock] in *.
  unfold one_peer_ok. cbn [h_peers with_peers h_enforced h_down app].
  exists p'. split; [reflexivity|]. split; [exact A|]. split; [exact E2|]. split; [reflexivity|].
  split; [exact E1|]. split; [intros _; symmetry; exact E3|].
  split; [intros X; apply (classify_closed_len 0%Z); congruence|exact E4].
Qed.

Lemma hs_run_enforced cred : forall h s, h_enforced (fst (hs_run cred s h)) = h_enforced s.
Proof.
  induction h as [|o h IH]; intros s; cbn [hs_run]; [reflexivity|].
  destruct (hs_step cred s o) as [s1 x] eqn:E1. destruct (hs_run cred s1 h) as [s2 xs] eqn:E2. cbn.
  apply hs_step_fixed_fields in E1. specialize (IH s1). rewrite E2 in IH. cbn in IH. rewrite IH. apply E1.
Qed.

Lemma one_peer_run cs : forall s b,
  one_peer_ok s b -> one_peer_ok (fst (hs_run true s (map (HApp 0) cs))) (b ++ concat cs).
Proof.
  induction cs as [|c cs IH]; intros s b H; cbn [map hs_run concat].
  - rewrite app_nil_r. exact H.
  - destruct (hs_step true s (HApp 0 c)) as [s1 x] eqn:E1.
    destruct (hs_run true s1 (map (HApp 0) cs)) as [s2 xs] eqn:E2. cbn [fst].
    pose proof (one_peer_app _ _ _ _ _ H E1) as H1. specialize (IH s1 (b ++ c) H1). rewrite E2 in IH. cbn [fst] in IH.
    rewrite <- app_assoc in IH. exact IH.
Qed.

(* the theorem: for EVERY way of cutting a byte stream into pieces c0, c1, ..., cn (delivered with a look of the server
   after each piece), the peer ends up as the classification of the whole stream says *)
Theorem handshake_outcome_by_stream t c0 cs :
  let s := fst (hs_run true (hs_init t) (HNew c0 :: map (HApp 0) cs)) in
  exists p, h_peers s = [p] /\ p_stat p = classify 0 (concat (c0 :: cs)).
Proof.
  cbn [hs_run]. destruct (hs_step true (hs_init t) (HNew c0)) as [s1 x1] eqn:E1.
  destruct (hs_run true s1 (map (HApp 0) cs)) as [s2 xs] eqn:E2. cbn [fst].
  pose proof (hs_step_fixed_fields _ _ _ _ _ E1) as (_ & F2 & _). cbn in F2.
  apply one_peer_new in E1. apply (one_peer_run cs) in E1. rewrite E2 in E1. cbn [fst] in E1.
  pose proof (hs_run_enforced true (map (HApp 0) cs) s1) as F3. rewrite E2 in F3. cbn [fst] in F3.
  destruct E1 as (p & Hp & _ & _ & _ & Hst & _). exists p. split; [exact Hp|].
  rewrite Hst. rewrite F3, F2. reflexivity.
Qed.

(* corollary: two ways of cutting the same stream give the same outcome *)
Corollary handshake_chunking_irrelevant t c0 cs d0 ds :
  concat (c0 :: cs) = concat (d0 :: ds) ->
  map p_stat (h_peers (fst (hs_run true (hs_init t) (HNew c0 :: map (HApp 0) cs)))) =
  map p_stat (h_peers (fst (hs_run true (hs_init t) (HNew d0 :: map (HApp 0) ds)))).
Proof.
  intros H. destruct (handshake_outcome_by_stream t c0 cs) as (p & Hp & Hs).
  destruct (handshake_outcome_by_stream t d0 ds) as (q & Hq & Ht).
  rewrite Hp, Hq. cbn [map]. rewrite Hs, Ht, H. reflexivity.
Qed.

Example classify_examples :
  classify 0 (firstn 23 ex_valid) = PPending (firstn 23 ex_valid) /\
  classify 0 (ex_valid ++ [1; 2; 3]%Z) = PConn 8192 /\
  classify 0 (5%Z :: tl ex_valid) = PClosed.
Proof. vm_compute. auto. Qed.

(* ---- end of stream without close (the peer shuts down its sending side): the handshake is decided at once ---- *)
Definition decided (p : peer) : Prop :=
  p_stat p = PClosed \/ (exists mx, p_stat p = PConn mx) \/ p_stat p = PGone.

Lemma process_auth_eof down cred got k o k' :
  chunks_ok k -> length got < LEN -> k_eof k = true -> process_auth down cred got k = (o, k') ->
  k_eof k' = true /\ match o with PaStay _ => False | _ => True end.
Proof.
  intros Hc Hl He H. unfold process_auth in H.
  destruct down; [inversion H; subst; auto|].
  destruct (k_hup k); [inversion H; subst; auto|].
  assert (Hp : pollin k = true) by (unfold pollin; destruct (k_chunks k); auto).
  rewrite Hp in H. cbn [negb] in H.
  destruct (recv_msghdr (S LEN) got k) as [[r got'] k1] eqn:Er.
  apply recv_msghdr_spec in Er; [|exact Hc|exact Hl|lia].
  destruct Er as (A & B & C & D & E & F & G & I1 & I2).
  assert (He1 : k_eof k1 = true) by congruence.
  destruct r.
  - destruct cred; cbn [negb] in H; [|inversion H; subst; auto].
    destruct (req_id got' =? IPC_MSG_AUTHENTICATE)%Z; inversion H; subst; auto.
  - destruct (I1 eq_refl) as [_ X]. congruence.
  - inversion H; subst; auto.
  - congruence.
Qed.

Lemma decided_turn t enf down cred p r p' r' c :
  decided p -> peer_turn t enf down cred p r = (p', r', c) -> decided p'.
Proof.
  intros Hd H. unfold peer_turn in H. destruct Hd as [Hd|[[mx Hd]|Hd]]; rewrite Hd in H.
  - inversion H; subst. left; exact Hd.
  - destruct (k_hup (p_sock p) || (k_eof (p_sock p) && match k_chunks (p_sock p) with [] => true | _ => false end)).
    + inversion H; subst. right; right; reflexivity.
    + destruct t; destruct (k_chunks (p_sock p)); inversion H; subst; right; left; exists mx; reflexivity.
  - inversion H; subst. right; right; exact Hd.
Qed.

Lemma decided_turns n t enf down cred : forall p r acc p' r' acc',
  decided p -> turns n t enf down cred p r acc = (p', r', acc') -> decided p'.
Proof.
  induction n as [|n IH]; intros p r acc p' r' acc' Hd H; cbn [turns] in H.
  - inversion H; subst. exact Hd.
  - destruct (peer_turn t enf down cred p r) as [[p1 r1] c1] eqn:Et.
    eapply IH; [|exact H]. eapply decided_turn; eauto.
Qed.

Lemma turn_eof t enf down cred p r p' r' c :
  peer_ok enf p -> k_eof (p_sock p) = true -> peer_turn t enf down cred p r = (p', r', c) ->
  k_eof (p_sock p') = true /\ (p_stat p = PArrived \/ decided p') /\
  (p_stat p = PArrived -> exists got, p_stat p' = PPending got).
Proof.
  intros Hok He H. pose proof (peer_turn_spec _ _ _ _ _ _ _ _ _ Hok H) as (_ & _ & _ & D & _).
  split; [congruence|]. destruct Hok as [Hc Hs]. pose proof H as H0.
  unfold peer_turn in H. destruct (p_stat p) as [|got| |mx|] eqn:Es.
  - inversion H; subst; cbn. split; [left; reflexivity|]. intros _. eexists; reflexivity.
  - destruct Hs as [Hl _]. destruct (process_auth down cred got (p_sock p)) as [o k1] eqn:Ep.
    apply process_auth_eof in Ep; [|exact Hc|exact Hl|exact He]. destruct Ep as [_ Ho].
    destruct o as [g|e|req]; [contradiction| |]; inversion H; subst; cbn.
    + split; [right; left; reflexivity|intros X; discriminate X].
    + split; [right; right; left; eexists; reflexivity|intros X; discriminate X].
  - inversion H; subst. split; [right; left; exact Es|intros X; discriminate X].
  - split; [right|intros X; discriminate X].
    eapply decided_turn; [|exact H0]. right; left; exists mx; exact Es.
  - inversion H; subst. split; [right; right; right; exact Es|intros X; discriminate X].
Qed.

(* A3': whatever a peer did before, once it has ended its stream no auth record is left waiting: the handshake is
   decided (closed, or a connection) *)
Theorem hs_shut_decides cred s k p s' x :
  Inv_hs s -> nth_error (h_peers s) k = Some p -> hs_step cred s (HShut k) = (s', x) ->
  exists p', nth_error (h_peers s') k = Some p' /\ decided p' /\ r_auths (weight (h_tr s') (p_stat p')) = 0%Z.
Proof.
  intros [_ Hall] Hn H. rewrite hs_step_unfold in H.
  destruct (prepared s (HShut k)) as [p1|] eqn:Ep; [|cbn [prepared] in Ep; rewrite Hn in Ep; discriminate Ep].
  destruct (prepared_ok _ _ _ Hall Ep) as [Hp1 _].
  cbn [prepared] in Ep. rewrite Hn in Ep. inversion Ep as [Ep1]; clear Ep.
  destruct (turns NTURNS _ _ _ _ _ _ _) as [[p' r'] cc] eqn:Et.
  inversion H; subst s' x; clear H. cbn [h_peers with_peers target h_tr].
  exists p'. split; [eapply nth_error_set_nth_same; eauto|].
  assert (He : k_eof (p_sock p1) = true) by (rewrite <- Ep1; reflexivity).
  assert (Hd : decided p').
  { change NTURNS with (S (S 198)) in Et. rewrite turns_S in Et.
    destruct (peer_turn (h_tr s) (h_enforced s) (h_down s) cred p1 (h_res s)) as [[q1 r1] c1] eqn:E1.
    pose proof (peer_turn_spec _ _ _ _ _ _ _ _ _ Hp1 E1) as (Hq1 & _).
    pose proof (turn_eof _ _ _ _ _ _ _ _ _ Hp1 He E1) as (He1 & D1 & A1).
    rewrite turns_S in Et.
    destruct (peer_turn (h_tr s) (h_enforced s) (h_down s) cred q1 r1) as [[q2 r2] c2] eqn:E2.
    pose proof (turn_eof _ _ _ _ _ _ _ _ _ Hq1 He1 E2) as (He2 & D2 & A2).
    assert (Hd2 : decided q2).
    { destruct D2 as [Ha|Hd]; [|exact Hd]. destruct D1 as [Ha1|Hd1].
      - destruct (A1 Ha1) as [got Hg]. congruence.
      - destruct Hd1 as [X|[[mx X]|X]]; congruence. }
    eapply decided_turns; [exact Hd2|exact Et]. }
  split; [exact Hd|]. destruct Hd as [X|[[mx X]|X]]; rewrite X; reflexivity.
Qed.
