(* C04 - the remaining entry points: connection iteration, qb_ipcs_destroy, qb_ipcs_request_rate_limit,
   handle_new_connection, the application's actions (fixed variant). *)
Require Import ZArith List Bool Lia.
Require Import Verif.IpcLifeModel Verif.IpcLifeProofs Verif.IpcLifeProofs2 Verif.IpcLifeProofs3.
Import ListNotations.
Open Scope Z_scope.

Lemma CI_h_nonneg : forall h j d nj inl x, CI h j d nj inl x -> 0 <= h.
Proof. unfold CI; intros; tauto. Qed.
Lemma CI_fc : forall h j d nj inl x v, CI h j d nj inl x -> CI h j d nj inl (w_fc v x).
Proof. intros. ci x. Qed.
Lemma CI_uref_ref : forall h j d nj inl x, CI h j d nj inl x -> live x ->
  CI h j d nj inl (w_rc (c_rc x + 1) (w_uref (c_uref x + 1) x)).
Proof. intros. ci x. Qed.

Lemma logit_GI : forall H J (D : dctx) e w, GI H J D w -> GI H J D (logit e w).
Proof. intros. eapply GI_ext; [|exact H0]. frame. Qed.

Lemma CI_live_state_rc : forall h j d nj inl x, CI (h + 1) j d nj inl x -> 0 <= h ->
  (c_st x = ACTIVE \/ c_st x = ESTABLISHED) -> c_alloc x = true /\ 1 <= c_rc x /\ c_rc x - 1 <> 0.
Proof. intros. ci x. Qed.

Section More.
  Variable cb : kind -> nat -> world -> R.
  Hypothesis Hcb : cb_ok cb.

  (* conn_unref when the count does not reach zero is a plain decrement *)
  Lemma unref_nz : forall c w,
    c_alloc (conns w c) = true -> 1 <= c_rc (conns w c) -> c_rc (conns w c) - 1 <> 0 ->
    conn_unref cb c w = Ok (put c (w_rc (c_rc (conns w c) - 1) (conns w c)) w) 0.
  Proof.
    intros c w Ha Hr Hn. unfold conn_unref, chk. rewrite Ha.
    destruct (c_rc (conns w c) <? 1) eqn:E1; [apply Z.ltb_lt in E1; lia|].
    destruct (c_rc (conns w c) - 1 =? 0) eqn:E2; [apply Z.eqb_eq in E2; lia|]. reflexivity.
  Qed.

  Definition got (H J : nat -> Z) (D : dctx) (w : world) (z : Z) : Prop :=
    (z = -1 /\ GI H J D w) \/ (exists n, z = Z.of_nat n /\ GI (addf H n 1) J D w /\ 0 <= H n).

  Lemma first_get_ok : forall H J (D : dctx) w, GI H J D w -> s_alloc w = true -> safe (got H J D) (first_get w).
  Proof.
    intros H J D w G Sv. unfold first_get. apply safe_chks; auto.
    destruct (s_list w) as [|c t] eqn:El; simpl.
    - left; auto.
    - pose proof G as (A & _ & _). pose proof (A c) as Ac.
      assert (M : mem_id c (s_list w) = true) by (rewrite El; simpl; rewrite Nat.eqb_refl; auto).
      rewrite M in Ac. assert (L : live (conns w c)) by (eapply CI_inl_live; eauto).
      apply safe_bind. eapply safe_mono; [| apply ref_ok; eauto].
      intros w1 z1 G1. simpl. right. exists c.
      split; [reflexivity | split; [exact G1 | eapply CI_h_nonneg; exact Ac]].
  Qed.

  Lemma next_get_ok : forall H J (D : dctx) c w, GI H J D w -> 1 <= H c ->
    safe (fun w' z => got H J D w' z /\ (forall n, z = Z.of_nat n -> (n < c)%nat)) (next_get c w).
  Proof.
    intros H J D c w G Hh. pose proof G as (A & B & _). unfold next_get.
    assert (Al : c_alloc (conns w c) = true).
    { eapply CI_live_alloc; [apply (A c)|]. eapply CI_h_live; [apply (A c)|]; auto. }
    apply safe_chk; auto.
    apply safe_chks; [apply (GI_svc_alive _ _ _ _ c G Al)|]. destruct (succ_of c (s_list w)) as [n|] eqn:Es; simpl.
    - destruct (succ_of_lt _ _ _ (proj1 B) Es) as (Lt & In).
      apply mem_In in In. pose proof (A n) as An. rewrite In in An.
      assert (L : live (conns w n)) by (eapply CI_inl_live; eauto).
      apply safe_bind. eapply safe_mono; [| apply ref_ok; eauto].
      intros w1 z1 G1. simpl. split.
      + right. exists n. split; [reflexivity | split; [exact G1 | eapply CI_h_nonneg; exact An]].
      + intros m Em. apply Nat2Z.inj in Em. subst; auto.
    - split. left; auto. intros n En. lia.
  Qed.

  Lemma addf_comm_GI : forall H J (D : dctx) a b w, GI (addf (addf H a 1) b 1) J D w -> GI (addf (addf H b 1) a 1) J D w.
  Proof.
    intros. eapply GI_ctx; [| | exact H0]; auto. intros i. repeat split; auto.
    unfold addf. destruct (Nat.eqb i a), (Nat.eqb i b); lia.
  Qed.

  (* the reference-holding list walk (application iteration, qb_ipcs_destroy) *)
  Lemma walk_ok : forall fuel lg disc H J (D : dctx) c w,
    GI (addf H c 1) J D w -> 0 <= H c -> (c < fuel)%nat ->
    safe (fun w' _ => GI H J D w') (walk true cb lg disc fuel c w).
  Proof.
    induction fuel; intros lg disc H J D c w G H0 Hf; [lia|]. simpl.
    assert (Hh : 1 <= addf H c 1 c) by (rewrite addf_same; lia).
    set (w0 := if lg then logit (EIt c) w else w).
    assert (G0 : GI (addf H c 1) J D w0) by (unfold w0; destruct lg; auto; apply logit_GI; auto).
    apply safe_bind.
    assert (S1 : safe (fun w1 _ => GI (addf H c 1) J D w1) (if disc then disconnect true cb c w0 else Ok w0 0)).
    { destruct disc; simpl; auto. apply disconnect_ok; auto.
      destruct G0 as (A0 & _ & _). eapply CI_h_live; [apply (A0 c)|]; auto. }
    eapply safe_mono; [| exact S1]. intros w1 z1 G1. cbv beta.
    apply safe_bind. eapply safe_mono; [| apply (next_get_ok (addf H c 1) J D c w1); auto].
    intros w2 n ([(-> & G2) | (m & -> & G2 & Hm)] & Lt); cbv beta.
    - apply safe_bind. eapply safe_mono; [| apply (unref_held_ok cb Hcb H J D c w2); [exact G2 | exact H0]].
      intros w3 z3 G3. simpl. auto.
    - pose proof (Lt m eq_refl) as Lm.
      apply addf_comm_GI in G2.
      apply safe_bind. eapply safe_mono; [| apply (unref_held_ok cb Hcb (addf H m 1) J D c w2); auto].
      + intros w3 z3 G3. cbv beta.
        destruct (Z.of_nat m <? 0) eqn:E; [apply Z.ltb_lt in E; lia|].
        rewrite Nat2Z.id. apply IHfuel; auto.
        * rewrite addf_other in Hm by lia. auto.
        * lia.
      + rewrite addf_other by lia. auto.
  Qed.

  Lemma iterate_ok : forall lg disc H J (D : dctx) w,
    GI H J D w -> s_alloc w = true -> safe (fun w' _ => GI H J D w') (iterate true cb lg disc w).
  Proof.
    intros lg disc H J D w G Sv. unfold iterate. apply safe_bind.
    eapply safe_mono; [| apply first_get_ok; eauto].
    intros w1 z [(-> & G1) | (n & -> & G1 & Hn)]; cbv beta.
    - simpl. auto.
    - destruct (Z.of_nat n <? 0) eqn:E; [apply Z.ltb_lt in E; lia|].
      rewrite Nat2Z.id. apply walk_ok; auto.
  Qed.

  (* dropping a held reference on a connected connection never frees it *)
  Lemma unref_held_live_ok : forall H J (D : dctx) c w,
    GI (addf H c 1) J D w -> 0 <= H c ->
    (c_st (conns w c) = ACTIVE \/ c_st (conns w c) = ESTABLISHED) ->
    exists w', conn_unref cb c w = Ok w' 0 /\ GI H J D w' /\ s_list w' = s_list w.
  Proof.
    intros H J D c w G H0 S. pose proof G as (A & _ & _). pose proof (A c) as Ac. rewrite addf_same in Ac.
    destruct (CI_live_state_rc _ _ _ _ _ _ Ac H0 S) as (Q1 & Q2 & Q3).
    pose proof (unref_held_ok cb Hcb H J D c w G H0) as U.
    rewrite (unref_nz c w Q1 Q2 Q3) in *. simpl in U.
    eexists; split; [reflexivity|]. split; auto.
  Qed.

  Lemma fc_step : forall H J (D : dctx) c w newfc,
    let w1 := put c (w_rc (c_rc (conns w c) + 1) (conns w c)) w in
    let w2 := if c_fc (conns w1 c) =? newfc then w1 else put c (w_fc newfc (conns w1 c)) w1 in
    GI (addf H c 1) J D w1 -> c_alloc (conns w c) = true ->
    GI (addf H c 1) J D w2 /\ s_list w2 = s_list w /\ c_st (conns w2 c) = c_st (conns w c) /\ c_alloc (conns w2 c) = true.
  Proof.
    intros H J D c w newfc w1 w2 G1 Al.
    assert (C1 : conns w1 c = w_rc (c_rc (conns w c) + 1) (conns w c)) by (unfold w1; simpl; apply updf_same).
    unfold w2. destruct (c_fc (conns w1 c) =? newfc).
    - split; [|split; [|split]]; auto.
      + rewrite C1. reflexivity.
      + rewrite C1. simpl. auto.
    - split; [|split; [|split]].
      + pose proof G1 as (A1 & _). apply GI_put_same; [exact G1 | apply CI_fc; apply A1 | simpl; tauto | reflexivity].
      + reflexivity.
      + unfold put; cbn [conns set_conns]. rewrite updf_same. cbn [c_st w_fc]. rewrite C1. reflexivity.
      + unfold put; cbn [conns set_conns]. rewrite updf_same. cbn [c_alloc w_fc]. rewrite C1. simpl. auto.
  Qed.

  (* qb_ipcs_request_rate_limit: one connection of the list *)
  Lemma rate_one_ok : forall newfc changed H J (D : dctx) c w,
    GI H J D w -> mem_id c (s_list w) = true ->
    safe (fun w' _ => GI H J D w' /\ s_list w' = s_list w) (rate_one true cb newfc changed c w).
  Proof.
    intros newfc changed H J D c w G M. pose proof G as (A & _ & _). pose proof (A c) as Ac. rewrite M in Ac.
    assert (L : live (conns w c)) by (eapply CI_inl_live; eauto).
    assert (Al : c_alloc (conns w c) = true) by (eapply CI_live_alloc; eauto).
    assert (H0 : 0 <= H c) by (eapply CI_h_nonneg; eauto).
    unfold rate_one. apply safe_chk; auto. cbn [andb].
    destruct (c_st (conns w c)) eqn:S; simpl; auto.
    all: unfold conn_ref, chk; rewrite Al; cbn [bind].
    all: set (w1 := put c (w_rc (c_rc (conns w c) + 1) (conns w c)) w).
    all: assert (G1 : GI (addf H c 1) J D w1)
           by (pose proof (ref_ok H J D c w G L) as R; unfold conn_ref, chk in R; rewrite Al in R; exact R).
    all: assert (Al1 : c_alloc (conns w1 c) = true) by (unfold w1; simpl; rewrite updf_same; simpl; auto).
    all: rewrite Al1.
    all: set (w2 := if c_fc (conns w1 c) =? newfc then w1 else put c (w_fc newfc (conns w1 c)) w1).
    all: assert (G2 : GI (addf H c 1) J D w2 /\ s_list w2 = s_list w /\ c_st (conns w2 c) = c_st (conns w c) /\
                      c_alloc (conns w2 c) = true) by (apply fc_step; auto).
    all: destruct G2 as (G2 & L2 & S2 & Al2).
    all: destruct (unref_held_live_ok H J D c w2 G2 H0) as (w3 & E3 & G3 & L3); [rewrite S2, S; auto|].
    all: destruct changed; [unfold chk; rewrite Al2; apply safe_chks; [apply (GI_svc_alive _ _ _ _ c G2 Al2)|]|]; rewrite E3; simpl; split; auto; congruence.
  Qed.

  Lemma rate_loop_ok : forall newfc changed l H J (D : dctx) w,
    GI H J D w -> (forall c, In c l -> mem_id c (s_list w) = true) ->
    safe (fun w' _ => GI H J D w') (rate_loop true cb newfc changed l w).
  Proof.
    induction l; intros H J D w G M; simpl; auto.
    apply safe_bind. eapply safe_mono; [| apply (rate_one_ok newfc changed H J D a w G); apply M; left; auto].
    intros w1 z1 (G1 & L1). cbv beta. apply IHl; auto. intros c Hc. rewrite L1. apply M. right; auto.
  Qed.

  Lemma rate_limit_ok : forall rl H J (D : dctx) w,
    GI H J D w -> s_alloc w = true -> safe (fun w' _ => GI H J D w') (rate_limit true cb rl w).
  Proof.
    intros rl H J D w G Sv. unfold rate_limit. apply safe_chks; auto.
    apply rate_loop_ok.
    - eapply GI_ext; [| exact G]. frame.
    - intros c Hc. simpl. apply mem_In. auto.
  Qed.

  (* qb_ipcs_destroy: the frame owns the creator's reference until its last statement *)
  Lemma destroy_ok : forall H J (D : dctx) w,
    GI H J D w -> dframe D = false -> s_creator w = true -> destroy_called w = true ->
    safe (fun w' _ => GI H J D w') (destroy true cb w).
  Proof.
    intros H J D w G Df Cr Dc.
    assert (G' : GI H J (setdf D true) w).
    { destruct G as (A & B & C & (S1 & S2 & S3 & S4)). split; [|split; [|split]]; auto.
      split; [|split; [|split]]; auto. }
    unfold destroy. apply safe_chks; [apply (GI_svc_creator _ _ _ _ G Cr)|]. apply safe_bind.
    eapply safe_mono; [| apply (iterate_ok false true H J (setdf D true) w G'); apply (GI_svc_creator _ _ _ _ G Cr)].
    intros w1 z1 G1. cbv beta.
    pose proof G1 as (A1 & B1 & C1 & (S1 & S2 & S3 & S4)). simpl in S4. destruct (S4 eq_refl) as (Cr1 & Dc1).
    assert (Sv1 : s_alloc w1 = true) by (apply (GI_svc_creator _ _ _ _ G1 Cr1)).
    destruct (S1 Sv1) as (R1 & R2). rewrite Cr1 in R2.
    apply safe_chks; auto.
    unfold unref_s. apply safe_chks; auto. cbn [s_rc set_withdrawn set_creator].
    destruct (s_rc w1 <? 1) eqn:E1; [apply Z.ltb_lt in E1; lia|].
    pose proof (nalloc_upto_nonneg (conns w1) (next w1)) as Nn. fold (nalloc w1) in Nn.
    destruct (s_rc w1 - 1 =? 0) eqn:E2; simpl.
    - apply Z.eqb_eq in E2. split; [|split; [|split]]; auto.
      unfold SI; simpl. rewrite Df. unfold nalloc in *; simpl.
      repeat split; intros; try discriminate; auto; try lia; congruence.
    - apply Z.eqb_neq in E2. split; [|split; [|split]]; auto.
      unfold SI; simpl. rewrite Df. unfold nalloc in *; simpl.
      repeat split; intros; try discriminate; auto; try lia; congruence.
  Qed.
End More.
