(* C01 - ring buffer, one writer + one reader: the property theorems.  Statements only; each is closed by `exact`.

   The model (RbConcModel.v) transcribes qb_rb_chunk_write / qb_rb_chunk_read / qb_rb_chunk_peek (+ the consumer's
   in-place copy) / qb_rb_chunk_reclaim of lib/ringbuffer.c as sequences of micro-steps: one per load/store of
   write_pt, read_pt or a data word, one per BYTE of every payload copy, one per semaphore operation.
   `exec sched (init h pw pr)` is the state after an arbitrary schedule `sched : list tid` (every interleaving of
   every length) of an arbitrary writer program `pw` (payloads of any length, accepted or refused) and reader
   program `pr` (read with any buffer size / peek / reclaim, timeout 0 or blocking) on an arbitrary empty ring `h`
   (any word_size W > 0, any position of the two equal pointers, ANY initial memory content, with or without the
   notifier semaphore).
   Ghost logs: g_pub = chunks in the order of their publishing store; g_got = one entry per consumed chunk:
   Some bytes = what the reader's buffer held (read, or peek followed by reclaim), None = reclaimed unseen. *)
From Coq Require Import ZArith List Bool.
Require Import Verif.gen.Consts_rb Verif.gen.Consts_rbconc Verif.RbModel Verif.RbSpec Verif.RbConcModel
  Verif.RbConcProofs Verif.RbConcProofsInv Verif.RbConcProofsTok Verif.RbConcProofsTok2 Verif.RbConcProofsMo
  Verif.RbConcProofsSeq Verif.RbConcProofsEx.
Import ListNotations.
Local Open Scope Z_scope.

(* side conditions on constants regenerated from /repo: the three marker words are pairwise distinct and non-zero,
   the margin is header + 1 words, the memory orders used for the marker are not relaxed *)
Theorem C01_consts_ok :
  RB_CHUNK_MAGIC <> RB_CHUNK_MAGIC_ALLOC /\ RB_CHUNK_MAGIC <> RB_CHUNK_MAGIC_DEAD /\
  RB_CHUNK_MAGIC_ALLOC <> RB_CHUNK_MAGIC_DEAD /\
  0 < RB_CHUNK_MAGIC < two32 /\ 0 < RB_CHUNK_MAGIC_ALLOC < two32 /\ 0 < RB_CHUNK_MAGIC_DEAD < two32 /\
  RB_CHUNK_MARGIN = RB_SIZEOF_WORD * (RB_CHUNK_HEADER_WORDS + 1) /\ RB_CHUNK_HEADER_WORDS = 2 /\
  RBC_MO_ACQUIRE <> RBC_MO_RELAXED /\ RBC_MO_RELEASE <> RBC_MO_RELAXED /\ RBC_MO_ACQUIRE <> RBC_MO_RELEASE /\
  RBC_HDR_WPT_IDX <> RBC_HDR_RPT_IDX.
Proof. exact conc_consts_ok. Qed.
Print Assumptions C01_consts_ok.

(* the invariant (I1..I4 of DESIGN.md C01: the gap, unread chunks intact in memory, the writer's region disjoint
   from them and marked ALLOC until published, the reader's cached values valid, the header killed before read_pt
   moves) is preserved by every micro-step of either thread ... *)
Theorem C01_inv_step : forall t s s' o, Inv s -> step t s = Some (s', o) -> Inv s'.
Proof. exact inv_step. Qed.
Print Assumptions C01_inv_step.

(* ... hence holds after every schedule of every length, for every ring size, programs and payloads *)
Theorem C01_inv_all_schedules : forall h pw pr sched, wf_ring h -> Inv (exec sched (init h pw pr)).
Proof. exact all_inv. Qed.
Print Assumptions C01_inv_all_schedules.

(* FIFO, exactly once, untorn: in every reachable state the consumed chunks are, one for one and in order, the
   first published chunks, byte for byte (an entry None = reclaimed without looking matches any chunk); and the
   error state (access outside the ring; a read whose own reclaim refuses the chunk it has just returned) is
   never reached *)
Theorem C01_fifo_exactly_once_untorn : forall h pw pr sched, wf_ring h ->
  let s := exec sched (init h pw pr) in
  (exists pre rest, g_pub s = pre ++ rest /\ Forall2 gmatch (g_got s) pre) /\ g_err s = false.
Proof. exact all_fifo. Qed.
Print Assumptions C01_fifo_exactly_once_untorn.

(* when every consumed chunk went through the reader's buffer (qb_rb_chunk_read, or peek + reclaim), the sequence
   of buffers IS a prefix of the sequence of published payloads *)
Theorem C01_got_is_prefix_of_pub : forall h pw pr sched, wf_ring h ->
  let s := exec sched (init h pw pr) in
  Forall (fun g => g <> None) (g_got s) -> exists pre rest, g_pub s = pre ++ rest /\ g_got s = map Some pre.
Proof. exact all_prefix. Qed.
Print Assumptions C01_got_is_prefix_of_pub.

(* what the consumer holds after a successful peek (or completed copy) is the oldest unconsumed published chunk *)
Theorem C01_peek_returns_next : forall h pw pr sched, wf_ring h ->
  let s := exec sched (init h pw pr) in
  r_have (g_r s) = true -> nth_error (g_pub s) (length (g_got s)) = Some (r_buf (g_r s)).
Proof. exact all_peeked. Qed.
Print Assumptions C01_peek_returns_next.

(* the VALUES RETURNED by the reader's calls, in terms of the ghost logs: a qb_rb_chunk_read that returns a length
   delivers exactly the oldest unconsumed published chunk (same length, same bytes) and consumes it in that step *)
Theorem C01_read_returns_next_chunk : forall s s' lab v bytes,
  Inv s -> step TR s = Some (s', (lab, Some (v, bytes))) -> 0 <= v -> is_read (rcur (g_r s)) = true ->
  nth_error (g_pub s) (length (g_got s)) = Some bytes /\ v = zlen bytes /\
  g_got s' = g_got s ++ [Some bytes] /\ g_pub s' = g_pub s.
Proof. exact read_return_ok. Qed.
Print Assumptions C01_read_returns_next_chunk.

(* a qb_rb_chunk_peek that returns a positive length shows exactly that chunk and consumes nothing *)
Theorem C01_peek_returns_next_chunk : forall s s' lab v bytes blk,
  Inv s -> step TR s = Some (s', (lab, Some (v, bytes))) -> 0 < v -> rcur (g_r s) = RPeek blk -> r_prog (g_r s) <> [] ->
  nth_error (g_pub s) (length (g_got s)) = Some bytes /\ v = zlen bytes /\
  g_got s' = g_got s /\ g_pub s' = g_pub s.
Proof. exact peek_return_ok. Qed.
Print Assumptions C01_peek_returns_next_chunk.

(* nothing is lost: when both threads are between calls and the pointers are equal, every published chunk has
   been consumed (same number, same bytes) *)
Theorem C01_drain : forall h pw pr sched, wf_ring h ->
  let s := exec sched (init h pw pr) in
  quiescent s = true -> hrpt (g_sh s) = hwpt (g_sh s) ->
  length (g_got s) = length (g_pub s) /\ Forall2 gmatch (g_got s) (g_pub s).
Proof. exact all_drained. Qed.
Print Assumptions C01_drain.

(* no lost wake-up (I5): for reader programs without qb_rb_chunk_peek (a peek takes a token and leaves the chunk),
   whenever both threads are between calls the semaphore holds at least one token per published chunk that has not
   been consumed - in every schedule.  (In general: tokens + the token held inside a read call + the post the
   writer is about to make >= unread chunks: TokInv, preserved by every micro-step.) *)
Theorem C01_no_lost_wakeup : forall h pw pr sched, wf_ring h -> Forall (fun c => is_peek c = false) pr ->
  let s := exec sched (init h pw pr) in
  quiescent s = true ->
  match hsem (g_sh s) with
  | Some c => c >= Z.of_nat (length (g_pub s)) - Z.of_nat (length (g_got s))
  | None => True
  end.
Proof. exact all_tokens. Qed.
Print Assumptions C01_no_lost_wakeup.

Theorem C01_token_step : forall t s s' o, Inv s -> TokInv s -> no_peek (g_r s) -> step t s = Some (s', o) ->
  TokInv s' /\ no_peek (g_r s').
Proof. exact tok_step. Qed.
Print Assumptions C01_token_step.

(* ... and no lost-wake-up deadlock: if the reader is blocked in sem_wait (its step is not enabled although its program
   is not finished) and the writer has nothing left to do, then nothing published is unread *)
Theorem C01_no_lost_wakeup_deadlock : forall h pw pr sched, wf_ring h -> Forall (fun c => is_peek c = false) pr ->
  let s := exec sched (init h pw pr) in
  r_prog (g_r s) <> [] -> step TR s = None -> step TW s = None ->
  length (g_got s) = length (g_pub s).
Proof. exact all_no_deadlock. Qed.
Print Assumptions C01_no_lost_wakeup_deadlock.

(* buffer-full is exact: the admission test of a write (step WRdRpt) is evaluated on the true content of the ring at
   that moment - the write is refused exactly when the unread chunks (+ the gap word) leave less than len + MARGIN
   bytes; in particular an empty ring accepts every len <= 4W - MARGIN *)
Theorem C01_refusal_exact : forall s w1 r, Inv s -> w_pc (g_w s) = WRdRpt w1 -> wstep (g_sh s) (g_w s) = Some r ->
  (s_ret r = Some (- RB_EAGAIN, []) <->
   room_bytes (hW (g_sh s)) (unread s) < zlen (wdata (g_w s)) + RB_CHUNK_MARGIN).
Proof. exact refusal_exact. Qed.
Print Assumptions C01_refusal_exact.

(* buffer-empty is never spurious: while a published chunk is unread, the pointer test and the marker test of
   read / peek / reclaim pass *)
Theorem C01_no_spurious_empty : forall s r, Inv s -> unread s <> [] -> rstep (g_sh s) (g_r s) = Some r ->
  (forall rp, r_pc (g_r s) = RRdWpt rp -> r_pc (s_t r) = RRdMagic rp /\ s_ret r = None) /\
  (forall rp, r_pc (g_r s) = RRdMagic rp -> r_pc (s_t r) = RRdSize rp /\ s_ret r = None) /\
  (forall rp, r_pc (g_r s) = RcRdWpt rp -> r_pc (s_t r) = RcRdMagic rp /\ s_ret r = None) /\
  (forall rp, r_pc (g_r s) = RcRdMagic rp -> r_pc (s_t r) = RcRdSize1 rp /\ s_ret r = None).
Proof. exact no_spurious_empty. Qed.
Print Assumptions C01_no_spurious_empty.

(* a write reports success only by publishing its chunk: the return of the length happens in the publishing step
   itself, or in the sem_post step that is entered only from the publishing step of the same call *)
Theorem C01_success_means_published : forall h t r v l, wstep h t = Some r -> s_ret r = Some (v, l) -> 0 <= v ->
  v = zlen (wdata t) /\ (s_gh r = GPub (wdata t) \/ w_pc t = WPost).
Proof. exact success_published. Qed.
Print Assumptions C01_success_means_published.

Theorem C01_post_follows_publish : forall h t r, wstep h t = Some r -> w_pc (s_t r) = WPost ->
  s_gh r = GPub (wdata t) /\ wdata (s_t r) = wdata t.
Proof. exact post_only_after_publish. Qed.
Print Assumptions C01_post_follows_publish.

(* a write that returns -EAGAIN performed no store: the return comes from the free-space test (second step of the
   call), and neither that step nor the first step of the call changes the shared state or the ghost logs *)
Theorem C01_refusal_pure : forall h t r l, wstep h t = Some r -> s_ret r = Some (- RB_EAGAIN, l) ->
  (exists w1, w_pc t = WRdRpt w1) /\ s_sh r = h /\ s_gh r = GNone /\ s_err r = false.
Proof. exact refusal_from_test. Qed.
Print Assumptions C01_refusal_pure.

Theorem C01_refusal_pure_first_step : forall h t r, wstep h t = Some r -> w_pc t = WCall ->
  s_sh r = h /\ s_ret r = None /\ exists w1, w_pc (s_t r) = WRdRpt w1.
Proof. exact call_first_step. Qed.
Print Assumptions C01_refusal_pure_first_step.

(* the ring that qb_rb_open creates satisfies the hypothesis of the theorems above (its word 0 holds 5) *)
Theorem C01_open_ring_ok : forall S nosem, 0 <= S -> S + RB_CHUNK_MARGIN + RB_SIZE_EXTRA + RB_PAGE_SIZE <= two32 ->
  wf_ring (open_shared S nosem).
Proof. exact open_wf. Qed.
Print Assumptions C01_open_ring_ok.

(* new programs may be given to two idle threads (the harness' sequential prologue, then the concurrent phase) *)
Theorem C01_inv_load : forall s pw pr, Inv s -> quiescent s = true -> Inv (load s pw pr).
Proof. exact inv_load. Qed.
Print Assumptions C01_inv_load.

(* second tie, by proof: the micro-step lists composed sequentially (the other thread idle) ARE the sequential
   model RbModel.v of C07, whose alloc / commit / reclaim / space_free / chunk_step are proved equal to the Gallina text
   regenerated from lib/ringbuffer.c by tools/c2coq.py on every run (PropertiesSrc_C07.v) *)
Theorem C01_seq_write_is_C07_write : forall h d prog kk,
  match wrun (length d + 12) h {| w_prog := WWrite d :: prog; w_k := kk; w_pc := WCall |} with
  | Some (h', t', rc) => write (to_rb h) d = WRet (to_rb h') rc /\ t' = {| w_prog := prog; w_k := kk + 1; w_pc := WCall |}
  | None => False
  end.
Proof. exact seq_write. Qed.
Print Assumptions C01_seq_write_is_C07_write.

Theorem C01_seq_reclaim_is_C07_reclaim : forall h prog kk sz acc buf hv,
  match rrun 9 h {| r_prog := RReclaim :: prog; r_k := kk; r_pc := RCall; r_size := sz; r_acc := acc; r_buf := buf;
                    r_have := hv |} with
  | Some (h', t', rc, b) => to_rb h' = fst (reclaim (to_rb h)) /\ rc = 0 /\ b = [] /\ r_prog t' = prog /\ r_pc t' = RCall
  | None => False
  end.
Proof. exact seq_reclaim. Qed.
Print Assumptions C01_seq_reclaim_is_C07_reclaim.

Theorem C01_seq_read_is_C07_read : forall h n prog kk sz acc buf hv,
  exists fuel,
    match rrun fuel h {| r_prog := RRead n false :: prog; r_k := kk; r_pc := RCall; r_size := sz; r_acc := acc; r_buf := buf;
                         r_have := hv |} with
    | Some (h', t', rc, b) => (to_rb h', rc, b) = read (to_rb h) n /\ r_pc t' = RCall /\ r_prog t' = prog
    | None => False
    end.
Proof. exact seq_read. Qed.
Print Assumptions C01_seq_read_is_C07_read.

Theorem C01_seq_peek_is_C07_peek : forall h prog kk sz acc buf hv,
  exists fuel,
    match rrun fuel h {| r_prog := RPeek false :: prog; r_k := kk; r_pc := RCall; r_size := sz; r_acc := acc; r_buf := buf;
                         r_have := hv |} with
    | Some (h', t', rc, b) => (to_rb h', rc, b) = peek (to_rb h) /\ r_pc t' = RCall /\ r_prog t' = prog
    | None => False
    end.
Proof. exact seq_peek. Qed.
Print Assumptions C01_seq_peek_is_C07_peek.

(* non-vacuity: a concrete run (the two threads alternating step by step) on a 16-word ring whose pointers start
   at word 13 and whose memory is full of stale marker words: the first chunk wraps around the end of the buffer,
   two chunks are published, one consumed by a blocking read, the other peeked; the third write is refused *)
Example C01_example_run :
  wf_ring ex_ring /\
  g_pub ex_state = [[1; 2; 3; 4; 5]; [161; 161; 161; 161]] /\
  g_got ex_state = [Some [1; 2; 3; 4; 5]] /\
  r_have (g_r ex_state) = true /\ r_buf (g_r ex_state) = [161; 161; 161; 161] /\
  hwpt (g_sh ex_state) = 4 /\ hrpt (g_sh ex_state) = 1 /\ g_err ex_state = false /\
  w_prog (g_w ex_state) = [].
Proof. exact ex_run_ok. Qed.
Print Assumptions C01_example_run.

(* non-vacuity of the drain theorem: the same run continued until the ring is empty and both threads are idle *)
Example C01_example_drained :
  quiescent ex_drained = true /\ hrpt (g_sh ex_drained) = hwpt (g_sh ex_drained) /\
  g_got ex_drained = [Some [1; 2; 3; 4; 5]; Some [161; 161; 161; 161]].
Proof. exact ex_drained_ok. Qed.
Print Assumptions C01_example_drained.

(* non-vacuity of C01_read_returns_next_chunk: a reachable state (Inv) in which the reader's next micro-step is the
   read_pt store of a blocking qb_rb_chunk_read that returns 5 bytes *)
Example C01_example_read_return :
  Inv ex2_before /\ is_read (rcur (g_r ex2_before)) = true /\
  exists s' lab, step TR ex2_before = Some (s', (lab, Some (5, [1; 2; 3; 4; 5]))).
Proof. exact ex2_read_return. Qed.
Print Assumptions C01_example_read_return.

(* non-vacuity of C01_no_lost_wakeup: peek-free reader program, both threads idle, one unread chunk, one token *)
Example C01_example_tokens :
  Forall (fun c => is_peek c = false) [RRead 64 true] /\ quiescent ex2_after = true /\ hsem (g_sh ex2_after) = Some 1 /\
  length (g_pub ex2_after) = 2%nat /\ length (g_got ex2_after) = 1%nat.
Proof. exact ex2_tokens. Qed.
Print Assumptions C01_example_tokens.

(* ---------------------------------------------------------------------------------------------------------------
   increment 2 (requested by the lead)
   --------------------------------------------------------------------------------------------------------------- *)

(* (1) the notifier for readers that peek and then reclaim - the IPC shm server side does exactly that (funcs.peek,
   then funcs.reclaim) - reads and bare reclaims anywhere: tokens in the semaphore + tokens the reader holds (inside a
   read / peek call past its wait, or for the chunk it has peeked and not yet reclaimed) + the writer's pending post
   >= unread chunks, in every reachable state; so whenever a published chunk is unread the count is positive or the
   reader holds a token or the writer is just about to post *)
Theorem C01_tokens_peek_reclaim : forall h pw pr sched c0, wf_ring h -> hsem h = Some c0 -> peek_reclaim pr ->
  let s := exec sched (init h pw pr) in
  exists c, hsem (g_sh s) = Some c /\
            c + held (g_r s) + wtok (g_w s) >= Z.of_nat (length (g_pub s)) - Z.of_nat (length (g_got s)) /\
            ((length (g_got s) < length (g_pub s))%nat -> 0 < c \/ held (g_r s) = 1 \/ wtok (g_w s) = 1).
Proof. exact all_tokens2. Qed.
Print Assumptions C01_tokens_peek_reclaim.

(* ... hence a reader blocked in sem_wait (blocking timedwait) cannot sleep while a chunk is queued and the writer has
   nothing left to do *)
Theorem C01_no_lost_wakeup_deadlock_peek_reclaim : forall h pw pr sched c0, wf_ring h -> hsem h = Some c0 ->
  peek_reclaim pr ->
  let s := exec sched (init h pw pr) in
  r_prog (g_r s) <> [] -> step TR s = None -> step TW s = None ->
  length (g_got s) = length (g_pub s).
Proof. exact all_no_deadlock2. Qed.
Print Assumptions C01_no_lost_wakeup_deadlock_peek_reclaim.

Theorem C01_token_step_peek_reclaim : forall t s s' o, Inv s -> hsem (g_sh s) <> None -> TokInv2 s -> disc (g_r s) ->
  step t s = Some (s', o) -> hsem (g_sh s') <> None /\ TokInv2 s' /\ disc (g_r s').
Proof. exact tok2_step. Qed.
Print Assumptions C01_token_step_peek_reclaim.

(* the same with the discipline as a condition on the RUN instead of on the program text: the IPC server reclaims only
   after a peek that succeeded (lib/ipcs.c:_process_request_), which a static call list cannot express.  If, after every
   prefix of the schedule, a reader that is between calls and holds a peeked chunk has qb_rb_chunk_reclaim as its next
   call, the token bound holds - whatever the other calls are and however the peeks turned out *)
Theorem C01_tokens_when_peeks_are_reclaimed : forall h pw pr sched c0, wf_ring h -> hsem h = Some c0 ->
  every_prefix (fun x => next_is_reclaim (g_r x)) sched (init h pw pr) ->
  let s := exec sched (init h pw pr) in
  exists c, hsem (g_sh s) = Some c /\
            c + held (g_r s) + wtok (g_w s) >= Z.of_nat (length (g_pub s)) - Z.of_nat (length (g_got s)) /\
            ((length (g_got s) < length (g_pub s))%nat -> 0 < c \/ held (g_r s) = 1 \/ wtok (g_w s) = 1).
Proof. exact all_tokens_dyn. Qed.
Print Assumptions C01_tokens_when_peeks_are_reclaimed.

Example C01_example_peeks_reclaimed_run :
  every_prefix (fun x => next_is_reclaim (g_r x)) ex4_sched ex4_init /\
  let s := exec ex4_sched ex4_init in
  hsem (g_sh s) = Some 0 /\ length (g_pub s) = 2%nat /\ length (g_got s) = 1%nat /\ held (g_r s) = 1.
Proof. exact ex4_ok. Qed.
Print Assumptions C01_example_peeks_reclaimed_run.

Example C01_example_peek_reclaim :
  wf_ring ex_ring /\ hsem ex_ring = Some 0 /\
  r_pc (g_r ex3_state) = RCall /\ r_have (g_r ex3_state) = true /\ hsem (g_sh ex3_state) = Some 1 /\
  length (g_pub ex3_state) = 2%nat /\ length (g_got ex3_state) = 0%nat.
Proof. exact ex3_ok. Qed.
Print Assumptions C01_example_peek_reclaim.

(* (2) one state for two handles: no micro-step of either thread changes word_size or the notifier mode; write_pt is
   stored only by the writer, read_pt only by the reader.  (On the implementation side the harness compares both
   private handle structures and word_size / ref_count / path names of the shared header with copies taken before the
   run after every scheduling step.) *)
Theorem C01_static_fields : forall t s s' o, step t s = Some (s', o) ->
  hW (g_sh s') = hW (g_sh s) /\ (hsem (g_sh s') = None <-> hsem (g_sh s) = None) /\
  match t with TW => hrpt (g_sh s') = hrpt (g_sh s) | TR => hwpt (g_sh s') = hwpt (g_sh s) end.
Proof. exact step_static. Qed.
Print Assumptions C01_static_fields.

(* (3) what stands behind the comparison of memory orders (NOT a weak-memory proof: the semantics is SC; these are
   program-order facts about the two micro-step programs).  Every marker access is acquire (loads) / release (stores): *)
Theorem C01_mo_marker_orders : forall h l mo,
  (forall t r, wstep h t = Some r -> (s_lab r = LAWr l mo -> mo = RBC_MO_RELEASE) /\ s_lab r <> LARd l mo) /\
  (forall t r, rstep h t = Some r -> (s_lab r = LAWr l mo -> mo = RBC_MO_RELEASE) /\ (s_lab r = LARd l mo -> mo = RBC_MO_ACQUIRE)).
Proof. exact mo_marker_orders. Qed.
Print Assumptions C01_mo_marker_orders.

(* reader: whatever a step touches in the data area (size word, payload byte, the kill stores) it touches at a pc that is
   program-order-after an acquire load, in the same call, of the marker of that very chunk which returned MAGIC: such a
   pc (r_acquired = Some rp) is entered only by that load (second theorem) and the call starts with none *)
Theorem C01_mo_reader_access_after_acquire : forall h t r, rstep h t = Some r ->
  match s_lab r with
  | LRd (DW i) | LWr (DW i) => r_acquired (r_pc t) = Some i
  | LRdB a => exists rp k, r_acquired (r_pc t) = Some rp /\ r_pc t = RCopy rp k /\
                           a = (4 * ((rp + RB_CHUNK_HEADER_WORDS) mod hW h) + k) mod (4 * hW h)
  | LAWr (DW i) _ => exists old, r_acquired (r_pc t) = Some old /\ i = (old + 1) mod hW h
  | LWrB _ => False
  | _ => True
  end.
Proof. exact r_data_access_after_acquire. Qed.
Print Assumptions C01_mo_reader_access_after_acquire.

Theorem C01_mo_reader_acquire_entry : forall h t r rp, rstep h t = Some r -> r_acquired (r_pc (s_t r)) = Some rp ->
  r_acquired (r_pc t) = Some rp \/
  (s_lab r = LARd (DW ((rp + 1) mod hW h)) RBC_MO_ACQUIRE /\ ldw (hmem h) ((rp + 1) mod hW h) = RB_CHUNK_MAGIC /\
   s_ret r = None).
Proof. exact r_acquire_entry. Qed.
Print Assumptions C01_mo_reader_acquire_entry.

(* writer: every store into the data area happens while the chunk is being filled, and from such a point the call goes
   on filling or performs the release store of MAGIC (the publishing step) - it never returns in between; MAGIC is
   stored by that step only (the other marker stores write ALLOC / DEAD) *)
Theorem C01_mo_writer_store_before_release : forall h t r, wstep h t = Some r ->
  match s_lab r with
  | LWr (DW i) => w_filling (w_pc t) = Some i
  | LWrB a => exists wp k rest, w_pc t = WCopy wp k rest /\
                                a = (4 * ((wp + RB_CHUNK_HEADER_WORDS) mod hW h) + k) mod (4 * hW h)
  | LAWr (DW i) _ => exists wp, w_filling (w_pc t) = Some wp /\ i = (wp + 1) mod hW h
  | LRdB _ => False
  | _ => True
  end.
Proof. exact w_data_store_before_release. Qed.
Print Assumptions C01_mo_writer_store_before_release.

Theorem C01_mo_writer_filling_ends_in_release : forall h t r, wstep h t = Some r -> w_filling_any (w_pc t) = true ->
  (w_filling_any (w_pc (s_t r)) = true /\ s_ret r = None /\ s_gh r = GNone) \/
  (exists old, w_pc t = WStMagic old /\ s_lab r = LAWr (DW ((old + 1) mod hW h)) RBC_MO_RELEASE /\
               s_gh r = GPub (wdata t) /\ hmem (s_sh r) = stw (hmem h) ((old + 1) mod hW h) RB_CHUNK_MAGIC).
Proof. exact w_filling_ends_in_release. Qed.
Print Assumptions C01_mo_writer_filling_ends_in_release.

Theorem C01_mo_marker_values : forall h i mo,
  (forall t r, wstep h t = Some r -> s_lab r = LAWr (DW i) mo ->
     (hmem (s_sh r) = stw (hmem h) i RB_CHUNK_MAGIC /\ exists d, s_gh r = GPub d) \/
     (hmem (s_sh r) = stw (hmem h) i RB_CHUNK_MAGIC_ALLOC /\ s_gh r = GNone)) /\
  (forall t r, rstep h t = Some r -> s_lab r = LAWr (DW i) mo -> hmem (s_sh r) = stw (hmem h) i RB_CHUNK_MAGIC_DEAD).
Proof. exact mo_marker_values. Qed.
Print Assumptions C01_mo_marker_values.
