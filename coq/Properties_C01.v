(* C01 - ring buffer, one writer + one reader: the property theorems.  Statements only; each is closed by `exact`.
   The model (RbConcModel.v) transcribes qb_rb_chunk_write / read / peek / reclaim of lib/ringbuffer.c as sequences
   of micro-steps (one per shared access or semaphore operation; payload copies one step per byte);
   `exec sched (init h pw pr)` is the state after an arbitrary schedule `sched` of an arbitrary writer program
   `pw` and reader program `pr` on an arbitrary ring `h`. *)
From Coq Require Import ZArith List Bool.
Require Import Verif.gen.Consts_rb Verif.gen.Consts_rbconc Verif.RbModel Verif.RbConcModel Verif.RbConcProofs.
Import ListNotations.
Local Open Scope Z_scope.

(* side conditions on constants regenerated from /repo: the three marker words are pairwise distinct and non-zero,
   the margin is header + 1 words, the memory orders used for the marker are not relaxed *)
Theorem C01_consts_ok :
  RB_CHUNK_MAGIC <> RB_CHUNK_MAGIC_ALLOC /\ RB_CHUNK_MAGIC <> RB_CHUNK_MAGIC_DEAD /\
  RB_CHUNK_MAGIC_ALLOC <> RB_CHUNK_MAGIC_DEAD /\
  0 < RB_CHUNK_MAGIC < two32 /\ 0 < RB_CHUNK_MAGIC_ALLOC < two32 /\ 0 < RB_CHUNK_MAGIC_DEAD < two32 /\
  RB_CHUNK_MARGIN = RB_SIZEOF_WORD * (RB_CHUNK_HEADER_WORDS + 1) /\ RB_CHUNK_HEADER_WORDS = 2 /\
  RBC_MO_ACQUIRE <> RBC_MO_RELAXED /\ RBC_MO_RELEASE <> RBC_MO_RELAXED /\ RBC_MO_ACQUIRE <> RBC_MO_RELEASE /\
  RBC_HDR_WPT_IDX <> RBC_HDR_RPT_IDX.
Proof. exact conc_consts_ok. Qed.
Print Assumptions C01_consts_ok.

(* a write that returns -EAGAIN performed no store: the return comes from the free-space test (second step of the
   call), and neither that step nor the first step of the call changes the shared state or the ghost logs *)
Theorem C01_refusal_pure : forall h t r l, wstep h t = Some r -> s_ret r = Some (- RB_EAGAIN, l) ->
  (exists w1, w_pc t = WRdRpt w1) /\ s_sh r = h /\ s_gh r = GNone /\ s_err r = false.
Proof. exact refusal_from_test. Qed.
Print Assumptions C01_refusal_pure.

Theorem C01_refusal_pure_first_step : forall h t r, wstep h t = Some r -> w_pc t = WCall ->
  s_sh r = h /\ s_ret r = None /\ exists w1, w_pc (s_t r) = WRdRpt w1.
Proof. exact call_first_step. Qed.
Print Assumptions C01_refusal_pure_first_step.
