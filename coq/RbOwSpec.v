(* C11: what "the overwrite ring keeps the newest chunks" means, as definitions over the abstract queue of
   RbSpec.v (ow_spec_step: the writer drops oldest chunks until the reservation is accepted).  No proofs.

   A written chunk is recorded with the size that was RESERVED for it (qb_rb_chunk_alloc) and the bytes that
   were committed; qb_rb_chunk_write reserves exactly what it commits, the blackbox reserves more. *)
From Coq Require Import ZArith List Bool.
Import ListNotations.
Require Import Verif.gen.Consts_rb Verif.RbModel Verif.RbSpec.
Local Open Scope Z_scope.

Definition wchunk := (Z * chunk)%type.            (* (reserved length, committed bytes) *)
Definition plain (d : chunk) : wchunk := (zlen d, d).

(* l is a suffix of m: the newest |l| elements of m *)
Definition suffix {A} (l m : list A) : Prop := exists p, m = p ++ l.
Definition lastn {A} (n : nat) (l : list A) : list A := skipn (length l - n) l.

(* the newest chunks l "fit in the requested size S when each is counted with 16 bytes of overhead":
   at the moment each of them was written, the chunks of l before it (len + 16 each) plus its own
   reservation + 16 did not exceed S.  For plain writes this is  sum (len + 16) <= S  (RbOwProofs.rfits_plain). *)
Fixpoint rfits_from (S acc : Z) (l : list wchunk) : bool :=
  match l with
  | [] => true
  | (r, d) :: t => (acc + r + 16 <=? S) && rfits_from S (acc + zlen d + 16) t
  end.
Definition rfits (S : Z) (l : list wchunk) : bool := rfits_from S 0 l.

(* operations the property speaks about: no reservation above the requested size, commit <= reservation *)
Definition wf_ow (S : Z) (o : op) : Prop :=
  match o with
  | OWrite d => zlen d <= S
  | OAllocCommit rlen d => zlen d <= rlen /\ rlen <= S
  | _ => True
  end.

Definition is_write (o : op) : bool :=
  match o with OWrite _ | OAllocCommit _ _ => true | _ => false end.

(* ghost history: the chunks written since the owner last took a chunk out (by read or reclaim), oldest
   first, INCLUDING the ones the writer has meanwhile dropped.  When the owner takes the oldest readable
   chunk, everything up to and including it is forgotten. *)
Definition ghost_step (W : Z) (s : spec) (pend : list wchunk) (o : op) : list wchunk :=
  match o with
  | OWrite d => pend ++ [plain d]
  | OAllocCommit rlen d => pend ++ [(rlen, d)]
  | _ => let s' := fst (ow_spec_step W s o) in
         if (length (sq s') <? length (sq s))%nat then lastn (length (sq s')) pend else pend
  end.

Fixpoint ghost_run (W : Z) (s : spec) (pend : list wchunk) (ops : list op) : spec * list wchunk :=
  match ops with
  | [] => (s, pend)
  | o :: t => ghost_run W (fst (ow_spec_step W s o)) (ghost_step W s pend o) t
  end.

(* THE PROPERTY, as a relation between the history and the readable queue q:
   q is exactly the newest |q| chunks of the history (in order, byte-identical), it is not empty unless the
   history is (k >= 1: the very last chunk written is there), and it contains every run of newest chunks
   that fits *)
Definition Keeps (S : Z) (pend : list wchunk) (q : list chunk) : Prop :=
  suffix q (map snd pend) /\
  (pend <> [] -> q <> []) /\
  forall l, suffix l pend -> rfits S l = true -> suffix (map snd l) q.

(* all outputs of write operations report success (return value = okval, never an error, never out of fuel) *)
Definition write_ok (o : op) (y : obs) : Prop :=
  match o with
  | OWrite d => y = Some (zlen d, [])
  | OAllocCommit _ _ => y = Some (0, [])
  | _ => True
  end.

(* ------------------------------------------------------------------ reading the contents back *)
(* drain: qb_rb_chunk_read in a loop until it fails (what tools/qb_blackbox and
   qb_log_blackbox_print_from_file do); n = size of the caller's buffer *)
Fixpoint drain (fuel : nat) (b : rb) (n : Z) : list chunk :=
  match fuel with
  | O => []
  | S f => let '(b1, r, bytes) := read b n in
           if r <? 0 then [] else bytes :: drain f b1 n
  end.

(* qb_rb_write_to_file followed by qb_rb_create_from_file: a NO_SEMAPHORE, non-overwriting ring with the
   word_size, write_pt, read_pt and data bytes of the dumped one (the file transports the five header words
   and the 4*word_size data bytes unchanged; header validation is C15's subject). *)
Definition rb_of_file (b : rb) : rb :=
  {| rW := rW b; wpt := wpt b; rpt := rpt b; data := data b; sem := None; ovw := false |}.

(* contents of a dump taken now (the live ring is not modified) *)
Definition readback (b : rb) (n : Z) : list chunk := drain (Z.to_nat (rW b)) (rb_of_file b) n.

(* a sequence of writes (reserve, commit) on the model; None as soon as one does not return 0 *)
Fixpoint ow_writes (b : rb) (ws : list wchunk) : option rb :=
  match ws with
  | [] => Some b
  | (rlen, d) :: t =>
      match alloc_commit b rlen d with
      | WRet b1 r => if r =? 0 then ow_writes b1 t else None
      | WFuel => None
      end
  end.
