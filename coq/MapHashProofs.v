(* MapHashProofs - witnesses on the pointer-level hashtable model (layer B): the repository code (v_orig) violates
   C17 and C18 on concrete histories (replayed on the real library: see fixes/C17-hashtable-*.msg, C18-hashtable-*.msg),
   the repaired code (v_fixed) does not; plus the masking lemma that ties [bucket_ix] to hash_fnv()'s "& ((1 << order) - 1)". *)
From Coq Require Import List NArith ZArith Bool Arith Lia.
Require Import Verif.MapSpec Verif.MapHashModel Verif.gen.Consts_map.
Import ListNotations.

Definition hf8 : key -> N := hash_fnv_raw (Z.to_N MAP_FNV_32_PRIME) (order_of 8%N).
Definition ka : key := [97%N].
Definition kb : key := [98%N].

(* C17: put a; foreach abandoned at the first entry; rm a (reports success); get a *)
Definition h_wit17 : list op := [Put ka 1%N; Foreach 1; Rm ka; Get ka; Count; Rm ka; Count].
(* C18: put a; iterator parked on a; rm a twice; advance the iterator *)
Definition h_wit18 : list op := [Put ka 1%N; IterCreate 0 None; IterNext 0; Rm ka; Get ka; Rm ka; IterNext 0].

Definition outs {A} (x : list (out * A) * option error) : list out := map fst (fst x).

Lemma hash_c17_refuted_orig :
  outs (h_run v_orig hf8 rc_consts (h_create 8%N) h_wit17) =
  [ONone; OEntries [(ka, 1%N)]; OBool true; OVal 1%N; OCount 0%N; OBool true; OCount 18446744073709551615%N].
Proof. vm_compute. reflexivity. Qed.

Lemma hash_c17_witness_fixed :
  outs (h_run v_fixed hf8 rc_consts (h_create 8%N) h_wit17) =
  [ONone; OEntries [(ka, 1%N)]; OBool true; OVal 0%N; OCount 0%N; OBool false; OCount 0%N] /\
  snd (h_run v_fixed hf8 rc_consts (h_create 8%N) h_wit17) = None.
Proof. vm_compute. split; reflexivity. Qed.

Lemma hash_c18_refuted_orig :
  snd (h_run v_orig hf8 rc_consts (h_create 8%N) h_wit18) = Some (UseAfterFree 0) /\
  outs (h_run v_orig hf8 rc_consts (h_create 8%N) h_wit18) =
  [ONone; ONone; ONext (Some (ka, 1%N)); OBool true; OVal 1%N; OBool true].
Proof. vm_compute. split; reflexivity. Qed.

Lemma hash_c18_witness_fixed :
  snd (h_run v_fixed hf8 rc_consts (h_create 8%N) h_wit18) = None /\
  outs (h_run v_fixed hf8 rc_consts (h_create 8%N) h_wit18) =
  [ONone; ONone; ONext (Some (ka, 1%N)); OBool true; OVal 0%N; OBool false; ONext None].
Proof. vm_compute. split; reflexivity. Qed.

(* the specification's answers on the C17 witness (any flavour) *)
Lemma spec_on_wit17 : forall fl,
  map fst (spec_run fl s_init h_wit17) =
  [ONone; OEntries (take_stop 1 (fl_ord fl [(ka, 1%N)])); OBool true; OVal 0%N; OCount 0%N; OBool false; OCount 0%N].
Proof. intros. reflexivity. Qed.

(* hash_fnv(): "res & ((1 << order) - 1)" is "res mod 2^order" *)
Lemma mask_is_mod : forall (x : N) (order : nat),
  N.land x (N.shiftl 1 (N.of_nat order) - 1) = (x mod N.of_nat (2 ^ order))%N.
Proof.
  intros. rewrite N.shiftl_1_l, N.sub_1_r, <- N.ones_equiv, N.land_ones.
  f_equal. rewrite Nat2N.inj_pow. reflexivity.
Qed.

(* the bucket index is always inside the table that h_create allocates *)
Lemma bucket_ix_in_range : forall (hf : key -> N) max_size k,
  bucket_ix hf (h_create max_size) k < length (h_buckets (h_create max_size)).
Proof.
  intros. unfold bucket_ix, nb, h_create. simpl. rewrite repeat_length.
  assert (2 ^ order_of max_size <> 0) by (apply Nat.pow_nonzero; lia).
  assert (N.of_nat (2 ^ order_of max_size) <> 0%N) by lia.
  generalize (N.mod_upper_bound (hf k) _ H0). lia.
Qed.

Lemma map_consts_ok :
  (MAP_NOTIFY_DELETED = Z.of_N EV_DELETED /\ MAP_NOTIFY_REPLACED = Z.of_N EV_REPLACED /\ MAP_NOTIFY_INSERTED = Z.of_N EV_INSERTED /\
   MAP_NOTIFY_RECURSIVE = Z.of_N EV_RECURSIVE /\ MAP_NOTIFY_FREE = Z.of_N EV_FREE /\
   MAP_SIZEOF_COUNT = 8 /\ MAP_SIZEOF_LENGTH = 8 /\ 0 < MAP_FNV_32_PRIME < 4294967296 /\
   MAP_EINVAL <> MAP_ENOENT /\ MAP_EEXIST <> MAP_ENOENT /\ MAP_EINVAL <> MAP_EEXIST)%Z.
Proof. vm_compute. repeat split; congruence. Qed.
